/-
  The undirected triangle models (`get_neighbors_of_nodes`, `get_triangles_and_degrees`) computed in closed form.
-/
import GraphrsModel.Lemmas.C11ModelNbr
namespace Graphrs
namespace C11M
open C02 C11aux

theorem neighborsOfNodes_none (s : Store) (h : s.wf = true) (hd : s.specs.directed = false) :
    s.neighborsOfNodes none = .ok (s.names.map fun n => (n, nm s n)) := by
  unfold Store.neighborsOfNodes
  simp only [getAllNodeNames_eq]
  rw [foldl_ok_gen _ (fun m n => ainsert m n (nm s n))]
  · rw [foldl_ainsert_fresh (nm s) s.names [] (by simpa using names_nodup s h)]
    simp
  · intro acc x hx
    have hx' := (hasNode_mem' s h x).2 hx
    simp [bind, Outcome.bind, namesOf_nbr s h hd x hx', Outcome.unwrap, dedup_nm s h hd x hx']

/-- per-neighbour triangle counts at `v` as the model computes them -/
def counts (s : Store) (v : Nat) : List Nat := (mN s v).map fun w => (sinter (mN s w) (mN s v)).length

def tadOf (s : Store) (v : Nat) : Store.TAD :=
  ⟨v, (mN s v).length, sumNat ((Store.countMap (counts s v)).map fun kv => kv.1 * kv.2), Store.countMap (counts s v)⟩

/-- the node list `get_triangles_and_degrees` iterates over -/
def reqT (s : Store) (names : Option (List Nat)) : List Nat :=
  match names with
  | none => s.names
  | some l => if l.isEmpty then s.names else dedup l

theorem alookup_nmap (s : Store) (x : Nat) (hx : x ∈ s.names) :
    alookup (s.names.map fun n => (n, nm s n)) x = some (nm s x) := by
  rw [C09M.alookup_map_self]; simp [hx]

theorem akeys_nmap (s : Store) : akeys (s.names.map fun n => (n, nm s n)) = s.names := by
  simp [akeys, List.map_map, Function.comp_def]

theorem trianglesAndDegrees_ok (s : Store) (h : s.wf = true) (hd : s.specs.directed = false) (names : Option (List Nat))
    (hn : ∀ x ∈ reqT s names, s.hasNode x = true) :
    s.trianglesAndDegrees names = .ok ((reqT s names).map (tadOf s)) := by
  unfold Store.trianglesAndDegrees
  rw [neighborsOfNodes_none s h hd]
  simp only [bind, Outcome.bind, akeys_nmap]
  show List.foldl _ _ (reqT s names) = _
  rw [foldl_ok_map _ (tadOf s) (reqT s names)]
  · simp
  · intro acc v hv
    have hv' := hn v hv
    have hvn := (hasNode_mem' s h v).1 hv'
    simp only [alookup_nmap s v hvn, Outcome.ofOption]
    rw [foldl_ok_map _ (fun w => (sinter (mN s w) (mN s v)).length)]
    · rfl
    · intro acc w hw
      have hw' := mN_hasNode s h hd v hv' w hw
      have hwn := (hasNode_mem' s h w).1 hw'
      simp only [alookup_nmap s w hwn]
      rfl

theorem adjacent_iff (a : Abs) (w k : Nat) : a.adjacent w k = true ↔ k ∈ a.N w := by
  simp only [Abs.adjacent, Bool.and_eq_true, bne_iff_ne, ne_eq, List.contains_iff_mem]
  constructor
  · exact fun hh => hh.2
  · intro hk
    refine ⟨?_, hk⟩
    intro e
    subst e
    exact C11_N_irrefl a w hk

/-- the model's per-neighbour count is the spec's -/
theorem count_eq (s : Store) (h : s.wf = true) (hd : s.specs.directed = false) (v : Nat) (hv : s.hasNode v = true)
    (w : Nat) (hw : s.hasNode w = true) :
    (sinter (mN s w) (mN s v)).length = ((s.abs.N v).filter fun k => s.abs.adjacent w k).length := by
  unfold sinter
  rw [inter_length_symm _ _ (mN_nodup s h hd w hw) (mN_nodup s h hd v hv)]
  apply filter_length_perm _ _ (mN_perm s h hd v hv)
  intro k _
  rw [Bool.eq_iff_iff, adjacent_iff, decide_eq_true_eq, mem_mN s h hd w hw]

theorem sumNat_counts (s : Store) (h : s.wf = true) (hd : s.specs.directed = false) (v : Nat) (hv : s.hasNode v = true) :
    sumNat (counts s v) = 2 * s.abs.trianglesAt v := by
  rw [← C11_triangle_count_identity, C09M.sumNat_eq_sum, C09M.sumNat_eq_sum]
  unfold counts
  have e : (mN s v).map (fun w => (sinter (mN s w) (mN s v)).length)
      = (mN s v).map (fun w => ((s.abs.N v).filter fun k => s.abs.adjacent w k).length) := by
    apply List.map_congr_left
    intro w hw
    exact count_eq s h hd v hv w (mN_hasNode s h hd v hv w hw)
  rw [e]
  exact ((mN_perm s h hd v hv).map _).sum_eq

theorem tad_ntri (s : Store) (h : s.wf = true) (hd : s.specs.directed = false) (v : Nat) (hv : s.hasNode v = true) :
    (tadOf s v).ntri = 2 * s.abs.trianglesAt v := by
  show sumNat ((Store.countMap (counts s v)).map fun kv => kv.1 * kv.2) = _
  rw [countMap_sum, sumNat_counts s h hd v hv]

theorem tad_degree (s : Store) (h : s.wf = true) (hd : s.specs.directed = false) (v : Nat) (hv : s.hasNode v = true) :
    (tadOf s v).degree = (s.abs.N v).length := mN_length s h hd v hv

theorem tad_name (s : Store) (v : Nat) : (tadOf s v).name = v := rfl

end C11M
end Graphrs
