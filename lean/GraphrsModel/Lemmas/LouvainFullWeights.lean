/-
  Lemmas for Props/C13TerminationFull.lean: the edge weights of the level graphs.
  `generate_graph` only ever stores sums of stored weights, so a level graph built from a graph without negative
  weights has no negative weight (`generateGraph_edgesNN`).
-/
import GraphrsModel.Lemmas.LouvainFullDefs
import GraphrsModel.Lemmas.LouvainTermInit
import GraphrsModel.Lemmas.C12WAux
namespace Graphrs
open LouvainFull
namespace LF

/-- no stored weight is negative (NaN = `none` is allowed) -/
def EdgesNN (g : Store) : Prop := ∀ e ∈ g.allEdges, LT.WNN e.w

theorem EdgesNN.iff (g : Store) : EdgesNN g ↔ ∀ e ∈ g.allEdges, ∀ w, e.w = some w → 0 ≤ w := Iff.rfl

theorem absEq_mem {a b : Abs} (h : AbsEq a b) (e : Edge) : e ∈ a.edges ↔ e ∈ b.edges :=
  (C09M.absEq_edges_perm h).mem_iff

/-! ### abstract `add_edge`: every stored edge is an old one or carries the new weight -/

theorem abs_addNode_edges (a : Abs) (n : Node) : (a.addNode n).edges = a.edges := by
  unfold Abs.addNode
  split <;> rfl

theorem canon_w (d : Bool) (e : Edge) : (Abs.canon d e).w = e.w := by
  unfold Abs.canon Edge.ordered Edge.reversed
  split
  · rfl
  · split <;> rfl

theorem abs_addEdge_edges (sp : Specs) (a : Abs) (e : Edge) :
    ∀ e' ∈ (Abs.addEdge sp a e).1.edges, e' ∈ a.edges ∨ e'.w = e.w := by
  intro e' he'
  have h2 : ∀ (a1 : Abs), a1.edges = a.edges →
      (if a1.hasNode e.v = true then a1 else a1.addNode ⟨e.v, none⟩).edges = a.edges := by
    intro a1 h1
    split
    · exact h1
    · rw [abs_addNode_edges]; exact h1
  have h1 : (if a.hasNode e.u = true then a else a.addNode ⟨e.u, none⟩).edges = a.edges := by
    split
    · rfl
    · rw [abs_addNode_edges]
  have h12 := h2 _ h1
  have key : ∀ a2 : Abs, a2.edges = a.edges →
      e' ∈ (if (sp.multi || !(a2.edges.any fun e' => Abs.sameKey sp.directed e' e.u e.v)) = true then
              (({ a2 with edges := a2.edges ++ [Abs.canon sp.directed e] } : Abs), (none : Option ErrKind))
            else
              match sp.dedupe with
              | .error => (a, some .DuplicateEdge)
              | .keepFirst => (a2, none)
              | .keepLast =>
                ({ a2 with edges := a2.edges.map fun e' =>
                    if Abs.sameKey sp.directed e' e.u e.v then Abs.canon sp.directed e else e' }, none)).1.edges →
      e' ∈ a.edges ∨ e'.w = e.w := by
    intro a2 ha2 hmem
    split at hmem
    · simp only [List.mem_append, List.mem_singleton] at hmem
      rcases hmem with h | h
      · rw [ha2] at h; exact Or.inl h
      · right; rw [h, canon_w]
    · split at hmem
      · exact Or.inl hmem
      · rw [ha2] at hmem; exact Or.inl hmem
      · simp only [List.mem_map] at hmem
        obtain ⟨e0, h0, h0'⟩ := hmem
        rw [ha2] at h0
        split at h0'
        · right; rw [← h0', canon_w]
        · left; rw [← h0']; exact h0
  unfold Abs.addEdge at he'
  by_cases c1 : (!sp.selfLoops && e.u == e.v) = true
  · rw [if_pos c1] at he'
    split at he' <;> exact Or.inl he'
  · rw [if_neg c1] at he'
    by_cases c2 : (sp.missing == .error && (!a.hasNode e.u || !a.hasNode e.v)) = true
    · rw [if_pos c2] at he'; exact Or.inl he'
    · rw [if_neg c2] at he'
      exact key _ h12 he'

theorem addEdge_edgesNN (g : Store) (hwf : g.wf = true) (e : Edge) (hnn : EdgesNN g) (he : LT.WNN e.w) :
    EdgesNN (g.addEdge e).1 := by
  have hr := (C01_addEdge_refines g e g.abs hwf ⟨rfl, fun _ => rfl⟩).2
  intro e' he'
  have : e' ∈ (Abs.addEdge g.specs g.abs e).1.edges := (absEq_mem hr e').1 he'
  rcases abs_addEdge_edges g.specs g.abs e e' this with h | h
  · exact hnn e' h
  · rw [h]; exact he

/-! ### `get_edge` returns a stored edge -/

theorem getEdge_ok_mem (g : Store) (hwf : g.wf = true) (u v : Nat) (x : Edge) (h : g.getEdge u v = .ok x) :
    x ∈ g.allEdges := by
  have hn := C02.nodesP_of g (C09M.wf_parts g hwf).1
  by_cases hm : g.specs.multi = true
  · rw [(C02_pair_errors g u v).1 hm] at h; cases h
  · have hm' : g.specs.multi = false := by simpa using hm
    by_cases hu : g.hasNode u = true
    · by_cases hv : g.hasNode v = true
      · rw [C02_getEdge g hwf hm' u v hu hv] at h
        cases hb : g.abs.between g.specs.directed u v with
        | nil => rw [hb] at h; cases h
        | cons e l =>
          rw [hb] at h
          cases h
          have : x ∈ g.abs.between g.specs.directed u v := by rw [hb]; simp
          exact List.mem_of_mem_filter this
      · have : acontains g.nodesMap v = false := by
          cases hl : alookup g.nodesMap v with
          | none => simp [acontains, hl]
          | some i => exact absurd ((C02.hasNode_iff hn v).2 ⟨i, hl⟩) hv
        rw [(C02_pair_errors g u v).2.2.1 hm' (Or.inr this)] at h; cases h
    · have : acontains g.nodesMap u = false := by
        cases hl : alookup g.nodesMap u with
        | none => simp [acontains, hl]
        | some i => exact absurd ((C02.hasNode_iff hn u).2 ⟨i, hl⟩) hu
      rw [(C02_pair_errors g u v).2.2.1 hm' (Or.inl this)] at h; cases h

/-! ### the empty graph `generate_graph` starts from -/

theorem poison_edges (s : Store) (site : String) : (s.poison site).edges = s.edges := by
  unfold Store.poison
  split <;> rfl

theorem addNode_edges (s : Store) (n : Node) : (s.addNode n).edges = s.edges := by
  unfold Store.addNode
  split
  · dsimp only
    split
    · rfl
    · exact poison_edges s _
  · rfl

theorem foldl_addNode_edges (ns : List Node) (s : Store) : (ns.foldl Store.addNode s).edges = s.edges := by
  induction ns generalizing s with
  | nil => rfl
  | cons n ns ih => rw [List.foldl_cons, ih, addNode_edges]

theorem g0_edges (sp : Specs) (L : Nat) :
    ((List.range L).foldl (fun g i => g.addNode ⟨i, none⟩) (Store.new sp)).allEdges = [] := by
  have e : (List.range L).foldl (fun g i => g.addNode ⟨i, none⟩) (Store.new sp) =
      ((List.range L).map fun i => (⟨i, none⟩ : Node)).foldl Store.addNode (Store.new sp) := by
    rw [List.foldl_map]
  rw [e]
  unfold Store.allEdges
  rw [foldl_addNode_edges]
  rfl

/-! ### `generate_graph` -/

theorem generateGraph_edgesNN (lv : Level) (inner : List (List Nat)) (lv' : Level) (hnn : EdgesNN lv.g)
    (h : generateGraph lv inner = .ok lv') : EdgesNN lv'.g := by
  unfold generateGraph at h
  simp only [bind] at h
  split at h
  · rw [bind_ok] at h
    generalize hfold : List.foldl _ _ lv.g.allEdges = o at h
    cases o with
    | err k => cases h
    | panic k => cases h
    | ok g =>
      rw [bind_ok] at h
      cases h
      show EdgesNN g
      obtain ⟨w0, _, _⟩ := g0_ok { lv.g.specs with selfLoops := true, dedupe := .keepLast } inner.length
      have hP := foldl_ok_inv (fun g : Store => g.wf = true ∧ EdgesNN g) _ ?_ lv.g.allEdges ?_ _ g hfold
        ⟨w0, by intro e he; rw [g0_edges] at he; cases he⟩
      · exact hP.2
      · intro o x b hb
        cases o with
        | ok a => exact ⟨a, rfl⟩
        | err k => cases hb
        | panic k => cases hb
      · intro a e b he hb ha
        simp only [Outcome.bind] at hb
        cases hc1 : alookup (List.foldl (fun m p => List.foldl (fun m x => ainsert m x p.2) m p.1) [] inner.zipIdx) e.u with
        | none => rw [hc1] at hb; cases hb
        | some c1 =>
          cases hc2 : alookup (List.foldl (fun m p => List.foldl (fun m x => ainsert m x p.2) m p.1) [] inner.zipIdx) e.v with
          | none => rw [hc1, hc2] at hb; cases hb
          | some c2 =>
            rw [hc1, hc2] at hb
            simp only [Outcome.ofOption] at hb
            split at hb
            next g' heq =>
              cases hb
              generalize hX : W.add e.w _ = wnew at heq
              have hw : LT.WNN wnew := by
                rw [← hX]
                refine LT.WNN_add (hnn e he) ?_
                split
                next x hx => exact ha.2 x (getEdge_ok_mem a ha.1 c1 c2 x hx)
                next => intro y hy; cases hy; exact le_refl _
              have hnew := addEdge_edgesNN a ha.1 ⟨c1, c2, wnew, none⟩ ha.2 hw
              have hwf' := Core_addEdge_wf a ⟨c1, c2, wnew, none⟩ ha.1
              rw [heq] at hnew hwf'
              exact ⟨hwf', hnew⟩
            next => cases hb
  · cases h

end LF
end Graphrs
