/-
  Helper lemmas for Props/C10Model.lean (part 2): totality of the BFS model, the component folds as pure folds,
  and the plain BFS of weak_connectivity.rs.
-/
import GraphrsModel.Lemmas.C10Base
namespace Graphrs
namespace C10M
open C02

/-! ### totality of `bfsLevels` -/

/-- the per-level fold step of `bfsLevels` (copied verbatim) -/
def bfsStep (s : Store) :
    Outcome (List Nat × List Nat × List Nat) → Nat → Outcome (List Nat × List Nat × List Nat) :=
  fun (acc : Outcome (List Nat × List Nat × List Nat)) v => do
        let (seen, ret, next) ← acc
        if seen.contains v then .ok (seen, ret, next)
        else do
          let nb ← s.getSuccessorsOrNeighbors v
          .ok (sinsert seen v, ret ++ [v], sunion next (dedup (nb.map (·.name))))

theorem bfsLevels_succ (s : Store) (fuel : Nat) (level seen ret : List Nat) :
    s.bfsLevels (fuel + 1) level seen ret =
      if level.isEmpty then .ok ret
      else match level.foldl (bfsStep s) (.ok (seen, ret, [])) with
        | .ok (seen, ret, next) => s.bfsLevels fuel next seen ret
        | .err k => .err k
        | .panic site => .panic site := by
  rw [Store.bfsLevels]
  rfl

theorem bfsFold_total (s : Store)
    (hok : ∀ v ∈ s.getAllNodeNames, ∃ l, s.getSuccessorsOrNeighbors v = .ok l ∧ ∀ z ∈ l.map (·.name), z ∈ s.getAllNodeNames)
    (level : List Nat) :
    ∀ (seen ret next : List Nat), (∀ v ∈ level, v ∈ s.getAllNodeNames) → (∀ v ∈ next, v ∈ s.getAllNodeNames) →
      ∃ seen' ret' next', level.foldl (bfsStep s) (.ok (seen, ret, next)) = .ok (seen', ret', next') ∧
        ∀ v ∈ next', v ∈ s.getAllNodeNames := by
  induction level with
  | nil => intro seen ret next _ hn; exact ⟨seen, ret, next, rfl, hn⟩
  | cons v vs ih =>
    intro seen ret next hl hn
    rw [List.foldl_cons]
    obtain ⟨l, hl1, hl2⟩ := hok v (hl v List.mem_cons_self)
    have hvs : ∀ w ∈ vs, w ∈ s.getAllNodeNames := fun w hw => hl w (List.mem_cons_of_mem _ hw)
    have hstep : bfsStep s (.ok (seen, ret, next)) v =
        (if seen.contains v then Outcome.ok (seen, ret, next)
         else (s.getSuccessorsOrNeighbors v).bind fun nb =>
          .ok (sinsert seen v, ret ++ [v], sunion next (dedup (nb.map (·.name))))) := rfl
    rw [hstep, hl1]
    by_cases hc : seen.contains v = true
    · rw [if_pos hc]; exact ih seen ret next hvs hn
    · rw [if_neg hc]
      simp only [Outcome.bind]
      apply ih _ _ _ hvs
      intro w hw
      rw [mem_sunion, mem_dedup] at hw
      rcases hw with hw | hw
      · exact hn w hw
      · exact hl2 w hw

theorem bfsLevels_total (s : Store)
    (hok : ∀ v ∈ s.getAllNodeNames, ∃ l, s.getSuccessorsOrNeighbors v = .ok l ∧ ∀ z ∈ l.map (·.name), z ∈ s.getAllNodeNames) :
    ∀ (fuel : Nat) (level seen ret : List Nat), (∀ v ∈ level, v ∈ s.getAllNodeNames) →
      ∃ out, s.bfsLevels fuel level seen ret = .ok out := by
  intro fuel
  induction fuel with
  | zero => intro level seen ret _; exact ⟨ret, by rw [Store.bfsLevels]⟩
  | succ fuel ih =>
    intro level seen ret hl
    rw [bfsLevels_succ]
    by_cases he : level.isEmpty = true
    · rw [if_pos he]; exact ⟨ret, rfl⟩
    · rw [if_neg he]
      obtain ⟨seen', ret', next', hf, hn⟩ := bfsFold_total s hok level seen ret [] hl (by simp)
      rw [hf]
      exact ih next' seen' ret' hn

theorem bfs_total (s : Store)
    (hok : ∀ v ∈ s.getAllNodeNames, ∃ l, s.getSuccessorsOrNeighbors v = .ok l ∧ ∀ z ∈ l.map (·.name), z ∈ s.getAllNodeNames)
    (x : Nat) (hx : x ∈ s.getAllNodeNames) : ∃ out, s.breadthFirstSearch x = .ok out := by
  unfold Store.breadthFirstSearch
  exact bfsLevels_total s hok _ _ _ _ (by simpa using hx)

/-! ### `connectedComponents` as a pure fold -/

/-- the BFS answer (empty on an error; never on a well-formed store) -/
def bfsOf (s : Store) (v : Nat) : List Nat :=
  match s.breadthFirstSearch v with
  | .ok b => b
  | _ => []

theorem bfsOf_eq (s : Store) (v : Nat) (b : List Nat) (h : s.breadthFirstSearch v = .ok b) : bfsOf s v = b := by
  unfold bfsOf; rw [h]

theorem ccFold_ok (s : Store) (htot : ∀ v ∈ s.getAllNodeNames, ∃ out, s.breadthFirstSearch v = .ok out)
    (F : Outcome (List Nat × List (List Nat)) → Nat → Outcome (List Nat × List (List Nat)))
    (hF : ∀ seen comps v, F (.ok (seen, comps)) v =
      if seen.contains v then .ok (seen, comps)
      else (s.breadthFirstSearch v).bind fun b => .ok (sunion seen (dedup b), comps ++ [dedup b]))
    (l : List Nat) (hl : ∀ v ∈ l, v ∈ s.getAllNodeNames) (acc : List Nat × List (List Nat)) :
    l.foldl F (.ok acc) = .ok (l.foldl (compStep fun v => dedup (bfsOf s v)) acc) := by
  induction l generalizing acc with
  | nil => rfl
  | cons v vs ih =>
    obtain ⟨seen, comps⟩ := acc
    rw [List.foldl_cons, List.foldl_cons, hF]
    obtain ⟨b, hb⟩ := htot v (hl v List.mem_cons_self)
    have hstep : (if seen.contains v then Outcome.ok (seen, comps)
        else (s.breadthFirstSearch v).bind fun b => .ok (sunion seen (dedup b), comps ++ [dedup b])) =
        .ok (compStep (fun v => dedup (bfsOf s v)) (seen, comps) v) := by
      unfold compStep
      by_cases hc : seen.contains v = true
      · simp only [hc, if_true]
      · simp only [hc, hb, Outcome.bind, bfsOf_eq s v b hb]
        rfl
    rw [hstep]
    exact ih (fun w hw => hl w (List.mem_cons_of_mem _ hw)) _

theorem connectedComponents_eq (s : Store) (hd : s.specs.directed = false)
    (htot : ∀ v ∈ s.getAllNodeNames, ∃ out, s.breadthFirstSearch v = .ok out) :
    s.connectedComponents = .ok (s.getAllNodeNames.foldl (compStep fun v => dedup (bfsOf s v)) ([], [])).2 := by
  unfold Store.connectedComponents Store.ensureUndirected
  rw [hd]
  simp only [Bool.false_eq_true, if_false, bind, Outcome.bind]
  rw [ccFold_ok s htot _ (by intro seen comps v; rfl) _ (fun v hv => hv)]

/-! ### `weaklyConnectedComponents` -/

/-- the neighbour function of `plain_bfs` -/
def wnb (s : Store) (v : Nat) : List Nat := (alookup s.succ v).getD [] ++ (alookup s.pred v).getD []

/-- the per-level fold step of `plainBfsLevels` -/
def plainStep (s : Store) (acc : List Nat × List Nat × List Nat) (v : Nat) : List Nat × List Nat × List Nat :=
  if acc.1.contains v then acc
  else (sinsert acc.1 v, acc.2.1 ++ [v, v], sunion (sunion acc.2.2 ((alookup s.succ v).getD [])) ((alookup s.pred v).getD []))

theorem plainBfsLevels_succ (s : Store) (fuel : Nat) (level seen out : List Nat) :
    s.plainBfsLevels (fuel + 1) level seen out =
      if level.isEmpty then out
      else
        let r := level.foldl (plainStep s) (seen, out, [])
        s.plainBfsLevels fuel r.2.2 r.1 r.2.1 := by
  rw [Store.plainBfsLevels]
  rfl

/-- invariant of one level of the plain BFS -/
theorem plain_level_inv (s : Store) (nb : Nat → List Nat) (x : Nat)
    (hnb : ∀ v z, z ∈ wnb s v ↔ z ∈ nb v) (level : List Nat) :
    ∀ (seen out next : List Nat),
      seen.Nodup → (∀ y, y ∈ out ↔ y ∈ seen) → (∀ y ∈ seen, ReachR nb x y) →
      (∀ y ∈ next, ReachR nb x y) → (∀ v ∈ level, ReachR nb x v) →
      ∃ seen' out' next', level.foldl (plainStep s) (seen, out, next) = (seen', out', next') ∧
        seen'.Nodup ∧ (∀ y, y ∈ out' ↔ y ∈ seen') ∧ (∀ y ∈ seen', ReachR nb x y) ∧
        (∀ y ∈ next', ReachR nb x y) ∧
        (∃ ext, seen' = seen ++ ext ∧ ∀ v ∈ ext, v ∈ level) ∧ (∀ v ∈ level, v ∈ seen') ∧
        (∀ y ∈ next, y ∈ next') ∧
        (∀ y ∈ seen', y ∈ seen ∨ ∀ z ∈ nb y, z ∈ next') ∧
        ((seen' = seen ∧ next' = next) ∨ seen.length < seen'.length) := by
  induction level with
  | nil =>
    intro seen out next hnd hso hseen hnext _
    exact ⟨seen, out, next, rfl, hnd, hso, hseen, hnext, ⟨[], by simp, by simp⟩, by simp,
      fun y hy => hy, fun y hy => Or.inl hy, Or.inl ⟨rfl, rfl⟩⟩
  | cons v vs ih =>
    intro seen out next hnd hso hseen hnext hlevel
    have hv : ReachR nb x v := hlevel v List.mem_cons_self
    have hvs : ∀ w ∈ vs, ReachR nb x w := fun w hw => hlevel w (List.mem_cons_of_mem _ hw)
    rw [List.foldl_cons]
    by_cases hc : seen.contains v = true
    · have hst : plainStep s (seen, out, next) v = (seen, out, next) := by
        unfold plainStep; simp only [hc, if_true]
      rw [hst]
      obtain ⟨seen', out', next', hf, h1, h2, h3, h4, ⟨ext, hext, hextm⟩, h6, h7, h8, h9⟩ :=
        ih seen out next hnd hso hseen hnext hvs
      refine ⟨seen', out', next', hf, h1, h2, h3, h4,
        ⟨ext, hext, fun w hw => List.mem_cons_of_mem _ (hextm w hw)⟩, ?_, h7, h8, h9⟩
      intro w hw
      rcases List.mem_cons.mp hw with rfl | hw
      · have : w ∈ seen := by simpa using hc
        rw [hext]; exact List.mem_append_left _ this
      · exact h6 w hw
    · have hvseen : v ∉ seen := by simpa using hc
      have hst : plainStep s (seen, out, next) v =
          (sinsert seen v, out ++ [v, v],
            sunion (sunion next ((alookup s.succ v).getD [])) ((alookup s.pred v).getD [])) := by
        unfold plainStep; simp only [hc]; rfl
      rw [hst]
      have hsi : sinsert seen v = seen ++ [v] := by simp [sinsert, hvseen]
      rw [hsi]
      have hnd1 : (seen ++ [v]).Nodup := by
        rw [List.nodup_append]
        refine ⟨hnd, by simp, ?_⟩
        intro a ha b hb
        rw [List.mem_singleton] at hb
        subst hb
        intro hab; subst hab; exact hvseen ha
      have hso1 : ∀ y, y ∈ out ++ [v, v] ↔ y ∈ seen ++ [v] := by
        intro y
        simp only [List.mem_append, List.mem_cons, hso y, List.not_mem_nil, or_false, or_self]
      have hseen1 : ∀ y ∈ seen ++ [v], ReachR nb x y := by
        intro y hy
        rcases List.mem_append.mp hy with hy | hy
        · exact hseen y hy
        · rw [List.mem_singleton] at hy; subst hy; exact hv
      have hnext1mem : ∀ y, y ∈ sunion (sunion next ((alookup s.succ v).getD [])) ((alookup s.pred v).getD []) ↔
          y ∈ next ∨ y ∈ nb v := by
        intro y
        rw [mem_sunion, mem_sunion, ← hnb v y, wnb, List.mem_append, or_assoc]
      have hnext1 : ∀ y ∈ sunion (sunion next ((alookup s.succ v).getD [])) ((alookup s.pred v).getD []),
          ReachR nb x y := by
        intro y hy
        rcases (hnext1mem y).mp hy with hy | hy
        · exact hnext y hy
        · exact ReachR.step hv hy
      obtain ⟨seen', out', next', hf, h1, h2, h3, h4, ⟨ext, hext, hextm⟩, h6, h7, h8, h9⟩ :=
        ih _ _ _ hnd1 hso1 hseen1 hnext1 hvs
      have hvseen' : v ∈ seen' := by rw [hext]; simp
      refine ⟨seen', out', next', hf, h1, h2, h3, h4, ⟨v :: ext, by rw [hext]; simp, ?_⟩, ?_, ?_, ?_, ?_⟩
      · intro w hw
        rcases List.mem_cons.mp hw with rfl | hw
        · exact List.mem_cons_self
        · exact List.mem_cons_of_mem _ (hextm w hw)
      · intro w hw
        rcases List.mem_cons.mp hw with rfl | hw
        · exact hvseen'
        · exact h6 w hw
      · intro y hy
        exact h7 y ((hnext1mem y).mpr (Or.inl hy))
      · intro y hy
        rcases h8 y hy with h | h
        · rcases List.mem_append.mp h with h | h
          · exact Or.inl h
          · rw [List.mem_singleton] at h; subst h
            exact Or.inr fun z hz => h7 z ((hnext1mem z).mpr (Or.inr hz))
        · exact Or.inr h
      · right
        have : (seen ++ [v]).length ≤ seen'.length := by
          rcases h9 with ⟨h, _⟩ | h
          · rw [h]; exact Nat.le_refl _
          · exact Nat.le_of_lt h
        rw [List.length_append, List.length_singleton] at this
        omega

/-- when every node of the pending level is already seen, the seen set is the reachable set -/
theorem plain_final (nb : Nat → List Nat) (x : Nat) (level seen : List Nat)
    (hseen : ∀ y ∈ seen, ReachR nb x y)
    (hclos : ∀ y ∈ seen, ∀ z ∈ nb y, z ∈ seen ∨ z ∈ level)
    (hhead : level = [x] ∨ x ∈ seen)
    (hdone : ∀ y ∈ level, y ∈ seen) :
    ∀ y, y ∈ seen ↔ ReachR nb x y := by
  have hx : x ∈ seen := by
    rcases hhead with h | h
    · exact hdone x (by rw [h]; exact List.mem_singleton.mpr rfl)
    · exact h
  intro y
  refine ⟨hseen y, ?_⟩
  intro hy
  induction hy with
  | refl => exact hx
  | step _ hz ih =>
    rcases hclos _ ih _ hz with h | h
    · exact h
    · exact hdone _ h

theorem plain_outer (s : Store) (nb : Nat → List Nat) (x : Nat) (names : List Nat)
    (hnb : ∀ v z, z ∈ wnb s v ↔ z ∈ nb v)
    (hnames : ∀ v, ReachR nb x v → v ∈ names) :
    ∀ (fuel : Nat) (level seen out : List Nat),
      seen.Nodup → (∀ y, y ∈ out ↔ y ∈ seen) → (∀ y ∈ seen, ReachR nb x y) →
      (∀ y ∈ level, ReachR nb x y) →
      (∀ y ∈ seen, ∀ z ∈ nb y, z ∈ seen ∨ z ∈ level) →
      (level = [x] ∨ x ∈ seen) →
      ((∀ y ∈ level, y ∈ seen) ∨ names.length < seen.length + fuel) →
      ∀ y, y ∈ s.plainBfsLevels fuel level seen out ↔ ReachR nb x y := by
  intro fuel
  induction fuel with
  | zero =>
    intro level seen out hnd hso hseen hlevel hclos hhead hfuel
    rw [Store.plainBfsLevels]
    have hlen : seen.length ≤ names.length :=
      (hnd.subperm (fun y hy => hnames y (hseen y hy))).length_le
    rcases hfuel with hdone | hlt
    · intro y; rw [hso]; exact plain_final nb x level seen hseen hclos hhead hdone y
    · omega
  | succ fuel ih =>
    intro level seen out hnd hso hseen hlevel hclos hhead hfuel
    rw [plainBfsLevels_succ]
    by_cases hemp : level.isEmpty = true
    · rw [if_pos hemp]
      have hl : level = [] := List.isEmpty_iff.mp hemp
      intro y; rw [hso]
      exact plain_final nb x level seen hseen hclos hhead (by rw [hl]; intro y hy; cases hy) y
    · rw [if_neg hemp]
      obtain ⟨seen', out', next', hf, h1, h2, h3, h4, ⟨ext, hext, hextm⟩, h6, _, h8, h9⟩ :=
        plain_level_inv s nb x hnb level seen out [] hnd hso hseen (by intro y hy; cases hy) hlevel
      simp only [hf]
      have hsub : ∀ y ∈ seen, y ∈ seen' := fun y hy => by rw [hext]; exact List.mem_append_left _ hy
      refine ih next' seen' out' h1 h2 h3 h4 ?_ ?_ ?_
      · intro y hy z hz
        rcases h8 y hy with hyr | hnew
        · rcases hclos y hyr z hz with hz' | hz'
          · exact Or.inl (hsub z hz')
          · exact Or.inl (h6 z hz')
        · exact Or.inr (hnew z hz)
      · right
        rcases hhead with hl | hh
        · exact h6 x (by rw [hl]; exact List.mem_singleton.mpr rfl)
        · exact hsub x hh
      · rcases h9 with ⟨_, hn⟩ | hlt
        · left; rw [hn]; intro y hy; cases hy
        · right
          rcases hfuel with hdone | hf'
          · exfalso
            cases ext with
            | nil => rw [hext, List.append_nil] at hlt; omega
            | cons a t =>
              have ha : a ∈ seen := hdone a (hextm a List.mem_cons_self)
              rw [hext, List.nodup_append] at h1
              exact h1.2.2 a ha a List.mem_cons_self rfl
          · omega

/-- **the plain BFS of weak_connectivity.rs is correct** -/
theorem plainBfs_correct (s : Store) (nb : Nat → List Nat) (x : Nat)
    (hnb : ∀ v z, z ∈ wnb s v ↔ z ∈ nb v)
    (hnames : ∀ v, ReachR nb x v → v ∈ s.getAllNodeNames) :
    ∀ y, y ∈ s.plainBfsLevels (s.numNodes + 2) [x] [] [] ↔ ReachR nb x y := by
  refine plain_outer s nb x s.getAllNodeNames hnb hnames (s.numNodes + 2) [x] [] [] List.nodup_nil
    (fun y => Iff.rfl) (by intro y hy; cases hy) ?_ (by intro y hy; cases hy) (Or.inl rfl) ?_
  · intro y hy
    rw [List.mem_singleton] at hy
    subst hy
    exact ReachR.refl _
  · right
    simp only [Store.getAllNodeNames, Store.numNodes, List.length_map, List.length_nil]
    omega

theorem weakFold_eq (s : Store)
    (F : List Nat × List (List Nat) → Nat → List Nat × List (List Nat))
    (hF : ∀ acc v, F acc v =
      if acc.1.contains v then acc
      else (sunion acc.1 (dedup (s.plainBfsLevels (s.numNodes + 2) [v] [] [])),
            acc.2 ++ [dedup (s.plainBfsLevels (s.numNodes + 2) [v] [] [])]))
    (l : List Nat) (acc : List Nat × List (List Nat)) :
    l.foldl F acc = l.foldl (compStep fun v => dedup (s.plainBfsLevels (s.numNodes + 2) [v] [] [])) acc := by
  induction l generalizing acc with
  | nil => rfl
  | cons v vs ih =>
    rw [List.foldl_cons, List.foldl_cons, hF, ih]
    rfl

theorem weaklyConnectedComponents_eq (s : Store) (hd : s.specs.directed = true) :
    s.weaklyConnectedComponents =
      .ok (s.getAllNodeNames.foldl (compStep fun v => dedup (s.plainBfsLevels (s.numNodes + 2) [v] [] [])) ([], [])).2 := by
  unfold Store.weaklyConnectedComponents Store.ensureDirected
  rw [hd]
  simp only [if_true, bind, Outcome.bind]
  rw [weakFold_eq s _ (by intro acc v; rfl)]

end C10M
end Graphrs
