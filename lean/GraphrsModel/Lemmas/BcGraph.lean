/-
  Unit-cost graph facts for C05 (Brandes): distances over `Walk`/`IsDist`, the pigeonhole bound on distances,
  and exactness of the specification's Bellman-Ford labelling `Arcs.distFrom` after `n` rounds.
-/
import GraphrsModel.Spec.Walk
import GraphrsModel.Lemmas.C04Aux
import GraphrsModel.Lemmas.DijkstraInv
import Mathlib.Data.List.Perm.Subperm
import Mathlib.Tactic.Linarith
namespace Graphrs
namespace Bc

/-- every arc costs 1 (hop counts) -/
def UnitArcs (A : Arcs) : Prop := ∀ a ∈ A, a.2.2 = 1

theorem UnitArcs.nonneg {A : Arcs} (h : UnitArcs A) : ∀ a ∈ A, 0 ≤ a.2.2 := by
  intro a ha; rw [h a ha]; decide

theorem walk_nonneg {A : Arcs} (hU : UnitArcs A) {s t : Nat} {c : Int} (h : Walk A s t c) : 0 ≤ c :=
  Walk.nonneg hU.nonneg h

theorem isDist_unique {A : Arcs} {s t : Nat} {d d' : Int} (h : IsDist A s t d) (h' : IsDist A s t d') : d = d' := by
  have := h.2 d' h'.1
  have := h'.2 d h.1
  omega

theorem isDist_source {A : Arcs} (hU : UnitArcs A) (s : Nat) : IsDist A s s 0 :=
  ⟨Walk.nil s, fun _ hw => walk_nonneg hU hw⟩

theorem isDist_nonneg {A : Arcs} (hU : UnitArcs A) {s t : Nat} {d : Int} (h : IsDist A s t d) : 0 ≤ d :=
  walk_nonneg hU h.1

/-- a walk of cost 0 over unit arcs is empty -/
theorem walk_zero {A : Arcs} (hU : UnitArcs A) {s t : Nat} {c : Int} (h : Walk A s t c) (hc : c ≤ 0) : t = s := by
  cases h with
  | nil => rfl
  | snoc hw ha =>
    have := walk_nonneg hU hw
    have := hU _ ha
    simp only at this
    omega

/-- the last arc of a shortest walk: a tight predecessor -/
theorem isDist_pred {A : Arcs} (hU : UnitArcs A) {s t : Nat} {d : Int} (h : IsDist A s t d) (hne : t ≠ s) :
    ∃ u, IsDist A s u (d - 1) ∧ (u, t, (1 : Int)) ∈ A := by
  obtain ⟨hw, hmin⟩ := h
  cases hw with
  | nil => exact absurd rfl hne
  | snoc hw' ha =>
    rename_i u c w
    have hw1 : w = 1 := hU _ ha
    subst hw1
    refine ⟨u, ⟨?_, ?_⟩, ha⟩
    · have : c + 1 - 1 = c := by omega
      rw [this]; exact hw'
    · intro c' hc'
      have := hmin _ (Walk.snoc hc' ha)
      omega

theorem isDist_arc_le {A : Arcs} {s u v : Nat} {du dv w : Int} (hu : IsDist A s u du) (ha : (u, v, w) ∈ A)
    (hv : IsDist A s v dv) : dv ≤ du + w :=
  hv.2 _ (Walk.snoc hu.1 ha)

/-- over non-negative costs a reachable node has a distance -/
theorem isDist_exists {A : Arcs} (hU : UnitArcs A) {s t : Nat} (h : Reachable A s t) : ∃ d, IsDist A s t d := by
  obtain ⟨c, hc⟩ := h
  have key : ∀ (k : Nat) (c : Int), Walk A s t c → c.toNat ≤ k → ∃ d, IsDist A s t d := by
    intro k
    induction k with
    | zero =>
      intro c hc hk
      have h0 := walk_nonneg hU hc
      refine ⟨c, hc, fun c' hc' => ?_⟩
      have := walk_nonneg hU hc'
      omega
    | succ k ih =>
      intro c hc hk
      by_cases hex : ∃ c', Walk A s t c' ∧ c' < c
      · obtain ⟨c', hc', hlt⟩ := hex
        have := walk_nonneg hU hc'
        exact ih c' hc' (by omega)
      · refine ⟨c, hc, fun c' hc' => ?_⟩
        by_cases hlt : c' < c
        · exact absurd ⟨c', hc', hlt⟩ hex
        · omega
  exact key c.toNat c hc (Nat.le_refl _)

/-- nodes on a shortest walk have pairwise distinct distances: a distance is smaller than the number of nodes -/
theorem isDist_chain {A : Arcs} (hU : UnitArcs A) {s : Nat} (nodes : List Nat) (hs : s ∈ nodes)
    (hA : ∀ a ∈ A, a.2.1 ∈ nodes) :
    ∀ (k : Nat) (t : Nat), IsDist A s t (k : Int) →
      ∃ l : List Nat, l.length = k + 1 ∧ l.Nodup ∧ (∀ x ∈ l, x ∈ nodes) ∧
        (∀ x ∈ l, ∃ i : Nat, i ≤ k ∧ IsDist A s x (i : Int)) := by
  intro k
  induction k with
  | zero =>
    intro t ht
    have : t = s := walk_zero hU ht.1 (by simp)
    subst this
    exact ⟨[t], rfl, by simp, by simpa using hs, by
      intro x hx; simp at hx; subst hx; exact ⟨0, Nat.le_refl _, ht⟩⟩
  | succ k ih =>
    intro t ht
    have hne : t ≠ s := by
      intro e; subst e
      have := isDist_unique ht (isDist_source hU t)
      omega
    obtain ⟨u, hu, ha⟩ := isDist_pred hU ht hne
    have e : ((k + 1 : Nat) : Int) - 1 = (k : Int) := by omega
    rw [e] at hu
    obtain ⟨l, hlen, hnd, hin, hd⟩ := ih u hu
    refine ⟨l ++ [t], by simp [hlen], ?_, ?_, ?_⟩
    · rw [List.nodup_append]
      refine ⟨hnd, by simp, ?_⟩
      intro a ha' b hb
      simp at hb; subst hb
      intro e; subst e
      obtain ⟨i, hi, hdi⟩ := hd a ha'
      have := isDist_unique hdi ht
      omega
    · intro x hx
      rw [List.mem_append] at hx
      rcases hx with hx | hx
      · exact hin x hx
      · simp at hx; subst hx; exact hA _ ha
    · intro x hx
      rw [List.mem_append] at hx
      rcases hx with hx | hx
      · obtain ⟨i, hi, hdi⟩ := hd x hx
        exact ⟨i, by omega, hdi⟩
      · simp at hx; subst hx; exact ⟨k + 1, Nat.le_refl _, ht⟩

theorem isDist_lt_nodes {A : Arcs} (hU : UnitArcs A) {s : Nat} (nodes : List Nat) (hs : s ∈ nodes)
    (hA : ∀ a ∈ A, a.2.1 ∈ nodes) {t : Nat} {d : Int} (h : IsDist A s t d) : d < (nodes.length : Int) := by
  have h0 := isDist_nonneg hU h
  obtain ⟨k, rfl⟩ : ∃ k : Nat, d = (k : Int) := ⟨d.toNat, by omega⟩
  obtain ⟨l, hlen, hnd, hin, _⟩ := isDist_chain hU nodes hs hA k t h
  have := (List.subperm_of_subset hnd (fun x hx => hin x hx)).length_le
  omega

/-! ## exactness of `distFrom` -/

theorem relaxStep_mono (d : List (Nat × Int)) (arc : Nat × Nat × Int) (v : Nat) (x : Int)
    (h : alookup d v = some x) : ∃ x', alookup (relaxStep d arc) v = some x' ∧ x' ≤ x := by
  obtain ⟨a, b, w⟩ := arc
  unfold relaxStep
  simp only
  cases hu : alookup d a with
  | none => exact ⟨x, h, Int.le_refl _⟩
  | some du =>
    cases hv : alookup d b with
    | none =>
      simp only
      refine ⟨x, ?_, Int.le_refl _⟩
      rw [alookup_ainsert]
      have : ¬ b = v := by intro e; subst e; rw [hv] at h; cases h
      simp [this, h]
    | some dv =>
      simp only
      by_cases hlt : du + w < dv
      · simp only [hlt, if_true]
        by_cases e : b = v
        · subst e
          rw [hv] at h; cases h
          exact ⟨du + w, by rw [alookup_ainsert]; simp, by omega⟩
        · exact ⟨x, by rw [alookup_ainsert]; simp [e, h], Int.le_refl _⟩
      · simp only [hlt, if_false]
        exact ⟨x, h, Int.le_refl _⟩

theorem foldl_relaxStep_mono (l : Arcs) (d : List (Nat × Int)) (v : Nat) (x : Int)
    (h : alookup d v = some x) : ∃ x', alookup (l.foldl relaxStep d) v = some x' ∧ x' ≤ x := by
  induction l generalizing d x with
  | nil => exact ⟨x, h, Int.le_refl _⟩
  | cons a l ih =>
    simp only [List.foldl_cons]
    obtain ⟨x1, h1, hle1⟩ := relaxStep_mono d a v x h
    obtain ⟨x2, h2, hle2⟩ := ih _ x1 h1
    exact ⟨x2, h2, by omega⟩

theorem relaxStep_arc (d : List (Nat × Int)) (u v : Nat) (w du : Int) (h : alookup d u = some du) :
    ∃ dv, alookup (relaxStep d (u, v, w)) v = some dv ∧ dv ≤ du + w := by
  unfold relaxStep
  simp only [h]
  cases hv : alookup d v with
  | none =>
    simp only
    exact ⟨du + w, by rw [alookup_ainsert]; simp, Int.le_refl _⟩
  | some dv =>
    simp only
    by_cases hlt : du + w < dv
    · simp only [hlt, if_true]
      exact ⟨du + w, by rw [alookup_ainsert]; simp, Int.le_refl _⟩
    · simp only [hlt, if_false]
      exact ⟨dv, hv, by omega⟩

/-- a round of relaxation relaxes every arc against the labels at the start of the round (or better) -/
theorem foldl_relaxStep_arc (l : Arcs) (d : List (Nat × Int)) (u v : Nat) (w du : Int)
    (ha : (u, v, w) ∈ l) (h : alookup d u = some du) :
    ∃ dv, alookup (l.foldl relaxStep d) v = some dv ∧ dv ≤ du + w := by
  induction l generalizing d du with
  | nil => cases ha
  | cons a l ih =>
    simp only [List.foldl_cons]
    rcases List.mem_cons.1 ha with e | hin
    · subst e
      obtain ⟨dv, hdv, hle⟩ := relaxStep_arc d u v w du h
      obtain ⟨dv', hdv', hle'⟩ := foldl_relaxStep_mono l _ v dv hdv
      exact ⟨dv', hdv', by omega⟩
    · obtain ⟨du', hdu', hle⟩ := relaxStep_mono d a u du h
      obtain ⟨dv, hdv, hle2⟩ := ih _ du' hin hdu'
      exact ⟨dv, hdv, by omega⟩

theorem distFrom_succ (A : Arcs) (k s : Nat) :
    Arcs.distFrom A (k + 1) s = A.foldl relaxStep (Arcs.distFrom A k s) := by
  unfold Arcs.distFrom
  rw [List.range_succ, List.foldl_append]
  rfl

/-- after `k` rounds every walk with at most `k` arcs is accounted for -/
theorem distFrom_le_walk {A : Arcs} (hU : UnitArcs A) (s : Nat) (k : Nat) :
    ∀ v c, Walk A s v c → c ≤ (k : Int) → ∃ x, alookup (Arcs.distFrom A k s) v = some x ∧ x ≤ c := by
  induction k with
  | zero =>
    intro v c hw hc
    have : v = s := walk_zero hU hw (by simpa using hc)
    subst this
    have := walk_nonneg hU hw
    exact ⟨0, by simp [Arcs.distFrom, alookup], this⟩
  | succ k ih =>
    intro v c hw hc
    rw [distFrom_succ]
    cases hw with
    | nil =>
      obtain ⟨x, hx, hle⟩ := ih s 0 (Walk.nil s) (by omega)
      obtain ⟨x', hx', hle'⟩ := foldl_relaxStep_mono A _ s x hx
      exact ⟨x', hx', by omega⟩
    | snoc hw' ha =>
      rename_i u c' w
      have hw1 : w = 1 := hU _ ha
      subst hw1
      obtain ⟨x, hx, hle⟩ := ih u c' hw' (by push_cast at hc; omega)
      obtain ⟨dv, hdv, hle2⟩ := foldl_relaxStep_arc A _ u v 1 x ha hx
      exact ⟨dv, hdv, by omega⟩

/-- **the specification's distance labelling is exact** once the number of rounds reaches the number of nodes -/
theorem distFrom_exact {A : Arcs} (hU : UnitArcs A) (s : Nat) (nodes : List Nat) (hs : s ∈ nodes)
    (hA : ∀ a ∈ A, a.2.1 ∈ nodes) (rounds : Nat) (hr : nodes.length ≤ rounds) :
    ∀ v x, alookup (Arcs.distFrom A rounds s) v = some x ↔ IsDist A s v x := by
  intro v x
  constructor
  · intro h
    have hw := distFrom_witnessed A rounds s v x h
    refine ⟨hw, fun c hc => ?_⟩
    obtain ⟨d, hd⟩ := isDist_exists hU ⟨c, hc⟩
    have hlt := isDist_lt_nodes hU nodes hs hA hd
    obtain ⟨x', hx', hle⟩ := distFrom_le_walk hU s rounds v d hd.1 (by omega)
    rw [h] at hx'; cases hx'
    have := hd.2 c hc
    omega
  · intro h
    have hlt := isDist_lt_nodes hU nodes hs hA h
    obtain ⟨x', hx', hle⟩ := distFrom_le_walk hU s rounds v x h.1 (by omega)
    have := h.2 x' (distFrom_witnessed A rounds s v x' hx')
    have e : x' = x := by omega
    rw [← e]; exact hx'

theorem distFrom_none {A : Arcs} (hU : UnitArcs A) (s : Nat) (nodes : List Nat) (hs : s ∈ nodes)
    (hA : ∀ a ∈ A, a.2.1 ∈ nodes) (rounds : Nat) (hr : nodes.length ≤ rounds) (v : Nat) :
    alookup (Arcs.distFrom A rounds s) v = none ↔ ¬ Reachable A s v := by
  constructor
  · intro h hr'
    obtain ⟨d, hd⟩ := isDist_exists hU hr'
    rw [(distFrom_exact hU s nodes hs hA rounds hr v d).2 hd] at h
    cases h
  · intro h
    cases hv : alookup (Arcs.distFrom A rounds s) v with
    | none => rfl
    | some x => exact absurd ⟨x, distFrom_witnessed A rounds s v x hv⟩ h

/-! ## strictly positive costs (the weighted case) -/

/-- every arc has a strictly positive cost -/
def PosArcs (A : Arcs) : Prop := ∀ a ∈ A, 0 < a.2.2

theorem UnitArcs.pos {A : Arcs} (h : UnitArcs A) : PosArcs A := by
  intro a ha; rw [h a ha]; decide

theorem PosArcs.nonneg {A : Arcs} (h : PosArcs A) : ∀ a ∈ A, 0 ≤ a.2.2 := fun a ha => Int.le_of_lt (h a ha)

theorem walk_nonneg_pos {A : Arcs} (hP : PosArcs A) {s t : Nat} {c : Int} (h : Walk A s t c) : 0 ≤ c :=
  Walk.nonneg hP.nonneg h

theorem isDist_source_pos {A : Arcs} (hP : PosArcs A) (s : Nat) : IsDist A s s 0 :=
  ⟨Walk.nil s, fun _ hw => walk_nonneg_pos hP hw⟩

theorem isDist_nonneg_pos {A : Arcs} (hP : PosArcs A) {s t : Nat} {d : Int} (h : IsDist A s t d) : 0 ≤ d :=
  walk_nonneg_pos hP h.1

theorem walk_zero_pos {A : Arcs} (hP : PosArcs A) {s t : Nat} {c : Int} (h : Walk A s t c) (hc : c ≤ 0) : t = s := by
  cases h with
  | nil => rfl
  | snoc hw ha =>
    have := walk_nonneg_pos hP hw
    have := hP _ ha
    simp only at this
    omega

/-- the last arc of a shortest walk: a tight predecessor, strictly closer to the source -/
theorem isDist_pred_pos {A : Arcs} (hP : PosArcs A) {s t : Nat} {d : Int} (h : IsDist A s t d) (hne : t ≠ s) :
    ∃ u w, (u, t, w) ∈ A ∧ 0 < w ∧ IsDist A s u (d - w) := by
  obtain ⟨hw, hmin⟩ := h
  cases hw with
  | nil => exact absurd rfl hne
  | snoc hw' ha =>
    rename_i u c w
    refine ⟨u, w, ha, hP _ ha, ?_, ?_⟩
    · have : c + w - w = c := by omega
      rw [this]; exact hw'
    · intro c' hc'
      have := hmin _ (Walk.snoc hc' ha)
      omega

theorem isDist_exists_pos {A : Arcs} (hP : PosArcs A) {s t : Nat} (h : Reachable A s t) : ∃ d, IsDist A s t d := by
  obtain ⟨c, hc⟩ := h
  have key : ∀ (k : Nat) (c : Int), Walk A s t c → c.toNat ≤ k → ∃ d, IsDist A s t d := by
    intro k
    induction k with
    | zero =>
      intro c hc hk
      have h0 := walk_nonneg_pos hP hc
      refine ⟨c, hc, fun c' hc' => ?_⟩
      have := walk_nonneg_pos hP hc'
      omega
    | succ k ih =>
      intro c hc hk
      by_cases hex : ∃ c', Walk A s t c' ∧ c' < c
      · obtain ⟨c', hc', hlt⟩ := hex
        have := walk_nonneg_pos hP hc'
        exact ih c' hc' (by omega)
      · refine ⟨c, hc, fun c' hc' => ?_⟩
        by_cases hlt : c' < c
        · exact absurd ⟨c', hc', hlt⟩ hex
        · omega
  exact key c.toNat c hc (Nat.le_refl _)

/-- walks with their number of arcs -/
inductive WalkN (A : Arcs) : Nat → Nat → Nat → Int → Prop
  | nil (s : Nat) : WalkN A s s 0 0
  | snoc {s u v k : Nat} {c w : Int} : WalkN A s u k c → (u, v, w) ∈ A → WalkN A s v (k + 1) (c + w)

theorem WalkN.walk {A : Arcs} {s t k : Nat} {c : Int} (h : WalkN A s t k c) : Walk A s t c := by
  induction h with
  | nil => exact Walk.nil _
  | snoc _ ha ih => exact Walk.snoc ih ha

/-- a shortest walk can be chosen along pairwise distinct nodes: fewer arcs than nodes -/
theorem isDist_hops {A : Arcs} (hP : PosArcs A) {s : Nat} (nodes : List Nat) (hs : s ∈ nodes)
    (hA : ∀ a ∈ A, a.2.1 ∈ nodes) :
    ∀ (m : Nat) (t : Nat) (d : Int), IsDist A s t d → d.toNat = m →
      ∃ (j : Nat) (l : List Nat), WalkN A s t j d ∧ l.length = j + 1 ∧ l.Nodup ∧ (∀ x ∈ l, x ∈ nodes) ∧
        (∀ x ∈ l, ∃ dx, dx ≤ d ∧ IsDist A s x dx) := by
  intro m
  induction m using Nat.strong_induction_on with
  | _ m ih =>
    intro t d ht hm
    by_cases hts : t = s
    · subst hts
      have : d = 0 := isDist_unique ht (isDist_source_pos hP t)
      subst this
      exact ⟨0, [t], WalkN.nil t, rfl, by simp, by simpa using hs, by
        intro x hx; simp at hx; subst hx; exact ⟨0, Int.le_refl _, ht⟩⟩
    · obtain ⟨u, w, ha, hw, hu⟩ := isDist_pred_pos hP ht hts
      have h0 := isDist_nonneg_pos hP hu
      obtain ⟨j, l, hwk, hlen, hnd, hin, hd⟩ := ih (d - w).toNat (by omega) u (d - w) hu rfl
      refine ⟨j + 1, l ++ [t], ?_, by simp [hlen], ?_, ?_, ?_⟩
      · have := WalkN.snoc hwk ha
        have e : d - w + w = d := by omega
        rw [e] at this; exact this
      · rw [List.nodup_append]
        refine ⟨hnd, by simp, ?_⟩
        intro a ha' b hb
        simp at hb; subst hb
        intro e; subst e
        obtain ⟨dx, hle, hdx⟩ := hd a ha'
        have := isDist_unique hdx ht
        omega
      · intro x hx
        rw [List.mem_append] at hx
        rcases hx with hx | hx
        · exact hin x hx
        · simp at hx; subst hx; exact hA _ ha
      · intro x hx
        rw [List.mem_append] at hx
        rcases hx with hx | hx
        · obtain ⟨dx, hle, hdx⟩ := hd x hx
          exact ⟨dx, by omega, hdx⟩
        · simp at hx; subst hx; exact ⟨d, Int.le_refl _, ht⟩

theorem isDist_walkN_lt {A : Arcs} (hP : PosArcs A) {s : Nat} (nodes : List Nat) (hs : s ∈ nodes)
    (hA : ∀ a ∈ A, a.2.1 ∈ nodes) {t : Nat} {d : Int} (h : IsDist A s t d) :
    ∃ j, j < nodes.length ∧ WalkN A s t j d := by
  obtain ⟨j, l, hwk, hlen, hnd, hin, _⟩ := isDist_hops hP nodes hs hA _ t d h rfl
  have := (List.subperm_of_subset hnd (fun x hx => hin x hx)).length_le
  exact ⟨j, by omega, hwk⟩

/-- after `k` rounds every walk with at most `k` arcs is accounted for (non-negative costs suffice) -/
theorem distFrom_le_walkN {A : Arcs} (s : Nat) (k : Nat) :
    ∀ v c j, WalkN A s v j c → j ≤ k → ∃ x, alookup (Arcs.distFrom A k s) v = some x ∧ x ≤ c := by
  induction k with
  | zero =>
    intro v c j hw hj
    cases hw with
    | nil => exact ⟨0, by simp [Arcs.distFrom, alookup], Int.le_refl _⟩
    | snoc _ _ => omega
  | succ k ih =>
    intro v c j hw hj
    rw [distFrom_succ]
    cases hw with
    | nil =>
      obtain ⟨x, hx, hle⟩ := ih s 0 0 (WalkN.nil s) (by omega)
      obtain ⟨x', hx', hle'⟩ := foldl_relaxStep_mono A _ s x hx
      exact ⟨x', hx', by omega⟩
    | snoc hw' ha =>
      rename_i u j' c' w
      obtain ⟨x, hx, hle⟩ := ih u c' j' hw' (by omega)
      obtain ⟨dv, hdv, hle2⟩ := foldl_relaxStep_arc A _ u v w x ha hx
      exact ⟨dv, hdv, by omega⟩

/-- **the specification's distance labelling is exact** for strictly positive costs, once the number of rounds reaches the
    number of nodes -/
theorem distFrom_exact_pos {A : Arcs} (hP : PosArcs A) (s : Nat) (nodes : List Nat) (hs : s ∈ nodes)
    (hA : ∀ a ∈ A, a.2.1 ∈ nodes) (rounds : Nat) (hr : nodes.length ≤ rounds) :
    ∀ v x, alookup (Arcs.distFrom A rounds s) v = some x ↔ IsDist A s v x := by
  intro v x
  constructor
  · intro h
    have hw := distFrom_witnessed A rounds s v x h
    refine ⟨hw, fun c hc => ?_⟩
    obtain ⟨d, hd⟩ := isDist_exists_pos hP ⟨c, hc⟩
    obtain ⟨j, hj, hwk⟩ := isDist_walkN_lt hP nodes hs hA hd
    obtain ⟨x', hx', hle⟩ := distFrom_le_walkN s rounds v d j hwk (by omega)
    rw [h] at hx'; cases hx'
    have := hd.2 c hc
    omega
  · intro h
    obtain ⟨j, hj, hwk⟩ := isDist_walkN_lt hP nodes hs hA h
    obtain ⟨x', hx', hle⟩ := distFrom_le_walkN s rounds v x j hwk (by omega)
    have := h.2 x' (distFrom_witnessed A rounds s v x' hx')
    have e : x' = x := by omega
    rw [← e]; exact hx'

end Bc
end Graphrs
