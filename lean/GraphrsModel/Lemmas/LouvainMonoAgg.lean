/-
  Lemmas for Props/C13Monotone.lean, part 4: `generate_graph` aggregates exactly.  Every edge sum of the new level
  graph is the edge sum of the old one after mapping each node to its community (`node2com`): `add_edge` with the
  accumulated weight either appends the first edge between two communities or replaces the single stored one.
-/
import GraphrsModel.Lemmas.LouvainMonoPart
import GraphrsModel.Lemmas.LouvainGraphs
namespace Graphrs
open LouvainFull
namespace LM

/-! ### abstract `add_edge` between existing nodes of a single-edge, self-loop, keep-last graph -/

theorem abs_addEdge_shape (sp : Specs) (a : Abs) (e : Edge) (hsl : sp.selfLoops = true) (hd : sp.dedupe = .keepLast)
    (hm : sp.multi = false) (hu : a.hasNode e.u = true) (hv : a.hasNode e.v = true) :
    (Abs.addEdge sp a e).1.edges =
      if (a.edges.any fun e' => Abs.sameKey sp.directed e' e.u e.v) = true then
        a.edges.map fun e' => if Abs.sameKey sp.directed e' e.u e.v then Abs.canon sp.directed e else e'
      else a.edges ++ [Abs.canon sp.directed e] := by
  unfold Abs.addEdge
  simp only [hsl, hu, hv, hd, hm, Bool.not_true, Bool.false_and, Bool.false_eq_true, if_false, if_true,
    Bool.or_self, Bool.and_false, Bool.false_or]
  by_cases hany : (a.edges.any fun e' => Abs.sameKey sp.directed e' e.u e.v) = true
  · simp only [hany, Bool.not_true, Bool.false_eq_true, if_false, if_true]
  · simp only [hany, Bool.not_false, if_true, Bool.false_eq_true, if_false]

/-- the term of one edge in `wsum` -/
def tm (f : Nat → Nat → Rat) (x : Edge) : Rat := ratW x.w * f x.u x.v

theorem wsum_replace (l : List Edge) (p : Edge → Bool) (y : Edge) (f : Nat → Nat → Rat) :
    wsum (l.map fun x => if p x = true then y else x) f
      = wsum l f + ((l.filter p).map fun x => tm f y - tm f x).sum := by
  induction l with
  | nil => simp [wsum]
  | cons x l ih =>
    rw [List.map_cons, wsum_cons, wsum_cons, ih]
    by_cases h : p x = true
    · simp only [h, if_true, List.filter_cons, List.map_cons, List.sum_cons, tm]
      ring
    · simp only [h, if_false, List.filter_cons, Bool.false_eq_true]
      ring

theorem f_canon (d : Bool) (e : Edge) (f : Nat → Nat → Rat) (hf : d = false → ∀ u v, f u v = f v u) :
    f (Abs.canon d e).u (Abs.canon d e).v = f e.u e.v := by
  unfold Abs.canon Edge.ordered Edge.reversed
  cases d with
  | true => simp
  | false =>
    simp only [Bool.false_eq_true, if_false]
    split
    · exact hf rfl _ _
    · rfl

theorem f_sameKey (d : Bool) (x : Edge) (c1 c2 : Nat) (h : Abs.sameKey d x c1 c2 = true) (f : Nat → Nat → Rat)
    (hf : d = false → ∀ u v, f u v = f v u) : f x.u x.v = f c1 c2 := by
  simp only [Abs.sameKey, Bool.or_eq_true, Bool.and_eq_true, beq_iff_eq, Bool.not_eq_true'] at h
  rcases h with ⟨h1, h2⟩ | ⟨⟨hd, h1⟩, h2⟩
  · rw [h1, h2]
  · rw [h1, h2]; exact hf hd _ _

/-- on a single-edge store at most one stored edge lies between two names -/
theorem between_le_one (g : Store) (hwf : g.wf = true) (hm : g.specs.multi = false) (c1 c2 : Nat) :
    g.abs.between g.specs.directed c1 c2 = [] ∨ ∃ x0, g.abs.between g.specs.directed c1 c2 = [x0] := by
  obtain ⟨_, he⟩ := Store.wf_inv hwf
  have hk := (Store.allEdges_keys_distinct he hm).filter (fun e => Abs.sameKey g.specs.directed e c1 c2)
  have hb : g.abs.between g.specs.directed c1 c2
      = g.allEdges.filter (fun e => Abs.sameKey g.specs.directed e c1 c2) := rfl
  rw [hb]
  match hf : g.allEdges.filter (fun e => Abs.sameKey g.specs.directed e c1 c2) with
  | [] => exact Or.inl rfl
  | [x] => exact Or.inr ⟨x, rfl⟩
  | x :: y :: r =>
    exfalso
    rw [hf] at hk
    have hne : (x.u, x.v) ≠ (y.u, y.v) := (List.pairwise_cons.1 hk).1 y (by simp)
    have hx : x ∈ g.allEdges.filter (fun e => Abs.sameKey g.specs.directed e c1 c2) := by rw [hf]; simp
    have hy : y ∈ g.allEdges.filter (fun e => Abs.sameKey g.specs.directed e c1 c2) := by rw [hf]; simp
    rw [List.mem_filter] at hx hy
    have ox := (Store.allEdges_valid he hx.1).2.2.2
    have oy := (Store.allEdges_valid he hy.1).2.2.2
    have kx := hx.2
    have ky := hy.2
    simp only [Abs.sameKey, Bool.or_eq_true, Bool.and_eq_true, beq_iff_eq, Bool.not_eq_true'] at kx ky
    apply hne
    rcases kx with ⟨a1, a2⟩ | ⟨⟨ad, a1⟩, a2⟩ <;> rcases ky with ⟨b1, b2⟩ | ⟨⟨bd, b1⟩, b2⟩
    · rw [a1, a2, b1, b2]
    · rw [bd] at ox oy
      have ox' : x.u ≤ x.v := by simpa using ox
      have oy' : y.u ≤ y.v := by simpa using oy
      have : c1 = c2 := by omega
      rw [a1, a2, b1, b2, this]
    · rw [ad] at ox oy
      have ox' : x.u ≤ x.v := by simpa using ox
      have oy' : y.u ≤ y.v := by simpa using oy
      have : c1 = c2 := by omega
      rw [a1, a2, b1, b2, this]
    · rw [a1, a2, b1, b2]

/-! ### one step of the fold of `generate_graph` -/

/-- the weight `generate_graph` reads back before adding -/
def oldW (g : Store) (c1 c2 : Nat) : W := match g.getEdge c1 c2 with | .ok x => x.w | _ => some 0

theorem addEdge_step (g : Store) (hwf : g.wf = true) (hsl : g.specs.selfLoops = true)
    (hkl : g.specs.dedupe = .keepLast) (hm : g.specs.multi = false) (c1 c2 : Nat) (hc1 : c1 ∈ g.names) (hc2 : c2 ∈ g.names)
    (w : Int) (hnan : NoNaN g.allEdges) :
    NoNaN (g.addEdge ⟨c1, c2, W.add (some w) (oldW g c1 c2), none⟩).1.allEdges ∧
    ∀ f : Nat → Nat → Rat, (g.specs.directed = false → ∀ u v, f u v = f v u) →
      wsum (g.addEdge ⟨c1, c2, W.add (some w) (oldW g c1 c2), none⟩).1.allEdges f
        = wsum g.allEdges f + (w : Rat) * f c1 c2 := by
  have hu' : g.hasNode c1 = true := (LF.hasNode_names g hwf c1).2 hc1
  have hv' : g.hasNode c2 = true := (LF.hasNode_names g hwf c2).2 hc2
  have hua : g.abs.hasNode c1 = true := (Abs.hasNode_iff _ _).2 hc1
  have hva : g.abs.hasNode c2 = true := (Abs.hasNode_iff _ _).2 hc2
  have hge := C02_getEdge g hwf hm c1 c2 hu' hv'
  generalize hE : (⟨c1, c2, W.add (some w) (oldW g c1 c2), none⟩ : Edge) = e'
  have hE1 : e'.u = c1 := by rw [← hE]
  have hE2 : e'.v = c2 := by rw [← hE]
  have hEw : e'.w = W.add (some w) (oldW g c1 c2) := by rw [← hE]
  have hperm : (g.addEdge e').1.allEdges.Perm (Abs.addEdge g.specs g.abs e').1.edges :=
    C09M.absEq_edges_perm (C01_addEdge_refines g e' g.abs hwf ⟨rfl, fun _ => rfl⟩).2
  have hshape := abs_addEdge_shape g.specs g.abs e' hsl hkl hm (by rw [hE1]; exact hua) (by rw [hE2]; exact hva)
  rw [hE1, hE2] at hshape
  have hbdef : g.abs.between g.specs.directed c1 c2
      = g.abs.edges.filter (fun e => Abs.sameKey g.specs.directed e c1 c2) := rfl
  rcases between_le_one g hwf hm c1 c2 with hb | ⟨x0, hb⟩
  · -- first edge between the two communities
    rw [hb] at hge
    have hold : oldW g c1 c2 = some 0 := by unfold oldW; rw [hge]
    have hany : ¬ (g.abs.edges.any fun e' => Abs.sameKey g.specs.directed e' c1 c2) = true := by
      intro hc
      rw [List.any_eq_true] at hc
      obtain ⟨x, hx, hk⟩ := hc
      have : x ∈ g.abs.between g.specs.directed c1 c2 := by rw [hbdef, List.mem_filter]; exact ⟨hx, hk⟩
      rw [hb] at this
      cases this
    rw [if_neg hany] at hshape
    have hw' : e'.w = some w := by rw [hEw, hold]; simp [W.add]
    constructor
    · intro x hx
      have := hperm.mem_iff.1 hx
      rw [hshape, List.mem_append, List.mem_singleton] at this
      rcases this with h | h
      · exact hnan x h
      · rw [h, LF.canon_w, hw']; simp
    · intro f hf
      rw [wsum_perm hperm, hshape, wsum_append]
      congr 1
      rw [wsum_cons, wsum_nil, LF.canon_w, f_canon _ _ f hf, hw', hE1, hE2]
      simp [ratW]
  · -- the stored edge between the two communities is replaced
    rw [hb] at hge
    have hold : oldW g c1 c2 = x0.w := by unfold oldW; rw [hge]
    have hx0 : x0 ∈ g.abs.edges.filter (fun e => Abs.sameKey g.specs.directed e c1 c2) := by
      rw [← hbdef, hb]; simp
    rw [List.mem_filter] at hx0
    have hany : (g.abs.edges.any fun e' => Abs.sameKey g.specs.directed e' c1 c2) = true := by
      rw [List.any_eq_true]; exact ⟨x0, hx0.1, hx0.2⟩
    rw [if_pos hany] at hshape
    obtain ⟨w0, hw0⟩ : ∃ w0, x0.w = some w0 := by
      cases h : x0.w with
      | none => exact absurd h (hnan x0 hx0.1)
      | some w0 => exact ⟨w0, rfl⟩
    have hw' : e'.w = some (w + w0) := by rw [hEw, hold, hw0]; rfl
    constructor
    · intro x hx
      have := hperm.mem_iff.1 hx
      rw [hshape, List.mem_map] at this
      obtain ⟨x1, hx1, rfl⟩ := this
      split
      · rw [LF.canon_w, hw']; simp
      · exact hnan x1 hx1
    · intro f hf
      rw [wsum_perm hperm, hshape, wsum_replace, ← hbdef, hb]
      simp only [List.map_cons, List.map_nil, List.sum_cons, List.sum_nil, add_zero, tm]
      rw [LF.canon_w, f_canon _ _ f hf, hw', hE1, hE2, hw0, f_sameKey _ x0 c1 c2 hx0.2 f hf]
      simp only [ratW]
      push_cast
      show wsum g.allEdges f + _ = _
      ring

/-! ### the fold -/

/-- `node2com` of `generate_graph` -/
def n2cOf (inner : List (List Nat)) : List (Nat × Nat) :=
  inner.zipIdx.foldl (fun m p => p.1.foldl (fun m x => ainsert m x p.2) m) []

/-- the body of the edge loop of `generate_graph` -/
def ggStep (n2c : List (Nat × Nat)) (acc : Outcome Store) (e : Edge) : Outcome Store :=
  acc.bind fun g =>
    (Outcome.ofOption "generate_graph: node2com.get(u).unwrap()" (alookup n2c e.u)).bind fun c1 =>
    (Outcome.ofOption "generate_graph: node2com.get(v).unwrap()" (alookup n2c e.v)).bind fun c2 =>
      match g.addEdge ⟨c1, c2, W.add e.w (oldW g c1 c2), none⟩ with
      | (g', none) => .ok g'
      | (_, some _) => .panic "generate_graph: unexpected failure to add edge"

/-- the empty graph on `0..L-1` the loop starts from -/
def gg0 (sp : Specs) (L : Nat) : Store := (List.range L).foldl (fun g i => g.addNode ⟨i, none⟩) (Store.new sp)

theorem generateGraph_eq (lv : Level) (inner : List (List Nat)) :
    generateGraph lv inner =
      (if inner.all (fun part => part.all fun x => (lv.g.getNode x).isSome) then Outcome.ok ()
        else .panic "generate_graph: get_node(node).unwrap()").bind fun _ =>
      (lv.g.allEdges.foldl (ggStep (n2cOf inner))
        (.ok (gg0 { lv.g.specs with selfLoops := true, dedupe := .keepLast } inner.length))).bind fun g =>
      .ok { g := g, members := LF.ggMembers lv inner } := rfl

/-- the invariant of the loop -/
structure GI (sp : Specs) (L : Nat) (g : Store) : Prop where
  wf : g.wf = true
  specs : g.specs = sp
  nodes : g.nodesVec = (List.range L).map fun i => (⟨i, none⟩ : Node)
  nonan : NoNaN g.allEdges

theorem GI.names {sp : Specs} {L : Nat} {g : Store} (h : GI sp L g) (c : Nat) (hc : c < L) : c ∈ g.names := by
  simp only [Store.names, h.nodes, List.map_map, Function.comp_def, List.map_id', List.mem_range]
  exact hc

theorem ggStep_ok (sp : Specs) (hsl : sp.selfLoops = true) (hkl : sp.dedupe = .keepLast) (hm : sp.multi = false)
    (L : Nat) (n2c : List (Nat × Nat)) (g : Store) (hG : GI sp L g) (e : Edge) (c1 c2 : Nat) (w : Int)
    (h1 : alookup n2c e.u = some c1) (h2 : alookup n2c e.v = some c2) (hc1 : c1 < L) (hc2 : c2 < L)
    (hw : e.w = some w) :
    ∃ g', ggStep n2c (.ok g) e = .ok g' ∧ GI sp L g' ∧
      ∀ f : Nat → Nat → Rat, (sp.directed = false → ∀ u v, f u v = f v u) →
        wsum g'.allEdges f = wsum g.allEdges f + ratW e.w * f c1 c2 := by
  have hs := hG.specs
  have hn1 := hG.names c1 hc1
  have hn2 := hG.names c2 hc2
  have H := LF.addEdge_present g hG.wf (by rw [hs]; exact hsl) (by rw [hs]; exact hkl)
    ⟨c1, c2, W.add e.w (oldW g c1 c2), none⟩ hn1 hn2
  have S := addEdge_step g hG.wf (by rw [hs]; exact hsl) (by rw [hs]; exact hkl) (by rw [hs]; exact hm) c1 c2 hn1 hn2 w
    hG.nonan
  rw [← hw] at S
  refine ⟨(g.addEdge ⟨c1, c2, W.add e.w (oldW g c1 c2), none⟩).1, ?_, ⟨H.2.1, H.2.2.1.trans hs, H.2.2.2.trans hG.nodes, S.1⟩, ?_⟩
  · unfold ggStep
    simp only [Outcome.bind, h1, h2, Outcome.ofOption]
    have hpair : g.addEdge ⟨c1, c2, W.add e.w (oldW g c1 c2), none⟩
        = ((g.addEdge ⟨c1, c2, W.add e.w (oldW g c1 c2), none⟩).1, none) := by
      rw [← H.1]
    rw [hpair]
  · intro f hf
    rw [S.2 f (by rw [hs]; exact hf), hw]
    rfl

theorem ggFold (sp : Specs) (hsl : sp.selfLoops = true) (hkl : sp.dedupe = .keepLast) (hm : sp.multi = false)
    (L : Nat) (n2c : List (Nat × Nat)) (l : List Edge)
    (hl : ∀ e ∈ l, ∃ c1 c2, alookup n2c e.u = some c1 ∧ alookup n2c e.v = some c2 ∧ c1 < L ∧ c2 < L)
    (hnan : NoNaN l) :
    ∀ (g0 g : Store), GI sp L g0 → l.foldl (ggStep n2c) (.ok g0) = .ok g →
      GI sp L g ∧ ∀ f : Nat → Nat → Rat, (sp.directed = false → ∀ u v, f u v = f v u) →
        wsum g.allEdges f = wsum g0.allEdges f
          + wsum l (fun u v => f ((alookup n2c u).getD 0) ((alookup n2c v).getD 0)) := by
  induction l with
  | nil =>
    intro g0 g h0 h
    simp only [List.foldl_nil] at h
    cases h
    exact ⟨h0, fun f _ => by rw [wsum_nil, add_zero]⟩
  | cons e l ih =>
    intro g0 g h0 h
    obtain ⟨c1, c2, h1, h2, hc1, hc2⟩ := hl e List.mem_cons_self
    obtain ⟨w, hw⟩ : ∃ w, e.w = some w := by
      cases hh : e.w with
      | none => exact absurd hh (hnan e List.mem_cons_self)
      | some w => exact ⟨w, rfl⟩
    obtain ⟨g1, hg1, hG1, hS1⟩ := ggStep_ok sp hsl hkl hm L n2c g0 h0 e c1 c2 w h1 h2 hc1 hc2 hw
    rw [List.foldl_cons, hg1] at h
    obtain ⟨hG, hS⟩ := ih (fun e' he' => hl e' (List.mem_cons_of_mem _ he'))
      (fun e' he' => hnan e' (List.mem_cons_of_mem _ he')) g1 g hG1 h
    refine ⟨hG, ?_⟩
    intro f hf
    rw [hS f hf, hS1 f hf, wsum_cons, h1, h2]
    simp only [Option.getD_some]
    ring

/-! ### `node2com` -/

theorem n2c_mem (l : List (List Nat × Nat)) (m : List (Nat × Nat)) (y j : Nat)
    (h : alookup (l.foldl (fun m p => p.1.foldl (fun m x => ainsert m x p.2) m) m) y = some j) :
    alookup m y = some j ∨ ∃ p ∈ l, p.2 = j ∧ y ∈ p.1 := by
  induction l generalizing m with
  | nil => exact Or.inl h
  | cons q l ih =>
    rw [List.foldl_cons] at h
    rcases ih _ h with h1 | ⟨p, hp, hj, hy⟩
    · rw [LF.lookup_fold_ainsert] at h1
      split at h1
      next hyq => right; exact ⟨q, List.mem_cons_self, by injection h1, hyq⟩
      next => exact Or.inl h1
    · exact Or.inr ⟨p, List.mem_cons_of_mem _ hp, hj, hy⟩

theorem n2cOf_spec {k : Nat} {inner : List (List Nat)} (hin : LF.PartOfRange k inner) (x : Nat) (hx : x < k) :
    ∃ j, alookup (n2cOf inner) x = some j ∧ j < inner.length ∧ x ∈ (inner[j]?).getD [] := by
  have hfl : x ∈ inner.flatMap id := (hin.2.2 x).2 hx
  obtain ⟨c, hc, hxc⟩ := List.mem_flatMap.mp hfl
  obtain ⟨j0, hj0, rfl⟩ := List.getElem_of_mem hc
  have hb := LF.n2c_bound inner.zipIdx [] x (Or.inl ⟨(inner[j0], j0), by
    rw [List.mem_zipIdx_iff_getElem?]; simp [List.getElem?_eq_getElem hj0], hxc⟩)
  obtain ⟨j, hj⟩ := Option.isSome_iff_exists.mp hb
  refine ⟨j, hj, ?_⟩
  rcases n2c_mem inner.zipIdx [] x j hj with h1 | ⟨p, hp, hpj, hxp⟩
  · simp [alookup] at h1
  · have := List.mem_zipIdx' (x := p.1) (i := p.2) hp
    obtain ⟨hlt, heq⟩ := this
    subst hpj
    refine ⟨hlt, ?_⟩
    rw [List.getElem?_eq_getElem hlt]
    simp only [Option.getD_some]
    rw [← heq]
    exact hxp

/-! ### the aggregation invariant is kept by `generate_graph` -/

theorem agg_step {es0 : List Edge} {n : Nat} {lv : Level} {k : Nat} (hg : LF.GoodLevel lv n k) (hwf : lv.g.wf = true)
    (hmulti : lv.g.specs.multi = false) {B : Nat → Nat} (hagg : AggInv es0 n lv k B)
    {inner : List (List Nat)} (hin : LF.PartOfRange k inner) {lv' : Level} (h : generateGraph lv inner = .ok lv') :
    lv'.g.specs.directed = lv.g.specs.directed ∧
    ∃ B', AggInv es0 n lv' inner.length B' := by
  obtain ⟨_, _, _, _, hmem'⟩ := LF.generateGraph_good lv n k hg hwf inner hin lv' h
  rw [generateGraph_eq] at h
  split at h
  · rw [LF.bind_ok] at h
    generalize hfold : List.foldl _ _ lv.g.allEdges = o at h
    cases o with
    | err e => cases h
    | panic e => cases h
    | ok g =>
      rw [LF.bind_ok] at h
      cases h
      obtain ⟨w0, sp0, nv0⟩ := LF.g0_ok { lv.g.specs with selfLoops := true, dedupe := .keepLast } inner.length
      have hG0 : GI { lv.g.specs with selfLoops := true, dedupe := .keepLast } inner.length
          (gg0 { lv.g.specs with selfLoops := true, dedupe := .keepLast } inner.length) :=
        ⟨w0, sp0, nv0, by intro e he; unfold gg0 at he; rw [LF.g0_edges] at he; cases he⟩
      have hl : ∀ e ∈ lv.g.allEdges, ∃ c1 c2, alookup (n2cOf inner) e.u = some c1 ∧ alookup (n2cOf inner) e.v = some c2 ∧
          c1 < inner.length ∧ c2 < inner.length := by
        intro e he
        obtain ⟨hu, hv⟩ := LT.edges_lt hg hwf e he
        obtain ⟨c1, h1, h1', _⟩ := n2cOf_spec hin e.u hu
        obtain ⟨c2, h2, h2', _⟩ := n2cOf_spec hin e.v hv
        exact ⟨c1, c2, h1, h2, h1', h2'⟩
      obtain ⟨hG, hS⟩ := ggFold { lv.g.specs with selfLoops := true, dedupe := .keepLast } rfl rfl hmulti inner.length
        (n2cOf inner) lv.g.allEdges hl hagg.nonan _ g hG0 hfold
      have hdir : g.specs.directed = lv.g.specs.directed := by rw [hG.specs]
      refine ⟨hdir, fun z => (alookup (n2cOf inner) (B z)).getD 0, ?_, ?_, hG.nonan⟩
      · intro z hz
        obtain ⟨hb1, hb2⟩ := hagg.blk z hz
        obtain ⟨j, hj, hjl, hxj⟩ := n2cOf_spec hin (B z) hb1
        simp only [hj, Option.getD_some]
        exact ⟨hjl, (hmem' j z hjl).2 ⟨B z, hxj, hb2⟩⟩
      · intro f hf
        have hf' : lv.g.specs.directed = false → ∀ u v, f u v = f v u := fun hd => hf (by rw [hdir]; exact hd)
        show wsum g.allEdges f = _
        rw [hS f hf']
        have h0 : (gg0 { lv.g.specs with selfLoops := true, dedupe := .keepLast } inner.length).allEdges = [] := by
          unfold gg0; exact LF.g0_edges _ _
        rw [h0, wsum_nil, zero_add]
        exact hagg.agg _ (fun hd u v => hf' hd _ _)
  · cases h

end LM
end Graphrs
