/-
  A generic induction principle for `dijkstraLoop` on top of the loop invariant `Inv` / `RowInv`
  (boundary predicate `JB`, in-row predicate `JR`), and the case analysis of one relaxation for
  strictly positive costs, no cutoff, `first_only = false`.
-/
import GraphrsModel.Lemmas.DijkstraPaths
namespace Graphrs

theorem foldExcept_generic {A : Arcs} {src n : Nat} {weighted : Bool} {cut : Option Int} {firstOnly withPaths : Bool}
    (hA : ArcsWf A n) (JR : Nat → Int → Arcs → DState → Prop) (v : Nat) (d : Int)
    (hstep : ∀ (st st' : DState) (a : Adj) (row : List Adj),
      RowInv A src n cut v d (rowArcs weighted v (a :: row)) st.dist st.seen st.fringe →
      JR v d (rowArcs weighted v (a :: row)) st →
      relaxFull weighted cut firstOnly withPaths v d st a = .ok st' → JR v d (rowArcs weighted v row) st')
    (row : List Adj) : ∀ (st st' : DState),
      RowInv A src n cut v d (rowArcs weighted v row) st.dist st.seen st.fringe →
      JR v d (rowArcs weighted v row) st →
      foldExcept (relaxFull weighted cut firstOnly withPaths v d) st row = .ok st' →
      RowInv A src n cut v d [] st'.dist st'.seen st'.fringe ∧ JR v d [] st' := by
  induction row with
  | nil =>
    intro st st' R J h
    simp only [foldExcept, Except.ok.injEq] at h
    subst h
    exact ⟨R, J⟩
  | cons a row ih =>
    intro st st' R J h
    obtain ⟨st1, e1, R1, _, _⟩ := relaxFull_row (firstOnly := firstOnly) (withPaths := withPaths) hA st a row R
    simp only [foldExcept, e1] at h
    exact ih st1 st' R1 (hstep st st1 a row R J e1) h

theorem dijkstraLoop_generic {A : Arcs} {src n : Nat} {weighted : Bool} {cut : Option Int} {firstOnly withPaths : Bool}
    {target : Option Nat} (rows : List (List Adj)) (hA : ArcsWf A n) (hrows : RowsOk A weighted rows)
    (JB : DState → Prop) (JR : Nat → Int → Arcs → DState → Prop)
    (hstale : ∀ (st : DState) (b : FNode), JB st → JB { st with fringe := st.fringe.erase b })
    (henter : ∀ (st : DState) (d : Int) (cnt v : Nat), Inv A src n cut [] st.dist st.seen st.fringe → JB st →
      (d, cnt, v) ∈ st.fringe → (∀ e ∈ st.fringe, d ≤ e.1) → lk st.dist v = none →
      JR v d (rowArcs weighted v (rows[v]?.getD []))
        { st with fringe := st.fringe.erase (d, cnt, v), dist := st.dist.set v (some d) })
    (hstep : ∀ (v : Nat) (d : Int) (st st' : DState) (a : Adj) (row : List Adj),
      RowInv A src n cut v d (rowArcs weighted v (a :: row)) st.dist st.seen st.fringe →
      JR v d (rowArcs weighted v (a :: row)) st →
      relaxFull weighted cut firstOnly withPaths v d st a = .ok st' → JR v d (rowArcs weighted v row) st')
    (hexit : ∀ (v : Nat) (d : Int) (st : DState), RowInv A src n cut v d [] st.dist st.seen st.fringe →
      JR v d [] st → JB st) :
    ∀ (fuel : Nat) (st st' : DState), Inv A src n cut [] st.dist st.seen st.fringe → JB st →
      dijkstraLoop (fun v => rows[v]?.getD []) weighted target cut firstOnly withPaths fuel st = .ok st' →
      JB st' ∨ ∃ v d, target = some v ∧ JR v d (rowArcs weighted v (rows[v]?.getD [])) st' := by
  intro fuel
  induction fuel with
  | zero =>
    intro st st' _ P h
    simp only [dijkstraLoop, Except.ok.injEq] at h
    subst h; exact Or.inl P
  | succ fuel ih =>
    intro st st' I P h
    unfold dijkstraLoop at h
    cases hp : popFringe st.fringe with
    | none =>
      simp only [hp, Except.ok.injEq] at h
      subst h; exact Or.inl P
    | some res =>
      obtain ⟨⟨d, cnt, v⟩, rest⟩ := res
      obtain ⟨hmem, hrest, hmin⟩ := popFringe_some hp
      simp only [hp] at h
      cases hd : st.dist[v]?.join with
      | some dv =>
        have hd' : lk st.dist v = some dv := hd
        simp only [hd, Option.isSome_some, if_true] at h
        refine ih { st with fringe := rest } st' ?_ ?_ h
        · simp only; rw [hrest]; exact I.pop_stale (d, cnt, v) dv hd'
        · rw [hrest]; exact hstale st _ P
      | none =>
        have hd' : lk st.dist v = none := hd
        simp only [hd, Option.isSome_none, Bool.false_eq_true, if_false] at h
        have R := I.pop_fresh d cnt v hmem hmin hd' (rowArcs weighted v (rows[v]?.getD []))
          (hrows.sub v) (fun a ha => rowArcs_src a ha) (hrows.sup v)
        have J := henter st d cnt v I P hmem hmin hd'
        rw [← hrest] at R J
        by_cases ht : target = some v
        · subst ht
          simp only [beq_self_eq_true, if_true, Except.ok.injEq] at h
          subst h
          exact Or.inr ⟨v, d, rfl, J⟩
        · have : (target == some v) = false := by simpa using ht
          simp only [this, Bool.false_eq_true, if_false] at h
          cases hf : foldExcept (relaxFull weighted cut firstOnly withPaths v d)
              { st with fringe := rest, dist := st.dist.set v (some d) } (rows[v]?.getD []) with
          | error e => rw [hf] at h; cases h
          | ok st2 =>
            rw [hf] at h
            simp only at h
            obtain ⟨R2, J2⟩ := foldExcept_generic hA JR v d (hstep v d) (rows[v]?.getD []) _ st2 R J hf
            exact ih st2 st' R2.done (hexit v d st2 R2 J2) h

/-- one relaxation with strictly positive costs, no cutoff, `first_only = false` -/
theorem relaxFull_cases_pos {A : Arcs} {src n : Nat} {weighted : Bool} {withPaths : Bool}
    {v : Nat} {d : Int} (hpos : ∀ a ∈ A, 0 < a.2.2) (st : DState) (u : Nat) (w : W) (row : List Adj)
    (R : RowInv A src n none v d (rowArcs weighted v ((u, w) :: row)) st.dist st.seen st.fringe) :
    ((if weighted then w else some 1) = none ∧
        relaxFull weighted none false withPaths v d st (u, w) = .ok st) ∨
    ∃ c, (if weighted then w else some 1) = some c ∧
      ((∃ su, lk st.seen u = some su ∧ su < d + c ∧ relaxFull weighted none false withPaths v d st (u, w) = .ok st) ∨
       (lk st.dist u = none ∧ (∀ su, lk st.seen u = some su → d + c < su) ∧
          relaxFull weighted none false withPaths v d st (u, w) = .ok (pushLt withPaths v u (d + c) st)) ∨
       (lk st.dist u = none ∧ lk st.seen u = some (d + c) ∧
          relaxFull weighted none false withPaths v d st (u, w) = .ok (pushEq withPaths v u (d + c) st))) := by
  cases hcost : (if weighted then w else some 1) with
  | none => exact Or.inl ⟨rfl, relaxFull_none hcost⟩
  | some c =>
    refine Or.inr ⟨c, rfl, ?_⟩
    rw [rowArcs_cons_some (by simpa using hcost)] at R
    have harc : (v, u, c) ∈ A := R.pendA _ (List.mem_cons_self ..)
    have hc0 : 0 < c := hpos _ harc
    have ho : overCutoff none (d + c) = false := rfl
    cases hd : lk st.dist u with
    | some du =>
      have h1 := R.hle u du hd
      exact Or.inl ⟨du, R.distSeen u du hd, by omega, relaxFull_final hcost ho hd (by omega)⟩
    | none =>
      by_cases hlt : ∀ su, lk st.seen u = some su → d + c < su
      · exact Or.inr (Or.inl ⟨rfl, hlt, relaxFull_lt hcost ho hd hlt⟩)
      · have : ∃ su, lk st.seen u = some su ∧ su ≤ d + c := by
          cases hs : lk st.seen u with
          | none => exact absurd (fun su h => by rw [hs] at h; cases h) hlt
          | some su =>
            refine ⟨su, rfl, ?_⟩
            by_cases hle : su ≤ d + c
            · exact hle
            · exact absurd (fun su' h => by rw [hs] at h; cases h; omega) hlt
        obtain ⟨su, hs, hle⟩ := this
        by_cases heq : su = d + c
        · subst heq
          exact Or.inr (Or.inr ⟨rfl, hs, relaxFull_eq hcost ho hd hs rfl⟩)
        · exact Or.inl ⟨su, hs, by omega, relaxFull_skip hcost ho hd hs hle (Or.inr (by omega))⟩

end Graphrs
