/-
  Generic helper lemmas for Props/C11Model.lean: `Outcome` folds, association lists built by folds,
  `dedup` on duplicate-free lists, the `countMap` histogram, sums over unordered pairs.
-/
import GraphrsModel.Props.Core
import GraphrsModel.Props.C11
import GraphrsModel.Model.Cluster
import GraphrsModel.Lemmas.C09ModelAux
import Mathlib.Data.List.Perm.Basic
import Mathlib.Algebra.BigOperators.Group.List.Basic
import Mathlib.Tactic.Ring
import Mathlib.Tactic.Linarith
namespace Graphrs
namespace C11M
open C02

/-! ### folds over `Outcome` -/

theorem foldl_ok_gen {α σ : Type} (F : Outcome σ → α → Outcome σ) (step : σ → α → σ) (l : List α)
    (hF : ∀ acc x, x ∈ l → F (.ok acc) x = .ok (step acc x)) (acc : σ) :
    l.foldl F (.ok acc) = .ok (l.foldl step acc) := by
  induction l generalizing acc with
  | nil => rfl
  | cons a l ih =>
    rw [List.foldl_cons, hF acc a (by simp), ih (fun acc x hx => hF acc x (by simp [hx]))]
    rfl

theorem foldl_ok_map {α β : Type} (F : Outcome (List β) → α → Outcome (List β)) (g : α → β) (l : List α)
    (hF : ∀ acc x, x ∈ l → F (.ok acc) x = .ok (acc ++ [g x])) (acc : List β) :
    l.foldl F (.ok acc) = .ok (acc ++ l.map g) := by
  rw [foldl_ok_gen F (fun acc x => acc ++ [g x]) l hF]
  congr 1
  clear hF
  induction l generalizing acc with
  | nil => simp
  | cons a l ih => rw [List.foldl_cons, ih]; simp

/-! ### `dedup` -/

theorem foldl_sinsert_of_nodup {α} [DecidableEq α] (l acc : List α) (h : (acc ++ l).Nodup) :
    l.foldl sinsert acc = acc ++ l := by
  induction l generalizing acc with
  | nil => simp
  | cons a l ih =>
    have ha : a ∉ acc := by
      intro hc
      rw [List.nodup_append] at h
      exact h.2.2 a hc a (by simp) rfl
    have hs : sinsert acc a = acc ++ [a] := by simp [sinsert, ha]
    rw [List.foldl_cons, hs, ih _ (by simpa using h)]
    simp

theorem dedup_of_nodup {α} [DecidableEq α] (l : List α) (h : l.Nodup) : dedup l = l := by
  unfold dedup
  rw [foldl_sinsert_of_nodup l [] (by simpa using h)]
  simp

/-! ### association lists built by folds -/

theorem alookup_foldl_ainsert {α ν : Type} (k : α → Nat) (g : α → ν) (G : Nat → ν) (l : List α)
    (hg : ∀ x ∈ l, g x = G (k x)) (m0 : List (Nat × ν)) (key : Nat) :
    alookup (l.foldl (fun m x => ainsert m (k x) (g x)) m0) key
      = if key ∈ l.map k then some (G key) else alookup m0 key := by
  induction l generalizing m0 with
  | nil => simp
  | cons a l ih =>
    rw [List.foldl_cons, ih (fun x hx => hg x (by simp [hx]))]
    by_cases h1 : key ∈ l.map k
    · simp [h1]
    · rw [if_neg h1, alookup_ainsert]
      by_cases h2 : k a = key
      · subst h2
        simp [hg a (by simp)]
      · have : ¬ key = k a := fun e => h2 e.symm
        simp only [List.map_cons, List.mem_cons, this, h1, or_self, if_false, h2]

theorem keys_foldl_ainsert {α ν : Type} (k : α → Nat) (g : α → ν) (l : List α)
    (m0 : List (Nat × ν)) (key : Nat) :
    key ∈ (l.foldl (fun m x => ainsert m (k x) (g x)) m0).map (·.1) ↔ key ∈ m0.map (·.1) ∨ key ∈ l.map k := by
  induction l generalizing m0 with
  | nil => simp
  | cons a l ih =>
    rw [List.foldl_cons, ih, keys_ainsert]
    by_cases h : k a ∈ m0.map (·.1)
    · rw [if_pos h]
      simp only [List.map_cons, List.mem_cons]
      constructor
      · rintro (h1 | h1)
        · exact .inl h1
        · exact .inr (.inr h1)
      · rintro (h1 | h1 | h1)
        · exact .inl h1
        · exact .inl (h1 ▸ h)
        · exact .inr h1
    · rw [if_neg h]
      simp only [List.map_cons, List.mem_cons, List.mem_append, List.not_mem_nil, or_false]
      constructor
      · rintro ((h1 | h1) | h1)
        · exact .inl h1
        · exact .inr (.inl h1)
        · exact .inr (.inr h1)
      · rintro (h1 | h1 | h1)
        · exact .inl (.inl h1)
        · exact .inl (.inr h1)
        · exact .inr h1

theorem foldl_ainsert_fresh {ν : Type} (g : Nat → ν) (l : List Nat) (m0 : List (Nat × ν))
    (h : (m0.map (·.1) ++ l).Nodup) :
    l.foldl (fun m x => ainsert m x (g x)) m0 = m0 ++ l.map fun x => (x, g x) := by
  induction l generalizing m0 with
  | nil => simp
  | cons a l ih =>
    have ha : a ∉ m0.map (·.1) := by
      intro hc
      rw [List.nodup_append] at h
      exact h.2.2 a hc a (by simp) rfl
    rw [List.foldl_cons, C09M.ainsert_fresh m0 a _ ha, ih _ (by simpa using h)]
    simp

/-! ### sums -/

theorem sumInt_eq_sum (l : List Int) : sumInt l = l.sum := by
  unfold sumInt
  have : ∀ acc, l.foldl (· + ·) acc = acc + l.sum := by
    induction l with
    | nil => simp
    | cons a l ih => intro acc; simp [List.foldl_cons, ih]; omega
  simpa using this 0

theorem sum_map_mul_left_nat {α} (c : Nat) (f : α → Nat) (l : List α) :
    (l.map fun x => c * f x).sum = c * (l.map f).sum := by
  induction l with
  | nil => simp
  | cons a l ih => simp only [List.map_cons, List.sum_cons, ih]; ring

theorem sum_insertSorted (le : Nat → Nat → Bool) (x : Nat) (l : List Nat) :
    (insertSorted le x l).sum = x + l.sum := by
  induction l with
  | nil => simp [insertSorted]
  | cons y ys ih =>
    unfold insertSorted
    split
    · simp
    · simp [ih]; omega

theorem sum_sortNat (l : List Nat) : (sortNat l).sum = l.sum := by
  unfold sortNat isort
  induction l with
  | nil => rfl
  | cons a l ih => rw [List.foldr_cons, sum_insertSorted, ih]; simp

theorem length_sortNat (l : List Nat) : (sortNat l).length = l.length := by
  have hl : ∀ (x : Nat) (l : List Nat), (insertSorted (fun a b => decide (a ≤ b)) x l).length = l.length + 1 := by
    intro x l
    induction l with
    | nil => simp [insertSorted]
    | cons y ys ih =>
      unfold insertSorted
      split
      · simp
      · simp [ih]
  unfold sortNat isort
  induction l with
  | nil => rfl
  | cons a l ih => rw [List.foldr_cons, hl, ih]; simp

/-- one histogram step adds `k` to the weighted sum -/
theorem hist_step (m : List (Nat × Nat)) (k : Nat) :
    ((ainsert m k ((alookup m k).getD 0 + 1)).map fun kv => kv.1 * kv.2).sum
      = (m.map fun kv => kv.1 * kv.2).sum + k := by
  induction m with
  | nil => simp [ainsert, alookup]
  | cons p m ih =>
    obtain ⟨a, b⟩ := p
    by_cases h : a = k
    · subst h
      simp [ainsert, alookup]
      ring
    · simp only [ainsert, alookup, h, if_false, List.map_cons, List.sum_cons, ih]
      omega

theorem countMap_sum (l : List Nat) :
    sumNat ((Store.countMap l).map fun kv => kv.1 * kv.2) = sumNat l := by
  rw [C09M.sumNat_eq_sum, C09M.sumNat_eq_sum, ← sum_sortNat l]
  unfold Store.countMap
  generalize sortNat l = l'
  have : ∀ m0 : List (Nat × Nat),
      ((l'.foldl (fun m k => ainsert m k ((alookup m k).getD 0 + 1)) m0).map fun kv => kv.1 * kv.2).sum
        = (m0.map fun kv => kv.1 * kv.2).sum + l'.sum := by
    induction l' with
    | nil => intro m0; simp
    | cons a l ih => intro m0; rw [List.foldl_cons, ih, hist_step]; simp; omega
  rw [this]; simp

/-! ### intersections of duplicate-free lists -/

theorem perm_of_nodup_mem {α} {l1 l2 : List α} (h1 : l1.Nodup) (h2 : l2.Nodup)
    (h : ∀ x, x ∈ l1 ↔ x ∈ l2) : l1.Perm l2 :=
  (List.perm_ext_iff_of_nodup h1 h2).2 h

theorem inter_length_symm {α} [DecidableEq α] (l1 l2 : List α) (h1 : l1.Nodup) (h2 : l2.Nodup) :
    (l1.filter (· ∈ l2)).length = (l2.filter (· ∈ l1)).length := by
  apply List.Perm.length_eq
  apply perm_of_nodup_mem (h1.filter _) (h2.filter _)
  intro x
  simp only [List.mem_filter, decide_eq_true_eq]
  exact ⟨fun h => ⟨h.2, h.1⟩, fun h => ⟨h.2, h.1⟩⟩

theorem filter_length_perm {α} {l1 l2 : List α} (p q : α → Bool) (h : l1.Perm l2) (hpq : ∀ x ∈ l1, p x = q x) :
    (l1.filter p).length = (l2.filter q).length := by
  have : l1.filter p = l1.filter q := List.filter_congr hpq
  rw [this]
  exact (h.filter q).length_eq

/-! ### sums over unordered pairs -/

theorem pairsOf_eq_pairs {α} (l : List α) : Store.pairsOf l = Abs.pairs l := by
  induction l with
  | nil => rfl
  | cons a l ih => simp [Store.pairsOf, Abs.pairs, ih]

theorem sum_pairs_perm {α} (f : α × α → Int) (hf : ∀ a b, f (a, b) = f (b, a)) {l1 l2 : List α}
    (h : l1.Perm l2) : ((Abs.pairs l1).map f).sum = ((Abs.pairs l2).map f).sum := by
  induction h with
  | nil => rfl
  | cons x hp ih =>
    simp only [Abs.pairs, List.map_append, List.sum_append, List.map_map, ih]
    congr 1
    exact ((hp.map _).sum_eq)
  | swap x y l =>
    simp only [Abs.pairs, List.map_append, List.sum_append, List.map_map, List.map_cons, List.sum_cons,
      Function.comp_def]
    rw [hf x y]
    ring
  | trans _ _ ih1 ih2 => exact ih1.trans ih2

end C11M
end Graphrs
