/-
  Lemmas for Props/C13Model.lean, part 2: the bookkeeping invariant of `sweeps` within one level
  and the post-condition of `computeOneLevel`.
-/
import GraphrsModel.Lemmas.LouvainDefs
import GraphrsModel.Lemmas.LouvainVisit
import GraphrsModel.Lemmas.LouvainGraphs
import GraphrsModel.Lemmas.C09ModelAux
import Mathlib.Data.List.Forall2
import Mathlib.Data.List.Nodup
import Mathlib.Data.List.Flatten
namespace Graphrs
open LouvainFull
namespace LF

/-- the invariant of the visiting loop: `node2com`, `inner` and `part` describe one assignment of the
    nodes `0..k-1` to community ids `< k` -/
structure SInv (lv : Level) (k : Nat) (st : LState) : Prop where
  part_len : st.part.length = k
  inner_len : st.inner.length = k
  n2c_total : ∀ (x : Nat), x < k → ∃ c, alookup st.node2com x = some c
  n2c_lt : ∀ (x c : Nat), alookup st.node2com x = some c → x < k ∧ c < k
  inner_iff : ∀ (c x : Nat), x ∈ (st.inner[c]?).getD [] ↔ alookup st.node2com x = some c
  inner_nodup : ∀ (c : Nat), ((st.inner[c]?).getD []).Nodup
  part_iff : ∀ (c z : Nat), z ∈ (st.part[c]?).getD [] ↔ ∃ x, alookup st.node2com x = some c ∧ z ∈ mem lv x
  part_nodup : ∀ (c : Nat), ((st.part[c]?).getD []).Nodup

theorem mem_sunion {α} [DecidableEq α] (s t : List α) (y : α) : y ∈ sunion s t ↔ y ∈ s ∨ y ∈ t := by
  unfold sunion; exact mem_foldl_sinsert t s y

theorem nodup_sunion {α} [DecidableEq α] (s t : List α) (hs : s.Nodup) : (sunion s t).Nodup := by
  unfold sunion; exact nodup_foldl_sinsert t s hs

theorem mem_sdiff {α} [DecidableEq α] (s t : List α) (y : α) : y ∈ sdiff s t ↔ y ∈ s ∧ y ∉ t := by
  unfold sdiff; simp [List.mem_filter]

theorem nodup_sdiff {α} [DecidableEq α] (s t : List α) (hs : s.Nodup) : (sdiff s t).Nodup := by
  unfold sdiff; exact hs.filter _

theorem SInv.moved {lv : Level} {n k : Nat} {st : LState} (hg : GoodLevel lv n k) (h : SInv lv k st)
    {u cur best : Nat} (hcur : alookup st.node2com u = some cur) (hne : best ≠ cur) (hb : best < k)
    (di : DegInfo) (r : Bool) : SInv lv k (moved lv st u cur best di r) := by
  have hu : u < k := (h.n2c_lt u cur hcur).1
  have hc : cur < k := (h.n2c_lt u cur hcur).2
  have hbl : best < st.inner.length := by rw [h.inner_len]; exact hb
  have hcl : cur < st.inner.length := by rw [h.inner_len]; exact hc
  have hbp : best < st.part.length := by rw [h.part_len]; exact hb
  have hcp : cur < st.part.length := by rw [h.part_len]; exact hc
  have hlk : ∀ x c, alookup (ainsert st.node2com u best) x = some c ↔
      ((x = u ∧ c = best) ∨ (x ≠ u ∧ alookup st.node2com x = some c)) := by
    intro x c
    rw [AL.lookup_insert]
    by_cases hx : u = x
    · subst hx; simp [eq_comm]
    · have : ¬ x = u := fun e => hx e.symm
      simp [hx, this]
  refine ⟨?_, ?_, ?_, ?_, ?_, ?_, ?_, ?_⟩
  · simp [LF.moved, h.part_len]
  · simp [LF.moved, h.inner_len]
  · intro x hx
    by_cases hxu : x = u
    · exact ⟨best, (hlk x best).2 (Or.inl ⟨hxu, rfl⟩)⟩
    · obtain ⟨c, hc'⟩ := h.n2c_total x hx
      exact ⟨c, (hlk x c).2 (Or.inr ⟨hxu, hc'⟩)⟩
  · intro x c hx
    rcases (hlk x c).1 hx with ⟨rfl, rfl⟩ | ⟨_, h2⟩
    · exact ⟨hu, hb⟩
    · exact h.n2c_lt x c h2
  · intro c x
    show x ∈ (((st.inner.set cur _).set best _)[c]?).getD [] ↔ alookup (ainsert st.node2com u best) x = some c
    rw [hlk, getD_set, List.length_set]
    by_cases hbc : best = c
    · subst hbc
      rw [if_pos ⟨rfl, hbl⟩, mem_sinsert, getD_set, if_neg (by intro hh; exact hne hh.1.symm), h.inner_iff]
      constructor
      · rintro (h1 | h1)
        · refine Or.inr ⟨?_, h1⟩
          intro hxu; subst hxu; rw [hcur] at h1; cases h1; exact hne rfl
        · exact Or.inl ⟨h1, rfl⟩
      · rintro (⟨h1, _⟩ | ⟨_, h1⟩)
        · exact Or.inr h1
        · exact Or.inl h1
    · rw [if_neg (by intro hh; exact hbc hh.1), getD_set]
      by_cases hcc : cur = c
      · subst hcc
        rw [if_pos ⟨rfl, hcl⟩, List.mem_filter, h.inner_iff]
        simp only [bne_iff_ne, ne_eq]
        constructor
        · rintro ⟨h1, h2⟩; exact Or.inr ⟨h2, h1⟩
        · rintro (⟨_, h1⟩ | ⟨h1, h2⟩)
          · exact absurd h1.symm hbc
          · exact ⟨h2, h1⟩
      · rw [if_neg (by intro hh; exact hcc hh.1), h.inner_iff]
        constructor
        · intro h1
          refine Or.inr ⟨?_, h1⟩
          intro hxu; subst hxu; rw [hcur] at h1; cases h1; exact hcc rfl
        · rintro (⟨_, h1⟩ | ⟨_, h1⟩)
          · exact absurd h1.symm hbc
          · exact h1
  · intro c
    show ((((st.inner.set cur _).set best _)[c]?).getD []).Nodup
    rw [getD_set, List.length_set]
    by_cases hbc : best = c
    · subst hbc
      rw [if_pos ⟨rfl, hbl⟩]
      apply nodup_sinsert
      rw [getD_set, if_neg (by intro hh; exact hne hh.1.symm)]
      exact h.inner_nodup best
    · rw [if_neg (by intro hh; exact hbc hh.1), getD_set]
      by_cases hcc : cur = c
      · subst hcc
        rw [if_pos ⟨rfl, hcl⟩]
        exact (h.inner_nodup cur).filter _
      · rw [if_neg (by intro hh; exact hcc hh.1)]
        exact h.inner_nodup c
  · intro c z
    show z ∈ (((st.part.set cur _).set best _)[c]?).getD [] ↔
      ∃ x, alookup (ainsert st.node2com u best) x = some c ∧ z ∈ mem lv x
    rw [getD_set, List.length_set]
    have hmu : (alookup lv.members u).getD [u] = mem lv u := rfl
    by_cases hbc : best = c
    · subst hbc
      rw [if_pos ⟨rfl, hbp⟩, mem_sunion, getD_set, if_neg (by intro hh; exact hne hh.1.symm), h.part_iff, hmu]
      constructor
      · rintro (⟨x, h1, h2⟩ | h1)
        · refine ⟨x, (hlk x best).2 (Or.inr ⟨?_, h1⟩), h2⟩
          intro hxu; subst hxu; rw [hcur] at h1; cases h1; exact hne rfl
        · exact ⟨u, (hlk u best).2 (Or.inl ⟨rfl, rfl⟩), h1⟩
      · rintro ⟨x, h1, h2⟩
        rcases (hlk x best).1 h1 with ⟨rfl, _⟩ | ⟨_, h3⟩
        · exact Or.inr h2
        · exact Or.inl ⟨x, h3, h2⟩
    · rw [if_neg (by intro hh; exact hbc hh.1), getD_set]
      by_cases hcc : cur = c
      · subst hcc
        rw [if_pos ⟨rfl, hcp⟩, mem_sdiff, h.part_iff, hmu]
        constructor
        · rintro ⟨⟨x, h1, h2⟩, h3⟩
          refine ⟨x, (hlk x cur).2 (Or.inr ⟨?_, h1⟩), h2⟩
          intro hxu; subst hxu; exact h3 h2
        · rintro ⟨x, h1, h2⟩
          rcases (hlk x cur).1 h1 with ⟨_, h3⟩ | ⟨h3, h4⟩
          · exact absurd h3.symm hbc
          · refine ⟨⟨x, h4, h2⟩, ?_⟩
            intro h5
            exact h3 (hg.mem_disj x u z (h.n2c_lt x cur h4).1 hu h2 h5)
      · rw [if_neg (by intro hh; exact hcc hh.1), h.part_iff]
        constructor
        · rintro ⟨x, h1, h2⟩
          refine ⟨x, (hlk x c).2 (Or.inr ⟨?_, h1⟩), h2⟩
          intro hxu; subst hxu; rw [hcur] at h1; cases h1; exact hcc rfl
        · rintro ⟨x, h1, h2⟩
          rcases (hlk x c).1 h1 with ⟨_, h3⟩ | ⟨_, h3⟩
          · exact absurd h3.symm hbc
          · exact ⟨x, h3, h2⟩
  · intro c
    show ((((st.part.set cur _).set best _)[c]?).getD []).Nodup
    rw [getD_set, List.length_set]
    by_cases hbc : best = c
    · subst hbc
      rw [if_pos ⟨rfl, hbp⟩]
      apply nodup_sunion
      rw [getD_set, if_neg (by intro hh; exact hne hh.1.symm)]
      exact h.part_nodup best
    · rw [if_neg (by intro hh; exact hbc hh.1), getD_set]
      by_cases hcc : cur = c
      · subst hcc
        rw [if_pos ⟨rfl, hcp⟩]
        exact nodup_sdiff _ _ (h.part_nodup cur)
      · rw [if_neg (by intro hh; exact hcc hh.1)]
        exact h.part_nodup c

theorem SInv.visit {lv : Level} {n k : Nat} {st st' : LState} {m res : Rat} {u : Nat} (hg : GoodLevel lv n k)
    (h : SInv lv k st) (hv : LouvainFull.visit lv m res st u = .ok st') : SInv lv k st' := by
  obtain ⟨cur, w2c, best, hcur, hw, hbest, -, -, -, -, -, -, hcase⟩ := visit_ok hv
  rcases hcase with ⟨hne, hst⟩ | ⟨-, hst⟩
  · have hbk : best ∈ w2c.map (·.1) := by
      rcases hbest with h1 | h1
      · exact absurd h1 hne
      · exact h1
    obtain ⟨v, hv2⟩ := neighborWeights_keys hw best hbk
    rw [hst]
    exact h.moved hg hcur hne (h.n2c_lt v best hv2).2 _ _
  · rw [hst]
    exact ⟨h.part_len, h.inner_len, h.n2c_total, h.n2c_lt, h.inner_iff, h.inner_nodup, h.part_iff, h.part_nodup⟩

theorem SInv.pass {lv : Level} {n k : Nat} {m res : Rat} (hg : GoodLevel lv n k) (order : List Nat) (st st' : LState)
    (h : SInv lv k st)
    (hf : order.foldl (fun acc u => do let s ← acc; LouvainFull.visit lv m res s u) (.ok st) = .ok st') : SInv lv k st' := by
  refine foldl_ok_inv (SInv lv k) _ ?_ order ?_ st st' hf h
  · intro o x b hb
    cases o with
    | ok a => exact ⟨a, rfl⟩
    | err e => simp [bind, Outcome.bind] at hb
    | panic e => simp [bind, Outcome.bind] at hb
  · intro a x b _ hb ha
    exact ha.visit hg hb

theorem SInv.sweeps {lv : Level} {n k : Nat} {m res : Rat} (hg : GoodLevel lv n k) (order : List Nat) (fuel : Nat) :
    ∀ (st st' : LState), SInv lv k st → LouvainFull.sweeps lv m res order fuel st = .ok (some st') → SInv lv k st' := by
  induction fuel with
  | zero => intro st st' _ h; simp [LouvainFull.sweeps] at h
  | succ fuel ih =>
    intro st st' hs h
    unfold LouvainFull.sweeps at h
    simp only [bind, Outcome.bind] at h
    split at h
    next x st1 h1 =>
      have hs0 : SInv lv k { st with moves := 0 } :=
        ⟨hs.part_len, hs.inner_len, hs.n2c_total, hs.n2c_lt, hs.inner_iff, hs.inner_nodup, hs.part_iff, hs.part_nodup⟩
      have hs1 : SInv lv k st1 := SInv.pass hg order _ st1 hs0 h1
      by_cases hm : st1.moves > 0
      · rw [if_pos hm] at h
        exact ih st1 st' hs1 h
      · rw [if_neg hm] at h
        cases h
        exact hs1
    all_goals (exact absurd h (by simp))

/-! ### the initial state -/

theorem sortNat_eq_range {l : List Nat} {k : Nat} (hnd : l.Nodup) (hm : ∀ x, x ∈ l ↔ x < k) :
    sortNat l = List.range k := by
  have hp : (sortNat l).Perm (List.range k) := by
    refine (isort_perm _ l).trans ?_
    rw [List.perm_ext_iff_of_nodup hnd List.nodup_range]
    intro x; rw [hm, List.mem_range]
  exact List.Perm.eq_of_pairwise (le := (· ≤ ·)) (fun a b _ _ h1 h2 => Nat.le_antisymm h1 h2)
    (C02.sorted_sortNat l) List.pairwise_le_range hp

theorem getD_map_range (k c : Nat) (f : Nat → List Nat) :
    ((((List.range k).map f)[c]?).getD []) = if c < k then f c else [] := by
  by_cases h : c < k
  · simp [h]
  · simp [h]

theorem SInv.init {lv : Level} {k : Nat} {partition : List (List Nat)}
    (hin : InputOK lv k partition) (di : DegInfo) :
    SInv lv k { part := partition, inner := (List.range k).map fun n => [n],
                node2com := (List.range k).map fun n => (n, n), di := di, improvement := false, moves := 0 } := by
  have hlk : ∀ x c, alookup ((List.range k).map fun n => (n, n)) x = some c ↔ (x < k ∧ c = x) := by
    intro x c
    rw [C09M.alookup_map_self]
    by_cases hx : x < k
    · simp [hx, eq_comm]
    · simp [hx]
  refine ⟨hin.len, by simp, ?_, ?_, ?_, ?_, ?_, ?_⟩
  · intro x hx; exact ⟨x, (hlk x x).2 ⟨hx, rfl⟩⟩
  · intro x c hx
    obtain ⟨h1, h2⟩ := (hlk x c).1 hx
    subst h2; exact ⟨h1, h1⟩
  · intro c x
    show x ∈ ((((List.range k).map fun n => [n])[c]?).getD []) ↔ _
    rw [getD_map_range, hlk]
    by_cases hc : c < k
    · rw [if_pos hc, List.mem_singleton]
      constructor
      · rintro rfl; exact ⟨hc, rfl⟩
      · rintro ⟨_, h2⟩; exact h2.symm
    · rw [if_neg hc]
      constructor
      · intro h1; simp at h1
      · rintro ⟨h1, h2⟩; subst h2; exact absurd h1 hc
  · intro c
    show ((((List.range k).map fun n => [n])[c]?).getD []).Nodup
    rw [getD_map_range]
    by_cases hc : c < k
    · rw [if_pos hc]; simp
    · rw [if_neg hc]; simp
  · intro c z
    show z ∈ ((partition[c]?).getD []) ↔ _
    by_cases hc : c < k
    · rw [hin.iff c z hc]
      constructor
      · intro h1; exact ⟨c, (hlk c c).2 ⟨hc, rfl⟩, h1⟩
      · rintro ⟨x, h1, h2⟩
        obtain ⟨_, h3⟩ := (hlk x c).1 h1
        subst h3; exact h2
    · rw [List.getElem?_eq_none (by rw [hin.len]; omega)]
      constructor
      · intro h1; simp at h1
      · rintro ⟨x, h1, _⟩
        obtain ⟨h2, h3⟩ := (hlk x c).1 h1
        subst h3; exact absurd h2 hc
  · intro c
    show ((partition[c]?).getD []).Nodup
    by_cases hc : c < k
    · exact hin.nodup c hc
    · rw [List.getElem?_eq_none (by rw [hin.len]; omega)]; simp

/-! ### the result of one level -/

/-- `p` is the union of the member blocks of the nodes in `c` -/
def Blk (lv : Level) (k : Nat) (p c : List Nat) : Prop :=
  p.Nodup ∧ c.Nodup ∧ (∀ x ∈ c, x < k) ∧ ∀ z, z ∈ p ↔ ∃ x ∈ c, z ∈ mem lv x

/-- what the level loop knows about `(partition, inner)` at level `lv` -/
structure PI (lv : Level) (k : Nat) (partition inner : List (List Nat)) : Prop where
  rel : List.Forall₂ (Blk lv k) partition inner
  inner_part : PartOfRange k inner

theorem getElem_eq_getD {α} (l : List (List α)) (i : Nat) (h : i < l.length) : l[i] = (l[i]?).getD [] := by
  simp [h]

theorem SInv.rel {lv : Level} {k : Nat} {st : LState} (h : SInv lv k st) :
    List.Forall₂ (Blk lv k) st.part st.inner := by
  rw [List.forall₂_iff_get]
  refine ⟨by rw [h.part_len, h.inner_len], ?_⟩
  intro i h1 h2
  simp only [List.get_eq_getElem]
  rw [getElem_eq_getD _ i h1, getElem_eq_getD _ i h2]
  refine ⟨h.part_nodup i, h.inner_nodup i, ?_, ?_⟩
  · intro x hx
    exact (h.n2c_lt x i ((h.inner_iff i x).1 hx)).1
  · intro z
    rw [h.part_iff]
    constructor
    · rintro ⟨x, h3, h4⟩; exact ⟨x, (h.inner_iff i x).2 h3, h4⟩
    · rintro ⟨x, h3, h4⟩; exact ⟨x, (h.inner_iff i x).1 h3, h4⟩

theorem Blk.empty_iff {lv : Level} {n k : Nat} (hg : GoodLevel lv n k) {p c : List Nat} (h : Blk lv k p c) :
    p = [] ↔ c = [] := by
  obtain ⟨_, _, h3, h4⟩ := h
  constructor
  · intro hp
    cases c with
    | nil => rfl
    | cons x c =>
      exfalso
      have hx : x < k := h3 x (by simp)
      have hne := hg.mem_ne x hx
      cases hm : mem lv x with
      | nil => exact hne hm
      | cons z zs =>
        have : z ∈ p := (h4 z).2 ⟨x, by simp, by rw [hm]; simp⟩
        rw [hp] at this; simp at this
  · intro hc
    cases p with
    | nil => rfl
    | cons z p =>
      exfalso
      obtain ⟨x, hx, _⟩ := (h4 z).1 (by simp)
      rw [hc] at hx; simp at hx

theorem forall₂_filter_blk {lv : Level} {n k : Nat} (hg : GoodLevel lv n k) {P I : List (List Nat)}
    (h : List.Forall₂ (Blk lv k) P I) :
    List.Forall₂ (Blk lv k) (P.filter (!·.isEmpty)) (I.filter (!·.isEmpty)) := by
  induction h with
  | nil => exact List.Forall₂.nil
  | @cons p c P I hb _ ih =>
    have he := hb.empty_iff hg
    by_cases hp : p = []
    · have hc := he.1 hp
      subst hp; subst hc
      simpa using ih
    · have hc : c ≠ [] := fun e => hp (he.2 e)
      have h1 : (p :: P).filter (!·.isEmpty) = p :: P.filter (!·.isEmpty) := by simp [hp]
      have h2 : (c :: I).filter (!·.isEmpty) = c :: I.filter (!·.isEmpty) := by simp [hc]
      rw [h1, h2]
      exact List.Forall₂.cons hb ih

theorem SInv.inner_flat_nodup {lv : Level} {k : Nat} {st : LState} (h : SInv lv k st) :
    (st.inner.flatMap id).Nodup := by
  rw [List.nodup_flatMap]
  refine ⟨?_, ?_⟩
  · intro c hc
    obtain ⟨i, hi, rfl⟩ := List.getElem_of_mem hc
    rw [getElem_eq_getD _ i hi]
    exact h.inner_nodup i
  · rw [List.pairwise_iff_getElem]
    intro i j hi hj hij
    simp only [Function.onFun, id]
    rw [getElem_eq_getD _ i hi, getElem_eq_getD _ j hj]
    intro x hx hy
    have h1 := (h.inner_iff i x).1 hx
    have h2 := (h.inner_iff j x).1 hy
    rw [h1] at h2
    cases h2
    omega

theorem SInv.inner_part {lv : Level} {k : Nat} {st : LState} (h : SInv lv k st) :
    PartOfRange k (st.inner.filter (!·.isEmpty)) := by
  refine ⟨?_, ?_, ?_⟩
  · intro c hc
    rw [List.mem_filter] at hc
    intro e; subst e; simp at hc
  · exact List.Nodup.sublist (List.Sublist.flatMap List.filter_sublist _) h.inner_flat_nodup
  · intro x
    rw [List.mem_flatMap]
    constructor
    · rintro ⟨c, hc, hx⟩
      rw [List.mem_filter] at hc
      obtain ⟨i, hi, rfl⟩ := List.getElem_of_mem hc.1
      simp only [id] at hx
      rw [getElem_eq_getD _ i hi] at hx
      exact (h.n2c_lt x i ((h.inner_iff i x).1 hx)).1
    · intro hx
      obtain ⟨c, hc⟩ := h.n2c_total x hx
      have hm := (h.inner_iff c x).2 hc
      have hcl : c < st.inner.length := lt_length_of_mem_getD hm
      rw [← getElem_eq_getD _ c hcl] at hm
      refine ⟨st.inner[c], ?_, hm⟩
      rw [List.mem_filter]
      refine ⟨List.getElem_mem hcl, ?_⟩
      cases he : st.inner[c] with
      | nil => rw [he] at hm; simp at hm
      | cons a b => simp

theorem forall₂_blk_flat {lv : Level} {n k : Nat} (hg : GoodLevel lv n k) {P I : List (List Nat)}
    (h : List.Forall₂ (Blk lv k) P I) (hnd : (I.flatMap id).Nodup) :
    (P.flatMap id).Nodup ∧ (∀ x ∈ I.flatMap id, x < k) ∧
    ∀ z, z ∈ P.flatMap id ↔ ∃ x ∈ I.flatMap id, z ∈ mem lv x := by
  induction h with
  | nil => simp
  | @cons p c P I hb _ ih =>
    simp only [List.flatMap_cons, id] at hnd ⊢
    rw [List.nodup_append] at hnd
    obtain ⟨ih1, ih2, ih3⟩ := ih hnd.2.1
    obtain ⟨b1, b2, b3, b4⟩ := hb
    refine ⟨?_, ?_, ?_⟩
    · rw [List.nodup_append]
      refine ⟨b1, ih1, ?_⟩
      intro z hz z' hz' e
      subst e
      obtain ⟨x, hx, hzx⟩ := (b4 z).1 hz
      obtain ⟨y, hy, hzy⟩ := (ih3 z).1 hz'
      have := hg.mem_disj x y z (b3 x hx) (ih2 y hy) hzx hzy
      subst this
      exact hnd.2.2 x hx x hy rfl
    · intro x hx
      rw [List.mem_append] at hx
      rcases hx with h1 | h1
      · exact b3 x h1
      · exact ih2 x h1
    · intro z
      simp only [List.mem_append]
      rw [b4, ih3]
      constructor
      · rintro (⟨x, h1, h2⟩ | ⟨x, h1, h2⟩)
        · exact ⟨x, Or.inl h1, h2⟩
        · exact ⟨x, Or.inr h1, h2⟩
      · rintro ⟨x, h1 | h1, h2⟩
        · exact Or.inl ⟨x, h1, h2⟩
        · exact Or.inr ⟨x, h1, h2⟩

theorem forall₂_exists_right {α β : Type} {R : α → β → Prop} {P : List α} {I : List β} (h : List.Forall₂ R P I)
    {p : α} (hp : p ∈ P) : ∃ c ∈ I, R p c := by
  induction h with
  | nil => simp at hp
  | @cons a b P I hab _ ih =>
    rw [List.mem_cons] at hp
    rcases hp with rfl | hp
    · exact ⟨b, by simp, hab⟩
    · obtain ⟨c, hc, hr⟩ := ih hp
      exact ⟨c, List.mem_cons_of_mem _ hc, hr⟩

/-- at a good level, `partition` is a partition of the original ranks into non-empty sets -/
theorem PI.partition {lv : Level} {n k : Nat} (hg : GoodLevel lv n k) {P I : List (List Nat)} (h : PI lv k P I) :
    PartOfRange n P := by
  obtain ⟨h1, h2, h3⟩ := forall₂_blk_flat hg h.rel h.inner_part.2.1
  refine ⟨?_, h1, ?_⟩
  · intro p hp
    obtain ⟨c, hc, hb⟩ := forall₂_exists_right h.rel hp
    intro e
    exact h.inner_part.1 c hc ((hb.empty_iff hg).1 e)
  · intro z
    rw [h3, hg.mem_cover]
    constructor
    · rintro ⟨x, hx, hz⟩; exact ⟨x, h2 x hx, hz⟩
    · rintro ⟨x, hx, hz⟩; exact ⟨x, (h.inner_part.2.2 x).2 hx, hz⟩

theorem SInv.coarsens {lv : Level} {n k : Nat} {st : LState} (hg : GoodLevel lv n k) {partition : List (List Nat)}
    (hin : InputOK lv k partition) (h : SInv lv k st) :
    ∀ f ∈ partition, ∃ c ∈ st.part.filter (!·.isEmpty), ∀ x ∈ f, x ∈ c := by
  intro f hf
  obtain ⟨i, hi, rfl⟩ := List.getElem_of_mem hf
  have hik : i < k := by rw [← hin.len]; exact hi
  obtain ⟨c, hc⟩ := h.n2c_total i hik
  have hck : c < st.part.length := by rw [h.part_len]; exact (h.n2c_lt i c hc).2
  have hsub : ∀ z, z ∈ mem lv i → z ∈ st.part[c] := by
    intro z hz
    rw [getElem_eq_getD _ c hck, h.part_iff]
    exact ⟨i, hc, hz⟩
  refine ⟨st.part[c], ?_, ?_⟩
  · rw [List.mem_filter]
    refine ⟨List.getElem_mem hck, ?_⟩
    cases hm : mem lv i with
    | nil => exact absurd hm (hg.mem_ne i hik)
    | cons z zs =>
      have := hsub z (by rw [hm]; simp)
      cases he : st.part[c] with
      | nil => rw [he] at this; simp at this
      | cons a b => simp
  · intro z hz
    rw [getElem_eq_getD _ i hi, hin.iff i z hik] at hz
    exact hsub z hz

/-- **post-condition of `compute_one_level`** -/
theorem computeOneLevel_post {lv : Level} {n k : Nat} (hg : GoodLevel lv n k) {partition : List (List Nat)}
    (hin : InputOK lv k partition) {m res : Rat} {perm : List Nat} {fuel : Nat}
    {p i : List (List Nat)} {imp : Bool}
    (h : computeOneLevel lv m res partition perm fuel = .ok (some (p, i, imp))) :
    PI lv k p i ∧ ∀ f ∈ partition, ∃ c ∈ p, ∀ x ∈ f, x ∈ c := by
  unfold computeOneLevel at h
  simp only [bind, Outcome.bind] at h
  rw [sortNat_eq_range hg.names_nodup hg.names_iff] at h
  split at h
  next x di hdi =>
    split at h
    next y ost hsw =>
      cases ost with
      | none => simp at h
      | some st =>
        simp only at h
        by_cases hr : st.risky = true
        · rw [if_pos hr] at h; simp at h
        · rw [if_neg hr] at h
          simp only [Outcome.ok.injEq, Option.some.injEq, Prod.mk.injEq] at h
          obtain ⟨rfl, rfl, _⟩ := h
          have hs : SInv lv k st := SInv.sweeps hg _ fuel _ st (SInv.init hin di) hsw
          exact ⟨⟨forall₂_filter_blk hg hs.rel, hs.inner_part⟩, hs.coarsens hg hin⟩
    all_goals (exact absurd h (by simp))
  all_goals (exact absurd h (by simp))

/-- the partition handed to the next level lists the member blocks of the next level graph -/
theorem PI.inputOK {lv lv' : Level} {k : Nat} {P I : List (List Nat)} (h : PI lv k P I)
    (hm : ∀ j z, j < I.length → (z ∈ mem lv' j ↔ ∃ x ∈ (I[j]?).getD [], z ∈ mem lv x)) :
    InputOK lv' I.length P := by
  have hlen := h.rel.length_eq
  have hget : ∀ j (hj : j < I.length), Blk lv k ((P[j]?).getD []) ((I[j]?).getD []) := by
    intro j hj
    have hj' : j < P.length := by rw [hlen]; exact hj
    have := h.rel.get hj' hj
    simp only [List.get_eq_getElem] at this
    rw [getElem_eq_getD _ j hj', getElem_eq_getD _ j hj] at this
    exact this
  refine ⟨hlen, ?_, ?_⟩
  · intro j hj; exact (hget j hj).1
  · intro j z hj
    rw [hm j z hj]
    exact (hget j hj).2.2.2 z

end LF
end Graphrs
