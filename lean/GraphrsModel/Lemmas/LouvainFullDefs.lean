/-
  Definitions for Props/C13TerminationFull.lean: copies of `computeOneLevel`, `levelLoop` and `louvainPartitions`
  (Model/LouvainFull.lean) that
    * take the two fuels as parameters (`louvainPartitionsF`), and
    * report WHY they stop without a result (`computeOneLevelW`, `levelLoopW`, `louvainPartitionsW`:
      `Except Stop _` instead of `Option _`),
  and the proofs that they are the same functions: erasing the reason (`Except.toOption`) gives back the
  functions of the model, and `louvainPartitions` is `louvainPartitionsF (4 n² + 16) (n + 2)`.
-/
import GraphrsModel.Model.LouvainFull
import GraphrsModel.Lemmas.LouvainGraphs
namespace Graphrs
namespace LouvainFull

/-- why the model stops without a list of levels -/
inductive Stop where
  /-- the fuel of the local-moving loop `sweeps` ran out -/
  | sweepFuel
  /-- the fuel of the level loop ran out -/
  | levelFuel
  /-- the local-moving loop finished, in a state flagged `risky` (two candidate gains within 1e-9) -/
  | risky
  /-- `modularity` returned `None` (an undefined value) -/
  | modularityUndefined
  deriving DecidableEq, Repr

/-- the total edge weight `louvain_partitions` passes down as `m` -/
def mOf (lv : Level) (weighted : Bool) : Rat :=
  if weighted then ratW lv.g.sizeWeighted else (lv.g.sizeUnweighted : Rat)

/-- `computeOneLevel`, reporting why there is no result -/
def computeOneLevelW (lv : Level) (m res : Rat) (partition : List (List Nat)) (perm : List Nat) (fuel : Nat) :
    Outcome (Except Stop (List (List Nat) × List (List Nat) × Bool)) := do
  let names := sortNat lv.g.getAllNodeNames
  let di ← degreeInformation lv.g partition.length
  let base := lv.g.getAllNodeNames
  let order := perm.filterMap fun i => base[i]?
  let st0 : LState := { part := partition, inner := names.map fun n => [n], node2com := names.map fun n => (n, n),
                        di := di, improvement := false, moves := 0 }
  match ← sweeps lv m res order fuel st0 with
  | none => .ok (.error .sweepFuel)
  | some st => if st.risky then .ok (.error .risky)
               else .ok (.ok (st.part.filter (!·.isEmpty), st.inner.filter (!·.isEmpty), st.improvement))

/-- `levelLoop`, reporting why there is no result -/
def levelLoopW (weighted : Bool) (res threshold m : Rat) (perms : List (List Nat)) (sweepFuel : Nat) :
    Nat → Level → List (List Nat) → List (List Nat) → Bool → Rat → List (List (List Nat)) →
      Outcome (Except Stop (List (List (List Nat))))
  | 0, _, _, _, _, _, _ => .ok (.error .levelFuel)
  | fuel + 1, lv, partition, inner, improvement, modularity, acc =>
    if !improvement then .ok (.ok acc)
    else do
      let acc := acc ++ [partition]
      match ← (lv.g.modularity inner weighted res).unwrap "louvain_partitions: modularity().unwrap()" with
      | none => .ok (.error .modularityUndefined)
      | some newMod =>
        if newMod - modularity ≤ threshold then .ok (.ok acc)
        else do
          let lv' ← generateGraph lv inner
          let perm := perms[lv'.g.numNodes]?.getD []
          match ← computeOneLevelW lv' m res partition perm sweepFuel with
          | .error s => .ok (.error s)
          | .ok (p, i, imp) => levelLoopW weighted res threshold m perms sweepFuel fuel lv' p i imp newMod acc

/-- `louvainPartitions` after `convert_graph`, with the two fuels as parameters, reporting why there is no result -/
def lpTailW (sweepFuel levelFuel : Nat) (lv : Level) (weighted : Bool) (res threshold : Rat) (perms : List (List Nat)) :
    Outcome (Except Stop (List (List (List Nat)))) := do
  let n := lv.g.numNodes
  let partition : List (List Nat) := (List.range n).map fun i => [i]
  match ← (lv.g.modularity partition weighted res).unwrap "louvain_partitions: modularity().unwrap()" with
  | none => .ok (.error .modularityUndefined)
  | some mod0 =>
    match ← computeOneLevelW lv (mOf lv weighted) res partition (perms[n]?.getD []) sweepFuel with
    | .error s => .ok (.error s)
    | .ok (p, i, _) => levelLoopW weighted res threshold (mOf lv weighted) perms sweepFuel levelFuel lv p i true mod0 []

/-- `louvainPartitions` with the two fuels as parameters, reporting why there is no result -/
def louvainPartitionsW (sweepFuel levelFuel : Nat) (s : Store) (weighted : Bool) (res threshold : Rat)
    (perms : List (List Nat)) : Outcome (Except Stop (List (List (List Nat)))) := do
  let lv ← convertGraph s weighted
  lpTailW sweepFuel levelFuel lv weighted res threshold perms

/-- `louvainPartitions` after `convert_graph`, with the two fuels as parameters -/
def lpTailF (sweepFuel levelFuel : Nat) (lv : Level) (weighted : Bool) (res threshold : Rat) (perms : List (List Nat)) :
    Outcome (Option (List (List (List Nat)))) := do
  let n := lv.g.numNodes
  let partition : List (List Nat) := (List.range n).map fun i => [i]
  match ← (lv.g.modularity partition weighted res).unwrap "louvain_partitions: modularity().unwrap()" with
  | none => .ok none
  | some mod0 =>
    match ← computeOneLevel lv (mOf lv weighted) res partition (perms[n]?.getD []) sweepFuel with
    | none => .ok none
    | some (p, i, _) => levelLoop weighted res threshold (mOf lv weighted) perms sweepFuel levelFuel lv p i true mod0 []

/-- `louvainPartitions` with the two fuels as parameters (the level loop `levelLoop` of the model already takes both) -/
def louvainPartitionsF (sweepFuel levelFuel : Nat) (s : Store) (weighted : Bool) (res threshold : Rat)
    (perms : List (List Nat)) : Outcome (Option (List (List (List Nat)))) := do
  let lv ← convertGraph s weighted
  lpTailF sweepFuel levelFuel lv weighted res threshold perms

end LouvainFull

open LouvainFull
namespace LF

/-! ### the model is the generalised function at the hard-coded fuels -/

theorem louvainPartitions_eq_tail (s : Store) (weighted : Bool) (res threshold : Rat) (perms : List (List Nat)) :
    louvainPartitions s weighted res threshold perms =
      Outcome.bind (convertGraph s weighted) fun lv =>
        lpTailF (4 * lv.g.numNodes * lv.g.numNodes + 16) (lv.g.numNodes + 2) lv weighted res threshold perms := by
  unfold louvainPartitions lpTailF mOf
  rfl

/-- **the model is `louvainPartitionsF` at the fuels `4 n² + 16` and `n + 2`** (`n` the number of nodes) -/
theorem louvainPartitions_eq_F (s : Store) (h : s.wf = true) (weighted : Bool) (res threshold : Rat)
    (perms : List (List Nat)) :
    louvainPartitions s weighted res threshold perms =
      louvainPartitionsF (4 * s.numNodes * s.numNodes + 16) (s.numNodes + 2) s weighted res threshold perms := by
  rw [louvainPartitions_eq_tail]
  unfold louvainPartitionsF
  obtain ⟨lv, hlv, _, _, hnum, _, _⟩ := convertGraph_spec s h weighted
  simp only [bind, hlv, Outcome.bind, hnum]

/-! ### erasing the reason -/

theorem computeOneLevel_erase (lv : Level) (m res : Rat) (partition : List (List Nat)) (perm : List Nat) (fuel : Nat) :
    computeOneLevel lv m res partition perm fuel =
      (computeOneLevelW lv m res partition perm fuel).map' Except.toOption := by
  unfold computeOneLevel computeOneLevelW
  simp only [bind, Outcome.bind]
  cases degreeInformation lv.g partition.length with
  | err k => rfl
  | panic k => rfl
  | ok di =>
    simp only
    generalize sweeps lv m res _ fuel _ = o
    cases o with
    | err k => rfl
    | panic k => rfl
    | ok r =>
      cases r with
      | none => rfl
      | some st =>
        simp only
        by_cases hr : st.risky = true
        · simp only [hr, if_true]; rfl
        · simp only [hr]; rfl

theorem levelLoop_erase (weighted : Bool) (res threshold m : Rat) (perms : List (List Nat)) (sweepFuel : Nat) :
    ∀ (fuel : Nat) (lv : Level) (partition inner : List (List Nat)) (improvement : Bool) (modularity : Rat)
      (acc : List (List (List Nat))),
    levelLoop weighted res threshold m perms sweepFuel fuel lv partition inner improvement modularity acc =
      (levelLoopW weighted res threshold m perms sweepFuel fuel lv partition inner improvement modularity acc).map'
        Except.toOption := by
  intro fuel
  induction fuel with
  | zero => intro lv partition inner improvement modularity acc; rfl
  | succ fuel ih =>
    intro lv partition inner improvement modularity acc
    unfold levelLoop levelLoopW
    by_cases himp : improvement = true
    · simp only [himp, Bool.not_true, Bool.false_eq_true, if_false, bind, Outcome.bind]
      cases (lv.g.modularity inner weighted res).unwrap "louvain_partitions: modularity().unwrap()" with
      | err k => rfl
      | panic k => rfl
      | ok omod =>
        cases omod with
        | none => rfl
        | some newMod =>
          simp only
          by_cases hth : newMod - modularity ≤ threshold
          · simp only [hth, if_true]; rfl
          · simp only [hth, if_false]
            cases generateGraph lv inner with
            | err k => rfl
            | panic k => rfl
            | ok lv' =>
              simp only
              rw [computeOneLevel_erase]
              cases computeOneLevelW lv' m res partition (perms[lv'.g.numNodes]?.getD []) sweepFuel with
              | err k => rfl
              | panic k => rfl
              | ok r =>
                cases r with
                | error s => rfl
                | ok r =>
                  obtain ⟨p, i, imp⟩ := r
                  simp only [Outcome.map', Except.toOption]
                  exact ih lv' p i imp newMod _
    · have himp' : improvement = false := by simpa using himp
      simp only [himp', Bool.not_false, if_true]
      rfl

theorem lpTail_erase (sweepFuel levelFuel : Nat) (lv : Level) (weighted : Bool) (res threshold : Rat)
    (perms : List (List Nat)) :
    lpTailF sweepFuel levelFuel lv weighted res threshold perms =
      (lpTailW sweepFuel levelFuel lv weighted res threshold perms).map' Except.toOption := by
  unfold lpTailF lpTailW
  simp only [bind, Outcome.bind]
  cases (lv.g.modularity ((List.range lv.g.numNodes).map fun i => [i]) weighted res).unwrap
      "louvain_partitions: modularity().unwrap()" with
  | err k => rfl
  | panic k => rfl
  | ok omod =>
    cases omod with
    | none => rfl
    | some mod0 =>
      simp only
      rw [computeOneLevel_erase]
      cases computeOneLevelW lv (mOf lv weighted) res ((List.range lv.g.numNodes).map fun i => [i])
          (perms[lv.g.numNodes]?.getD []) sweepFuel with
      | err k => rfl
      | panic k => rfl
      | ok r =>
        cases r with
        | error s => rfl
        | ok r =>
          obtain ⟨p, i, imp⟩ := r
          simp only [Outcome.map', Except.toOption]
          exact levelLoop_erase weighted res threshold _ perms sweepFuel levelFuel lv p i true mod0 []

/-- **`louvainPartitionsF` is `louvainPartitionsW` with the reason erased** -/
theorem louvainPartitionsF_erase (sweepFuel levelFuel : Nat) (s : Store) (weighted : Bool) (res threshold : Rat)
    (perms : List (List Nat)) :
    louvainPartitionsF sweepFuel levelFuel s weighted res threshold perms =
      (louvainPartitionsW sweepFuel levelFuel s weighted res threshold perms).map' Except.toOption := by
  unfold louvainPartitionsF louvainPartitionsW
  simp only [bind, Outcome.bind]
  cases convertGraph s weighted with
  | err k => rfl
  | panic k => rfl
  | ok lv => exact lpTail_erase sweepFuel levelFuel lv weighted res threshold perms

end LF
end Graphrs
