/-
  C05 (Brandes): the bridge between the model's single-source stage over positions (`bcBfs` + `accumulate`) and the
  specification's enumeration over names.  `f` maps positions to names (injective below `n`); `A` are the unit arcs
  of the traversal lists, `B` the unit arcs of the abstract graph.
-/
import GraphrsModel.Lemmas.BcBfs
import GraphrsModel.Lemmas.BcAccum
import GraphrsModel.Lemmas.BcSpec
import Mathlib.Data.List.Nodup
namespace Graphrs
namespace Bc

/-- arc membership with costs: `A` lists the arcs of the traversal lists, `cost` reads the cost off an entry -/
def ArcsOfC (adjOf : Nat → List Adj) (n : Nat) (cost : Adj → Int) (A : Arcs) : Prop :=
  ∀ u w c, (u, w, c) ∈ A ↔ (u < n ∧ ∃ a ∈ adjOf u, a.1 = w ∧ cost a = c)

theorem ArcsOf.toC {adjOf : Nat → List Adj} {n : Nat} {A : Arcs} (hA : ArcsOf adjOf n A) :
    ArcsOfC adjOf n (fun _ => 1) A := by
  intro u w c
  rw [hA u w c]
  constructor
  · rintro ⟨h1, rfl, a, ha, h2⟩; exact ⟨h1, a, ha, h2, rfl⟩
  · rintro ⟨h1, a, ha, h2, h3⟩; exact ⟨h1, h3.symm, a, ha, h2⟩

/-- what a single-source stage (`bfs` or `dijkstra` of betweenness.rs) delivers: `D` is the final distance array,
    `cost` the cost of an adjacency entry, `κ` the value the stage leaves in `sigma[source]` (1 for `bfs`, 2 for `dijkstra`) -/
structure SsOut (adjOf : Nat → List Adj) (n source : Nat) (cost : Adj → Int) (κ : Rat) (A : Arcs)
    (D : List (Option Int)) (r : SSR) : Prop where
  arcs : ArcsOfC adjOf n cost A
  posA : PosArcs A
  κpos : 0 < κ
  rsrc : r.source = source
  lenS : r.sigma.length = n
  lenP : r.P.length = n
  nd : r.S.Nodup
  lt : ∀ x ∈ r.S, x < n
  srcIn : source ∈ r.S
  memD : ∀ x, x ∈ r.S ↔ lk D x ≠ none
  dist : ∀ x d, lk D x = some d ↔ IsDist A source x d
  ord : r.S.Pairwise (fun x y => dOf D x ≤ dOf D y)
  pMem : ∀ w u, u ∈ gP r.P w ↔ (u ∈ r.S ∧ ∃ a ∈ adjOf u, a.1 = w ∧ lk D w = some (dOf D u + cost a))
  pNd : ∀ w, (gP r.P w).Nodup
  sig : ∀ w, w < n → getD0 r.sigma w = (if w = source then κ else 0) + ((gP r.P w).map (getD0 r.sigma)).sum
  sPos : ∀ w ∈ r.S, 0 < getD0 r.sigma w

theorem BfsOut.toSsOut {adjOf : Nat → List Adj} {n source : Nat} {A : Arcs} {D : List (Option Int)} {r : SSR}
    (hA : ArcsOf adjOf n A) (out : BfsOut adjOf n source A D r) : SsOut adjOf n source (fun _ => 1) 1 A D r where
  arcs := hA.toC
  posA := hA.unit.pos
  κpos := by norm_num
  rsrc := out.rsrc
  lenS := out.lenS
  lenP := out.lenP
  nd := out.nd
  lt := out.lt
  srcIn := out.srcIn
  memD := out.memD
  dist := out.dist
  ord := out.ord
  pMem := by
    intro w u
    rw [out.pMem]
    constructor
    · rintro ⟨h1, ⟨a, ha, h2⟩, h3⟩; exact ⟨h1, a, ha, h2, h3⟩
    · rintro ⟨h1, a, ha, h2, h3⟩; exact ⟨h1, ⟨a, ha, h2⟩, h3⟩
  pNd := out.pNd
  sig := out.sig
  sPos := out.sPos

/-- the position arcs `A` and the name arcs `B` carry the same distances under the renaming `f`: off the diagonal every arc
    of `A` is an arc of `B`, and every arc of `B` is matched by an arc of `A` that is not more expensive -/
structure Ren (n : Nat) (A B : Arcs) (f : Nat → Nat) : Prop where
  inj : ∀ i j, i < n → j < n → f i = f j → i = j
  ltA : ∀ a ∈ A, a.1 < n ∧ a.2.1 < n
  posA : PosArcs A
  posB : PosArcs B
  arcsAB : ∀ i j c, i < n → j < n → i ≠ j → (i, j, c) ∈ A → (f i, f j, c) ∈ B
  arcsBA : ∀ i j c, i < n → j < n → i ≠ j → (f i, f j, c) ∈ B → ∃ c', c' ≤ c ∧ (i, j, c') ∈ A
  cover : ∀ a ∈ B, ∃ i j, i < n ∧ j < n ∧ a.1 = f i ∧ a.2.1 = f j

section ren
variable {n : Nat} {A B : Arcs} {f : Nat → Nat}

theorem Ren.walk_fwd (hR : Ren n A B f) {a i : Nat} {c : Int} (ha : a < n) (h : Walk A a i c) :
    i < n ∧ ∃ c', c' ≤ c ∧ Walk B (f a) (f i) c' := by
  induction h with
  | nil => exact ⟨ha, 0, Int.le_refl _, Walk.nil _⟩
  | snoc hw harc ih =>
    rename_i u v c0 w
    obtain ⟨hu, hv⟩ := hR.ltA _ harc
    obtain ⟨_, c1, hle, hw1⟩ := ih
    have hwpos : 0 < w := hR.posA _ harc
    refine ⟨hv, ?_⟩
    by_cases huv : u = v
    · subst huv
      exact ⟨c1, by omega, hw1⟩
    · exact ⟨c1 + w, by omega, Walk.snoc hw1 (hR.arcsAB u v w hu hv huv harc)⟩

theorem Ren.walk_bwd (hR : Ren n A B f) {a : Nat} {y : Nat} {c : Int} (ha : a < n) (h : Walk B (f a) y c) :
    ∃ i, i < n ∧ y = f i ∧ ∃ c', c' ≤ c ∧ Walk A a i c' := by
  induction h with
  | nil => exact ⟨a, ha, rfl, 0, Int.le_refl _, Walk.nil _⟩
  | snoc hw harc ih =>
    rename_i u v c0 w
    obtain ⟨i, hi, hui, c1, hle, hwi⟩ := ih
    have hwpos : 0 < w := hR.posB _ harc
    obtain ⟨i', j, hi', hj, e1, e2⟩ := hR.cover _ harc
    simp only at e1 e2
    have : i' = i := hR.inj i' i hi' hi (by rw [← e1, hui])
    subst this
    by_cases hij : i' = j
    · subst hij
      exact ⟨i', hi', e2, c1, by omega, hwi⟩
    · have harc' : (f i', f j, w) ∈ B := by rw [← e1, ← e2]; exact harc
      obtain ⟨w', hw', hA'⟩ := hR.arcsBA i' j w hi' hj hij harc'
      exact ⟨j, hj, e2, c1 + w', by omega, Walk.snoc hwi hA'⟩

theorem Ren.isDist_iff (hR : Ren n A B f) {a i : Nat} (ha : a < n) (hi : i < n) (k : Int) :
    IsDist A a i k ↔ IsDist B (f a) (f i) k := by
  constructor
  · rintro ⟨hw, hmin⟩
    obtain ⟨_, k', hk', hwB⟩ := hR.walk_fwd ha hw
    have hminB : ∀ c, Walk B (f a) (f i) c → k ≤ c := by
      intro c hc
      obtain ⟨j, hj, e, c', hc', hwj⟩ := hR.walk_bwd ha hc
      have : i = j := hR.inj i j hi hj e
      subst this
      have := hmin c' hwj
      omega
    have : k' = k := by have := hminB k' hwB; omega
    subst this
    exact ⟨hwB, hminB⟩
  · rintro ⟨hw, hmin⟩
    obtain ⟨j, hj, e, k', hk', hwj⟩ := hR.walk_bwd ha hw
    have : i = j := hR.inj i j hi hj e
    subst this
    have hminA : ∀ c, Walk A a i c → k ≤ c := by
      intro c hc
      obtain ⟨_, c', hc', hwB⟩ := hR.walk_fwd ha hc
      have := hmin c' hwB
      omega
    have : k' = k := by have := hminA k' hwj; omega
    subst this
    exact ⟨hwj, hminA⟩

theorem Ren.isDist_name (hR : Ren n A B f) {a : Nat} (ha : a < n) {y : Nat} {k : Int} (h : IsDist B (f a) y k) :
    ∃ i, i < n ∧ y = f i ∧ IsDist A a i k := by
  obtain ⟨i, hi, e, _⟩ := hR.walk_bwd ha h.1
  subst e
  exact ⟨i, hi, rfl, (hR.isDist_iff ha hi k).2 h⟩

theorem Ren.nodes_cover (hR : Ren n A B f) : ∀ a ∈ B, a.2.1 ∈ (List.range n).map f := by
  intro a ha
  obtain ⟨i, j, _, hj, _, e2⟩ := hR.cover a ha
  exact List.mem_map.2 ⟨j, List.mem_range.2 hj, e2.symm⟩

/-- the specification's labelling from the name of `a` is exact -/
theorem Ren.exactD (hR : Ren n A B f) {a : Nat} (ha : a < n) : ExactD B (Arcs.distFrom B n (f a)) (f a) :=
  distFrom_exact_pos hR.posB (f a) ((List.range n).map f) (List.mem_map.2 ⟨a, List.mem_range.2 ha, rfl⟩)
    hR.nodes_cover n (by simp)

/-- ... and its enumeration of tight paths unfolds without fuel -/
theorem Ren.tpEq (hR : Ren n A B f) {a : Nat} (ha : a < n) : TpEq B (Arcs.distFrom B n (f a)) (f a) n :=
  tp_eq_pos hR.posB (hR.exactD ha) ((List.range n).map f) (List.mem_map.2 ⟨a, List.mem_range.2 ha, rfl⟩)
    hR.nodes_cover n (by simp)

end ren

section bridge
variable {adjOf : Nat → List Adj} {n a : Nat} {cost : Adj → Int} {κ : Rat} {A B : Arcs} {f : Nat → Nat}
  {D : List (Option Int)} {r : SSR}

theorem SsOut.dOf_nonneg (out : SsOut adjOf n a cost κ A D r) {x : Nat} (hx : x ∈ r.S) :
    0 ≤ dOf D x ∧ lk D x = some (dOf D x) := by
  have := (out.memD x).1 hx
  cases hl : lk D x with
  | none => exact absurd hl this
  | some d =>
    rw [dOf_of_lk hl]
    exact ⟨isDist_nonneg_pos out.posA ((out.dist x d).1 hl), rfl⟩

theorem SsOut.P_mem_S (out : SsOut adjOf n a cost κ A D r) {t u : Nat} (hu : u ∈ gP r.P t) : u ∈ r.S :=
  ((out.pMem t u).1 hu).1

theorem SsOut.P_lev (out : SsOut adjOf n a cost κ A D r) {t u : Nat} (hu : u ∈ gP r.P t) : dOf D u < dOf D t := by
  obtain ⟨huS, a', ha', ha1, hl⟩ := (out.pMem t u).1 hu
  rw [dOf_of_lk hl]
  have : 0 < cost a' := out.posA _ ((out.arcs u t (cost a')).2 ⟨out.lt u huS, a', ha', ha1, rfl⟩)
  omega

theorem SsOut.P_target_S (out : SsOut adjOf n a cost κ A D r) {t u : Nat} (hu : u ∈ gP r.P t) : t ∈ r.S := by
  obtain ⟨_, a', _, _, hl⟩ := (out.pMem t u).1 hu
  exact (out.memD t).2 (by rw [hl]; simp)

theorem SsOut.P_source (out : SsOut adjOf n a cost κ A D r) : gP r.P a = [] := by
  cases hg : gP r.P a with
  | nil => rfl
  | cons u l =>
    exfalso
    have hu : u ∈ gP r.P a := by rw [hg]; exact List.mem_cons_self ..
    have h1 := out.P_lev hu
    have h2 := (out.dOf_nonneg (out.P_mem_S hu)).1
    have h3 : lk D a = some 0 := (out.dist a 0).2 (isDist_source_pos out.posA a)
    rw [dOf_of_lk h3] at h1
    omega

theorem SsOut.P_unreached (out : SsOut adjOf n a cost κ A D r) {t : Nat} (ht : t ∉ r.S) : gP r.P t = [] := by
  cases hg : gP r.P t with
  | nil => rfl
  | cons u l =>
    exfalso
    exact ht (out.P_target_S (by rw [hg]; exact List.mem_cons_self ..))

theorem SsOut.leveled (out : SsOut adjOf n a cost κ A D r) : Leveled (gP r.P) r.S (dOf D) where
  nd := out.nd
  ord := out.ord
  step := fun _ _ hv => out.P_lev hv
  sub := fun _ _ hv => out.P_mem_S hv

/-- the specification's labels at names = the model's distance array at positions -/
theorem SsOut.label_iff (hR : Ren n A B f) (ha : a < n) (out : SsOut adjOf n a cost κ A D r) {t : Nat} (ht : t < n) (k : Int) :
    alookup (Arcs.distFrom B n (f a)) (f t) = some k ↔ lk D t = some k := by
  rw [hR.exactD ha (f t) k, ← hR.isDist_iff ha ht k, out.dist t k]

theorem SsOut.label_none (hR : Ren n A B f) (ha : a < n) (out : SsOut adjOf n a cost κ A D r) {t : Nat} (ht : t < n)
    (hS : t ∉ r.S) : alookup (Arcs.distFrom B n (f a)) (f t) = none := by
  cases hl : alookup (Arcs.distFrom B n (f a)) (f t) with
  | none => rfl
  | some k =>
    exfalso
    have := (out.label_iff hR ha ht k).1 hl
    exact hS ((out.memD t).2 (by rw [this]; simp))

/-- the specification's tight predecessors of a name = the names of the model's `P[t]` -/
theorem SsOut.tpreds_perm (hR : Ren n A B f) (ha : a < n) (out : SsOut adjOf n a cost κ A D r)
    {t : Nat} (ht : t < n) {dt : Int} (hl : lk D t = some dt) :
    (tpreds B (Arcs.distFrom B n (f a)) (f t) dt).Perm ((gP r.P t).map f) := by
  have hnd2 : ((gP r.P t).map f).Nodup :=
    (out.pNd t).map_on (fun x hx y hy e => hR.inj x y (out.lt x (out.P_mem_S hx)) (out.lt y (out.P_mem_S hy)) e)
  have hdt : IsDist A a t dt := (out.dist t dt).1 hl
  rw [List.perm_ext_iff_of_nodup (tpreds_nodup ..) hnd2]
  intro y
  rw [mem_tpreds_pos (hR.exactD ha), List.mem_map]
  constructor
  · rintro ⟨c, harc, hy⟩
    obtain ⟨u, hu, e, hdu⟩ := hR.isDist_name ha hy
    subst e
    refine ⟨u, ?_, rfl⟩
    have hcpos : 0 < c := hR.posB _ harc
    have hut : u ≠ t := by
      intro e; subst e
      have := isDist_unique hdu hdt
      omega
    obtain ⟨c', hc', harcA⟩ := hR.arcsBA u t c hu ht hut harc
    obtain ⟨_, a', ha', ha1, hcost⟩ := (out.arcs u t c').1 harcA
    have hlu := (out.dist u (dt - c)).2 hdu
    -- the matching arc of `A` is tight as well
    have hle := isDist_arc_le hdu harcA hdt
    have hcc : c' = c := by omega
    rw [out.pMem]
    refine ⟨(out.memD u).2 (by rw [hlu]; simp), a', ha', ha1, ?_⟩
    rw [dOf_of_lk hlu, hl, hcost, hcc]
    congr 1; omega
  · rintro ⟨u, hu, rfl⟩
    obtain ⟨huS, a', ha', ha1, hlt⟩ := (out.pMem t u).1 hu
    have hun := out.lt u huS
    have hlev := out.P_lev hu
    have hut : u ≠ t := by intro e; subst e; omega
    rw [hl] at hlt
    have hdt' : dt = dOf D u + cost a' := by simpa using hlt
    have harcA : (u, t, cost a') ∈ A := (out.arcs u t (cost a')).2 ⟨hun, a', ha', ha1, rfl⟩
    refine ⟨cost a', hR.arcsAB u t _ hun ht hut harcA, ?_⟩
    have e : dt - cost a' = dOf D u := by omega
    rw [e, ← hR.isDist_iff ha hun, ← out.dist]
    exact (out.dOf_nonneg huS).2

theorem SsOut.sum_tpreds (hR : Ren n A B f) (ha : a < n) (out : SsOut adjOf n a cost κ A D r)
    {t : Nat} (ht : t < n) {dt : Int} (hl : lk D t = some dt) (g : Nat → Rat) :
    ((tpreds B (Arcs.distFrom B n (f a)) (f t) dt).map g).sum = ((gP r.P t).map fun u => g (f u)).sum := by
  rw [((out.tpreds_perm hR ha ht hl).map g).sum_eq, List.map_map]
  rfl

/-- **`sigma[t]` is `κ` times the number of shortest paths the specification lists** (positions vs names) -/
theorem SsOut.sigma_eq (hR : Ren n A B f) (ha : a < n) (out : SsOut adjOf n a cost κ A D r) :
    ∀ t, t < n → getD0 r.sigma t = κ * sigH B (Arcs.distFrom B n (f a)) (f a) n (f t) := by
  have hTp := hR.tpEq ha
  have hsrc : getD0 r.sigma a = κ * sigH B (Arcs.distFrom B n (f a)) (f a) n (f a) := by
    rw [sigH_source hTp, out.sig a ha, out.P_source]; simp
  have key : ∀ m : Nat, ∀ t, t ∈ r.S → (dOf D t).toNat = m →
      getD0 r.sigma t = κ * sigH B (Arcs.distFrom B n (f a)) (f a) n (f t) := by
    intro m
    induction m using Nat.strong_induction_on with
    | _ m ih =>
      intro t htS hm
      have ht := out.lt t htS
      by_cases hta : t = a
      · subst hta; exact hsrc
      · obtain ⟨h0, hl⟩ := out.dOf_nonneg htS
        have hne : f t ≠ f a := fun e => hta (hR.inj t a ht ha e)
        rw [sigH_some hTp (f t) hne (dOf D t) ((out.label_iff hR ha ht _).2 hl),
          out.sum_tpreds hR ha ht hl, out.sig t ht, if_neg hta, zero_add, ← sum_map_mul_left']
        apply sum_map_congr
        intro u hu
        have huS := out.P_mem_S hu
        have h1 := out.P_lev hu
        have h2 := (out.dOf_nonneg huS).1
        exact ih (dOf D u).toNat (by omega) u huS rfl
  intro t ht
  by_cases htS : t ∈ r.S
  · exact key _ t htS rfl
  · have hta : t ≠ a := fun e => htS (e ▸ out.srcIn)
    have hne : f t ≠ f a := fun e => hta (hR.inj t a ht ha e)
    rw [sigH_none hTp (f t) hne (out.label_none hR ha ht htS), out.sig t ht, out.P_unreached htS]
    simp [hta]

/-- the backward recursion of "paths through `x`" (scaled by `κ`), read over the model's `P` -/
theorem SsOut.thr_rec (hR : Ren n A B f) (ha : a < n) (out : SsOut adjOf n a cost κ A D r)
    {x : Nat} (hx : x < n) (hxa : x ≠ a) :
    ∀ t ∈ r.S, κ * thrH B (Arcs.distFrom B n (f a)) (f a) n (f x) (f t) =
      if t = x then getD0 r.sigma x
      else ((gP r.P t).map fun u => κ * thrH B (Arcs.distFrom B n (f a)) (f a) n (f x) (f u)).sum := by
  have hTp := hR.tpEq ha
  have hfx : f x ≠ f a := fun e => hxa (hR.inj x a hx ha e)
  intro t htS
  have ht := out.lt t htS
  by_cases hta : t = a
  · subst hta
    rw [thrH_source hTp, if_neg hfx, if_neg (fun e => hxa e.symm), out.P_source]
    simp
  · obtain ⟨h0, hl⟩ := out.dOf_nonneg htS
    have hne : f t ≠ f a := fun e => hta (hR.inj t a ht ha e)
    rw [thrH_some hTp (f x) (f t) hne (dOf D t) ((out.label_iff hR ha ht _).2 hl)]
    by_cases htx : t = x
    · subst htx
      rw [if_pos rfl, if_pos rfl, out.sigma_eq hR ha t ht]
    · have : f x ≠ f t := fun e => htx (hR.inj x t hx ht e).symm
      rw [if_neg this, if_neg htx, out.sum_tpreds hR ha ht hl, sum_map_mul_left']

/-- no listed path to `y` passes through `x` unless `x` is reachable and not farther than `y` -/
theorem SsOut.thr_zero (hR : Ren n A B f) (ha : a < n) (out : SsOut adjOf n a cost κ A D r)
    {x : Nat} (hx : x < n) :
    ∀ y ∈ r.S, ¬ (x ∈ r.S ∧ dOf D x ≤ dOf D y) → κ * thrH B (Arcs.distFrom B n (f a)) (f a) n (f x) (f y) = 0 := by
  have key : ∀ m : Nat, ∀ y, y ∈ r.S → (dOf D y).toNat = m → ¬ (x ∈ r.S ∧ dOf D x ≤ dOf D y) →
      κ * thrH B (Arcs.distFrom B n (f a)) (f a) n (f x) (f y) = 0 := by
    intro m
    induction m using Nat.strong_induction_on with
    | _ m ih =>
      intro y hyS hm hnot
      have h0y := (out.dOf_nonneg hyS).1
      have hxa : x ≠ a := by
        intro e
        apply hnot
        subst e
        refine ⟨out.srcIn, ?_⟩
        have h3 : lk D x = some 0 := (out.dist x 0).2 (isDist_source_pos out.posA x)
        rw [dOf_of_lk h3]; exact h0y
      have hyx : y ≠ x := by
        intro e; subst e; exact hnot ⟨hyS, Int.le_refl _⟩
      rw [out.thr_rec hR ha hx hxa y hyS, if_neg hyx]
      apply sum_map_zero
      intro u hu
      have huS := out.P_mem_S hu
      have h1 := out.P_lev hu
      have h2 := (out.dOf_nonneg huS).1
      exact ih (dOf D u).toNat (by omega) u huS rfl (fun ⟨h3, h4⟩ => hnot ⟨h3, by omega⟩)
  intro y hyS hnot
  exact key _ y hyS rfl hnot

/-- the pair term of the definition for source `a`, target `t` and the node `x` (positions; `f` gives the names) -/
def pairTerm (B : Arcs) (f : Nat → Nat) (n a x t : Nat) : Rat :=
  if x = a ∨ x = t then 0
  else thrH B (Arcs.distFrom B n (f a)) (f a) n (f x) (f t) / sigH B (Arcs.distFrom B n (f a)) (f a) n (f t)

/-- **Brandes' dependency = the sum over targets of the fraction of shortest paths through `x`** -/
theorem SsOut.dlt_eq (hR : Ren n A B f) (ha : a < n) (out : SsOut adjOf n a cost κ A D r)
    {x : Nat} (hxS : x ∈ r.S) (hxa : x ≠ a) :
    dlt (gP r.P) (getD0 r.sigma) r.S x = (r.S.map fun t => pairTerm B f n a x t).sum := by
  have hx := out.lt x hxS
  have hL := out.leveled
  have hκ : κ ≠ 0 := ne_of_gt out.κpos
  have hσ : ∀ t ∈ r.S, getD0 r.sigma t ≠ 0 := fun t ht => ne_of_gt (out.sPos t ht)
  have htel := telescope r.S out.nd (gP r.P) (fun w _ y hy => out.P_mem_S hy) (fun w _ => out.pNd w)
    (fun t => κ * thrH B (Arcs.distFrom B n (f a)) (f a) n (f x) (f t))
    (fun t => (1 + dlt (gP r.P) (getD0 r.sigma) r.S t) / getD0 r.sigma t)
    (fun t => 1 / getD0 r.sigma t) x hxS (getD0 r.sigma x)
    (out.thr_rec hR ha hx hxa)
    (by
      apply sum_map_zero
      intro u hu
      have h1 := out.P_lev hu
      exact out.thr_zero hR ha hx u (out.P_mem_S hu) (fun ⟨_, h4⟩ => by omega))
    (fun t ht => hL.coeff_rec t (hσ t ht))
  have h1 : getD0 r.sigma x * ((1 + dlt (gP r.P) (getD0 r.sigma) r.S x) / getD0 r.sigma x) =
      1 + dlt (gP r.P) (getD0 r.sigma) r.S x := by
    field_simp [hσ x hxS]
  rw [h1] at htel
  -- split off the term `t = x`
  have h2 : ∀ t ∈ r.S, pairTerm B f n a x t =
      κ * thrH B (Arcs.distFrom B n (f a)) (f a) n (f x) (f t) * (1 / getD0 r.sigma t) - (if t = x then 1 else 0) := by
    intro t ht
    unfold pairTerm
    have hst := out.sigma_eq hR ha t (out.lt t ht)
    by_cases e : x = t
    · subst e
      rw [if_pos (Or.inr rfl), if_pos rfl, out.thr_rec hR ha hx hxa x hxS, if_pos rfl]
      field_simp [hσ x hxS]
      ring
    · have e' : ¬ t = x := fun h => e h.symm
      rw [if_neg (by rintro (h | h); exact hxa h; exact e h), if_neg e', hst]
      have hs0 : sigH B (Arcs.distFrom B n (f a)) (f a) n (f t) ≠ 0 := by
        intro h0
        apply hσ t ht
        rw [hst, h0, mul_zero]
      field_simp
      ring
  rw [sum_map_congr _ _ _ h2, sum_map_sub, htel, sum_indicator_eq out.nd (fun _ => 1) x]
  simp [hxS]

/-- **one source**: what `accumulate` adds to `bc[x]` is the sum of the pair terms of that source -/
theorem SsOut.bcAdd_eq (hR : Ren n A B f) (ha : a < n) (out : SsOut adjOf n a cost κ A D r)
    {x : Nat} (hx : x < n) :
    bcAdd (gP r.P) (getD0 r.sigma) a r.S x = (r.S.map fun t => pairTerm B f n a x t).sum := by
  have hκ : κ ≠ 0 := ne_of_gt out.κpos
  rw [out.leveled.bcAdd_eq]
  by_cases hxa : x = a
  · rw [if_neg (fun h => h.2 hxa)]
    symm
    apply sum_map_zero
    intro t _
    unfold pairTerm
    rw [if_pos (Or.inl hxa)]
  · by_cases hxS : x ∈ r.S
    · rw [if_pos ⟨hxS, hxa⟩]
      exact out.dlt_eq hR ha hxS hxa
    · rw [if_neg (fun h => hxS h.1)]
      symm
      apply sum_map_zero
      intro t ht
      unfold pairTerm
      split
      · rfl
      · have := out.thr_zero hR ha hx t ht (fun h => hxS h.1)
        rcases mul_eq_zero.1 this with h0 | h0
        · exact absurd h0 hκ
        · rw [h0]; simp

end bridge

end Bc
end Graphrs
