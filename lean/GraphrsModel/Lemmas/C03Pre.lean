/-
  The Prop-level invariant `Pre` (what C03 needs of `Store.wf`), its derivation from `wf`,
  and the way back from it to the Bool clause `vecOk`.
-/
import GraphrsModel.Lemmas.C03Inv
namespace Graphrs
namespace C03
open Store

abbrev EMap := List ((Nat × Nat) × List Edge)
abbrev SMap := List (Nat × List Nat)
abbrev AVec := List (List Adj)

def wbC (edges : EMap) (dir : Bool) (x y : Nat) : List W :=
  ((alookup edges (nameKey dir x y)).getD []).map (·.w)

theorem weightsBetween_eq (s : Store) (x y : Nat) :
    s.weightsBetween x y = wbC s.edges s.specs.directed x y := rfl

/-- minimum stored weight between two names, as the successor rows see it -/
def fS (edges : EMap) (dir : Bool) (x y : Nat) : Option W := Abs.minW (wbC edges dir x y)
/-- ... and as the predecessor rows see it -/
def fP (edges : EMap) (dir : Bool) (x y : Nat) : Option W :=
  if dir then Abs.minW (wbC edges dir y x) else none

/-- rows of an adjacency vector against the expected minimum weights `f` (by name) -/
structure VecInv (names : List Nat) (vec : AVec) (f : Nat → Nat → Option W) : Prop where
  len : vec.length = names.length
  bnd : ∀ (i : Nat) (row : List Adj), vec[i]? = some row → ∀ a ∈ row, a.1 < names.length
  val : ∀ i j x y, names[i]? = some x → names[j]? = some y → rowMin vec i j = f x y

/-- position-keyed neighbour sets against the expected membership `g` (by name) -/
structure SetInv (names : List Nat) (sets : SMap) (g : Nat → Nat → Bool) : Prop where
  bnd : ∀ i l, alookup sets i = some l → ∀ j ∈ l, j < names.length
  mem : ∀ i j x y, names[i]? = some x → names[j]? = some y → (setOf sets i).contains j = g x y

structure PreC (names : List Nat) (nodesMap : List (Nat × Nat)) (edges edgesMap : EMap) (dir : Bool)
    (succVec : AVec) (succMap : SMap) (predVec : AVec) (predMap : SMap) : Prop where
  nodup : names.Nodup
  nm : ∀ x i, alookup nodesMap x = some i ↔ names[i]? = some x
  ebM : ∀ k l, alookup edgesMap k = some l → k.1 < names.length ∧ k.2 < names.length
  ebE : ∀ k l, alookup edges k = some l → k.1 ∈ names ∧ k.2 ∈ names ∧ l ≠ []
  l2 : ∀ i j x y, names[i]? = some x → names[j]? = some y →
    alookup edgesMap (idxKey dir i j) = alookup edges (nameKey dir x y)
  vS : VecInv names succVec (fS edges dir)
  sS : SetInv names succMap (fun x y => (fS edges dir x y).isSome)
  vP : VecInv names predVec (fP edges dir)
  sP : SetInv names predMap (fun x y => (fP edges dir x y).isSome)

def Pre (s : Store) : Prop :=
  PreC s.names s.nodesMap s.edges s.edgesMap s.specs.directed s.succVec s.succMap s.predVec s.predMap

theorem fS_isSome (edges : EMap) (dir : Bool) (x y : Nat)
    (hne : ∀ k l, alookup edges k = some l → l ≠ []) :
    (fS edges dir x y).isSome = (alookup edges (nameKey dir x y)).isSome := by
  unfold fS wbC
  rw [minW_isSome]
  cases h : alookup edges (nameKey dir x y) with
  | none => rfl
  | some l =>
    have := hne _ _ h
    cases l with
    | nil => exact absurd rfl this
    | cons a t => rfl

/-! ## the Bool clause `vecOk`, one vector at a time -/

def rowsOkB (n : Nat) (names : List Nat) (vec : AVec) (sets : SMap) (wbf : Nat → Nat → List W) : Bool :=
  vec.zipIdx.all fun r =>
    r.1.all (fun a => a.1 < n) &&
    (List.range n).all fun j =>
      (r.1.any (·.1 == j) == (setOf sets r.2).contains j) &&
      (!(r.1.any (·.1 == j)) ||
        (match names[r.2]?, names[j]? with
         | some x, some y =>
           Abs.minW ((r.1.filter (·.1 == j)).map (·.2)) == Abs.minW (wbf x y)
         | _, _ => false))

theorem vecOk_eq (s : Store) :
    s.vecOk = (rowsOkB s.nodesVec.length s.names s.succVec s.succMap (fun x y => s.weightsBetween x y) &&
      rowsOkB s.nodesVec.length s.names s.predVec s.predMap (fun x y => s.weightsBetween y x)) := rfl

theorem rowsOkB_iff (n : Nat) (names : List Nat) (vec : AVec) (sets : SMap) (wbf : Nat → Nat → List W) :
    rowsOkB n names vec sets wbf = true ↔
      ∀ i row, vec[i]? = some row → (∀ a ∈ row, a.1 < n) ∧
        ∀ j, j < n → (row.any (·.1 == j) = (setOf sets i).contains j) ∧
          (row.any (·.1 == j) = true → ∃ x y, names[i]? = some x ∧ names[j]? = some y ∧
            Abs.minW (wts row j) = Abs.minW (wbf x y)) := by
  unfold rowsOkB
  simp only [List.all_eq_true, Bool.and_eq_true, decide_eq_true_eq, beq_iff_eq, List.mem_range,
    Bool.or_eq_true, Bool.not_eq_true']
  constructor
  · intro h i row hrow
    have h' := h (row, i) (List.mem_zipIdx_iff_getElem?.2 hrow)
    refine ⟨h'.1, fun j hj => ⟨(h'.2 j hj).1, fun hany => ?_⟩⟩
    rcases (h'.2 j hj).2 with h2 | h2
    · simp only at h2; rw [hany] at h2; cases h2
    · simp only at h2
      split at h2
      · rename_i x y hx hy
        exact ⟨x, y, hx, hy, by simpa [wts] using h2⟩
      · cases h2
  · intro h r hr
    obtain ⟨row, i⟩ := r
    have hrow := List.mem_zipIdx_iff_getElem?.1 hr
    simp only at hrow
    have h' := h i row hrow
    refine ⟨h'.1, fun j hj => ⟨(h'.2 j hj).1, ?_⟩⟩
    cases hany : row.any (·.1 == j) with
    | false => left; rfl
    | true =>
      right
      obtain ⟨x, y, hx, hy, hm⟩ := (h'.2 j hj).2 hany
      simp only [hx, hy]
      simpa [wts] using hm

/-- from the Prop invariants back to the Bool clause -/
theorem rowsOkB_of (n : Nat) (names : List Nat) (vec : AVec) (sets : SMap) (wbf : Nat → Nat → List W)
    (f : Nat → Nat → Option W) (hn : n = names.length)
    (hV : VecInv names vec f) (hS : SetInv names sets (fun x y => (f x y).isSome))
    (hw : ∀ x y, (f x y).isSome = true → f x y = Abs.minW (wbf x y)) :
    rowsOkB n names vec sets wbf = true := by
  rw [rowsOkB_iff]
  subst hn
  intro i row hrow
  refine ⟨hV.bnd i row hrow, fun j hj => ?_⟩
  have hi : i < names.length := by rw [← hV.len]; exact lt_of_getElem? hrow
  obtain ⟨x, hx⟩ : ∃ x, names[i]? = some x := ⟨names[i], List.getElem?_eq_getElem hi⟩
  obtain ⟨y, hy⟩ : ∃ y, names[j]? = some y := ⟨names[j], List.getElem?_eq_getElem hj⟩
  have hv := hV.val i j x y hx hy
  have hm := hS.mem i j x y hx hy
  have hr : rowMin vec i j = Abs.minW (wts row j) := by simp [rowMin, hrow]
  rw [any_eq_wts, ← hr, hv]
  refine ⟨hm.symm, fun hs => ⟨x, y, hx, hy, ?_⟩⟩
  exact hw x y hs

/-- from the Bool clause to the Prop invariant (given the set side) -/
theorem vecInv_of_rows (n : Nat) (names : List Nat) (vec : AVec) (sets : SMap) (wbf : Nat → Nat → List W)
    (f : Nat → Nat → Option W) (hn : n = names.length) (hlen : vec.length = names.length)
    (hrows : rowsOkB n names vec sets wbf = true)
    (hmem : ∀ i j x y, names[i]? = some x → names[j]? = some y →
      (setOf sets i).contains j = (f x y).isSome)
    (hw : ∀ x y, (f x y).isSome = true → f x y = Abs.minW (wbf x y)) :
    VecInv names vec f := by
  rw [rowsOkB_iff] at hrows
  subst hn
  refine ⟨hlen, fun i row hrow => (hrows i row hrow).1, ?_⟩
  intro i j x y hx hy
  have hi := lt_of_getElem? hx
  have hj := lt_of_getElem? hy
  have hi' : i < vec.length := by rw [hlen]; exact hi
  have hrow : vec[i]? = some vec[i] := List.getElem?_eq_getElem hi'
  obtain ⟨h1, h2⟩ := (hrows i _ hrow).2 j hj
  have hr : rowMin vec i j = Abs.minW (wts vec[i] j) := by simp [rowMin, hrow]
  rw [any_eq_wts, ← hr, hmem i j x y hx hy] at h1
  rw [any_eq_wts, ← hr] at h2
  cases hs : (f x y).isSome with
  | true =>
    rw [hs] at h1
    obtain ⟨x', y', hx', hy', hm⟩ := h2 h1
    rw [hx] at hx'; rw [hy] at hy'; cases hx'; cases hy'
    rw [hm, hw x y hs]
  | false =>
    rw [hs] at h1
    have e1 : rowMin vec i j = none := by
      cases h : rowMin vec i j with
      | none => rfl
      | some v => rw [h] at h1; cases h1
    have e2 : f x y = none := by
      cases h : f x y with
      | none => rfl
      | some v => rw [h] at hs; cases hs
    rw [e1, e2]

/-! ## reading `adjOk` -/

structure AdjP (s : Store) : Prop where
  bSM : ∀ i l, alookup s.succMap i = some l → ∀ j ∈ l, j < s.names.length
  bPM : ∀ i l, alookup s.predMap i = some l → ∀ j ∈ l, j < s.names.length
  sM : ∀ i j x y, s.names[i]? = some x → s.names[j]? = some y →
    (setOf s.succMap i).contains j = s.hasEdge x y
  pM : ∀ i j x y, s.names[i]? = some x → s.names[j]? = some y →
    (setOf s.predMap i).contains j = (s.specs.directed && s.hasEdge y x)

theorem adjOk_read (s : Store) (h : s.adjOk = true) : AdjP s := by
  simp only [Store.adjOk, Bool.and_eq_true, List.all_eq_true, decide_eq_true_eq, beq_iff_eq,
    keysNodup_iff] at h
  obtain ⟨⟨⟨⟨⟨_, h7⟩, h8⟩, _⟩, h10⟩, h11⟩ := h
  refine ⟨?_, ?_, ?_, ?_⟩
  · intro i l hl j hj
    have := (h7 (i, l) (mem_of_alookup _ _ _ hl)).2 j hj
    simpa [names_length] using this
  · intro i l hl j hj
    have := (h8 (i, l) (mem_of_alookup _ _ _ hl)).2 j hj
    simpa [names_length] using this
  · intro i j x y hx hy
    have a := (h11 (x, i) (List.mem_zipIdx_iff_getElem?.2 hx) (y, j) (List.mem_zipIdx_iff_getElem?.2 hy)).1
    have b := (h10 x (List.mem_of_getElem? hx) y (List.mem_of_getElem? hy)).1
    simp only at a
    rw [a, b]
  · intro i j x y hx hy
    have a := (h11 (x, i) (List.mem_zipIdx_iff_getElem?.2 hx) (y, j) (List.mem_zipIdx_iff_getElem?.2 hy)).2
    have b := (h10 x (List.mem_of_getElem? hx) y (List.mem_of_getElem? hy)).2
    simp only at a
    rw [a, b]

theorem fP_isSome (edges : EMap) (dir : Bool) (x y : Nat) :
    (fP edges dir x y).isSome = (dir && (fS edges dir y x).isSome) := by
  unfold fP fS
  cases dir <;> simp

/-- everything C03 needs of the coupling invariant, in Prop form -/
theorem pre_of_wf (s : Store) (h : s.wf = true) : Pre s := by
  simp only [Store.wf, Bool.and_eq_true] at h
  obtain ⟨⟨⟨hn, he⟩, ha⟩, hv⟩ := h
  have eP := edgesOk_read s he
  have aP := adjOk_read s ha
  have hlen := nodesOk_len s hn
  rw [vecOk_eq, Bool.and_eq_true] at hv
  have hne : ∀ k l, alookup s.edges k = some l → l ≠ [] := eP.ne
  have hS : ∀ i j x y, s.names[i]? = some x → s.names[j]? = some y →
      (setOf s.succMap i).contains j = (fS s.edges s.specs.directed x y).isSome := by
    intro i j x y hx hy
    rw [aP.sM i j x y hx hy, hasEdge_iff s eP, fS_isSome _ _ _ _ hne]
  have hP : ∀ i j x y, s.names[i]? = some x → s.names[j]? = some y →
      (setOf s.predMap i).contains j = (fP s.edges s.specs.directed x y).isSome := by
    intro i j x y hx hy
    rw [aP.pM i j x y hx hy, hasEdge_iff s eP, fP_isSome, fS_isSome _ _ _ _ hne]
  refine ⟨nodesOk_nodup s hn, nodesOk_nm s hn, eP.bM, ?_, edges_link s hn eP, ?_, ⟨aP.bSM, hS⟩, ?_,
    ⟨aP.bPM, hP⟩⟩
  · intro k l hl
    exact ⟨(eP.inN k l hl).1, (eP.inN k l hl).2, eP.ne k l hl⟩
  · exact vecInv_of_rows _ _ _ _ _ _ (names_length s).symm hlen.1 hv.1 hS (fun _ _ _ => rfl)
  · refine vecInv_of_rows _ _ _ _ _ _ (names_length s).symm hlen.2 hv.2 hP ?_
    intro x y hs
    unfold fP at hs ⊢
    cases hd : s.specs.directed with
    | true => simp [weightsBetween_eq, hd]
    | false => rw [hd] at hs; simp at hs

end C03
end Graphrs
