/-
  Helper lemmas for C02: the adjacency-set clause after the set / edge-store updates of `add_edge`.
-/
import GraphrsModel.Lemmas.C02Step2
namespace Graphrs
namespace C02
open Store

theorem nameKey_eq_iff (d : Bool) (x y u v : Nat) :
    nameKey d u v = nameKey d x y ↔ ((x = u ∧ y = v) ∨ (d = false ∧ x = v ∧ y = u)) := by
  cases d
  · unfold nameKey
    by_cases h1 : u > v <;> by_cases h2 : x > y <;> simp [h1, h2] <;> omega
  · simp [nameKey]
    constructor
    · rintro ⟨a, b⟩; exact ⟨a.symm, b.symm⟩
    · rintro ⟨a, b⟩; exact ⟨a.symm, b.symm⟩

theorem ordered_key (d : Bool) (e : Edge) :
    ((if d then e else e.ordered).u, (if d then e else e.ordered).v) = nameKey d e.u e.v := by
  cases d
  · unfold nameKey Edge.ordered Edge.reversed
    by_cases h : e.u > e.v <;> simp [h]
  · simp [nameKey]

/-- the `hasEdge` relation gains exactly the pair of the inserted edge -/
theorem hasEdge_after (s t : Store) (e : Edge)
    (hs : ∀ x y, s.hasEdge x y = true ↔ (alookup s.edges (nameKey s.specs.directed x y)).isSome = true)
    (ht : EdgesP t)
    (hspecs : t.specs = s.specs)
    (hedges : let o := if s.specs.directed then e else e.ordered
      t.edges = amodify s.edges (o.u, o.v) [] (· ++ [o]) ∨ t.edges = ainsert s.edges (o.u, o.v) [o] ∨
      (t.edges = s.edges ∧ (alookup s.edges (nameKey s.specs.directed e.u e.v)).isSome = true))
    (x y : Nat) :
    t.hasEdge x y = true ↔
      (s.hasEdge x y = true ∨ (x = e.u ∧ y = e.v) ∨ (s.specs.directed = false ∧ x = e.v ∧ y = e.u)) := by
  rw [ht.hasEdge_iff, hs, hspecs, ← nameKey_eq_iff]
  simp only [ordered_key] at hedges
  rcases hedges with h | h | ⟨h, h'⟩
  · rw [h, alookup_amodify]
    by_cases hk : nameKey s.specs.directed e.u e.v = nameKey s.specs.directed x y
    · simp [hk]
    · simp [hk]
  · rw [h, alookup_ainsert]
    by_cases hk : nameKey s.specs.directed e.u e.v = nameKey s.specs.directed x y
    · simp [hk]
    · simp [hk]
  · rw [h]
    constructor
    · exact .inl
    · rintro (h1 | h1)
      · exact h1
      · rw [← h1]; exact h'

/-- `AdjP` is re-established when the four set maps gain the pair(s) of the new edge and
    `hasEdge` gains the same pair(s) -/
theorem AdjP_insert (s t : Store) (u v ui vi : Nat) (ha : AdjP s) (hends : Ends s)
    (hnames : t.names = s.names) (hlen : t.nodesVec.length = s.nodesVec.length)
    (hnd : s.names.Nodup) (hu : s.names[ui]? = some u) (hv : s.names[vi]? = some v)
    (hspecs : t.specs = s.specs)
    (hsucc : t.succ = if s.specs.directed then amodify s.succ u [] (sinsert · v)
       else amodify (amodify s.succ u [] (sinsert · v)) v [] (sinsert · u))
    (hsm : t.succMap = if s.specs.directed then amodify s.succMap ui [] (sinsert · vi)
       else amodify (amodify s.succMap ui [] (sinsert · vi)) vi [] (sinsert · ui))
    (hpred : t.pred = if s.specs.directed then amodify s.pred v [] (sinsert · u) else s.pred)
    (hpm : t.predMap = if s.specs.directed then amodify s.predMap vi [] (sinsert · ui) else s.predMap)
    (hE : ∀ x y, t.hasEdge x y = true ↔
      (s.hasEdge x y = true ∨ (x = u ∧ y = v) ∨ (s.specs.directed = false ∧ x = v ∧ y = u))) :
    AdjP t := by
  have hun : u ∈ s.names := List.mem_of_getElem? hu
  have hvn : v ∈ s.names := List.mem_of_getElem? hv
  have huil : ui < s.nodesVec.length := by rw [← names_length]; exact (List.getElem?_eq_some_iff.1 hu).1
  have hvil : vi < s.nodesVec.length := by rw [← names_length]; exact (List.getElem?_eq_some_iff.1 hv).1
  -- position ↔ name
  have hpos : ∀ (i x w wi : Nat), s.names[i]? = some x → s.names[wi]? = some w → (i = wi ↔ x = w) := by
    intro i x w wi h1 h2
    constructor
    · intro e; subst e; rw [h1] at h2; exact Option.some.inj h2
    · intro e; subst e
      have hlt := (List.getElem?_eq_some_iff.1 h1).1
      exact (List.getElem?_inj hlt hnd).1 (h1.trans h2.symm)
  have key : SetMapOk (· ∈ s.names) t.succ ∧ SetMapOk (· ∈ s.names) t.pred ∧
      SetMapOk (· < s.nodesVec.length) t.succMap ∧ SetMapOk (· < s.nodesVec.length) t.predMap ∧
      (∀ i, i < s.nodesVec.length → acontains t.succMap i = true ∧ acontains t.predMap i = true) ∧
      (∀ x y, y ∈ setOf t.succ x ↔ (y ∈ setOf s.succ x ∨ (x = u ∧ y = v) ∨ (s.specs.directed = false ∧ x = v ∧ y = u))) ∧
      (∀ x y, y ∈ setOf t.pred x ↔ (y ∈ setOf s.pred x ∨ (s.specs.directed = true ∧ x = v ∧ y = u))) ∧
      (∀ i j, j ∈ setOf t.succMap i ↔ (j ∈ setOf s.succMap i ∨ (i = ui ∧ j = vi) ∨ (s.specs.directed = false ∧ i = vi ∧ j = ui))) ∧
      (∀ i j, j ∈ setOf t.predMap i ↔ (j ∈ setOf s.predMap i ∨ (s.specs.directed = true ∧ i = vi ∧ j = ui))) := by
    cases hd : s.specs.directed
    · rw [hd] at hsucc hsm hpred hpm
      simp only [Bool.false_eq_true, if_false] at hsucc hsm hpred hpm
      rw [hsucc, hsm, hpred, hpm]
      refine ⟨(ha.okSucc.amodify u v hun hvn).amodify v u hvn hun, ha.okPred,
        (ha.okSuccMap.amodify ui vi huil hvil).amodify vi ui hvil huil, ha.okPredMap, ?_, ?_, ?_, ?_, ?_⟩
      · intro i hi
        exact ⟨acontains_amodify _ _ _ _ _ (acontains_amodify _ _ _ _ _ (ha.total i hi).1), (ha.total i hi).2⟩
      · intro x y
        rw [mem_setOf_amodify, mem_setOf_amodify]
        simp only [true_and, or_assoc]
      · intro x y; simp
      · intro i j
        rw [mem_setOf_amodify, mem_setOf_amodify]
        simp only [true_and, or_assoc]
      · intro i j; simp
    · rw [hd] at hsucc hsm hpred hpm
      simp only [if_true] at hsucc hsm hpred hpm
      rw [hsucc, hsm, hpred, hpm]
      refine ⟨ha.okSucc.amodify u v hun hvn, ha.okPred.amodify v u hvn hun,
        ha.okSuccMap.amodify ui vi huil hvil, ha.okPredMap.amodify vi ui hvil huil, ?_, ?_, ?_, ?_, ?_⟩
      · intro i hi
        exact ⟨acontains_amodify _ _ _ _ _ (ha.total i hi).1, acontains_amodify _ _ _ _ _ (ha.total i hi).2⟩
      · intro x y
        rw [mem_setOf_amodify]; simp
      · intro x y
        rw [mem_setOf_amodify]; simp
      · intro i j
        rw [mem_setOf_amodify]; simp
      · intro i j
        rw [mem_setOf_amodify]; simp
  obtain ⟨okS, okP, okSM, okPM, tot, hS, hP, hSM, hPM⟩ := key
  apply AdjP.mk'
  · rw [hnames]; exact okS
  · rw [hnames]; exact okP
  · rw [hlen]; exact okSM
  · rw [hlen]; exact okPM
  · rw [hlen]; exact tot
  · intro x y
    constructor
    · rw [hS, hE, ha.mem_succ' hends]
    · rw [hP, hE, ha.mem_pred' hends, hspecs]
      cases hd : s.specs.directed
      · simp
      · simp only [true_and, Bool.true_eq_false, false_and, or_false]
        constructor
        · rintro (h | ⟨h1, h2⟩)
          · exact .inl h
          · exact .inr ⟨h2, h1⟩
        · rintro (h | ⟨h1, h2⟩)
          · exact .inl h
          · exact .inr ⟨h2, h1⟩
  · rw [hnames]
    intro x i y j hx hy
    constructor
    · rw [hSM, hS, (ha.idx x i y j hx hy).1, hpos i x u ui hx hu, hpos j y v vi hy hv,
        hpos i x v vi hx hv, hpos j y u ui hy hu]
    · rw [hPM, hP, (ha.idx x i y j hx hy).2, hpos i x v vi hx hv, hpos j y u ui hy hu]

/-! ### the ladder of `add_edge` -/

theorem poison_poisoned (s : Store) (site : String) : (s.poison site).poisoned.isSome = true := by
  unfold Store.poison
  split
  · rename_i h; simp [h]
  · rfl

theorem addNode_fields (s : Store) (nd : Node) :
    (s.addNode nd).edges = s.edges ∧ (s.addNode nd).edgesMap = s.edgesMap ∧ (s.addNode nd).specs = s.specs := by
  unfold Store.addNode
  split
  · split <;> simp
  · simp

theorem pre_fields (s : Store) (e : Edge) :
    (pre s e).edges = s.edges ∧ (pre s e).edgesMap = s.edgesMap ∧ (pre s e).specs = s.specs := by
  unfold pre
  simp only
  split <;> split <;> simp [addNode_fields]

theorem pre_J (s : Store) (e : Edge) (hj : J s) : J (pre s e) := by
  unfold pre
  simp only
  split <;> split <;> first | exact hj | exact addNode_J _ _ hj | exact addNode_J _ _ (addNode_J _ _ hj)

theorem addEdge_cases (s : Store) (e : Edge) :
    (s.addEdge e).1 = s ∨ (s.addEdge e).1 = pre s e ∨
    (∃ site, (s.addEdge e).1 = (pre s e).poison site) ∨
    (∃ ui vi, alookup (pre s e).nodesMap e.u = some ui ∧ alookup (pre s e).nodesMap e.v = some vi ∧
      (s.addEdge e).1 = core (pre s e) s.specs e ui vi ((pre s e).edgesByIdx ui vi).isSome) := by
  rw [addEdge_eq]
  split
  · split <;> exact .inl rfl
  · split
    · exact .inl rfl
    · split
      · rename_i ui vi hu hv
        split
        · exact .inr (.inl rfl)
        · exact .inr (.inr (.inr ⟨ui, vi, hu, hv, rfl⟩))
      · exact .inr (.inr (.inl ⟨_, rfl⟩))

theorem addEdge_adjOk (s : Store) (e : Edge) (hn0 : s.nodesOk = true) (he0 : s.edgesOk = true)
    (ha0 : s.adjOk = true)
    (h1 : (s.addEdge e).1.nodesOk = true) (h2 : (s.addEdge e).1.edgesOk = true) :
    (s.addEdge e).1.adjOk = true := by
  have hj := pre_J s e (J_of_wf s hn0 he0 ha0)
  obtain ⟨pe, pem, psp⟩ := pre_fields s e
  rcases addEdge_cases s e with h0 | h0 | ⟨site, h0⟩ | ⟨ui, vi, hui, hvi, h0⟩
  · rw [h0]; exact ha0
  · rw [h0]; exact (adjOk_iff _).2 hj.adj
  · rw [h0] at h1
    have := (nodesP_of _ h1).notPoisoned
    have hp := poison_poisoned (pre s e) site
    rw [this] at hp
    cases hp
  · rw [h0] at h1 h2 ⊢
    rw [← psp] at h1 h2 ⊢
    obtain ⟨upd, ou, ov, hpair, hcore⟩ :=
      core_eq (pre s e) (pre s e).specs e ui vi ((pre s e).edgesByIdx ui vi).isSome
    rw [hcore] at h1 h2 ⊢
    generalize hs2 : pre s e = s2 at *
    obtain ⟨a1, a2, a3, a4, a5, a6, a7, a8, a9⟩ := addAdj_fields s2 s2.specs e ui vi upd ou ov
    generalize ha : addAdj s2 s2.specs e ui vi upd ou ov = a at *
    obtain ⟨b1, b2, b3, b4, b5, b6, b7, b8⟩ :=
      addStore_fields a s2.specs (if s2.specs.directed then e else e.ordered) ou ov
    generalize ht : addStore a s2.specs (if s2.specs.directed then e else e.ordered) ou ov = t at *
    have hn := nodesP_of t h1
    have het := edgesP_of t h2
    have hes := edgesP_of s he0
    have hnames : t.names = s2.names := by unfold Store.names; rw [b2, a2]
    have hspecs : t.specs = s2.specs := b1.trans a1
    apply (adjOk_iff t).2
    apply AdjP_insert s2 t e.u e.v ui vi hj.adj hj.ends hnames (by rw [b2, a2]) (hnames ▸ hn.namesNodup)
      ((hj.link _ _).1 hui) ((hj.link _ _).1 hvi) hspecs (b4.trans a6) (b5.trans a7) (b6.trans a8)
      (b7.trans a9)
    apply hasEdge_after s2 t e _ het hspecs
    · simp only
      rcases b8 with h | h | ⟨h, h', h''⟩
      · exact .inl (h.trans (by rw [a4]))
      · exact .inr (.inl (h.trans (by rw [a4])))
      · refine .inr (.inr ⟨h.trans a4, ?_⟩)
        have hpair' : (ou, ov) = (if !a.specs.directed && ui > vi then (vi, ui) else (ui, vi)) := by
          rw [a1]; exact hpair
        rw [edgesByIdx_canon a ui vi ou ov hpair', ← h', a1, ← hspecs] at h''
        have hu' : alookup t.nodesMap e.u = some ui := by rw [b3, a3]; exact hui
        have hv' : alookup t.nodesMap e.v = some vi := by rw [b3, a3]; exact hvi
        rw [edgesMap_eq_edges hn het hu' hv', h, a4, hspecs] at h''
        exact h''
    · intro x y
      rw [hasEdge_congr s s2 pe psp, hes.hasEdge_iff, pe, psp]

end C02
end Graphrs
