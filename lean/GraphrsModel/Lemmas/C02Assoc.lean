/-
  Helper lemmas for C02: association lists (`alookup` / `ainsert` / `amodify`), list-sets
  (`sinsert`, `dedup`), and a few generic list facts.
-/
import GraphrsModel.Base
namespace Graphrs
namespace C02

variable {κ ν : Type} [DecidableEq κ]

theorem alookup_ainsert (m : List (κ × ν)) (k k' : κ) (v : ν) :
    alookup (ainsert m k v) k' = if k = k' then some v else alookup m k' := by
  induction m with
  | nil => simp [ainsert, alookup]
  | cons p m ih =>
    obtain ⟨a, b⟩ := p
    by_cases h1 : a = k <;> by_cases h2 : a = k' <;> by_cases h3 : k = k' <;>
      simp_all [ainsert, alookup]

theorem alookup_amodify (m : List (κ × ν)) (k k' : κ) (d : ν) (f : ν → ν) :
    alookup (amodify m k d f) k' =
      if k = k' then some (f ((alookup m k).getD d)) else alookup m k' := by
  simp [amodify, alookup_ainsert]

theorem alookup_mem (m : List (κ × ν)) (k : κ) (v : ν) (h : alookup m k = some v) : (k, v) ∈ m := by
  induction m with
  | nil => simp [alookup] at h
  | cons p m ih =>
    obtain ⟨a, b⟩ := p
    by_cases h1 : a = k <;> simp_all [alookup]

theorem alookup_none (m : List (κ × ν)) (k : κ) : alookup m k = none ↔ k ∉ m.map (·.1) := by
  induction m with
  | nil => simp [alookup]
  | cons p m ih =>
    obtain ⟨a, b⟩ := p
    by_cases h1 : a = k <;> simp_all [alookup]
    exact fun _ h => h1 h.symm

theorem alookup_isSome (m : List (κ × ν)) (k : κ) : (alookup m k).isSome = true ↔ k ∈ m.map (·.1) := by
  cases h : alookup m k with
  | none => simp [(alookup_none m k).1 h]
  | some v =>
    have := alookup_mem m k v h
    simp only [Option.isSome_some, List.mem_map, true_iff]
    exact ⟨(k, v), this, rfl⟩

theorem mem_alookup (m : List (κ × ν)) (k : κ) (v : ν) (hn : (m.map (·.1)).Nodup) (h : (k, v) ∈ m) :
    alookup m k = some v := by
  induction m with
  | nil => simp at h
  | cons p m ih =>
    obtain ⟨a, b⟩ := p
    simp only [List.map_cons, List.nodup_cons, List.mem_map, not_exists, not_and] at hn
    simp only [List.mem_cons, Prod.mk.injEq] at h
    rcases h with ⟨rfl, rfl⟩ | h
    · simp [alookup]
    · have : a ≠ k := fun e => hn.1 (k, v) h e.symm
      simp [alookup, this, ih hn.2 h]

theorem mem_ainsert (m : List (κ × ν)) (k : κ) (v : ν) (p : κ × ν) (h : p ∈ ainsert m k v) :
    p ∈ m ∨ p = (k, v) := by
  induction m with
  | nil => simp_all [ainsert]
  | cons q m ih =>
    obtain ⟨a, b⟩ := q
    by_cases h1 : a = k
    · simp only [ainsert, h1, if_true, List.mem_cons] at h
      rcases h with h | h
      · exact .inr h
      · exact .inl (List.mem_cons_of_mem _ h)
    · simp only [ainsert, h1, if_false, List.mem_cons] at h
      rcases h with h | h
      · exact .inl (h ▸ List.mem_cons_self)
      · rcases ih h with h | h
        · exact .inl (List.mem_cons_of_mem _ h)
        · exact .inr h

theorem keys_ainsert (m : List (κ × ν)) (k : κ) (v : ν) :
    (ainsert m k v).map (·.1) = if k ∈ m.map (·.1) then m.map (·.1) else m.map (·.1) ++ [k] := by
  induction m with
  | nil => simp [ainsert]
  | cons q m ih =>
    obtain ⟨a, b⟩ := q
    by_cases h1 : a = k
    · subst h1; simp [ainsert]
    · have h2 : ¬ k = a := fun e => h1 e.symm
      simp only [ainsert, h1, if_false, List.map_cons, ih, List.mem_cons, h2, false_or]
      split <;> simp

theorem nodup_keys_ainsert (m : List (κ × ν)) (k : κ) (v : ν) (h : (m.map (·.1)).Nodup) :
    ((ainsert m k v).map (·.1)).Nodup := by
  rw [keys_ainsert]
  split
  · exact h
  · rename_i hk
    rw [List.nodup_append]
    refine ⟨h, by simp, ?_⟩
    intro a ha b hb
    simp only [List.mem_singleton] at hb
    subst hb
    exact fun e => hk (e ▸ ha)

theorem nodup_keys_amodify (m : List (κ × ν)) (k : κ) (d : ν) (f : ν → ν) (h : (m.map (·.1)).Nodup) :
    ((amodify m k d f).map (·.1)).Nodup := nodup_keys_ainsert _ _ _ h

/-- a property of all bindings survives `amodify` when the new value has it -/
theorem forall_amodify (m : List (κ × ν)) (k : κ) (d : ν) (f : ν → ν) (P : κ × ν → Prop)
    (hm : ∀ p ∈ m, P p) (hnew : P (k, f ((alookup m k).getD d))) :
    ∀ p ∈ amodify m k d f, P p := by
  intro p hp
  rcases mem_ainsert _ _ _ _ hp with h | h
  · exact hm p h
  · exact h ▸ hnew

/-! ### list-sets -/

theorem mem_sinsert {α} [DecidableEq α] (s : List α) (x y : α) : y ∈ sinsert s x ↔ y ∈ s ∨ y = x := by
  unfold sinsert
  split
  · constructor
    · exact .inl
    · rintro (h | rfl)
      · exact h
      · assumption
  · simp

theorem nodup_sinsert {α} [DecidableEq α] (s : List α) (x : α) (h : s.Nodup) : (sinsert s x).Nodup := by
  unfold sinsert
  split
  · exact h
  · rename_i hx
    rw [List.nodup_append]
    refine ⟨h, by simp, ?_⟩
    intro a ha b hb
    simp only [List.mem_singleton] at hb
    subst hb
    exact fun e => hx (e ▸ ha)

theorem mem_foldl_sinsert {α} [DecidableEq α] (l acc : List α) (y : α) :
    y ∈ l.foldl sinsert acc ↔ y ∈ acc ∨ y ∈ l := by
  induction l generalizing acc with
  | nil => simp
  | cons x l ih =>
    simp only [List.foldl_cons, ih, mem_sinsert, List.mem_cons]
    constructor
    · rintro ((h | h) | h)
      · exact .inl h
      · exact .inr (.inl h)
      · exact .inr (.inr h)
    · rintro (h | h | h)
      · exact .inl (.inl h)
      · exact .inl (.inr h)
      · exact .inr h

theorem mem_dedup {α} [DecidableEq α] (l : List α) (y : α) : y ∈ dedup l ↔ y ∈ l := by
  simp [dedup, mem_foldl_sinsert]

theorem nodup_foldl_sinsert {α} [DecidableEq α] (l acc : List α) (h : acc.Nodup) :
    (l.foldl sinsert acc).Nodup := by
  induction l generalizing acc with
  | nil => simpa
  | cons x l ih => exact ih _ (nodup_sinsert _ _ h)

theorem nodup_dedup {α} [DecidableEq α] (l : List α) : (dedup l).Nodup :=
  nodup_foldl_sinsert l [] List.nodup_nil

end C02
end Graphrs
