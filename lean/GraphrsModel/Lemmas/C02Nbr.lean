/-
  Helper lemmas for C02: successor / predecessor / neighbour queries.
-/
import GraphrsModel.Lemmas.C02Adj
namespace Graphrs
namespace C02
open Store

/-! ### abstract neighbour sets -/

theorem mem_abs_succ (s : Store) (x y : Nat) :
    y ∈ s.abs.succ s.specs.directed x ↔ s.hasEdge x y = true := by
  rw [hasEdge_iff]
  unfold Abs.succ Store.abs
  simp only [mem_dedup, List.mem_append, List.mem_map, List.mem_filter, beq_iff_eq]
  cases hd : s.specs.directed
  · simp only [joins, Bool.not_false, Bool.true_and, Bool.or_eq_true, Bool.and_eq_true, beq_iff_eq,
      Bool.false_eq_true, if_false, List.mem_map, List.mem_filter]
    constructor
    · rintro (⟨e, ⟨h1, h2⟩, h3⟩ | ⟨e, ⟨h1, h2⟩, h3⟩)
      · exact ⟨e, h1, .inl ⟨h2, h3⟩⟩
      · exact ⟨e, h1, .inr ⟨h3, h2⟩⟩
    · rintro ⟨e, h1, (⟨h2, h3⟩ | ⟨h2, h3⟩)⟩
      · exact .inl ⟨e, ⟨h1, h2⟩, h3⟩
      · exact .inr ⟨e, ⟨h1, h3⟩, h2⟩
  · simp only [joins, Bool.not_true, Bool.false_and, Bool.or_false, Bool.and_eq_true, beq_iff_eq,
      if_true, List.not_mem_nil, or_false]
    constructor
    · rintro ⟨e, ⟨h1, h2⟩, h3⟩; exact ⟨e, h1, h2, h3⟩
    · rintro ⟨e, h1, h2, h3⟩; exact ⟨e, ⟨h1, h2⟩, h3⟩

theorem mem_abs_pred (s : Store) (x y : Nat) :
    y ∈ s.abs.pred s.specs.directed x ↔ (s.specs.directed = true ∧ s.hasEdge y x = true) := by
  rw [hasEdge_iff]
  unfold Abs.pred Store.abs
  cases hd : s.specs.directed
  · simp
  · simp only [if_true, mem_dedup, List.mem_map, List.mem_filter, beq_iff_eq, joins, Bool.not_true,
      Bool.false_and, Bool.or_false, Bool.and_eq_true, true_and]
    constructor
    · rintro ⟨e, ⟨h1, h2⟩, h3⟩; exact ⟨e, h1, h3, h2⟩
    · rintro ⟨e, h1, h2, h3⟩; exact ⟨e, ⟨h1, h3⟩, h2⟩

/-! ### `nodesByIndexes` -/

theorem foldl_ok_aux {α β : Type} (f : Outcome (List β) → α → Outcome (List β)) (g : α → Option β)
    (idxs : List α) (acc : List β)
    (h : ∀ i ∈ idxs, ∀ acc, ∃ b, g i = some b ∧ f (.ok acc) i = .ok (acc ++ [b])) :
    idxs.foldl f (.ok acc) = .ok (acc ++ idxs.filterMap g) := by
  induction idxs generalizing acc with
  | nil => simp
  | cons i idxs ih =>
    obtain ⟨b, hb, hf⟩ := h i List.mem_cons_self acc
    rw [List.foldl_cons, hf, ih _ (fun j hj => h j (List.mem_cons_of_mem _ hj))]
    simp [hb]

theorem nodesByIndexes_ok (s : Store) (site : String) (hn : NodesP s) (idxs : List Nat)
    (h : ∀ i ∈ idxs, i < s.nodesVec.length) :
    s.nodesByIndexes site idxs = .ok (idxs.filterMap (s.nodesVec[·]?)) := by
  unfold Store.nodesByIndexes
  rw [foldl_ok_aux _ (s.nodesVec[·]?) idxs []]
  · simp
  · intro i hi acc
    have hi : i < s.nodesVec.length := h i hi
    have hg : s.getNodeByIndex i = some s.nodesVec[i] := by
      unfold Store.getNodeByIndex
      rw [hn.rev]; simp [hi]
    refine ⟨s.nodesVec[i], by simp [hi], ?_⟩
    simp [bind, Outcome.bind, hg]

theorem names_filterMap (s : Store) (idxs : List Nat) :
    (idxs.filterMap (s.nodesVec[·]?)).map (·.name) = idxs.filterMap (s.names[·]?) := by
  rw [List.map_filterMap]
  congr 1
  funext i
  rw [names_getElem?]

theorem nodup_filterMap {α β} (f : α → Option β) (l : List α) (hl : l.Nodup)
    (hinj : ∀ a ∈ l, ∀ a' ∈ l, ∀ b, f a = some b → f a' = some b → a = a') :
    (l.filterMap f).Nodup := by
  induction l with
  | nil => simp
  | cons a l ih =>
    simp only [List.nodup_cons] at hl
    have ih' := ih hl.2 (fun a ha a' ha' => hinj a (List.mem_cons_of_mem _ ha) a' (List.mem_cons_of_mem _ ha'))
    rw [List.filterMap_cons]
    cases hfa : f a with
    | none => exact ih'
    | some b =>
      simp only [List.nodup_cons, List.mem_filterMap, not_exists, not_and]
      refine ⟨?_, ih'⟩
      intro a' ha' hfa'
      have := hinj a List.mem_cons_self a' (List.mem_cons_of_mem _ ha') b hfa hfa'
      exact hl.1 (this ▸ ha')

theorem nodup_names_filterMap {s : Store} (hn : NodesP s) (idxs : List Nat) (h : idxs.Nodup) :
    (idxs.filterMap (s.names[·]?)).Nodup := by
  apply nodup_filterMap _ _ h
  intro a _ a' _ b h1 h2
  exact hn.idx_inj h1 h2

/-- `_get_successor_nodes` / `_get_predecessor_nodes` through a position-keyed set map -/
theorem getAdjNodes_ok (s : Store) (hn : NodesP s) (m : List (Nat × List Nat)) (x i : Nat)
    (hx : alookup s.nodesMap x = some i) (hm : ∀ j ∈ setOf m i, j < s.nodesVec.length) :
    s.getAdjNodes m x = .ok ((setOf m i).filterMap (s.nodesVec[·]?)) := by
  unfold Store.getAdjNodes
  simp only [acontains, hx, Option.isSome_some, Bool.not_true, Bool.false_eq_true, if_false,
    Store.getNodeIndex, Outcome.unwrap, bind, Outcome.bind]
  unfold setOf at hm ⊢
  cases hl : alookup m i with
  | none => simp
  | some l =>
    rw [hl] at hm
    simp only [Option.getD_some] at hm ⊢
    exact nodesByIndexes_ok s _ hn l hm

/-! ### sorting and consecutive dedup -/

theorem mem_insertSorted {α} (le : α → α → Bool) (x y : α) (l : List α) :
    y ∈ insertSorted le x l ↔ y = x ∨ y ∈ l := by
  induction l with
  | nil => simp [insertSorted]
  | cons a l ih =>
    unfold insertSorted
    split
    · simp
    · simp only [List.mem_cons, ih]
      constructor
      · rintro (h | h | h)
        · exact .inr (.inl h)
        · exact .inl h
        · exact .inr (.inr h)
      · rintro (h | h | h)
        · exact .inr (.inl h)
        · exact .inl h
        · exact .inr (.inr h)

theorem mem_isort {α} (le : α → α → Bool) (y : α) (l : List α) : y ∈ isort le l ↔ y ∈ l := by
  induction l with
  | nil => simp [isort]
  | cons a l ih =>
    have : isort le (a :: l) = insertSorted le a (isort le l) := rfl
    rw [this, mem_insertSorted, ih, List.mem_cons]

theorem sorted_insertSorted (x : Nat) (l : List Nat) (h : l.Pairwise (· ≤ ·)) :
    (insertSorted (fun a b => decide (a ≤ b)) x l).Pairwise (· ≤ ·) := by
  induction l with
  | nil => simp [insertSorted]
  | cons a l ih =>
    rw [List.pairwise_cons] at h
    unfold insertSorted
    split
    · rename_i hle
      simp only [decide_eq_true_eq] at hle
      rw [List.pairwise_cons]
      refine ⟨?_, List.pairwise_cons.2 h⟩
      intro b hb
      rcases List.mem_cons.1 hb with rfl | hb
      · exact hle
      · exact Nat.le_trans hle (h.1 b hb)
    · rename_i hle
      simp only [decide_eq_true_eq] at hle
      rw [List.pairwise_cons]
      refine ⟨?_, ih h.2⟩
      intro b hb
      rcases (mem_insertSorted _ _ _ _).1 hb with rfl | hb
      · omega
      · exact h.1 b hb

theorem sorted_sortNat (l : List Nat) : (sortNat l).Pairwise (· ≤ ·) := by
  induction l with
  | nil => simp [sortNat, isort]
  | cons a l ih =>
    have : sortNat (a :: l) = insertSorted (fun a b => decide (a ≤ b)) a (sortNat l) := rfl
    rw [this]
    exact sorted_insertSorted a _ ih

theorem mem_sortNat (y : Nat) (l : List Nat) : y ∈ sortNat l ↔ y ∈ l := mem_isort _ y l

theorem mem_dedupConsecutive (y : Nat) (l : List Nat) : y ∈ dedupConsecutive l ↔ y ∈ l := by
  fun_induction dedupConsecutive l with
  | case1 => simp
  | case2 => simp
  | case3 x rest ih =>
    rw [ih]; simp
  | case4 x z rest hne ih =>
    rw [List.mem_cons, ih]; simp

theorem nodup_dedupConsecutive (l : List Nat) (h : l.Pairwise (· ≤ ·)) : (dedupConsecutive l).Nodup := by
  fun_induction dedupConsecutive l with
  | case1 => simp
  | case2 => simp
  | case3 x rest ih => exact ih (List.pairwise_cons.1 h).2
  | case4 x z rest hne ih =>
    rw [List.pairwise_cons] at h
    rw [List.nodup_cons]
    refine ⟨?_, ih h.2⟩
    rw [mem_dedupConsecutive]
    intro hx
    have h2 := List.pairwise_cons.1 h.2
    have h1 := h.1 z List.mem_cons_self
    rcases List.mem_cons.1 hx with rfl | hx
    · exact hne rfl
    · have := h2.1 x hx
      omega

/-! ### rows of the traversal lists -/

theorem vec_rows (s : Store) (h : s.vecOk = true) :
    (∀ i r, s.succVec[i]? = some r → ∀ j, j ∈ r.map (·.1) ↔ (j < s.nodesVec.length ∧ j ∈ setOf s.succMap i)) ∧
    (∀ i r, s.predVec[i]? = some r → ∀ j, j ∈ r.map (·.1) ↔ (j < s.nodesVec.length ∧ j ∈ setOf s.predMap i)) := by
  simp only [Store.vecOk, Bool.and_eq_true, List.all_eq_true, decide_eq_true_eq, beq_iff_eq,
    List.mem_range, Bool.or_eq_true] at h
  obtain ⟨h1, h2⟩ := h
  constructor
  · intro i r hr j
    obtain ⟨a, b⟩ := h1 (r, i) (List.mem_zipIdx_iff_getElem?.2 hr)
    simp only at a b
    constructor
    · intro hj
      obtain ⟨p, hp, rfl⟩ := List.mem_map.1 hj
      have hlt := a p hp
      refine ⟨hlt, ?_⟩
      have := (b p.1 hlt).1
      rw [Bool.eq_iff_iff, List.contains_iff_mem, List.any_eq_true] at this
      exact this.1 ⟨p, hp, by simp⟩
    · rintro ⟨hlt, hj⟩
      have := (b j hlt).1
      rw [Bool.eq_iff_iff, List.contains_iff_mem, List.any_eq_true] at this
      obtain ⟨p, hp, hpj⟩ := this.2 hj
      simp only [beq_iff_eq] at hpj
      exact List.mem_map.2 ⟨p, hp, hpj⟩
  · intro i r hr j
    obtain ⟨a, b⟩ := h2 (r, i) (List.mem_zipIdx_iff_getElem?.2 hr)
    simp only at a b
    constructor
    · intro hj
      obtain ⟨p, hp, rfl⟩ := List.mem_map.1 hj
      have hlt := a p hp
      refine ⟨hlt, ?_⟩
      have := (b p.1 hlt).1
      rw [Bool.eq_iff_iff, List.contains_iff_mem, List.any_eq_true] at this
      exact this.1 ⟨p, hp, by simp⟩
    · rintro ⟨hlt, hj⟩
      have := (b j hlt).1
      rw [Bool.eq_iff_iff, List.contains_iff_mem, List.any_eq_true] at this
      obtain ⟨p, hp, hpj⟩ := this.2 hj
      simp only [beq_iff_eq] at hpj
      exact List.mem_map.2 ⟨p, hp, hpj⟩

end C02
end Graphrs
