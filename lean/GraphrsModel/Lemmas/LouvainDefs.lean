/-
  Definitions for the invariant proof of the step-level Louvain model (Props/C13Model.lean).
-/
import GraphrsModel.Model.LouvainFull
namespace Graphrs
open LouvainFull
namespace LF

/-- the original nodes inside super-node `x` of a level graph (`.getD [x]` as in `visit`) -/
def mem (lv : Level) (x : Nat) : List Nat := (alookup lv.members x).getD [x]

/-- `l` is a partition of `{0, …, k-1}` into non-empty sets -/
def PartOfRange (k : Nat) (l : List (List Nat)) : Prop :=
  (∀ c ∈ l, c ≠ []) ∧ (l.flatMap id).Nodup ∧ ∀ x, x ∈ l.flatMap id ↔ x < k

/-- a good level: `k` nodes named `0..k-1` whose member blocks partition `0..n-1` into non-empty sets -/
structure GoodLevel (lv : Level) (n k : Nat) : Prop where
  names_nodup : lv.g.getAllNodeNames.Nodup
  names_iff : ∀ x, x ∈ lv.g.getAllNodeNames ↔ x < k
  mem_nodup : ∀ x, x < k → (mem lv x).Nodup
  mem_ne : ∀ x, x < k → mem lv x ≠ []
  mem_disj : ∀ x y z, x < k → y < k → z ∈ mem lv x → z ∈ mem lv y → x = y
  mem_cover : ∀ z, z < n ↔ ∃ x, x < k ∧ z ∈ mem lv x

/-- the `partition` argument of `compute_one_level` lists the member blocks of the nodes `0..k-1` -/
structure InputOK (lv : Level) (k : Nat) (partition : List (List Nat)) : Prop where
  len : partition.length = k
  nodup : ∀ i, i < k → ((partition[i]?).getD []).Nodup
  iff : ∀ i z, i < k → (z ∈ (partition[i]?).getD [] ↔ z ∈ mem lv i)

end LF
end Graphrs
