/-
  C05 (weighted case): on every store built through the mutation API, every entry of a `successors_vec` row carries
  the weight of a stored edge between the two nodes (C03 states the minimum per neighbour only; a duplicate self entry
  could otherwise carry anything).  With all stored weights positive, all traversal weights are positive.
-/
import GraphrsModel.Lemmas.BcRows
import GraphrsModel.Props.Core
namespace Graphrs
namespace Bc
open C03

/-- every traversal entry carries the weight of a stored edge between the two nodes -/
def RowsW (s : Store) : Prop :=
  ∀ (i j x y : Nat), s.names[i]? = some x → s.names[j]? = some y → ∀ a : Adj, a ∈ s.succVec[i]?.getD [] → a.1 = j →
    ∃ e ∈ s.allEdges, Abs.sameKey s.specs.directed e x y = true ∧ e.w = a.2

/-! ### which entries `add_to_adjacency_vec` leaves in a row -/

theorem adjUpdate_entry (vec : List (List Adj)) (u v : Nat) (w : W) (upd : AdjUpd) (k : Nat) (a : Adj)
    (ha : a ∈ ((adjUpdate vec u v w upd).getD vec)[k]?.getD []) :
    (a ∈ vec[k]?.getD [] ∧ (upd = .overwrite → k = u → a.1 ≠ v)) ∨ (k = u ∧ a = (v, w) ∧ upd ≠ .untouched) := by
  unfold adjUpdate at ha
  cases hrow : vec[u]? with
  | none =>
    simp only [hrow, Option.getD_none] at ha
    left
    refine ⟨ha, fun _ hk => ?_⟩
    subst hk
    rw [hrow] at ha; cases ha
  | some row =>
    simp only [hrow] at ha
    have hulen : u < vec.length := C03.lt_of_getElem? hrow
    cases upd with
    | push =>
      simp only [Option.getD_some] at ha
      by_cases hk : u = k
      · subst hk
        rw [List.getElem?_set_self hulen] at ha
        simp only [Option.getD_some, List.mem_append, List.mem_singleton] at ha
        rcases ha with ha | ha
        · left; rw [hrow]; exact ⟨ha, fun h => by cases h⟩
        · right; exact ⟨rfl, ha, by simp⟩
      · rw [List.getElem?_set_ne hk] at ha
        left; exact ⟨ha, fun h => by cases h⟩
    | keepMin =>
      simp only at ha
      cases hi : row.findIdx? (fun a => a.1 == v) with
      | none => rw [hi] at ha; left; exact ⟨ha, fun h => by cases h⟩
      | some i =>
        rw [hi] at ha
        simp only at ha
        cases hai : row[i]? with
        | none => rw [hai] at ha; left; exact ⟨ha, fun h => by cases h⟩
        | some b =>
          rw [hai] at ha
          simp only at ha
          split at ha
          · simp only [Option.getD_some] at ha
            by_cases hk : u = k
            · subst hk
              rw [List.getElem?_set_self hulen] at ha
              simp only [Option.getD_some] at ha
              rcases List.mem_or_eq_of_mem_set ha with h | h
              · left; rw [hrow]; exact ⟨h, fun h => by cases h⟩
              · right; exact ⟨rfl, h, by simp⟩
            · rw [List.getElem?_set_ne hk] at ha
              left; exact ⟨ha, fun h => by cases h⟩
          · left; exact ⟨ha, fun h => by cases h⟩
    | overwrite =>
      simp only [Option.getD_some] at ha
      by_cases hk : u = k
      · subst hk
        rw [List.getElem?_set_self hulen] at ha
        simp only [Option.getD_some, List.mem_map] at ha
        obtain ⟨a', ha', e⟩ := ha
        by_cases hav : a'.1 = v
        · right
          have : (a'.1 == v) = true := by simpa using hav
          rw [this] at e
          simp only [if_true] at e
          exact ⟨rfl, by rw [← e, hav], by simp⟩
        · left
          have : (a'.1 == v) = false := by simpa using hav
          rw [this] at e
          simp only [Bool.false_eq_true, if_false] at e
          subst e
          rw [hrow]
          exact ⟨ha', fun _ _ => hav⟩
      · rw [List.getElem?_set_ne hk] at ha
        left; exact ⟨ha, fun _ hku => absurd hku.symm hk⟩
    | untouched =>
      left; exact ⟨ha, fun h => by cases h⟩

/-! ### fields the stages of `add_edge` leave alone -/

theorem poison_fields (s : Store) (site : String) :
    (s.poison site).nodesVec = s.nodesVec ∧ (s.poison site).edges = s.edges ∧ (s.poison site).edgesMap = s.edgesMap ∧
    (s.poison site).specs = s.specs := by
  unfold Store.poison; split <;> exact ⟨rfl, rfl, rfl, rfl⟩

theorem adjSucc_fields (s : Store) (u v : Nat) (w : W) (upd : AdjUpd) :
    (s.adjSucc u v w upd).nodesVec = s.nodesVec ∧ (s.adjSucc u v w upd).edges = s.edges ∧
    (s.adjSucc u v w upd).edgesMap = s.edgesMap ∧ (s.adjSucc u v w upd).specs = s.specs := by
  unfold Store.adjSucc
  cases adjUpdate s.succVec u v w upd with
  | none => exact poison_fields _ _
  | some vec => exact ⟨rfl, rfl, rfl, rfl⟩

theorem adjPred_fields (s : Store) (u v : Nat) (w : W) (upd : AdjUpd) :
    (s.adjPred u v w upd).nodesVec = s.nodesVec ∧ (s.adjPred u v w upd).edges = s.edges ∧
    (s.adjPred u v w upd).edgesMap = s.edgesMap ∧ (s.adjPred u v w upd).specs = s.specs := by
  unfold Store.adjPred
  cases adjUpdate s.predVec u v w upd with
  | none => exact poison_fields _ _
  | some vec => exact ⟨rfl, rfl, rfl, rfl⟩

theorem adjStage_fields (sp : Specs) (s : Store) (e : Edge) (ui vi ou ov : Nat) (upd : AdjUpd) :
    (adjStage sp s e ui vi ou ov upd).nodesVec = s.nodesVec ∧ (adjStage sp s e ui vi ou ov upd).edges = s.edges ∧
    (adjStage sp s e ui vi ou ov upd).edgesMap = s.edgesMap ∧ (adjStage sp s e ui vi ou ov upd).specs = s.specs := by
  unfold adjStage
  cases sp.directed
  · simp only [Bool.false_eq_true, if_false]
    obtain ⟨a1, a2, a3, a4⟩ := adjSucc_fields
      { (Store.adjSucc { s with succ := amodify s.succ e.u [] (sinsert · e.v), succMap := amodify s.succMap ui [] (sinsert · vi) }
          ou ov e.w upd) with
        succ := amodify (Store.adjSucc { s with succ := amodify s.succ e.u [] (sinsert · e.v), succMap := amodify s.succMap ui [] (sinsert · vi) }
          ou ov e.w upd).succ e.v [] (sinsert · e.u)
        succMap := amodify (Store.adjSucc { s with succ := amodify s.succ e.u [] (sinsert · e.v), succMap := amodify s.succMap ui [] (sinsert · vi) }
          ou ov e.w upd).succMap vi [] (sinsert · ui) } ov ou e.w upd
    obtain ⟨b1, b2, b3, b4⟩ := adjSucc_fields
      { s with succ := amodify s.succ e.u [] (sinsert · e.v), succMap := amodify s.succMap ui [] (sinsert · vi) } ou ov e.w upd
    exact ⟨a1.trans b1, a2.trans b2, a3.trans b3, a4.trans b4⟩
  · simp only [if_true]
    obtain ⟨a1, a2, a3, a4⟩ := adjPred_fields
      { (Store.adjSucc { s with succ := amodify s.succ e.u [] (sinsert · e.v), succMap := amodify s.succMap ui [] (sinsert · vi) }
          ou ov e.w upd) with
        pred := amodify (Store.adjSucc { s with succ := amodify s.succ e.u [] (sinsert · e.v), succMap := amodify s.succMap ui [] (sinsert · vi) }
          ou ov e.w upd).pred e.v [] (sinsert · e.u)
        predMap := amodify (Store.adjSucc { s with succ := amodify s.succ e.u [] (sinsert · e.v), succMap := amodify s.succMap ui [] (sinsert · vi) }
          ou ov e.w upd).predMap vi [] (sinsert · ui) } ov ou e.w upd
    obtain ⟨b1, b2, b3, b4⟩ := adjSucc_fields
      { s with succ := amodify s.succ e.u [] (sinsert · e.v), succMap := amodify s.succMap ui [] (sinsert · vi) } ou ov e.w upd
    exact ⟨a1.trans b1, a2.trans b2, a3.trans b3, a4.trans b4⟩

theorem edgeStage_fields (sp : Specs) (s : Store) (o : Edge) (ou ov : Nat) (already : Bool)
    (hisNone : (s.edgesByIdx ou ov).isNone = !already) :
    (edgeStage sp s o ou ov).nodesVec = s.nodesVec ∧ (edgeStage sp s o ou ov).specs = s.specs ∧
    (edgeStage sp s o ou ov).edges = newEdges sp s.edges already o (o.u, o.v) := by
  unfold edgeStage newEdges
  rw [hisNone]
  split
  · exact ⟨rfl, rfl, rfl⟩
  · split
    · exact ⟨rfl, rfl, rfl⟩
    · split
      · exact ⟨rfl, rfl, rfl⟩
      · exact ⟨rfl, rfl, rfl⟩

/-! ### `add_node` -/

theorem addNode_rowsW (s : Store) (nd : Node) (hp : Pre s) (h : RowsW s) : RowsW (s.addNode nd) := by
  unfold Store.addNode
  cases hl : alookup s.nodesMap nd.name with
  | some i =>
    simp only
    have hi : s.names[i]? = some nd.name := (hp.nm _ _).1 hl
    have hnames : ((s.nodesVec.set i nd).map (·.name)) = s.names := by
      unfold Store.names at hi ⊢
      rw [List.map_set]
      exact set_self _ _ _ hi
    by_cases hlt : i < s.nodesVec.length
    · simp only [hlt, if_true]
      intro i' j x y hx hy a ha haj
      simp only [Store.names, hnames] at hx hy
      exact h i' j x y hx hy a ha haj
    · simp only [hlt, if_false]
      obtain ⟨p1, p2, _, p4⟩ := poison_fields s "add_node: nodes_vec index"
      intro i' j x y hx hy a ha haj
      simp only [Store.names, p1, hnames] at hx hy
      rw [poison_succVec] at ha
      obtain ⟨e, he, h1, h2⟩ := h i' j x y hx hy a ha haj
      refine ⟨e, ?_, ?_, h2⟩
      · simp only [Store.allEdges, p2]; exact he
      · simp only [p4]; exact h1
  | none =>
    simp only
    intro i j x y hx hy a ha haj
    simp only [Store.names, List.map_append, List.map_cons, List.map_nil] at hx hy
    have hlenV : s.succVec.length = s.names.length := hp.vS.len
    by_cases hi : i < s.succVec.length
    · rw [List.getElem?_append_left hi] at ha
      have hrow : s.succVec[i]? = some (s.succVec[i]?.getD []) := by
        rw [List.getElem?_eq_getElem hi]; rfl
      have hjlt : j < s.names.length := by rw [← haj]; exact hp.vS.bnd i _ hrow a ha
      have hilt : i < s.names.length := by rw [← hlenV]; exact hi
      have hx' : s.names[i]? = some x := by
        unfold Store.names at hilt ⊢
        rw [List.getElem?_append_left hilt] at hx; exact hx
      have hy' : s.names[j]? = some y := by
        unfold Store.names at hjlt ⊢
        rw [List.getElem?_append_left hjlt] at hy; exact hy
      exact h i j x y hx' hy' a ha haj
    · exfalso
      have : (s.succVec ++ [[]])[i]?.getD [] = ([] : List Adj) := by
        rcases Nat.lt_or_ge i (s.succVec.length + 1) with h1 | h1
        · have : i = s.succVec.length := by omega
          subst this; simp
        · rw [List.getElem?_eq_none (by simp; omega)]; rfl
      rw [this] at ha; cases ha

theorem edgeNodes_rowsW (s : Store) (e : Edge) (hp : Pre s) (h : RowsW s) : RowsW (edgeNodes s e) := by
  unfold edgeNodes
  simp only
  split
  · split
    · exact addNode_rowsW _ _ (pre_addNode _ _ hp) (addNode_rowsW _ _ hp h)
    · exact addNode_rowsW _ _ hp h
  · split
    · exact addNode_rowsW _ _ hp h
    · exact h

/-! ### edges and keys -/

theorem sameKey_of_key (dir : Bool) (e : Edge) (x y : Nat) (h : (e.u, e.v) = nameKey dir x y) :
    Abs.sameKey dir e x y = true := by
  unfold Abs.sameKey
  cases dir
  · unfold nameKey at h
    by_cases hxy : x > y
    · simp only [Bool.not_false, Bool.true_and, hxy, decide_true, if_true, Prod.mk.injEq] at h
      simp [h.1, h.2]
    · simp only [Bool.not_false, Bool.true_and, hxy, decide_false, Bool.false_eq_true, if_false, Prod.mk.injEq] at h
      simp [h.1, h.2]
  · simp only [nameKey, Bool.not_true, Bool.false_and, Bool.false_eq_true, if_false, Prod.mk.injEq] at h
    simp [h.1, h.2]

theorem key_of_sameKey (dir : Bool) (e : Edge) (x y : Nat) (hc : dir = true ∨ e.u ≤ e.v)
    (h : Abs.sameKey dir e x y = true) : (e.u, e.v) = nameKey dir x y := by
  unfold Abs.sameKey at h
  cases dir
  · have hle : e.u ≤ e.v := by rcases hc with h' | h'; cases h'; exact h'
    simp only [Bool.not_false, Bool.true_and, Bool.or_eq_true, Bool.and_eq_true, beq_iff_eq] at h
    unfold nameKey
    rcases h with ⟨h1, h2⟩ | ⟨h1, h2⟩
    · subst h1 h2
      have : ¬ e.u > e.v := by omega
      simp [this]
    · subst h1 h2
      by_cases hgt : e.v > e.u
      · simp [hgt]
      · have : e.u = e.v := by omega
        simp [this]
  · simp only [Bool.not_true, Bool.false_and, Bool.or_false, Bool.and_eq_true, beq_iff_eq] at h
    simp [nameKey, h.1, h.2]

theorem mem_allEdges_of_lookup (s : Store) (k : Nat × Nat) (l : List Edge) (e : Edge)
    (hl : alookup s.edges k = some l) (he : e ∈ l) : e ∈ s.allEdges :=
  (C03.mem_allEdges s e).2 ⟨(k, l), mem_of_alookup _ _ _ hl, he⟩

theorem updOf_untouched (a : Bool) (sp : Specs) (h : updOf a sp = .untouched) :
    a = true ∧ sp.multi = false ∧ (sp.dedupe == Dedupe.keepLast) = false := by
  cases a
  · rw [updOf_false] at h; cases h
  · cases hm : sp.multi
    · rw [updOf_true_single _ hm] at h
      refine ⟨rfl, rfl, ?_⟩
      cases hk : (sp.dedupe == Dedupe.keepLast)
      · rfl
      · rw [hk] at h; simp at h
    · rw [updOf_true_multi _ hm] at h; cases h

theorem updOf_overwrite (a : Bool) (sp : Specs) (h : updOf a sp = .overwrite) :
    a = true ∧ sp.multi = false ∧ (sp.dedupe == Dedupe.keepLast) = true := by
  cases a
  · rw [updOf_false] at h; cases h
  · cases hm : sp.multi
    · rw [updOf_true_single _ hm] at h
      refine ⟨rfl, rfl, ?_⟩
      cases hk : (sp.dedupe == Dedupe.keepLast)
      · rw [hk] at h; simp at h
      · rfl
    · rw [updOf_true_multi _ hm] at h; cases h

theorem updOf_keepMin_multi (a : Bool) (sp : Specs) (h : updOf a sp = .keepMin) : sp.multi = true := by
  cases a
  · rw [updOf_false] at h; cases h
  · cases hm : sp.multi
    · rw [updOf_true_single _ hm] at h
      split at h <;> cases h
    · rfl

/-- the new edge is stored unless the call leaves the adjacency untouched -/
theorem newEdges_has_new (sp : Specs) (E : EMap) (already : Bool) (o : Edge) (key : Nat × Nat)
    (hupd : updOf already sp ≠ .untouched) : ∃ l, alookup (newEdges sp E already o key) key = some l ∧ o ∈ l := by
  unfold newEdges
  by_cases hm : sp.multi = true
  · rw [if_pos hm, C03.alookup_amodify, if_pos rfl]
    exact ⟨_, rfl, by simp⟩
  · rw [if_neg hm]
    have hm' : sp.multi = false := by simpa using hm
    cases already
    · simp only [Bool.not_false, if_true]
      rw [alookup_ainsert, if_pos rfl]
      exact ⟨_, rfl, by simp⟩
    · simp only [Bool.not_true, Bool.false_eq_true, if_false]
      rw [updOf_true_single _ hm'] at hupd
      by_cases hk : (sp.dedupe == Dedupe.keepLast) = true
      · rw [if_pos hk, alookup_ainsert, if_pos rfl]
        exact ⟨_, rfl, by simp⟩
      · rw [if_neg hk] at hupd
        exact absurd rfl hupd

/-- the entries of a row after the adjacency stage of `add_edge`: old ones (minus the overwritten pair), or the new pair -/
theorem adjTwo_entry (dir : Bool) (vec : List (List Adj)) (ou ov : Nat) (w : W) (upd : AdjUpd) (i : Nat) (a : Adj)
    (ha : a ∈ (if dir then (adjUpdate vec ou ov w upd).getD vec
      else (adjUpdate ((adjUpdate vec ou ov w upd).getD vec) ov ou w upd).getD
        ((adjUpdate vec ou ov w upd).getD vec))[i]?.getD []) :
    (a ∈ vec[i]?.getD [] ∧ (upd = .overwrite → ¬ ((i = ou ∧ a.1 = ov) ∨ (dir = false ∧ i = ov ∧ a.1 = ou)))) ∨
    (upd ≠ .untouched ∧ ((i = ou ∧ a = (ov, w)) ∨ (dir = false ∧ i = ov ∧ a = (ou, w)))) := by
  cases dir
  · simp only [Bool.false_eq_true, if_false] at ha
    rcases adjUpdate_entry _ ov ou w upd i a ha with ⟨h1, h2⟩ | ⟨h1, h2, h3⟩
    · rcases adjUpdate_entry vec ou ov w upd i a h1 with ⟨g1, g2⟩ | ⟨g1, g2, g3⟩
      · left
        refine ⟨g1, fun ho => ?_⟩
        rintro (⟨e1, e2⟩ | ⟨_, e1, e2⟩)
        · exact g2 ho e1 e2
        · exact h2 ho e1 e2
      · right; exact ⟨g3, Or.inl ⟨g1, g2⟩⟩
    · right; exact ⟨h3, Or.inr ⟨rfl, h1, h2⟩⟩
  · simp only [if_true] at ha
    rcases adjUpdate_entry vec ou ov w upd i a ha with ⟨g1, g2⟩ | ⟨g1, g2, g3⟩
    · left
      refine ⟨g1, fun ho => ?_⟩
      rintro (⟨e1, e2⟩ | ⟨e0, _, _⟩)
      · exact g2 ho e1 e2
      · cases e0
    · right; exact ⟨g3, Or.inl ⟨g1, g2⟩⟩

/-- **the edge part of `add_edge` keeps "every traversal weight is a stored weight"** -/
theorem edgeTail_rowsW (s : Store) (e : Edge) (ui vi : Nat) (hwf : s.wf = true) (hr : RowsW s)
    (hui : alookup s.nodesMap e.u = some ui) (hvi : alookup s.nodesMap e.v = some vi) :
    RowsW (edgeTail s.specs s e ui vi).1 := by
  have hp := pre_of_wf s hwf
  have heo : s.edgesOk = true := by
    simp only [Store.wf, Bool.and_eq_true] at hwf
    exact hwf.1.1.2
  have eP := edgesOk_read s heo
  rw [edgeTail_fst]
  split
  · exact hr
  · have hxu : s.names[ui]? = some e.u := (hp.nm _ _).1 hui
    have hxv : s.names[vi]? = some e.v := (hp.nm _ _).1 hvi
    have hlk : s.edgesByIdx ui vi = alookup s.edges (nameKey s.specs.directed e.u e.v) := by
      rw [edgesByIdx_eq]; exact hp.l2 ui vi e.u e.v hxu hxv
    -- the positions under which the edge is stored, and their names
    have hou : ∃ x0 y0, s.names[(idxKey s.specs.directed ui vi).1]? = some x0 ∧
        s.names[(idxKey s.specs.directed ui vi).2]? = some y0 ∧
        nameKey s.specs.directed x0 y0 = nameKey s.specs.directed e.u e.v := by
      unfold idxKey
      by_cases hgt : (!s.specs.directed && decide (ui > vi)) = true
      · rw [if_pos hgt]
        simp only [Bool.and_eq_true, Bool.not_eq_true', decide_eq_true_eq] at hgt
        refine ⟨e.v, e.u, hxv, hxu, ?_⟩
        rw [hgt.1]; exact nameKey_false_symm _ _
      · rw [if_neg hgt]
        exact ⟨e.u, e.v, hxu, hxv, rfl⟩
    obtain ⟨x0, y0, hx0, hy0, hk0⟩ := hou
    -- the stored edge
    have hokey : ((if s.specs.directed = true then e else e.ordered).u, (if s.specs.directed = true then e else e.ordered).v) =
        nameKey s.specs.directed e.u e.v := by
      cases hd : s.specs.directed
      · simp only [Bool.false_eq_true, if_false]; exact ordered_key e
      · simp only [if_true]; rw [nameKey_dir]
    have how : (if s.specs.directed = true then e else e.ordered).w = e.w := by
      cases hd : s.specs.directed
      · simp only [Bool.false_eq_true, if_false]; exact ordered_w e
      · simp only [if_true]
    obtain ⟨f1, f2, f3, f4⟩ := adjStage_fields s.specs s e ui vi (idxKey s.specs.directed ui vi).1
      (idxKey s.specs.directed ui vi).2 (updOf (s.edgesByIdx ui vi).isSome s.specs)
    have hisNone : ((adjStage s.specs s e ui vi (idxKey s.specs.directed ui vi).1 (idxKey s.specs.directed ui vi).2
        (updOf (s.edgesByIdx ui vi).isSome s.specs)).edgesByIdx (idxKey s.specs.directed ui vi).1
        (idxKey s.specs.directed ui vi).2).isNone = !(s.edgesByIdx ui vi).isSome := by
      rw [edgesByIdx_eq, f3, f4, idxKey_idem, ← edgesByIdx_eq]
      cases s.edgesByIdx ui vi <;> rfl
    obtain ⟨g1, g2, g3⟩ := edgeStage_fields s.specs _ (if s.specs.directed = true then e else e.ordered)
      (idxKey s.specs.directed ui vi).1 (idxKey s.specs.directed ui vi).2 (s.edgesByIdx ui vi).isSome hisNone
    rw [f2, hokey] at g3
    rw [f1] at g1
    rw [f4] at g2
    have hvec := adjStage_succVec s.specs s e ui vi (idxKey s.specs.directed ui vi).1 (idxKey s.specs.directed ui vi).2
      (updOf (s.edgesByIdx ui vi).isSome s.specs)
    -- now the claim
    intro i j x y hx hy a ha haj
    simp only [Store.names, g1] at hx hy
    change s.names[i]? = some x at hx
    change s.names[j]? = some y at hy
    rw [edgeStage_succVec, hvec] at ha
    rw [g2]
    have hmemT : ∀ (k : Nat × Nat) (l : List Edge) (e' : Edge),
        alookup (newEdges s.specs s.edges (s.edgesByIdx ui vi).isSome (if s.specs.directed = true then e else e.ordered)
          (nameKey s.specs.directed e.u e.v)) k = some l → e' ∈ l →
        e' ∈ (edgeStage s.specs (adjStage s.specs s e ui vi (idxKey s.specs.directed ui vi).1 (idxKey s.specs.directed ui vi).2
          (updOf (s.edgesByIdx ui vi).isSome s.specs)) (if s.specs.directed = true then e else e.ordered)
          (idxKey s.specs.directed ui vi).1 (idxKey s.specs.directed ui vi).2).allEdges := by
      intro k l e' hl he'
      apply mem_allEdges_of_lookup _ k l e' _ he'
      rw [g3]; exact hl
    rcases adjTwo_entry s.specs.directed s.succVec _ _ e.w _ i a ha with ⟨hold, hov⟩ | ⟨hupd, hnew⟩
    · -- an old entry
      obtain ⟨e', he', hsk, hw'⟩ := hr i j x y hx hy a hold haj
      obtain ⟨kv, hkv, hekv⟩ := (C03.mem_allEdges s e').1 he'
      have hkey' : (e'.u, e'.v) = kv.1 := eP.key kv hkv e' hekv
      have hl' : alookup s.edges kv.1 = some kv.2 := alookup_of_mem _ _ _ eP.nd hkv
      have hcan := eP.canon kv hkv
      rw [← hkey'] at hcan
      have hkxy : (e'.u, e'.v) = nameKey s.specs.directed x y := key_of_sameKey _ _ _ _ hcan hsk
      refine ⟨e', ?_, hsk, hw'⟩
      by_cases hkk : kv.1 = nameKey s.specs.directed e.u e.v
      · -- the edge sits under the key that is being updated
        have hxy0 : nameKey s.specs.directed x y = nameKey s.specs.directed x0 y0 := by
          rw [hk0, ← hkk, ← hkey', hkxy]
        have hpos : (i = (idxKey s.specs.directed ui vi).1 ∧ j = (idxKey s.specs.directed ui vi).2) ∨
            (s.specs.directed = false ∧ i = (idxKey s.specs.directed ui vi).2 ∧ j = (idxKey s.specs.directed ui vi).1) := by
          rcases (nameKey_eq_iff _ _ _ _ _).1 hxy0 with ⟨e1, e2⟩ | ⟨hd, e1, e2⟩
          · left
            exact ⟨names_inj hp.nodup hx (e1 ▸ hx0), names_inj hp.nodup hy (e2 ▸ hy0)⟩
          · right
            exact ⟨hd, names_inj hp.nodup hx (e1 ▸ hy0), names_inj hp.nodup hy (e2 ▸ hx0)⟩
        have hal : (s.edgesByIdx ui vi).isSome = true := by
          rw [hlk, ← hkk, hl']; rfl
        suffices hE : ∃ l, alookup (newEdges s.specs s.edges (s.edgesByIdx ui vi).isSome
            (if s.specs.directed = true then e else e.ordered) (nameKey s.specs.directed e.u e.v)) kv.1 = some l ∧ e' ∈ l by
          obtain ⟨l, hl, hel⟩ := hE
          exact hmemT kv.1 l e' hl hel
        cases hu : updOf (s.edgesByIdx ui vi).isSome s.specs with
        | push =>
          have := updOf_push _ _ hu
          rw [hal] at this; cases this
        | keepMin =>
          have hm := updOf_keepMin_multi _ _ hu
          refine ⟨kv.2 ++ [if s.specs.directed = true then e else e.ordered], ?_, List.mem_append_left _ hekv⟩
          unfold newEdges
          rw [if_pos hm, C03.alookup_amodify, if_pos hkk.symm, ← hkk, hl']
          rfl
        | overwrite =>
          exfalso
          apply hov hu
          rcases hpos with ⟨e1, e2⟩ | ⟨hd, e1, e2⟩
          · exact Or.inl ⟨e1, by rw [haj]; exact e2⟩
          · exact Or.inr ⟨hd, e1, by rw [haj]; exact e2⟩
        | untouched =>
          obtain ⟨_, hm, hk⟩ := updOf_untouched _ _ hu
          refine ⟨kv.2, ?_, hekv⟩
          unfold newEdges
          rw [hal]
          simp only [hm, Bool.false_eq_true, if_false, Bool.not_true, hk]
          exact hl'
      · apply hmemT kv.1 kv.2 e' _ hekv
        rw [alookup_newEdges_ne _ _ _ _ _ _ hkk]; exact hl'
    · -- the new pair
      obtain ⟨l, hl, hol⟩ := newEdges_has_new s.specs s.edges (s.edgesByIdx ui vi).isSome
        (if s.specs.directed = true then e else e.ordered) (nameKey s.specs.directed e.u e.v) hupd
      refine ⟨_, hmemT _ l _ hl hol, ?_, ?_⟩
      · apply sameKey_of_key
        rw [hokey, ← hk0]
        rcases hnew with ⟨e1, e2⟩ | ⟨hd, e1, e2⟩
        · subst e1
          have hj : j = (idxKey s.specs.directed ui vi).2 := by rw [← haj, e2]
          subst hj
          rw [hx0] at hx; rw [hy0] at hy
          cases hx; cases hy; rfl
        · subst e1
          have hj : j = (idxKey s.specs.directed ui vi).1 := by rw [← haj, e2]
          subst hj
          rw [hy0] at hx; rw [hx0] at hy
          cases hx; cases hy
          rw [hd]; exact nameKey_false_symm _ _
      · rw [how]
        rcases hnew with ⟨_, e2⟩ | ⟨_, _, e2⟩ <;> rw [e2]

/-- **`add_edge` keeps "every traversal weight is a stored weight"** -/
theorem addEdge_rowsW (s : Store) (e : Edge) (hwf : s.wf = true) (hr : RowsW s) : RowsW (s.addEdge e).1 := by
  have hp := pre_of_wf s hwf
  rw [addEdge_eq]
  by_cases c1 : (!s.specs.selfLoops && e.u == e.v) = true
  · rw [if_pos c1]
    cases s.specs.slFalse <;> exact hr
  · rw [if_neg c1]
    by_cases c2 : (s.specs.missing == Missing.error &&
        (!acontains s.nodesMap e.u || !acontains s.nodesMap e.v)) = true
    · rw [if_pos c2]; exact hr
    · rw [if_neg c2]
      have hs2 := specs_edgeNodes s e
      have hr2 := edgeNodes_rowsW s e hp hr
      have hwf2 : (edgeNodes s e).wf = true := by
        unfold edgeNodes
        simp only
        split
        · split
          · exact Core_addNode_wf _ _ (Core_addNode_wf _ _ hwf)
          · exact Core_addNode_wf _ _ hwf
        · split
          · exact Core_addNode_wf _ _ hwf
          · exact hwf
      have hpoison : ∀ site, RowsW ((edgeNodes s e).poison site) := by
        intro site
        obtain ⟨p1, p2, _, p4⟩ := poison_fields (edgeNodes s e) site
        intro i j x y hx hy a ha haj
        simp only [Store.names, p1] at hx hy
        rw [poison_succVec] at ha
        obtain ⟨e', he', h1, h2⟩ := hr2 i j x y hx hy a ha haj
        refine ⟨e', ?_, ?_, h2⟩
        · simp only [Store.allEdges, p2]; exact he'
        · simp only [p4]; exact h1
      cases hu : alookup (edgeNodes s e).nodesMap e.u with
      | none => exact hpoison _
      | some ui =>
        cases hv : alookup (edgeNodes s e).nodesMap e.v with
        | none => exact hpoison _
        | some vi =>
          simp only
          rw [← hs2]
          exact edgeTail_rowsW _ e ui vi hwf2 hr2 hu hv

end Bc
end Graphrs
