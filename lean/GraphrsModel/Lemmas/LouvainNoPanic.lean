/-
  Lemmas for Props/C13Model.lean, part 3: every `unwrap` / `ofOption` site of the step-level Louvain model
  succeeds on well-formed level graphs.
-/
import GraphrsModel.Lemmas.LouvainDefs
import GraphrsModel.Lemmas.LouvainVisit
import GraphrsModel.Lemmas.LouvainSweep
import GraphrsModel.Props.C09Model
namespace Graphrs
open LouvainFull
namespace LF

/-- the map is defined on every node name -/
def TotalOn {α : Type} (m : List (Nat × α)) (names : List Nat) : Prop := ∀ x ∈ names, ∃ d, alookup m x = some d

theorem alookup_map_snd {α β : Type} (m : List (Nat × α)) (f : α → β) (x : Nat) :
    alookup (m.map fun kv => (kv.1, f kv.2)) x = (alookup m x).map f := by
  induction m with
  | nil => rfl
  | cons p m ih =>
    obtain ⟨a, b⟩ := p
    by_cases h : a = x
    · simp [alookup, h]
    · simp [alookup, h, ih]

theorem TotalOn.map_snd {α β : Type} {m : List (Nat × α)} {names : List Nat} (h : TotalOn m names) (f : α → β) :
    TotalOn (m.map fun kv => (kv.1, f kv.2)) names := by
  intro x hx
  obtain ⟨d, hd⟩ := h x hx
  exact ⟨f d, by rw [alookup_map_snd, hd]; rfl⟩

theorem hasNode_names (s : Store) (h : s.wf = true) (x : Nat) : s.hasNode x = true ↔ x ∈ s.names :=
  C02.hasNode_mem (C02.nodesP_of s (C09M.wf_parts s h).1) x

/-- a `*_for_all_nodes` map whose per-node function is defined on every node is total -/
theorem forAllNodes_total {α : Type} (s : Store) (h : s.wf = true) (site : String) (f : Nat → Option α)
    (hf : ∀ x ∈ s.names, ∃ d, f x = some d) :
    ∃ m, s.forAllNodes site f = .ok m ∧ TotalOn m s.names := by
  obtain ⟨hn, _⟩ := Store.wf_inv h
  by_cases hne : s.names = []
  · have hv : s.nodesVec = [] := by simpa [Store.names] using hne
    refine ⟨[], ?_, ?_⟩
    · simp [Store.forAllNodes, hv]
    · intro x hx; rw [hne] at hx; simp at hx
  · obtain ⟨x0, hx0⟩ := List.exists_mem_of_ne_nil _ hne
    obtain ⟨d0, _⟩ := hf x0 hx0
    refine ⟨_, C09M.forAllNodes_ok s site f (fun x => (f x).getD d0) hn.names_nodup ?_, ?_⟩
    · intro x hx
      obtain ⟨d, hd⟩ := hf x hx
      rw [hd]; rfl
    · intro x hx
      rw [C09M.alookup_map_self, if_pos hx]
      exact ⟨_, rfl⟩

theorem weightedDegree_total (s : Store) (h : s.wf = true) :
    ∃ m, s.getWeightedDegreeForAllNodes = .ok m ∧ TotalOn m s.names := by
  apply forAllNodes_total s h
  intro x hx
  obtain ⟨l, hl, _⟩ := C02_edgesForNode s h x ((hasNode_names s h x).2 hx)
  simp [Store.getNodeWeightedDegree, hl]

theorem degree_total (s : Store) (h : s.wf = true) :
    ∃ m, s.getDegreeForAllNodes = .ok m ∧ TotalOn m s.names := by
  apply forAllNodes_total s h
  intro x hx
  obtain ⟨l, hl, _⟩ := C02_edgesForNode s h x ((hasNode_names s h x).2 hx)
  simp [Store.getNodeDegree, hl]

theorem weightedIn_total (s : Store) (h : s.wf = true) (hd : s.specs.directed = true) :
    ∃ m, s.getWeightedInDegreeForAllNodes = .ok m ∧ TotalOn m s.names := by
  simp only [Store.getWeightedInDegreeForAllNodes, hd, Bool.not_true, Bool.false_eq_true, if_false]
  apply forAllNodes_total s h
  intro x hx
  obtain ⟨l, hl, _⟩ := C02_inEdges s h hd x ((hasNode_names s h x).2 hx)
  simp [Store.getNodeWeightedInDegree, hl]

theorem weightedOut_total (s : Store) (h : s.wf = true) (hd : s.specs.directed = true) :
    ∃ m, s.getWeightedOutDegreeForAllNodes = .ok m ∧ TotalOn m s.names := by
  simp only [Store.getWeightedOutDegreeForAllNodes, hd, Bool.not_true, Bool.false_eq_true, if_false]
  apply forAllNodes_total s h
  intro x hx
  obtain ⟨l, hl, _⟩ := C02_outEdges s h hd x ((hasNode_names s h x).2 hx)
  simp [Store.getNodeWeightedOutDegree, hl]

theorem in_total (s : Store) (h : s.wf = true) (hd : s.specs.directed = true) :
    ∃ m, s.getInDegreeForAllNodes = .ok m ∧ TotalOn m s.names := by
  simp only [Store.getInDegreeForAllNodes, hd, Bool.not_true, Bool.false_eq_true, if_false]
  apply forAllNodes_total s h
  intro x hx
  obtain ⟨l, hl, _⟩ := C02_inEdges s h hd x ((hasNode_names s h x).2 hx)
  simp [Store.getNodeInDegree, hl]

theorem out_total (s : Store) (h : s.wf = true) (hd : s.specs.directed = true) :
    ∃ m, s.getOutDegreeForAllNodes = .ok m ∧ TotalOn m s.names := by
  simp only [Store.getOutDegreeForAllNodes, hd, Bool.not_true, Bool.false_eq_true, if_false]
  apply forAllNodes_total s h
  intro x hx
  obtain ⟨l, hl, _⟩ := C02_outEdges s h hd x ((hasNode_names s h x).2 hx)
  simp [Store.getNodeOutDegree, hl]


theorem foldl_ok_of {α β : Type} (P : α → Prop) (F : Outcome α → β → Outcome α) (l : List β)
    (hF : ∀ a x, x ∈ l → P a → ∃ b, F (.ok a) x = .ok b ∧ P b) (a0 : α) (h0 : P a0)
    (o : Outcome α) (ho : l.foldl F (.ok a0) = o) : ∃ r, o = .ok r ∧ P r := by
  obtain ⟨r, hr, hp⟩ := foldl_ok_exists P F l hF a0 h0
  exact ⟨r, by rw [← ho, hr], hp⟩

theorem degMap_ok {m : List (Nat × W)} {o : Outcome (List (Nat × W))} (h : o = .ok m) {names : List Nat} (ht : TotalOn m names) :
    ∃ m', degMap o = .ok m' ∧ TotalOn m' names := by
  subst h
  exact ⟨_, rfl, ht.map_snd ratW⟩

theorem degreeInformation_ok (g : Store) (h : g.wf = true) (k : Nat) (hnames : ∀ x, x < k → x ∈ g.names) :
    ∃ di, degreeInformation g k = .ok di ∧
      (g.specs.directed = true → TotalOn di.inDeg g.names ∧ TotalOn di.outDeg g.names ∧
        di.stotIn.length = k ∧ di.stotOut.length = k) ∧
      (g.specs.directed = false → TotalOn di.deg g.names ∧ di.stot.length = k) := by
  unfold degreeInformation
  cases hd : g.specs.directed
  · obtain ⟨m, hm, ht⟩ := weightedDegree_total g h
    obtain ⟨m', hm', ht'⟩ := degMap_ok hm ht
    simp only [Bool.false_eq_true, if_false, hm', bind, Outcome.bind]
    rw [foldl_ok_map (g := fun i => (alookup m' i).getD 0) (acc := [])]
    · exact ⟨_, rfl, by simp, fun _ => ⟨ht', by simp⟩⟩
    · intro acc i hi
      obtain ⟨d, hd'⟩ := ht' i (hnames i (List.mem_range.1 hi))
      simp [hd', Outcome.ofOption]
  · obtain ⟨mi, hmi, hti⟩ := weightedIn_total g h hd
    obtain ⟨mi', hmi', hti'⟩ := degMap_ok hmi hti
    obtain ⟨mo, hmo, hto⟩ := weightedOut_total g h hd
    obtain ⟨mo', hmo', hto'⟩ := degMap_ok hmo hto
    simp only [if_true, hmi', hmo', Outcome.unwrap, bind, Outcome.bind]
    rw [foldl_ok_map (g := fun i => (alookup mi' i).getD 0) (acc := [])]
    · simp only
      rw [foldl_ok_map (g := fun i => (alookup mo' i).getD 0) (acc := [])]
      · exact ⟨_, rfl, fun _ => ⟨hti', hto', by simp, by simp⟩, by simp⟩
      · intro acc i hi
        obtain ⟨d, hd'⟩ := hto' i (hnames i (List.mem_range.1 hi))
        simp [hd', Outcome.ofOption]
    · intro acc i hi
      obtain ⟨d, hd'⟩ := hti' i (hnames i (List.mem_range.1 hi))
      simp [hd', Outcome.ofOption]

theorem foldl_ok_exists₀ {α β : Type} (F : Outcome α → β → Outcome α) (l : List β)
    (hF : ∀ a x, x ∈ l → ∃ b, F (.ok a) x = .ok b) (a0 : α) : ∃ r, l.foldl F (.ok a0) = .ok r := by
  obtain ⟨r, hr, -⟩ := foldl_ok_exists (fun _ => True) F l
    (fun a x hx _ => by obtain ⟨b, hb⟩ := hF a x hx; exact ⟨b, hb, trivial⟩) a0 trivial
  exact ⟨r, hr⟩

theorem getEdge_of_hasEdge (g : Store) (h : g.wf = true) (hm : g.specs.multi = false) (u v : Nat)
    (he : g.hasEdge u v = true) : ∃ e, g.getEdge u v = .ok e ∧ u ∈ g.names ∧ v ∈ g.names := by
  obtain ⟨hn, hei⟩ := Store.wf_inv h
  obtain ⟨e, hmem, hj⟩ := (C02.hasEdge_iff g u v).1 he
  have hval := Store.allEdges_valid hei hmem
  have huv : u ∈ g.names ∧ v ∈ g.names := by
    simp only [C02.joins, Bool.or_eq_true, Bool.and_eq_true, beq_iff_eq] at hj
    rcases hj with ⟨h1, h2⟩ | ⟨⟨_, h1⟩, h2⟩
    · rw [← h1, ← h2]; exact ⟨hval.1, hval.2.1⟩
    · rw [← h1, ← h2]; exact ⟨hval.2.1, hval.1⟩
  have hb : e ∈ g.abs.between g.specs.directed u v := by
    simp only [Abs.between, List.mem_filter]
    exact ⟨hmem, hj⟩
  rw [C02_getEdge g h hm u v ((hasNode_names g h u).2 huv.1) ((hasNode_names g h v).2 huv.2)]
  cases hbt : g.abs.between g.specs.directed u v with
  | nil => rw [hbt] at hb; simp at hb
  | cons e' l => exact ⟨e', rfl, huv⟩

theorem neighborWeights_ok (g : Store) (h : g.wf = true) (hm : g.specs.multi = false) (u : Nat)
    (n2c : List (Nat × Nat)) (hn : TotalOn n2c g.names) : ∃ w2c, neighborWeights g u n2c = .ok w2c := by
  have hsucc : ∀ v ∈ (alookup g.succ u).getD [], ∃ e, g.getEdge u v = .ok e ∧ v ∈ g.names := by
    intro v hv
    have := ((C02_maps g h u v).1.1 hv)
    rw [C02.mem_abs_succ] at this
    obtain ⟨e, he, _, hvn⟩ := getEdge_of_hasEdge g h hm u v this
    exact ⟨e, he, hvn⟩
  have hpred : ∀ v ∈ (alookup g.pred u).getD [], ∃ e, g.getEdge v u = .ok e ∧ v ∈ g.names := by
    intro v hv
    have := ((C02_maps g h u v).2.1 hv)
    rw [C02.mem_abs_pred] at this
    obtain ⟨e, he, hvn, _⟩ := getEdge_of_hasEdge g h hm v u this.2
    exact ⟨e, he, hvn⟩
  unfold neighborWeights
  simp only [bind, Outcome.bind]
  split
  next x m hfold =>
    by_cases hd : g.specs.directed = true
    · rw [if_pos hd]
      refine foldl_ok_exists₀ _ _ ?_ m
      intro a v hv
      dsimp only
      by_cases huv : (u == v) = true
      · rw [if_pos huv]; exact ⟨a, rfl⟩
      · rw [if_neg huv]
        obtain ⟨e, he, hvn⟩ := hpred v hv
        obtain ⟨c, hc⟩ := hn v hvn
        simp only [he, hc, Outcome.unwrap, Outcome.ofOption]
        exact ⟨_, rfl⟩
    · rw [if_neg hd]; exact ⟨m, rfl⟩
  all_goals
    rename_i hst
    have hx := foldl_ok_of (fun _ => True) _ _ ?_ _ trivial _ hst
    · obtain ⟨r, hr, -⟩ := hx; cases hr
    · intro a v hv _
      dsimp only
      by_cases huv : (u == v) = true
      · rw [if_pos huv]; exact ⟨a, rfl, trivial⟩
      · rw [if_neg huv]
        obtain ⟨e, he, hvn⟩ := hsucc v hv
        obtain ⟨c, hc⟩ := hn v hvn
        simp only [he, hc, Outcome.unwrap, Outcome.ofOption]
        exact ⟨_, rfl, trivial⟩

/-- the degree maps of the bookkeeping are defined on every node and the `stot*` vectors have one slot per community id -/
structure DegOK (g : Store) (k : Nat) (di : DegInfo) : Prop where
  dir : g.specs.directed = true → TotalOn di.inDeg g.names ∧ TotalOn di.outDeg g.names ∧
    di.stotIn.length = k ∧ di.stotOut.length = k
  undir : g.specs.directed = false → TotalOn di.deg g.names ∧ di.stot.length = k

theorem idxGuard_ok (site : String) {len i : Nat} (h : i < len) : idxGuard site len i = .ok () := by
  simp [idxGuard, h]

theorem guardFold_ok {β : Type} (F : Outcome Unit → β → Outcome Unit) (l : List β)
    (hF : ∀ a ∈ l, F (.ok ()) a = .ok ()) : l.foldl F (.ok ()) = .ok () := by
  induction l with
  | nil => rfl
  | cons a l ih =>
    rw [List.foldl_cons, hF a (by simp)]
    exact ih (fun b hb => hF b (by simp [hb]))

theorem length_setR (l : List Rat) (i : Nat) (v : Rat) : (setR l i v).length = l.length := by
  simp [setR]

theorem visit_exists {lv : Level} {n k : Nat} (hg : GoodLevel lv n k) (hwf : lv.g.wf = true)
    (hm : lv.g.specs.multi = false) {st : LState} (hs : SInv lv k st) (hdeg : DegOK lv.g k st.di)
    (m res : Rat) (u : Nat) (hu : u ∈ lv.g.names) : ∃ st', visit lv m res st u = .ok st' := by
  have huk : u < k := (hg.names_iff u).1 hu
  obtain ⟨cur, hcur⟩ := hs.n2c_total u huk
  have hck : cur < k := (hs.n2c_lt u cur hcur).2
  have htot : TotalOn st.node2com lv.g.names := fun x hx => hs.n2c_total x ((hg.names_iff x).1 hx)
  obtain ⟨w2c, hw⟩ := neighborWeights_ok lv.g hwf hm u st.node2com htot
  have hkeys : ∀ a ∈ isort (fun a b : Nat × Rat => decide (a.1 ≤ b.1)) w2c, a.1 < k := by
    intro a ha
    rw [C02.mem_isort] at ha
    obtain ⟨v, hv⟩ := neighborWeights_keys hw a.1 (List.mem_map_of_mem ha)
    exact (hs.n2c_lt v a.1 hv).2
  obtain ⟨nd, hnd⟩ : ∃ nd, lv.g.getNode u = some nd := by
    have := (hasNode_names lv.g hwf u).2 hu
    unfold Store.hasNode at this
    cases hgn : lv.g.getNode u with
    | none => rw [hgn] at this; cases this
    | some nd => exact ⟨nd, rfl⟩
  unfold visit visitWith
  simp only [bind, Outcome.bind, hcur, hw, Outcome.ofOption]
  cases hd : lv.g.specs.directed
  · obtain ⟨ht, hl⟩ := hdeg.undir hd
    obtain ⟨d, hd'⟩ := ht u hu
    simp only [hd', Bool.false_eq_true, if_false, idxGuard_ok _ (hl ▸ hck), length_setR]
    rw [guardFold_ok _ _ (fun a ha => idxGuard_ok _ (hl ▸ hkeys a ha))]
    simp only
    generalize hb : (Louvain.updateBest _ w2c (cur, 0)).fst = best
    have hbk : best < k := by
      rcases (by rw [← hb]; exact updateBest_fst _ w2c (cur, 0) : best = cur ∨ best ∈ w2c.map (·.1)) with h1 | h1
      · rw [h1]; exact hck
      · obtain ⟨v, hv⟩ := neighborWeights_keys hw best h1
        exact (hs.n2c_lt v best hv).2
    simp only [idxGuard_ok _ (hl ▸ hbk)]
    split
    · simp only [hnd, idxGuard_ok _ (hs.part_len ▸ hck), idxGuard_ok _ (hs.inner_len ▸ hck), List.length_set,
        idxGuard_ok _ (hs.part_len ▸ hbk), idxGuard_ok _ (hs.inner_len ▸ hbk)]
      exact ⟨_, rfl⟩
    · exact ⟨_, rfl⟩
  · obtain ⟨hi, ho, hli, hlo⟩ := hdeg.dir hd
    obtain ⟨di, hdi⟩ := hi u hu
    obtain ⟨do', hdo⟩ := ho u hu
    simp only [hdi, hdo, if_true, idxGuard_ok _ (hli ▸ hck), idxGuard_ok _ (hlo ▸ hck), length_setR]
    rw [guardFold_ok _ _ (fun a ha => by
      simp only [idxGuard_ok _ (hli ▸ hkeys a ha), idxGuard_ok _ (hlo ▸ hkeys a ha)])]
    simp only
    generalize hb : (Louvain.updateBest _ w2c (cur, 0)).fst = best
    have hbk : best < k := by
      rcases (by rw [← hb]; exact updateBest_fst _ w2c (cur, 0) : best = cur ∨ best ∈ w2c.map (·.1)) with h1 | h1
      · rw [h1]; exact hck
      · obtain ⟨v, hv⟩ := neighborWeights_keys hw best h1
        exact (hs.n2c_lt v best hv).2
    simp only [idxGuard_ok _ (hli ▸ hbk), idxGuard_ok _ (hlo ▸ hbk)]
    split
    · simp only [hnd, idxGuard_ok _ (hs.part_len ▸ hck), idxGuard_ok _ (hs.inner_len ▸ hck), List.length_set,
        idxGuard_ok _ (hs.part_len ▸ hbk), idxGuard_ok _ (hs.inner_len ▸ hbk)]
      exact ⟨_, rfl⟩
    · exact ⟨_, rfl⟩

theorem visit_degOK {lv : Level} {k : Nat} {m res : Rat} {st st' : LState} {u : Nat}
    (hv : visit lv m res st u = .ok st') (hdeg : DegOK lv.g k st.di) : DegOK lv.g k st'.di := by
  obtain ⟨_, _, _, _, _, _, h1, h2, h3, h4, h5, h6, _⟩ := visit_ok hv
  exact ⟨fun hd => by rw [h1, h2, h4, h5]; exact hdeg.dir hd, fun hd => by rw [h3, h6]; exact hdeg.undir hd⟩


theorem pass_exists {lv : Level} {n k : Nat} (hg : GoodLevel lv n k) (hwf : lv.g.wf = true)
    (hm : lv.g.specs.multi = false) (m res : Rat) (order : List Nat) (ho : ∀ u ∈ order, u ∈ lv.g.names)
    (st : LState) (hs : SInv lv k st) (hdeg : DegOK lv.g k st.di) :
    ∃ st', order.foldl (fun acc u => do let s ← acc; visit lv m res s u) (.ok st) = .ok st' ∧
      (SInv lv k st' ∧ DegOK lv.g k st'.di) := by
  refine foldl_ok_exists (fun s => SInv lv k s ∧ DegOK lv.g k s.di) _ order ?_ st ⟨hs, hdeg⟩
  intro a u hu ha
  obtain ⟨b, hb⟩ := visit_exists hg hwf hm ha.1 ha.2 m res u (ho u hu)
  exact ⟨b, by simpa [bind, Outcome.bind] using hb, ha.1.visit hg hb, visit_degOK hb ha.2⟩

theorem sweeps_exists {lv : Level} {n k : Nat} (hg : GoodLevel lv n k) (hwf : lv.g.wf = true)
    (hm : lv.g.specs.multi = false) (m res : Rat) (order : List Nat) (ho : ∀ u ∈ order, u ∈ lv.g.names) (fuel : Nat) :
    ∀ (st : LState), SInv lv k st → DegOK lv.g k st.di → ∃ r, sweeps lv m res order fuel st = .ok r := by
  induction fuel with
  | zero => intro st _ _; exact ⟨none, rfl⟩
  | succ fuel ih =>
    intro st hs hdeg
    have hs0 : SInv lv k { st with moves := 0 } :=
      ⟨hs.part_len, hs.inner_len, hs.n2c_total, hs.n2c_lt, hs.inner_iff, hs.inner_nodup, hs.part_iff, hs.part_nodup⟩
    obtain ⟨st1, h1, hs1, hd1⟩ := pass_exists hg hwf hm m res order ho { st with moves := 0 } hs0 hdeg
    unfold sweeps
    simp only [bind, Outcome.bind] at h1 ⊢
    rw [h1]
    by_cases hmv : st1.moves > 0
    · simp only [hmv, if_true]; exact ih st1 hs1 hd1
    · simp only [hmv, if_false]; exact ⟨_, rfl⟩

theorem computeOneLevel_exists {lv : Level} {n k : Nat} (hg : GoodLevel lv n k) (hwf : lv.g.wf = true)
    (hm : lv.g.specs.multi = false) {partition : List (List Nat)} (hin : InputOK lv k partition)
    (m res : Rat) (perm : List Nat) (fuel : Nat) :
    ∃ r, computeOneLevel lv m res partition perm fuel = .ok r := by
  have hnames : ∀ x, x < k → x ∈ lv.g.names := fun x hx => (hg.names_iff x).2 hx
  obtain ⟨di, hdi, hd1, hd2⟩ := degreeInformation_ok lv.g hwf k hnames
  unfold computeOneLevel
  simp only [bind, Outcome.bind]
  rw [sortNat_eq_range hg.names_nodup hg.names_iff, hin.len, hdi]
  have ho : ∀ u ∈ perm.filterMap (fun i => lv.g.getAllNodeNames[i]?), u ∈ lv.g.names := by
    intro u hu
    rw [List.mem_filterMap] at hu
    obtain ⟨i, _, hi⟩ := hu
    exact List.mem_of_getElem? hi
  obtain ⟨r, hr⟩ := sweeps_exists hg hwf hm m res _ ho fuel _ (SInv.init hin di) ⟨hd1, hd2⟩
  simp only [hr]
  cases r with
  | none => exact ⟨_, rfl⟩
  | some st =>
    simp only
    split <;> exact ⟨_, rfl⟩



theorem degsum_ok {D : List (Nat × Option Rat)} {names : List Nat} (ht : TotalOn D names) (comm : List Nat)
    (hc : ∀ x ∈ comm, x ∈ names) (F : Outcome (Option Rat) → Nat → Outcome (Option Rat))
    (hF : ∀ t n d, alookup D n = some d → ∃ b, F (.ok t) n = .ok b)
    (o : Outcome (Option Rat)) (ho : comm.foldl F (.ok (some 0)) = o) : ∃ r, o = .ok r := by
  obtain ⟨r, hr⟩ := foldl_ok_exists₀ F comm (fun a x hx => by
    obtain ⟨d, hd⟩ := ht x (hc x hx)
    exact hF a x d hd) (some 0)
  exact ⟨r, by rw [← ho, hr]⟩

theorem modularity_ok (s : Store) (h : s.wf = true) (comms : List (List Nat)) (hp : s.isPartition comms = true)
    (hnames : ∀ c ∈ comms, ∀ x ∈ c, x ∈ s.names) (weighted : Bool) (res : Rat) :
    ∃ r, s.modularity comms weighted res = .ok r := by
  unfold Store.modularity
  simp only [hp, Bool.not_true, Bool.false_eq_true, if_false, bind, Outcome.bind]
  generalize hD : (if s.specs.directed = true then _ else _ :
    Outcome (List (Nat × Option Rat) × List (Nat × Option Rat) × Option Rat × Option Rat)) = D
  have hDok : ∃ a, D = .ok a ∧ TotalOn a.1 s.names ∧ TotalOn a.2.1 s.names := by
    rw [← hD]
    cases hd : s.specs.directed
    · cases weighted
      · obtain ⟨m, hm, ht⟩ := degree_total s h
        simp only [hm, Outcome.map', Bool.false_eq_true, if_false, pure]
        exact ⟨_, rfl, ht.map_snd (fun d : Nat => some (d : Rat)), ht.map_snd (fun d : Nat => some (d : Rat))⟩
      · obtain ⟨m, hm, ht⟩ := weightedDegree_total s h
        simp only [hm, Outcome.map', Bool.false_eq_true, if_false, if_true, pure]
        exact ⟨_, rfl, ht.map_snd _, ht.map_snd _⟩
    · cases weighted
      · obtain ⟨mo, hmo, hto⟩ := out_total s h hd
        obtain ⟨mi, hmi, hti⟩ := in_total s h hd
        simp only [hmo, hmi, Outcome.map', Outcome.unwrap, Bool.false_eq_true, if_false, if_true, pure]
        exact ⟨_, rfl, hto.map_snd (fun d : Nat => some (d : Rat)), hti.map_snd (fun d : Nat => some (d : Rat))⟩
      · obtain ⟨mo, hmo, hto⟩ := weightedOut_total s h hd
        obtain ⟨mi, hmi, hti⟩ := weightedIn_total s h hd
        simp only [hmo, hmi, Outcome.map', Outcome.unwrap, if_true, pure]
        exact ⟨_, rfl, hto.map_snd _, hti.map_snd _⟩
  obtain ⟨a, rfl, t1, t2⟩ := hDok
  simp only
  have hstep : ∀ (F : Outcome (List (Option Rat)) → List Nat → Outcome (List (Option Rat)))
      (o : Outcome (List (Option Rat))), comms.foldl F (.ok []) = o →
      (∀ acc comm, comm ∈ comms → ∃ b, F (.ok acc) comm = .ok b) → ∃ r, o = .ok r := by
    intro F o ho hF
    obtain ⟨r, hr⟩ := foldl_ok_exists₀ F comms (fun acc c hc => hF acc c hc) []
    exact ⟨r, by rw [← ho, hr]⟩
  split
  next x cs hcs => exact ⟨_, rfl⟩
  all_goals
    rename_i hcs
    obtain ⟨r, hr⟩ := hstep _ _ hcs (by
      intro acc comm hcm
      obtain ⟨t, hsub, _⟩ := Core_subgraph s h comm
      simp only [hsub]
      split
      next y osum hos =>
        split
        next z isum his => exact ⟨_, rfl⟩
        all_goals
          rename_i his
          by_cases hd : s.specs.directed = true
          · rw [if_pos hd] at his
            obtain ⟨r, hr⟩ := degsum_ok t2 comm (hnames comm hcm) _ (by
              intro t n d hd'; simp [hd', Outcome.ofOption]) _ his
            cases hr
          · rw [if_neg hd] at his; cases his
      all_goals
        rename_i hos
        obtain ⟨r, hr⟩ := degsum_ok t1 comm (hnames comm hcm) _ (by
          intro t n d hd'; simp [hd', Outcome.ofOption]) _ hos
        cases hr)
    cases hr


theorem isPartition_of_part {lv : Level} {n k : Nat} (hg : GoodLevel lv n k) (hwf : lv.g.wf = true)
    {inner : List (List Nat)} (hin : PartOfRange k inner) :
    lv.g.isPartition inner = true ∧ ∀ c ∈ inner, ∀ x ∈ c, x ∈ lv.g.names := by
  have hsub : ∀ c ∈ inner, ∀ x ∈ c, x ∈ lv.g.names := by
    intro c hc x hx
    exact (hg.names_iff x).2 ((hin.2.2 x).1 (List.mem_flatMap.2 ⟨c, hc, hx⟩))
  refine ⟨?_, hsub⟩
  rw [C12_is_partition_iff lv.g inner hg.names_nodup (fun x => hasNode_names lv.g hwf x)
    (fun c hc => ((List.nodup_flatMap.1 hin.2.1).1 c hc))]
  refine ⟨hin.2.1, ?_, ?_⟩
  · intro x hx; exact (hg.names_iff x).2 ((hin.2.2 x).1 hx)
  · intro x hx; exact (hin.2.2 x).2 ((hg.names_iff x).1 hx)

theorem singletons_part (n : Nat) : PartOfRange n ((List.range n).map fun i => [i]) := by
  have hflat : ((List.range n).map fun i => [i]).flatMap id = List.range n := by
    induction n with
    | zero => rfl
    | succ n ih => simp [List.range_succ, List.flatMap_append, ih]
  refine ⟨?_, ?_, ?_⟩
  · intro c hc; rw [List.mem_map] at hc; obtain ⟨i, _, rfl⟩ := hc; simp
  · rw [hflat]; exact List.nodup_range
  · intro x; rw [hflat, List.mem_range]

theorem levelLoop_exists (weighted : Bool) (res threshold m : Rat) (perms : List (List Nat)) (sweepFuel n : Nat) :
    ∀ (fuel : Nat) (lv : Level) (k : Nat) (partition inner : List (List Nat)) (improvement : Bool) (modularity : Rat)
      (acc : List (List (List Nat))),
    GoodLevel lv n k → lv.g.wf = true → lv.g.specs.multi = false → PI lv k partition inner →
    ∃ r, levelLoop weighted res threshold m perms sweepFuel fuel lv partition inner improvement modularity acc = .ok r := by
  intro fuel
  induction fuel with
  | zero => intro lv k partition inner improvement modularity acc _ _ _ _; exact ⟨none, rfl⟩
  | succ fuel ih =>
    intro lv k partition inner improvement modularity acc hg hwf hm hpi
    unfold levelLoop
    by_cases himp : improvement = true
    · obtain ⟨hp, hnm⟩ := isPartition_of_part hg hwf hpi.inner_part
      obtain ⟨omod, hmod⟩ := modularity_ok lv.g hwf inner hp hnm weighted res
      simp only [himp, Bool.not_true, Bool.false_eq_true, if_false, bind, Outcome.bind, hmod, Outcome.unwrap]
      cases omod with
      | none => exact ⟨_, rfl⟩
      | some newMod =>
        simp only
        by_cases hth : newMod - modularity ≤ threshold
        · rw [if_pos hth]; exact ⟨_, rfl⟩
        · rw [if_neg hth]
          obtain ⟨lv', hgen, hwf', hm', _, hg', hmem'⟩ := generateGraph_spec lv n k hg hwf inner hpi.inner_part
          have hin' : InputOK lv' inner.length partition := hpi.inputOK hmem'
          rw [hm] at hm'
          obtain ⟨r, hr⟩ := computeOneLevel_exists hg' hwf' hm' hin' m res (perms[lv'.g.numNodes]?.getD []) sweepFuel
          simp only [hgen, hr]
          cases r with
          | none => exact ⟨_, rfl⟩
          | some r =>
            obtain ⟨p, i, imp⟩ := r
            simp only
            obtain ⟨hpi', _⟩ := computeOneLevel_post hg' hin' hr
            exact ih lv' inner.length p i imp newMod _ hg' hwf' hm' hpi'
    · have himp' : improvement = false := by simpa using himp
      simp only [himp', Bool.not_false, if_true]
      exact ⟨_, rfl⟩

theorem louvainPartitions_exists (s : Store) (h : s.wf = true) (weighted : Bool) (res threshold : Rat)
    (perms : List (List Nat)) : ∃ r, louvainPartitions s weighted res threshold perms = .ok r := by
  obtain ⟨lv, hlv, hwf, hm, hnum, hg, hmem⟩ := convertGraph_spec s h weighted
  have hin : InputOK lv s.numNodes ((List.range s.numNodes).map fun i => [i]) := by
    refine ⟨by simp, ?_, ?_⟩
    · intro i hi; rw [getD_map_range, if_pos hi]; simp
    · intro i z hi; rw [getD_map_range, if_pos hi, hmem]
  obtain ⟨hp, hnm⟩ := isPartition_of_part hg hwf (singletons_part s.numNodes)
  obtain ⟨omod, hmod⟩ := modularity_ok lv.g hwf _ hp hnm weighted res
  unfold louvainPartitions
  simp only [bind, Outcome.bind, hlv, hnum, hmod, Outcome.unwrap]
  cases omod with
  | none => exact ⟨_, rfl⟩
  | some mod0 =>
    simp only
    obtain ⟨r, hr⟩ := computeOneLevel_exists hg hwf hm hin
      (if weighted = true then ratW lv.g.sizeWeighted else (lv.g.sizeUnweighted : Rat)) res
      (perms[s.numNodes]?.getD []) (4 * s.numNodes * s.numNodes + 16)
    simp only [hr]
    cases r with
    | none => exact ⟨_, rfl⟩
    | some r =>
      obtain ⟨p, i, imp⟩ := r
      simp only
      obtain ⟨hpi, _⟩ := computeOneLevel_post hg hin hr
      exact levelLoop_exists weighted res threshold _ perms _ s.numNodes _ lv s.numNodes p i true mod0 [] hg hwf hm hpi


end LF
end Graphrs
