/-
  The concrete strong-components model (`sccStep` / `sccRun` of Model/Components.lean) against the abstract
  invariant of Lemmas/C10SccInv.lean: every step preserves the invariant, never reaches a panic site, and
  decreases a fuel measure bounded by `2 n + 1`.
-/
import GraphrsModel.Lemmas.C10SccInv
namespace Graphrs
namespace Scc
open C02 C10M Store

def pnOf (st : SccState) (x : Nat) : Nat := (alookup st.preorder x).getD 0
def llOf (st : SccState) (x : Nat) : Nat := (alookup st.lowlink x).getD 0

/-! ### the step, decomposed -/

/-- assign the next preorder number to `v` if it has none -/
def visitSt (st : SccState) (v : Nat) : SccState :=
  if (alookup st.preorder v).isNone then { st with i := st.i + 1, preorder := ainsert st.preorder v (st.i + 1) } else st

/-- one step of the low-link fold (copied verbatim) -/
def llStep (st : SccState) (pv : Nat) (acc : Option Nat) (w : Nat) : Option Nat :=
  match acc with
  | none => none
  | some ll =>
    if st.sccFound.contains w then some ll
    else
      match alookup st.preorder w with
      | none => none
      | some pw =>
        if pw > pv then (match alookup st.lowlink w with | none => none | some lw => some (min ll lw))
        else some (min ll pw)

/-- the part of `sccStep` after the preorder assignment -/
def afterVisit (nbrs : Nat → List Nat) (st : SccState) (v : Nat) (restQ : List Nat) : Option (SccState × List Nat) :=
  match (nbrs v).find? (fun w => (alookup st.preorder w).isNone) with
  | some w => some (st, w :: v :: restQ)
  | none =>
    match alookup st.preorder v with
    | none => none
    | some pv =>
      match (nbrs v).foldl (llStep st pv) (some pv) with
      | none => none
      | some ll =>
        if ll == pv then
          some ({ st with
            lowlink := ainsert st.lowlink v ll
            sccQueue := (sccStep.popLoop pv { st with lowlink := ainsert st.lowlink v ll } (st.sccQueue.length + 1) st.sccQueue [v]).1
            sccFound := sunion st.sccFound
              (sccStep.popLoop pv { st with lowlink := ainsert st.lowlink v ll } (st.sccQueue.length + 1) st.sccQueue [v]).2
            components := st.components ++
              [(sccStep.popLoop pv { st with lowlink := ainsert st.lowlink v ll } (st.sccQueue.length + 1) st.sccQueue [v]).2] },
            restQ)
        else some ({ st with lowlink := ainsert st.lowlink v ll, sccQueue := st.sccQueue ++ [v] }, restQ)

theorem sccStep_cons (nbrs : Nat → List Nat) (st : SccState) (v : Nat) (restQ : List Nat) :
    sccStep nbrs st (v :: restQ) = afterVisit nbrs (visitSt st v) v restQ := by
  rfl

theorem sccStep_nil (nbrs : Nat → List Nat) (st : SccState) : sccStep nbrs st [] = some (st, []) := rfl

/-! ### the low-link fold -/

def llPure (pn ll : Nat → Nat) (F : List Nat) (pv : Nat) (ws : List Nat) (init : Nat) : Nat :=
  ws.foldl (fun acc w => if F.contains w then acc else if pn w > pv then min acc (ll w) else min acc (pn w)) init

theorem llFold_eq (st : SccState) (pv : Nat) (ws : List Nat) :
    ∀ (init : Nat),
    (∀ w ∈ ws, w ∉ st.sccFound → (alookup st.preorder w).isSome = true ∧
      (pv < pnOf st w → (alookup st.lowlink w).isSome = true)) →
    ws.foldl (llStep st pv) (some init) = some (llPure (pnOf st) (llOf st) st.sccFound pv ws init) := by
  induction ws with
  | nil => intro init _; rfl
  | cons w ws ih =>
    intro init hpre
    have hws := fun x hx => hpre x (List.mem_cons_of_mem _ hx)
    rw [List.foldl_cons]
    unfold llPure
    rw [List.foldl_cons]
    by_cases hc : st.sccFound.contains w = true
    · have hm : w ∈ st.sccFound := by simpa using hc
      have : llStep st pv (some init) w = some init := by simp [llStep, hm]
      rw [this]
      simp only [hc, if_true]
      exact ih init hws
    · have hwF : w ∉ st.sccFound := by simpa using hc
      obtain ⟨h1, h2⟩ := hpre w List.mem_cons_self hwF
      cases hp : alookup st.preorder w with
      | none => rw [hp] at h1; cases h1
      | some pw =>
        have hpn : pnOf st w = pw := by simp [pnOf, hp]
        by_cases hgt : pw > pv
        · have h2' := h2 (by rw [hpn]; exact hgt)
          cases hl : alookup st.lowlink w with
          | none => rw [hl] at h2'; cases h2'
          | some lw =>
            have hll : llOf st w = lw := by simp [llOf, hl]
            have : llStep st pv (some init) w = some (min init lw) := by simp [llStep, hwF, hp, hgt, hl]
            rw [this]
            simp only [hc, hpn, hgt, hll, if_true, Bool.false_eq_true, if_false]
            exact ih _ hws
        · have : llStep st pv (some init) w = some (min init pw) := by simp [llStep, hwF, hp, hgt]
          rw [this]
          simp only [hc, hpn, hgt, Bool.false_eq_true, if_false]
          exact ih _ hws

theorem llPure_le_init (pn ll : Nat → Nat) (F : List Nat) (pv : Nat) (ws : List Nat) :
    ∀ init, llPure pn ll F pv ws init ≤ init := by
  induction ws with
  | nil => intro init; exact Nat.le_refl _
  | cons w ws ih =>
    intro init
    unfold llPure
    rw [List.foldl_cons]
    have := ih (if F.contains w then init else if pn w > pv then min init (ll w) else min init (pn w))
    unfold llPure at this
    refine Nat.le_trans this ?_
    split
    · exact Nat.le_refl _
    · split
      · exact Nat.min_le_left _ _
      · exact Nat.min_le_left _ _

theorem llPure_le (pn ll : Nat → Nat) (F : List Nat) (pv : Nat) (ws : List Nat) :
    ∀ init, ∀ w ∈ ws, w ∉ F →
      (pn w ≤ pv → llPure pn ll F pv ws init ≤ pn w) ∧ (pv < pn w → llPure pn ll F pv ws init ≤ ll w) := by
  induction ws with
  | nil => intro init w hw; cases hw
  | cons a ws ih =>
    intro init w hw hwF
    have hunf : llPure pn ll F pv (a :: ws) init =
        llPure pn ll F pv ws (if F.contains a then init else if pn a > pv then min init (ll a) else min init (pn a)) := by
      unfold llPure; rw [List.foldl_cons]
    rw [hunf]
    rcases List.mem_cons.1 hw with rfl | hw
    · have hc : F.contains w = false := by simpa using hwF
      have := llPure_le_init pn ll F pv ws (if F.contains w then init else if pn w > pv then min init (ll w) else min init (pn w))
      simp only [hc, Bool.false_eq_true, if_false] at this ⊢
      constructor
      · intro hle
        have hng : ¬ pn w > pv := by omega
        simp only [hng, if_false] at this ⊢
        exact Nat.le_trans this (Nat.min_le_right _ _)
      · intro hlt
        have hg : pn w > pv := hlt
        simp only [hg, if_true] at this ⊢
        exact Nat.le_trans this (Nat.min_le_right _ _)
    · exact ih _ w hw hwF

theorem llPure_attained (pn ll : Nat → Nat) (F : List Nat) (pv : Nat) (ws : List Nat) :
    ∀ init, llPure pn ll F pv ws init = init ∨
      (∃ w ∈ ws, w ∉ F ∧ pn w ≤ pv ∧ llPure pn ll F pv ws init = pn w) ∨
      (∃ w ∈ ws, w ∉ F ∧ pv < pn w ∧ llPure pn ll F pv ws init = ll w) := by
  induction ws with
  | nil => intro init; exact Or.inl rfl
  | cons a ws ih =>
    intro init
    have hunf : llPure pn ll F pv (a :: ws) init =
        llPure pn ll F pv ws (if F.contains a then init else if pn a > pv then min init (ll a) else min init (pn a)) := by
      unfold llPure; rw [List.foldl_cons]
    rw [hunf]
    rcases ih (if F.contains a then init else if pn a > pv then min init (ll a) else min init (pn a)) with h | h | h
    · rw [h]
      by_cases hc : F.contains a = true
      · simp only [hc, if_true]; exact Or.inl trivial
      · have haF : a ∉ F := by simpa using hc
        simp only [hc, Bool.false_eq_true, if_false]
        by_cases hg : pn a > pv
        · simp only [hg, if_true]
          rcases Nat.le_total init (ll a) with g | g
          · rw [Nat.min_eq_left g]; exact Or.inl rfl
          · rw [Nat.min_eq_right g]; exact Or.inr (Or.inr ⟨a, List.mem_cons_self, haF, hg, rfl⟩)
        · simp only [hg, if_false]
          rcases Nat.le_total init (pn a) with g | g
          · rw [Nat.min_eq_left g]; exact Or.inl rfl
          · rw [Nat.min_eq_right g]; exact Or.inr (Or.inl ⟨a, List.mem_cons_self, haF, by omega, rfl⟩)
    · obtain ⟨w, hw, h1, h2, h3⟩ := h
      exact Or.inr (Or.inl ⟨w, List.mem_cons_of_mem _ hw, h1, h2, h3⟩)
    · obtain ⟨w, hw, h1, h2, h3⟩ := h
      exact Or.inr (Or.inr ⟨w, List.mem_cons_of_mem _ hw, h1, h2, h3⟩)

/-! ### the pop loop -/

theorem popLoop_zero (pv : Nat) (st : SccState) (q scc : List Nat) :
    sccStep.popLoop pv st 0 q scc = (q, scc) := by
  unfold sccStep.popLoop
  rfl

theorem popLoop_succ (pv : Nat) (st : SccState) (fuel : Nat) (q scc : List Nat) :
    sccStep.popLoop pv st (fuel + 1) q scc =
      match q.getLast? with
      | some k => if pnOf st k > pv then sccStep.popLoop pv st fuel q.dropLast (sinsert scc k) else (q, scc)
      | none => (q, scc) := by
  conv => lhs; unfold sccStep.popLoop
  cases h : q.getLast? with
  | none => rfl
  | some k => rfl

theorem popLoop_spec (pv : Nat) (st : SccState) :
    ∀ (fuel : Nat) (q scc : List Nat), q.length < fuel →
      q.Pairwise (fun a b => pv < pnOf st a → pv < pnOf st b) →
      (sccStep.popLoop pv st fuel q scc).1.Sublist q ∧
      (∀ x, x ∈ (sccStep.popLoop pv st fuel q scc).1 ↔ x ∈ q ∧ pnOf st x ≤ pv) ∧
      (∀ x, x ∈ (sccStep.popLoop pv st fuel q scc).2 ↔ x ∈ scc ∨ (x ∈ q ∧ pv < pnOf st x)) ∧
      (scc.Nodup → (sccStep.popLoop pv st fuel q scc).2.Nodup) := by
  intro fuel
  induction fuel with
  | zero => intro q scc hlen; omega
  | succ fuel ih =>
    intro q scc hlen hpw
    rw [popLoop_succ]
    cases hk : q.getLast? with
    | none =>
      have : q = [] := List.getLast?_eq_none_iff.1 hk
      subst this
      simp
    | some k =>
      have hq : q.dropLast ++ [k] = q := List.dropLast_append_getLast? k (by rw [hk]; rfl)
      have hmem : ∀ x, x ∈ q ↔ x ∈ q.dropLast ∨ x = k := by
        intro x
        rw [← hq]
        simp
      simp only
      by_cases hg : pnOf st k > pv
      · rw [if_pos hg]
        have hlen' : q.dropLast.length < fuel := by
          have := congrArg List.length hq
          rw [List.length_append, List.length_singleton] at this
          omega
        obtain ⟨g1, g2, g3, g4⟩ := ih q.dropLast (sinsert scc k) hlen' (hpw.sublist (List.dropLast_sublist q))
        refine ⟨g1.trans (List.dropLast_sublist q), ?_, ?_, ?_⟩
        · intro x
          rw [g2 x, hmem x]
          constructor
          · rintro ⟨h1, h2⟩; exact ⟨Or.inl h1, h2⟩
          · rintro ⟨h1 | h1, h2⟩
            · exact ⟨h1, h2⟩
            · subst h1; omega
        · intro x
          rw [g3 x, mem_sinsert, hmem x]
          constructor
          · rintro ((h1 | h1) | ⟨h1, h2⟩)
            · exact Or.inl h1
            · subst h1; exact Or.inr ⟨Or.inr rfl, hg⟩
            · exact Or.inr ⟨Or.inl h1, h2⟩
          · rintro (h1 | ⟨h1 | h1, h2⟩)
            · exact Or.inl (Or.inl h1)
            · exact Or.inr ⟨h1, h2⟩
            · exact Or.inl (Or.inr h1)
        · intro hnd
          exact g4 (nodup_sinsert scc k hnd)
      · rw [if_neg hg]
        have hall : ∀ x ∈ q, pnOf st x ≤ pv := by
          intro x hx
          rcases (hmem x).1 hx with h1 | h1
          · rw [← hq, List.pairwise_append] at hpw
            have := hpw.2.2 x h1 k (by simp)
            omega
          · subst h1; omega
        refine ⟨List.Sublist.refl _, ?_, ?_, fun hnd => hnd⟩
        · intro x
          exact ⟨fun hx => ⟨hx, hall x hx⟩, fun hx => hx.1⟩
        · intro x
          constructor
          · exact Or.inl
          · rintro (h1 | ⟨h1, h2⟩)
            · exact h1
            · have := hall x h1; omega

/-! ### the concrete invariant -/

structure CInv (V : List Nat) (nbrs : Nat → List Nat) (st : SccState) (Q : List Nat) : Prop where
  a : AInv V nbrs (pnOf st) (llOf st) st.sccFound st.sccQueue st.components st.i Q
  preNZ : ∀ x p, alookup st.preorder x = some p → p ≠ 0

theorem CInv.isNone_iff {V nbrs st Q} (h : CInv V nbrs st Q) (x : Nat) :
    (alookup st.preorder x).isNone = true ↔ pnOf st x = 0 := by
  cases hx : alookup st.preorder x with
  | none => simp [pnOf, hx]
  | some p =>
    have := h.preNZ x p hx
    simp [pnOf, hx, this]

theorem CInv.init (V : List Nat) (nbrs : Nat → List Nat) : CInv V nbrs {} [] := by
  refine ⟨?_, ?_⟩
  · exact AInv.init V nbrs
  · intro x p hx
    cases hx

/-! ### the fuel measure -/

def unvis (V : List Nat) (pn : Nat → Nat) : Nat := (V.filter (fun x => pn x == 0)).length

theorem unvis_cons (a : Nat) (V : List Nat) (pn : Nat → Nat) :
    unvis (a :: V) pn = (if pn a = 0 then 1 else 0) + unvis V pn := by
  unfold unvis
  by_cases h : pn a = 0
  · simp [h]; omega
  · simp [h]

theorem unvis_le_length (V : List Nat) (pn : Nat → Nat) : unvis V pn ≤ V.length :=
  List.length_filter_le _ _

theorem unvis_upd_le (V : List Nat) (pn : Nat → Nat) (v k : Nat) (hk : k ≠ 0) :
    unvis V (upd pn v k) ≤ unvis V pn := by
  induction V with
  | nil => simp [unvis]
  | cons a V ih =>
    rw [unvis_cons, unvis_cons]
    by_cases e : a = v
    · subst e
      rw [upd_same]
      simp only [hk, if_false]
      omega
    · rw [upd_ne _ _ _ e]
      omega

theorem unvis_upd_lt (V : List Nat) (pn : Nat → Nat) (v k : Nat) (hk : k ≠ 0) (hv : v ∈ V) (h0 : pn v = 0) :
    unvis V (upd pn v k) + 1 ≤ unvis V pn := by
  induction V with
  | nil => cases hv
  | cons a V ih =>
    rw [unvis_cons, unvis_cons]
    by_cases e : a = v
    · subst e
      rw [upd_same]
      have := unvis_upd_le V pn a k hk
      simp only [hk, h0, if_false, if_true]
      omega
    · rw [upd_ne _ _ _ e]
      have hv' : v ∈ V := by
        rcases List.mem_cons.1 hv with e' | hv'
        · exact absurd e'.symm e
        · exact hv'
      have := ih hv'
      omega

theorem unvis_pos (V : List Nat) (pn : Nat → Nat) (v : Nat) (hv : v ∈ V) (h0 : pn v = 0) : 1 ≤ unvis V pn := by
  unfold unvis
  apply List.length_pos_of_mem (a := v)
  simp [hv, h0]

def mu (V : List Nat) (pn : Nat → Nat) (Q : List Nat) : Nat :=
  2 * unvis V pn + Q.length - (match Q with | [] => 0 | v :: _ => if pn v = 0 then 2 else 0)

theorem mu_le (V : List Nat) (pn : Nat → Nat) (Q : List Nat) : mu V pn Q ≤ 2 * unvis V pn + Q.length :=
  Nat.sub_le _ _

theorem mu_cons (V : List Nat) (pn : Nat → Nat) (v : Nat) (r : List Nat) :
    mu V pn (v :: r) = 2 * unvis V pn + (r.length + 1) - (if pn v = 0 then 2 else 0) := rfl

theorem CInv.mu_pos {V nbrs st v rest} (h : CInv V nbrs st (v :: rest)) : 0 < mu V (pnOf st) (v :: rest) := by
  rw [mu_cons]
  by_cases h0 : pnOf st v = 0
  · have := unvis_pos V (pnOf st) v (h.a.qV v List.mem_cons_self) h0
    simp only [h0, if_true]
    omega
  · simp only [h0, if_false]
    omega

/-! ### the visit micro-step -/

theorem visit_ok {V : List Nat} {nbrs : Nat → List Nat} {st : SccState} {v : Nat} {rest : List Nat}
    (h : CInv V nbrs st (v :: rest)) :
    CInv V nbrs (visitSt st v) (v :: rest) ∧ pnOf (visitSt st v) v ≠ 0 ∧
    (∀ x, pnOf st x ≠ 0 → pnOf (visitSt st v) x ≠ 0) ∧
    unvis V (pnOf (visitSt st v)) + (if pnOf st v = 0 then 1 else 0) ≤ unvis V (pnOf st) := by
  by_cases h0 : pnOf st v = 0
  · have hn : (alookup st.preorder v).isNone = true := (h.isNone_iff v).2 h0
    have hst : visitSt st v = { st with i := st.i + 1, preorder := ainsert st.preorder v (st.i + 1) } := by
      unfold visitSt; rw [if_pos hn]
    have hpn : pnOf { st with i := st.i + 1, preorder := ainsert st.preorder v (st.i + 1) } =
        upd (pnOf st) v (st.i + 1) := by
      funext x
      show (alookup (ainsert st.preorder v (st.i + 1)) x).getD 0 = upd (pnOf st) v (st.i + 1) x
      rw [alookup_ainsert]
      by_cases e : v = x
      · subst e; rw [if_pos rfl, upd_same]; rfl
      · rw [if_neg e, upd_ne _ _ _ (fun e' => e e'.symm)]; rfl
    rw [hst]
    refine ⟨⟨?_, ?_⟩, ?_, ?_, ?_⟩
    · have := h.a.visit h0
      show AInv V nbrs (pnOf { st with i := st.i + 1, preorder := ainsert st.preorder v (st.i + 1) }) (llOf st)
        st.sccFound st.sccQueue st.components (st.i + 1) (v :: rest)
      rw [hpn]
      exact this
    · intro x p hx
      have hx' : alookup (ainsert st.preorder v (st.i + 1)) x = some p := hx
      rw [alookup_ainsert] at hx'
      by_cases e : v = x
      · rw [if_pos e] at hx'
        cases hx'
        omega
      · rw [if_neg e] at hx'
        exact h.preNZ x p hx'
    · rw [hpn, upd_same]; omega
    · intro x hx
      rw [hpn]
      have : x ≠ v := by intro e; subst e; exact hx h0
      rw [upd_ne _ _ _ this]
      exact hx
    · rw [hpn]
      simp only [h0, if_true]
      exact unvis_upd_lt V (pnOf st) v (st.i + 1) (by omega) (h.a.qV v List.mem_cons_self) h0
  · have hn : ¬ (alookup st.preorder v).isNone = true := fun hn => h0 ((h.isNone_iff v).1 hn)
    have hst : visitSt st v = st := by
      unfold visitSt; rw [if_neg hn]
    rw [hst]
    refine ⟨h, h0, fun x hx => hx, ?_⟩
    simp only [h0, if_false]
    omega

/-! ### the rest of the step -/

theorem afterVisit_ok {V : List Nat} {nbrs : Nat → List Nat} (hcl : ∀ x ∈ V, ∀ w ∈ nbrs x, w ∈ V)
    {st : SccState} {v : Nat} {rest : List Nat}
    (h : CInv V nbrs st (v :: rest)) (hv : pnOf st v ≠ 0) :
    ∃ st' Q', afterVisit nbrs st v rest = some (st', Q') ∧ CInv V nbrs st' Q' ∧ pnOf st' = pnOf st ∧
      ((∃ w, Q' = w :: v :: rest ∧ pnOf st w = 0) ∨ Q' = rest) := by
  unfold afterVisit
  cases hf : (nbrs v).find? (fun w => (alookup st.preorder w).isNone) with
  | some w =>
    have hw : w ∈ nbrs v := List.mem_of_find?_eq_some hf
    have hw0 : pnOf st w = 0 := (h.isNone_iff w).1 (List.find?_some (p := fun w => (alookup st.preorder w).isNone) hf)
    refine ⟨st, w :: v :: rest, rfl, ⟨?_, h.preNZ⟩, rfl, Or.inl ⟨w, rfl, hw0⟩⟩
    exact h.a.push hv w hw hw0 (hcl v (h.a.qV v List.mem_cons_self) w hw)
  | none =>
    have hall : ∀ w ∈ nbrs v, pnOf st w ≠ 0 := by
      intro w hw h0
      have := List.find?_eq_none.1 hf w hw
      exact this ((h.isNone_iff w).2 h0)
    cases hp : alookup st.preorder v with
    | none => exact absurd (by simp [pnOf, hp]) hv
    | some pv =>
      have hpv : pv = pnOf st v := by simp [pnOf, hp]
      subst hpv
      have hpre : ∀ w ∈ nbrs v, w ∉ st.sccFound → (alookup st.preorder w).isSome = true ∧
          (pnOf st v < pnOf st w → (alookup st.lowlink w).isSome = true) := by
        intro w hw hwF
        constructor
        · cases hq : alookup st.preorder w with
          | none => exact absurd (by simp [pnOf, hq]) (hall w hw)
          | some _ => rfl
        · intro hlt
          have hwS := h.a.gt_in_S hv (hall w hw) hwF hlt
          obtain ⟨x, _, h1, h2, _⟩ := h.a.sLow w hwS
          cases hq : alookup st.lowlink w with
          | none =>
            have : llOf st w = 0 := by simp [llOf, hq]
            omega
          | some _ => rfl
      simp only
      rw [llFold_eq st (pnOf st v) (nbrs v) (pnOf st v) hpre]
      simp only
      have L1 := llPure_le_init (pnOf st) (llOf st) st.sccFound (pnOf st v) (nbrs v) (pnOf st v)
      have L23 := llPure_le (pnOf st) (llOf st) st.sccFound (pnOf st v) (nbrs v) (pnOf st v)
      have L4 := llPure_attained (pnOf st) (llOf st) st.sccFound (pnOf st v) (nbrs v) (pnOf st v)
      generalize llPure (pnOf st) (llOf st) st.sccFound (pnOf st v) (nbrs v) (pnOf st v) = L at L1 L23 L4 ⊢
      have hll : ∀ (st' : SccState), st'.lowlink = ainsert st.lowlink v L → llOf st' = upd (llOf st) v L := by
        intro st' hst'
        funext x
        show (alookup st'.lowlink x).getD 0 = upd (llOf st) v L x
        rw [hst', alookup_ainsert]
        by_cases e : v = x
        · subst e; rw [if_pos rfl, upd_same]; rfl
        · rw [if_neg e, upd_ne _ _ _ (fun e' => e e'.symm)]; rfl
      by_cases hL : L = pnOf st v
      · have hb : (L == pnOf st v) = true := by simp [hL]
        rw [if_pos hb]
        have hspec := popLoop_spec (pnOf st v) { st with lowlink := ainsert st.lowlink v L }
          (st.sccQueue.length + 1) st.sccQueue [v] (by omega)
          (h.a.sSuffix.imp (fun hab hlt => hab v List.mem_cons_self hv hlt))
        obtain ⟨g1, g2, g3, g4⟩ := hspec
        refine ⟨_, rest, rfl, ⟨?_, h.preNZ⟩, rfl, Or.inr rfl⟩
        have := h.a.popR hv hall
          (fun w hw hwF hle => by have := (L23 w hw hwF).1 hle; omega)
          (fun w hw hwF hlt => by have := (L23 w hw hwF).2 hlt; omega)
          L _ _ (sunion st.sccFound
            (sccStep.popLoop (pnOf st v) { st with lowlink := ainsert st.lowlink v L }
              (st.sccQueue.length + 1) st.sccQueue [v]).2)
          g2 g1
          (fun x => by
            rw [g3 x, List.mem_singleton]
            exact Iff.rfl)
          (g4 (by simp))
          (fun x => mem_sunion _ _ x)
        rw [hll _ (by rfl)]
        exact this
      · have hb : ¬ (L == pnOf st v) = true := by simpa using hL
        rw [if_neg hb]
        refine ⟨_, rest, rfl, ⟨?_, h.preNZ⟩, rfl, Or.inr rfl⟩
        have := h.a.popNR hv hall L L1 (fun w hw hwF => (L23 w hw hwF).1) (fun w hw hwF => (L23 w hw hwF).2) L4 hL
        rw [hll _ (by rfl)]
        exact this

/-- **one iteration of the loop**: no panic, the invariant is preserved, the measure decreases -/
theorem step_ok {V : List Nat} {nbrs : Nat → List Nat} (hcl : ∀ x ∈ V, ∀ w ∈ nbrs x, w ∈ V)
    {st : SccState} {v : Nat} {rest : List Nat} (h : CInv V nbrs st (v :: rest)) :
    ∃ st' Q', sccStep nbrs st (v :: rest) = some (st', Q') ∧ CInv V nbrs st' Q' ∧
      mu V (pnOf st') Q' < mu V (pnOf st) (v :: rest) ∧
      (∀ x, (x ∈ v :: rest ∨ pnOf st x ≠ 0) → pnOf st' x ≠ 0) := by
  obtain ⟨h1, hv1, hmono, hU⟩ := visit_ok h
  obtain ⟨st', Q', hstep, hinv, hpn, hQ⟩ := afterVisit_ok hcl h1 hv1
  refine ⟨st', Q', by rw [sccStep_cons]; exact hstep, hinv, ?_, ?_⟩
  · rw [hpn, mu_cons]
    rcases hQ with ⟨w, hQ', hw0⟩ | hQ'
    · rw [hQ', mu_cons]
      simp only [hw0, if_true, List.length_cons]
      by_cases h0 : pnOf st v = 0
      · simp only [h0, if_true] at hU ⊢
        omega
      · simp only [h0, if_false] at hU ⊢
        omega
    · rw [hQ']
      have := mu_le V (pnOf (visitSt st v)) rest
      by_cases h0 : pnOf st v = 0
      · simp only [h0, if_true] at hU ⊢
        omega
      · simp only [h0, if_false] at hU ⊢
        omega
  · intro x hx
    rw [hpn]
    rcases hx with hx | hx
    · rcases List.mem_cons.1 hx with rfl | hx
      · exact hv1
      · exact hmono x (h.a.rest_vis x hx)
    · exact hmono x hx

theorem sccRun_zero (nbrs : Nat → List Nat) (st : SccState) (Q : List Nat) : sccRun nbrs 0 st Q = some st := by
  unfold sccRun; rfl

theorem sccRun_succ (nbrs : Nat → List Nat) (fuel : Nat) (st : SccState) (Q : List Nat) :
    sccRun nbrs (fuel + 1) st Q =
      if Q.isEmpty then some st
      else match sccStep nbrs st Q with
        | none => none
        | some (st, q) => sccRun nbrs fuel st q := by
  conv => lhs; unfold sccRun
  rfl

/-- **a whole run**: with enough fuel the DFS stack is emptied, without panic -/
theorem run_ok {V : List Nat} {nbrs : Nat → List Nat} (hcl : ∀ x ∈ V, ∀ w ∈ nbrs x, w ∈ V) :
    ∀ (fuel : Nat) (st : SccState) (Q : List Nat), CInv V nbrs st Q → mu V (pnOf st) Q ≤ fuel →
      ∃ st', sccRun nbrs fuel st Q = some st' ∧ CInv V nbrs st' [] ∧
        (∀ x, (x ∈ Q ∨ pnOf st x ≠ 0) → pnOf st' x ≠ 0) := by
  intro fuel
  induction fuel with
  | zero =>
    intro st Q h hmu
    cases Q with
    | nil =>
      refine ⟨st, sccRun_zero _ _ _, h, ?_⟩
      intro x hx
      rcases hx with hx | hx
      · cases hx
      · exact hx
    | cons v rest =>
      have := h.mu_pos
      omega
  | succ fuel ih =>
    intro st Q h hmu
    rw [sccRun_succ]
    cases Q with
    | nil =>
      refine ⟨st, rfl, h, ?_⟩
      intro x hx
      rcases hx with hx | hx
      · cases hx
      · exact hx
    | cons v rest =>
      obtain ⟨st1, Q1, hstep, hinv, hlt, hvis⟩ := step_ok hcl h
      have hne : (v :: rest).isEmpty = false := rfl
      rw [hne, hstep]
      simp only [Bool.false_eq_true, if_false]
      obtain ⟨st', hrun, hinv', hvis'⟩ := ih st1 Q1 hinv (by omega)
      exact ⟨st', hrun, hinv', fun x hx => hvis' x (Or.inr (hvis x hx))⟩

/-- **the fold over the sources** -/
theorem sources_ok {V : List Nat} {nbrs : Nat → List Nat} (hcl : ∀ x ∈ V, ∀ w ∈ nbrs x, w ∈ V)
    (fuelN : Nat) (hfuel : 2 * V.length + 1 ≤ fuelN)
    (G : Option SccState → Nat → Option SccState)
    (hG : ∀ st src, G (some st) src = if st.sccFound.contains src then some st else sccRun nbrs fuelN st [src]) :
    ∀ (l : List Nat), (∀ x ∈ l, x ∈ V) → ∀ (st : SccState), CInv V nbrs st [] →
      ∃ st', l.foldl G (some st) = some st' ∧ CInv V nbrs st' [] ∧
        (∀ x, pnOf st x ≠ 0 → pnOf st' x ≠ 0) ∧ ∀ x ∈ l, x ∈ st'.sccFound := by
  intro l
  induction l with
  | nil =>
    intro _ st h
    exact ⟨st, rfl, h, fun x hx => hx, by intro x hx; cases hx⟩
  | cons src l ih =>
    intro hl st h
    have hsrcV : src ∈ V := hl src List.mem_cons_self
    have hlV : ∀ x ∈ l, x ∈ V := fun x hx => hl x (List.mem_cons_of_mem _ hx)
    rw [List.foldl_cons, hG]
    by_cases hc : st.sccFound.contains src = true
    · rw [if_pos hc]
      obtain ⟨st', hf, hinv, hmono, hfound⟩ := ih hlV st h
      refine ⟨st', hf, hinv, hmono, ?_⟩
      intro x hx
      rcases List.mem_cons.1 hx with rfl | hx
      · have hxF : x ∈ st.sccFound := by simpa using hc
        exact (hinv.a.vis_iff_found x).1 (hmono x (h.a.fVis x hxF))
      · exact hfound x hx
    · rw [if_neg hc]
      have hsrcF : src ∉ st.sccFound := by simpa using hc
      obtain ⟨hstart, hsrc0⟩ := h.a.start src hsrcV hsrcF
      have hmu : mu V (pnOf st) [src] ≤ fuelN := by
        have := mu_le V (pnOf st) [src]
        have := unvis_le_length V (pnOf st)
        simp only [List.length_singleton] at *
        rw [mu_cons]
        simp only [hsrc0, if_true, List.length_nil]
        omega
      obtain ⟨st1, hrun, hinv1, hvis1⟩ := run_ok hcl fuelN st [src] ⟨hstart, h.preNZ⟩ hmu
      rw [hrun]
      obtain ⟨st', hf, hinv, hmono, hfound⟩ := ih hlV st1 hinv1
      refine ⟨st', hf, hinv, fun x hx => hmono x (hvis1 x (Or.inr hx)), ?_⟩
      intro x hx
      rcases List.mem_cons.1 hx with rfl | hx
      · exact (hinv.a.vis_iff_found x).1 (hmono x (hvis1 x (Or.inl List.mem_cons_self)))
      · exact hfound x hx

end Scc
end Graphrs
