/-
  Helper lemmas for C02: `add_node` / `add_edge` re-establish the adjacency-set clause.
-/
import GraphrsModel.Lemmas.C02Adj
namespace Graphrs
namespace C02
open Store

/-! ### field projections through the poisoning / traversal-list updates -/

@[simp] theorem poison_specs (s : Store) (site : String) : (s.poison site).specs = s.specs := by
  unfold Store.poison; split <;> rfl

@[simp] theorem poison_nodesMap (s : Store) (site : String) : (s.poison site).nodesMap = s.nodesMap := by
  unfold Store.poison; split <;> rfl

@[simp] theorem poison_nodesMapRev (s : Store) (site : String) : (s.poison site).nodesMapRev = s.nodesMapRev := by
  unfold Store.poison; split <;> rfl

@[simp] theorem poison_nodesVec (s : Store) (site : String) : (s.poison site).nodesVec = s.nodesVec := by
  unfold Store.poison; split <;> rfl

@[simp] theorem poison_edges (s : Store) (site : String) : (s.poison site).edges = s.edges := by
  unfold Store.poison; split <;> rfl

@[simp] theorem poison_edgesMap (s : Store) (site : String) : (s.poison site).edgesMap = s.edgesMap := by
  unfold Store.poison; split <;> rfl

@[simp] theorem poison_succ (s : Store) (site : String) : (s.poison site).succ = s.succ := by
  unfold Store.poison; split <;> rfl

@[simp] theorem poison_succMap (s : Store) (site : String) : (s.poison site).succMap = s.succMap := by
  unfold Store.poison; split <;> rfl

@[simp] theorem poison_pred (s : Store) (site : String) : (s.poison site).pred = s.pred := by
  unfold Store.poison; split <;> rfl

@[simp] theorem poison_predMap (s : Store) (site : String) : (s.poison site).predMap = s.predMap := by
  unfold Store.poison; split <;> rfl

@[simp] theorem poison_succVec (s : Store) (site : String) : (s.poison site).succVec = s.succVec := by
  unfold Store.poison; split <;> rfl

@[simp] theorem poison_predVec (s : Store) (site : String) : (s.poison site).predVec = s.predVec := by
  unfold Store.poison; split <;> rfl

@[simp] theorem adjSucc_specs (s : Store) (a b : Nat) (w : W) (u : AdjUpd) : (s.adjSucc a b w u).specs = s.specs := by
  unfold Store.adjSucc; split
  · rfl
  · exact poison_specs _ _

@[simp] theorem adjSucc_nodesMap (s : Store) (a b : Nat) (w : W) (u : AdjUpd) : (s.adjSucc a b w u).nodesMap = s.nodesMap := by
  unfold Store.adjSucc; split
  · rfl
  · exact poison_nodesMap _ _

@[simp] theorem adjSucc_nodesMapRev (s : Store) (a b : Nat) (w : W) (u : AdjUpd) : (s.adjSucc a b w u).nodesMapRev = s.nodesMapRev := by
  unfold Store.adjSucc; split
  · rfl
  · exact poison_nodesMapRev _ _

@[simp] theorem adjSucc_nodesVec (s : Store) (a b : Nat) (w : W) (u : AdjUpd) : (s.adjSucc a b w u).nodesVec = s.nodesVec := by
  unfold Store.adjSucc; split
  · rfl
  · exact poison_nodesVec _ _

@[simp] theorem adjSucc_edges (s : Store) (a b : Nat) (w : W) (u : AdjUpd) : (s.adjSucc a b w u).edges = s.edges := by
  unfold Store.adjSucc; split
  · rfl
  · exact poison_edges _ _

@[simp] theorem adjSucc_edgesMap (s : Store) (a b : Nat) (w : W) (u : AdjUpd) : (s.adjSucc a b w u).edgesMap = s.edgesMap := by
  unfold Store.adjSucc; split
  · rfl
  · exact poison_edgesMap _ _

@[simp] theorem adjSucc_succ (s : Store) (a b : Nat) (w : W) (u : AdjUpd) : (s.adjSucc a b w u).succ = s.succ := by
  unfold Store.adjSucc; split
  · rfl
  · exact poison_succ _ _

@[simp] theorem adjSucc_succMap (s : Store) (a b : Nat) (w : W) (u : AdjUpd) : (s.adjSucc a b w u).succMap = s.succMap := by
  unfold Store.adjSucc; split
  · rfl
  · exact poison_succMap _ _

@[simp] theorem adjSucc_pred (s : Store) (a b : Nat) (w : W) (u : AdjUpd) : (s.adjSucc a b w u).pred = s.pred := by
  unfold Store.adjSucc; split
  · rfl
  · exact poison_pred _ _

@[simp] theorem adjSucc_predMap (s : Store) (a b : Nat) (w : W) (u : AdjUpd) : (s.adjSucc a b w u).predMap = s.predMap := by
  unfold Store.adjSucc; split
  · rfl
  · exact poison_predMap _ _

@[simp] theorem adjSucc_predVec (s : Store) (a b : Nat) (w : W) (u : AdjUpd) : (s.adjSucc a b w u).predVec = s.predVec := by
  unfold Store.adjSucc; split
  · rfl
  · exact poison_predVec _ _

@[simp] theorem adjPred_specs (s : Store) (a b : Nat) (w : W) (u : AdjUpd) : (s.adjPred a b w u).specs = s.specs := by
  unfold Store.adjPred; split
  · rfl
  · exact poison_specs _ _

@[simp] theorem adjPred_nodesMap (s : Store) (a b : Nat) (w : W) (u : AdjUpd) : (s.adjPred a b w u).nodesMap = s.nodesMap := by
  unfold Store.adjPred; split
  · rfl
  · exact poison_nodesMap _ _

@[simp] theorem adjPred_nodesMapRev (s : Store) (a b : Nat) (w : W) (u : AdjUpd) : (s.adjPred a b w u).nodesMapRev = s.nodesMapRev := by
  unfold Store.adjPred; split
  · rfl
  · exact poison_nodesMapRev _ _

@[simp] theorem adjPred_nodesVec (s : Store) (a b : Nat) (w : W) (u : AdjUpd) : (s.adjPred a b w u).nodesVec = s.nodesVec := by
  unfold Store.adjPred; split
  · rfl
  · exact poison_nodesVec _ _

@[simp] theorem adjPred_edges (s : Store) (a b : Nat) (w : W) (u : AdjUpd) : (s.adjPred a b w u).edges = s.edges := by
  unfold Store.adjPred; split
  · rfl
  · exact poison_edges _ _

@[simp] theorem adjPred_edgesMap (s : Store) (a b : Nat) (w : W) (u : AdjUpd) : (s.adjPred a b w u).edgesMap = s.edgesMap := by
  unfold Store.adjPred; split
  · rfl
  · exact poison_edgesMap _ _

@[simp] theorem adjPred_succ (s : Store) (a b : Nat) (w : W) (u : AdjUpd) : (s.adjPred a b w u).succ = s.succ := by
  unfold Store.adjPred; split
  · rfl
  · exact poison_succ _ _

@[simp] theorem adjPred_succMap (s : Store) (a b : Nat) (w : W) (u : AdjUpd) : (s.adjPred a b w u).succMap = s.succMap := by
  unfold Store.adjPred; split
  · rfl
  · exact poison_succMap _ _

@[simp] theorem adjPred_pred (s : Store) (a b : Nat) (w : W) (u : AdjUpd) : (s.adjPred a b w u).pred = s.pred := by
  unfold Store.adjPred; split
  · rfl
  · exact poison_pred _ _

@[simp] theorem adjPred_predMap (s : Store) (a b : Nat) (w : W) (u : AdjUpd) : (s.adjPred a b w u).predMap = s.predMap := by
  unfold Store.adjPred; split
  · rfl
  · exact poison_predMap _ _

@[simp] theorem adjPred_succVec (s : Store) (a b : Nat) (w : W) (u : AdjUpd) : (s.adjPred a b w u).succVec = s.succVec := by
  unfold Store.adjPred; split
  · rfl
  · exact poison_succVec _ _

/-! ### decomposition of `add_edge` -/

/-- the state after the missing endpoints of `e` have been created -/
def pre (s : Store) (e : Edge) : Store :=
  let s := if !acontains s.nodesMap e.u then s.addNode ⟨e.u, none⟩ else s
  let s := if !acontains s.nodesMap e.v then s.addNode ⟨e.v, none⟩ else s
  s

/-- the part of `add_edge` after the node indexes have been looked up -/
def core (s : Store) (sp : Specs) (e : Edge) (ui vi : Nat) (already : Bool) : Store :=
        let upd : AdjUpd :=
          match already, sp.multi with
          | false, _ => .push
          | true, true => .keepMin
          | true, false => if sp.dedupe == .keepLast then .overwrite else .untouched
        let ordered := if sp.directed then e else e.ordered
        let (ou, ov) := if !sp.directed && ui > vi then (vi, ui) else (ui, vi)
        let s := { s with
          succ := amodify s.succ e.u [] (sinsert · e.v)
          succMap := amodify s.succMap ui [] (sinsert · vi) }
        let s := s.adjSucc ou ov e.w upd
        let s :=
          if sp.directed then
            let s := { s with
              pred := amodify s.pred e.v [] (sinsert · e.u)
              predMap := amodify s.predMap vi [] (sinsert · ui) }
            s.adjPred ov ou e.w upd
          else
            let s := { s with
              succ := amodify s.succ e.v [] (sinsert · e.u)
              succMap := amodify s.succMap vi [] (sinsert · ui) }
            s.adjSucc ov ou e.w upd
        -- add edge
        let s :=
          if sp.multi then
            { s with
              edges := amodify s.edges (ordered.u, ordered.v) [] (· ++ [ordered])
              edgesMap := amodify s.edgesMap (ou, ov) [] (· ++ [ordered]) }
          else if (s.edgesByIdx ou ov).isNone then
            { s with
              edges := ainsert s.edges (ordered.u, ordered.v) [ordered]
              edgesMap := ainsert s.edgesMap (ou, ov) [ordered] }
          else if sp.dedupe == .keepLast then
            { s with
              edges := ainsert s.edges (ordered.u, ordered.v) [ordered]
              edgesMap := ainsert s.edgesMap (ou, ov) [ordered] }
          else s
        s

theorem addEdge_eq (s : Store) (e : Edge) :
    s.addEdge e =
      if !s.specs.selfLoops && e.u == e.v then
        match s.specs.slFalse with
        | .error => (s, some .SelfLoopsFound)
        | .drop => (s, none)
      else if s.specs.missing == .error && (!acontains s.nodesMap e.u || !acontains s.nodesMap e.v) then
        (s, some .NodeNotFound)
      else
        match alookup (pre s e).nodesMap e.u, alookup (pre s e).nodesMap e.v with
        | some ui, some vi =>
          if s.specs.dedupe == .error && !s.specs.multi && ((pre s e).edgesByIdx ui vi).isSome then
            (pre s e, some .DuplicateEdge)
          else (core (pre s e) s.specs e ui vi ((pre s e).edgesByIdx ui vi).isSome, none)
        | _, _ => ((pre s e).poison "add_edge: nodes_map.get(..).unwrap()", none) := rfl

/-- the adjacency-set / traversal-list updates of `add_edge` -/
def addAdj (s : Store) (sp : Specs) (e : Edge) (ui vi : Nat) (upd : AdjUpd) (ou ov : Nat) : Store :=
        let s := { s with
          succ := amodify s.succ e.u [] (sinsert · e.v)
          succMap := amodify s.succMap ui [] (sinsert · vi) }
        let s := s.adjSucc ou ov e.w upd
        let s :=
          if sp.directed then
            let s := { s with
              pred := amodify s.pred e.v [] (sinsert · e.u)
              predMap := amodify s.predMap vi [] (sinsert · ui) }
            s.adjPred ov ou e.w upd
          else
            let s := { s with
              succ := amodify s.succ e.v [] (sinsert · e.u)
              succMap := amodify s.succMap vi [] (sinsert · ui) }
            s.adjSucc ov ou e.w upd
        s

/-- the edge-store update of `add_edge` -/
def addStore (s : Store) (sp : Specs) (ordered : Edge) (ou ov : Nat) : Store :=
          if sp.multi then
            { s with
              edges := amodify s.edges (ordered.u, ordered.v) [] (· ++ [ordered])
              edgesMap := amodify s.edgesMap (ou, ov) [] (· ++ [ordered]) }
          else if (s.edgesByIdx ou ov).isNone then
            { s with
              edges := ainsert s.edges (ordered.u, ordered.v) [ordered]
              edgesMap := ainsert s.edgesMap (ou, ov) [ordered] }
          else if sp.dedupe == .keepLast then
            { s with
              edges := ainsert s.edges (ordered.u, ordered.v) [ordered]
              edgesMap := ainsert s.edgesMap (ou, ov) [ordered] }
          else s

theorem core_eq (s : Store) (sp : Specs) (e : Edge) (ui vi : Nat) (al : Bool) :
    ∃ upd ou ov, (ou, ov) = (if !sp.directed && ui > vi then (vi, ui) else (ui, vi)) ∧
      core s sp e ui vi al =
        addStore (addAdj s sp e ui vi upd ou ov) sp (if sp.directed then e else e.ordered) ou ov := by
  unfold core
  by_cases hc : (!sp.directed && decide (ui > vi)) = true
  · simp only [hc, if_true]
    exact ⟨_, vi, ui, rfl, rfl⟩
  · simp only [hc]
    exact ⟨_, ui, vi, rfl, rfl⟩

theorem addAdj_fields (s : Store) (sp : Specs) (e : Edge) (ui vi : Nat) (upd : AdjUpd) (ou ov : Nat) :
    let t := addAdj s sp e ui vi upd ou ov
    t.specs = s.specs ∧ t.nodesVec = s.nodesVec ∧ t.nodesMap = s.nodesMap ∧ t.edges = s.edges ∧
    t.edgesMap = s.edgesMap ∧
    t.succ = (if sp.directed then amodify s.succ e.u [] (sinsert · e.v)
       else amodify (amodify s.succ e.u [] (sinsert · e.v)) e.v [] (sinsert · e.u)) ∧
    t.succMap = (if sp.directed then amodify s.succMap ui [] (sinsert · vi)
       else amodify (amodify s.succMap ui [] (sinsert · vi)) vi [] (sinsert · ui)) ∧
    t.pred = (if sp.directed then amodify s.pred e.v [] (sinsert · e.u) else s.pred) ∧
    t.predMap = (if sp.directed then amodify s.predMap vi [] (sinsert · ui) else s.predMap) := by
  unfold addAdj
  cases sp.directed <;> simp

theorem addStore_fields (s : Store) (sp : Specs) (o : Edge) (ou ov : Nat) :
    let t := addStore s sp o ou ov
    t.specs = s.specs ∧ t.nodesVec = s.nodesVec ∧ t.nodesMap = s.nodesMap ∧ t.succ = s.succ ∧
    t.succMap = s.succMap ∧ t.pred = s.pred ∧ t.predMap = s.predMap ∧
    (t.edges = amodify s.edges (o.u, o.v) [] (· ++ [o]) ∨
     t.edges = ainsert s.edges (o.u, o.v) [o] ∨
     (t.edges = s.edges ∧ t.edgesMap = s.edgesMap ∧ (s.edgesByIdx ou ov).isSome = true)) := by
  unfold addStore
  intro t
  by_cases h1 : sp.multi = true
  · simp [t, h1]
  · by_cases h2 : (s.edgesByIdx ou ov).isNone = true
    · simp [t, h1, h2]
    · by_cases h3 : (sp.dedupe == Dedupe.keepLast) = true
      · simp [t, h1, h2, h3]
      · have : (s.edgesByIdx ou ov).isSome = true := by
          cases h : s.edgesByIdx ou ov <;> simp_all
        simp [t, h1, h2, h3, this]

theorem edgesByIdx_canon (s : Store) (ui vi ou ov : Nat)
    (h : (ou, ov) = (if !s.specs.directed && ui > vi then (vi, ui) else (ui, vi))) :
    s.edgesByIdx ou ov = alookup s.edgesMap (idxKey s.specs.directed ui vi) := by
  unfold Store.edgesByIdx idxKey
  by_cases hc : (!s.specs.directed && decide (ui > vi)) = true
  · simp only [hc, if_true, Prod.mk.injEq] at h ⊢
    obtain ⟨rfl, rfl⟩ := h
    have : ¬ (!s.specs.directed && decide (ou > ov)) = true := by
      simp only [Bool.and_eq_true, decide_eq_true_eq, not_and] at hc ⊢
      intro _; omega
    simp [this]
  · simp only [hc] at h ⊢
    obtain ⟨rfl, rfl⟩ := h
    simp [hc]


end C02
end Graphrs
