/-
  Entry-level invariant of the traversal lists (`Store.rowsNodup`, `Store.entriesStored`): Prop-level form,
  the effect of one `add_to_adjacency_vec` call on it, and its preservation by `add_node` / `add_edge`.
-/
import GraphrsModel.Lemmas.C03Final
namespace Graphrs
namespace C03E
open Store C03

/-- every row names each neighbour at most once (own index excepted on undirected graphs) -/
def Nd (dir : Bool) (vec : AVec) : Prop :=
  ∀ (i : Nat) (row : List Adj), vec[i]? = some row → ((row.map (·.1)).filter (fun j => dir || j != i)).Nodup

/-- every entry carries one of the weights `wb` lists for the pair of names -/
def St (names : List Nat) (vec : AVec) (wb : Nat → Nat → List W) : Prop :=
  ∀ (i : Nat) (row : List Adj), vec[i]? = some row → ∀ a ∈ row, ∀ x y, names[i]? = some x → names[a.1]? = some y →
    a.2 ∈ wb x y

structure EntC (names : List Nat) (E : EMap) (dir : Bool) (sv pv : AVec) : Prop where
  nS : Nd dir sv
  nP : Nd dir pv
  sS : St names sv (wbC E dir)
  sP : St names pv (fun x y => wbC E dir y x)

def EntP (s : Store) : Prop := EntC s.names s.edges s.specs.directed s.succVec s.predVec

/-! ## Bool clauses against the Prop form -/

theorem filter_fst (row : List Adj) (dir : Bool) (i : Nat) :
    (row.filter (fun a => dir || a.1 != i)).map (·.1) = (row.map (·.1)).filter (fun j => dir || j != i) := by
  rw [List.filter_map]; rfl

theorem ndB_iff (dir : Bool) (vec : AVec) :
    (vec.zipIdx.all fun r => decide ((r.1.filter (fun a => dir || a.1 != r.2)).map (·.1)).Nodup) = true ↔
      Nd dir vec := by
  simp only [List.all_eq_true, decide_eq_true_eq]
  constructor
  · intro h i row hrow
    have := h (row, i) (List.mem_zipIdx_iff_getElem?.2 hrow)
    rw [← filter_fst]; exact this
  · intro h r hr
    obtain ⟨row, i⟩ := r
    have := h i row (List.mem_zipIdx_iff_getElem?.1 hr)
    rw [filter_fst] at *; exact this

theorem rowsNodup_iff (s : Store) :
    s.rowsNodup = true ↔ Nd s.specs.directed s.succVec ∧ Nd s.specs.directed s.predVec := by
  unfold Store.rowsNodup
  simp only [Bool.and_eq_true]
  rw [ndB_iff, ndB_iff]

def stB (names : List Nat) (vec : AVec) (wb : Nat → Nat → List W) : Bool :=
  vec.zipIdx.all fun r => r.1.all fun a =>
    match names[r.2]?, names[a.1]? with
    | some x, some y => (wb x y).contains a.2
    | _, _ => false

theorem entriesStored_eq (s : Store) :
    s.entriesStored = (stB s.names s.succVec (fun x y => s.weightsBetween x y) &&
      stB s.names s.predVec (fun x y => s.weightsBetween y x)) := rfl

theorem stB_iff (names : List Nat) (vec : AVec) (wb : Nat → Nat → List W) :
    stB names vec wb = true ↔ ∀ (i : Nat) (row : List Adj), vec[i]? = some row → ∀ a ∈ row,
      ∃ x y, names[i]? = some x ∧ names[a.1]? = some y ∧ a.2 ∈ wb x y := by
  simp only [stB, List.all_eq_true]
  constructor
  · intro h i row hrow a ha
    have := h (row, i) (List.mem_zipIdx_iff_getElem?.2 hrow) a ha
    simp only at this
    split at this
    · rename_i x y hx hy
      exact ⟨x, y, hx, hy, by simpa using this⟩
    · cases this
  · intro h r hr a ha
    obtain ⟨row, i⟩ := r
    obtain ⟨x, y, hx, hy, hm⟩ := h i row (List.mem_zipIdx_iff_getElem?.1 hr) a ha
    simp only [hx, hy]
    simpa using hm

theorem St_of_stB {names : List Nat} {vec : AVec} {wb : Nat → Nat → List W} (h : stB names vec wb = true) :
    St names vec wb := by
  rw [stB_iff] at h
  intro i row hrow a ha x y hx hy
  obtain ⟨x', y', hx', hy', hm⟩ := h i row hrow a ha
  rw [hx] at hx'; rw [hy] at hy'; cases hx'; cases hy'
  exact hm

theorem stB_of_St {names : List Nat} {vec : AVec} {wb : Nat → Nat → List W} (h : St names vec wb)
    (hlen : vec.length = names.length)
    (hbnd : ∀ (i : Nat) (row : List Adj), vec[i]? = some row → ∀ a ∈ row, a.1 < names.length) :
    stB names vec wb = true := by
  rw [stB_iff]
  intro i row hrow a ha
  have hi : i < names.length := by rw [← hlen]; exact lt_of_getElem? hrow
  have hj := hbnd i row hrow a ha
  exact ⟨names[i], names[a.1], List.getElem?_eq_getElem hi, List.getElem?_eq_getElem hj,
    h i row hrow a ha _ _ (List.getElem?_eq_getElem hi) (List.getElem?_eq_getElem hj)⟩

theorem entOk_parts (s : Store) :
    (s.rowsNodup && s.entriesStored) = true ↔ s.rowsNodup = true ∧ s.entriesStored = true := by
  simp

/-- the Bool clauses imply the Prop form -/
theorem entP_of_bool (s : Store) (h1 : s.rowsNodup = true) (h2 : s.entriesStored = true) : EntP s := by
  rw [rowsNodup_iff] at h1
  rw [entriesStored_eq, Bool.and_eq_true] at h2
  exact ⟨h1.1, h1.2, St_of_stB h2.1, St_of_stB h2.2⟩

/-- and back, given the index bounds that `vecOk` provides -/
theorem bool_of_entP (s : Store) (hv : PreV s) (h : EntP s) : s.rowsNodup = true ∧ s.entriesStored = true := by
  obtain ⟨vS, _, vP, _⟩ := hv
  refine ⟨(rowsNodup_iff s).2 ⟨h.nS, h.nP⟩, ?_⟩
  rw [entriesStored_eq, Bool.and_eq_true]
  exact ⟨stB_of_St h.sS vS.len vS.bnd, stB_of_St h.sP vP.len vP.bnd⟩

/-! ## one row update -/

theorem map_fst_keepMinRow (v : Nat) (w : W) (row : List Adj) :
    (keepMinRow v w row).map (·.1) = row.map (·.1) := by
  induction row with
  | nil => rfl
  | cons a r ih =>
    simp only [keepMinRow]
    by_cases ha : a.1 = v
    · simp only [ha, if_true]
      split <;> simp [ha]
    · simp only [ha, if_false, List.map_cons, ih]

theorem map_fst_updRow (row : List Adj) (v : Nat) (w : W) (upd : AdjUpd) :
    (updRow row v w upd).map (·.1) = if upd = .push then row.map (·.1) ++ [v] else row.map (·.1) := by
  cases upd with
  | push => simp [updRow]
  | keepMin => simp [updRow, map_fst_keepMinRow]
  | overwrite =>
    simp only [updRow, List.map_map]
    rw [if_neg (by decide)]
    apply List.map_congr_left
    intro a _
    simp only [Function.comp]
    split <;> rfl
  | untouched => simp [updRow]

theorem mem_keepMinRow (v : Nat) (w : W) (row : List Adj) (a : Adj) (ha : a ∈ keepMinRow v w row) :
    a ∈ row ∨ a = (v, w) := by
  induction row with
  | nil => simp [keepMinRow] at ha
  | cons b r ih =>
    simp only [keepMinRow] at ha
    by_cases hb : b.1 = v
    · simp only [hb, if_true] at ha
      split at ha
      · rcases List.mem_cons.1 ha with h | h
        · exact Or.inr h
        · exact Or.inl (List.mem_cons_of_mem _ h)
      · exact Or.inl ha
    · simp only [hb, if_false] at ha
      rcases List.mem_cons.1 ha with h | h
      · subst h; exact Or.inl (List.mem_cons_self ..)
      · rcases ih h with h' | h'
        · exact Or.inl (List.mem_cons_of_mem _ h')
        · exact Or.inr h'

/-- an entry of the updated row is an old entry (not one for `v` in the `overwrite` mode) or the new entry -/
theorem mem_updRow (row : List Adj) (v : Nat) (w : W) (upd : AdjUpd) (a : Adj) (ha : a ∈ updRow row v w upd) :
    (a ∈ row ∧ (upd = .overwrite → a.1 ≠ v)) ∨ (a = (v, w) ∧ upd ≠ .untouched) := by
  cases upd with
  | push =>
    simp only [updRow, List.mem_append, List.mem_singleton] at ha
    rcases ha with h | h
    · exact Or.inl ⟨h, by intro e; cases e⟩
    · exact Or.inr ⟨h, by intro e; cases e⟩
  | keepMin =>
    rcases mem_keepMinRow v w row a ha with h | h
    · exact Or.inl ⟨h, by intro e; cases e⟩
    · exact Or.inr ⟨h, by intro e; cases e⟩
  | overwrite =>
    simp only [updRow, List.mem_map] at ha
    obtain ⟨b, hb, e⟩ := ha
    by_cases hbv : b.1 = v
    · right
      refine ⟨?_, by intro e; cases e⟩
      rw [← e]; simp [hbv]
    · left
      have : a = b := by rw [← e]; simp [hbv]
      subst this
      exact ⟨hb, fun _ => hbv⟩
  | untouched => exact Or.inl ⟨ha, by intro e; cases e⟩

theorem Nd.update {dir : Bool} {vec : AVec} (h : Nd dir vec) {u : Nat} {row : List Adj}
    (hrow : vec[u]? = some row) (v : Nat) (w : W) (upd : AdjUpd)
    (hp : upd = .push → (dir = true ∨ v ≠ u) → ∀ a ∈ row, a.1 ≠ v) :
    Nd dir (vec.set u (updRow row v w upd)) := by
  intro i r hr
  rw [List.getElem?_set] at hr
  by_cases hiu : u = i
  · subst hiu
    simp only [if_true] at hr
    split at hr
    · cases hr
      rw [map_fst_updRow]
      have hold := h u row hrow
      by_cases hpush : upd = .push
      · rw [if_pos hpush, List.filter_append]
        by_cases hc : (dir || v != u) = true
        · have : [v].filter (fun j => dir || j != u) = [v] := by simp [List.filter, hc]
          rw [this, List.nodup_append]
          refine ⟨hold, by simp, ?_⟩
          intro a ha b hb
          simp only [List.mem_singleton] at hb
          subst hb
          intro e; subst e
          have hm := (List.mem_filter.1 ha).1
          obtain ⟨c, hc1, hc2⟩ := List.mem_map.1 hm
          refine hp hpush ?_ c hc1 hc2
          simpa using hc
        · have : [v].filter (fun j => dir || j != u) = [] := by simp [List.filter, hc]
          rw [this, List.append_nil]; exact hold
      · rw [if_neg hpush]; exact hold
    · cases hr
  · simp only [hiu, if_false] at hr
    exact h i r hr

theorem St.update {names : List Nat} {vec : AVec} {wb wb1 : Nat → Nat → List W} (h : St names vec wb)
    (hn : names.Nodup) {u v x0 y0 : Nat} (hu : names[u]? = some x0) (hv : names[v]? = some y0)
    {row : List Adj} (hrow : vec[u]? = some row) (w : W) (upd : AdjUpd)
    (h1 : ∀ x y, ¬ (x = x0 ∧ y = y0) → ∀ c ∈ wb x y, c ∈ wb1 x y)
    (h2 : upd ≠ .untouched → w ∈ wb1 x0 y0)
    (h3 : upd ≠ .overwrite → ∀ c ∈ wb x0 y0, c ∈ wb1 x0 y0) :
    St names (vec.set u (updRow row v w upd)) wb1 := by
  intro i r hr a ha x y hx hy
  rw [List.getElem?_set] at hr
  by_cases hiu : u = i
  · subst hiu
    simp only [if_true] at hr
    split at hr
    · cases hr
      rw [hu] at hx; cases hx
      rcases mem_updRow row v w upd a ha with ⟨hm, hov⟩ | ⟨he, hnu⟩
      · have hold := h u row hrow a hm x0 y hu hy
        by_cases hy0 : y = y0
        · subst hy0
          have hav : a.1 = v := names_inj hn hy hv
          exact h3 (fun e => hov e hav) _ hold
        · exact h1 x0 y (fun e => hy0 e.2) _ hold
      · subst he
        simp only at hy
        rw [hv] at hy; cases hy
        exact h2 hnu
    · cases hr
  · simp only [hiu, if_false] at hr
    have hold := h i r hr a ha x y hx hy
    refine h1 x y (fun e => hiu ?_) _ hold
    rw [e.1] at hx
    exact names_inj hn hu hx

/-- `adjUpdate` can only succeed by replacing row `u` by `updRow` -/
theorem adjUpdate_some (vec vec' : AVec) (u v : Nat) (w : W) (upd : AdjUpd)
    (h : adjUpdate vec u v w upd = some vec') :
    ∃ row, vec[u]? = some row ∧ vec' = vec.set u (updRow row v w upd) := by
  cases hrow : vec[u]? with
  | none => unfold adjUpdate at h; rw [hrow] at h; cases h
  | some row =>
    refine ⟨row, rfl, ?_⟩
    by_cases hex : ∃ a ∈ row, a.1 = v
    · rw [adjUpdate_spec vec u v w upd row hrow (fun _ => hex)] at h
      cases h; rfl
    · cases upd with
      | keepMin =>
        exfalso
        unfold adjUpdate at h
        rw [hrow] at h
        simp only at h
        have : row.findIdx? (fun a => a.1 == v) = none := by
          rw [List.findIdx?_eq_none_iff]
          intro a ha
          have : ¬ a.1 = v := fun e => hex ⟨a, ha, e⟩
          simpa using this
        rw [this] at h
        cases h
      | push =>
        rw [adjUpdate_spec vec u v w _ row hrow (fun e => by cases e)] at h; cases h; rfl
      | overwrite =>
        rw [adjUpdate_spec vec u v w _ row hrow (fun e => by cases e)] at h; cases h; rfl
      | untouched =>
        rw [adjUpdate_spec vec u v w _ row hrow (fun e => by cases e)] at h; cases h; rfl

/-- no stored edge between the two names: the row has no entry for `v` -/
theorem no_entry {names : List Nat} {vec : AVec} {f : Nat → Nat → Option W} (h : VecInv names vec f)
    {u v x0 y0 : Nat} (hu : names[u]? = some x0) (hv : names[v]? = some y0) (hf : f x0 y0 = none)
    {row : List Adj} (hrow : vec[u]? = some row) : ∀ a ∈ row, a.1 ≠ v := by
  intro a ha hav
  have h1 := h.val u v x0 y0 hu hv
  rw [hf] at h1
  have h2 : rowMin vec u v = Abs.minW (wts row v) := by simp [rowMin, hrow]
  rw [h2, minW_eq_none] at h1
  exact (wts_ne_nil_iff row v).2 ⟨a, ha, hav⟩ h1

/-! ## the new edge store, weight lists -/

theorem wbC_new_ne (sp : Specs) (E : EMap) (already : Bool) (o : Edge) (key : Nat × Nat) (dir : Bool) (x y : Nat)
    (hk : nameKey dir x y ≠ key) : wbC (newEdges sp E already o key) dir x y = wbC E dir x y := by
  unfold wbC; rw [alookup_newEdges_ne _ _ _ _ _ _ hk]

theorem wbC_new_w (sp : Specs) (E : EMap) (already : Bool) (o : Edge) (key : Nat × Nat) (dir : Bool) (x y : Nat)
    (hk : nameKey dir x y = key) (hu : updOf already sp ≠ .untouched) :
    o.w ∈ wbC (newEdges sp E already o key) dir x y := by
  unfold wbC
  rw [hk]
  cases hm : sp.multi with
  | true => simp [newEdges, hm, alookup_amodify]
  | false =>
    cases already with
    | false => simp [newEdges, hm, alookup_ainsert]
    | true =>
      rw [updOf_true_single _ hm] at hu
      by_cases hkl : (sp.dedupe == Dedupe.keepLast) = true
      · simp [newEdges, hm, hkl, alookup_ainsert]
      · rw [if_neg hkl] at hu; exact absurd rfl hu

theorem wbC_new_sub (sp : Specs) (E : EMap) (already : Bool) (o : Edge) (key : Nat × Nat) (dir : Bool) (x y : Nat)
    (hal : already = (alookup E key).isSome) (hk : nameKey dir x y = key) (hu : updOf already sp ≠ .overwrite) :
    ∀ c ∈ wbC E dir x y, c ∈ wbC (newEdges sp E already o key) dir x y := by
  intro c hc
  unfold wbC at hc ⊢
  rw [hk] at hc ⊢
  cases hm : sp.multi with
  | true =>
    simp only [newEdges, hm, if_true, alookup_amodify, Option.getD_some, List.map_append, List.mem_append]
    exact Or.inl hc
  | false =>
    cases already with
    | false =>
      cases hl : alookup E key with
      | none => rw [hl] at hc; simp at hc
      | some l => rw [hl] at hal; cases hal
    | true =>
      rw [updOf_true_single _ hm] at hu
      by_cases hkl : (sp.dedupe == Dedupe.keepLast) = true
      · rw [if_pos hkl] at hu; exact absurd rfl hu
      · simp only [newEdges, hm, hkl, Bool.not_true, Bool.false_eq_true, if_false]
        exact hc

/-! ## directed graphs -/

theorem ent_dir {names : List Nat} {nm : List (Nat × Nat)} {E EM : EMap} {sv : AVec} {sm : SMap}
    {pv : AVec} {pm : SMap} (h : PreC names nm E EM true sv sm pv pm) (he : EntC names E true sv pv)
    {ui vi xu xv : Nat} (hxu : names[ui]? = some xu) (hxv : names[vi]? = some xv)
    (sp : Specs) (o : Edge) (already : Bool) (hal : already = (alookup E (xu, xv)).isSome)
    (E' : EMap) (hE' : E' = newEdges sp E already o (xu, xv)) (sv1 pv1 : AVec)
    (h1 : adjUpdate sv ui vi o.w (updOf already sp) = some sv1)
    (h2 : adjUpdate pv vi ui o.w (updOf already sp) = some pv1) :
    EntC names E' true sv1 pv1 := by
  have hne : ∀ k l, alookup E k = some l → l ≠ [] := fun k l hl => (h.ebE k l hl).2.2
  obtain ⟨rowS, hrowS, rfl⟩ := adjUpdate_some _ _ _ _ _ _ h1
  obtain ⟨rowP, hrowP, rfl⟩ := adjUpdate_some _ _ _ _ _ _ h2
  have hnone : updOf already sp = .push → fS E true xu xv = none := by
    intro hp
    have ha := updOf_push _ _ hp
    have hs := fS_isSome E true xu xv hne
    rw [nameKey_dir, ← hal, ha] at hs
    cases hf : fS E true xu xv with
    | none => rfl
    | some v => rw [hf] at hs; cases hs
  subst hE'
  refine ⟨?_, ?_, ?_, ?_⟩
  · exact he.nS.update hrowS vi o.w _ (fun hp _ => no_entry h.vS hxu hxv (hnone hp) hrowS)
  · refine he.nP.update hrowP ui o.w _ (fun hp _ => no_entry h.vP hxv hxu ?_ hrowP)
    rw [fP_true]; exact hnone hp
  · refine he.sS.update h.nodup hxu hxv hrowS o.w _ ?_ ?_ ?_
    · intro x y hxy c hc
      rw [wbC_new_ne]
      · exact hc
      · rw [nameKey_dir]; intro e; cases e; exact hxy ⟨rfl, rfl⟩
    · intro hu
      exact wbC_new_w _ _ _ _ _ _ _ _ (nameKey_dir _ _) hu
    · intro hu
      exact wbC_new_sub _ _ _ _ _ _ _ _ hal (nameKey_dir _ _) hu
  · refine he.sP.update h.nodup hxv hxu hrowP o.w _ ?_ ?_ ?_
    · intro x y hxy c hc
      rw [wbC_new_ne]
      · exact hc
      · rw [nameKey_dir]; intro e; cases e; exact hxy ⟨rfl, rfl⟩
    · intro hu
      exact wbC_new_w _ _ _ _ _ _ _ _ (nameKey_dir _ _) hu
    · intro hu
      exact wbC_new_sub _ _ _ _ _ _ _ _ hal (nameKey_dir _ _) hu

/-! ## undirected graphs -/

theorem ent_undir {names : List Nat} {nm : List (Nat × Nat)} {E EM : EMap} {sv : AVec} {sm : SMap}
    {pv : AVec} {pm : SMap} (h : PreC names nm E EM false sv sm pv pm) (he : EntC names E false sv pv)
    {ui vi ou ov xu xv x0 y0 : Nat} (_hxu : names[ui]? = some xu) (_hxv : names[vi]? = some xv)
    (hou : names[ou]? = some x0) (hov : names[ov]? = some y0)
    (hxy : (x0 = xu ∧ y0 = xv) ∨ (x0 = xv ∧ y0 = xu))
    (sp : Specs) (o : Edge) (already : Bool)
    (hal : already = (alookup E (nameKey false xu xv)).isSome)
    (E' : EMap) (hE' : E' = newEdges sp E already o (nameKey false xu xv)) (sv1 sv2 : AVec)
    (h1 : adjUpdate sv ou ov o.w (updOf already sp) = some sv1)
    (h2 : adjUpdate sv1 ov ou o.w (updOf already sp) = some sv2) :
    EntC names E' false sv2 pv := by
  have hne : ∀ k l, alookup E k = some l → l ≠ [] := fun k l hl => (h.ebE k l hl).2.2
  have hkey : nameKey false x0 y0 = nameKey false xu xv := by
    rcases hxy with ⟨rfl, rfl⟩ | ⟨rfl, rfl⟩
    · rfl
    · exact nameKey_symm _ _
  have hkey' : nameKey false y0 x0 = nameKey false xu xv := by rw [nameKey_symm]; exact hkey
  obtain ⟨row1, hrow1, rfl⟩ := adjUpdate_some _ _ _ _ _ _ h1
  obtain ⟨row2, hrow2, rfl⟩ := adjUpdate_some _ _ _ _ _ _ h2
  have hnone : updOf already sp = .push → fS E false x0 y0 = none := by
    intro hp
    have ha := updOf_push _ _ hp
    have hs := fS_isSome E false x0 y0 hne
    rw [hkey, ← hal, ha] at hs
    cases hf : fS E false x0 y0 with
    | none => rfl
    | some v => rw [hf] at hs; cases hs
  subst hE'
  -- the first update
  have hN1 : Nd false (sv.set ou (updRow row1 ov o.w (updOf already sp))) :=
    he.nS.update hrow1 ov o.w _ (fun hp _ => no_entry h.vS hou hov (hnone hp) hrow1)
  have hS1 : St names (sv.set ou (updRow row1 ov o.w (updOf already sp)))
      (fun x y => if x = x0 ∧ y = y0 then
        wbC (newEdges sp E already o (nameKey false xu xv)) false x y else wbC E false x y) := by
    refine he.sS.update h.nodup hou hov hrow1 o.w _ ?_ ?_ ?_
    · intro x y hc c hcm
      simp only [hc, if_false]; exact hcm
    · intro hu
      simp only [and_self, if_true]
      exact wbC_new_w _ _ _ _ _ _ _ _ hkey hu
    · intro hu
      simp only [and_self, if_true]
      exact wbC_new_sub _ _ _ _ _ _ _ _ hal hkey hu
  refine ⟨?_, ?_, ?_, ?_⟩
  · refine hN1.update hrow2 ou o.w _ ?_
    intro hp hor
    have hne' : ou ≠ ov := by
      rcases hor with hc | hc
      · cases hc
      · exact hc
    have hrow2' : sv[ov]? = some row2 := by
      rw [List.getElem?_set_ne hne'] at hrow2; exact hrow2
    refine no_entry h.vS hov hou ?_ hrow2'
    rw [fS_symm]; exact hnone hp
  · exact he.nP
  · refine hS1.update h.nodup hov hou hrow2 o.w _ ?_ ?_ ?_
    · intro x y hc c hcm
      by_cases hc1 : x = x0 ∧ y = y0
      · rw [if_pos hc1] at hcm; exact hcm
      · rw [if_neg hc1] at hcm
        rw [wbC_new_ne]
        · exact hcm
        · rw [← hkey, Ne, nameKey_eq_iff]
          rintro (e | ⟨_, e⟩)
          · exact hc1 e
          · exact hc e
    · intro hu
      exact wbC_new_w _ _ _ _ _ _ _ _ hkey' hu
    · intro hu c hcm
      by_cases hc1 : y0 = x0 ∧ x0 = y0
      · rw [if_pos hc1] at hcm; exact hcm
      · rw [if_neg hc1] at hcm
        exact wbC_new_sub _ _ _ _ _ _ _ _ hal hkey' hu c hcm
  · -- the predecessor rows of an undirected graph are empty
    intro i row hrow a ha x y hx hy
    exact absurd rfl (no_entry h.vP hx hy (fP_false E x y) hrow a ha)

/-! ## `add_node` -/

theorem Nd.addNode {dir : Bool} {vec : AVec} (h : Nd dir vec) : Nd dir (vec ++ [[]]) := by
  intro i row hrow
  rcases getElem?_append_single _ _ _ _ hrow with ⟨_, hr⟩ | ⟨_, hr⟩
  · exact h i row hr
  · subst hr; simp

theorem St.addNode {names : List Nat} {vec : AVec} {wb : Nat → Nat → List W} (h : St names vec wb)
    (hlen : vec.length = names.length)
    (hbnd : ∀ (i : Nat) (row : List Adj), vec[i]? = some row → ∀ a ∈ row, a.1 < names.length) (name : Nat) :
    St (names ++ [name]) (vec ++ [[]]) wb := by
  intro i row hrow a ha x y hx hy
  rcases getElem?_append_single _ _ _ _ hrow with ⟨hi, hr⟩ | ⟨_, hr⟩
  · have hj := hbnd i row hr a ha
    rw [List.getElem?_append_left (by rw [← hlen]; exact hi)] at hx
    rw [List.getElem?_append_left hj] at hy
    exact h i row hr a ha x y hx hy
  · subst hr; simp at ha

theorem entP_poison (s : Store) (site : String) (h : EntP s) : EntP (s.poison site) := by
  unfold Store.poison
  split
  · exact h
  · exact h

theorem entP_addNode (s : Store) (node : Node) (hp : Pre s) (h : EntP s) : EntP (s.addNode node) := by
  unfold Store.addNode
  cases hl : alookup s.nodesMap node.name with
  | some i =>
    simp only
    have hi : s.names[i]? = some node.name := (hp.nm _ _).1 hl
    have hnames : ((s.nodesVec.set i node).map (·.name)) = s.names := by
      unfold Store.names at hi ⊢
      rw [List.map_set]
      exact set_self _ _ _ hi
    unfold EntP
    by_cases hlt : i < s.nodesVec.length
    · simp only [hlt, if_true, Store.names, hnames]
      exact h
    · simp only [hlt, if_false]
      unfold Store.poison
      split
      · simp only [Store.names, hnames]; exact h
      · simp only [Store.names, hnames]; exact h
  | none =>
    simp only
    unfold EntP
    simp only [Store.names, List.map_append, List.map_cons, List.map_nil]
    exact ⟨h.nS.addNode, h.nP.addNode, h.sS.addNode hp.vS.len hp.vS.bnd _, h.sP.addNode hp.vP.len hp.vP.bnd _⟩

theorem entP_edgeNodes (s : Store) (e : Edge) (hp : Pre s) (h : EntP s) : EntP (edgeNodes s e) := by
  unfold edgeNodes
  simp only
  split <;> split <;>
    first
    | exact h
    | exact entP_addNode _ _ hp h
    | exact entP_addNode _ _ (pre_addNode _ _ hp) (entP_addNode _ _ hp h)

/-! ## `add_edge` -/

theorem entP_edgeStage (sp : Specs) (s : Store) (o : Edge) (ou ov : Nat) (already : Bool)
    (hisNone : (s.edgesByIdx ou ov).isNone = !already)
    (h : EntC s.names (newEdges sp s.edges already o (o.u, o.v)) s.specs.directed s.succVec s.predVec) :
    EntP (edgeStage sp s o ou ov) := by
  unfold edgeStage
  unfold newEdges at h
  rw [hisNone]
  by_cases hm : sp.multi = true
  · simp only [hm, if_true] at h ⊢
    exact h
  · simp only [hm] at h ⊢
    by_cases ha : (!already) = true
    · simp only [ha, if_true] at h ⊢
      exact h
    · simp only [ha] at h ⊢
      by_cases hk : (sp.dedupe == Dedupe.keepLast) = true
      · simp only [hk, if_true] at h ⊢
        exact h
      · simp only [hk] at h ⊢
        exact h

theorem entP_edgeTail (s : Store) (e : Edge) (ui vi : Nat) (h : Pre s) (he : EntP s)
    (hui : alookup s.nodesMap e.u = some ui) (hvi : alookup s.nodesMap e.v = some vi) :
    EntP (edgeTail s.specs s e ui vi).1 := by
  rw [edgeTail_fst]
  split
  · exact he
  · have hxu : s.names[ui]? = some e.u := (h.nm _ _).1 hui
    have hxv : s.names[vi]? = some e.v := (h.nm _ _).1 hvi
    have hlk : s.edgesByIdx ui vi = alookup s.edges (nameKey s.specs.directed e.u e.v) := by
      rw [edgesByIdx_eq]; exact h.l2 ui vi e.u e.v hxu hxv
    cases hd : s.specs.directed with
    | true =>
      have hP : PreC s.names s.nodesMap s.edges s.edgesMap true s.succVec s.succMap s.predVec
          s.predMap := by
        have := h; unfold Pre at this; rw [hd] at this; exact this
      have hE : EntC s.names s.edges true s.succVec s.predVec := by
        have := he; unfold EntP at this; rw [hd] at this; exact this
      have hkey : idxKey true ui vi = (ui, vi) := by simp [idxKey]
      rw [hkey]
      simp only [if_true]
      rw [hd, nameKey_dir] at hlk
      obtain ⟨sv1, pv1, h1, h2, _⟩ := main_dir hP hxu hxv s.specs e (s.edgesByIdx ui vi).isSome
        (by rw [hlk]) _ rfl
      have hent := ent_dir hP hE hxu hxv s.specs e (s.edgesByIdx ui vi).isSome (by rw [hlk]) _ rfl sv1 pv1 h1 h2
      rw [adjStage_dir _ _ _ _ _ _ _ _ sv1 pv1 hd h1 h2]
      apply entP_edgeStage _ _ _ _ _ (s.edgesByIdx ui vi).isSome
      · show (alookup s.edgesMap (idxKey s.specs.directed ui vi)).isNone = _
        rw [← edgesByIdx_eq]
        cases s.edgesByIdx ui vi <;> rfl
      · show EntC s.names _ s.specs.directed sv1 pv1
        rw [hd]
        exact hent
    | false =>
      have hP : PreC s.names s.nodesMap s.edges s.edgesMap false s.succVec s.succMap s.predVec
          s.predMap := by
        have := h; unfold Pre at this; rw [hd] at this; exact this
      have hE : EntC s.names s.edges false s.succVec s.predVec := by
        have := he; unfold EntP at this; rw [hd] at this; exact this
      simp only [Bool.false_eq_true, if_false]
      rw [hd] at hlk
      have hou : ∃ x0 y0, s.names[(idxKey false ui vi).1]? = some x0 ∧
          s.names[(idxKey false ui vi).2]? = some y0 ∧
          ((x0 = e.u ∧ y0 = e.v) ∨ (x0 = e.v ∧ y0 = e.u)) := by
        unfold idxKey
        by_cases hgt : ui > vi
        · simp only [Bool.not_false, Bool.true_and, hgt, decide_true, if_true]
          exact ⟨e.v, e.u, hxv, hxu, Or.inr ⟨rfl, rfl⟩⟩
        · simp only [Bool.not_false, Bool.true_and, hgt, decide_false, Bool.false_eq_true, if_false]
          exact ⟨e.u, e.v, hxu, hxv, Or.inl ⟨rfl, rfl⟩⟩
      obtain ⟨x0, y0, hx0, hy0, hxy⟩ := hou
      have hw : e.ordered.w = e.w := ordered_w e
      obtain ⟨sv1, sv2, h1, h2, _⟩ := main_undir hP hxu hxv hx0 hy0 hxy s.specs e.ordered
        (s.edgesByIdx ui vi).isSome (by rw [hlk]) _ rfl
      have hent := ent_undir hP hE hxu hxv hx0 hy0 hxy s.specs e.ordered
        (s.edgesByIdx ui vi).isSome (by rw [hlk]) _ rfl sv1 sv2 h1 h2
      rw [hw] at h1 h2
      rw [adjStage_undir _ _ _ _ _ _ _ _ sv1 sv2 hd h1 h2]
      apply entP_edgeStage _ _ _ _ _ (s.edgesByIdx ui vi).isSome
      · show (alookup s.edgesMap (idxKey s.specs.directed _ _)).isNone = _
        rw [hd, idxKey_idem, ← hd, ← edgesByIdx_eq]
        cases s.edgesByIdx ui vi <;> rfl
      · show EntC s.names _ s.specs.directed sv2 s.predVec
        rw [hd, ordered_key]
        exact hent

/-- `add_edge` re-establishes the entry-level invariant -/
theorem entP_addEdge (s : Store) (e : Edge) (hp : Pre s) (he : EntP s) : EntP (s.addEdge e).1 := by
  rw [addEdge_eq]
  by_cases c1 : (!s.specs.selfLoops && e.u == e.v) = true
  · rw [if_pos c1]
    cases s.specs.slFalse <;> exact he
  · rw [if_neg c1]
    by_cases c2 : (s.specs.missing == Missing.error &&
        (!acontains s.nodesMap e.u || !acontains s.nodesMap e.v)) = true
    · rw [if_pos c2]; exact he
    · rw [if_neg c2]
      have hp2 := pre_edgeNodes s e hp
      have he2 := entP_edgeNodes s e hp he
      have hs2 := specs_edgeNodes s e
      cases hu : alookup (edgeNodes s e).nodesMap e.u with
      | none => exact entP_poison _ _ he2
      | some ui =>
        cases hv : alookup (edgeNodes s e).nodesMap e.v with
        | none => exact entP_poison _ _ he2
        | some vi =>
          simp only
          rw [← hs2]
          exact entP_edgeTail _ e ui vi hp2 he2 hu hv

end C03E
end Graphrs
