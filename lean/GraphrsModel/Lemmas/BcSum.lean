/-
  Finite sums over lists for C05 (Brandes): exchange of summation, indicator sums over duplicate-free lists and the
  telescoping identity behind Brandes' accumulation (the dependency of a source on `v` is `sigma(v)·c(v) - 1`
  where `c` solves the backward recursion of `accumulate`).
-/
import Mathlib.Algebra.Order.Field.Rat
import Mathlib.Algebra.BigOperators.Group.List.Basic
import Mathlib.Algebra.BigOperators.Ring.List
import Mathlib.Tactic.Ring
import Mathlib.Tactic.Linarith
namespace Graphrs
namespace Bc

theorem sum_map_zero {α} (l : List α) (f : α → Rat) (h : ∀ x ∈ l, f x = 0) : (l.map f).sum = 0 := by
  induction l with
  | nil => rfl
  | cons a l ih =>
    rw [List.map_cons, List.sum_cons, h a (List.mem_cons_self ..), ih (fun x hx => h x (List.mem_cons_of_mem _ hx))]
    ring

theorem sum_map_congr {α} (l : List α) (f g : α → Rat) (h : ∀ x ∈ l, f x = g x) : (l.map f).sum = (l.map g).sum := by
  rw [List.map_congr_left h]

theorem sum_map_sub {α} (l : List α) (f g : α → Rat) :
    (l.map fun x => f x - g x).sum = (l.map f).sum - (l.map g).sum := by
  induction l with
  | nil => simp
  | cons a l ih => simp only [List.map_cons, List.sum_cons, ih]; ring

theorem sum_map_add' {α} (l : List α) (f g : α → Rat) :
    (l.map fun x => f x + g x).sum = (l.map f).sum + (l.map g).sum := by
  induction l with
  | nil => simp
  | cons a l ih => simp only [List.map_cons, List.sum_cons, ih]; ring

theorem sum_map_mul_left' {α} (l : List α) (r : Rat) (f : α → Rat) :
    (l.map fun x => r * f x).sum = r * (l.map f).sum := by
  induction l with
  | nil => simp
  | cons a l ih => simp only [List.map_cons, List.sum_cons, ih]; ring

theorem sum_map_mul_right' {α} (l : List α) (r : Rat) (f : α → Rat) :
    (l.map fun x => f x * r).sum = (l.map f).sum * r := by
  induction l with
  | nil => simp
  | cons a l ih => simp only [List.map_cons, List.sum_cons, ih]; ring

/-- exchange the order of summation -/
theorem sum_comm' {α β} (l1 : List α) (l2 : List β) (f : α → β → Rat) :
    (l1.map fun a => (l2.map fun b => f a b).sum).sum = (l2.map fun b => (l1.map fun a => f a b).sum).sum := by
  induction l1 with
  | nil => simp
  | cons a l ih =>
    simp only [List.map_cons, List.sum_cons, ih]
    rw [sum_map_add']

/-- the sum of an indicator of one element over a duplicate-free list -/
theorem sum_indicator_eq {l : List Nat} (hl : l.Nodup) (g : Nat → Rat) (w : Nat) :
    (l.map fun x => if x = w then g x else 0).sum = if w ∈ l then g w else 0 := by
  induction l with
  | nil => simp
  | cons a l ih =>
    rw [List.nodup_cons] at hl
    simp only [List.map_cons, List.sum_cons, ih hl.2, List.mem_cons]
    by_cases e : a = w
    · subst e
      simp [hl.1]
    · have : ¬ w = a := fun e' => e e'.symm
      simp [e, this]

/-- summing over the members of a duplicate-free sublist = summing the indicator -/
theorem sum_indicator_subset {S L : List Nat} (hS : S.Nodup) (hL : L.Nodup) (hsub : ∀ x ∈ L, x ∈ S) (g : Nat → Rat) :
    (S.map fun x => if x ∈ L then g x else 0).sum = (L.map g).sum := by
  induction L with
  | nil => simp
  | cons a L ih =>
    rw [List.nodup_cons] at hL
    have h1 : ∀ x, (if x ∈ a :: L then g x else 0) = (if x = a then g x else 0) + (if x ∈ L then g x else 0) := by
      intro x
      by_cases e : x = a
      · subst e; simp [hL.1]
      · simp [e]
    rw [sum_map_congr _ _ _ (fun x _ => h1 x), sum_map_add', sum_indicator_eq hS g a,
      ih hL.2 (fun x hx => hsub x (List.mem_cons_of_mem _ hx))]
    simp [hsub a (List.mem_cons_self ..)]

/-- **the telescoping identity**: if `T` obeys the backward path-count recursion towards `v`, and `c` the accumulation
    recursion with weights `x`, then `Σ_t T(t)·x(t) = σ(v)·c(v)` -/
theorem telescope (S : List Nat) (hS : S.Nodup) (P : Nat → List Nat) (hPS : ∀ w ∈ S, ∀ y ∈ P w, y ∈ S)
    (hPnd : ∀ w ∈ S, (P w).Nodup) (T c x : Nat → Rat) (v : Nat) (hv : v ∈ S) (σv : Rat)
    (hT : ∀ t ∈ S, T t = if t = v then σv else ((P t).map T).sum)
    (hE : ((P v).map T).sum = 0)
    (hc : ∀ t ∈ S, c t = x t + (S.map fun w => if t ∈ P w then c w else 0).sum) :
    (S.map fun t => T t * x t).sum = σv * c v := by
  have hx : ∀ t ∈ S, T t * x t = T t * c t - (S.map fun w => if t ∈ P w then T t * c w else 0).sum := by
    intro t ht
    have h1 : (S.map fun w => if t ∈ P w then T t * c w else 0) = S.map fun w => T t * (if t ∈ P w then c w else 0) := by
      apply List.map_congr_left
      intro w _
      by_cases e : t ∈ P w <;> simp [e]
    rw [h1, sum_map_mul_left']
    have := hc t ht
    rw [this]; ring
  rw [sum_map_congr _ _ _ hx, sum_map_sub, sum_comm']
  have h2 : ∀ w ∈ S, (S.map fun t => if t ∈ P w then T t * c w else 0).sum = (T w - if w = v then σv else 0) * c w := by
    intro w hw
    have h3 : (S.map fun t => if t ∈ P w then T t * c w else 0) = S.map fun t => (if t ∈ P w then T t else 0) * c w := by
      apply List.map_congr_left
      intro t _
      by_cases e : t ∈ P w <;> simp [e]
    rw [h3, sum_map_mul_right', sum_indicator_subset hS (hPnd w hw) (hPS w hw) T]
    by_cases e : w = v
    · subst e
      rw [hE, hT w hw]; simp
    · rw [hT w hw]; simp [e]
  rw [sum_map_congr _ _ _ h2]
  have h4 : ∀ w ∈ S, (T w - if w = v then σv else 0) * c w = T w * c w - (if w = v then σv * c w else 0) := by
    intro w _
    by_cases e : w = v <;> simp [e]; ring
  rw [sum_map_congr _ _ _ h4, sum_map_sub, sum_indicator_eq hS (fun w => σv * c w) v]
  simp [hv]

end Bc
end Graphrs
