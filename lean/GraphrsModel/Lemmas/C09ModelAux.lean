/-
  Helper lemmas for Props/C09Model.lean: list sums, the `*_for_all_nodes` maps, per-key equality of
  edge lists, and the `Option Rat` sums of the modularity model.
-/
import GraphrsModel.Props.Core
import GraphrsModel.Props.C09
import GraphrsModel.Props.C12
import GraphrsModel.Model.Community
import Mathlib.Data.List.Perm.Basic
import Mathlib.Data.List.Count
import Mathlib.Algebra.Field.Rat
import Mathlib.Data.Rat.Cast.Defs
import Mathlib.Tactic.FieldSimp
import Mathlib.Tactic.Ring
import Mathlib.Tactic.Linarith
namespace Graphrs
namespace C09M

theorem sumNat_eq_sum (l : List Nat) : sumNat l = l.sum := by
  unfold sumNat
  have : ∀ acc, l.foldl (· + ·) acc = acc + l.sum := by
    induction l with
    | nil => simp
    | cons a l ih => intro acc; simp [List.foldl_cons, ih]; omega
  simpa using this 0

theorem wf_parts (s : Store) (h : s.wf = true) :
    s.nodesOk = true ∧ s.edgesOk = true ∧ s.adjOk = true ∧ s.vecOk = true := by
  simp only [Store.wf, Bool.and_eq_true] at h
  exact ⟨h.1.1.1, h.1.1.2, h.1.2, h.2⟩

/-! ### association lists built by inserting fresh keys -/

theorem ainsert_fresh {κ ν : Type} [DecidableEq κ] (m : List (κ × ν)) (k : κ) (v : ν)
    (h : k ∉ m.map (·.1)) : ainsert m k v = m ++ [(k, v)] := by
  induction m with
  | nil => rfl
  | cons p m ih =>
    obtain ⟨a, b⟩ := p
    simp only [List.map_cons, List.mem_cons, not_or] at h
    have hne : ¬ a = k := fun e => h.1 e.symm
    simp [ainsert, hne, ih h.2]

theorem alookup_map_self {ν : Type} (l : List Nat) (g : Nat → ν) (y : Nat) :
    alookup (l.map fun x => (x, g x)) y = if y ∈ l then some (g y) else none := by
  induction l with
  | nil => simp [alookup]
  | cons a l ih =>
    by_cases h : a = y
    · subst h; simp [alookup]
    · have h' : ¬ y = a := fun e => h e.symm
      simp [alookup, h, h', ih]

/-- the `*_for_all_nodes` maps: one entry per node, in node order -/
theorem forAllNodes_ok {α : Type} (s : Store) (site : String) (f : Nat → Option α) (g : Nat → α)
    (hnd : s.names.Nodup) (hf : ∀ x ∈ s.names, f x = some (g x)) :
    s.forAllNodes site f = .ok (s.names.map fun x => (x, g x)) := by
  have key : ∀ (F : Outcome (List (Nat × α)) → Node → Outcome (List (Nat × α)))
      (_ : ∀ acc n d, f n.name = some d → F (.ok acc) n = .ok (ainsert acc n.name d))
      (l : List Node) (acc : List (Nat × α)),
      (acc.map (·.1) ++ l.map (·.name)).Nodup → (∀ n ∈ l, f n.name = some (g n.name)) →
      l.foldl F (Outcome.ok acc) = Outcome.ok (acc ++ l.map fun n => (n.name, g n.name)) := by
    intro F hF l
    induction l with
    | nil => intro acc _ _; simp
    | cons n l ih =>
      intro acc hnd hf
      have hfresh : n.name ∉ acc.map (·.1) := by
        intro hc
        rw [List.nodup_append] at hnd
        exact hnd.2.2 _ hc _ (by simp) rfl
      rw [List.foldl_cons, hF acc n _ (hf n (by simp)), ainsert_fresh acc _ _ hfresh,
        ih _ (by simpa using hnd) (fun m hm => hf m (by simp [hm]))]
      simp
  unfold Store.forAllNodes
  rw [key _ (by intro acc n d h; simp [bind, Outcome.bind, h]) s.nodesVec []
    (by simpa [Store.names] using hnd)
    (fun n hn => hf n.name (by simp only [Store.names]; exact List.mem_map_of_mem hn))]
  simp [Store.names, List.map_map, Function.comp_def]

/-! ### per-key equality of edge lists -/

theorem perm_of_filter_key_eq {κ : Type} [BEq κ] [LawfulBEq κ] (key : Edge → κ) (l1 l2 : List Edge)
    (h : ∀ k, l1.filter (fun e => key e == k) = l2.filter (fun e => key e == k)) : l1.Perm l2 := by
  rw [List.perm_iff_count]
  intro a
  rw [← List.count_filter (p := fun e => key e == key a) (l := l1) (by simp), h,
    List.count_filter (by simp)]

theorem absEq_edges_perm {a b : Abs} (h : AbsEq a b) : a.edges.Perm b.edges :=
  perm_of_filter_key_eq (fun e => (e.u, e.v)) _ _ h.2

/-! ### sums over `Option Rat` -/

theorem sumO_eq (l : List (Option Rat)) : Abs.sumO l = Store.sumOpt l := rfl

theorem sumOpt_some_nat {α : Type} (l : List α) (k : α → Nat) :
    Store.sumOpt (l.map fun x => some ((k x : Nat) : Rat)) = some (((l.map k).sum : Nat) : Rat) := by
  have key : ∀ F : Option Rat → Option Rat → Option Rat, (∀ a b, F (some a) (some b) = some (a + b)) →
      ∀ a : Rat, (l.map fun x => some ((k x : Nat) : Rat)).foldl F (some a)
        = some (a + (((l.map k).sum : Nat) : Rat)) := by
    intro F hF
    induction l with
    | nil => intro a; simp
    | cons x l ih =>
      intro a
      simp only [List.map_cons, List.foldl_cons, List.sum_cons, ih, hF]
      push_cast
      rw [add_assoc]
  unfold Store.sumOpt
  rw [key _ (fun a b => rfl) 0]
  simp

theorem sumOpt_wOf_false (es : List Edge) : Store.sumOpt (es.map (Abs.wOf false)) = some ((es.length : Nat) : Rat) := by
  have h1 : es.map (Abs.wOf false) = es.map fun _ => some (((1 : Nat) : Nat) : Rat) := by
    apply List.map_congr_left
    intro e _
    simp [Abs.wOf]
  have h2 := sumOpt_some_nat es (fun _ => 1)
  rw [h1, h2]
  simp

/-- the per-community degree sum of the modularity model -/
theorem commFold_ok (F : Outcome (Option Rat) → Nat → Outcome (Option Rat))
    (D : List (Nat × Option Rat)) (comm : List Nat) (k : Nat → Nat)
    (hF : ∀ (x y : Rat) n, alookup D n = some (some y) → F (.ok (some x)) n = .ok (some (x + y)))
    (hD : ∀ n ∈ comm, alookup D n = some (some ((k n : Nat) : Rat))) :
    comm.foldl F (.ok (some 0)) = .ok (some (((comm.map k).sum : Nat) : Rat)) := by
  have : ∀ a : Rat, comm.foldl F (.ok (some a)) = .ok (some (a + (((comm.map k).sum : Nat) : Rat))) := by
    induction comm with
    | nil => intro a; simp
    | cons n l ih =>
      intro a
      rw [List.foldl_cons, hF a _ n (hD n (by simp)), ih (fun m hm => hD m (by simp [hm]))]
      simp only [List.map_cons, List.sum_cons]
      push_cast
      rw [add_assoc]
  simpa using this 0

/-! ### counting edges by a duplicate-free set of endpoints -/

theorem count_by_set_cons (es : List Edge) (f : Edge → Nat) (a : Nat) (c : List Nat) (ha : a ∉ c) :
    (es.filter fun e => (a :: c).contains (f e)).length
      = (es.filter fun e => f e == a).length + (es.filter fun e => c.contains (f e)).length := by
  induction es with
  | nil => simp
  | cons e es ihe =>
    by_cases h1 : f e = a
    · have : c.contains a = false := by simpa using ha
      simp only [List.filter_cons, h1, beq_self_eq_true, if_true, List.length_cons, List.contains_cons,
        Bool.true_or, this, Bool.false_eq_true, if_false] at ihe ⊢
      omega
    · have hb : (f e == a) = false := by simp [h1]
      simp only [List.filter_cons, hb, Bool.false_eq_true, if_false, List.contains_cons, Bool.false_or] at ihe ⊢
      by_cases h2 : c.contains (f e) = true
      · simp only [h2, if_true, List.length_cons]; omega
      · simp only [h2]; exact ihe

theorem count_by_set (es : List Edge) (f : Edge → Nat) (c : List Nat) (hc : c.Nodup) :
    (c.map fun x => (es.filter fun e => f e == x).length).sum = (es.filter fun e => c.contains (f e)).length := by
  induction c with
  | nil => simp
  | cons a c ih =>
    have hnd := List.nodup_cons.mp hc
    rw [count_by_set_cons es f a c hnd.1, List.map_cons, List.sum_cons, ih hnd.2]

theorem sum_map_add_nat {α : Type} (l : List α) (f g : α → Nat) :
    (l.map fun x => f x + g x).sum = (l.map f).sum + (l.map g).sum := by
  induction l with
  | nil => simp
  | cons a l ih => simp only [List.map_cons, List.sum_cons, ih]; omega

/-- undirected: the degrees of a duplicate-free community sum to (#edges leaving it) + (#edges entering it) -/
theorem degree_sum_comm (a : Abs) (c : List Nat) (hc : c.Nodup) :
    (c.map fun x => a.degree false x).sum
      = (a.edges.filter fun e => c.contains e.u).length + (a.edges.filter fun e => c.contains e.v).length := by
  simp only [C09_degree_eq_in_add_out, Abs.inEdges, Abs.outEdges]
  rw [sum_map_add_nat, count_by_set a.edges (·.v) c hc, count_by_set a.edges (·.u) c hc]
  omega

end C09M
end Graphrs
