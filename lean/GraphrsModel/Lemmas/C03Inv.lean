/-
  Prop-level reading of the Bool clauses of `Store.wf`, and the Prop-level invariant `Pre`
  that the C03 preservation proofs work with.
-/
import GraphrsModel.Lemmas.C03Rows
namespace Graphrs
namespace C03
open Store

/-! ## key algebra -/

theorem nameKey_symm (x y : Nat) : nameKey false x y = nameKey false y x := by
  unfold nameKey
  by_cases h1 : x > y <;> by_cases h2 : y > x <;> simp [h1, h2]
  · omega
  · have : x = y := by omega
    subst this; simp

theorem idxKey_eq_nameKey (dir : Bool) (i j : Nat) : idxKey dir i j = nameKey dir i j := rfl

theorem nameKey_dir (x y : Nat) : nameKey true x y = (x, y) := by simp [nameKey]

theorem nameKey_cases (dir : Bool) (x y : Nat) :
    nameKey dir x y = (x, y) ∨ (dir = false ∧ nameKey dir x y = (y, x)) := by
  unfold nameKey
  by_cases h : (!dir && decide (x > y)) = true
  · right
    simp only [Bool.and_eq_true, Bool.not_eq_true'] at h
    simp [h.1, h.2]
  · left; simp [h]

/-- a canonical key is the `nameKey` of its own components -/
theorem nameKey_canon (dir : Bool) (a b : Nat) (h : dir = true ∨ a ≤ b) : nameKey dir a b = (a, b) := by
  unfold nameKey
  rcases h with h | h
  · simp [h]
  · have : ¬ a > b := by omega
    simp [this]

theorem nameKey_eq_iff (dir : Bool) (x y x0 y0 : Nat) :
    nameKey dir x y = nameKey dir x0 y0 ↔
      ((x = x0 ∧ y = y0) ∨ (dir = false ∧ x = y0 ∧ y = x0)) := by
  cases dir
  · unfold nameKey
    by_cases h1 : x > y <;> by_cases h2 : x0 > y0 <;> simp [h1, h2] <;> omega
  · simp [nameKey]

/-! ## reading `nodesOk` -/

theorem nodesOk_nodup (s : Store) (h : s.nodesOk = true) : s.names.Nodup := by
  simp only [Store.nodesOk, Bool.and_eq_true, List.all_eq_true, decide_eq_true_eq, beq_iff_eq,
    keysNodup_iff] at h
  exact h.1.1.1.1.1.1.1.1.1

theorem nodesOk_nm (s : Store) (h : s.nodesOk = true) (x i : Nat) :
    alookup s.nodesMap x = some i ↔ s.names[i]? = some x := by
  simp only [Store.nodesOk, Bool.and_eq_true, List.all_eq_true, decide_eq_true_eq, beq_iff_eq,
    keysNodup_iff] at h
  obtain ⟨⟨⟨⟨⟨⟨⟨_, h4⟩, h5⟩, _⟩, _⟩, _⟩, _⟩, _⟩ := h
  constructor
  · intro hx
    exact h4 (x, i) (mem_of_alookup _ _ _ hx)
  · intro hx
    exact h5 (x, i) (List.mem_zipIdx_iff_getElem?.2 hx)

theorem nodesOk_len (s : Store) (h : s.nodesOk = true) :
    s.succVec.length = s.names.length ∧ s.predVec.length = s.names.length := by
  simp only [Store.nodesOk, Bool.and_eq_true, List.all_eq_true, decide_eq_true_eq, beq_iff_eq,
    keysNodup_iff] at h
  simp only [Store.names, List.length_map]
  exact ⟨h.1.1.2, h.1.2⟩

theorem names_length (s : Store) : s.names.length = s.nodesVec.length := by
  simp [Store.names]

theorem names_inj {names : List Nat} (hn : names.Nodup) {i j x : Nat}
    (hi : names[i]? = some x) (hj : names[j]? = some x) : i = j := by
  have hlt : i < names.length := by
    rcases Nat.lt_or_ge i names.length with h | h
    · exact h
    · simp [List.getElem?_eq_none h] at hi
  exact (List.getElem?_inj hlt hn).1 (hi.trans hj.symm)

theorem lt_of_getElem? {α} {l : List α} {i : Nat} {x : α} (h : l[i]? = some x) : i < l.length := by
  rcases Nat.lt_or_ge i l.length with h' | h'
  · exact h'
  · simp [List.getElem?_eq_none h'] at h

/-! ## reading `edgesOk` -/

structure EdgesP (s : Store) : Prop where
  nd : (s.edges.map (·.1)).Nodup
  ndM : (s.edgesMap.map (·.1)).Nodup
  ne : ∀ k l, alookup s.edges k = some l → l ≠ []
  key : ∀ kv ∈ s.edges, ∀ e ∈ kv.2, (e.u, e.v) = kv.1
  canon : ∀ kv ∈ s.edges, s.specs.directed = true ∨ kv.1.1 ≤ kv.1.2
  inN : ∀ k l, alookup s.edges k = some l → k.1 ∈ s.names ∧ k.2 ∈ s.names
  toM : ∀ k l, alookup s.edges k = some l → ∃ i j, alookup s.nodesMap k.1 = some i ∧
    alookup s.nodesMap k.2 = some j ∧ alookup s.edgesMap (idxKey s.specs.directed i j) = some l
  bM : ∀ k l, alookup s.edgesMap k = some l → k.1 < s.names.length ∧ k.2 < s.names.length
  canonM : ∀ k l, alookup s.edgesMap k = some l → s.specs.directed = true ∨ k.1 ≤ k.2
  toE : ∀ k l, alookup s.edgesMap k = some l → ∃ x y, s.names[k.1]? = some x ∧
    s.names[k.2]? = some y ∧ alookup s.edges (nameKey s.specs.directed x y) = some l

theorem edgesOk_read (s : Store) (h : s.edgesOk = true) : EdgesP s := by
  simp only [Store.edgesOk, Bool.and_eq_true, List.all_eq_true, decide_eq_true_eq, beq_iff_eq,
    keysNodup_iff, Bool.or_eq_true] at h
  obtain ⟨⟨⟨h1, h2⟩, h3⟩, h4⟩ := h
  refine ⟨h1, h2, ?_, ?_, ?_, ?_, ?_, ?_, ?_, ?_⟩
  · intro k l hl
    have := (h3 (k, l) (mem_of_alookup _ _ _ hl)).1.1.1.1.1.1.1
    intro e; subst e; simp at this
  · intro kv hkv
    exact (h3 kv hkv).1.1.1.1.1.1.2
  · intro kv hkv
    exact (h3 kv hkv).1.1.1.1.1.2
  · intro k l hl
    have := h3 (k, l) (mem_of_alookup _ _ _ hl)
    have a := this.1.1.1.1.2
    have b := this.1.1.1.2
    simp only [List.contains_iff_mem] at a b
    exact ⟨a, b⟩
  · intro k l hl
    have := (h3 (k, l) (mem_of_alookup _ _ _ hl)).2
    simp only at this
    split at this
    · rename_i i j hi hj
      exact ⟨i, j, hi, hj, by simpa using this⟩
    · simp at this
  · intro k l hl
    have := (h4 (k, l) (mem_of_alookup _ _ _ hl)).1.1
    simpa [names_length] using this
  · intro k l hl
    exact (h4 (k, l) (mem_of_alookup _ _ _ hl)).1.2
  · intro k l hl
    have := (h4 (k, l) (mem_of_alookup _ _ _ hl)).2
    simp only at this
    split at this
    · rename_i x y hx hy
      exact ⟨x, y, hx, hy, by simpa using this⟩
    · simp at this

/-- `edges_map` under the position key holds what `edges` holds under the name key -/
theorem edges_link (s : Store) (hn : s.nodesOk = true) (he : EdgesP s) (i j x y : Nat)
    (hx : s.names[i]? = some x) (hy : s.names[j]? = some y) :
    alookup s.edgesMap (idxKey s.specs.directed i j) =
      alookup s.edges (nameKey s.specs.directed x y) := by
  have nm := nodesOk_nm s hn
  have nd := nodesOk_nodup s hn
  cases hM : alookup s.edgesMap (idxKey s.specs.directed i j) with
  | some l =>
    obtain ⟨x', y', hx', hy', hl⟩ := he.toE _ _ hM
    rcases nameKey_cases s.specs.directed i j with hk | ⟨hd, hk⟩
    · rw [idxKey_eq_nameKey, hk] at hx' hy'
      simp only at hx' hy'
      rw [hx] at hx'; rw [hy] at hy'
      cases hx'; cases hy'
      exact hl.symm
    · rw [idxKey_eq_nameKey, hk] at hx' hy'
      simp only at hx' hy'
      rw [hy] at hx'; rw [hx] at hy'
      cases hx'; cases hy'
      rw [hd] at hl ⊢
      rw [nameKey_symm]; exact hl.symm
  | none =>
    cases hE : alookup s.edges (nameKey s.specs.directed x y) with
    | none => rfl
    | some l =>
      exfalso
      obtain ⟨i', j', hi', hj', hl⟩ := he.toM _ _ hE
      rcases nameKey_cases s.specs.directed x y with hk | ⟨hd, hk⟩
      · rw [hk] at hi' hj'
        simp only at hi' hj'
        have e1 := names_inj nd ((nm _ _).1 hi') hx
        have e2 := names_inj nd ((nm _ _).1 hj') hy
        subst e1; subst e2
        rw [hM] at hl; cases hl
      · rw [hk] at hi' hj'
        simp only at hi' hj'
        have e1 := names_inj nd ((nm _ _).1 hi') hy
        have e2 := names_inj nd ((nm _ _).1 hj') hx
        subst e1; subst e2
        rw [hd] at hl hM
        rw [idxKey_eq_nameKey, nameKey_symm, ← idxKey_eq_nameKey, hM] at hl
        cases hl

theorem mem_allEdges (s : Store) (e : Edge) :
    e ∈ s.allEdges ↔ ∃ kv ∈ s.edges, e ∈ kv.2 := by
  simp [Store.allEdges, List.mem_flatMap]

/-- `hasEdge` is "the name key is bound" -/
theorem hasEdge_iff (s : Store) (he : EdgesP s) (x y : Nat) :
    s.hasEdge x y = (alookup s.edges (nameKey s.specs.directed x y)).isSome := by
  rw [Bool.eq_iff_iff]
  simp only [Store.hasEdge, List.any_eq_true, Bool.or_eq_true, Bool.and_eq_true, beq_iff_eq,
    Bool.not_eq_true', mem_allEdges]
  constructor
  · rintro ⟨e, ⟨kv, hkv, hekv⟩, hm⟩
    have hkey := he.key kv hkv e hekv
    have hcan := he.canon kv hkv
    have hlk : alookup s.edges kv.1 = some kv.2 := alookup_of_mem _ _ _ he.nd hkv
    have : nameKey s.specs.directed x y = kv.1 := by
      rcases hm with ⟨h1, h2⟩ | ⟨⟨hd, h1⟩, h2⟩
      · rw [← hkey, h1, h2]
        apply nameKey_canon
        rw [← hkey, h1, h2] at hcan; exact hcan
      · rw [hd] at hcan ⊢
        rw [nameKey_symm, ← hkey, h1, h2]
        apply nameKey_canon
        rw [← hkey, h1, h2] at hcan; exact hcan
    rw [this, hlk]; rfl
  · intro h
    cases hl : alookup s.edges (nameKey s.specs.directed x y) with
    | none => rw [hl] at h; simp at h
    | some l =>
      have hne := he.ne _ _ hl
      have hmem := mem_of_alookup _ _ _ hl
      obtain ⟨e, he'⟩ := List.exists_mem_of_ne_nil l hne
      have hkey := he.key _ hmem e he'
      refine ⟨e, ⟨_, hmem, he'⟩, ?_⟩
      simp only at hkey
      rcases nameKey_cases s.specs.directed x y with hk | ⟨hd, hk⟩
      · rw [hk] at hkey; cases hkey; exact Or.inl ⟨rfl, rfl⟩
      · rw [hk] at hkey; cases hkey; exact Or.inr ⟨⟨hd, rfl⟩, rfl⟩

end C03
end Graphrs
