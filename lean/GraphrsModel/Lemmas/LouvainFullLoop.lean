/-
  Lemmas for Props/C13TerminationFull.lean: the level loop.

  Every iteration of `levelLoop` that continues hands `generate_graph` the list `inner` of non-empty communities
  and the next call of `compute_one_level` runs on a graph with `inner.length` nodes.  If that call reports an
  improvement, it returns strictly fewer communities than it had nodes (Lemmas/LouvainFullCount.lean); if it reports
  none, the next iteration returns.  So a level fuel of `inner.length + 2` always suffices, and with a sweep fuel of
  `K^K + 1` (`K` a bound on the number of nodes of the first level) no level runs out of sweep fuel
  (`C13_computeOneLevel_terminates`).
-/
import GraphrsModel.Lemmas.LouvainFullMono
import GraphrsModel.Lemmas.LouvainFullCount
import GraphrsModel.Lemmas.LouvainFullWeights
import GraphrsModel.Lemmas.LouvainNoPanic
import GraphrsModel.Props.C13Termination
namespace Graphrs
open LouvainFull
namespace LF

/-! ### counting -/

theorem length_le_flat (l : List (List Nat)) (h : ∀ c ∈ l, c ≠ []) : l.length ≤ (l.flatMap id).length := by
  induction l with
  | nil => simp
  | cons c l ih =>
    have hc : c ≠ [] := h c (by simp)
    have hpos : 0 < c.length := List.length_pos_of_ne_nil hc
    have := ih (fun c' hc' => h c' (by simp [hc']))
    simp only [List.flatMap_cons, id, List.length_append, List.length_cons]
    omega

/-- a partition of `{0..k-1}` into non-empty sets has at most `k` sets -/
theorem PartOfRange.length_le {k : Nat} {l : List (List Nat)} (h : PartOfRange k l) : l.length ≤ k := by
  obtain ⟨hne, hnd, hcov⟩ := h
  have hp : (l.flatMap id).Perm (List.range k) := by
    rw [List.perm_ext_iff_of_nodup hnd List.nodup_range]
    intro x; rw [hcov, List.mem_range]
  have := hp.length_eq
  rw [List.length_range] at this
  have h2 := length_le_flat l hne
  omega

theorem pow_self_le {k K : Nat} (h : k ≤ K) : k ^ k ≤ K ^ K := by
  by_cases hK : K = 0
  · subst hK
    have : k = 0 := by omega
    subst this
    exact le_refl _
  · exact (Nat.pow_le_pow_left h k).trans (Nat.pow_le_pow_right (by omega) h)

/-! ### one level -/

/-- with fuel `≥ k^k + 1` the only stop of `computeOneLevelW` on a good level without negative weights is `risky` -/
theorem computeOneLevelW_terminates {lv : Level} {n k : Nat} (hg : GoodLevel lv n k) (hwf : lv.g.wf = true)
    (hmulti : lv.g.specs.multi = false) (hw : EdgesNN lv.g)
    {partition : List (List Nat)} (hin : InputOK lv k partition)
    {m res : Rat} (hm : 0 < m) (hres : 0 ≤ res) (perm : List Nat) (fuel : Nat) (hfuel : k ^ k + 1 ≤ fuel) :
    computeOneLevelW lv m res partition perm fuel = .ok (.error .risky) ∨
    ∃ r, computeOneLevelW lv m res partition perm fuel = .ok (.ok r) := by
  obtain ⟨di, hdi, hall⟩ := C13_computeOneLevel_terminates hg hwf hmulti hw hin hm hres perm
  obtain ⟨st, hst, -⟩ := hall fuel hfuel
  unfold computeOneLevelW
  simp only [bind, Outcome.bind]
  rw [sortNat_eq_range hg.names_nodup hg.names_iff, hin.len, hdi]
  unfold LT.initState at hst
  simp only [hst]
  by_cases hr : st.risky = true
  · left; rw [if_pos hr]
  · right; rw [if_neg hr]; exact ⟨_, rfl⟩

/-! ### the level loop -/

/-- **the level loop never runs out of either fuel**: on a good level graph with `k ≤ K` nodes and no negative
    weight, for `m > 0`, `res ≥ 0`, a sweep fuel `≥ K^K + 1` and a level fuel `≥ inner.length + 2` (`≥ 1` when
    `improvement = false`), `levelLoopW` returns levels, or stops because of `risky` / an undefined modularity -/
theorem levelLoopW_terminates (weighted : Bool) (res threshold m : Rat) (perms : List (List Nat)) (F1 n K : Nat)
    (hm : 0 < m) (hres : 0 ≤ res) (hF1 : K ^ K + 1 ≤ F1) :
    ∀ (F2 : Nat) (lv : Level) (k : Nat) (partition inner : List (List Nat)) (improvement : Bool) (modularity : Rat)
      (acc : List (List (List Nat))),
    GoodLevel lv n k → lv.g.wf = true → lv.g.specs.multi = false → EdgesNN lv.g → PI lv k partition inner → k ≤ K →
    1 ≤ F2 → (improvement = true → inner.length + 2 ≤ F2) →
    ∃ r, levelLoopW weighted res threshold m perms F1 F2 lv partition inner improvement modularity acc = .ok r ∧
      r ≠ .error .sweepFuel ∧ r ≠ .error .levelFuel := by
  intro F2
  induction F2 with
  | zero => intro lv k partition inner improvement modularity acc _ _ _ _ _ _ h1; omega
  | succ F2 ih =>
    intro lv k partition inner improvement modularity acc hg hwf hmulti hnn hpi hkK _ hF2
    unfold levelLoopW
    by_cases himp : improvement = true
    · obtain ⟨hp, hnm⟩ := isPartition_of_part hg hwf hpi.inner_part
      obtain ⟨omod, hmod⟩ := modularity_ok lv.g hwf inner hp hnm weighted res
      simp only [himp, Bool.not_true, Bool.false_eq_true, if_false, bind, Outcome.bind, hmod, Outcome.unwrap]
      cases omod with
      | none => exact ⟨_, rfl, by simp, by simp⟩
      | some newMod =>
        simp only
        by_cases hth : newMod - modularity ≤ threshold
        · rw [if_pos hth]; exact ⟨_, rfl, by simp, by simp⟩
        · rw [if_neg hth]
          obtain ⟨lv', hgen, hwf', hm', _, hg', hmem'⟩ := generateGraph_spec lv n k hg hwf inner hpi.inner_part
          have hin' : InputOK lv' inner.length partition := hpi.inputOK hmem'
          rw [hmulti] at hm'
          have hnn' : EdgesNN lv'.g := generateGraph_edgesNN lv inner lv' hnn hgen
          have hlen : inner.length ≤ k := hpi.inner_part.length_le
          have hfuel : inner.length ^ inner.length + 1 ≤ F1 := by
            have := pow_self_le (hlen.trans hkK)
            omega
          simp only [hgen]
          rcases computeOneLevelW_terminates hg' hwf' hm' hnn' hin' hm hres (perms[lv'.g.numNodes]?.getD []) F1 hfuel
            with hr | ⟨r, hr⟩
          · simp only [hr]
            exact ⟨_, rfl, by simp, by simp⟩
          · obtain ⟨p, i, imp⟩ := r
            simp only [hr]
            obtain ⟨hpi', _⟩ := computeOneLevel_post hg' hin' (computeOneLevel_of_W hr)
            obtain ⟨hc1, hc2⟩ := computeOneLevelW_count hg' hin' hr
            have h2 := hF2 himp
            exact ih lv' inner.length p i imp newMod _ hg' hwf' hm' hnn' hpi' (hlen.trans hkK) (by omega)
              (fun hi => by have := hc2 hi; omega)
    · have himp' : improvement = false := by simpa using himp
      simp only [himp', Bool.not_false, if_true]
      exact ⟨_, rfl, by simp, by simp⟩

/-- the same for `louvainPartitions` after `convert_graph` -/
theorem lpTailW_terminates (lv : Level) (n : Nat) (hg : GoodLevel lv n n) (hwf : lv.g.wf = true)
    (hmulti : lv.g.specs.multi = false) (hnum : lv.g.numNodes = n) (hmem : ∀ x, mem lv x = [x]) (hnn : EdgesNN lv.g)
    (weighted : Bool) (res threshold : Rat) (perms : List (List Nat)) (hm : 0 < mOf lv weighted) (hres : 0 ≤ res)
    (F1 F2 : Nat) (hF1 : n ^ n + 1 ≤ F1) (hF2 : n + 2 ≤ F2) :
    ∃ r, lpTailW F1 F2 lv weighted res threshold perms = .ok r ∧ r ≠ .error .sweepFuel ∧ r ≠ .error .levelFuel := by
  have hin : InputOK lv n ((List.range n).map fun i => [i]) := by
    refine ⟨by simp, ?_, ?_⟩
    · intro i hi; rw [getD_map_range, if_pos hi]; simp
    · intro i z hi; rw [getD_map_range, if_pos hi, hmem]
  obtain ⟨hp, hnm⟩ := isPartition_of_part hg hwf (singletons_part n)
  obtain ⟨omod, hmod⟩ := modularity_ok lv.g hwf _ hp hnm weighted res
  unfold lpTailW
  simp only [bind, Outcome.bind, hnum, hmod, Outcome.unwrap]
  cases omod with
  | none => exact ⟨_, rfl, by simp, by simp⟩
  | some mod0 =>
    simp only
    rcases computeOneLevelW_terminates hg hwf hmulti hnn hin hm hres (perms[n]?.getD []) F1 hF1 with hr | ⟨r, hr⟩
    · simp only [hr]
      exact ⟨_, rfl, by simp, by simp⟩
    · obtain ⟨p, i, imp⟩ := r
      simp only [hr]
      obtain ⟨hpi, _⟩ := computeOneLevel_post hg hin (computeOneLevel_of_W hr)
      obtain ⟨hc1, _⟩ := computeOneLevelW_count hg hin hr
      exact levelLoopW_terminates weighted res threshold _ perms F1 n n hm hres hF1 F2 lv n p i true mod0 [] hg hwf hmulti
        hnn hpi (le_refl _) (by omega) (fun _ => by omega)

/-- `computeOneLevelW` never reports `levelFuel` or `modularityUndefined` -/
theorem computeOneLevelW_stop {lv : Level} {m res : Rat} {partition : List (List Nat)} {perm : List Nat} {fuel : Nat}
    {st : Stop} (h : computeOneLevelW lv m res partition perm fuel = .ok (.error st)) :
    st = .sweepFuel ∨ st = .risky := by
  unfold computeOneLevelW at h
  simp only [bind, Outcome.bind] at h
  split at h
  · split at h
    · split at h
      · cases h; exact Or.inl rfl
      · split at h
        · cases h; exact Or.inr rfl
        · cases h
    all_goals cases h
  all_goals cases h

/-! ### the level fuel alone (no assumption on weights, `m`, `res` or the sweep fuel) -/

/-- **the level fuel never runs out**: on every good level graph, for every `m`, `res`, sweep fuel and shuffle, a level
    fuel `≥ inner.length + 2` (`≥ 1` when `improvement = false`) is never the reason why `levelLoopW` stops -/
theorem levelLoopW_levelFuel (weighted : Bool) (res threshold m : Rat) (perms : List (List Nat)) (F1 n : Nat) :
    ∀ (F2 : Nat) (lv : Level) (k : Nat) (partition inner : List (List Nat)) (improvement : Bool) (modularity : Rat)
      (acc : List (List (List Nat))),
    GoodLevel lv n k → lv.g.wf = true → lv.g.specs.multi = false → PI lv k partition inner →
    1 ≤ F2 → (improvement = true → inner.length + 2 ≤ F2) →
    ∃ r, levelLoopW weighted res threshold m perms F1 F2 lv partition inner improvement modularity acc = .ok r ∧
      r ≠ .error .levelFuel := by
  intro F2
  induction F2 with
  | zero => intro lv k partition inner improvement modularity acc _ _ _ _ h1; omega
  | succ F2 ih =>
    intro lv k partition inner improvement modularity acc hg hwf hmulti hpi _ hF2
    unfold levelLoopW
    by_cases himp : improvement = true
    · obtain ⟨hp, hnm⟩ := isPartition_of_part hg hwf hpi.inner_part
      obtain ⟨omod, hmod⟩ := modularity_ok lv.g hwf inner hp hnm weighted res
      simp only [himp, Bool.not_true, Bool.false_eq_true, if_false, bind, Outcome.bind, hmod, Outcome.unwrap]
      cases omod with
      | none => exact ⟨_, rfl, by simp⟩
      | some newMod =>
        simp only
        by_cases hth : newMod - modularity ≤ threshold
        · rw [if_pos hth]; exact ⟨_, rfl, by simp⟩
        · rw [if_neg hth]
          obtain ⟨lv', hgen, hwf', hm', _, hg', hmem'⟩ := generateGraph_spec lv n k hg hwf inner hpi.inner_part
          have hin' : InputOK lv' inner.length partition := hpi.inputOK hmem'
          rw [hmulti] at hm'
          simp only [hgen]
          obtain ⟨r0, hr0⟩ := computeOneLevel_exists hg' hwf' hm' hin' m res (perms[lv'.g.numNodes]?.getD []) F1
          rw [computeOneLevel_erase] at hr0
          cases hr : computeOneLevelW lv' m res partition (perms[lv'.g.numNodes]?.getD []) F1 with
          | err e => rw [hr] at hr0; cases hr0
          | panic e => rw [hr] at hr0; cases hr0
          | ok r =>
            cases r with
            | error st =>
              simp only
              refine ⟨_, rfl, ?_⟩
              intro hc
              injection hc with hc
              subst hc
              rcases computeOneLevelW_stop hr with h | h <;> cases h
            | ok r =>
              obtain ⟨p, i, imp⟩ := r
              simp only
              obtain ⟨hpi', _⟩ := computeOneLevel_post hg' hin' (computeOneLevel_of_W hr)
              obtain ⟨hc1, hc2⟩ := computeOneLevelW_count hg' hin' hr
              have h2 := hF2 himp
              exact ih lv' inner.length p i imp newMod _ hg' hwf' hm' hpi' (by omega)
                (fun hi => by have := hc2 hi; omega)
    · have himp' : improvement = false := by simpa using himp
      simp only [himp', Bool.not_false, if_true]
      exact ⟨_, rfl, by simp⟩

theorem lpTailW_levelFuel (lv : Level) (n : Nat) (hg : GoodLevel lv n n) (hwf : lv.g.wf = true)
    (hmulti : lv.g.specs.multi = false) (hnum : lv.g.numNodes = n) (hmem : ∀ x, mem lv x = [x])
    (weighted : Bool) (res threshold : Rat) (perms : List (List Nat)) (F1 F2 : Nat) (hF2 : n + 2 ≤ F2) :
    ∃ r, lpTailW F1 F2 lv weighted res threshold perms = .ok r ∧ r ≠ .error .levelFuel := by
  have hin : InputOK lv n ((List.range n).map fun i => [i]) := by
    refine ⟨by simp, ?_, ?_⟩
    · intro i hi; rw [getD_map_range, if_pos hi]; simp
    · intro i z hi; rw [getD_map_range, if_pos hi, hmem]
  obtain ⟨hp, hnm⟩ := isPartition_of_part hg hwf (singletons_part n)
  obtain ⟨omod, hmod⟩ := modularity_ok lv.g hwf _ hp hnm weighted res
  unfold lpTailW
  simp only [bind, Outcome.bind, hnum, hmod, Outcome.unwrap]
  cases omod with
  | none => exact ⟨_, rfl, by simp⟩
  | some mod0 =>
    simp only
    obtain ⟨r0, hr0⟩ := computeOneLevel_exists hg hwf hmulti hin (mOf lv weighted) res (perms[n]?.getD []) F1
    rw [computeOneLevel_erase] at hr0
    cases hr : computeOneLevelW lv (mOf lv weighted) res ((List.range n).map fun i => [i]) (perms[n]?.getD []) F1 with
    | err e => rw [hr] at hr0; cases hr0
    | panic e => rw [hr] at hr0; cases hr0
    | ok r =>
      cases r with
      | error st =>
        simp only
        refine ⟨_, rfl, ?_⟩
        intro hc
        injection hc with hc
        subst hc
        rcases computeOneLevelW_stop hr with h | h <;> cases h
      | ok r =>
        obtain ⟨p, i, imp⟩ := r
        simp only
        obtain ⟨hpi, _⟩ := computeOneLevel_post hg hin (computeOneLevel_of_W hr)
        obtain ⟨hc1, _⟩ := computeOneLevelW_count hg hin hr
        exact levelLoopW_levelFuel weighted res threshold _ perms F1 n F2 lv n p i true mod0 [] hg hwf hmulti
          hpi (by omega) (fun _ => by omega)

end LF
end Graphrs
