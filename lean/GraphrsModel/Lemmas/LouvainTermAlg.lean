/-
  Lemmas for Props/C13Termination.lean, part 1 (pure algebra and combinatorics, no store):
  the potential of an assignment of nodes to communities, its change when one node moves, the
  guarantee of the candidate scan `updateBest`, and the counting measure that bounds the number of
  improving moves.
-/
import GraphrsModel.Model.LouvainFull
import GraphrsModel.Props.C13
import GraphrsModel.Lemmas.LouvainVisit
import Mathlib.Algebra.BigOperators.Ring.Finset
import Mathlib.Algebra.BigOperators.Field
import Mathlib.Algebra.Order.BigOperators.Group.Finset
import Mathlib.Algebra.Order.Field.Rat
import Mathlib.Data.Fintype.Pi
import Mathlib.Data.Fintype.BigOperators
import Mathlib.Data.Fintype.Card
import Mathlib.Logic.Function.Basic
import Mathlib.Tactic.Ring
import Mathlib.Tactic.Linarith
import Mathlib.Tactic.FieldSimp
namespace Graphrs
open LouvainFull
namespace LT

/-! ### sums over the nodes of one community -/

/-- `Σ_{x < k, a x = c} p x` -/
def csum (k : Nat) (a : Nat → Nat) (p : Nat → Rat) (c : Nat) : Rat :=
  ∑ x ∈ Finset.range k, if a x = c then p x else 0

theorem csum_congr {k : Nat} {a b : Nat → Nat} (h : ∀ x, x < k → a x = b x) (p : Nat → Rat) (c : Nat) :
    csum k a p c = csum k b p c := by
  unfold csum
  apply Finset.sum_congr rfl
  intro x hx
  rw [h x (Finset.mem_range.1 hx)]

theorem csum_nonneg {k : Nat} {a : Nat → Nat} {p : Nat → Rat} (hp : ∀ x, 0 ≤ p x) (c : Nat) : 0 ≤ csum k a p c := by
  unfold csum
  apply Finset.sum_nonneg
  intro x _
  split
  · exact hp x
  · exact le_refl _

theorem csum_update (k : Nat) (a : Nat → Nat) (p : Nat → Rat) (c u b : Nat) (hu : u < k) :
    csum k (Function.update a u b) p c
      = csum k a p c - (if a u = c then p u else 0) + (if b = c then p u else 0) := by
  unfold csum
  have hmem : u ∈ Finset.range k := Finset.mem_range.2 hu
  rw [← Finset.add_sum_erase _ _ hmem, ← Finset.add_sum_erase (Finset.range k) (fun x => if a x = c then p x else 0) hmem]
  have : ∑ x ∈ (Finset.range k).erase u, (if Function.update a u b x = c then p x else 0)
      = ∑ x ∈ (Finset.range k).erase u, (if a x = c then p x else 0) := by
    apply Finset.sum_congr rfl
    intro x hx
    rw [Function.update_of_ne (Finset.ne_of_mem_erase hx)]
  rw [this, Function.update_self]
  ring

/-- the same sum after `u` (in community `cur`) has been taken out: the `stot` vector between
    `subtract_degree_from_best_com` and `add_degree_to_best_com` -/
def csum1 (k : Nat) (a : Nat → Nat) (p : Nat → Rat) (u c : Nat) : Rat :=
  csum k a p c - (if a u = c then p u else 0)

theorem csum1_nonneg {k : Nat} {a : Nat → Nat} {p : Nat → Rat} (hp : ∀ x, 0 ≤ p x) (u c : Nat) (hu : u < k) :
    0 ≤ csum1 k a p u c := by
  unfold csum1
  by_cases hc : a u = c
  · have h := csum_update k a p c u (c + 1) hu
    have h0 : 0 ≤ csum k (Function.update a u (c + 1)) p c := csum_nonneg hp c
    rw [if_pos hc, if_neg (Nat.succ_ne_self c)] at h
    rw [if_pos hc]
    linarith
  · rw [if_neg hc]
    have := csum_nonneg (k := k) (a := a) hp c
    linarith

/-- `Σ_{c < k} P_c · Q_c` -/
def bsum (k : Nat) (a : Nat → Nat) (p q : Nat → Rat) : Rat := ∑ c ∈ Finset.range k, csum k a p c * csum k a q c

theorem bsum_congr {k : Nat} {a b : Nat → Nat} (h : ∀ x, x < k → a x = b x) (p q : Nat → Rat) :
    bsum k a p q = bsum k b p q := by
  unfold bsum
  apply Finset.sum_congr rfl
  intro c _
  rw [csum_congr h p c, csum_congr h q c]

theorem bsum_update (k : Nat) (a : Nat → Nat) (p q : Nat → Rat) (u b : Nat) (hu : u < k) (hb : b < k)
    (hcur : a u < k) (hne : b ≠ a u) :
    bsum k (Function.update a u b) p q
      = bsum k a p q + p u * (csum1 k a q u b - csum1 k a q u (a u)) + q u * (csum1 k a p u b - csum1 k a p u (a u)) := by
  unfold bsum csum1
  have hpt : ∀ c ∈ Finset.range k, csum k (Function.update a u b) p c * csum k (Function.update a u b) q c
      = csum k a p c * csum k a q c
        + (if b = c then p u * csum k a q c + q u * csum k a p c + p u * q u else 0)
        + (if a u = c then - (p u * csum k a q c) - q u * csum k a p c + p u * q u else 0) := by
    intro c _
    rw [csum_update k a p c u b hu, csum_update k a q c u b hu]
    by_cases h1 : b = c
    · have h2 : ¬ a u = c := fun e => hne (h1.trans e.symm)
      rw [if_pos h1, if_pos h1, if_pos h1, if_neg h2, if_neg h2, if_neg h2]
      ring
    · by_cases h2 : a u = c
      · rw [if_neg h1, if_neg h1, if_neg h1, if_pos h2, if_pos h2, if_pos h2]
        ring
      · rw [if_neg h1, if_neg h1, if_neg h1, if_neg h2, if_neg h2, if_neg h2]
        ring
  rw [Finset.sum_congr rfl hpt, Finset.sum_add_distrib, Finset.sum_add_distrib,
    Finset.sum_ite_eq (Finset.range k) b, Finset.sum_ite_eq (Finset.range k) (a u),
    if_pos (Finset.mem_range.2 hb), if_pos (Finset.mem_range.2 hcur)]
  rw [if_neg hne.symm, if_neg hne.symm, if_pos rfl, if_pos rfl]
  ring

/-! ### sums over the edge list -/

/-- total weight of the edges inside communities -/
def asum (es : List Edge) (a : Nat → Nat) : Rat := (es.map fun e => if a e.u = a e.v then ratW e.w else 0).sum

/-- total weight of the edges between `u` and the other nodes of community `c` (both directions) -/
def wto (es : List Edge) (a : Nat → Nat) (u c : Nat) : Rat :=
  (es.map fun e => (if e.u = u ∧ e.v ≠ u ∧ a e.v = c then ratW e.w else 0)
    + (if e.v = u ∧ e.u ≠ u ∧ a e.u = c then ratW e.w else 0)).sum

theorem list_sum_sub_eq {α : Type} (l : List α) (f g h1 h2 : α → Rat)
    (h : ∀ x ∈ l, f x - g x = h1 x - h2 x) :
    (l.map f).sum - (l.map g).sum = (l.map h1).sum - (l.map h2).sum := by
  induction l with
  | nil => simp
  | cons x l ih =>
    simp only [List.map_cons, List.sum_cons]
    have h0 := h x (by simp)
    have := ih (fun y hy => h y (by simp [hy]))
    linarith

theorem asum_congr {es : List Edge} {k : Nat} (hes : ∀ e ∈ es, e.u < k ∧ e.v < k) {a b : Nat → Nat}
    (h : ∀ x, x < k → a x = b x) : asum es a = asum es b := by
  unfold asum
  congr 1
  apply List.map_congr_left
  intro e he
  rw [h e.u (hes e he).1, h e.v (hes e he).2]

theorem asum_update (es : List Edge) (a : Nat → Nat) (u b : Nat) :
    asum es (Function.update a u b) - asum es a = wto es a u b - wto es a u (a u) := by
  unfold asum wto
  apply list_sum_sub_eq
  intro e _
  by_cases h1 : e.u = u <;> by_cases h2 : e.v = u
  · simp [h1, h2]
  · rw [h1, Function.update_self, Function.update_of_ne h2]
    simp only [true_and, h2, ne_eq, not_false_eq_true, false_and, if_false, add_zero]
    congr 1 <;> exact if_congr eq_comm rfl rfl
  · rw [h2, Function.update_self, Function.update_of_ne h1]
    simp only [true_and, h1, ne_eq, not_false_eq_true, false_and, if_false, zero_add]
  · rw [Function.update_of_ne h1, Function.update_of_ne h2]
    simp [h1, h2]

theorem wto_nonneg {es : List Edge} (hw : ∀ e ∈ es, 0 ≤ ratW e.w) (a : Nat → Nat) (u c : Nat) : 0 ≤ wto es a u c := by
  unfold wto
  apply List.sum_nonneg
  intro x hx
  rw [List.mem_map] at hx
  obtain ⟨e, he, rfl⟩ := hx
  have := hw e he
  split <;> split <;> linarith

/-! ### the potential -/

/-- `Σ_c (L_c / m − res · coef · P_c · Q_c)`, written as two sums -/
def pot (es : List Edge) (k : Nat) (m res coef : Rat) (p q : Nat → Rat) (a : Nat → Nat) : Rat :=
  asum es a / m - res * coef * bsum k a p q

theorem pot_congr {es : List Edge} {k : Nat} (hes : ∀ e ∈ es, e.u < k ∧ e.v < k) (m res coef : Rat) (p q : Nat → Rat)
    {a b : Nat → Nat} (h : ∀ x, x < k → a x = b x) : pot es k m res coef p q a = pot es k m res coef p q b := by
  unfold pot
  rw [asum_congr hes h, bsum_congr h]

theorem pot_update (es : List Edge) (k : Nat) (m res coef : Rat) (p q : Nat → Rat) (a : Nat → Nat) (u b : Nat)
    (hu : u < k) (hb : b < k) (hcur : a u < k) (hne : b ≠ a u) :
    pot es k m res coef p q (Function.update a u b) - pot es k m res coef p q a
      = (wto es a u b - wto es a u (a u)) / m
        - res * coef * (p u * (csum1 k a q u b - csum1 k a q u (a u)) + q u * (csum1 k a p u b - csum1 k a p u (a u))) := by
  unfold pot
  rw [bsum_update k a p q u b hu hb hcur hne]
  have := asum_update es a u b
  have h2 : asum es (Function.update a u b) / m - asum es a / m = (wto es a u b - wto es a u (a u)) / m := by
    rw [← this]; ring
  linarith

/-- undirected potential: `Σ_c termUndirected m res L_c D_c` (see `potU_eq_terms`) -/
def potU (es : List Edge) (k : Nat) (m res : Rat) (d : Nat → Rat) (a : Nat → Nat) : Rat :=
  pot es k m res (1 / (4 * m * m)) d d a

/-- directed potential: `Σ_c termDirected m res L_c Out_c In_c` -/
def potD (es : List Edge) (k : Nat) (m res : Rat) (dout din : Nat → Rat) (a : Nat → Nat) : Rat :=
  pot es k m res (1 / (m * m)) dout din a

theorem potU_update (es : List Edge) (k : Nat) (m res : Rat) (d : Nat → Rat) (a : Nat → Nat) (u b : Nat)
    (hm : 0 < m) (hu : u < k) (hb : b < k) (hcur : a u < k) (hne : b ≠ a u) :
    potU es k m res d (Function.update a u b) - potU es k m res d a
      = (Louvain.gainUndirected m res (wto es a u b) (csum1 k a d u b) (d u)
          - Louvain.gainUndirected m res (wto es a u (a u)) (csum1 k a d u (a u)) (d u)) / (2 * m) := by
  unfold potU
  rw [pot_update es k m res _ d d a u b hu hb hcur hne]
  unfold Louvain.gainUndirected
  have hm' : m ≠ 0 := ne_of_gt hm
  field_simp
  ring

theorem potD_update (es : List Edge) (k : Nat) (m res : Rat) (dout din : Nat → Rat) (a : Nat → Nat) (u b : Nat)
    (hm : 0 < m) (hu : u < k) (hb : b < k) (hcur : a u < k) (hne : b ≠ a u) :
    potD es k m res dout din (Function.update a u b) - potD es k m res dout din a
      = (Louvain.gainDirected m res (wto es a u b) (dout u) (din u) (csum1 k a din u b) (csum1 k a dout u b)
          - Louvain.gainDirected m res (wto es a u (a u)) (dout u) (din u) (csum1 k a din u (a u)) (csum1 k a dout u (a u))) / m := by
  unfold potD
  rw [pot_update es k m res _ dout din a u b hu hb hcur hne]
  unfold Louvain.gainDirected
  have hm' : m ≠ 0 := ne_of_gt hm
  field_simp
  ring

end LT
end Graphrs
