/-
  The invariant of the iterative preorder / low-link strong-components algorithm, over abstract state components:
  `pn` preorder numbers (0 = unvisited), `ll` low-links, `F` found nodes, `S` the scc stack, `Q` the DFS stack
  (top at the head).  Preservation by the four micro-steps: visit, push, pop (non-root), pop (root).
-/
import GraphrsModel.Lemmas.C10Base
namespace Graphrs
namespace Scc
open C10M

def upd (f : Nat → Nat) (a b : Nat) : Nat → Nat := fun x => if x = a then b else f x

theorem upd_same (f : Nat → Nat) (a b : Nat) : upd f a b a = b := by simp [upd]
theorem upd_ne (f : Nat → Nat) (a b : Nat) {x : Nat} (h : x ≠ a) : upd f a b x = f x := by simp [upd, h]

/-- mutual reachability -/
def SC (nbrs : Nat → List Nat) (x y : Nat) : Prop := ReachR nbrs x y ∧ ReachR nbrs y x

theorem SC.refl (nbrs : Nat → List Nat) (x : Nat) : SC nbrs x x := ⟨ReachR.refl x, ReachR.refl x⟩
theorem SC.symm {nbrs : Nat → List Nat} {x y : Nat} (h : SC nbrs x y) : SC nbrs y x := ⟨h.2, h.1⟩
theorem SC.trans {nbrs : Nat → List Nat} {x y z : Nat} (h1 : SC nbrs x y) (h2 : SC nbrs y z) : SC nbrs x z :=
  ⟨ReachR.trans h1.1 h2.1, ReachR.trans h2.2 h1.2⟩

/-- the DFS stack is a path (top at the head) -/
def QChain (nbrs : Nat → List Nat) : List Nat → Prop
  | [] => True
  | [_] => True
  | a :: b :: l => a ∈ nbrs b ∧ QChain nbrs (b :: l)

theorem QChain.tail {nbrs : Nat → List Nat} {a : Nat} {l : List Nat} (h : QChain nbrs (a :: l)) : QChain nbrs l := by
  cases l with
  | nil => trivial
  | cons b l => exact h.2

structure AInv (V : List Nat) (nbrs : Nat → List Nat) (pn ll : Nat → Nat) (F S : List Nat)
    (comps : List (List Nat)) (i : Nat) (Q : List Nat) : Prop where
  qV : ∀ x ∈ Q, x ∈ V
  visV : ∀ x, pn x ≠ 0 → x ∈ V
  nLe : ∀ x, pn x ≤ i
  inj : ∀ x y, pn x ≠ 0 → pn x = pn y → x = y
  qSorted : Q.Pairwise (fun a b => pn b ≠ 0 ∧ (pn a = 0 ∨ pn b < pn a))
  qChain : QChain nbrs Q
  qReach : Q.Pairwise (fun a b => ReachR nbrs b a)
  part : ∀ x, pn x ≠ 0 → x ∈ F ∨ x ∈ S ∨ x ∈ Q
  fVis : ∀ x ∈ F, pn x ≠ 0
  sVis : ∀ x ∈ S, pn x ≠ 0
  fs : ∀ x ∈ F, x ∉ S
  fq : ∀ x ∈ F, x ∉ Q
  sq : ∀ x ∈ S, x ∉ Q
  fClosed : ∀ x ∈ F, ∀ w ∈ nbrs x, w ∈ F
  compsF : ∀ x, x ∈ F ↔ x ∈ comps.flatMap id
  compsNodup : (comps.flatMap id).Nodup
  compsNe : ∀ c ∈ comps, c ≠ []
  compsClass : ∀ c ∈ comps, ∀ x ∈ c, ∀ y, y ∈ c ↔ SC nbrs x y
  sNbrVis : ∀ u ∈ S, ∀ w ∈ nbrs u, pn w ≠ 0
  sToQ : ∀ u ∈ S, ∃ q ∈ Q, pn q ≠ 0 ∧ pn q < pn u ∧ ReachR nbrs u q
  sLow : ∀ u ∈ S, ∃ x, (x ∈ Q ∨ x ∈ S) ∧ pn x ≠ 0 ∧ pn x = ll u ∧ pn x < pn u ∧ ReachR nbrs u x
  qToS : ∀ u ∈ S, ∀ q ∈ Q, pn q ≠ 0 → pn q < pn u → ReachR nbrs q u
  sEdge : ∀ u ∈ S, ∀ w ∈ nbrs u, w ∉ F → pn w ≤ pn u → ll u ≤ pn w
  sLL : ∀ u ∈ S, ∀ q ∈ Q, pn q ≠ 0 → pn q < pn u →
    (∀ q' ∈ Q, pn q' ≠ 0 → pn q' ≤ pn q ∨ pn u < pn q') →
    ∃ c ∈ nbrs q, c ∈ S ∧ pn q < pn c ∧ pn c ≤ pn u ∧ ll c ≤ ll u
  sSuffix : S.Pairwise (fun a b => ∀ q ∈ Q, pn q ≠ 0 → pn q < pn a → pn q < pn b)

/-! ### initial state, start of a new source, end of a run -/

theorem AInv.init (V : List Nat) (nbrs : Nat → List Nat) :
    AInv V nbrs (fun _ => 0) (fun _ => 0) [] [] [] 0 [] := by
  constructor <;> simp [QChain]

theorem AInv.s_nil {V nbrs pn ll F S comps i} (h : AInv V nbrs pn ll F S comps i []) : S = [] := by
  cases S with
  | nil => rfl
  | cons u S =>
    obtain ⟨q, hq, _⟩ := h.sToQ u List.mem_cons_self
    cases hq

theorem AInv.vis_iff_found {V nbrs pn ll F S comps i} (h : AInv V nbrs pn ll F S comps i []) (x : Nat) :
    pn x ≠ 0 ↔ x ∈ F := by
  constructor
  · intro hx
    rcases h.part x hx with hf | hs | hq
    · exact hf
    · rw [h.s_nil] at hs; cases hs
    · cases hq
  · exact h.fVis x

theorem AInv.start {V nbrs pn ll F S comps i} (h : AInv V nbrs pn ll F S comps i []) (src : Nat)
    (hV : src ∈ V) (hF : src ∉ F) : AInv V nbrs pn ll F S comps i [src] ∧ pn src = 0 := by
  have hS : S = [] := h.s_nil
  subst hS
  have hpn : pn src = 0 := by
    by_cases hp : pn src = 0
    · exact hp
    · exact absurd ((h.vis_iff_found src).1 hp) hF
  refine ⟨?_, hpn⟩
  constructor
  · intro x hx; rw [List.mem_singleton] at hx; subst hx; exact hV
  · exact h.visV
  · exact h.nLe
  · exact h.inj
  · simp
  · trivial
  · simp
  · intro x hx; rcases h.part x hx with hf | hs | hq
    · exact Or.inl hf
    · cases hs
    · cases hq
  · exact h.fVis
  · intro x hx; cases hx
  · intro x _ hx; cases hx
  · intro x hx hq; rw [List.mem_singleton] at hq; subst hq; exact hF hx
  · intro x hx; cases hx
  · exact h.fClosed
  · exact h.compsF
  · exact h.compsNodup
  · exact h.compsNe
  · exact h.compsClass
  · intro u hu; cases hu
  · intro u hu; cases hu
  · intro u hu; cases hu
  · intro u hu; cases hu
  · intro u hu; cases hu
  · intro u hu; cases hu
  · simp

/-! ### facts about the DFS stack -/

section stack
variable {V : List Nat} {nbrs : Nat → List Nat} {pn ll : Nat → Nat} {F S : List Nat}
  {comps : List (List Nat)} {i : Nat} {v : Nat} {rest : List Nat}

theorem AInv.rest_vis (h : AInv V nbrs pn ll F S comps i (v :: rest)) : ∀ b ∈ rest, pn b ≠ 0 := by
  intro b hb
  exact ((List.pairwise_cons.1 h.qSorted).1 b hb).1

theorem AInv.rest_lt (h : AInv V nbrs pn ll F S comps i (v :: rest)) (hv : pn v ≠ 0) : ∀ b ∈ rest, pn b < pn v := by
  intro b hb
  rcases ((List.pairwise_cons.1 h.qSorted).1 b hb).2 with h0 | h1
  · exact absurd h0 hv
  · exact h1

theorem AInv.top_not_rest (h : AInv V nbrs pn ll F S comps i (v :: rest)) : v ∉ rest := by
  intro hm
  have h1 := (List.pairwise_cons.1 h.qSorted).1 v hm
  rcases h1.2 with h0 | hlt
  · exact h1.1 h0
  · exact Nat.lt_irrefl _ hlt

theorem AInv.q_le (h : AInv V nbrs pn ll F S comps i (v :: rest)) (hv : pn v ≠ 0) : ∀ b ∈ v :: rest, pn b ≤ pn v := by
  intro b hb
  rcases List.mem_cons.1 hb with rfl | hb
  · exact Nat.le_refl _
  · exact Nat.le_of_lt (h.rest_lt hv b hb)

theorem AInv.rest_reach (h : AInv V nbrs pn ll F S comps i (v :: rest)) : ∀ b ∈ rest, ReachR nbrs b v :=
  (List.pairwise_cons.1 h.qReach).1

theorem AInv.top_not_F (h : AInv V nbrs pn ll F S comps i (v :: rest)) : v ∉ F :=
  fun hf => h.fq v hf List.mem_cons_self

theorem AInv.top_not_S (h : AInv V nbrs pn ll F S comps i (v :: rest)) : v ∉ S :=
  fun hs => h.sq v hs List.mem_cons_self

end stack

/-! ### visit: the top of the DFS stack gets the next preorder number -/

theorem AInv.visit {V : List Nat} {nbrs : Nat → List Nat} {pn ll : Nat → Nat} {F S : List Nat}
    {comps : List (List Nat)} {i : Nat} {v : Nat} {rest : List Nat}
    (h : AInv V nbrs pn ll F S comps i (v :: rest)) (hv : pn v = 0) :
    AInv V nbrs (upd pn v (i + 1)) ll F S comps (i + 1) (v :: rest) := by
  have hsame : ∀ x, pn x ≠ 0 → upd pn v (i + 1) x = pn x := by
    intro x hx
    apply upd_ne
    intro e; subst e; exact hx hv
  have hv' : upd pn v (i + 1) v = i + 1 := upd_same _ _ _
  have hcase : ∀ x, upd pn v (i + 1) x ≠ 0 → x = v ∨ (pn x ≠ 0 ∧ upd pn v (i + 1) x = pn x) := by
    intro x hx
    by_cases e : x = v
    · exact Or.inl e
    · right
      rw [upd_ne _ _ _ e] at hx
      exact ⟨hx, upd_ne _ _ _ e⟩
  have hS : ∀ u ∈ S, upd pn v (i + 1) u = pn u := fun u hu => hsame u (h.sVis u hu)
  have hR : ∀ b ∈ rest, upd pn v (i + 1) b = pn b := fun b hb => hsame b (h.rest_vis b hb)
  have hQvis : ∀ q ∈ v :: rest, upd pn v (i + 1) q ≠ 0 → ∀ u ∈ S, upd pn v (i + 1) q < upd pn v (i + 1) u →
      q ∈ rest ∧ pn q ≠ 0 ∧ upd pn v (i + 1) q = pn q := by
    intro q hq _ u hu hlt
    rcases List.mem_cons.1 hq with rfl | hq
    · rw [hv', hS u hu] at hlt
      have := h.nLe u
      omega
    · exact ⟨hq, h.rest_vis q hq, hR q hq⟩
  constructor
  · exact h.qV
  · intro x hx
    rcases hcase x hx with rfl | ⟨hx', _⟩
    · exact h.qV _ List.mem_cons_self
    · exact h.visV x hx'
  · intro x
    by_cases e : x = v
    · subst e; rw [hv']; exact Nat.le_refl _
    · rw [upd_ne _ _ _ e]; exact Nat.le_succ_of_le (h.nLe x)
  · intro x y hx hxy
    by_cases ex : x = v
    · by_cases ey : y = v
      · rw [ex, ey]
      · subst ex
        rw [hv', upd_ne _ _ _ ey] at hxy
        have := h.nLe y
        omega
    · by_cases ey : y = v
      · subst ey
        rw [hv', upd_ne _ _ _ ex] at hxy
        have := h.nLe x
        omega
      · rw [upd_ne _ _ _ ex] at hx hxy
        rw [upd_ne _ _ _ ey] at hxy
        exact h.inj x y hx hxy
  · rw [List.pairwise_cons]
    constructor
    · intro b hb
      rw [hR b hb, hv']
      refine ⟨h.rest_vis b hb, Or.inr ?_⟩
      have := h.nLe b
      omega
    · have := (List.pairwise_cons.1 h.qSorted).2
      refine List.Pairwise.imp_of_mem ?_ this
      intro a b ha hb hab
      rw [hR a ha, hR b hb]
      exact hab
  · exact h.qChain
  · exact h.qReach
  · intro x hx
    rcases hcase x hx with rfl | ⟨hx', _⟩
    · exact Or.inr (Or.inr List.mem_cons_self)
    · exact h.part x hx'
  · intro x hx
    rw [hsame x (h.fVis x hx)]; exact h.fVis x hx
  · intro x hx
    rw [hS x hx]; exact h.sVis x hx
  · exact h.fs
  · exact h.fq
  · exact h.sq
  · exact h.fClosed
  · exact h.compsF
  · exact h.compsNodup
  · exact h.compsNe
  · exact h.compsClass
  · intro u hu w hw
    rw [hsame w (h.sNbrVis u hu w hw)]; exact h.sNbrVis u hu w hw
  · intro u hu
    obtain ⟨q, hq, h1, h2, h3⟩ := h.sToQ u hu
    exact ⟨q, hq, by rw [hsame q h1]; exact h1, by rw [hsame q h1, hS u hu]; exact h2, h3⟩
  · intro u hu
    obtain ⟨x, hx, h1, h2, h3, h4⟩ := h.sLow u hu
    exact ⟨x, hx, by rw [hsame x h1]; exact h1, by rw [hsame x h1]; exact h2,
      by rw [hsame x h1, hS u hu]; exact h3, h4⟩
  · intro u hu q hq hq0 hlt
    obtain ⟨hq', hq0', hqe⟩ := hQvis q hq hq0 u hu hlt
    rw [hqe, hS u hu] at hlt
    exact h.qToS u hu q hq hq0' hlt
  · intro u hu w hw hwF hle
    have hw0 := h.sNbrVis u hu w hw
    rw [hsame w hw0, hS u hu] at hle
    rw [hsame w hw0]
    exact h.sEdge u hu w hw hwF hle
  · intro u hu q hq hq0 hlt hanc
    obtain ⟨hq', hq0', hqe⟩ := hQvis q hq hq0 u hu hlt
    rw [hqe, hS u hu] at hlt
    obtain ⟨c, hc, hcS, h1, h2, h3⟩ := h.sLL u hu q hq hq0' hlt (by
      intro q' hq' hq'0
      have := hanc q' hq' (by rw [hsame q' hq'0]; exact hq'0)
      rw [hsame q' hq'0, hqe, hS u hu] at this
      exact this)
    exact ⟨c, hc, hcS, by rw [hqe, hS c hcS]; exact h1, by rw [hS c hcS, hS u hu]; exact h2, h3⟩
  · refine List.Pairwise.imp_of_mem ?_ h.sSuffix
    intro a b ha hb hab q hq hq0 hlt
    obtain ⟨hq', hq0', hqe⟩ := hQvis q hq hq0 a ha hlt
    rw [hqe, hS a ha] at hlt
    rw [hqe, hS b hb]
    exact hab q hq hq0' hlt

/-! ### push: an unvisited successor of the (visited) top is pushed -/

theorem AInv.push {V : List Nat} {nbrs : Nat → List Nat} {pn ll : Nat → Nat} {F S : List Nat}
    {comps : List (List Nat)} {i : Nat} {v : Nat} {rest : List Nat}
    (h : AInv V nbrs pn ll F S comps i (v :: rest)) (hv : pn v ≠ 0) (w : Nat) (hw : w ∈ nbrs v) (hw0 : pn w = 0)
    (hwV : w ∈ V) :
    AInv V nbrs pn ll F S comps i (w :: v :: rest) := by
  have hQ : ∀ q ∈ w :: v :: rest, pn q ≠ 0 → q ∈ v :: rest := by
    intro q hq hq0
    rcases List.mem_cons.1 hq with rfl | hq
    · exact absurd hw0 hq0
    · exact hq
  constructor
  · intro x hx
    rcases List.mem_cons.1 hx with rfl | hx
    · exact hwV
    · exact h.qV x hx
  · exact h.visV
  · exact h.nLe
  · exact h.inj
  · rw [List.pairwise_cons]
    refine ⟨?_, h.qSorted⟩
    intro b hb
    refine ⟨?_, Or.inl hw0⟩
    rcases List.mem_cons.1 hb with rfl | hb
    · exact hv
    · exact h.rest_vis b hb
  · exact ⟨hw, h.qChain⟩
  · rw [List.pairwise_cons]
    refine ⟨?_, h.qReach⟩
    intro b hb
    rcases List.mem_cons.1 hb with rfl | hb
    · exact ReachR.single hw
    · exact ReachR.step (h.rest_reach b hb) hw
  · intro x hx
    rcases h.part x hx with hf | hs | hq
    · exact Or.inl hf
    · exact Or.inr (Or.inl hs)
    · exact Or.inr (Or.inr (List.mem_cons_of_mem _ hq))
  · exact h.fVis
  · exact h.sVis
  · exact h.fs
  · intro x hx hq
    rcases List.mem_cons.1 hq with rfl | hq
    · exact h.fVis _ hx hw0
    · exact h.fq x hx hq
  · intro x hx hq
    rcases List.mem_cons.1 hq with rfl | hq
    · exact h.sVis _ hx hw0
    · exact h.sq x hx hq
  · exact h.fClosed
  · exact h.compsF
  · exact h.compsNodup
  · exact h.compsNe
  · exact h.compsClass
  · exact h.sNbrVis
  · intro u hu
    obtain ⟨q, hq, h1, h2, h3⟩ := h.sToQ u hu
    exact ⟨q, List.mem_cons_of_mem _ hq, h1, h2, h3⟩
  · intro u hu
    obtain ⟨x, hx, h1, h2, h3, h4⟩ := h.sLow u hu
    refine ⟨x, ?_, h1, h2, h3, h4⟩
    rcases hx with hx | hx
    · exact Or.inl (List.mem_cons_of_mem _ hx)
    · exact Or.inr hx
  · intro u hu q hq hq0 hlt
    exact h.qToS u hu q (hQ q hq hq0) hq0 hlt
  · exact h.sEdge
  · intro u hu q hq hq0 hlt hanc
    exact h.sLL u hu q (hQ q hq hq0) hq0 hlt (fun q' hq' hq'0 => hanc q' (List.mem_cons_of_mem _ hq') hq'0)
  · refine List.Pairwise.imp ?_ h.sSuffix
    intro a b hab q hq hq0 hlt
    exact hab q (hQ q hq hq0) hq0 hlt

/-! ### pop: the top of the DFS stack is finished -/

section pop
variable {V : List Nat} {nbrs : Nat → List Nat} {pn ll : Nat → Nat} {F S : List Nat}
  {comps : List (List Nat)} {i : Nat} {v : Nat} {rest : List Nat}

/-- a visited, non-found node numbered after the top of the DFS stack is on the scc stack -/
theorem AInv.gt_in_S (h : AInv V nbrs pn ll F S comps i (v :: rest)) (hv : pn v ≠ 0) {w : Nat}
    (hw0 : pn w ≠ 0) (hwF : w ∉ F) (hlt : pn v < pn w) : w ∈ S := by
  rcases h.part w hw0 with hf | hs | hq
  · exact absurd hf hwF
  · exact hs
  · have := h.q_le hv w hq
    omega

/-- a non-root reaches, through its low-link witness, a node strictly below it on the DFS stack -/
theorem AInv.nonroot_witness (h : AInv V nbrs pn ll F S comps i (v :: rest)) (hv : pn v ≠ 0)
    (hall : ∀ w ∈ nbrs v, pn w ≠ 0) (L : Nat) (L1 : L ≤ pn v)
    (L4 : L = pn v ∨ (∃ w ∈ nbrs v, w ∉ F ∧ pn w ≤ pn v ∧ L = pn w) ∨
      (∃ w ∈ nbrs v, w ∉ F ∧ pn v < pn w ∧ L = ll w))
    (hne : L ≠ pn v) :
    (∃ x, (x ∈ rest ∨ x ∈ S) ∧ pn x ≠ 0 ∧ pn x = L ∧ pn x < pn v ∧ ReachR nbrs v x) ∧
    (∃ q ∈ rest, pn q ≠ 0 ∧ pn q < pn v ∧ ReachR nbrs v q) := by
  have hLlt : L < pn v := Nat.lt_of_le_of_ne L1 hne
  have hx : ∃ x, (x ∈ rest ∨ x ∈ S) ∧ pn x ≠ 0 ∧ pn x = L ∧ pn x < pn v ∧ ReachR nbrs v x := by
    rcases L4 with e | ⟨w, hw, hwF, hle, e⟩ | ⟨w, hw, hwF, hlt, e⟩
    · exact absurd e hne
    · have hw0 := hall w hw
      have hwv : w ≠ v := by intro e'; subst e'; omega
      refine ⟨w, ?_, hw0, e.symm, by omega, ReachR.single hw⟩
      rcases h.part w hw0 with hf | hs | hq
      · exact absurd hf hwF
      · exact Or.inr hs
      · rcases List.mem_cons.1 hq with e' | hq
        · exact absurd e' hwv
        · exact Or.inl hq
    · have hw0 := hall w hw
      have hwS : w ∈ S := h.gt_in_S hv hw0 hwF hlt
      obtain ⟨x, hxm, h1, h2, _, h4⟩ := h.sLow w hwS
      have hxv : x ≠ v := by intro e'; subst e'; omega
      refine ⟨x, ?_, h1, by omega, by omega, ReachR.head hw h4⟩
      rcases hxm with hq | hs
      · rcases List.mem_cons.1 hq with e' | hq
        · exact absurd e' hxv
        · exact Or.inl hq
      · exact Or.inr hs
  refine ⟨hx, ?_⟩
  obtain ⟨x, hxm, h1, _, h3, h4⟩ := hx
  rcases hxm with hq | hs
  · exact ⟨x, hq, h1, h3, h4⟩
  · obtain ⟨q, hq, g1, g2, g3⟩ := h.sToQ x hs
    have hqv : q ≠ v := by intro e'; subst e'; omega
    rcases List.mem_cons.1 hq with e' | hq
    · exact absurd e' hqv
    · exact ⟨q, hq, g1, by omega, ReachR.trans h4 g3⟩

theorem AInv.popNR (h : AInv V nbrs pn ll F S comps i (v :: rest)) (hv : pn v ≠ 0)
    (hall : ∀ w ∈ nbrs v, pn w ≠ 0) (L : Nat) (L1 : L ≤ pn v)
    (L2 : ∀ w ∈ nbrs v, w ∉ F → pn w ≤ pn v → L ≤ pn w)
    (L3 : ∀ w ∈ nbrs v, w ∉ F → pn v < pn w → L ≤ ll w)
    (L4 : L = pn v ∨ (∃ w ∈ nbrs v, w ∉ F ∧ pn w ≤ pn v ∧ L = pn w) ∨
      (∃ w ∈ nbrs v, w ∉ F ∧ pn v < pn w ∧ L = ll w))
    (hne : L ≠ pn v) :
    AInv V nbrs pn (upd ll v L) F (S ++ [v]) comps i rest := by
  obtain ⟨⟨x0, hx0m, hx00, hx0L, hx0lt, hx0r⟩, ⟨q0, hq0m, hq00, hq0lt, hq0r⟩⟩ :=
    h.nonroot_witness hv hall L L1 L4 hne
  have hvS : v ∉ S := h.top_not_S
  have hllS : ∀ u ∈ S, upd ll v L u = ll u := by
    intro u hu
    apply upd_ne
    intro e; subst e; exact hvS hu
  have hllv : upd ll v L v = L := upd_same _ _ _
  have hsorted := List.pairwise_cons.1 h.qSorted
  have hreach := List.pairwise_cons.1 h.qReach
  constructor
  · intro x hx; exact h.qV x (List.mem_cons_of_mem _ hx)
  · exact h.visV
  · exact h.nLe
  · exact h.inj
  · exact hsorted.2
  · exact h.qChain.tail
  · exact hreach.2
  · intro x hx
    rcases h.part x hx with hf | hs | hq
    · exact Or.inl hf
    · exact Or.inr (Or.inl (List.mem_append_left _ hs))
    · rcases List.mem_cons.1 hq with rfl | hq
      · exact Or.inr (Or.inl (by simp))
      · exact Or.inr (Or.inr hq)
  · exact h.fVis
  · intro x hx
    rcases List.mem_append.1 hx with hs | hs
    · exact h.sVis x hs
    · rw [List.mem_singleton] at hs; subst hs; exact hv
  · intro x hx hs
    rcases List.mem_append.1 hs with hs | hs
    · exact h.fs x hx hs
    · rw [List.mem_singleton] at hs; subst hs; exact h.top_not_F hx
  · intro x hx hq; exact h.fq x hx (List.mem_cons_of_mem _ hq)
  · intro x hx hq
    rcases List.mem_append.1 hx with hs | hs
    · exact h.sq x hs (List.mem_cons_of_mem _ hq)
    · rw [List.mem_singleton] at hs; subst hs; exact h.top_not_rest hq
  · exact h.fClosed
  · exact h.compsF
  · exact h.compsNodup
  · exact h.compsNe
  · exact h.compsClass
  · intro u hu w hw
    rcases List.mem_append.1 hu with hs | hs
    · exact h.sNbrVis u hs w hw
    · rw [List.mem_singleton] at hs; subst hs; exact hall w hw
  · intro u hu
    rcases List.mem_append.1 hu with hs | hs
    · obtain ⟨q, hq, h1, h2, h3⟩ := h.sToQ u hs
      rcases List.mem_cons.1 hq with rfl | hq
      · exact ⟨q0, hq0m, hq00, by omega, ReachR.trans h3 hq0r⟩
      · exact ⟨q, hq, h1, h2, h3⟩
    · rw [List.mem_singleton] at hs; subst hs
      exact ⟨q0, hq0m, hq00, hq0lt, hq0r⟩
  · intro u hu
    rcases List.mem_append.1 hu with hs | hs
    · obtain ⟨x, hx, h1, h2, h3, h4⟩ := h.sLow u hs
      refine ⟨x, ?_, h1, by rw [hllS u hs]; exact h2, h3, h4⟩
      rcases hx with hq | hx
      · rcases List.mem_cons.1 hq with rfl | hq
        · exact Or.inr (by simp)
        · exact Or.inl hq
      · exact Or.inr (List.mem_append_left _ hx)
    · rw [List.mem_singleton] at hs; subst hs
      refine ⟨x0, ?_, hx00, by rw [hllv]; exact hx0L, hx0lt, hx0r⟩
      rcases hx0m with hq | hx
      · exact Or.inl hq
      · exact Or.inr (List.mem_append_left _ hx)
  · intro u hu q hq hq0 hlt
    rcases List.mem_append.1 hu with hs | hs
    · exact h.qToS u hs q (List.mem_cons_of_mem _ hq) hq0 hlt
    · rw [List.mem_singleton] at hs; subst hs
      exact hreach.1 q hq
  · intro u hu w hw hwF hle
    rcases List.mem_append.1 hu with hs | hs
    · rw [hllS u hs]; exact h.sEdge u hs w hw hwF hle
    · rw [List.mem_singleton] at hs; subst hs
      rw [hllv]; exact L2 w hw hwF hle
  · intro u hu q hq hq0 hlt hanc
    -- the top of the remaining stack
    cases rest with
    | nil => cases hq
    | cons v' r =>
      have hv'0 : pn v' ≠ 0 := h.rest_vis v' List.mem_cons_self
      have hv'lt : pn v' < pn v := h.rest_lt hv v' List.mem_cons_self
      have hvv' : v ∈ nbrs v' := h.qChain.1
      have hsr := List.pairwise_cons.1 hsorted.2
      have hqtop : pn v ≤ pn u → q = v' := by
        intro hle
        rcases hanc v' List.mem_cons_self hv'0 with h1 | h1
        · rcases List.mem_cons.1 hq with e | hq'
          · exact e
          · rcases (hsr.1 q hq').2 with h0 | h2
            · exact absurd h0 hv'0
            · omega
        · omega
      rcases List.mem_append.1 hu with hs | hs
      · have hune : u ≠ v := by intro e; subst e; exact hvS hs
        by_cases hcmp : pn u < pn v
        · obtain ⟨c, hc, hcS, h1, h2, h3⟩ := h.sLL u hs q (List.mem_cons_of_mem _ hq) hq0 hlt (by
            intro q' hq' hq'0
            rcases List.mem_cons.1 hq' with rfl | hq'
            · exact Or.inr hcmp
            · exact hanc q' hq' hq'0)
          exact ⟨c, hc, List.mem_append_left _ hcS, h1, h2, by rw [hllS c hcS, hllS u hs]; exact h3⟩
        · have hgt : pn v < pn u := by
            rcases Nat.lt_or_ge (pn v) (pn u) with g | g
            · exact g
            · have : pn v = pn u := by omega
              exact absurd (h.inj v u hv this).symm hune
          obtain ⟨c, hc, hcS, h1, h2, h3⟩ := h.sLL u hs v List.mem_cons_self hv hgt (by
            intro q' hq' _
            exact Or.inl (h.q_le hv q' hq'))
          have hqe := hqtop (Nat.le_of_lt hgt)
          subst hqe
          refine ⟨v, hvv', by simp, hv'lt, Nat.le_of_lt hgt, ?_⟩
          rw [hllv, hllS u hs]
          exact Nat.le_trans (L3 c hc (fun hf => h.fs c hf hcS) h1) h3
      · rw [List.mem_singleton] at hs; subst hs
        have hqe := hqtop (Nat.le_refl _)
        subst hqe
        exact ⟨u, hvv', by simp, hv'lt, Nat.le_refl _, Nat.le_refl _⟩
  · rw [List.pairwise_append]
    refine ⟨?_, by simp, ?_⟩
    · refine List.Pairwise.imp ?_ h.sSuffix
      intro a b hab q hq hq0 hlt
      exact hab q (List.mem_cons_of_mem _ hq) hq0 hlt
    · intro a _ b hb q hq _ _
      rw [List.mem_singleton] at hb; subst hb
      exact h.rest_lt hv q hq

/-- **the root case**: the popped set is exactly the strongly connected class of the root -/
theorem AInv.popR (h : AInv V nbrs pn ll F S comps i (v :: rest)) (hv : pn v ≠ 0)
    (hall : ∀ w ∈ nbrs v, pn w ≠ 0)
    (R2 : ∀ w ∈ nbrs v, w ∉ F → pn w ≤ pn v → pn v ≤ pn w)
    (R3 : ∀ w ∈ nbrs v, w ∉ F → pn v < pn w → pn v ≤ ll w)
    (llv : Nat) (S' C F' : List Nat)
    (hS' : ∀ x, x ∈ S' ↔ x ∈ S ∧ pn x ≤ pn v) (hsub : S'.Sublist S)
    (hC : ∀ x, x ∈ C ↔ x = v ∨ (x ∈ S ∧ pn v < pn x)) (hCnd : C.Nodup)
    (hF' : ∀ x, x ∈ F' ↔ x ∈ F ∨ x ∈ C) :
    AInv V nbrs pn (upd ll v llv) F' S' (comps ++ [C]) i rest := by
  have hvS : v ∉ S := h.top_not_S
  have hvF : v ∉ F := h.top_not_F
  have hllS : ∀ u ∈ S, upd ll v llv u = ll u := by
    intro u hu
    apply upd_ne
    intro e; subst e; exact hvS hu
  have hsorted := List.pairwise_cons.1 h.qSorted
  have hreach := List.pairwise_cons.1 h.qReach
  have hS'lt : ∀ u ∈ S', u ∈ S ∧ pn u < pn v := by
    intro u hu
    obtain ⟨hs, hle⟩ := (hS' u).1 hu
    refine ⟨hs, ?_⟩
    rcases Nat.lt_or_ge (pn u) (pn v) with g | g
    · exact g
    · have : pn v = pn u := by omega
      have := h.inj v u hv this
      subst this
      exact absurd hs hvS
  have hCF : ∀ x ∈ C, x ∉ F := by
    intro x hx hf
    rcases (hC x).1 hx with rfl | ⟨hs, _⟩
    · exact hvF hf
    · exact h.fs x hf hs
  have hvC : v ∈ C := (hC v).2 (Or.inl rfl)
  -- every node of C is mutually reachable with v
  have hCsc : ∀ x ∈ C, SC nbrs v x := by
    intro x hx
    rcases (hC x).1 hx with rfl | ⟨hs, hlt⟩
    · exact SC.refl _ _
    · refine ⟨h.qToS x hs v List.mem_cons_self hv hlt, ?_⟩
      obtain ⟨q, hq, _, _, g3⟩ := h.sToQ x hs
      rcases List.mem_cons.1 hq with rfl | hq
      · exact g3
      · exact ReachR.trans g3 (hreach.1 q hq)
  -- low-links of the popped nodes are at least pn v
  have hDll : ∀ u ∈ S, pn v < pn u → pn v ≤ ll u := by
    intro u hs hlt
    obtain ⟨c, hc, hcS, h1, _, h3⟩ := h.sLL u hs v List.mem_cons_self hv hlt (by
      intro q' hq' _
      exact Or.inl (h.q_le hv q' hq'))
    exact Nat.le_trans (R3 c hc (fun hf => h.fs c hf hcS) h1) h3
  -- F ∪ C is closed under successors
  have hclosed : ∀ x, (x ∈ F ∨ x ∈ C) → ∀ w ∈ nbrs x, (w ∈ F ∨ w ∈ C) := by
    intro x hx w hw
    by_cases hwF : w ∈ F
    · exact Or.inl hwF
    right
    rcases hx with hf | hc
    · exact absurd (h.fClosed x hf w hw) hwF
    · have key : pn w ≠ 0 → pn v ≤ pn w → w ∈ C := by
        intro hw0 hle
        rcases Nat.lt_or_ge (pn v) (pn w) with g | g
        · exact (hC w).2 (Or.inr ⟨h.gt_in_S hv hw0 hwF g, g⟩)
        · have : pn v = pn w := by omega
          have := h.inj v w hv this
          subst this
          exact hvC
      rcases (hC x).1 hc with rfl | ⟨hs, hlt⟩
      · have hw0 := hall w hw
        rcases Nat.lt_or_ge (pn x) (pn w) with g | g
        · exact key hw0 (Nat.le_of_lt g)
        · exact key hw0 (R2 w hw hwF g)
      · have hw0 := h.sNbrVis x hs w hw
        rcases Nat.lt_or_ge (pn x) (pn w) with g | g
        · exact key hw0 (by omega)
        · have := h.sEdge x hs w hw hwF g
          have := hDll x hs hlt
          exact key hw0 (by omega)
  -- hence the class of v is inside C
  have hclass : ∀ y, SC nbrs v y → y ∈ C := by
    intro y hy
    have : y ∈ F ∨ y ∈ C :=
      ReachR.closed (P := fun z => z ∈ F ∨ z ∈ C) (fun a b ha hb => hclosed a ha b hb) (Or.inr hvC) hy.1
    rcases this with hf | hc
    · exfalso
      obtain ⟨c, hcm, hyc⟩ := List.mem_flatMap.1 ((h.compsF y).1 hf)
      have hvc : v ∈ c := (h.compsClass c hcm y hyc v).2 hy.symm
      exact hvF ((h.compsF v).2 (List.mem_flatMap.2 ⟨c, hcm, hvc⟩))
    · exact hc
  have hflat : (comps ++ [C]).flatMap id = comps.flatMap id ++ C := by simp
  constructor
  · intro x hx; exact h.qV x (List.mem_cons_of_mem _ hx)
  · exact h.visV
  · exact h.nLe
  · exact h.inj
  · exact hsorted.2
  · exact h.qChain.tail
  · exact hreach.2
  · intro x hx
    rcases h.part x hx with hf | hs | hq
    · exact Or.inl ((hF' x).2 (Or.inl hf))
    · rcases Nat.lt_or_ge (pn v) (pn x) with g | g
      · exact Or.inl ((hF' x).2 (Or.inr ((hC x).2 (Or.inr ⟨hs, g⟩))))
      · exact Or.inr (Or.inl ((hS' x).2 ⟨hs, g⟩))
    · rcases List.mem_cons.1 hq with rfl | hq
      · exact Or.inl ((hF' _).2 (Or.inr hvC))
      · exact Or.inr (Or.inr hq)
  · intro x hx
    rcases (hF' x).1 hx with hf | hc
    · exact h.fVis x hf
    · rcases (hC x).1 hc with rfl | ⟨hs, _⟩
      · exact hv
      · exact h.sVis x hs
  · intro x hx; exact h.sVis x ((hS' x).1 hx).1
  · intro x hx hs
    obtain ⟨hs1, hlt⟩ := hS'lt x hs
    rcases (hF' x).1 hx with hf | hc
    · exact h.fs x hf hs1
    · rcases (hC x).1 hc with rfl | ⟨_, hgt⟩
      · exact hvS hs1
      · omega
  · intro x hx hq
    rcases (hF' x).1 hx with hf | hc
    · exact h.fq x hf (List.mem_cons_of_mem _ hq)
    · rcases (hC x).1 hc with rfl | ⟨hs, _⟩
      · exact h.top_not_rest hq
      · exact h.sq x hs (List.mem_cons_of_mem _ hq)
  · intro x hx hq; exact h.sq x ((hS' x).1 hx).1 (List.mem_cons_of_mem _ hq)
  · intro x hx w hw
    exact (hF' w).2 (hclosed x ((hF' x).1 hx) w hw)
  · intro x
    rw [hflat, List.mem_append, hF' x, h.compsF x]
  · rw [hflat, List.nodup_append]
    refine ⟨h.compsNodup, hCnd, ?_⟩
    intro a ha b hb hab
    subst hab
    exact hCF a hb ((h.compsF a).2 ha)
  · intro c hc
    rcases List.mem_append.1 hc with hc | hc
    · exact h.compsNe c hc
    · rw [List.mem_singleton] at hc; subst hc
      intro e; rw [e] at hvC; cases hvC
  · intro c hc
    rcases List.mem_append.1 hc with hc | hc
    · exact h.compsClass c hc
    · rw [List.mem_singleton] at hc; subst hc
      intro x hx y
      have hvx := hCsc x hx
      constructor
      · intro hy
        exact SC.trans hvx.symm (hCsc y hy)
      · intro hxy
        exact hclass y (SC.trans hvx hxy)
  · intro u hu; exact h.sNbrVis u ((hS' u).1 hu).1
  · intro u hu
    obtain ⟨hs, hlt⟩ := hS'lt u hu
    obtain ⟨q, hq, h1, h2, h3⟩ := h.sToQ u hs
    rcases List.mem_cons.1 hq with rfl | hq
    · omega
    · exact ⟨q, hq, h1, h2, h3⟩
  · intro u hu
    obtain ⟨hs, hlt⟩ := hS'lt u hu
    obtain ⟨x, hx, h1, h2, h3, h4⟩ := h.sLow u hs
    refine ⟨x, ?_, h1, by rw [hllS u hs]; exact h2, h3, h4⟩
    rcases hx with hq | hx
    · rcases List.mem_cons.1 hq with rfl | hq
      · omega
      · exact Or.inl hq
    · exact Or.inr ((hS' x).2 ⟨hx, by omega⟩)
  · intro u hu q hq hq0 hlt
    exact h.qToS u ((hS' u).1 hu).1 q (List.mem_cons_of_mem _ hq) hq0 hlt
  · intro u hu w hw hwF hle
    obtain ⟨hs, _⟩ := hS'lt u hu
    rw [hllS u hs]
    exact h.sEdge u hs w hw (fun hf => hwF ((hF' w).2 (Or.inl hf))) hle
  · intro u hu q hq hq0 hlt hanc
    obtain ⟨hs, hult⟩ := hS'lt u hu
    obtain ⟨c, hc, hcS, h1, h2, h3⟩ := h.sLL u hs q (List.mem_cons_of_mem _ hq) hq0 hlt (by
      intro q' hq' hq'0
      rcases List.mem_cons.1 hq' with rfl | hq'
      · exact Or.inr hult
      · exact hanc q' hq' hq'0)
    exact ⟨c, hc, (hS' c).2 ⟨hcS, by omega⟩, h1, h2, by rw [hllS c hcS, hllS u hs]; exact h3⟩
  · refine List.Pairwise.imp ?_ (h.sSuffix.sublist hsub)
    intro a b hab q hq hq0 hlt
    exact hab q (List.mem_cons_of_mem _ hq) hq0 hlt

end pop

end Scc
end Graphrs
