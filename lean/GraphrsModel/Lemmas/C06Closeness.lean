/-
  `closeness_centrality` against `ccSpec`: the per-source fold, `get_node_centrality`, and the multiset of incoming
  distances.
-/
import GraphrsModel.Lemmas.C06Transfer
import Mathlib.Algebra.BigOperators.Group.List.Basic
import Mathlib.Data.List.Nodup
namespace Graphrs
namespace C06C

/-! ## `ccSpec` entry by entry -/

def ccDs (nodes : List Nat) (arcs : Arcs) (u : Nat) : List Int :=
  nodes.filterMap fun s => alookup (Arcs.distFrom arcs nodes.length s) u

def ccVal (nodes : List Nat) (arcs : Arcs) (wf : Bool) (u : Nat) : Rat :=
  if (ccDs nodes arcs u).length ≤ 1 || sumInt (ccDs nodes arcs u) == 0 then 0
  else
    if wf then ((((ccDs nodes arcs u).length - 1 : Nat) : Rat) / ((sumInt (ccDs nodes arcs u) : Int) : Rat)) *
      ((((ccDs nodes arcs u).length - 1 : Nat) : Rat) / ((nodes.length - 1 : Nat) : Rat))
    else (((ccDs nodes arcs u).length - 1 : Nat) : Rat) / ((sumInt (ccDs nodes arcs u) : Int) : Rat)

theorem ccSpec_eq (nodes : List Nat) (arcs : Arcs) (wf : Bool) :
    ccSpec nodes arcs wf = nodes.map fun u => (u, ccVal nodes arcs wf u) := by
  unfold ccSpec
  apply List.map_congr_left
  intro u _
  simp only [List.filterMap_map, Function.comp_def]
  unfold ccVal ccDs
  split <;> rfl

theorem alookup_ccSpec (nodes : List Nat) (arcs : Arcs) (wf : Bool) (u : Nat) :
    alookup (ccSpec nodes arcs wf) u = if u ∈ nodes then some (ccVal nodes arcs wf u) else none := by
  rw [ccSpec_eq]
  exact C09M.alookup_map_self nodes _ u

/-! ## sums -/

theorem sumInt_eq_sum (l : List Int) : sumInt l = l.sum := by
  unfold sumInt
  have : ∀ acc, l.foldl (· + ·) acc = acc + l.sum := by
    induction l with
    | nil => simp
    | cons a l ih => intro acc; simp [List.foldl_cons, ih]; omega
  simpa using this 0

theorem sumInt_perm {l1 l2 : List Int} (h : l1.Perm l2) : sumInt l1 = sumInt l2 := by
  rw [sumInt_eq_sum, sumInt_eq_sum]; exact h.sum_eq

theorem sumInt_nonneg (l : List Int) (h : ∀ d ∈ l, 0 ≤ d) : 0 ≤ sumInt l := by
  rw [sumInt_eq_sum]
  induction l with
  | nil => simp
  | cons a l ih =>
    rw [List.sum_cons]
    have := h a (List.mem_cons_self ..)
    have := ih (fun d hd => h d (List.mem_cons_of_mem _ hd))
    omega

/-! ## `get_node_centrality` against the formula of `ccSpec` -/

theorem nodeCentrality_eq (sp : List (Nat × Int)) (ds : List Int) (n m : Nat) (wf : Bool) (hnm : n = m)
    (hlen : sp.length = ds.length) (hsum : sumInt (sp.map (·.2)) = sumInt ds)
    (hcond : (sumInt ds > 0 ∧ n > 1) ↔ ¬ (ds.length ≤ 1 ∨ sumInt ds = 0)) :
    nodeCentrality sp n wf =
      (if ds.length ≤ 1 || sumInt ds == 0 then 0
       else
        if wf then (((ds.length - 1 : Nat) : Rat) / ((sumInt ds : Int) : Rat)) *
          (((ds.length - 1 : Nat) : Rat) / ((m - 1 : Nat) : Rat))
        else ((ds.length - 1 : Nat) : Rat) / ((sumInt ds : Int) : Rat)) := by
  subst hnm
  unfold nodeCentrality
  simp only [hlen, hsum]
  by_cases hc : sumInt ds > 0 ∧ n > 1
  · have hc' := hcond.1 hc
    have h1 : (decide (sumInt ds > 0) && decide (n > 1)) = true := by simp [hc.1, hc.2]
    have h2 : (decide (ds.length ≤ 1) || sumInt ds == 0) = false := by
      rw [Bool.eq_false_iff]
      intro h
      apply hc'
      simpa using h
    rw [if_pos h1, h2]
    cases wf <;> simp
  · have hc' : ds.length ≤ 1 ∨ sumInt ds = 0 := by
      by_cases h : ds.length ≤ 1 ∨ sumInt ds = 0
      · exact h
      · exact absurd (hcond.2 h) hc
    have h1 : ¬ (decide (sumInt ds > 0) && decide (n > 1)) = true := by simpa using hc
    have h2 : (decide (ds.length ≤ 1) || sumInt ds == 0) = true := by simpa using hc'
    rw [if_neg h1, h2]
    simp

/-! ## the multiset of distances -/

theorem filterMap_eq_range {α β : Type} (l : List α) (G : α → Option β) :
    l.filterMap G = (List.range l.length).filterMap (fun j => l[j]?.bind G) := by
  induction l with
  | nil => simp
  | cons a l ih =>
    rw [List.length_cons, List.range_succ_eq_map, List.filterMap_cons, List.filterMap_cons, List.filterMap_map]
    simp only [List.getElem?_cons_zero, Option.bind_some, Function.comp_def, List.getElem?_cons_succ]
    rw [← ih]

theorem dist_perm {names : List Nat} {IA NA : Arcs} {i u : Nat} {sp : List (Nat × Int)} (G : Nat → Option Int)
    (hsp_nd : (sp.map (·.1)).Nodup) (hsp : ∀ j d, (j, d) ∈ sp ↔ IsDist IA i j d)
    (hsim : ∀ j y d, names[j]? = some y → (IsDist IA i j d ↔ IsDist NA y u d))
    (hrange : ∀ j d, IsDist IA i j d → j < names.length)
    (hexact : ∀ src ∈ names, ∀ d, G src = some d ↔ IsDist NA src u d) :
    (sp.map (·.2)).Perm (names.filterMap G) := by
  rw [filterMap_eq_range]
  have hmap : (List.range names.length).filterMap (fun j => names[j]?.bind G) =
      ((List.range names.length).filterMap (fun j => (names[j]?.bind G).map (fun d => (j, d)))).map (·.2) := by
    rw [List.map_filterMap]
    congr 1
    funext j
    cases names[j]?.bind G <;> rfl
  rw [hmap]
  apply List.Perm.map
  have hLnd : ((List.range names.length).filterMap
      (fun j => (names[j]?.bind G).map (fun d => (j, d)))).Nodup := by
    apply List.Nodup.filterMap _ List.nodup_range
    intro a a' b hb hb'
    simp only [Option.mem_def, Option.map_eq_some_iff] at hb hb'
    obtain ⟨_, _, e⟩ := hb
    obtain ⟨_, _, e'⟩ := hb'
    rw [← e'] at e
    exact (Prod.mk.inj e).1
  rw [List.perm_ext_iff_of_nodup (List.Nodup.of_map _ hsp_nd) hLnd]
  · intro p
    obtain ⟨j, d⟩ := p
    rw [hsp, List.mem_filterMap]
    constructor
    · intro hd
      have hj := hrange j d hd
      refine ⟨j, List.mem_range.2 hj, ?_⟩
      have hy : names[j]? = some names[j] := List.getElem?_eq_getElem hj
      rw [hy]
      simp only [Option.bind_some, Option.map_eq_some_iff, Prod.mk.injEq, true_and, exists_eq_right]
      exact (hexact _ (List.getElem_mem hj) d).2 ((hsim j _ d hy).1 hd)
    · rintro ⟨j', hj', he⟩
      rw [List.mem_range] at hj'
      have hy : names[j']? = some names[j'] := List.getElem?_eq_getElem hj'
      rw [hy] at he
      simp only [Option.bind_some, Option.map_eq_some_iff, Prod.mk.injEq] at he
      obtain ⟨d', hd', e1, e2⟩ := he
      subst e1 e2
      exact (hsim j' _ d' hy).2 ((hexact _ (List.getElem_mem hj') d').1 hd')

/-! ## the per-source fold -/

theorem fold_ok (getNode : Nat → Option Node) (val : Nat → Rat)
    (F : Outcome (List (Nat × Rat)) → Nat → Outcome (List (Nat × Rat)))
    (hF : ∀ acc i nd, getNode i = some nd → F (.ok acc) i = .ok (ainsert acc nd.name (val i)))
    (l : List Nat) : ∀ (acc : List (Nat × Rat)), (∀ i ∈ l, ∃ nd, getNode i = some nd) →
    l.foldl F (.ok acc) =
      .ok (l.foldl (fun acc i => ainsert acc (((getNode i).map (·.name)).getD 0) (val i)) acc) := by
  induction l with
  | nil => intro acc _; rfl
  | cons i l ih =>
    intro acc hl
    obtain ⟨nd, hnd⟩ := hl i (List.mem_cons_self ..)
    rw [List.foldl_cons, List.foldl_cons, hF acc i nd hnd, ih _ (fun j hj => hl j (List.mem_cons_of_mem _ hj))]
    simp [hnd]

theorem alookup_fold_not_mem (key : Nat → Nat) (val : Nat → Rat) (l : List Nat) :
    ∀ (acc : List (Nat × Rat)) (x : Nat), (∀ i ∈ l, key i ≠ x) →
    alookup (l.foldl (fun acc i => ainsert acc (key i) (val i)) acc) x = alookup acc x := by
  induction l with
  | nil => intro acc x _; rfl
  | cons j l ih =>
    intro acc x hx
    rw [List.foldl_cons, ih _ x (fun i hi => hx i (List.mem_cons_of_mem _ hi)), alookup_ainsert]
    simp [hx j (List.mem_cons_self ..)]

theorem alookup_fold_mem (key : Nat → Nat) (val : Nat → Rat) (l : List Nat) :
    ∀ (acc : List (Nat × Rat)), (l.map key).Nodup → ∀ i ∈ l,
    alookup (l.foldl (fun acc i => ainsert acc (key i) (val i)) acc) (key i) = some (val i) := by
  induction l with
  | nil => intro acc _ i hi; simp at hi
  | cons j l ih =>
    intro acc hnd i hi
    rw [List.map_cons, List.nodup_cons] at hnd
    rw [List.foldl_cons]
    rw [List.mem_cons] at hi
    rcases hi with rfl | hi
    · rw [alookup_fold_not_mem key val l _ _ (fun k hk e => hnd.1 (by rw [← e]; exact List.mem_map_of_mem hk)),
        alookup_ainsert]
      simp
    · exact ih _ hnd.2 i hi

/-! ## `closeness_centrality` on the graph it runs on -/

/-- the per-source search of closeness.rs -/
def spOf (g : Store) (weighted : Bool) (src : Nat) : List (Nat × Int) :=
  if weighted then ccWeighted (fun v => g.succVec[v]?.getD []) g.numberOfNodes g.totalAdj src
  else ccLevels (fun v => g.succVec[v]?.getD []) g.numberOfNodes (g.numberOfNodes + 1) [src] [] 0 []

/-- the body of `closeness_centrality` after the optional `reverse()` -/
def closenessOn (g : Store) (weighted wf : Bool) : Outcome (List (Nat × Rat)) :=
  (List.range g.numberOfNodes).foldl (fun acc src => do
    let out ← acc
    let nd ← Outcome.ofOption "closeness: get_node_by_index().unwrap()" (g.getNodeByIndex src)
    .ok (ainsert out nd.name (nodeCentrality (spOf g weighted src) g.numberOfNodes wf))) (.ok [])

theorem closeness_eq (s : Store) (weighted wf : Bool) :
    s.closeness weighted wf =
      (if s.specs.directed then (s.reverse.unwrap "closeness: reverse().unwrap()").bind (closenessOn · weighted wf)
       else closenessOn s weighted wf) := by
  unfold Store.closeness
  by_cases hd : s.specs.directed = true
  · simp only [hd, if_true]; rfl
  · simp only [hd]; rfl

theorem eq_singleton_of_length_le_one {α} {l : List α} {p : α} (hl : l.length ≤ 1) (hp : p ∈ l) : l = [p] := by
  cases l with
  | nil => simp at hp
  | cons a l =>
    cases l with
    | nil => simp at hp; rw [hp]
    | cons b l => simp at hl

theorem closenessOn_spec (g : Store) (hg : g.wf = true) (weighted wfFlag : Bool) (IA NA : Arcs)
    (hsp : ∀ i, i < g.nodesVec.length →
      ((spOf g weighted i).map (·.1)).Nodup ∧ ∀ j d, (j, d) ∈ spOf g weighted i ↔ IsDist IA i j d)
    (hsim : ∀ i j x y d, g.names[i]? = some x → g.names[j]? = some y → (IsDist IA i j d ↔ IsDist NA y x d))
    (hrange : ∀ i j d, i < g.nodesVec.length → IsDist IA i j d → j < g.nodesVec.length)
    (hend : ∀ a ∈ NA, a.1 ∈ g.names ∧ a.2.1 ∈ g.names) (hnn : ∀ a ∈ NA, 0 ≤ a.2.2) :
    ∃ m, closenessOn g weighted wfFlag = .ok m ∧ ∀ u, alookup m u = alookup (ccSpec g.names NA wfFlag) u := by
  have hn : g.names.Nodup := C06T.wf_names_nodup g hg
  have hlenN : g.names.length = g.nodesVec.length := C03.names_length g
  have hget : ∀ i, i < g.nodesVec.length → g.getNodeByIndex i = some g.nodesVec[i]! := by
    intro i hi
    rw [C02_getNodeByIndex g hg i]
    show g.nodesVec[i]? = _
    rw [List.getElem?_eq_getElem hi]
    simp [hi]
  have hkey : ∀ i, i < g.nodesVec.length →
      ((g.getNodeByIndex i).map (·.name)).getD 0 = g.names[i]! ∧ g.names[i]? = some g.names[i]! := by
    intro i hi
    have hi' : i < g.names.length := by rw [hlenN]; exact hi
    rw [hget i hi]
    simp [Store.names, hi]
  refine ⟨(List.range g.numberOfNodes).foldl (fun acc i => ainsert acc (((g.getNodeByIndex i).map (·.name)).getD 0)
      (nodeCentrality (spOf g weighted i) g.numberOfNodes wfFlag)) [], ?_, ?_⟩
  · unfold closenessOn
    exact fold_ok g.getNodeByIndex (fun i => nodeCentrality (spOf g weighted i) g.numberOfNodes wfFlag) _
      (by intro acc i nd h; simp [bind, Outcome.bind, Outcome.ofOption, h]) (List.range g.numberOfNodes) []
      (by
        intro i hi
        rw [List.mem_range] at hi
        exact ⟨_, hget i hi⟩)
  · intro u
    rw [alookup_ccSpec]
    have hmapkey : (List.range g.numberOfNodes).map (fun i => ((g.getNodeByIndex i).map (·.name)).getD 0) = g.names := by
      apply List.ext_getElem?
      intro i
      by_cases hi : i < g.nodesVec.length
      · have := hkey i hi
        rw [List.getElem?_map, List.getElem?_range (by exact hi)]
        simp only [Option.map_some]
        rw [this.1, this.2]
      · have h1 : g.names.length ≤ i := by rw [hlenN]; omega
        rw [List.getElem?_eq_none h1, List.getElem?_eq_none (by simpa [Store.numberOfNodes] using hi)]
    by_cases hu : u ∈ g.names
    · rw [if_pos hu]
      obtain ⟨i, hi⟩ := List.mem_iff_getElem?.1 hu
      have hin : i < g.nodesVec.length := C06T.lt_of_names g hi
      have hk := hkey i hin
      have hui : g.names[i]! = u := by
        have := hk.2; rw [hi] at this; exact (Option.some.inj this).symm
      have hlook := alookup_fold_mem (fun i => ((g.getNodeByIndex i).map (·.name)).getD 0)
        (fun i => nodeCentrality (spOf g weighted i) g.numberOfNodes wfFlag) (List.range g.numberOfNodes) []
        (by rw [hmapkey]; exact hn) i (List.mem_range.2 hin)
      rw [hk.1, hui] at hlook
      rw [hlook]
      congr 1
      -- the value
      obtain ⟨hsp_nd, hsp_mem⟩ := hsp i hin
      have hperm : ((spOf g weighted i).map (·.2)).Perm (ccDs g.names NA u) :=
        dist_perm (names := g.names) (IA := IA) (NA := NA) (i := i) (u := u)
          (fun src => alookup (Arcs.distFrom NA g.names.length src) u) hsp_nd hsp_mem
          (fun j y d hy => hsim i j u y d hi hy)
          (fun j d hd => by rw [hlenN]; exact hrange i j d hin hd)
          (fun src hsrc d => C06B.distFrom_exact g.names NA src hn hsrc hend hnn u d)
      have hlen : (spOf g weighted i).length = (ccDs g.names NA u).length := by
        have := hperm.length_eq
        simpa using this
      have hsum := sumInt_perm hperm
      have hnonneg : ∀ d ∈ ccDs g.names NA u, 0 ≤ d := by
        intro d hd
        unfold ccDs at hd
        rw [List.mem_filterMap] at hd
        obtain ⟨src, hsrc, hd⟩ := hd
        have := (C06B.distFrom_exact g.names NA src hn hsrc hend hnn u d).1 hd
        exact Walk.nonneg hnn this.1
      have htot := sumInt_nonneg _ hnonneg
      have hself : (i, (0 : Int)) ∈ spOf g weighted i := by
        rw [hsp_mem, hsim i i u u 0 hi hi]
        exact ⟨Walk.nil _, fun c hw => Walk.nonneg hnn hw⟩
      have hle : (spOf g weighted i).length ≤ g.nodesVec.length := by
        have := C06L.nodup_lt_length_le hsp_nd (n := g.nodesVec.length) (by
          intro v hv
          rw [List.mem_map] at hv
          obtain ⟨⟨v', d⟩, hm, e⟩ := hv
          simp only at e
          subst e
          exact hrange i v' d hin ((hsp_mem v' d).1 hm))
        simpa using this
      unfold ccVal
      refine nodeCentrality_eq _ _ _ _ _ (by simp [Store.numberOfNodes, hlenN]) hlen hsum ?_
      constructor
      · rintro ⟨h1, _⟩ h2
        rcases h2 with h2 | h2
        · have hone : (spOf g weighted i).length ≤ 1 := by rw [hlen]; exact h2
          have := eq_singleton_of_length_le_one hone hself
          have h0 : sumInt ((spOf g weighted i).map (·.2)) = 0 := by rw [this]; rfl
          rw [h0] at hsum
          omega
        · omega
      · intro h
        have h1 : ¬ (ccDs g.names NA u).length ≤ 1 := fun h' => h (Or.inl h')
        have h2 : ¬ sumInt (ccDs g.names NA u) = 0 := fun h' => h (Or.inr h')
        refine ⟨by omega, ?_⟩
        show g.nodesVec.length > 1
        omega
    · rw [if_neg hu]
      rw [alookup_fold_not_mem]
      · rfl
      · intro i hi e
        rw [List.mem_range] at hi
        have hk := hkey i hi
        apply hu
        rw [← e, hk.1]
        exact List.mem_of_getElem? hk.2

/-! ## name-level arcs: endpoints, reversal, symmetry -/

theorem arcs_endpoints (s : Store) (h : s.wf = true) (dir weighted : Bool) :
    ∀ a ∈ s.abs.arcs dir weighted, a.1 ∈ s.names ∧ a.2.1 ∈ s.names := by
  intro a ha
  obtain ⟨x, y, c⟩ := a
  rw [C06T.mem_abs_arcs] at ha
  obtain ⟨e, he, _, hk⟩ := ha
  have hends := C06T.edge_endpoints s h e he
  rcases hk with ⟨e1, e2⟩ | ⟨_, e1, e2⟩
  · simp only; rw [← e1, ← e2]; exact hends
  · simp only; rw [← e1, ← e2]; exact ⟨hends.2, hends.1⟩

theorem mem_rev (arcs : Arcs) (x y : Nat) (c : Int) : (x, y, c) ∈ arcs.rev ↔ (y, x, c) ∈ arcs := by
  unfold Arcs.rev
  rw [List.mem_map]
  constructor
  · rintro ⟨⟨a, b, c'⟩, ha, e⟩
    simp only [Prod.mk.injEq] at e
    obtain ⟨e1, e2, e3⟩ := e
    subst e1 e2 e3
    exact ha
  · intro h
    exact ⟨(y, x, c), h, rfl⟩

/-- on an undirected graph distances are symmetric -/
theorem isDist_symm (a : Abs) (weighted : Bool) (x y : Nat) (d : Int) :
    IsDist (a.arcs false weighted) x y d ↔ IsDist (a.arcs false weighted) y x d := by
  rw [← C06_reverse_dist (a.arcs false weighted) y x d]
  apply C06T.IsDist.congr
  intro p
  obtain ⟨u, v, c⟩ := p
  rw [mem_rev, C06T.mem_abs_arcs, C06T.mem_abs_arcs]
  constructor
  · rintro ⟨e, he, hc, hk⟩
    refine ⟨e, he, hc, ?_⟩
    rcases hk with ⟨e1, e2⟩ | ⟨_, e1, e2⟩
    · exact Or.inr ⟨rfl, e1, e2⟩
    · exact Or.inl ⟨e1, e2⟩
  · rintro ⟨e, he, hc, hk⟩
    refine ⟨e, he, hc, ?_⟩
    rcases hk with ⟨e1, e2⟩ | ⟨_, e1, e2⟩
    · exact Or.inr ⟨rfl, e1, e2⟩
    · exact Or.inl ⟨e1, e2⟩

/-- outgoing distances in (a store that abstracts to) the reversed graph are incoming distances in the graph -/
theorem isDist_reverse (a b : Abs) (hab : AbsEq b a.reverse) (weighted : Bool) (x y : Nat) (d : Int) :
    IsDist (b.arcs true weighted) x y d ↔ IsDist (a.arcs true weighted) y x d := by
  rw [← C06_reverse_dist (a.arcs true weighted) y x d, ← C06_abs_reverse_arcs]
  apply C06T.IsDist.congr
  intro p
  obtain ⟨u, v, c⟩ := p
  rw [C06T.mem_abs_arcs, C06T.mem_abs_arcs]
  have hp := C09M.absEq_edges_perm hab
  constructor
  · rintro ⟨e, he, h⟩; exact ⟨e, hp.mem_iff.1 he, h⟩
  · rintro ⟨e, he, h⟩; exact ⟨e, hp.mem_iff.2 he, h⟩

/-! ## the generic statement: model = definition, given exactness of the per-source search on the graph it runs on -/

theorem closeness_generic (s : Store) (h : s.wf = true) (weighted wfFlag : Bool) (m : List (Nat × Rat))
    (hm : s.closeness weighted wfFlag = .ok m)
    (IAof : Store → Arcs) (Good : Store → Prop)
    (hgood_s : s.specs.directed = false → Good s)
    (hgood_t : s.specs.directed = true → ∀ t, s.reverse = .ok t → t.wf = true → Good t)
    (hSim : ∀ g, g.wf = true → Good g → C06T.ArcSim g.names (IAof g) (g.abs.arcs g.specs.directed weighted))
    (hSp : ∀ g, g.wf = true → Good g → ∀ i, i < g.nodesVec.length →
      ((spOf g weighted i).map (·.1)).Nodup ∧ ∀ j d, (j, d) ∈ spOf g weighted i ↔ IsDist (IAof g) i j d)
    (hnn : ∀ a ∈ s.abs.arcs s.specs.directed weighted, 0 ≤ a.2.2) :
    ∀ u, alookup m u = alookup (ccSpec s.getAllNodeNames (s.abs.arcs s.specs.directed weighted) wfFlag) u := by
  rw [closeness_eq] at hm
  have hrangeOf : ∀ g, g.wf = true → Good g → ∀ i j d, i < g.nodesVec.length → IsDist (IAof g) i j d →
      j < g.nodesVec.length := by
    intro g hg hgood i j d hi hd
    obtain ⟨x, hx⟩ := C06T.getElem?_of_lt_names g i hi
    obtain ⟨y, hy⟩ := (hSim g hg hgood).target hx hd.1
    exact C06T.lt_of_names g hy
  by_cases hd : s.specs.directed = true
  · obtain ⟨t, hrev, ht, hspecs, hAbs⟩ := Core_reverse s h hd
    rw [if_pos hd, hrev] at hm
    change closenessOn t weighted wfFlag = .ok m at hm
    have hgood := hgood_t hd t hrev ht
    have hnodes : t.nodesVec = s.nodesVec := hAbs.1
    have hnames : t.names = s.names := by simp only [Store.names, hnodes]
    have S := hSim t ht hgood
    have hn : t.names.Nodup := C06T.wf_names_nodup t ht
    obtain ⟨m', hm', hspec⟩ := closenessOn_spec t ht weighted wfFlag (IAof t) (s.abs.arcs s.specs.directed weighted)
      (hSp t ht hgood)
      (by
        intro i j x y d hx hy
        rw [S.isDist hn hx hy d, hspecs, hd]
        exact isDist_reverse s.abs t.abs hAbs weighted x y d)
      (hrangeOf t ht hgood)
      (by rw [hnames]; exact arcs_endpoints s h _ _)
      hnn
    rw [hm'] at hm
    cases hm
    intro u
    rw [hspec u, hnames]
    rfl
  · have hd' : s.specs.directed = false := by simpa using hd
    rw [if_neg hd] at hm
    have hgood := hgood_s hd'
    have S := hSim s h hgood
    have hn : s.names.Nodup := C06T.wf_names_nodup s h
    obtain ⟨m', hm', hspec⟩ := closenessOn_spec s h weighted wfFlag (IAof s) (s.abs.arcs s.specs.directed weighted)
      (hSp s h hgood)
      (by
        intro i j x y d hx hy
        rw [S.isDist hn hx hy d, hd']
        exact isDist_symm s.abs weighted x y d)
      (hrangeOf s h hgood)
      (arcs_endpoints s h _ _)
      hnn
    rw [hm'] at hm
    cases hm
    intro u
    rw [hspec u]
    rfl

end C06C
end Graphrs
