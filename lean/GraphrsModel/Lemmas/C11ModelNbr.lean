/-
  Model-side neighbourhoods for Props/C11Model.lean: the lists the cluster models read
  (`get_neighbor_nodes`, `get_successor_nodes`, `get_predecessor_nodes`) against `Abs.N`, `Abs.succOf`, `Abs.predOf`.
-/
import GraphrsModel.Lemmas.C11ModelAux
namespace Graphrs
namespace C11M
open C02 C11aux

theorem wf_parts (s : Store) (h : s.wf = true) :
    s.nodesOk = true ∧ s.edgesOk = true ∧ s.adjOk = true ∧ s.vecOk = true := C09M.wf_parts s h

theorem abs_edges (s : Store) : s.abs.edges = s.allEdges := rfl
theorem abs_nodeNames (s : Store) : s.abs.nodeNames = s.names := rfl
theorem getAllNodeNames_eq (s : Store) : s.getAllNodeNames = s.names := rfl

theorem hasNode_mem' (s : Store) (h : s.wf = true) (x : Nat) : s.hasNode x = true ↔ x ∈ s.names :=
  hasNode_mem (nodesP_of s (wf_parts s h).1) x

theorem names_nodup (s : Store) (h : s.wf = true) : s.names.Nodup :=
  (nodesP_of s (wf_parts s h).1).namesNodup

/-! ### undirected -/

theorem abs_nbrs_iff_bothOf (a : Abs) (x y : Nat) : y ∈ a.nbrs false x ↔ y ∈ a.bothOf x := by
  simp [Abs.nbrs, Abs.succ, Abs.pred, Abs.bothOf, Abs.succOf, Abs.predOf, C11aux.mem_dedup]

/-- the endpoints of abstract neighbours are nodes -/
theorem bothOf_names (s : Store) (h : s.wf = true) (x y : Nat) (hy : y ∈ s.abs.bothOf x) : y ∈ s.names := by
  have he := edgesP_of s (wf_parts s h).2.1
  rw [C11_mem_bothOf] at hy
  rcases hy with ⟨e, hmem, _, h2⟩ | ⟨e, hmem, _, h2⟩
  · exact h2 ▸ (he.edge_names hmem).2
  · exact h2 ▸ (he.edge_names hmem).1

theorem N_names (s : Store) (h : s.wf = true) (x y : Nat) (hy : y ∈ s.abs.N x) : s.hasNode y = true := by
  rw [hasNode_mem' s h]
  exact bothOf_names s h x y ((C11_mem_N _ _ _).1 hy).1

/-- names of the list `get_neighbor_nodes` returns (`[]` if it fails) -/
def nm (s : Store) (x : Nat) : List Nat :=
  match s.getNeighborNodes x with
  | .ok l => l.map (·.name)
  | _ => []

/-- the model's neighbour list without the node itself -/
def mN (s : Store) (x : Nat) : List Nat := (nm s x).filter (· != x)

theorem nbr_ok (s : Store) (h : s.wf = true) (hd : s.specs.directed = false) (x : Nat) (hx : s.hasNode x = true) :
    ∃ l, s.getNeighborNodes x = .ok l ∧ l.map (·.name) = nm s x ∧ (nm s x).Nodup ∧
      ∀ y, y ∈ nm s x ↔ y ∈ s.abs.bothOf x := by
  have ⟨l, hl, hmem, hnd⟩ := C02_neighborNodes s h x hx
  have e : nm s x = l.map (·.name) := by simp [nm, hl]
  refine ⟨l, hl, e.symm, e ▸ hnd, ?_⟩
  intro y
  rw [e, hmem, hd, abs_nbrs_iff_bothOf]

theorem namesOf_nbr (s : Store) (h : s.wf = true) (hd : s.specs.directed = false) (x : Nat) (hx : s.hasNode x = true) :
    Store.namesOf (s.getNeighborNodes x) = .ok (nm s x) := by
  have ⟨l, hl, e, _⟩ := nbr_ok s h hd x hx
  rw [hl, ← e]; rfl

theorem dedup_nm (s : Store) (h : s.wf = true) (hd : s.specs.directed = false) (x : Nat) (hx : s.hasNode x = true) :
    dedup (nm s x) = nm s x :=
  dedup_of_nodup _ (nbr_ok s h hd x hx).choose_spec.2.2.1

theorem mN_nodup (s : Store) (h : s.wf = true) (hd : s.specs.directed = false) (x : Nat) (hx : s.hasNode x = true) :
    (mN s x).Nodup :=
  ((nbr_ok s h hd x hx).choose_spec.2.2.1).filter _

theorem mem_mN (s : Store) (h : s.wf = true) (hd : s.specs.directed = false) (x : Nat) (hx : s.hasNode x = true) (y : Nat) :
    y ∈ mN s x ↔ y ∈ s.abs.N x := by
  have ⟨_, _, _, _, hm⟩ := nbr_ok s h hd x hx
  simp only [mN, List.mem_filter, hm, C11_mem_N, bne_iff_ne, ne_eq]

theorem mN_perm (s : Store) (h : s.wf = true) (hd : s.specs.directed = false) (x : Nat) (hx : s.hasNode x = true) :
    (mN s x).Perm (s.abs.N x) :=
  perm_of_nodup_mem (mN_nodup s h hd x hx) (C11_N_nodup _ _) (mem_mN s h hd x hx)

theorem mN_hasNode (s : Store) (h : s.wf = true) (hd : s.specs.directed = false) (x : Nat) (hx : s.hasNode x = true)
    (y : Nat) (hy : y ∈ mN s x) : s.hasNode y = true :=
  N_names s h x y ((mem_mN s h hd x hx y).1 hy)

theorem mN_length (s : Store) (h : s.wf = true) (hd : s.specs.directed = false) (x : Nat) (hx : s.hasNode x = true) :
    (mN s x).length = (s.abs.N x).length := (mN_perm s h hd x hx).length_eq

end C11M
end Graphrs
