/-
  Stage 1 of C05 (Brandes): the loop invariant of the queue BFS `bcBfsLoop` of betweenness.rs.
  The invariant is stated over the processed list `S`, the queue `Q` and the arrays `D`, `sigma`, `P`;
  `Dn u a` is the set of adjacency entries already relaxed.
-/
import GraphrsModel.Model.Centrality
import GraphrsModel.Lemmas.BcGraph
import Mathlib.Algebra.Order.Field.Rat
import Mathlib.Tactic.Ring
import Mathlib.Tactic.Linarith
namespace Graphrs
namespace Bc

abbrev BAcc := List Nat × List (Option Int) × List Rat × List (List Nat)

/-- the body of the `for adj in successors` loop of `bfs` -/
def bfsRelax (v : Nat) (dv : Int) (sv : Rat) (acc : BAcc) (adj : Adj) : BAcc :=
  let (queue, D, sigma, P) := acc
  let w := adj.1
  let vw := dv + 1
  let (queue, D) := if (D[w]?.join).isNone then (queue ++ [w], D.set w (some vw)) else (queue, D)
  if D[w]?.join == some vw then (queue, D, sigma.set w (getD0 sigma w + sv), P.set w ((P[w]?.getD []) ++ [v]))
  else (queue, D, sigma, P)

theorem bcBfsLoop_cons (adjOf : Nat → List Adj) (fuel v : Nat) (queue : List Nat) (D : List (Option Int)) (sigma : List Rat)
    (P : List (List Nat)) (S : List Nat) :
    bcBfsLoop adjOf (fuel + 1) (v :: queue) D sigma P S =
      (let r := (adjOf v).foldl (bfsRelax v ((D[v]?.join).getD 0) (getD0 sigma v)) (queue, D, sigma, P)
       bcBfsLoop adjOf fuel r.1 r.2.1 r.2.2.1 r.2.2.2 (S ++ [v])) := by
  rfl

theorem bcBfsLoop_nil (adjOf : Nat → List Adj) (fuel : Nat) (D : List (Option Int)) (sigma : List Rat)
    (P : List (List Nat)) (S : List Nat) :
    bcBfsLoop adjOf fuel [] D sigma P S = (D, sigma, P, S) := by
  cases fuel <;> rfl

/-- `P[w]` (empty when out of range) -/
def gP (P : List (List Nat)) (w : Nat) : List Nat := P[w]?.getD []

/-- the distance slot as a number (0 when unset) -/
def dOf (D : List (Option Int)) (x : Nat) : Int := (lk D x).getD 0

theorem gP_set_self (P : List (List Nat)) (w : Nat) (x : List Nat) (h : w < P.length) : gP (P.set w x) w = x := by
  simp [gP, h]

theorem gP_set_ne (P : List (List Nat)) (w w' : Nat) (x : List Nat) (h : w ≠ w') : gP (P.set w x) w' = gP P w' := by
  simp [gP, List.getElem?_set_ne h]

theorem getD0_set_self (l : List Rat) (w : Nat) (x : Rat) (h : w < l.length) : getD0 (l.set w x) w = x := by
  simp [getD0, h]

theorem getD0_set_ne (l : List Rat) (w w' : Nat) (x : Rat) (h : w ≠ w') : getD0 (l.set w x) w' = getD0 l w' := by
  simp [getD0, List.getElem?_set_ne h]

theorem dOf_set_ne (D : List (Option Int)) (w w' : Nat) (x : Option Int) (h : w ≠ w') : dOf (D.set w x) w' = dOf D w' := by
  simp [dOf, lk_set_ne _ _ _ _ h]

theorem dOf_of_lk {D : List (Option Int)} {x : Nat} {d : Int} (h : lk D x = some d) : dOf D x = d := by
  simp [dOf, h]

/-! ### the three cases of one relaxation -/

theorem bfsRelax_new (v : Nat) (dv : Int) (sv : Rat) (Q : List Nat) (D : List (Option Int)) (sigma : List Rat)
    (P : List (List Nat)) (a : Adj) (hlt : a.1 < D.length) (h : lk D a.1 = none) :
    bfsRelax v dv sv (Q, D, sigma, P) a =
      (Q ++ [a.1], D.set a.1 (some (dv + 1)), sigma.set a.1 (getD0 sigma a.1 + sv), P.set a.1 (gP P a.1 ++ [v])) := by
  unfold lk at h
  simp only [bfsRelax, h, Option.isNone_none, if_true]
  have : (D.set a.1 (some (dv + 1)))[a.1]?.join = some (dv + 1) := by simp [hlt]
  simp only [this, beq_self_eq_true, if_true, gP]

theorem bfsRelax_tight (v : Nat) (dv : Int) (sv : Rat) (Q : List Nat) (D : List (Option Int)) (sigma : List Rat)
    (P : List (List Nat)) (a : Adj) (h : lk D a.1 = some (dv + 1)) :
    bfsRelax v dv sv (Q, D, sigma, P) a =
      (Q, D, sigma.set a.1 (getD0 sigma a.1 + sv), P.set a.1 (gP P a.1 ++ [v])) := by
  unfold lk at h
  simp [bfsRelax, h, gP]

theorem bfsRelax_skip (v : Nat) (dv : Int) (sv : Rat) (Q : List Nat) (D : List (Option Int)) (sigma : List Rat)
    (P : List (List Nat)) (a : Adj) (d : Int) (h : lk D a.1 = some d) (hne : d ≠ dv + 1) :
    bfsRelax v dv sv (Q, D, sigma, P) a = (Q, D, sigma, P) := by
  unfold lk at h
  simp [bfsRelax, h, hne]

/-! ## the invariant -/

/-- the relaxed adjacency entries while the row of `v` is being scanned: all rows of `S`, and the prefix `pre` of the row of `v` -/
def rowDn (adjOf : Nat → List Adj) (S : List Nat) (v : Nat) (pre : List Adj) (u : Nat) (a : Adj) : Prop :=
  (u ∈ S ∧ a ∈ adjOf u) ∨ (u = v ∧ a ∈ pre)

structure BInv (adjOf : Nat → List Adj) (n source : Nat) (A : Arcs) (Dn : Nat → Adj → Prop) (h : Int)
    (S Q : List Nat) (D : List (Option Int)) (sigma : List Rat) (P : List (List Nat)) : Prop where
  lenD : D.length = n
  lenS : sigma.length = n
  lenP : P.length = n
  nd : (S ++ Q).Nodup
  disc : ∀ x, lk D x ≠ none ↔ x ∈ S ++ Q
  src : lk D source = some 0
  wit : ∀ x d, lk D x = some d → Walk A source x d
  dnS : ∀ u a, Dn u a → u ∈ S ∧ a ∈ adjOf u
  clo : ∀ u a, Dn u a → ∃ du dw, lk D u = some du ∧ lk D a.1 = some dw ∧ dw ≤ du + 1
  ord : (S ++ Q).Pairwise (fun x y => dOf D x ≤ dOf D y)
  bndU : ∀ x ∈ S ++ Q, dOf D x ≤ h + 1
  bndL : ∀ q ∈ Q, h ≤ dOf D q
  bndS : ∀ u ∈ S, dOf D u ≤ h
  pIn : ∀ w u, u ∈ gP P w → ∃ a, Dn u a ∧ a.1 = w ∧ lk D w = some (dOf D u + 1)
  pAll : ∀ u a, Dn u a → lk D a.1 = some (dOf D u + 1) → u ∈ gP P a.1
  pNd : ∀ w, (gP P w).Nodup
  sig : ∀ w, w < n → getD0 sigma w = (if w = source then 1 else 0) + ((gP P w).map (getD0 sigma)).sum
  sPos : ∀ w ∈ S ++ Q, 0 < getD0 sigma w

variable {adjOf : Nat → List Adj} {n source : Nat} {A : Arcs}

theorem BInv.lt_n {Dn : Nat → Adj → Prop} {h : Int} {S Q : List Nat} {D : List (Option Int)} {sigma : List Rat}
    {P : List (List Nat)} (inv : BInv adjOf n source A Dn h S Q D sigma P) {x : Nat} (hx : x ∈ S ++ Q) : x < n := by
  have := (inv.disc x).2 hx
  cases hl : lk D x with
  | none => exact absurd hl this
  | some d => rw [← inv.lenD]; exact lk_lt_of_some hl

theorem BInv.lk_of_mem {Dn : Nat → Adj → Prop} {h : Int} {S Q : List Nat} {D : List (Option Int)} {sigma : List Rat}
    {P : List (List Nat)} (inv : BInv adjOf n source A Dn h S Q D sigma P) {x : Nat} (hx : x ∈ S ++ Q) :
    lk D x = some (dOf D x) := by
  have := (inv.disc x).2 hx
  cases hl : lk D x with
  | none => exact absurd hl this
  | some d => simp [dOf, hl]

/-- an undiscovered node has an empty predecessor list and no paths yet -/
theorem BInv.undisc {Dn : Nat → Adj → Prop} {h : Int} {S Q : List Nat} {D : List (Option Int)} {sigma : List Rat}
    {P : List (List Nat)} (inv : BInv adjOf n source A Dn h S Q D sigma P) {w : Nat} (hw : lk D w = none) (hwn : w < n) :
    gP P w = [] ∧ getD0 sigma w = 0 ∧ w ≠ source := by
  have hP : gP P w = [] := by
    cases hg : gP P w with
    | nil => rfl
    | cons u l =>
      obtain ⟨a, _, _, hl⟩ := inv.pIn w u (by rw [hg]; exact List.mem_cons_self ..)
      rw [hw] at hl; cases hl
  have hne : w ≠ source := by
    intro e; rw [e, inv.src] at hw; cases hw
  refine ⟨hP, ?_, hne⟩
  rw [inv.sig w hwn, hP]
  simp [hne]

/-- arc membership, abstractly: `A` is the list of unit arcs of the traversal lists -/
def ArcsOf (adjOf : Nat → List Adj) (n : Nat) (A : Arcs) : Prop :=
  ∀ u w c, (u, w, c) ∈ A ↔ (u < n ∧ c = 1 ∧ ∃ a ∈ adjOf u, a.1 = w)

section step
variable {S Q : List Nat} {D : List (Option Int)} {sigma : List Rat} {P : List (List Nat)} {v : Nat} {pre : List Adj}

/-- case "first visit": `w` is appended to the queue with distance `d(v)+1`, one predecessor and `sigma[v]` paths -/
theorem BInv.step_new (hA : ArcsOf adjOf n A)
    (inv : BInv adjOf n source A (rowDn adjOf S v pre) (dOf D v) (S ++ [v]) Q D sigma P)
    (a : Adj) (ha : a ∈ adjOf v) (han : a.1 < n) (hw : lk D a.1 = none) :
    BInv adjOf n source A (rowDn adjOf S v (pre ++ [a])) (dOf D v) (S ++ [v]) (Q ++ [a.1])
      (D.set a.1 (some (dOf D v + 1))) (sigma.set a.1 (getD0 sigma a.1 + getD0 sigma v)) (P.set a.1 (gP P a.1 ++ [v])) := by
  obtain ⟨hP0, hs0, hnsrc⟩ := inv.undisc hw han
  have hvin : v ∈ (S ++ [v]) ++ Q := by simp
  have hvn : v < n := inv.lt_n hvin
  have hlkv : lk D v = some (dOf D v) := inv.lk_of_mem hvin
  have hwnot : a.1 ∉ (S ++ [v]) ++ Q := fun hin => (inv.disc a.1).2 hin hw
  have hne_of_mem : ∀ x, x ∈ (S ++ [v]) ++ Q → a.1 ≠ x := fun x hx e => hwnot (e ▸ hx)
  have hwv : a.1 ≠ v := hne_of_mem v hvin
  have hDlen : a.1 < D.length := by rw [inv.lenD]; exact han
  have hdn_ne : ∀ u b, rowDn adjOf S v pre u b → a.1 ≠ u ∧ a.1 ≠ b.1 := by
    intro u b hdn
    obtain ⟨du, dw, h1, h2, _⟩ := inv.clo u b hdn
    refine ⟨fun e => ?_, fun e => ?_⟩
    · rw [← e, hw] at h1; cases h1
    · rw [← e, hw] at h2; cases h2
  have hdn' : ∀ u b, rowDn adjOf S v (pre ++ [a]) u b → rowDn adjOf S v pre u b ∨ (u = v ∧ b = a) := by
    intro u b hdn
    rcases hdn with h1 | ⟨h1, h2⟩
    · exact Or.inl (Or.inl h1)
    · rcases List.mem_append.1 h2 with h3 | h3
      · exact Or.inl (Or.inr ⟨h1, h3⟩)
      · exact Or.inr ⟨h1, by simpa using h3⟩
  have hmono : ∀ u b, rowDn adjOf S v pre u b → rowDn adjOf S v (pre ++ [a]) u b := by
    intro u b hdn
    rcases hdn with h1 | ⟨h1, h2⟩
    · exact Or.inl h1
    · exact Or.inr ⟨h1, List.mem_append_left _ h2⟩
  have hgP_self : gP (P.set a.1 (gP P a.1 ++ [v])) a.1 = [v] := by
    rw [gP_set_self _ _ _ (by rw [inv.lenP]; exact han), hP0]; rfl
  refine
    { lenD := by rw [List.length_set]; exact inv.lenD
      lenS := by rw [List.length_set]; exact inv.lenS
      lenP := by rw [List.length_set]; exact inv.lenP
      nd := ?_, disc := ?_, src := ?_, wit := ?_, dnS := ?_, clo := ?_, ord := ?_, bndU := ?_, bndL := ?_, bndS := ?_,
      pIn := ?_, pAll := ?_, pNd := ?_, sig := ?_, sPos := ?_ }
  · -- nd
    rw [← List.append_assoc, List.nodup_append]
    refine ⟨inv.nd, by simp, ?_⟩
    intro x hx y hy
    simp at hy; subst hy
    exact fun e => hwnot (e ▸ hx)
  · -- disc
    intro x
    rw [← List.append_assoc, List.mem_append]
    by_cases e : a.1 = x
    · subst e
      rw [lk_set_self _ _ _ hDlen]; simp
    · rw [lk_set_ne _ _ _ _ e, inv.disc x]
      constructor
      · intro h; exact Or.inl h
      · rintro (h | h)
        · exact h
        · simp at h; exact absurd h.symm e
  · -- src
    rw [lk_set_ne _ _ _ _ hnsrc]; exact inv.src
  · -- wit
    intro x d hx
    by_cases e : a.1 = x
    · subst e
      rw [lk_set_self _ _ _ hDlen] at hx
      cases hx
      exact Walk.snoc (inv.wit v _ hlkv) ((hA v a.1 1).2 ⟨hvn, rfl, a, ha, rfl⟩)
    · rw [lk_set_ne _ _ _ _ e] at hx
      exact inv.wit x d hx
  · -- dnS
    intro u b hdn
    rcases hdn' u b hdn with h1 | ⟨h1, h2⟩
    · exact inv.dnS u b h1
    · subst h1; subst h2; exact ⟨by simp, ha⟩
  · -- clo
    intro u b hdn
    rcases hdn' u b hdn with h1 | ⟨h1, h2⟩
    · obtain ⟨du, dw, e1, e2, e3⟩ := inv.clo u b h1
      obtain ⟨n1, n2⟩ := hdn_ne u b h1
      exact ⟨du, dw, by rw [lk_set_ne _ _ _ _ n1]; exact e1, by rw [lk_set_ne _ _ _ _ n2]; exact e2, e3⟩
    · subst h1; subst h2
      exact ⟨dOf D u, dOf D u + 1, by rw [lk_set_ne _ _ _ _ hwv]; exact hlkv, lk_set_self _ _ _ hDlen, Int.le_refl _⟩
  · -- ord
    rw [← List.append_assoc, List.pairwise_append]
    refine ⟨?_, by simp, ?_⟩
    · refine inv.ord.imp_of_mem ?_
      intro x y hx hy hxy
      rw [dOf_set_ne _ _ _ _ (hne_of_mem x hx), dOf_set_ne _ _ _ _ (hne_of_mem y hy)]; exact hxy
    · intro x hx y hy
      simp at hy; subst hy
      rw [dOf_set_ne _ _ _ _ (hne_of_mem x hx), dOf_of_lk (lk_set_self _ _ _ hDlen)]
      exact inv.bndU x hx
  · -- bndU
    intro x hx
    rw [← List.append_assoc, List.mem_append] at hx
    rcases hx with hx | hx
    · rw [dOf_set_ne _ _ _ _ (hne_of_mem x hx)]; exact inv.bndU x hx
    · simp at hx; subst hx
      rw [dOf_of_lk (lk_set_self _ _ _ hDlen)]
  · -- bndL
    intro q hq
    rcases List.mem_append.1 hq with hq | hq
    · rw [dOf_set_ne _ _ _ _ (hne_of_mem q (List.mem_append_right _ hq))]; exact inv.bndL q hq
    · simp at hq; subst hq
      rw [dOf_of_lk (lk_set_self _ _ _ hDlen)]; omega
  · -- bndS
    intro u hu
    rw [dOf_set_ne _ _ _ _ (hne_of_mem u (List.mem_append_left _ hu))]
    exact inv.bndS u hu
  · -- pIn
    intro w u hu
    by_cases e : a.1 = w
    · subst e
      rw [hgP_self] at hu
      simp at hu; subst hu
      refine ⟨a, Or.inr ⟨rfl, by simp⟩, rfl, ?_⟩
      rw [lk_set_self _ _ _ hDlen, dOf_set_ne _ _ _ _ hwv]
    · rw [gP_set_ne _ _ _ _ e] at hu
      obtain ⟨b, hb, hb1, hb2⟩ := inv.pIn w u hu
      obtain ⟨n1, _⟩ := hdn_ne u b hb
      exact ⟨b, hmono u b hb, hb1, by rw [lk_set_ne _ _ _ _ e, dOf_set_ne _ _ _ _ n1]; exact hb2⟩
  · -- pAll
    intro u b hdn hl
    rcases hdn' u b hdn with h1 | ⟨h1, h2⟩
    · obtain ⟨n1, n2⟩ := hdn_ne u b h1
      rw [lk_set_ne _ _ _ _ n2, dOf_set_ne _ _ _ _ n1] at hl
      rw [gP_set_ne _ _ _ _ n2]
      exact inv.pAll u b h1 hl
    · subst h1; subst h2
      rw [hgP_self]; simp
  · -- pNd
    intro w
    by_cases e : a.1 = w
    · subst e; rw [hgP_self]; simp
    · rw [gP_set_ne _ _ _ _ e]; exact inv.pNd w
  · -- sig
    intro w hwn
    have hcongr : ∀ w', a.1 ≠ w' → (gP P w').map (getD0 (sigma.set a.1 (getD0 sigma a.1 + getD0 sigma v))) =
        (gP P w').map (getD0 sigma) := by
      intro w' _
      apply List.map_congr_left
      intro u hu
      obtain ⟨b, hb, _, _⟩ := inv.pIn w' u hu
      exact getD0_set_ne _ _ _ _ (hdn_ne u b hb).1
    by_cases e : a.1 = w
    · subst e
      rw [getD0_set_self _ _ _ (by rw [inv.lenS]; exact han), hgP_self, hs0]
      simp [hnsrc, getD0_set_ne _ _ _ _ hwv]
    · rw [getD0_set_ne _ _ _ _ e, gP_set_ne _ _ _ _ e, hcongr w e]
      exact inv.sig w hwn
  · -- sPos
    intro w hw'
    rw [← List.append_assoc, List.mem_append] at hw'
    rcases hw' with hw' | hw'
    · rw [getD0_set_ne _ _ _ _ (hne_of_mem w hw')]; exact inv.sPos w hw'
    · simp at hw'; subst hw'
      rw [getD0_set_self _ _ _ (by rw [inv.lenS]; exact han), hs0]
      have := inv.sPos v hvin
      linarith

theorem rowDn_snoc {S : List Nat} {v : Nat} {pre : List Adj} {a : Adj} {u : Nat} {b : Adj}
    (hdn : rowDn adjOf S v (pre ++ [a]) u b) : rowDn adjOf S v pre u b ∨ (u = v ∧ b = a) := by
  rcases hdn with h1 | ⟨h1, h2⟩
  · exact Or.inl (Or.inl h1)
  · rcases List.mem_append.1 h2 with h3 | h3
    · exact Or.inl (Or.inr ⟨h1, h3⟩)
    · exact Or.inr ⟨h1, by simpa using h3⟩

theorem rowDn_mono {S : List Nat} {v : Nat} {pre : List Adj} {a : Adj} {u : Nat} {b : Adj}
    (hdn : rowDn adjOf S v pre u b) : rowDn adjOf S v (pre ++ [a]) u b := by
  rcases hdn with h1 | ⟨h1, h2⟩
  · exact Or.inl h1
  · exact Or.inr ⟨h1, List.mem_append_left _ h2⟩

/-- case "another shortest path": `w` was discovered at distance `d(v)+1`; `v` joins `P[w]`, `sigma[w] += sigma[v]` -/
theorem BInv.step_tight
    (inv : BInv adjOf n source A (rowDn adjOf S v pre) (dOf D v) (S ++ [v]) Q D sigma P)
    (a : Adj) (ha : a ∈ adjOf v) (hfresh : ∀ b ∈ pre, b.1 ≠ a.1) (hw : lk D a.1 = some (dOf D v + 1)) :
    BInv adjOf n source A (rowDn adjOf S v (pre ++ [a])) (dOf D v) (S ++ [v]) Q
      D (sigma.set a.1 (getD0 sigma a.1 + getD0 sigma v)) (P.set a.1 (gP P a.1 ++ [v])) := by
  have hvin : v ∈ (S ++ [v]) ++ Q := by simp
  have hlkv : lk D v = some (dOf D v) := inv.lk_of_mem hvin
  have hwin : a.1 ∈ (S ++ [v]) ++ Q := (inv.disc a.1).1 (by rw [hw]; simp)
  have han : a.1 < n := inv.lt_n hwin
  have hdw : dOf D a.1 = dOf D v + 1 := dOf_of_lk hw
  have hwv : a.1 ≠ v := by intro e; rw [e] at hdw; omega
  -- processed nodes are not at the level of `w`
  have hne_S : ∀ u, u ∈ S ++ [v] → a.1 ≠ u := by
    intro u hu e
    have := inv.bndS u hu
    rw [← e, hdw] at this; omega
  have hne_dn : ∀ u b, rowDn adjOf S v pre u b → a.1 ≠ u := fun u b hdn => hne_S u (inv.dnS u b hdn).1
  have hvnot : v ∉ gP P a.1 := by
    intro hin
    obtain ⟨b, hb, hb1, _⟩ := inv.pIn a.1 v hin
    rcases hb with ⟨h1, _⟩ | ⟨_, h2⟩
    · have := inv.nd
      rw [List.append_assoc, List.nodup_append] at this
      exact this.2.2 v h1 v (by simp) rfl
    · exact hfresh b h2 hb1
  have hPlen : a.1 < P.length := by rw [inv.lenP]; exact han
  have hSlen : a.1 < sigma.length := by rw [inv.lenS]; exact han
  have hcongr : ∀ w', (gP P w').map (getD0 (sigma.set a.1 (getD0 sigma a.1 + getD0 sigma v))) =
      (gP P w').map (getD0 sigma) := by
    intro w'
    apply List.map_congr_left
    intro u hu
    obtain ⟨b, hb, _, _⟩ := inv.pIn w' u hu
    exact getD0_set_ne _ _ _ _ (hne_dn u b hb)
  refine
    { lenD := inv.lenD
      lenS := by rw [List.length_set]; exact inv.lenS
      lenP := by rw [List.length_set]; exact inv.lenP
      nd := inv.nd, disc := inv.disc, src := inv.src, wit := inv.wit, dnS := ?_, clo := ?_, ord := inv.ord,
      bndU := inv.bndU, bndL := inv.bndL, bndS := inv.bndS,
      pIn := ?_, pAll := ?_, pNd := ?_, sig := ?_, sPos := ?_ }
  · -- dnS
    intro u b hdn
    rcases rowDn_snoc hdn with h1 | ⟨h1, h2⟩
    · exact inv.dnS u b h1
    · subst h1; subst h2; exact ⟨by simp, ha⟩
  · -- clo
    intro u b hdn
    rcases rowDn_snoc hdn with h1 | ⟨h1, h2⟩
    · exact inv.clo u b h1
    · subst h1; subst h2
      exact ⟨dOf D u, dOf D u + 1, hlkv, hw, Int.le_refl _⟩
  · -- pIn
    intro w u hu
    by_cases e : a.1 = w
    · subst e
      rw [gP_set_self _ _ _ hPlen, List.mem_append] at hu
      rcases hu with hu | hu
      · obtain ⟨b, hb, hb1, hb2⟩ := inv.pIn a.1 u hu
        exact ⟨b, rowDn_mono hb, hb1, hb2⟩
      · simp at hu; subst hu
        exact ⟨a, Or.inr ⟨rfl, by simp⟩, rfl, hw⟩
    · rw [gP_set_ne _ _ _ _ e] at hu
      obtain ⟨b, hb, hb1, hb2⟩ := inv.pIn w u hu
      exact ⟨b, rowDn_mono hb, hb1, hb2⟩
  · -- pAll
    intro u b hdn hl
    rcases rowDn_snoc hdn with h1 | ⟨h1, h2⟩
    · have := inv.pAll u b h1 hl
      by_cases e : a.1 = b.1
      · rw [← e, gP_set_self _ _ _ hPlen]; rw [← e] at this; exact List.mem_append_left _ this
      · rw [gP_set_ne _ _ _ _ e]; exact this
    · subst h1; subst h2
      rw [gP_set_self _ _ _ hPlen]; simp
  · -- pNd
    intro w
    by_cases e : a.1 = w
    · subst e
      rw [gP_set_self _ _ _ hPlen, List.nodup_append]
      refine ⟨inv.pNd a.1, by simp, ?_⟩
      intro x hx y hy
      simp at hy; subst hy
      exact fun e => hvnot (e ▸ hx)
    · rw [gP_set_ne _ _ _ _ e]; exact inv.pNd w
  · -- sig
    intro w hwn
    by_cases e : a.1 = w
    · subst e
      rw [getD0_set_self _ _ _ hSlen, gP_set_self _ _ _ hPlen, List.map_append, List.sum_append, hcongr a.1,
        inv.sig a.1 hwn]
      simp only [List.map_cons, List.map_nil, List.sum_cons, List.sum_nil, getD0_set_ne _ _ _ _ hwv]
      ring
    · rw [getD0_set_ne _ _ _ _ e, gP_set_ne _ _ _ _ e, hcongr w]
      exact inv.sig w hwn
  · -- sPos
    intro w hw'
    by_cases e : a.1 = w
    · subst e
      rw [getD0_set_self _ _ _ hSlen]
      have h1 := inv.sPos v hvin
      have h2 := inv.sPos a.1 hw'
      linarith
    · rw [getD0_set_ne _ _ _ _ e]; exact inv.sPos w hw'

/-- case "not a shortest-path arc": nothing changes -/
theorem BInv.step_skip
    (inv : BInv adjOf n source A (rowDn adjOf S v pre) (dOf D v) (S ++ [v]) Q D sigma P)
    (a : Adj) (ha : a ∈ adjOf v) (d : Int) (hw : lk D a.1 = some d) (hne : d ≠ dOf D v + 1) :
    BInv adjOf n source A (rowDn adjOf S v (pre ++ [a])) (dOf D v) (S ++ [v]) Q D sigma P := by
  have hvin : v ∈ (S ++ [v]) ++ Q := by simp
  have hlkv : lk D v = some (dOf D v) := inv.lk_of_mem hvin
  have hwin : a.1 ∈ (S ++ [v]) ++ Q := (inv.disc a.1).1 (by rw [hw]; simp)
  refine
    { lenD := inv.lenD, lenS := inv.lenS, lenP := inv.lenP
      nd := inv.nd, disc := inv.disc, src := inv.src, wit := inv.wit, dnS := ?_, clo := ?_, ord := inv.ord,
      bndU := inv.bndU, bndL := inv.bndL, bndS := inv.bndS,
      pIn := ?_, pAll := ?_, pNd := inv.pNd, sig := inv.sig, sPos := inv.sPos }
  · intro u b hdn
    rcases rowDn_snoc hdn with h1 | ⟨h1, h2⟩
    · exact inv.dnS u b h1
    · subst h1; subst h2; exact ⟨by simp, ha⟩
  · intro u b hdn
    rcases rowDn_snoc hdn with h1 | ⟨h1, h2⟩
    · exact inv.clo u b h1
    · subst h1; subst h2
      have := inv.bndU b.1 hwin
      rw [dOf_of_lk hw] at this
      exact ⟨dOf D u, d, hlkv, hw, this⟩
  · intro w u hu
    obtain ⟨b, hb, hb1, hb2⟩ := inv.pIn w u hu
    exact ⟨b, rowDn_mono hb, hb1, hb2⟩
  · intro u b hdn hl
    rcases rowDn_snoc hdn with h1 | ⟨h1, h2⟩
    · exact inv.pAll u b h1 hl
    · subst h1; subst h2
      rw [hw] at hl
      cases hl
      exact absurd rfl hne

/-- one iteration of the `for adj in successors` loop preserves the invariant -/
theorem BInv.relax (hA : ArcsOf adjOf n A)
    (inv : BInv adjOf n source A (rowDn adjOf S v pre) (dOf D v) (S ++ [v]) Q D sigma P)
    (a : Adj) (ha : a ∈ adjOf v) (han : a.1 < n) (hfresh : a.1 ≠ v → ∀ b ∈ pre, b.1 ≠ a.1) :
    ∃ Q' D' sigma' P', bfsRelax v (dOf D v) (getD0 sigma v) (Q, D, sigma, P) a = (Q', D', sigma', P') ∧
      BInv adjOf n source A (rowDn adjOf S v (pre ++ [a])) (dOf D v) (S ++ [v]) Q' D' sigma' P' ∧
      dOf D' v = dOf D v ∧ getD0 sigma' v = getD0 sigma v := by
  have hvin : v ∈ (S ++ [v]) ++ Q := by simp
  have hlkv : lk D v = some (dOf D v) := inv.lk_of_mem hvin
  cases hw : lk D a.1 with
  | none =>
    have hwv : a.1 ≠ v := by intro e; rw [e, hlkv] at hw; cases hw
    exact ⟨_, _, _, _, bfsRelax_new v _ _ Q D sigma P a (by rw [inv.lenD]; exact han) hw,
      inv.step_new hA a ha han hw, dOf_set_ne _ _ _ _ hwv, getD0_set_ne _ _ _ _ hwv⟩
  | some d =>
    by_cases hd : d = dOf D v + 1
    · subst hd
      have hwv : a.1 ≠ v := by intro e; rw [e, hlkv] at hw; simp at hw
      exact ⟨_, _, _, _, bfsRelax_tight v _ _ Q D sigma P a hw,
        inv.step_tight a ha (hfresh hwv) hw, rfl, getD0_set_ne _ _ _ _ hwv⟩
    · exact ⟨_, _, _, _, bfsRelax_skip v _ _ Q D sigma P a d hw hd, inv.step_skip a ha d hw hd, rfl, rfl⟩

end step

theorem fresh_of_nodup {v : Nat} {pre rest : List Adj} {a : Adj}
    (hnd : (((pre ++ a :: rest).map (fun a => a.1)).filter (fun j => j != v)).Nodup) (hav : a.1 ≠ v) :
    ∀ b ∈ pre, b.1 ≠ a.1 := by
  intro b hb e
  rw [List.map_append, List.filter_append, List.nodup_append] at hnd
  have h1 : a.1 ∈ ((pre.map (fun a => a.1)).filter (fun j => j != v)) := by
    rw [List.mem_filter]
    exact ⟨List.mem_map.2 ⟨b, hb, e⟩, by simpa using hav⟩
  have h2 : a.1 ∈ (((a :: rest).map (fun a => a.1)).filter (fun j => j != v)) := by
    rw [List.mem_filter]
    exact ⟨by simp, by simpa using hav⟩
  exact hnd.2.2 _ h1 _ h2 rfl

/-- the whole `for adj in successors` loop -/
theorem BInv.row (hA : ArcsOf adjOf n A) {S : List Nat} {v : Nat}
    (hidx : ∀ a ∈ adjOf v, a.1 < n)
    (hnd : (((adjOf v).map (fun a => a.1)).filter (fun j => j != v)).Nodup) :
    ∀ (rest pre : List Adj) (Q : List Nat) (D : List (Option Int)) (sigma : List Rat) (P : List (List Nat)),
      adjOf v = pre ++ rest →
      BInv adjOf n source A (rowDn adjOf S v pre) (dOf D v) (S ++ [v]) Q D sigma P →
      ∃ Q' D' sigma' P', rest.foldl (bfsRelax v (dOf D v) (getD0 sigma v)) (Q, D, sigma, P) = (Q', D', sigma', P') ∧
        BInv adjOf n source A (rowDn adjOf S v (adjOf v)) (dOf D v) (S ++ [v]) Q' D' sigma' P' := by
  intro rest
  induction rest with
  | nil =>
    intro pre Q D sigma P hsplit inv
    rw [List.append_nil] at hsplit
    rw [hsplit]
    exact ⟨Q, D, sigma, P, rfl, inv⟩
  | cons a rest ih =>
    intro pre Q D sigma P hsplit inv
    have ha : a ∈ adjOf v := by rw [hsplit]; simp
    obtain ⟨Q1, D1, s1, P1, e1, inv1, hd1, hs1⟩ :=
      inv.relax hA a ha (hidx a ha) (fun hav => fresh_of_nodup (by rw [← hsplit]; exact hnd) hav)
    rw [List.foldl_cons, e1]
    rw [← hd1] at inv1
    obtain ⟨Q2, D2, s2, P2, e2, inv2⟩ := ih (pre ++ [a]) Q1 D1 s1 P1 (by rw [hsplit]; simp) inv1
    rw [hd1, hs1] at e2
    rw [hd1] at inv2
    exact ⟨Q2, D2, s2, P2, e2, inv2⟩

/-! ## the outer loop -/

/-- between two iterations of the outer loop: exactly the rows of `S` have been scanned -/
def mainDn (adjOf : Nat → List Adj) (S : List Nat) (u : Nat) (a : Adj) : Prop := u ∈ S ∧ a ∈ adjOf u

theorem BInv.congrDn {Dn Dn' : Nat → Adj → Prop} {h : Int} {S Q : List Nat} {D : List (Option Int)} {sigma : List Rat}
    {P : List (List Nat)} (hiff : ∀ u a, Dn u a ↔ Dn' u a) (inv : BInv adjOf n source A Dn h S Q D sigma P) :
    BInv adjOf n source A Dn' h S Q D sigma P := by
  have : Dn = Dn' := funext fun u => funext fun a => propext (hiff u a)
  rw [← this]; exact inv

/-- dequeue `v`: the level becomes `d(v)` -/
theorem BInv.start_row {h : Int} {S Q : List Nat} {v : Nat} {D : List (Option Int)} {sigma : List Rat} {P : List (List Nat)}
    (inv : BInv adjOf n source A (mainDn adjOf S) h S (v :: Q) D sigma P) :
    BInv adjOf n source A (rowDn adjOf S v []) (dOf D v) (S ++ [v]) Q D sigma P := by
  have hl : (S ++ [v]) ++ Q = S ++ v :: Q := by simp
  have hord := inv.ord
  rw [List.pairwise_append] at hord
  obtain ⟨_, hordQ, hordSQ⟩ := hord
  have hvQ : ∀ q ∈ Q, dOf D v ≤ dOf D q := (List.pairwise_cons.1 hordQ).1
  have hSv : ∀ u ∈ S, dOf D u ≤ dOf D v := fun u hu => hordSQ u hu v (by simp)
  have hhv : h ≤ dOf D v := inv.bndL v (by simp)
  refine
    { lenD := inv.lenD, lenS := inv.lenS, lenP := inv.lenP
      nd := by rw [hl]; exact inv.nd
      disc := by rw [hl]; exact inv.disc
      src := inv.src, wit := inv.wit
      dnS := ?_, clo := ?_
      ord := by rw [hl]; exact inv.ord
      bndU := ?_, bndL := hvQ, bndS := ?_, pIn := ?_, pAll := ?_, pNd := inv.pNd, sig := inv.sig
      sPos := by rw [hl]; exact inv.sPos }
  · rintro u a (⟨h1, h2⟩ | ⟨_, h2⟩)
    · exact ⟨List.mem_append_left _ h1, h2⟩
    · cases h2
  · rintro u a (h1 | ⟨_, h2⟩)
    · exact inv.clo u a h1
    · cases h2
  · intro x hx
    rw [hl] at hx
    have := inv.bndU x hx
    omega
  · intro u hu
    rcases List.mem_append.1 hu with hu | hu
    · exact hSv u hu
    · simp at hu; subst hu; exact Int.le_refl _
  · intro w u hu
    obtain ⟨a, ha, h1, h2⟩ := inv.pIn w u hu
    exact ⟨a, Or.inl ha, h1, h2⟩
  · rintro u a (h1 | ⟨_, h2⟩) hl'
    · exact inv.pAll u a h1 hl'
    · cases h2

theorem BInv.end_row {h : Int} {S Q : List Nat} {v : Nat} {D : List (Option Int)} {sigma : List Rat} {P : List (List Nat)}
    (inv : BInv adjOf n source A (rowDn adjOf S v (adjOf v)) h (S ++ [v]) Q D sigma P) :
    BInv adjOf n source A (mainDn adjOf (S ++ [v])) h (S ++ [v]) Q D sigma P := by
  refine inv.congrDn ?_
  intro u a
  constructor
  · rintro (⟨h1, h2⟩ | ⟨h1, h2⟩)
    · exact ⟨List.mem_append_left _ h1, h2⟩
    · subst h1; exact ⟨by simp, h2⟩
  · rintro ⟨h1, h2⟩
    rcases List.mem_append.1 h1 with h1 | h1
    · exact Or.inl ⟨h1, h2⟩
    · simp at h1; subst h1; exact Or.inr ⟨rfl, h2⟩

theorem length_le_of_nodup_lt {l : List Nat} {n : Nat} (hnd : l.Nodup) (hlt : ∀ x ∈ l, x < n) : l.length ≤ n := by
  have := (List.subperm_of_subset hnd (fun x hx => List.mem_range.2 (hlt x hx))).length_le
  simpa using this

/-- **the BFS loop**: with enough fuel it stops with an empty queue, the invariant holding -/
theorem bfsLoop_inv (hA : ArcsOf adjOf n A)
    (hidx : ∀ v, v < n → ∀ a ∈ adjOf v, a.1 < n)
    (hnd : ∀ v, v < n → (((adjOf v).map (fun a => a.1)).filter (fun j => j != v)).Nodup) :
    ∀ (fuel : Nat) (S Q : List Nat) (D : List (Option Int)) (sigma : List Rat) (P : List (List Nat)) (h : Int),
      BInv adjOf n source A (mainDn adjOf S) h S Q D sigma P → n + 1 ≤ fuel + S.length →
      ∃ D' sigma' P' S' h', bcBfsLoop adjOf fuel Q D sigma P S = (D', sigma', P', S') ∧
        BInv adjOf n source A (mainDn adjOf S') h' S' [] D' sigma' P' := by
  intro fuel
  induction fuel with
  | zero =>
    intro S Q D sigma P h inv hf
    have hnd' : S.Nodup := (List.nodup_append.1 inv.nd).1
    have := length_le_of_nodup_lt hnd' (fun x hx => inv.lt_n (List.mem_append_left _ hx))
    omega
  | succ fuel ih =>
    intro S Q D sigma P h inv hf
    cases Q with
    | nil => exact ⟨D, sigma, P, S, h, bcBfsLoop_nil .., inv⟩
    | cons v Q =>
      have hvn : v < n := inv.lt_n (by simp)
      have inv0 := inv.start_row
      obtain ⟨Q1, D1, s1, P1, e1, inv1⟩ := inv0.row hA (hidx v hvn) (hnd v hvn) (adjOf v) [] Q D sigma P rfl
      have inv2 := inv1.end_row
      obtain ⟨D', s', P', S', h', e2, inv3⟩ := ih (S ++ [v]) Q1 D1 s1 P1 _ inv2 (by simp; omega)
      refine ⟨D', s', P', S', h', ?_, inv3⟩
      rw [bcBfsLoop_cons]
      have e1' : (adjOf v).foldl (bfsRelax v ((D[v]?.join).getD 0) (getD0 sigma v)) (Q, D, sigma, P) = (Q1, D1, s1, P1) := e1
      simp only [e1']
      exact e2

/-- the initial state of `bfs` satisfies the invariant -/
theorem BInv.init (adjOf : Nat → List Adj) (n source : Nat) (A : Arcs) (hsrc : source < n) :
    BInv adjOf n source A (mainDn adjOf []) 0 [] [source] ((List.replicate n (none : Option Int)).set source (some 0))
      ((List.replicate n (0 : Rat)).set source 1) (List.replicate n []) := by
  have hlk : ∀ x, lk ((List.replicate n (none : Option Int)).set source (some 0)) x = if x = source then some 0 else none := by
    intro x
    by_cases e : x = source
    · subst e; rw [lk_set_self _ _ _ (by simpa using hsrc)]; simp
    · rw [lk_set_ne _ _ _ _ (fun e' => e e'.symm), lk_replicate_none]; simp [e]
  have hgP : ∀ w, gP (List.replicate n ([] : List Nat)) w = [] := by
    intro w
    unfold gP
    by_cases hw : w < n
    · simp [hw]
    · simp [List.getElem?_eq_none (by simpa using Nat.le_of_not_lt hw : (List.replicate n ([] : List Nat)).length ≤ w)]
  have hsg : ∀ w, w < n → getD0 ((List.replicate n (0 : Rat)).set source 1) w = if w = source then 1 else 0 := by
    intro w hw
    by_cases e : w = source
    · subst e; rw [getD0_set_self _ _ _ (by simpa using hsrc)]; simp
    · rw [getD0_set_ne _ _ _ _ (fun e' => e e'.symm)]; simp [getD0, hw, e]
  refine
    { lenD := by simp, lenS := by simp, lenP := by simp, nd := by simp
      disc := ?_, src := by rw [hlk]; simp, wit := ?_
      dnS := by rintro u a ⟨h1, _⟩; cases h1
      clo := by rintro u a ⟨h1, _⟩; cases h1
      ord := by simp
      bndU := ?_, bndL := ?_
      bndS := by intro u hu; cases hu
      pIn := by intro w u hu; rw [hgP] at hu; cases hu
      pAll := by rintro u a ⟨h1, _⟩; cases h1
      pNd := by intro w; rw [hgP]; exact List.nodup_nil
      sig := ?_, sPos := ?_ }
  · intro x
    rw [hlk]
    by_cases e : x = source <;> simp [e]
  · intro x d hx
    rw [hlk] at hx
    by_cases e : x = source
    · subst e; simp at hx; subst hx; exact Walk.nil _
    · simp [e] at hx
  · intro x hx
    simp at hx; subst hx
    simp [dOf, hlk]
  · intro q hq
    simp at hq; subst hq
    simp [dOf, hlk]
  · intro w hw
    rw [hsg w hw, hgP]; simp
  · intro w hw
    simp at hw; subst hw
    rw [hsg w hsrc]; simp

/-! ## what the BFS stage delivers -/

theorem ArcsOf.unit (hA : ArcsOf adjOf n A) : UnitArcs A := by
  intro a ha
  obtain ⟨u, w, c⟩ := a
  exact ((hA u w c).1 ha).2.1

/-- the facts about the result of `bfs` used by the later stages (`D` is the final distance array, which `bfs` drops) -/
structure BfsOut (adjOf : Nat → List Adj) (n source : Nat) (A : Arcs) (D : List (Option Int)) (r : SSR) : Prop where
  rsrc : r.source = source
  lenS : r.sigma.length = n
  lenP : r.P.length = n
  nd : r.S.Nodup
  lt : ∀ x ∈ r.S, x < n
  srcIn : source ∈ r.S
  mem : ∀ x, x ∈ r.S ↔ Reachable A source x
  memD : ∀ x, x ∈ r.S ↔ lk D x ≠ none
  dist : ∀ x d, lk D x = some d ↔ IsDist A source x d
  ord : r.S.Pairwise (fun x y => dOf D x ≤ dOf D y)
  pMem : ∀ w u, u ∈ gP r.P w ↔ (u ∈ r.S ∧ (∃ a ∈ adjOf u, a.1 = w) ∧ lk D w = some (dOf D u + 1))
  pNd : ∀ w, (gP r.P w).Nodup
  sig : ∀ w, w < n → getD0 r.sigma w = (if w = source then 1 else 0) + ((gP r.P w).map (getD0 r.sigma)).sum
  sPos : ∀ w ∈ r.S, 0 < getD0 r.sigma w

theorem BInv.final (hA : ArcsOf adjOf n A) {h : Int} {S : List Nat} {D : List (Option Int)} {sigma : List Rat}
    {P : List (List Nat)} (inv : BInv adjOf n source A (mainDn adjOf S) h S [] D sigma P) :
    BfsOut adjOf n source A D ⟨S, P, sigma, source⟩ := by
  have hU := hA.unit
  have hSQ : S ++ [] = S := List.append_nil S
  have hdisc : ∀ x, lk D x ≠ none ↔ x ∈ S := by intro x; rw [inv.disc x, hSQ]
  -- closure: the labels bound every walk from below
  have hlow : ∀ x c, Walk A source x c → ∃ d, lk D x = some d ∧ d ≤ c := by
    intro x c hw
    induction hw with
    | nil => exact ⟨0, inv.src, Int.le_refl _⟩
    | snoc hw' ha ih =>
      rename_i u x c' w
      obtain ⟨du, hdu, hle⟩ := ih
      obtain ⟨_, hw1, a, haa, hax⟩ := (hA u x w).1 ha
      have huS : u ∈ S := (hdisc u).1 (by rw [hdu]; simp)
      obtain ⟨du', dw, e1, e2, e3⟩ := inv.clo u a ⟨huS, haa⟩
      rw [hdu] at e1; cases e1
      rw [hax] at e2
      exact ⟨dw, e2, by omega⟩
  have hdist : ∀ x d, lk D x = some d ↔ IsDist A source x d := by
    intro x d
    constructor
    · intro hx
      refine ⟨inv.wit x d hx, fun c hc => ?_⟩
      obtain ⟨d', hd', hle⟩ := hlow x c hc
      rw [hx] at hd'; cases hd'; exact hle
    · intro hd
      obtain ⟨d', hd', hle⟩ := hlow x d hd.1
      have := hd.2 d' (inv.wit x d' hd')
      have e : d' = d := by omega
      rw [← e]; exact hd'
  refine
    { rsrc := rfl, lenS := inv.lenS, lenP := inv.lenP
      nd := by have := inv.nd; rwa [hSQ] at this
      lt := fun x hx => inv.lt_n (by rw [hSQ]; exact hx)
      srcIn := (hdisc source).1 (by rw [inv.src]; simp)
      mem := ?_
      memD := fun x => (hdisc x).symm
      dist := hdist
      ord := by have := inv.ord; rwa [hSQ] at this
      pMem := ?_
      pNd := inv.pNd, sig := inv.sig
      sPos := fun w hw => inv.sPos w (by rw [hSQ]; exact hw) }
  · intro x
    constructor
    · intro hx
      have := (hdisc x).2 hx
      cases hl : lk D x with
      | none => exact absurd hl this
      | some d => exact ⟨d, inv.wit x d hl⟩
    · rintro ⟨c, hc⟩
      obtain ⟨d, hd, _⟩ := hlow x c hc
      exact (hdisc x).1 (by rw [hd]; simp)
  · intro w u
    constructor
    · intro hu
      obtain ⟨a, ⟨h1, h2⟩, h3, h4⟩ := inv.pIn w u hu
      exact ⟨h1, ⟨a, h2, h3⟩, h4⟩
    · rintro ⟨h1, ⟨a, h2, h3⟩, h4⟩
      subst h3
      exact inv.pAll u a ⟨h1, h2⟩ h4

/-- **stage 1, in the form used by the later stages** -/
theorem bcBfs_out (hA : ArcsOf adjOf n A) (hsrc : source < n)
    (hidx : ∀ v, v < n → ∀ a ∈ adjOf v, a.1 < n)
    (hnd : ∀ v, v < n → (((adjOf v).map (fun a => a.1)).filter (fun j => j != v)).Nodup) :
    ∃ D, BfsOut adjOf n source A D (bcBfs adjOf n source) := by
  obtain ⟨D', s', P', S', h', e, inv⟩ :=
    bfsLoop_inv hA hidx hnd (n + 1) [] [source] _ _ _ 0 (BInv.init adjOf n source A hsrc) (by simp)
  refine ⟨D', ?_⟩
  have : bcBfs adjOf n source = ⟨S', P', s', source⟩ := by
    unfold bcBfs
    simp only [e]
  rw [this]
  exact inv.final hA

end Bc
end Graphrs
