/-
  Lemmas for Props/C13Termination.lean, part 5: the `stot*` bookkeeping invariant, and the step lemma - a `visit`
  that moves a node makes the assignment strictly better (larger potential, or equal potential and smaller ids).
-/
import GraphrsModel.Lemmas.LouvainTermVisit
namespace Graphrs
open LouvainFull
namespace LT

/-- the assignment a state describes -/
def asg (st : LState) : Nat → Nat := fun x => (alookup st.node2com x).getD 0

/-- a degree map as a function -/
def dgOf (l : List (Nat × Rat)) : Nat → Rat := fun x => (alookup l x).getD 0

/-- the degree maps never change, and the `stot*` vectors hold the degree sums of the communities -/
structure TInv (lv : Level) (k : Nat) (deg0 in0 out0 : List (Nat × Rat)) (st : LState) : Prop where
  deg_eq : st.di.deg = deg0
  in_eq : st.di.inDeg = in0
  out_eq : st.di.outDeg = out0
  stotU : lv.g.specs.directed = false → ∀ c, c < k → getR st.di.stot c = csum k (asg st) (dgOf deg0) c
  stotD : lv.g.specs.directed = true → ∀ c, c < k →
    getR st.di.stotIn c = csum k (asg st) (dgOf in0) c ∧ getR st.di.stotOut c = csum k (asg st) (dgOf out0) c

/-- the potential of the level: the modularity-like sum the moves increase -/
def Phi (lv : Level) (k : Nat) (m res : Rat) (deg0 in0 out0 : List (Nat × Rat)) : (Nat → Nat) → Rat :=
  if lv.g.specs.directed = true then potD lv.g.allEdges k m res (dgOf out0) (dgOf in0)
  else potU lv.g.allEdges k m res (dgOf deg0)

/-- progress between two states of one pass -/
def Q (Φ : (Nat → Nat) → Rat) (k : Nat) (st st' : LState) : Prop :=
  (st'.moves = st.moves ∧ asg st' = asg st) ∨ (st.moves < st'.moves ∧ Better Φ k (asg st') (asg st))

theorem Q.refl (Φ : (Nat → Nat) → Rat) (k : Nat) (st : LState) : Q Φ k st st := Or.inl ⟨rfl, rfl⟩

theorem Q.trans {Φ : (Nat → Nat) → Rat} {k : Nat} {a b c : LState} (h1 : Q Φ k a b) (h2 : Q Φ k b c) : Q Φ k a c := by
  unfold Q at *
  rcases h1 with ⟨h1, h1'⟩ | ⟨h1, h1'⟩ <;> rcases h2 with ⟨h2, h2'⟩ | ⟨h2, h2'⟩
  · left; exact ⟨h2.trans h1, h2'.trans h1'⟩
  · right; rw [← h1, ← h1']; exact ⟨h2, h2'⟩
  · right; rw [h2, h2']; exact ⟨h1, h1'⟩
  · right; exact ⟨lt_trans h1 h2, h2'.trans h1'⟩

/-- the decision made by the scan, abstractly: `G c wt` is the gain of community `c` at weight `wt`, `W c` the weight
    from `u` to `c`; staying has gain `G cur (W cur)` (at most 0 when there is no edge to `cur`), and the change of the
    potential is a positive multiple of the gain difference -/
theorem better_of_scan (Φ : (Nat → Nat) → Rat) (G : Nat → Rat → Rat) (w2c : List (Nat × Rat))
    (hnd : (w2c.map (·.1)).Nodup) (cur u k : Nat) (a : Nat → Nat)
    (hne : (Louvain.updateBest G w2c (cur, 0)).1 ≠ cur)
    (W : Nat → Rat) (hW : ∀ c, (alookup w2c c).getD 0 = W c)
    (hstay : G cur 0 ≤ 0) (D : Rat) (hD : 0 < D)
    (hdelta : Φ (Function.update a u (Louvain.updateBest G w2c (cur, 0)).1) - Φ a
      = (G (Louvain.updateBest G w2c (cur, 0)).1 (W (Louvain.updateBest G w2c (cur, 0)).1) - G cur (W cur)) / D)
    (hau : a u = cur) (hu : u < k) :
    Better Φ k (Function.update a u (Louvain.updateBest G w2c (cur, 0)).1) a := by
  rcases updateBest_spec G w2c hnd cur with h | ⟨wt, hmem, hpos, hall⟩
  · exact absurd h hne
  · generalize (Louvain.updateBest G w2c (cur, 0)).1 = best at *
    have hwt : W best = wt := by rw [← hW best, AL.mem_lookup hnd hmem]; rfl
    rw [hwt] at hdelta
    have key : G cur (W cur) < G best wt ∨ (G cur (W cur) = G best wt ∧ best < cur) := by
      cases hlk : alookup w2c cur with
      | none =>
        left
        have : W cur = 0 := by rw [← hW cur, hlk]; rfl
        rw [this]
        exact lt_of_le_of_lt hstay hpos
      | some wc =>
        have hwc : W cur = wc := by rw [← hW cur, hlk]; rfl
        rw [hwc]
        have := hall (cur, wc) (AL.lookup_mem hlk)
        simp only at this
        by_cases hlt : cur < best
        · left; exact this.2 hlt
        · rcases lt_or_eq_of_le this.1 with h | h
          · left; exact h
          · right; exact ⟨h, by omega⟩
    unfold Better
    rcases key with h | ⟨h, hlt⟩
    · left
      have : 0 < (G best wt - G cur (W cur)) / D := div_pos (by linarith) hD
      linarith
    · right
      refine ⟨?_, idsum_update_lt k a u best hu (by rw [hau]; exact hlt)⟩
      rw [h, sub_self, zero_div] at hdelta
      linarith

theorem asg_insert (st : LState) (u b : Nat) :
    (fun x => (alookup (ainsert st.node2com u b) x).getD 0) = Function.update (asg st) u b := by
  funext x
  rw [AL.lookup_insert]
  by_cases h : u = x
  · subst h; simp
  · rw [if_neg h, Function.update_of_ne (fun e => h e.symm)]
    rfl

/-- **one visit**: the invariant is kept, and a move makes the assignment strictly better -/
theorem visit_step {lv : Level} {n k : Nat} (hg : LF.GoodLevel lv n k) (hwf : lv.g.wf = true)
    (hmulti : lv.g.specs.multi = false) {m res : Rat} (hm : 0 < m) (hres : 0 ≤ res)
    {deg0 in0 out0 : List (Nat × Rat)}
    (hnn : ∀ x, 0 ≤ dgOf deg0 x ∧ 0 ≤ dgOf in0 x ∧ 0 ≤ dgOf out0 x)
    {st st' : LState} {u : Nat} (hs : LF.SInv lv k st) (ht : TInv lv k deg0 in0 out0 st)
    (hv : visit lv m res st u = .ok st') :
    TInv lv k deg0 in0 out0 st' ∧ Q (Phi lv k m res deg0 in0 out0) k st st' := by
  have htot : LF.TotalOn st.node2com lv.g.names := fun x hx => hs.n2c_total x ((hg.names_iff x).1 hx)
  obtain ⟨_, _, _, _, _, _, hinEq, houtEq, hdegEq, _⟩ := LF.visit_ok hv
  cases hd : lv.g.specs.directed
  · -- undirected
    obtain ⟨cur, w2c, d, hcur, hw, hdeg, hcl, hbl, hstot, hdegeq, hcase⟩ := visit_undir hd hv
    have huk : u < k := (hs.n2c_lt u cur hcur).1
    have hck : cur < k := (hs.n2c_lt u cur hcur).2
    have hau : asg st u = cur := by simp [asg, hcur]
    have hdu : dgOf deg0 u = d := by rw [← ht.deg_eq]; simp [dgOf, hdeg]
    have hnd := LF.neighborWeights_keys_nodup hw
    have hbest_or : bestU m res st cur d w2c = cur ∨ bestU m res st cur d w2c ∈ w2c.map (·.1) :=
      LF.updateBest_fst _ w2c (cur, 0)
    have hbk : bestU m res st cur d w2c < k := by
      rcases hbest_or with h1 | h1
      · rw [h1]; exact hck
      · obtain ⟨v, hv2⟩ := LF.neighborWeights_keys hw _ h1
        exact (hs.n2c_lt v _ hv2).2
    have hs1 : ∀ c, c < k → getR (stot1U st cur d) c = csum1 k (asg st) (dgOf deg0) u c := by
      intro c hc
      unfold stot1U csum1
      rw [getR_setR, hau, hdu, ht.stotU hd c hc]
      by_cases hcc : cur = c
      · subst hcc
        rw [if_pos ⟨rfl, hcl⟩, if_pos rfl, ht.stotU hd cur hc]
      · rw [if_neg (fun hh => hcc hh.1), if_neg hcc]; ring
    have hasg' : asg st' = Function.update (asg st) u (bestU m res st cur d w2c) := by
      rcases hcase with ⟨_, h2, _⟩ | ⟨h1, h2, _⟩
      · unfold asg; rw [h2]; exact asg_insert st u _
      · rw [h1, ← hau, Function.update_eq_self]
        unfold asg; rw [h2]
    have hW := fun c => neighborWeights_wto lv.g hwf hmulti u st.node2com htot hw c
    refine ⟨⟨hdegeq.trans ht.deg_eq, hinEq.trans ht.in_eq, houtEq.trans ht.out_eq, ?_, ?_⟩, ?_⟩
    · intro _ c hc
      rw [hstot, getR_setR, hasg', csum_update k (asg st) (dgOf deg0) c u _ huk, hs1 c hc, hdu]
      have hlen : (stot1U st cur d).length = st.di.stot.length := by simp [stot1U, setR]
      by_cases hbc : bestU m res st cur d w2c = c
      · rw [if_pos ⟨hbc, by rw [hlen]; exact hbl⟩, if_pos hbc, hbc, hs1 c hc]
        unfold csum1; rw [hdu]
      · rw [if_neg (fun hh => hbc hh.1), if_neg hbc]
        unfold csum1; rw [hdu]; ring
    · intro hd'; rw [hd] at hd'; cases hd'
    · rcases hcase with ⟨hne, _, hmv⟩ | ⟨_, h2, hmv⟩
      · right
        refine ⟨by omega, ?_⟩
        rw [hasg']
        have hΦ : Phi lv k m res deg0 in0 out0 = potU lv.g.allEdges k m res (dgOf deg0) := by
          unfold Phi; rw [hd]; simp
        rw [hΦ]
        unfold bestU at hne hbk ⊢
        refine better_of_scan _ (fun c wt => Louvain.gainUndirected m res wt (getR (stot1U st cur d) c) d) w2c hnd cur u k
          (asg st) hne (fun c => wto lv.g.allEdges (asg st) u c) hW ?_ (2 * m) (by linarith) ?_ hau huk
        · rw [hs1 cur hck]
          unfold Louvain.gainUndirected
          have h1 : 0 ≤ csum1 k (asg st) (dgOf deg0) u cur := csum1_nonneg (fun x => (hnn x).1) u cur huk
          have h2 : 0 ≤ d := by rw [← hdu]; exact (hnn u).1
          have h3 : 0 ≤ res * (csum1 k (asg st) (dgOf deg0) u cur * d) / m :=
            div_nonneg (mul_nonneg hres (mul_nonneg h1 h2)) (le_of_lt hm)
          linarith
        · rw [potU_update lv.g.allEdges k m res (dgOf deg0) (asg st) u _ hm huk hbk (by rw [hau]; exact hck)
            (by rw [hau]; exact hne), hs1 _ hbk, hs1 cur hck, hau, hdu]
      · left
        refine ⟨hmv, ?_⟩
        unfold asg; rw [h2]
  · -- directed
    obtain ⟨cur, w2c, i, o, hcur, hw, hin, hout, hcl1, hcl2, hbl1, hbl2, hstotIn, hstotOut, -, -, hcase⟩ := visit_dir hd hv
    have huk : u < k := (hs.n2c_lt u cur hcur).1
    have hck : cur < k := (hs.n2c_lt u cur hcur).2
    have hau : asg st u = cur := by simp [asg, hcur]
    have hiu : dgOf in0 u = i := by rw [← ht.in_eq]; simp [dgOf, hin]
    have hou : dgOf out0 u = o := by rw [← ht.out_eq]; simp [dgOf, hout]
    have hnd := LF.neighborWeights_keys_nodup hw
    have hbest_or : bestD m res st cur i o w2c = cur ∨ bestD m res st cur i o w2c ∈ w2c.map (·.1) :=
      LF.updateBest_fst _ w2c (cur, 0)
    have hbk : bestD m res st cur i o w2c < k := by
      rcases hbest_or with h1 | h1
      · rw [h1]; exact hck
      · obtain ⟨v, hv2⟩ := LF.neighborWeights_keys hw _ h1
        exact (hs.n2c_lt v _ hv2).2
    have hs1 : ∀ c, c < k → getR (stotIn1 st cur i) c = csum1 k (asg st) (dgOf in0) u c := by
      intro c hc
      unfold stotIn1 csum1
      rw [getR_setR, hau, hiu, (ht.stotD hd c hc).1]
      by_cases hcc : cur = c
      · subst hcc
        rw [if_pos ⟨rfl, hcl1⟩, if_pos rfl, (ht.stotD hd cur hc).1]
      · rw [if_neg (fun hh => hcc hh.1), if_neg hcc]; ring
    have hs2 : ∀ c, c < k → getR (stotOut1 st cur o) c = csum1 k (asg st) (dgOf out0) u c := by
      intro c hc
      unfold stotOut1 csum1
      rw [getR_setR, hau, hou, (ht.stotD hd c hc).2]
      by_cases hcc : cur = c
      · subst hcc
        rw [if_pos ⟨rfl, hcl2⟩, if_pos rfl, (ht.stotD hd cur hc).2]
      · rw [if_neg (fun hh => hcc hh.1), if_neg hcc]; ring
    have hasg' : asg st' = Function.update (asg st) u (bestD m res st cur i o w2c) := by
      rcases hcase with ⟨_, h2, _⟩ | ⟨h1, h2, _⟩
      · unfold asg; rw [h2]; exact asg_insert st u _
      · rw [h1, ← hau, Function.update_eq_self]
        unfold asg; rw [h2]
    have hW := fun c => neighborWeights_wto lv.g hwf hmulti u st.node2com htot hw c
    refine ⟨⟨hdegEq.trans ht.deg_eq, hinEq.trans ht.in_eq, houtEq.trans ht.out_eq, ?_, ?_⟩, ?_⟩
    · intro hd'; rw [hd] at hd'; cases hd'
    · intro _ c hc
      constructor
      · rw [hstotIn, getR_setR, hasg', csum_update k (asg st) (dgOf in0) c u _ huk, hs1 c hc, hiu]
        have hlen : (stotIn1 st cur i).length = st.di.stotIn.length := by simp [stotIn1, setR]
        by_cases hbc : bestD m res st cur i o w2c = c
        · rw [if_pos ⟨hbc, by rw [hlen]; exact hbl1⟩, if_pos hbc, hbc, hs1 c hc]
          unfold csum1; rw [hiu]
        · rw [if_neg (fun hh => hbc hh.1), if_neg hbc]
          unfold csum1; rw [hiu]; ring
      · rw [hstotOut, getR_setR, hasg', csum_update k (asg st) (dgOf out0) c u _ huk, hs2 c hc, hou]
        have hlen : (stotOut1 st cur o).length = st.di.stotOut.length := by simp [stotOut1, setR]
        by_cases hbc : bestD m res st cur i o w2c = c
        · rw [if_pos ⟨hbc, by rw [hlen]; exact hbl2⟩, if_pos hbc, hbc, hs2 c hc]
          unfold csum1; rw [hou]
        · rw [if_neg (fun hh => hbc hh.1), if_neg hbc]
          unfold csum1; rw [hou]; ring
    · rcases hcase with ⟨hne, _, hmv⟩ | ⟨_, h2, hmv⟩
      · right
        refine ⟨by omega, ?_⟩
        rw [hasg']
        have hΦ : Phi lv k m res deg0 in0 out0 = potD lv.g.allEdges k m res (dgOf out0) (dgOf in0) := by
          unfold Phi; rw [hd]; simp
        rw [hΦ]
        unfold bestD at hne hbk ⊢
        refine better_of_scan _ (fun c wt => Louvain.gainDirected m res wt o i (getR (stotIn1 st cur i) c)
          (getR (stotOut1 st cur o) c)) w2c hnd cur u k
          (asg st) hne (fun c => wto lv.g.allEdges (asg st) u c) hW ?_ m hm ?_ hau huk
        · rw [hs1 cur hck, hs2 cur hck]
          unfold Louvain.gainDirected
          have h1 : 0 ≤ csum1 k (asg st) (dgOf in0) u cur := csum1_nonneg (fun x => (hnn x).2.1) u cur huk
          have h2 : 0 ≤ csum1 k (asg st) (dgOf out0) u cur := csum1_nonneg (fun x => (hnn x).2.2) u cur huk
          have h3 : 0 ≤ o := by rw [← hou]; exact (hnn u).2.2
          have h4 : 0 ≤ i := by rw [← hiu]; exact (hnn u).2.1
          have h5 : 0 ≤ res * (o * csum1 k (asg st) (dgOf in0) u cur + i * csum1 k (asg st) (dgOf out0) u cur) / m :=
            div_nonneg (mul_nonneg hres (add_nonneg (mul_nonneg h3 h1) (mul_nonneg h4 h2))) (le_of_lt hm)
          linarith
        · rw [potD_update lv.g.allEdges k m res (dgOf out0) (dgOf in0) (asg st) u _ hm huk hbk (by rw [hau]; exact hck)
            (by rw [hau]; exact hne), hs1 _ hbk, hs1 cur hck, hs2 _ hbk, hs2 cur hck, hau, hiu, hou]
      · left
        refine ⟨hmv, ?_⟩
        unfold asg; rw [h2]

end LT
end Graphrs
