/-
  Decomposition of `Store.addEdge` into node creation, adjacency phase and edge-store phase.
-/
import GraphrsModel.Lemmas.EdgeStore
namespace Graphrs


/-- the neighbour indexes listed in each row -/
def rowKeys (vec : List (List Adj)) : List (List Nat) := vec.map (·.map (·.1))

def hasKey (vec : List (List Adj)) (u v : Nat) : Prop := ∃ row, vec[u]? = some row ∧ v ∈ row.map (·.1)

theorem rowKeys_length (vec : List (List Adj)) : (rowKeys vec).length = vec.length := by simp [rowKeys]

theorem hasKey_congr {vec vec' : List (List Adj)} (h : rowKeys vec' = rowKeys vec) (u v : Nat) :
    hasKey vec u v → hasKey vec' u v := by
  rintro ⟨row, hr, hv⟩
  have h1 : (rowKeys vec)[u]? = some (row.map (·.1)) := by simp [rowKeys, hr]
  rw [← h] at h1
  simp only [rowKeys, List.getElem?_map, Option.map_eq_some_iff] at h1
  obtain ⟨row', hr', hm⟩ := h1
  exact ⟨row', hr', by rw [hm]; exact hv⟩

theorem adjUpdate_keepMin {vec : List (List Adj)} {u v : Nat} (w : W) (h : hasKey vec u v) :
    ∃ vec', adjUpdate vec u v w .keepMin = some vec' ∧ rowKeys vec' = rowKeys vec := by
  obtain ⟨row, hr, hv⟩ := h
  simp only [List.mem_map] at hv
  obtain ⟨a, ha, hav⟩ := hv
  unfold adjUpdate
  simp only [hr]
  cases hf : row.findIdx? (fun a => a.1 == v) with
  | none =>
    rw [List.findIdx?_eq_none_iff] at hf
    have := hf a ha
    simp [hav] at this
  | some i =>
    have hi := List.findIdx?_eq_some_iff_getElem.mp hf
    obtain ⟨hlt, hpi, _⟩ := hi
    simp only [List.getElem?_eq_getElem hlt]
    split
    · refine ⟨_, rfl, ?_⟩
      simp only [rowKeys, List.map_set]
      apply List.ext_getElem?
      intro j
      rw [List.getElem?_set]
      split
      · rename_i hju; subst hju
        have hul : u < vec.length := by
          rcases Nat.lt_or_ge u vec.length with h3 | h3
          · exact h3
          · rw [List.getElem?_eq_none h3] at hr; cases hr
        simp only [List.length_map, hul, if_true, List.getElem?_map, hr, Option.map_some]
        congr 1
        apply List.ext_getElem?
        intro m
        rw [List.getElem?_set]
        split
        · rename_i him; subst him
          simp only [List.length_map, hlt, if_true, List.getElem?_map, List.getElem?_eq_getElem hlt, Option.map_some]
          simp at hpi
          rw [hpi]
        · rfl
      · rfl
    · exact ⟨_, rfl, rfl⟩

theorem adjUpdate_other {vec : List (List Adj)} {u : Nat} (v : Nat) (w : W) {upd : AdjUpd}
    (hupd : upd ≠ .keepMin) (hu : u < vec.length) :
    ∃ vec', adjUpdate vec u v w upd = some vec' ∧ vec'.length = vec.length := by
  unfold adjUpdate
  simp only [List.getElem?_eq_getElem hu]
  cases upd with
  | keepMin => exact absurd rfl hupd
  | push => exact ⟨_, rfl, by simp⟩
  | overwrite => exact ⟨_, rfl, by simp⟩
  | untouched => exact ⟨_, rfl, rfl⟩

theorem hasKey_lt {vec : List (List Adj)} {u v : Nat} (h : hasKey vec u v) : u < vec.length := by
  obtain ⟨row, hr, _⟩ := h
  rcases Nat.lt_or_ge u vec.length with h3 | h3
  · exact h3
  · rw [List.getElem?_eq_none h3] at hr; cases hr

/-- `adjUpdate` does not reach a panic site when the row exists and (for `keepMin`) lists the neighbour -/
theorem adjUpdate_some {vec : List (List Adj)} {u : Nat} (v : Nat) (w : W) (upd : AdjUpd)
    (hu : u < vec.length) (hk : upd = .keepMin → hasKey vec u v) :
    ∃ vec', adjUpdate vec u v w upd = some vec' ∧ vec'.length = vec.length ∧
      (upd = .keepMin → rowKeys vec' = rowKeys vec) := by
  by_cases h : upd = .keepMin
  · subst h
    obtain ⟨vec', h1, h2⟩ := adjUpdate_keepMin w (hk rfl)
    refine ⟨vec', h1, ?_, fun _ => h2⟩
    rw [← rowKeys_length, h2, rowKeys_length]
  · obtain ⟨vec', h1, h2⟩ := adjUpdate_other v w h hu
    exact ⟨vec', h1, h2, fun e => absurd e h⟩

namespace Store

/-- the node-creation step of `add_edge` for one endpoint -/
def ensure (s : Store) (x : Nat) : Store := if !acontains s.nodesMap x then s.addNode ⟨x, none⟩ else s

def updOf (sp : Specs) (already : Bool) : AdjUpd :=
  match already, sp.multi with
  | false, _ => .push
  | true, true => .keepMin
  | true, false => if sp.dedupe == .keepLast then .overwrite else .untouched

/-- the adjacency part of `add_edge` -/
def adjPhase (sp : Specs) (s : Store) (e : Edge) (ui vi ou ov : Nat) (upd : AdjUpd) : Store :=
  let s := { s with
    succ := amodify s.succ e.u [] (sinsert · e.v)
    succMap := amodify s.succMap ui [] (sinsert · vi) }
  let s := s.adjSucc ou ov e.w upd
  if sp.directed then
    let s := { s with
      pred := amodify s.pred e.v [] (sinsert · e.u)
      predMap := amodify s.predMap vi [] (sinsert · ui) }
    s.adjPred ov ou e.w upd
  else
    let s := { s with
      succ := amodify s.succ e.v [] (sinsert · e.u)
      succMap := amodify s.succMap vi [] (sinsert · ui) }
    s.adjSucc ov ou e.w upd

/-- the edge-store part of `add_edge` -/
def edgePhase (sp : Specs) (s : Store) (ordered : Edge) (ou ov : Nat) : Store :=
  if sp.multi then
    { s with
      edges := amodify s.edges (ordered.u, ordered.v) [] (· ++ [ordered])
      edgesMap := amodify s.edgesMap (ou, ov) [] (· ++ [ordered]) }
  else if (s.edgesByIdx ou ov).isNone then
    { s with
      edges := ainsert s.edges (ordered.u, ordered.v) [ordered]
      edgesMap := ainsert s.edgesMap (ou, ov) [ordered] }
  else if sp.dedupe == .keepLast then
    { s with
      edges := ainsert s.edges (ordered.u, ordered.v) [ordered]
      edgesMap := ainsert s.edgesMap (ou, ov) [ordered] }
  else s

theorem addEdge_eq (s : Store) (e : Edge) :
    s.addEdge e =
      if !s.specs.selfLoops && e.u == e.v then
        match s.specs.slFalse with
        | .error => (s, some .SelfLoopsFound)
        | .drop => (s, none)
      else if s.specs.missing == .error && (!acontains s.nodesMap e.u || !acontains s.nodesMap e.v) then
        (s, some .NodeNotFound)
      else
        let s2 := (s.ensure e.u).ensure e.v
        match alookup s2.nodesMap e.u, alookup s2.nodesMap e.v with
        | some ui, some vi =>
          let already := (s2.edgesByIdx ui vi).isSome
          if s.specs.dedupe == .error && !s.specs.multi && already then (s2, some .DuplicateEdge)
          else
            let k := idxKey s.specs.directed ui vi
            (edgePhase s.specs (adjPhase s.specs s2 e ui vi k.1 k.2 (updOf s.specs already))
              (Abs.canon s.specs.directed e) k.1 k.2, none)
        | _, _ => (s2.poison "add_edge: nodes_map.get(..).unwrap()", none) := by
  rfl


theorem adjPhase_form (sp : Specs) (s : Store) (e : Edge) (ui vi ou ov : Nat) (upd : AdjUpd)
    (hou : ou < s.succVec.length) (hov : ov < s.succVec.length) (hov' : ov < s.predVec.length)
    (hk : upd = .keepMin → hasKey s.succVec ou ov ∧
      (if sp.directed then hasKey s.predVec ov ou else hasKey s.succVec ov ou)) :
    ∃ sc scm sv p pm pv, adjPhase sp s e ui vi ou ov upd =
      { s with succ := sc, succMap := scm, succVec := sv, pred := p, predMap := pm, predVec := pv } ∧
      sv.length = s.succVec.length ∧ pv.length = s.predVec.length := by
  obtain ⟨vec1, h1, l1, k1⟩ := adjUpdate_some ov e.w upd hou (fun h => (hk h).1)
  unfold adjPhase
  simp only [adjSucc, h1]
  cases hd : sp.directed with
  | true =>
    simp only [if_true]
    obtain ⟨vec2, h2, l2, _⟩ := adjUpdate_some ou e.w upd hov' (fun h => by have := (hk h).2; simpa [hd] using this)
    simp only [adjPred, h2]
    exact ⟨_, _, _, _, _, _, rfl, l1, l2⟩
  | false =>
    simp only [Bool.false_eq_true, if_false]
    obtain ⟨vec2, h2, l2, _⟩ := adjUpdate_some (vec := vec1) (u := ov) ou e.w upd (by omega)
      (fun h => by
        have := (hk h).2
        simp only [hd, Bool.false_eq_true, if_false] at this
        exact hasKey_congr (k1 h) _ _ this)
    simp only [h2]
    exact ⟨_, _, _, _, _, _, rfl, by omega, rfl⟩


theorem NodesInv.of_adj {s : Store} (h : NodesInv s) {sc scm p pm : List (Nat × List Nat)} {sv pv : List (List Adj)}
    (l1 : sv.length = s.succVec.length) (l2 : pv.length = s.predVec.length) :
    NodesInv { s with succ := sc, succMap := scm, succVec := sv, pred := p, predMap := pm, predVec := pv } :=
  ⟨h.names_nodup, h.map_nodup, h.rev_nodup, h.map_iff, h.rev_eq, l1.trans h.succ_len, l2.trans h.pred_len,
    h.not_poisoned⟩

theorem EdgesInv.of_adj {s : Store} (h : EdgesInv s) {sc scm p pm : List (Nat × List Nat)} {sv pv : List (List Adj)} :
    EdgesInv { s with succ := sc, succMap := scm, succVec := sv, pred := p, predMap := pm, predVec := pv } :=
  ⟨h.edges_nodup, h.emap_nodup, h.edges_ok, h.emap_ok⟩

theorem NodesInv.of_edges {s : Store} (h : NodesInv s) {ed em : List ((Nat × Nat) × List Edge)} :
    NodesInv { s with edges := ed, edgesMap := em } :=
  ⟨h.names_nodup, h.map_nodup, h.rev_nodup, h.map_iff, h.rev_eq, h.succ_len, h.pred_len, h.not_poisoned⟩

theorem canon_key (dir : Bool) (e : Edge) :
    ((Abs.canon dir e).u, (Abs.canon dir e).v) = nameKey dir e.u e.v := by
  cases dir <;> simp [Abs.canon, Edge.ordered, Edge.reversed, nameKey] <;> split <;> simp

/-- the list stored for the key of `e` after the edge phase -/
def newList (sp : Specs) (old : Option (List Edge)) (ordered : Edge) : Option (List Edge) :=
  if sp.multi then some (old.getD [] ++ [ordered])
  else if old.isNone then some [ordered]
  else if sp.dedupe == .keepLast then some [ordered]
  else none

theorem edgePhase_eq {t : Store} (hn : NodesInv t) (he : EdgesInv t) (e : Edge) {ui vi : Nat}
    (hu : alookup t.nodesMap e.u = some ui) (hv : alookup t.nodesMap e.v = some vi) :
    edgePhase t.specs t (Abs.canon t.specs.directed e) (idxKey t.specs.directed ui vi).1 (idxKey t.specs.directed ui vi).2 =
      match newList t.specs (alookup t.edges (nameKey t.specs.directed e.u e.v)) (Abs.canon t.specs.directed e) with
      | some L => { t with edges := ainsert t.edges (nameKey t.specs.directed e.u e.v) L,
                           edgesMap := ainsert t.edgesMap (idxKey t.specs.directed ui vi) L }
      | none => t := by
  have hkey := emap_eq_edges hn he hu hv
  have hidem : t.edgesByIdx (idxKey t.specs.directed ui vi).1 (idxKey t.specs.directed ui vi).2 =
      alookup t.edges (nameKey t.specs.directed e.u e.v) := by
    rw [← hkey]
    unfold edgesByIdx
    congr 1
    cases t.specs.directed <;> simp [idxKey] <;> grind
  unfold edgePhase newList
  rw [hidem, canon_key]
  simp only [amodify, hkey]
  split
  · rfl
  · split
    · rfl
    · split
      · rfl
      · rfl


theorem getElem?_lt {α} {l : List α} {i : Nat} {x : α} (h : l[i]? = some x) : i < l.length := by
  rcases Nat.lt_or_ge i l.length with h3 | h3
  · exact h3
  · rw [List.getElem?_eq_none h3] at h; cases h

/-- what `adjOk` + `vecOk` say about a stored edge: both traversal rows list it -/
theorem wf_hasKey {s : Store} (hn : NodesInv s) (hadj : s.adjOk = true) (hvec : s.vecOk = true) {x y i j : Nat}
    (hx : s.names[i]? = some x) (hy : s.names[j]? = some y) (hxy : s.hasEdge x y = true) :
    hasKey s.succVec i j ∧ (s.specs.directed = true → hasKey s.predVec j i) := by
  have hi : i < s.nodesVec.length := by simpa [names] using getElem?_lt hx
  have hj : j < s.nodesVec.length := by simpa [names] using getElem?_lt hy
  have hxm : x ∈ s.names := List.mem_iff_getElem?.mpr ⟨i, hx⟩
  have hym : y ∈ s.names := List.mem_iff_getElem?.mpr ⟨j, hy⟩
  simp only [adjOk, Bool.and_eq_true, List.all_eq_true] at hadj
  obtain ⟨⟨_, hA⟩, hB⟩ := hadj
  have hA' := hA x hxm y hym
  have hB' := hB (x, i) (List.mem_zipIdx_iff_getElem?.mpr hx) (y, j) (List.mem_zipIdx_iff_getElem?.mpr hy)
  simp only [beq_iff_eq] at hA' hB'
  simp only [vecOk, Bool.and_eq_true, List.all_eq_true] at hvec
  obtain ⟨hS, hP⟩ := hvec
  constructor
  · have hlt : i < s.succVec.length := by rw [hn.succ_len]; exact hi
    have := hS (s.succVec[i], i) (List.mem_zipIdx_iff_getElem?.mpr (by simp [hlt]))
    have := (this.2 j (by simpa using hj)).1
    simp only [beq_iff_eq] at this
    rw [hB'.1, hA'.1, hxy] at this
    refine ⟨s.succVec[i], by simp [hlt], ?_⟩
    simp only [List.any_eq_true, beq_iff_eq] at this
    obtain ⟨a, ha, haj⟩ := this
    exact List.mem_map.mpr ⟨a, ha, haj⟩
  · intro hd
    have hA2 := hA y hym x hxm
    have hB2 := hB (y, j) (List.mem_zipIdx_iff_getElem?.mpr hy) (x, i) (List.mem_zipIdx_iff_getElem?.mpr hx)
    simp only [beq_iff_eq] at hA2 hB2
    have hlt : j < s.predVec.length := by rw [hn.pred_len]; exact hj
    have := hP (s.predVec[j], j) (List.mem_zipIdx_iff_getElem?.mpr (by simp [hlt]))
    have := (this.2 i (by simpa using hi)).1
    simp only [beq_iff_eq] at this
    rw [hB2.2, hA2.2, hxy, hd] at this
    refine ⟨s.predVec[j], by simp [hlt], ?_⟩
    simp only [List.any_eq_true, beq_iff_eq, Bool.and_self] at this
    obtain ⟨a, ha, haj⟩ := this
    exact List.mem_map.mpr ⟨a, ha, haj⟩


/-! ### the node-creation step -/

theorem ensure_specs (s : Store) (x : Nat) : (s.ensure x).specs = s.specs := by
  unfold ensure; split
  · exact addNode_specs _ _
  · rfl

theorem ensure_edges (s : Store) (x : Nat) : (s.ensure x).edges = s.edges := by
  unfold ensure; split
  · exact addNode_edges _ _
  · rfl

theorem ensure_edgesMap (s : Store) (x : Nat) : (s.ensure x).edgesMap = s.edgesMap := by
  unfold ensure; split
  · exact addNode_edgesMap _ _
  · rfl

theorem ensure_nodesInv {s : Store} (h : NodesInv s) (x : Nat) : NodesInv (s.ensure x) := by
  unfold ensure; split
  · exact addNode_nodesInv h _
  · exact h

theorem ensure_names_mono {s : Store} (h : NodesInv s) (x : Nat) {i y : Nat}
    (hy : s.names[i]? = some y) : (s.ensure x).names[i]? = some y := by
  unfold ensure; split
  · exact addNode_names_mono h _ hy
  · exact hy

theorem ensure_edgesInv {s : Store} (hs : NodesInv s) (h : EdgesInv s) (x : Nat) : EdgesInv (s.ensure x) := by
  unfold ensure; split
  · exact addNode_edgesInv hs h _
  · exact h

theorem ensure_of_mem {s : Store} (h : NodesInv s) {x : Nat} (hx : x ∈ s.names) : s.ensure x = s := by
  unfold ensure
  rw [(h.acontains_iff x).mpr hx]; rfl

theorem ensure_mem {s : Store} (h : NodesInv s) (x : Nat) : x ∈ (s.ensure x).names := by
  by_cases hx : x ∈ s.names
  · rw [ensure_of_mem h hx]; exact hx
  · have hc : acontains s.nodesMap x = false := by
      cases hc : acontains s.nodesMap x with
      | false => rfl
      | true => exact absurd ((h.acontains_iff x).mp hc) hx
    have hl : alookup s.nodesMap (⟨x, none⟩ : Node).name = none := (h.lookup_none_iff x).mpr hx
    unfold ensure
    simp only [hc, Bool.not_false, if_true]
    rw [addNode_new h _ hl]
    simp [names]

theorem mem_mono {s s' : Store} (hn : ∀ (i y : Nat), s.names[i]? = some y → s'.names[i]? = some y) {y : Nat}
    (hy : y ∈ s.names) : y ∈ s'.names := by
  obtain ⟨i, hi⟩ := List.mem_iff_getElem?.mp hy
  exact List.mem_iff_getElem?.mpr ⟨i, hn i y hi⟩

theorem edgesByIdx_eq (s : Store) (i j : Nat) : s.edgesByIdx i j = alookup s.edgesMap (idxKey s.specs.directed i j) := rfl

/-- facts about the state after node creation -/
structure Ensured (s : Store) (e : Edge) (s2 : Store) (ui vi : Nat) : Prop where
  nodes : NodesInv s2
  edges : EdgesInv s2
  specs : s2.specs = s.specs
  edges_eq : s2.edges = s.edges
  emap_eq : s2.edgesMap = s.edgesMap
  hu : alookup s2.nodesMap e.u = some ui
  hv : alookup s2.nodesMap e.v = some vi
  mono : ∀ (i y : Nat), s.names[i]? = some y → s2.names[i]? = some y
  /-- if the position key is already bound, no node was created -/
  old : (s2.edgesByIdx ui vi).isSome = true → s2 = s

theorem ensured {s : Store} (hn : NodesInv s) (he : EdgesInv s) (e : Edge) :
    ∃ ui vi, Ensured s e ((s.ensure e.u).ensure e.v) ui vi := by
  have hn1 := ensure_nodesInv hn e.u
  have hn2 := ensure_nodesInv hn1 e.v
  have he1 := ensure_edgesInv hn he e.u
  have he2 := ensure_edgesInv hn1 he1 e.v
  have hmono : ∀ (i y : Nat), s.names[i]? = some y → ((s.ensure e.u).ensure e.v).names[i]? = some y :=
    fun i y h => ensure_names_mono hn1 e.v (ensure_names_mono hn e.u h)
  have hum : e.u ∈ ((s.ensure e.u).ensure e.v).names :=
    mem_mono (fun i y h => ensure_names_mono hn1 e.v h) (ensure_mem hn e.u)
  have hvm : e.v ∈ ((s.ensure e.u).ensure e.v).names := ensure_mem hn1 e.v
  obtain ⟨ui, hu⟩ := (hn2.mem_names_iff _).mp hum
  obtain ⟨vi, hv⟩ := (hn2.mem_names_iff _).mp hvm
  have hem : ((s.ensure e.u).ensure e.v).edgesMap = s.edgesMap := by rw [ensure_edgesMap, ensure_edgesMap]
  have hsp : ((s.ensure e.u).ensure e.v).specs = s.specs := by rw [ensure_specs, ensure_specs]
  refine ⟨ui, vi, hn2, he2, hsp, by rw [ensure_edges, ensure_edges], hem, hu, hv, hmono, ?_⟩
  intro hsome
  rw [edgesByIdx_eq, hem, hsp] at hsome
  obtain ⟨l, hl⟩ := Option.isSome_iff_exists.mp hsome
  obtain ⟨_, _, _, x, y, e1, e2, _⟩ := he.emap_ok _ l hl
  -- both positions are old positions, so both names are old names
  have hu' := (hn2.map_iff _ _).mp hu
  have hv' := (hn2.map_iff _ _).mp hv
  have hold : e.u ∈ s.names ∧ e.v ∈ s.names := by
    rcases idxKey_cases s.specs.directed ui vi with ⟨hk, _⟩ | ⟨hk, _, _⟩
    · rw [hk] at e1 e2
      have a := hmono _ _ e1
      have b := hmono _ _ e2
      simp only at a b
      rw [hu'] at a; rw [hv'] at b
      cases a; cases b
      exact ⟨List.mem_iff_getElem?.mpr ⟨_, e1⟩, List.mem_iff_getElem?.mpr ⟨_, e2⟩⟩
    · rw [hk] at e1 e2
      have a := hmono _ _ e1
      have b := hmono _ _ e2
      simp only at a b
      rw [hv'] at a; rw [hu'] at b
      cases a; cases b
      exact ⟨List.mem_iff_getElem?.mpr ⟨_, e2⟩, List.mem_iff_getElem?.mpr ⟨_, e1⟩⟩
  rw [ensure_of_mem hn hold.1, ensure_of_mem hn hold.2]


theorem hasEdge_iff (s : Store) (x y : Nat) :
    s.hasEdge x y = true ↔ ∃ e' ∈ s.allEdges, Abs.sameKey s.specs.directed e' x y = true := by
  simp only [hasEdge, List.any_eq_true, Abs.sameKey]

theorem keepMin_pre {s : Store} (hn : NodesInv s) (he : EdgesInv s) (hadj : s.adjOk = true) (hvec : s.vecOk = true)
    {e : Edge} {ui vi : Nat} (hu : alookup s.nodesMap e.u = some ui) (hv : alookup s.nodesMap e.v = some vi)
    (hal : (s.edgesByIdx ui vi).isSome = true) :
    hasKey s.succVec (idxKey s.specs.directed ui vi).1 (idxKey s.specs.directed ui vi).2 ∧
    (if s.specs.directed then hasKey s.predVec (idxKey s.specs.directed ui vi).2 (idxKey s.specs.directed ui vi).1
     else hasKey s.succVec (idxKey s.specs.directed ui vi).2 (idxKey s.specs.directed ui vi).1) := by
  have hu' := (hn.map_iff _ _).mp hu
  have hv' := (hn.map_iff _ _).mp hv
  rw [edgesByIdx_eq, emap_eq_edges hn he hu hv] at hal
  have h1 : s.hasEdge e.u e.v = true := (hasEdge_iff s _ _).mpr ((exists_sameKey_iff he _ _).mpr hal)
  obtain ⟨k1, k2⟩ := wf_hasKey hn hadj hvec hu' hv' h1
  cases hd : s.specs.directed with
  | true =>
    simp only [idxKey, Bool.not_true, Bool.false_and, Bool.false_eq_true, if_false, if_true]
    exact ⟨k1, k2 hd⟩
  | false =>
    have h2 : s.hasEdge e.v e.u = true := by
      rw [hasEdge_iff] at h1 ⊢
      obtain ⟨e', hm, hk⟩ := h1
      refine ⟨e', hm, ?_⟩
      rw [hd] at hk ⊢
      revert hk
      simp [Abs.sameKey]
      grind
    obtain ⟨k3, _⟩ := wf_hasKey hn hadj hvec hv' hu' h2
    simp only [Bool.false_eq_true, if_false]
    rcases idxKey_cases false ui vi with ⟨hk, _⟩ | ⟨hk, _, _⟩ <;> rw [hk] <;> exact ⟨by assumption, by assumption⟩

theorem updOf_keepMin {sp : Specs} {b : Bool} (h : updOf sp b = .keepMin) : b = true ∧ sp.multi = true := by
  unfold updOf at h
  split at h
  · cases h
  · exact ⟨rfl, by assumption⟩
  · split at h <;> cases h

theorem newList_props {sp : Specs} {old : Option (List Edge)} {ordered : Edge} {L : List Edge} {K : Nat × Nat}
    (h : newList sp old ordered = some L) (hold : ∀ l, old = some l → ∀ e ∈ l, (e.u, e.v) = K)
    (hord : (ordered.u, ordered.v) = K) :
    L ≠ [] ∧ (∀ e ∈ L, (e.u, e.v) = K) ∧ (sp.multi = true ∨ L.length = 1) := by
  have single : ([ordered] : List Edge) ≠ [] ∧ (∀ e ∈ [ordered], (e.u, e.v) = K) ∧ (sp.multi = true ∨ [ordered].length = 1) :=
    ⟨by simp, by simpa using hord, Or.inr rfl⟩
  unfold newList at h
  split at h
  · rename_i hm
    cases h
    refine ⟨by simp, ?_, Or.inl hm⟩
    intro e he
    rw [List.mem_append] at he
    rcases he with he | he
    · cases old with
      | none => simp at he
      | some l => exact hold l rfl e he
    · simp at he; subst he; exact hord
  · split at h
    · cases h; exact single
    · split at h
      · cases h; exact single
      · cases h

/-- invariants after `add_edge`, from the Prop-level invariants and the two Bool clauses used for `keepMin` -/
theorem addEdge_inv {s : Store} (hn : NodesInv s) (he : EdgesInv s) (hadj : s.adjOk = true) (hvec : s.vecOk = true)
    (e : Edge) : NodesInv (s.addEdge e).1 ∧ EdgesInv (s.addEdge e).1 := by
  rw [addEdge_eq]
  split
  · split <;> exact ⟨hn, he⟩
  · rename_i hsl
    split
    · exact ⟨hn, he⟩
    · obtain ⟨ui, vi, E⟩ := ensured hn he e
      simp only [E.hu, E.hv]
      split
      · exact ⟨E.nodes, E.edges⟩
      · have hui := E.nodes.lookup_lt E.hu
        have hvi := E.nodes.lookup_lt E.hv
        have hlt : (idxKey s.specs.directed ui vi).1 < ((s.ensure e.u).ensure e.v).nodesVec.length ∧
            (idxKey s.specs.directed ui vi).2 < ((s.ensure e.u).ensure e.v).nodesVec.length := by
          rcases idxKey_cases s.specs.directed ui vi with ⟨hk, _⟩ | ⟨hk, _, _⟩ <;> rw [hk] <;> exact ⟨by assumption, by assumption⟩
        obtain ⟨sc, scm, sv, p, pm, pv, hform, l1, l2⟩ :=
          adjPhase_form s.specs ((s.ensure e.u).ensure e.v) e ui vi (idxKey s.specs.directed ui vi).1
            (idxKey s.specs.directed ui vi).2 (updOf s.specs (((s.ensure e.u).ensure e.v).edgesByIdx ui vi).isSome)
            (by rw [E.nodes.succ_len]; exact hlt.1) (by rw [E.nodes.succ_len]; exact hlt.2)
            (by rw [E.nodes.pred_len]; exact hlt.2)
            (by
              intro hk
              obtain ⟨hal, _⟩ := updOf_keepMin hk
              have hs2 := E.old hal
              have hu := E.hu; have hv := E.hv
              rw [hs2] at hu hv hal ⊢
              exact keepMin_pre hn he hadj hvec hu hv hal)
        rw [hform]
        have hnt := E.nodes.of_adj (sc := sc) (scm := scm) (p := p) (pm := pm) l1 l2
        have het := E.edges.of_adj (sc := sc) (scm := scm) (p := p) (pm := pm) (sv := sv) (pv := pv)
        rw [← E.specs]
        have hsl' : ((s.ensure e.u).ensure e.v).specs.selfLoops = true ∨ e.u ≠ e.v := by
          rw [E.specs]
          cases h : s.specs.selfLoops with
          | true => exact Or.inl rfl
          | false =>
            right
            intro heq
            apply hsl
            simp [h, heq]
        have heq := edgePhase_eq hnt het e E.hu E.hv
        simp only at heq ⊢
        rw [heq]
        cases hL : newList ((s.ensure e.u).ensure e.v).specs
            (alookup ((s.ensure e.u).ensure e.v).edges (nameKey ((s.ensure e.u).ensure e.v).specs.directed e.u e.v))
            (Abs.canon ((s.ensure e.u).ensure e.v).specs.directed e) with
        | none => exact ⟨hnt, het⟩
        | some L =>
          simp only
          obtain ⟨p1, p2, p3⟩ := newList_props hL
            (fun l hl => (E.edges.edges_ok _ l hl).2.1) (canon_key _ e)
          exact ⟨hnt.of_edges, insert_edgesInv hnt het L E.hu E.hv p1 p2 p3 hsl'⟩

end Store
end Graphrs
