/-
  Lemmas for Props/C13Termination.lean, part 4: the exact shape of the state after one `visit` (which community is
  chosen, how the `stot*` vectors change), separately for undirected and directed level graphs.
-/
import GraphrsModel.Lemmas.LouvainTermNbr
import GraphrsModel.Lemmas.LouvainTermScan
namespace Graphrs
open LouvainFull
namespace LT

theorem idxGuard_lt {site : String} {len i : Nat} {a : Unit} (h : idxGuard site len i = .ok a) : i < len := by
  unfold idxGuard at h
  by_cases hi : i < len
  · exact hi
  · rw [if_neg hi] at h; cases h

theorem guard2_lt {s1 s2 : String} {l1 l2 i : Nat} {a : Unit}
    (h : Outcome.bind (idxGuard s1 l1 i) (fun _ => idxGuard s2 l2 i) = .ok a) : i < l1 ∧ i < l2 := by
  cases hga : idxGuard s1 l1 i with
  | ok b => rw [hga] at h; exact ⟨idxGuard_lt hga, idxGuard_lt h⟩
  | err k => rw [hga] at h; simp [Outcome.bind] at h
  | panic k => rw [hga] at h; simp [Outcome.bind] at h

theorem getR_setR (l : List Rat) (i j : Nat) (v : Rat) :
    getR (setR l i v) j = if i = j ∧ i < l.length then v else getR l j := by
  unfold getR setR
  rw [List.getElem?_set]
  by_cases h : i = j
  · subst h
    by_cases h2 : i < l.length
    · simp [h2]
    · simp [h2]
  · simp [h]

/-! ### undirected -/

/-- `stot` after `subtract_degree_from_best_com` -/
def stot1U (st : LState) (cur : Nat) (d : Rat) : List Rat := setR st.di.stot cur (getR st.di.stot cur - d)

/-- the community `update_best_com` chooses -/
def bestU (m res : Rat) (st : LState) (cur : Nat) (d : Rat) (w2c : List (Nat × Rat)) : Nat :=
  (Louvain.updateBest (fun c wt => Louvain.gainUndirected m res wt (getR (stot1U st cur d) c) d) w2c (cur, 0)).1

theorem visit_undir {lv : Level} {m res : Rat} {st st' : LState} {u : Nat} (hd : lv.g.specs.directed = false)
    (hv : visit lv m res st u = .ok st') :
    ∃ cur w2c d, alookup st.node2com u = some cur ∧ neighborWeights lv.g u st.node2com = .ok w2c ∧
      alookup st.di.deg u = some d ∧ cur < st.di.stot.length ∧ bestU m res st cur d w2c < st.di.stot.length ∧
      st'.di.stot = setR (stot1U st cur d) (bestU m res st cur d w2c) (getR (stot1U st cur d) (bestU m res st cur d w2c) + d) ∧
      st'.di.deg = st.di.deg ∧
      ((bestU m res st cur d w2c ≠ cur ∧ st'.node2com = ainsert st.node2com u (bestU m res st cur d w2c) ∧
          st'.moves = st.moves + 1) ∨
       (bestU m res st cur d w2c = cur ∧ st'.node2com = st.node2com ∧ st'.moves = st.moves)) := by
  unfold visit visitWith at hv
  simp only [bind, Outcome.bind] at hv
  cases h1 : alookup st.node2com u with
  | none => simp [h1, Outcome.ofOption] at hv
  | some cur =>
    cases h2 : neighborWeights lv.g u st.node2com with
    | err k => simp [h1, h2, Outcome.ofOption] at hv
    | panic k => simp [h1, h2, Outcome.ofOption] at hv
    | ok w2c =>
      simp only [h1, h2, Outcome.ofOption, hd, Bool.false_eq_true, if_false] at hv
      cases h3 : alookup st.di.deg u with
      | none => simp [h3] at hv
      | some d =>
        simp only [h3] at hv
        refine ⟨cur, w2c, d, rfl, rfl, rfl, ?_⟩
        have hs1 : setR st.di.stot cur (getR st.di.stot cur - d) = stot1U st cur d := rfl
        simp only [hs1] at hv
        have hb : (Louvain.updateBest (fun c wt => Louvain.gainUndirected m res wt (getR (stot1U st cur d) c) d) w2c (cur, 0)).1
            = bestU m res st cur d w2c := rfl
        simp only [hb] at hv
        generalize bestU m res st cur d w2c = best at hv ⊢
        have hlen : (stot1U st cur d).length = st.di.stot.length := by simp [stot1U, setR]
        split at hv
        next _ _ hg1 =>
          split at hv
          next _ _ hg2 =>
            split at hv
            next _ _ hg3 =>
              have hbl := idxGuard_lt hg3
              rw [hlen] at hbl
              refine ⟨idxGuard_lt hg1, hbl, ?_⟩
              by_cases hne : (best != cur) = true
              · rw [if_pos hne] at hv
                split at hv
                next _ _ _ =>
                  split at hv
                  next _ _ _ =>
                    split at hv
                    next _ _ _ =>
                      split at hv
                      next _ _ _ =>
                        split at hv
                        next _ _ _ =>
                          injection hv with hv
                          subst hv
                          exact ⟨rfl, rfl, Or.inl ⟨by simpa using hne, rfl, rfl⟩⟩
                        all_goals (exact absurd hv (by simp))
                      all_goals (exact absurd hv (by simp))
                    all_goals (exact absurd hv (by simp))
                  all_goals (exact absurd hv (by simp))
                all_goals (exact absurd hv (by simp))
              · rw [if_neg hne] at hv
                injection hv with hv
                subst hv
                exact ⟨rfl, rfl, Or.inr ⟨by simpa using hne, rfl, rfl⟩⟩
            all_goals (exact absurd hv (by simp))
          all_goals (exact absurd hv (by simp))
        all_goals (exact absurd hv (by simp))

/-! ### directed -/

def stotIn1 (st : LState) (cur : Nat) (i : Rat) : List Rat := setR st.di.stotIn cur (getR st.di.stotIn cur - i)
def stotOut1 (st : LState) (cur : Nat) (o : Rat) : List Rat := setR st.di.stotOut cur (getR st.di.stotOut cur - o)

def bestD (m res : Rat) (st : LState) (cur : Nat) (i o : Rat) (w2c : List (Nat × Rat)) : Nat :=
  (Louvain.updateBest (fun c wt => Louvain.gainDirected m res wt o i (getR (stotIn1 st cur i) c) (getR (stotOut1 st cur o) c))
    w2c (cur, 0)).1

theorem visit_dir {lv : Level} {m res : Rat} {st st' : LState} {u : Nat} (hd : lv.g.specs.directed = true)
    (hv : visit lv m res st u = .ok st') :
    ∃ cur w2c i o, alookup st.node2com u = some cur ∧ neighborWeights lv.g u st.node2com = .ok w2c ∧
      alookup st.di.inDeg u = some i ∧ alookup st.di.outDeg u = some o ∧
      cur < st.di.stotIn.length ∧ cur < st.di.stotOut.length ∧
      bestD m res st cur i o w2c < st.di.stotIn.length ∧ bestD m res st cur i o w2c < st.di.stotOut.length ∧
      st'.di.stotIn = setR (stotIn1 st cur i) (bestD m res st cur i o w2c)
        (getR (stotIn1 st cur i) (bestD m res st cur i o w2c) + i) ∧
      st'.di.stotOut = setR (stotOut1 st cur o) (bestD m res st cur i o w2c)
        (getR (stotOut1 st cur o) (bestD m res st cur i o w2c) + o) ∧
      st'.di.inDeg = st.di.inDeg ∧ st'.di.outDeg = st.di.outDeg ∧
      ((bestD m res st cur i o w2c ≠ cur ∧ st'.node2com = ainsert st.node2com u (bestD m res st cur i o w2c) ∧
          st'.moves = st.moves + 1) ∨
       (bestD m res st cur i o w2c = cur ∧ st'.node2com = st.node2com ∧ st'.moves = st.moves)) := by
  unfold visit visitWith at hv
  simp only [bind, Outcome.bind] at hv
  cases h1 : alookup st.node2com u with
  | none => simp [h1, Outcome.ofOption] at hv
  | some cur =>
    cases h2 : neighborWeights lv.g u st.node2com with
    | err k => simp [h1, h2, Outcome.ofOption] at hv
    | panic k => simp [h1, h2, Outcome.ofOption] at hv
    | ok w2c =>
      simp only [h1, h2, Outcome.ofOption, hd, if_true] at hv
      cases h3 : alookup st.di.inDeg u with
      | none => simp [h3] at hv
      | some i =>
        cases h4 : alookup st.di.outDeg u with
        | none => simp [h3, h4] at hv
        | some o =>
          simp only [h3, h4] at hv
          refine ⟨cur, w2c, i, o, rfl, rfl, rfl, rfl, ?_⟩
          have hs1 : setR st.di.stotIn cur (getR st.di.stotIn cur - i) = stotIn1 st cur i := rfl
          have hs2 : setR st.di.stotOut cur (getR st.di.stotOut cur - o) = stotOut1 st cur o := rfl
          simp only [hs1, hs2] at hv
          have hb : (Louvain.updateBest (fun c wt => Louvain.gainDirected m res wt o i (getR (stotIn1 st cur i) c)
              (getR (stotOut1 st cur o) c)) w2c (cur, 0)).1 = bestD m res st cur i o w2c := rfl
          simp only [hb] at hv
          generalize bestD m res st cur i o w2c = best at hv ⊢
          have hlen1 : (stotIn1 st cur i).length = st.di.stotIn.length := by simp [stotIn1, setR]
          have hlen2 : (stotOut1 st cur o).length = st.di.stotOut.length := by simp [stotOut1, setR]
          split at hv
          next _ _ hg1 =>
            split at hv
            next _ _ hg2 =>
              split at hv
              next _ _ hg3 =>
                have hbl := guard2_lt hg3
                rw [hlen1, hlen2] at hbl
                have hcl := guard2_lt hg1
                refine ⟨hcl.1, hcl.2, hbl.1, hbl.2, ?_⟩
                by_cases hne : (best != cur) = true
                · rw [if_pos hne] at hv
                  split at hv
                  next _ _ _ =>
                    split at hv
                    next _ _ _ =>
                      split at hv
                      next _ _ _ =>
                        split at hv
                        next _ _ _ =>
                          split at hv
                          next _ _ _ =>
                            injection hv with hv
                            subst hv
                            exact ⟨rfl, rfl, rfl, rfl, Or.inl ⟨by simpa using hne, rfl, rfl⟩⟩
                          all_goals (exact absurd hv (by simp))
                        all_goals (exact absurd hv (by simp))
                      all_goals (exact absurd hv (by simp))
                    all_goals (exact absurd hv (by simp))
                  all_goals (exact absurd hv (by simp))
                · rw [if_neg hne] at hv
                  injection hv with hv
                  subst hv
                  exact ⟨rfl, rfl, rfl, rfl, Or.inr ⟨by simpa using hne, rfl, rfl⟩⟩
              all_goals (exact absurd hv (by simp))
            all_goals (exact absurd hv (by simp))
          all_goals (exact absurd hv (by simp))

end LT
end Graphrs
