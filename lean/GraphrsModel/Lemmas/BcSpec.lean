/-
  Stage 3 of C05 (Brandes), specification side: the enumeration `Arcs.tightPaths` of `bcSpec` over an exact distance
  labelling and unit costs.  The fuel does not matter once it covers the distance; the number of listed paths and the
  number of listed paths through `v` obey the backward recursions over the tight predecessors.
-/
import GraphrsModel.Spec.Centrality
import GraphrsModel.Lemmas.BcGraph
import GraphrsModel.Lemmas.BcSum
namespace Graphrs
namespace Bc

/-! ### `sinsert` / `dedup` -/

theorem mem_sinsert {α} [DecidableEq α] (s : List α) (x y : α) : y ∈ sinsert s x ↔ y ∈ s ∨ y = x := by
  unfold sinsert
  by_cases h : x ∈ s
  · rw [if_pos h]
    constructor
    · exact Or.inl
    · rintro (h' | rfl)
      · exact h'
      · exact h
  · rw [if_neg h]; simp

theorem nodup_sinsert {α} [DecidableEq α] (s : List α) (x : α) (hs : s.Nodup) : (sinsert s x).Nodup := by
  unfold sinsert
  by_cases h : x ∈ s
  · rw [if_pos h]; exact hs
  · rw [if_neg h, List.nodup_append]
    refine ⟨hs, by simp, ?_⟩
    intro a ha b hb
    rw [List.mem_singleton] at hb
    subst hb
    intro hab
    subst hab
    exact h ha

theorem mem_foldl_sinsert {α} [DecidableEq α] (l acc : List α) (y : α) : y ∈ l.foldl sinsert acc ↔ y ∈ acc ∨ y ∈ l := by
  induction l generalizing acc with
  | nil => simp
  | cons x xs ih =>
    rw [List.foldl_cons, ih, mem_sinsert, List.mem_cons]
    constructor
    · rintro ((h | h) | h)
      · exact Or.inl h
      · exact Or.inr (Or.inl h)
      · exact Or.inr (Or.inr h)
    · rintro (h | h | h)
      · exact Or.inl (Or.inl h)
      · exact Or.inl (Or.inr h)
      · exact Or.inr h

theorem nodup_foldl_sinsert {α} [DecidableEq α] (l acc : List α) (hacc : acc.Nodup) : (l.foldl sinsert acc).Nodup := by
  induction l generalizing acc with
  | nil => exact hacc
  | cons x xs ih => exact ih _ (nodup_sinsert acc x hacc)

theorem mem_dedup {α} [DecidableEq α] (l : List α) (y : α) : y ∈ dedup l ↔ y ∈ l := by
  unfold dedup
  rw [mem_foldl_sinsert]
  simp

theorem nodup_dedup {α} [DecidableEq α] (l : List α) : (dedup l).Nodup :=
  nodup_foldl_sinsert l [] List.nodup_nil

/-! ### the tight predecessors used by `tightPaths` -/

/-- the predecessor list `tightPaths` walks back along -/
def tpreds (B : Arcs) (d : List (Nat × Int)) (t : Nat) (dt : Int) : List Nat :=
  dedup ((B.filter fun a =>
    a.2.1 == t && (match alookup d a.1 with | some dy => dy + a.2.2 == dt | none => false)).map (·.1))

theorem tightPaths_zero (B : Arcs) (d : List (Nat × Int)) (s t : Nat) :
    Arcs.tightPaths B d s 0 t = if t == s then [[s]] else [] := by
  rfl

theorem tightPaths_succ (B : Arcs) (d : List (Nat × Int)) (s f t : Nat) :
    Arcs.tightPaths B d s (f + 1) t =
      if t == s then [[s]]
      else match alookup d t with
        | none => []
        | some dt => (tpreds B d t dt).flatMap fun y => (Arcs.tightPaths B d s f y).map (· ++ [t]) := by
  rfl

theorem tpreds_nodup (B : Arcs) (d : List (Nat × Int)) (t : Nat) (dt : Int) : (tpreds B d t dt).Nodup :=
  nodup_dedup _

section exact
variable {B : Arcs} {d : List (Nat × Int)} {s : Nat}

/-- `d` is the exact distance labelling from `s` -/
def ExactD (B : Arcs) (d : List (Nat × Int)) (s : Nat) : Prop := ∀ v x, alookup d v = some x ↔ IsDist B s v x

theorem mem_tpreds (hU : UnitArcs B) (hd : ExactD B d s) (t : Nat) (dt : Int) (y : Nat) :
    y ∈ tpreds B d t dt ↔ ((y, t, (1 : Int)) ∈ B ∧ IsDist B s y (dt - 1)) := by
  unfold tpreds
  rw [mem_dedup, List.mem_map]
  constructor
  · rintro ⟨a, ha, rfl⟩
    rw [List.mem_filter] at ha
    obtain ⟨haB, hc⟩ := ha
    obtain ⟨u, w, c⟩ := a
    have hc1 : c = 1 := hU _ haB
    subst hc1
    simp only [Bool.and_eq_true, beq_iff_eq] at hc
    obtain ⟨hw, hm⟩ := hc
    subst hw
    refine ⟨haB, ?_⟩
    cases hl : alookup d u with
    | none => rw [hl] at hm; cases hm
    | some dy =>
      rw [hl] at hm
      simp only [beq_iff_eq] at hm
      have := (hd u dy).1 hl
      have e : dt - 1 = dy := by omega
      rw [e]; exact this
  · rintro ⟨haB, hy⟩
    refine ⟨(y, t, 1), ?_, rfl⟩
    rw [List.mem_filter]
    refine ⟨haB, ?_⟩
    simp only [beq_self_eq_true, Bool.true_and]
    rw [(hd y (dt - 1)).2 hy]
    simp

/-- the fuel is irrelevant once it covers the distance of the target -/
theorem tp_stable (hU : UnitArcs B) (hd : ExactD B d s) :
    ∀ (f f' t : Nat), (∀ k, IsDist B s t k → k ≤ (f : Int) ∧ k ≤ (f' : Int)) →
      Arcs.tightPaths B d s f t = Arcs.tightPaths B d s f' t := by
  -- a target at fuel 0 that is not the source is unreachable or lists nothing
  have hzero : ∀ (f' t : Nat), (t == s) = false → (∀ k, IsDist B s t k → k ≤ 0) → Arcs.tightPaths B d s f' t = [] := by
    intro f' t hts h0
    cases f' with
    | zero => rw [tightPaths_zero, hts]; rfl
    | succ f' =>
      rw [tightPaths_succ, hts]
      simp only [Bool.false_eq_true, if_false]
      cases hl : alookup d t with
      | none => rfl
      | some dt =>
        exfalso
        have hdist := (hd t dt).1 hl
        have := h0 dt hdist
        have := walk_zero hU hdist.1 this
        subst this
        simp at hts
  intro f
  induction f with
  | zero =>
    intro f' t h
    by_cases hts : (t == s) = true
    · have : t = s := by simpa using hts
      subst this
      cases f' <;> simp [tightPaths_zero, tightPaths_succ]
    · have hts' : (t == s) = false := by simpa using hts
      rw [hzero 0 t hts' (fun k hk => by simpa using (h k hk).1), hzero f' t hts' (fun k hk => by simpa using (h k hk).1)]
  | succ f ih =>
    intro f' t h
    by_cases hts : (t == s) = true
    · have : t = s := by simpa using hts
      subst this
      cases f' <;> simp [tightPaths_zero, tightPaths_succ]
    · have hts' : (t == s) = false := by simpa using hts
      cases f' with
      | zero =>
        rw [hzero 0 t hts' (fun k hk => by simpa using (h k hk).2), hzero (f + 1) t hts' (fun k hk => by simpa using (h k hk).2)]
      | succ f' =>
        rw [tightPaths_succ, tightPaths_succ, hts']
        simp only [Bool.false_eq_true, if_false]
        cases hl : alookup d t with
        | none => rfl
        | some dt =>
          simp only
          have hdist := (hd t dt).1 hl
          obtain ⟨h1, h2⟩ := h dt hdist
          apply List.flatMap_congr
          intro y hy
          have hyd := ((mem_tpreds hU hd t dt y).1 hy).2
          rw [ih f' y (fun k hk => by
            have := isDist_unique hk hyd
            push_cast at h1 h2
            omega)]

/-- the fuel-free unfolding of `tightPaths` at fuel `n` -/
def TpEq (B : Arcs) (d : List (Nat × Int)) (s n : Nat) : Prop :=
  ∀ t, Arcs.tightPaths B d s n t =
    if t == s then [[s]]
    else match alookup d t with
      | none => []
      | some dt => (tpreds B d t dt).flatMap fun y => (Arcs.tightPaths B d s n y).map (· ++ [t])

/-- **the fuel-free unfolding of `tightPaths`** at any fuel `n` that exceeds every distance (unit costs) -/
theorem tp_eq (hU : UnitArcs B) (hd : ExactD B d s) (n : Nat) (hn : ∀ t k, IsDist B s t k → k < (n : Int)) :
    TpEq B d s n := by
  intro t
  have hn0 := hn s 0 (isDist_source hU s)
  obtain ⟨m, rfl⟩ : ∃ m, n = m + 1 := ⟨n - 1, by omega⟩
  rw [tightPaths_succ]
  by_cases hts : (t == s) = true
  · rw [if_pos hts, if_pos hts]
  · rw [if_neg hts, if_neg hts]
    cases hl : alookup d t with
    | none => rfl
    | some dt =>
      simp only
      have hdist := (hd t dt).1 hl
      have h1 := hn t dt hdist
      apply List.flatMap_congr
      intro y hy
      have hyd := ((mem_tpreds hU hd t dt y).1 hy).2
      rw [tp_stable hU hd m (m + 1) y (fun k hk => by
        have := isDist_unique hk hyd
        push_cast at h1 ⊢
        omega)]

/-! ### strictly positive costs: the same unfolding -/

theorem mem_tpreds_pos (hd : ExactD B d s) (t : Nat) (dt : Int) (y : Nat) :
    y ∈ tpreds B d t dt ↔ ∃ c, (y, t, c) ∈ B ∧ IsDist B s y (dt - c) := by
  unfold tpreds
  rw [mem_dedup, List.mem_map]
  constructor
  · rintro ⟨a, ha, rfl⟩
    rw [List.mem_filter] at ha
    obtain ⟨haB, hc⟩ := ha
    obtain ⟨u, w, c⟩ := a
    simp only [Bool.and_eq_true, beq_iff_eq] at hc
    obtain ⟨hw, hm⟩ := hc
    subst hw
    refine ⟨c, haB, ?_⟩
    cases hl : alookup d u with
    | none => rw [hl] at hm; cases hm
    | some dy =>
      rw [hl] at hm
      simp only [beq_iff_eq] at hm
      have := (hd u dy).1 hl
      have e : dt - c = dy := by omega
      rw [e]; exact this
  · rintro ⟨c, haB, hy⟩
    refine ⟨(y, t, c), ?_, rfl⟩
    rw [List.mem_filter]
    refine ⟨haB, ?_⟩
    simp only [beq_self_eq_true, Bool.true_and]
    rw [(hd y (dt - c)).2 hy]
    simp

theorem filter_flatMap'' {α β} (l : List α) (f : α → List β) (p : β → Bool) :
    (l.flatMap f).filter p = l.flatMap fun a => (f a).filter p := by
  induction l with
  | nil => rfl
  | cons a l ih => simp only [List.flatMap_cons, List.filter_append, ih]

/-- fuel `f` lists exactly the paths of fuel `f + 1` with at most `f` arcs (no hypothesis needed) -/
theorem tp_filter (B : Arcs) (d : List (Nat × Int)) (s : Nat) :
    ∀ (f t : Nat), Arcs.tightPaths B d s f t =
      (Arcs.tightPaths B d s (f + 1) t).filter fun p => decide (p.length ≤ f + 1) := by
  intro f
  induction f with
  | zero =>
    intro t
    rw [tightPaths_zero, tightPaths_succ]
    by_cases hts : (t == s) = true
    · rw [if_pos hts, if_pos hts]; rfl
    · rw [if_neg hts, if_neg hts]
      cases alookup d t with
      | none => rfl
      | some dt =>
        simp only
        rw [filter_flatMap'']
        symm
        rw [List.flatMap_eq_nil_iff]
        intro y _
        rw [List.filter_eq_nil_iff]
        intro p hp
        rw [List.mem_map] at hp
        obtain ⟨q, hq, rfl⟩ := hp
        rw [tightPaths_zero] at hq
        split at hq
        · simp at hq; subst hq; simp
        · cases hq
  | succ f ih =>
    intro t
    rw [tightPaths_succ B d s f t, tightPaths_succ B d s (f + 1) t]
    by_cases hts : (t == s) = true
    · rw [if_pos hts, if_pos hts]; rfl
    · rw [if_neg hts, if_neg hts]
      cases alookup d t with
      | none => rfl
      | some dt =>
        simp only
        rw [filter_flatMap'']
        apply List.flatMap_congr
        intro y _
        rw [ih y, List.filter_map]
        congr 1
        apply List.filter_congr
        intro q _
        simp

/-- listed paths run along pairwise distinct nodes, closer to the source than the target -/
theorem tp_paths_bound (hP : PosArcs B) (hd : ExactD B d s) (nodes : List Nat) (hs : s ∈ nodes)
    (hA : ∀ a ∈ B, a.2.1 ∈ nodes) :
    ∀ (f t : Nat) (p : List Nat), p ∈ Arcs.tightPaths B d s f t →
      p.Nodup ∧ (∀ x ∈ p, x ∈ nodes) ∧ (∀ x ∈ p, ∃ dx, IsDist B s x dx ∧ ∀ dt, IsDist B s t dt → dx ≤ dt) := by
  have hsrc : ∀ t p, (t == s) = true → p ∈ [[s]] →
      p.Nodup ∧ (∀ x ∈ p, x ∈ nodes) ∧ (∀ x ∈ p, ∃ dx, IsDist B s x dx ∧ ∀ dt, IsDist B s t dt → dx ≤ dt) := by
    intro t p hts hp
    have : t = s := by simpa using hts
    subst this
    simp at hp; subst hp
    refine ⟨by simp, by simpa using hs, ?_⟩
    intro x hx
    simp at hx; subst hx
    exact ⟨0, isDist_source_pos hP _, fun dt hdt => by rw [isDist_unique hdt (isDist_source_pos hP _)]⟩
  intro f
  induction f with
  | zero =>
    intro t p hp
    rw [tightPaths_zero] at hp
    by_cases hts : (t == s) = true
    · rw [if_pos hts] at hp; exact hsrc t p hts hp
    · rw [if_neg hts] at hp; cases hp
  | succ f ih =>
    intro t p hp
    rw [tightPaths_succ] at hp
    by_cases hts : (t == s) = true
    · rw [if_pos hts] at hp; exact hsrc t p hts hp
    · rw [if_neg hts] at hp
      cases hl : alookup d t with
      | none => rw [hl] at hp; cases hp
      | some dt =>
        rw [hl] at hp
        simp only [List.mem_flatMap, List.mem_map] at hp
        obtain ⟨y, hy, q, hq, rfl⟩ := hp
        obtain ⟨c, harc, hyd⟩ := (mem_tpreds_pos hd t dt y).1 hy
        have hc := hP _ harc
        simp only at hc
        have htd := (hd t dt).1 hl
        obtain ⟨h1, h2, h3⟩ := ih y q hq
        refine ⟨?_, ?_, ?_⟩
        · rw [List.nodup_append]
          refine ⟨h1, by simp, ?_⟩
          intro a ha b hb
          simp at hb; subst hb
          intro e; subst e
          obtain ⟨dx, hdx, hle⟩ := h3 a ha
          have := hle _ hyd
          have := isDist_unique hdx htd
          omega
        · intro x hx
          rw [List.mem_append] at hx
          rcases hx with hx | hx
          · exact h2 x hx
          · simp at hx; subst hx; exact hA _ harc
        · intro x hx
          rw [List.mem_append] at hx
          rcases hx with hx | hx
          · obtain ⟨dx, hdx, hle⟩ := h3 x hx
            refine ⟨dx, hdx, fun dt' hdt' => ?_⟩
            have := hle _ hyd
            have := isDist_unique hdt' htd
            omega
          · simp at hx; subst hx
            exact ⟨dt, htd, fun dt' hdt' => by rw [isDist_unique hdt' htd]⟩

/-- **the fuel-free unfolding of `tightPaths`** for strictly positive costs, at any fuel that reaches the number of nodes -/
theorem tp_eq_pos (hP : PosArcs B) (hd : ExactD B d s) (nodes : List Nat) (hs : s ∈ nodes)
    (hA : ∀ a ∈ B, a.2.1 ∈ nodes) (n : Nat) (hn : nodes.length ≤ n) : TpEq B d s n := by
  have hn0 : 0 < nodes.length := List.length_pos_of_mem hs
  obtain ⟨m, rfl⟩ : ∃ m, n = m + 1 := ⟨n - 1, by omega⟩
  intro t
  rw [tightPaths_succ]
  by_cases hts : (t == s) = true
  · rw [if_pos hts, if_pos hts]
  · rw [if_neg hts, if_neg hts]
    cases hl : alookup d t with
    | none => rfl
    | some dt =>
      simp only
      apply List.flatMap_congr
      intro y _
      rw [tp_filter B d s m y, List.filter_eq_self.2]
      intro p hp
      obtain ⟨h1, h2, _⟩ := tp_paths_bound hP hd nodes hs hA (m + 1) y p hp
      have := (List.subperm_of_subset h1 (fun x hx => h2 x hx)).length_le
      simp only [decide_eq_true_eq]
      omega

/-! ### the counts -/

/-- number of listed shortest paths to `t` -/
def sigH (B : Arcs) (d : List (Nat × Int)) (s n t : Nat) : Rat := ((Arcs.tightPaths B d s n t).length : Rat)

/-- number of listed shortest paths to `t` that contain `v` -/
def thrH (B : Arcs) (d : List (Nat × Int)) (s n v t : Nat) : Rat :=
  (((Arcs.tightPaths B d s n t).filter fun q => q.contains v).length : Rat)

theorem length_flatMap_cast {α β} (l : List α) (f : α → List β) :
    ((l.flatMap f).length : Rat) = (l.map fun a => ((f a).length : Rat)).sum := by
  induction l with
  | nil => simp
  | cons a l ih => simp only [List.flatMap_cons, List.length_append, List.map_cons, List.sum_cons]; push_cast; rw [ih]

theorem filter_flatMap' {α β} (l : List α) (f : α → List β) (p : β → Bool) :
    (l.flatMap f).filter p = l.flatMap fun a => (f a).filter p := by
  induction l with
  | nil => rfl
  | cons a l ih => simp only [List.flatMap_cons, List.filter_append, ih]

theorem contains_snoc (q : List Nat) (t v : Nat) : (q ++ [t]).contains v = (q.contains v || v == t) := by
  rw [Bool.eq_iff_iff]
  simp

theorem filter_snoc_length (L : List (List Nat)) (t v : Nat) :
    ((L.map (· ++ [t])).filter fun q => q.contains v).length =
      if v = t then L.length else (L.filter fun q => q.contains v).length := by
  induction L with
  | nil => simp
  | cons q L ih =>
    rw [List.map_cons, List.filter_cons, contains_snoc]
    by_cases e : v = t
    · subst e
      simp only [beq_self_eq_true, Bool.or_true, if_true, List.length_cons, ih]
    · have e' : (v == t) = false := by simpa using e
      simp only [e', Bool.or_false, if_neg e] at ih ⊢
      rw [List.filter_cons]
      by_cases hq : q.contains v = true
      · simp only [hq, if_true, List.length_cons, ih]
      · have hq' : q.contains v = false := by simpa using hq
        simp only [hq', Bool.false_eq_true, if_false, ih]

theorem sigH_source {n : Nat} (hTp : TpEq B d s n) :
    sigH B d s n s = 1 := by
  unfold sigH
  rw [hTp]; simp

theorem thrH_source {n : Nat} (hTp : TpEq B d s n) (v : Nat) :
    thrH B d s n v s = if v = s then 1 else 0 := by
  unfold thrH
  rw [hTp]
  by_cases e : v = s
  · subst e; simp
  · simp [e]

theorem sigH_none {n : Nat} (hTp : TpEq B d s n) (t : Nat)
    (hts : t ≠ s) (hl : alookup d t = none) : sigH B d s n t = 0 := by
  unfold sigH
  have : (t == s) = false := by simpa using hts
  rw [hTp, this, hl]; simp

theorem thrH_none {n : Nat} (hTp : TpEq B d s n) (v t : Nat)
    (hts : t ≠ s) (hl : alookup d t = none) : thrH B d s n v t = 0 := by
  unfold thrH
  have : (t == s) = false := by simpa using hts
  rw [hTp, this, hl]; simp

theorem sigH_some {n : Nat} (hTp : TpEq B d s n) (t : Nat)
    (hts : t ≠ s) (dt : Int) (hl : alookup d t = some dt) :
    sigH B d s n t = ((tpreds B d t dt).map (sigH B d s n)).sum := by
  unfold sigH
  have : (t == s) = false := by simpa using hts
  rw [hTp, this, hl]
  simp only [Bool.false_eq_true, if_false]
  rw [length_flatMap_cast]
  simp only [List.length_map]

theorem thrH_some {n : Nat} (hTp : TpEq B d s n) (v t : Nat)
    (hts : t ≠ s) (dt : Int) (hl : alookup d t = some dt) :
    thrH B d s n v t = if v = t then sigH B d s n t else ((tpreds B d t dt).map (thrH B d s n v)).sum := by
  by_cases e : v = t
  · subst e
    rw [if_pos rfl, sigH_some hTp v hts dt hl]
    unfold thrH sigH
    have : (v == s) = false := by simpa using hts
    rw [hTp, this, hl]
    simp only [Bool.false_eq_true, if_false]
    rw [filter_flatMap', length_flatMap_cast]
    simp only [filter_snoc_length, if_true]
  · rw [if_neg e]
    unfold thrH
    have : (t == s) = false := by simpa using hts
    rw [hTp, this, hl]
    simp only [Bool.false_eq_true, if_false]
    rw [filter_flatMap', length_flatMap_cast]
    simp only [filter_snoc_length, if_neg e]

/-- listed paths end at the target -/
theorem tightPaths_last (B : Arcs) (d : List (Nat × Int)) (s : Nat) :
    ∀ (f t : Nat) (p : List Nat), p ∈ Arcs.tightPaths B d s f t → p.getLast? = some t := by
  intro f
  induction f with
  | zero =>
    intro t p hp
    rw [tightPaths_zero] at hp
    split at hp
    · rename_i h
      have : t = s := by simpa using h
      subst this
      simp at hp; subst hp; rfl
    · cases hp
  | succ f ih =>
    intro t p hp
    rw [tightPaths_succ] at hp
    split at hp
    · rename_i h
      have : t = s := by simpa using h
      subst this
      simp at hp; subst hp; rfl
    · split at hp
      · cases hp
      · simp only [List.mem_flatMap, List.mem_map] at hp
        obtain ⟨y, _, p', _, rfl⟩ := hp
        simp

end exact

end Bc
end Graphrs
