/-
  Lemmas for Props/C13Monotone.lean, part 6: Newman's modularity `Abs.modularitySpec` of the INPUT graph, for a list of
  communities given by node ranks, is the sum `LM.Qlist` over the edge list of the converted (level-0) graph.
-/
import GraphrsModel.Lemmas.LouvainMonoLoop
import GraphrsModel.Lemmas.LouvainFullConvert
namespace Graphrs
open LouvainFull
namespace LM

/-! ### `convert_graph` on a single-edge store: the edges, with their endpoints -/

theorem convertGraph_edges' (s : Store) (h : s.wf = true) (hmulti : s.specs.multi = false) (weighted : Bool) (lv : Level)
    (hc : convertGraph s weighted = .ok lv) :
    lv.g.specs = s.specs ∧
    ∃ E2 : List Edge,
      (if weighted = true then E2 = s.allEdges else E2.Perm (s.allEdges.map fun e => { e with w := some 1 })) ∧
      lv.g.allEdges.Perm (E2.map fun e =>
        (⟨LF.rk (sortNat s.getAllNodeNames) e.u, LF.rk (sortNat s.getAllNodeNames) e.v, e.w, none⟩ : Edge)) := by
  have hs2 : ∃ s2, (if (!weighted) = true then s.setAllEdgeWeights (some 1) else .ok s) = .ok s2 ∧
      s2.wf = true ∧ s2.specs = s.specs ∧ s2.nodesVec = s.nodesVec ∧
      (if weighted = true then s2.allEdges = s.allEdges
        else s2.allEdges.Perm (s.allEdges.map fun e => { e with w := some 1 })) := by
    by_cases hw : (!weighted) = true
    · have hw' : weighted = false := by simpa using hw
      obtain ⟨t, h1, h2, h3, h4⟩ := Core_setWeights s h (some 1)
      refine ⟨t, ?_, h2, h3, h4.1, ?_⟩
      · rw [if_pos hw, h1]
      · rw [hw', if_neg (by simp)]; exact C09M.absEq_edges_perm h4
    · have hw' : weighted = true := by simpa using hw
      exact ⟨s, by rw [if_neg hw], h, rfl, rfl, by rw [if_pos hw']⟩
  obtain ⟨s2, e2, w2, sp2, n2, p2⟩ := hs2
  have m2 : s2.specs.multi = false := by rw [sp2]; exact hmulti
  have hnames : s2.names = s.getAllNodeNames := by simp [Store.names, Store.getAllNodeNames, n2]
  rw [LF.convertGraph_eq, if_neg (by rw [hmulti]; simp), LF.bind_ok, e2, LF.bind_ok] at hc
  have hp := LF.cgTail_edges s2 w2 m2 (sortNat s.getAllNodeNames) (by rw [hnames]) lv hc
  obtain ⟨g, hg, _, gsp, _⟩ := LF.cgTail_ok s2 w2 m2 (sortNat s.getAllNodeNames) (by rw [hnames])
  rw [hc] at hg
  cases hg
  exact ⟨gsp.trans sp2, s2.allEdges, p2, hp⟩

/-- the weight of an input edge as `modularity` counts it -/
def wq (weighted : Bool) (e : Edge) : Rat := if weighted then ratW e.w else 1

/-- every edge sum of the converted graph is a sum over the input edges, endpoints replaced by their ranks -/
theorem conv_wsum (s : Store) (h : s.wf = true) (hmulti : s.specs.multi = false) (weighted : Bool) (lv : Level)
    (hc : convertGraph s weighted = .ok lv) (f : Nat → Nat → Rat) :
    wsum lv.g.allEdges f = (s.allEdges.map fun e => wq weighted e *
      f (LF.rk (sortNat s.getAllNodeNames) e.u) (LF.rk (sortNat s.getAllNodeNames) e.v)).sum := by
  obtain ⟨_, E2, h2, hp⟩ := convertGraph_edges' s h hmulti weighted lv hc
  rw [wsum_perm hp, wsum_map]
  cases weighted with
  | true =>
    rw [if_pos rfl] at h2
    subst h2
    rfl
  | false =>
    rw [if_neg (by simp)] at h2
    rw [(h2.map _).sum_eq, List.map_map]
    congr 1

theorem conv_nonan (s : Store) (h : s.wf = true) (hmulti : s.specs.multi = false) (weighted : Bool) (lv : Level)
    (hc : convertGraph s weighted = .ok lv) (hnan : weighted = true → NoNaN s.allEdges) : NoNaN lv.g.allEdges := by
  obtain ⟨_, E2, h2, hp⟩ := convertGraph_edges' s h hmulti weighted lv hc
  intro e he
  obtain ⟨e2, he2, rfl⟩ := List.mem_map.1 (hp.mem_iff.1 he)
  simp only
  cases weighted with
  | true =>
    rw [if_pos rfl] at h2
    subst h2
    exact hnan rfl e2 he2
  | false =>
    rw [if_neg (by simp)] at h2
    obtain ⟨e1, _, rfl⟩ := List.mem_map.1 (h2.mem_iff.1 he2)
    simp

/-! ### ranks and names -/

/-- the names of a list of ranks (as the harness maps a level back to node names) -/
def toNames (sorted : List Nat) (c : List Nat) : List Nat := c.filterMap fun r => sorted[r]?

theorem contains_toNames (sorted : List Nat) (hnd : sorted.Nodup) (c : List Nat) (x : Nat) (hx : x ∈ sorted) :
    (toNames sorted c).contains x = true ↔ LF.rk sorted x ∈ c := by
  rw [List.contains_iff_mem]
  unfold toNames
  rw [List.mem_filterMap]
  constructor
  · rintro ⟨i, hi, hs⟩
    obtain ⟨hlt, hget⟩ := List.getElem?_eq_some_iff.1 hs
    have := LF.rk_of_get hnd i hlt
    rw [hget] at this
    rw [this]; exact hi
  · intro hr
    exact ⟨LF.rk sorted x, hr, by rw [List.getElem?_eq_getElem (LF.rk_lt hx), LF.rk_get hx]⟩

/-! ### Newman's formula on the input graph -/

theorem wOf_wq (weighted : Bool) (e : Edge) (h : weighted = true → e.w ≠ none) :
    Abs.wOf weighted e = some (wq weighted e) := by
  unfold Abs.wOf wq
  cases weighted with
  | false => simp
  | true =>
    simp only [if_true]
    cases hw : e.w with
    | none => exact absurd hw (h rfl)
    | some x => simp [ratW]

theorem sumO_filter (E : List Edge) (weighted : Bool) (hnan : weighted = true → NoNaN E) (p : Edge → Bool) :
    Abs.sumO ((E.filter p).map (Abs.wOf weighted))
      = some ((E.map fun e => if p e = true then wq weighted e else 0).sum) := by
  rw [C09M.sumO_eq, C12W.sumOpt_map_congr_some _ _ (wq weighted) ?_, LT.sum_filter_ite]
  intro e he
  exact wOf_wq weighted e (fun hw => hnan hw e (List.mem_of_mem_filter he))

theorem wsum_one (es : List Edge) : wsum es (fun _ _ => 1) = (es.map fun e => ratW e.w).sum := by
  unfold wsum
  congr 1
  apply List.map_congr_left
  intro e _
  ring

/-- the `m` of the level loop is the total weight of the input as `modularity` counts it -/
theorem mOf_eq (s : Store) (h : s.wf = true) (hmulti : s.specs.multi = false) (weighted : Bool) (lv : Level)
    (hc : convertGraph s weighted = .ok lv) (hnan : weighted = true → NoNaN s.allEdges) :
    mOf lv weighted = (s.allEdges.map (wq weighted)).sum := by
  unfold mOf
  cases weighted with
  | true =>
    simp only [if_true]
    have : lv.g.sizeWeighted = Abs.sumW lv.g.allEdges := rfl
    rw [this, ratW_sumW _ (conv_nonan s h hmulti true lv hc hnan), ← wsum_one, conv_wsum s h hmulti true lv hc]
    congr 1
    apply List.map_congr_left
    intro e _
    ring
  | false =>
    simp only [Bool.false_eq_true, if_false]
    obtain ⟨_, E2, h2, hp⟩ := convertGraph_edges' s h hmulti false lv hc
    rw [if_neg (by simp)] at h2
    have hlen : lv.g.sizeUnweighted = s.allEdges.length := by
      show lv.g.allEdges.length = _
      rw [hp.length_eq, List.length_map, h2.length_eq, List.length_map]
    rw [hlen]
    have : ∀ l : List Edge, ((l.length : Nat) : Rat) = (l.map (wq false)).sum := by
      intro l
      induction l with
      | nil => simp
      | cons e l ih =>
        rw [List.length_cons, List.map_cons, List.sum_cons, ← ih]
        simp only [wq, Bool.false_eq_true, if_false]
        push_cast
        ring
    exact this _

theorem conv_ind (s : Store) (h : s.wf = true) (hmulti : s.specs.multi = false) (weighted : Bool) (lv : Level)
    (hc : convertGraph s weighted = .ok lv) (p : Edge → Bool) (Pp : Nat → Nat → Prop) [∀ u v, Decidable (Pp u v)]
    (hp : ∀ e ∈ s.allEdges, p e = true ↔
      Pp (LF.rk (sortNat s.getAllNodeNames) e.u) (LF.rk (sortNat s.getAllNodeNames) e.v)) :
    (s.allEdges.map fun e => if p e = true then wq weighted e else 0).sum
      = wsum lv.g.allEdges (fun u v => if Pp u v then 1 else 0) := by
  rw [conv_wsum s h hmulti weighted lv hc]
  congr 1
  apply List.map_congr_left
  intro e he
  by_cases hh : Pp (LF.rk (sortNat s.getAllNodeNames) e.u) (LF.rk (sortNat s.getAllNodeNames) e.v)
  · rw [if_pos ((hp e he).2 hh), if_pos hh, mul_one]
  · rw [if_neg (fun hc' => hh ((hp e he).1 hc')), if_neg hh, mul_zero]

end LM

/-- **the modularity of a level measured on the input graph**: Newman's formula `Abs.modularitySpec` on the abstract
    graph of the store, for the communities of the level (lists of node ranks) mapped back to node names
    (rank `r` ↦ the `r`-th smallest name, as `convert_graph` numbers the nodes and as the harness maps levels back) -/
def LouvainFull.inputModularity (s : Store) (weighted : Bool) (res : Rat) (P : List (List Nat)) : Option Rat :=
  Abs.modularitySpec s.specs.directed s.abs (P.map (LM.toNames (sortNat s.getAllNodeNames))) weighted res

namespace LM

/-- **Newman's formula on the input graph is `Qlist` on the converted graph** -/
theorem inputModularity_eq (s : Store) (h : s.wf = true) (hmulti : s.specs.multi = false) (weighted : Bool) (lv : Level)
    (hc : convertGraph s weighted = .ok lv) (hnan : weighted = true → NoNaN s.allEdges) (res : Rat)
    (hM : mOf lv weighted ≠ 0) (P : List (List Nat)) :
    inputModularity s weighted res P = some (Qlist s.specs.directed lv.g.allEdges (mOf lv weighted) res P) := by
  obtain ⟨hn, he⟩ := Store.wf_inv h
  have hsnd : (sortNat s.getAllNodeNames).Nodup := (LF.sortNat_perm _).nodup_iff.2 hn.names_nodup
  have hmemS : ∀ x, x ∈ s.names → x ∈ sortNat s.getAllNodeNames := fun x hx => (C02.mem_sortNat x _).2 hx
  have hcu : ∀ (c : List Nat) (e : Edge), e ∈ s.allEdges →
      ((toNames (sortNat s.getAllNodeNames) c).contains e.u = true ↔ LF.rk (sortNat s.getAllNodeNames) e.u ∈ c) :=
    fun c e he' => contains_toNames _ hsnd c e.u (hmemS _ (Store.allEdges_valid he he').1)
  have hcv : ∀ (c : List Nat) (e : Edge), e ∈ s.allEdges →
      ((toNames (sortNat s.getAllNodeNames) c).contains e.v = true ↔ LF.rk (sortNat s.getAllNodeNames) e.v ∈ c) :=
    fun c e he' => contains_toNames _ hsnd c e.v (hmemS _ (Store.allEdges_valid he he').2.1)
  have hmO := mOf_eq s h hmulti weighted lv hc hnan
  have hm0 : Abs.sumO (s.abs.edges.map (Abs.wOf weighted)) = some (mOf lv weighted) := by
    rw [hmO, C09M.sumO_eq]
    exact C12W.sumOpt_map_congr_some _ _ _ (fun e he' => wOf_wq weighted e (fun hw => hnan hw e he'))
  have hbeq : ¬ (mOf lv weighted == 0) = true := by simpa using hM
  unfold inputModularity Abs.modularitySpec
  rw [hm0]
  simp only
  rw [if_neg hbeq, C09M.sumO_eq, List.map_map]
  unfold Qlist
  refine C12W.sumOpt_map_congr_some _ _ _ ?_
  intro c _
  have hE : s.abs.edges = s.allEdges := rfl
  simp only [Function.comp_apply, hE]
  rw [sumO_filter _ weighted hnan, sumO_filter _ weighted hnan, sumO_filter _ weighted hnan]
  rw [conv_ind s h hmulti weighted lv hc _ (fun u v => u ∈ c ∧ v ∈ c) (fun e he' => by
        rw [Bool.and_eq_true, hcu c e he', hcv c e he']),
    conv_ind s h hmulti weighted lv hc _ (fun u _ => u ∈ c) (fun e he' => hcu c e he'),
    conv_ind s h hmulti weighted lv hc _ (fun _ v => v ∈ c) (fun e he' => hcv c e he')]
  simp only
  unfold T term inL inO inI Louvain.termDirected Louvain.termUndirected
  cases s.specs.directed <;> simp

end LM
end Graphrs
