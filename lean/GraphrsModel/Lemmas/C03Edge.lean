/-
  `add_edge`, cut into stages (definitionally the same function), and the generic update lemmas
  for the traversal rows and the position-keyed neighbour sets.
-/
import GraphrsModel.Lemmas.C03Node
namespace Graphrs
namespace C03
open Store

def updOf (already : Bool) (sp : Specs) : AdjUpd :=
  match already, sp.multi with
  | false, _ => .push
  | true, true => .keepMin
  | true, false => if sp.dedupe == .keepLast then .overwrite else .untouched

/-- the adjacency part of `add_edge` -/
def adjStage (sp : Specs) (s : Store) (e : Edge) (ui vi ou ov : Nat) (upd : AdjUpd) : Store :=
  let s := { s with
    succ := amodify s.succ e.u [] (sinsert · e.v)
    succMap := amodify s.succMap ui [] (sinsert · vi) }
  let s := s.adjSucc ou ov e.w upd
  if sp.directed then
    let s := { s with
      pred := amodify s.pred e.v [] (sinsert · e.u)
      predMap := amodify s.predMap vi [] (sinsert · ui) }
    s.adjPred ov ou e.w upd
  else
    let s := { s with
      succ := amodify s.succ e.v [] (sinsert · e.u)
      succMap := amodify s.succMap vi [] (sinsert · ui) }
    s.adjSucc ov ou e.w upd

/-- the edge-store part of `add_edge` -/
def edgeStage (sp : Specs) (s : Store) (ordered : Edge) (ou ov : Nat) : Store :=
  if sp.multi then
    { s with
      edges := amodify s.edges (ordered.u, ordered.v) [] (· ++ [ordered])
      edgesMap := amodify s.edgesMap (ou, ov) [] (· ++ [ordered]) }
  else if (s.edgesByIdx ou ov).isNone then
    { s with
      edges := ainsert s.edges (ordered.u, ordered.v) [ordered]
      edgesMap := ainsert s.edgesMap (ou, ov) [ordered] }
  else if sp.dedupe == .keepLast then
    { s with
      edges := ainsert s.edges (ordered.u, ordered.v) [ordered]
      edgesMap := ainsert s.edgesMap (ou, ov) [ordered] }
  else s

def edgeNodes (s : Store) (e : Edge) : Store :=
  let s := if !acontains s.nodesMap e.u then s.addNode ⟨e.u, none⟩ else s
  if !acontains s.nodesMap e.v then s.addNode ⟨e.v, none⟩ else s

def edgeTail (sp : Specs) (s : Store) (e : Edge) (ui vi : Nat) : Store × Option ErrKind :=
  let already := (s.edgesByIdx ui vi).isSome
  if sp.dedupe == .error && !sp.multi && already then
    (s, some .DuplicateEdge)
  else
    let p : Nat × Nat := if !sp.directed && ui > vi then (vi, ui) else (ui, vi)
    (edgeStage sp (adjStage sp s e ui vi p.1 p.2 (updOf already sp)) (if sp.directed then e else e.ordered) p.1 p.2,
      none)

theorem addEdge_eq (s : Store) (e : Edge) : s.addEdge e =
    if !s.specs.selfLoops && e.u == e.v then
      match s.specs.slFalse with
      | .error => (s, some .SelfLoopsFound)
      | .drop => (s, none)
    else if s.specs.missing == .error && (!acontains s.nodesMap e.u || !acontains s.nodesMap e.v) then
      (s, some .NodeNotFound)
    else
      match alookup (edgeNodes s e).nodesMap e.u, alookup (edgeNodes s e).nodesMap e.v with
      | some ui, some vi => edgeTail s.specs (edgeNodes s e) e ui vi
      | _, _ => ((edgeNodes s e).poison "add_edge: nodes_map.get(..).unwrap()", none) := by
  rfl

/-! ## generic update of one vector / one family of sets -/

theorem VecInv.congr {names : List Nat} {vec : AVec} {f f' : Nat → Nat → Option W}
    (h : VecInv names vec f) (hf : ∀ x y, f' x y = f x y) : VecInv names vec f' := by
  have : f' = f := by funext x y; exact hf x y
  rw [this]; exact h

theorem SetInv.congr {names : List Nat} {sets : SMap} {g g' : Nat → Nat → Bool}
    (h : SetInv names sets g) (hg : ∀ x y, g' x y = g x y) : SetInv names sets g' := by
  have : g' = g := by funext x y; exact hg x y
  rw [this]; exact h

theorem VecInv.update {names : List Nat} {vec : AVec} {f : Nat → Nat → Option W}
    (h : VecInv names vec f) (hn : names.Nodup) {u v x0 y0 : Nat}
    (hu : names[u]? = some x0) (hv : names[v]? = some y0) (w : W) (upd : AdjUpd)
    (hk : upd = .keepMin → (f x0 y0).isSome = true) (f' : Nat → Nat → Option W)
    (hf' : ∀ x y, f' x y = if x = x0 ∧ y = y0 then eff upd w (f x y) else f x y) :
    ∃ vec', adjUpdate vec u v w upd = some vec' ∧ VecInv names vec' f' := by
  have hul : u < vec.length := by rw [h.len]; exact lt_of_getElem? hu
  have hrow : vec[u]? = some vec[u] := List.getElem?_eq_getElem hul
  have hk' : upd = .keepMin → ∃ a ∈ vec[u], a.1 = v := by
    intro hupd
    have h1 := hk hupd
    rw [← h.val u v x0 y0 hu hv] at h1
    have : rowMin vec u v = Abs.minW (wts vec[u] v) := by simp [rowMin, hrow]
    rw [this, minW_isSome] at h1
    apply (wts_ne_nil_iff _ _).1
    intro e; rw [e] at h1; simp at h1
  have hspec := adjUpdate_spec vec u v w upd _ hrow hk'
  refine ⟨_, hspec, ?_, ?_, ?_⟩
  · rw [List.length_set]; exact h.len
  · intro i row hr a ha
    rw [List.getElem?_set] at hr
    by_cases hiu : u = i
    · simp only [hiu, if_true] at hr
      split at hr
      · cases hr
        rcases fst_updRow _ _ _ _ _ ha with e | ⟨b, hb, e⟩
        · rw [e]; exact lt_of_getElem? hv
        · rw [← e]; subst hiu; exact h.bnd u _ hrow b hb
      · cases hr
    · simp only [hiu, if_false] at hr
      exact h.bnd i row hr a ha
  · intro i j x y hx hy
    rw [rowMin_adjUpdate vec _ u v w upd _ hrow hspec hk' i j, hf' x y, h.val i j x y hx hy]
    have e1 : i = u ↔ x = x0 := by
      constructor
      · intro e; subst e; rw [hu] at hx; cases hx; rfl
      · intro e; subst e; exact names_inj hn hx hu
    have e2 : j = v ↔ y = y0 := by
      constructor
      · intro e; subst e; rw [hv] at hy; cases hy; rfl
      · intro e; subst e; exact names_inj hn hy hv
    simp only [e1, e2]

theorem setOf_amodify (sets : SMap) (u v i : Nat) :
    setOf (amodify sets u [] (sinsert · v)) i =
      if u = i then sinsert (setOf sets u) v else setOf sets i := by
  unfold setOf
  rw [alookup_amodify]
  split <;> rfl

theorem SetInv.update {names : List Nat} {sets : SMap} {g : Nat → Nat → Bool}
    (h : SetInv names sets g) (hn : names.Nodup) {u v x0 y0 : Nat}
    (hu : names[u]? = some x0) (hv : names[v]? = some y0) (g' : Nat → Nat → Bool)
    (hg' : ∀ x y, g' x y = (g x y || (x == x0 && y == y0))) :
    SetInv names (amodify sets u [] (sinsert · v)) g' := by
  refine ⟨?_, ?_⟩
  · intro i l hl j hj
    rw [alookup_amodify] at hl
    split at hl
    · cases hl
      rcases (mem_sinsert _ _ _).1 hj with hj | hj
      · cases hs : alookup sets u with
        | none => rw [hs] at hj; simp at hj
        | some l' => rw [hs] at hj; exact h.bnd u l' hs j (by simpa using hj)
      · subst hj; exact lt_of_getElem? hv
    · exact h.bnd i l hl j hj
  · intro i j x y hx hy
    rw [setOf_amodify, hg' x y]
    have e1 : u = i ↔ x = x0 := by
      constructor
      · intro e; subst e; rw [hu] at hx; cases hx; rfl
      · intro e; subst e; exact names_inj hn hu hx
    have e2 : j = v ↔ y = y0 := by
      constructor
      · intro e; subst e; rw [hv] at hy; cases hy; rfl
      · intro e; subst e; exact names_inj hn hy hv
    by_cases hiu : u = i
    · subst hiu
      have hxx : x = x0 := e1.1 rfl
      simp only [if_true, contains_sinsert, h.mem u j x y hx hy]
      by_cases hjv : j = v
      · have := e2.1 hjv
        simp [hjv, hxx, this]
      · have : ¬ y = y0 := fun e => hjv (e2.2 e)
        simp [hjv, this]
    · have : ¬ x = x0 := fun e => hiu (e1.2 e)
      rw [if_neg hiu, h.mem i j x y hx hy]
      simp [this]

end C03
end Graphrs
