/-
  Refinement of the abstract machine by `add_node` / `add_edge` (statements with `AbsEq` unfolded).
-/
import GraphrsModel.Lemmas.AddEdge
namespace Graphrs
namespace Store

/-- the abstract graph `a` is the graph held by `s`: same node list, and per key the same edge list -/
def Refines (s : Store) (a : Abs) : Prop :=
  a.nodes = s.nodesVec ∧ ∀ k : Nat × Nat, a.edges.filter (fun e => (e.u, e.v) == k) = (alookup s.edges k).getD []

theorem allEdges_filter {s : Store} (he : EdgesInv s) (k : Nat × Nat) :
    s.allEdges.filter (fun e => (e.u, e.v) == k) = (alookup s.edges k).getD [] := by
  apply AL.flatMap_filter (fun e : Edge => (e.u, e.v)) s.edges he.edges_nodup
  intro kv hkv e hel
  exact (he.edges_ok kv.1 kv.2 (AL.mem_lookup he.edges_nodup hkv)).2.1 e hel

/-- `AbsEq s.abs a` (unfolded), under the edge invariant -/
theorem absEq_iff_refines {s : Store} (he : EdgesInv s) (a : Abs) :
    (s.abs.nodes = a.nodes ∧ ∀ k : Nat × Nat,
      s.abs.edges.filter (fun e => (e.u, e.v) == k) = a.edges.filter (fun e => (e.u, e.v) == k)) ↔ Refines s a := by
  unfold Refines
  simp only [Store.abs, allEdges_filter he]
  constructor
  · rintro ⟨h1, h2⟩; exact ⟨h1.symm, fun k => (h2 k).symm⟩
  · rintro ⟨h1, h2⟩; exact ⟨h1.symm, fun k => (h2 k).symm⟩

namespace Refines
variable {s : Store} {a : Abs}

theorem hasNode (h : Refines s a) (hn : NodesInv s) (x : Nat) : a.hasNode x = acontains s.nodesMap x := by
  rw [Bool.eq_iff_iff, hn.acontains_iff]
  simp [Abs.hasNode, h.1, names]

theorem mem_iff (h : Refines s a) (he : EdgesInv s) (e' : Edge) : e' ∈ a.edges ↔ e' ∈ s.allEdges := by
  have h1 : e' ∈ a.edges ↔ e' ∈ a.edges.filter (fun e => (e.u, e.v) == (e'.u, e'.v)) := by simp
  have h2 : e' ∈ s.allEdges ↔ e' ∈ s.allEdges.filter (fun e => (e.u, e.v) == (e'.u, e'.v)) := by simp
  rw [h1, h2, h.2, allEdges_filter he]

theorem dup_eq (h : Refines s a) (hn : NodesInv s) (he : EdgesInv s) {u v ui vi : Nat}
    (hu : alookup s.nodesMap u = some ui) (hv : alookup s.nodesMap v = some vi) :
    a.edges.any (fun e' => Abs.sameKey s.specs.directed e' u v) = (s.edgesByIdx ui vi).isSome := by
  rw [Bool.eq_iff_iff, edgesByIdx_eq, emap_eq_edges hn he hu hv, ← exists_sameKey_iff he, List.any_eq_true]
  constructor
  · rintro ⟨e', h1, h2⟩; exact ⟨e', (h.mem_iff he e').mp h1, h2⟩
  · rintro ⟨e', h1, h2⟩; exact ⟨e', (h.mem_iff he e').mpr h1, h2⟩

end Refines

theorem map_replace_eq_set {l : List Node} (hnd : (l.map (·.name)).Nodup) {i : Nat} (n : Node)
    (hi : (l.map (·.name))[i]? = some n.name) :
    l.map (fun m => if m.name == n.name then n else m) = l.set i n := by
  apply List.ext_getElem?
  intro j
  rw [List.getElem?_map, List.getElem?_set]
  have hlt : i < l.length := by simpa using getElem?_lt hi
  by_cases hij : i = j
  · subst hij
    simp only [List.getElem?_map, Option.map_eq_some_iff] at hi
    obtain ⟨m, hm, hmn⟩ := hi
    rw [hm]
    simp [hmn, hlt]
  · simp only [hij, if_false]
    cases hj : l[j]? with
    | none => rfl
    | some m =>
      simp only [Option.map_some]
      have : m.name ≠ n.name := by
        intro heq
        have hj' : (l.map (·.name))[j]? = some n.name := by simp [hj, heq]
        have hjl : j < l.length := getElem?_lt hj
        have := (List.getElem?_inj (by simpa using hlt) hnd).mp (hi.trans hj'.symm)
        exact hij this
      simp [this]

theorem addNode_refines' {s : Store} {a : Abs} (hn : NodesInv s) (h : Refines s a) (n : Node) :
    Refines (s.addNode n) (a.addNode n) := by
  unfold Abs.addNode
  rw [h.hasNode hn]
  cases hl : alookup s.nodesMap n.name with
  | some i =>
    have hc : acontains s.nodesMap n.name = true := by simp [acontains, hl]
    rw [addNode_existing hn n hl]
    simp only [hc, if_true]
    refine ⟨?_, h.2⟩
    show a.nodes.map _ = s.nodesVec.set i n
    rw [h.1]
    exact map_replace_eq_set hn.names_nodup n ((hn.map_iff _ _).mp hl)
  | none =>
    have hc : acontains s.nodesMap n.name = false := by simp [acontains, hl]
    rw [addNode_new hn n hl]
    simp only [hc, Bool.false_eq_true, if_false]
    exact ⟨by show a.nodes ++ [n] = s.nodesVec ++ [n]; rw [h.1], h.2⟩

theorem ensure_refines {s : Store} {a : Abs} (hn : NodesInv s) (h : Refines s a) (x : Nat) :
    Refines (s.ensure x) (if a.hasNode x then a else a.addNode ⟨x, none⟩) := by
  unfold ensure
  rw [h.hasNode hn]
  cases hc : acontains s.nodesMap x with
  | true => simpa using h
  | false => simpa using addNode_refines' hn h ⟨x, none⟩


/-- the main branch of `add_edge` (no self-loop rejection, no missing-node rejection) in closed form -/
theorem addEdge_main {s : Store} (hn : NodesInv s) (he : EdgesInv s) (hadj : s.adjOk = true) (hvec : s.vecOk = true)
    (e : Edge) (hsl : ¬ ((!s.specs.selfLoops && e.u == e.v) = true))
    (hmiss : ¬ ((s.specs.missing == .error && (!acontains s.nodesMap e.u || !acontains s.nodesMap e.v)) = true)) :
    ∃ ui vi, Ensured s e ((s.ensure e.u).ensure e.v) ui vi ∧
      (if (s.specs.dedupe == .error && !s.specs.multi && (((s.ensure e.u).ensure e.v).edgesByIdx ui vi).isSome) = true then
        s.addEdge e = ((s.ensure e.u).ensure e.v, some .DuplicateEdge)
      else
        (s.addEdge e).2 = none ∧ (s.addEdge e).1.nodesVec = ((s.ensure e.u).ensure e.v).nodesVec ∧
        (s.addEdge e).1.edges =
          match newList s.specs (alookup ((s.ensure e.u).ensure e.v).edges (nameKey s.specs.directed e.u e.v))
              (Abs.canon s.specs.directed e) with
          | some L => ainsert ((s.ensure e.u).ensure e.v).edges (nameKey s.specs.directed e.u e.v) L
          | none => ((s.ensure e.u).ensure e.v).edges) := by
  obtain ⟨ui, vi, E⟩ := ensured hn he e
  refine ⟨ui, vi, E, ?_⟩
  rw [addEdge_eq, if_neg hsl, if_neg hmiss]
  simp only [E.hu, E.hv]
  split
  · rfl
  · have hui := E.nodes.lookup_lt E.hu
    have hvi := E.nodes.lookup_lt E.hv
    have hlt : (idxKey s.specs.directed ui vi).1 < ((s.ensure e.u).ensure e.v).nodesVec.length ∧
        (idxKey s.specs.directed ui vi).2 < ((s.ensure e.u).ensure e.v).nodesVec.length := by
      rcases idxKey_cases s.specs.directed ui vi with ⟨hk, _⟩ | ⟨hk, _, _⟩ <;> rw [hk] <;> exact ⟨by assumption, by assumption⟩
    obtain ⟨sc, scm, sv, p, pm, pv, hform, l1, l2⟩ :=
      adjPhase_form s.specs ((s.ensure e.u).ensure e.v) e ui vi (idxKey s.specs.directed ui vi).1
        (idxKey s.specs.directed ui vi).2 (updOf s.specs (((s.ensure e.u).ensure e.v).edgesByIdx ui vi).isSome)
        (by rw [E.nodes.succ_len]; exact hlt.1) (by rw [E.nodes.succ_len]; exact hlt.2)
        (by rw [E.nodes.pred_len]; exact hlt.2)
        (by
          intro hk
          obtain ⟨hal, _⟩ := updOf_keepMin hk
          have hs2 := E.old hal
          have hu := E.hu; have hv := E.hv
          rw [hs2] at hu hv hal ⊢
          exact keepMin_pre hn he hadj hvec hu hv hal)
    rw [hform]
    have hnt := E.nodes.of_adj (sc := sc) (scm := scm) (p := p) (pm := pm) l1 l2
    have het := E.edges.of_adj (sc := sc) (scm := scm) (p := p) (pm := pm) (sv := sv) (pv := pv)
    rw [← E.specs]
    have heq := edgePhase_eq hnt het e E.hu E.hv
    simp only at heq ⊢
    rw [heq]
    cases hL : newList ((s.ensure e.u).ensure e.v).specs
        (alookup ((s.ensure e.u).ensure e.v).edges (nameKey ((s.ensure e.u).ensure e.v).specs.directed e.u e.v))
        (Abs.canon ((s.ensure e.u).ensure e.v).specs.directed e) with
    | none => exact ⟨trivial, rfl, rfl⟩
    | some L => exact ⟨trivial, rfl, rfl⟩

theorem addEdge_error_unchanged' {s : Store} (hn : NodesInv s) (he : EdgesInv s) (hadj : s.adjOk = true)
    (hvec : s.vecOk = true) (e : Edge) (k : ErrKind) (herr : (s.addEdge e).2 = some k) : (s.addEdge e).1 = s := by
  by_cases hsl : (!s.specs.selfLoops && e.u == e.v) = true
  · rw [addEdge_eq, if_pos hsl]; split <;> rfl
  · by_cases hmiss : (s.specs.missing == .error && (!acontains s.nodesMap e.u || !acontains s.nodesMap e.v)) = true
    · rw [addEdge_eq, if_neg hsl, if_pos hmiss]
    · obtain ⟨ui, vi, E, hmain⟩ := addEdge_main hn he hadj hvec e hsl hmiss
      split at hmain
      · rename_i hd
        rw [hmain]
        simp only [Bool.and_eq_true] at hd
        exact E.old hd.2
      · rw [hmain.1] at herr; cases herr

end Store

/-- the main branch of `Abs.addEdge`, as a function of the graph `a2` after node creation -/
def Abs.main (sp : Specs) (a a2 : Abs) (e : Edge) : Abs × Option ErrKind :=
  let dup := a2.edges.any fun e' => Abs.sameKey sp.directed e' e.u e.v
  if sp.multi || !dup then
    ({ a2 with edges := a2.edges ++ [Abs.canon sp.directed e] }, none)
  else
    match sp.dedupe with
    | .error => (a, some .DuplicateEdge)
    | .keepFirst => (a2, none)
    | .keepLast =>
      ({ a2 with edges := a2.edges.map fun e' =>
          if Abs.sameKey sp.directed e' e.u e.v then Abs.canon sp.directed e else e' }, none)

theorem Abs.addEdge_eq (sp : Specs) (a : Abs) (e : Edge) :
    Abs.addEdge sp a e =
      if !sp.selfLoops && e.u == e.v then
        match sp.slFalse with
        | .error => (a, some .SelfLoopsFound)
        | .drop => (a, none)
      else if sp.missing == .error && (!a.hasNode e.u || !a.hasNode e.v) then
        (a, some .NodeNotFound)
      else
        Abs.main sp a
          (if (if a.hasNode e.u then a else a.addNode ⟨e.u, none⟩).hasNode e.v
           then (if a.hasNode e.u then a else a.addNode ⟨e.u, none⟩)
           else (if a.hasNode e.u then a else a.addNode ⟨e.u, none⟩).addNode ⟨e.v, none⟩) e := rfl

namespace Store

theorem filter_map_replace (l : List Edge) (c : Edge) (K k : Nat × Nat) (hc : (c.u, c.v) = K) :
    (l.map (fun e' => if (e'.u, e'.v) == K then c else e')).filter (fun e => (e.u, e.v) == k) =
      if K = k then (l.filter (fun e => (e.u, e.v) == K)).map (fun _ => c)
      else l.filter (fun e => (e.u, e.v) == k) := by
  induction l with
  | nil => simp
  | cons x l ih =>
    simp only [List.map_cons, List.filter_cons, ih]
    by_cases h1 : (x.u, x.v) = K <;> by_cases h2 : K = k
    · subst h2; simp [h1, hc]
    · have : ¬ (x.u, x.v) = k := fun h => h2 (h1 ▸ h)
      simp [h1, h2, hc]
    · subst h2; simp [h1]
    · simp [h1, h2]

theorem refines_append {s2 t : Store} {a2 : Abs} (r2 : Refines s2 a2) (c : Edge) (K : Nat × Nat)
    (hc : (c.u, c.v) = K) (hnv : t.nodesVec = s2.nodesVec)
    (hed : t.edges = ainsert s2.edges K ((alookup s2.edges K).getD [] ++ [c])) :
    Refines t { a2 with edges := a2.edges ++ [c] } := by
  refine ⟨by rw [hnv]; exact r2.1, ?_⟩
  intro k
  rw [hed, AL.lookup_insert]
  simp only [List.filter_append, r2.2]
  by_cases h : K = k
  · subst h; simp [hc]
  · have : ¬ (c.u, c.v) = k := fun h' => h (hc ▸ h')
    simp [h, this]

theorem refines_replace {s2 t : Store} {a2 : Abs} (r2 : Refines s2 a2) (he2 : EdgesInv s2) (c : Edge) (u v : Nat)
    (hc : (c.u, c.v) = nameKey s2.specs.directed u v) (hnv : t.nodesVec = s2.nodesVec)
    (hm : s2.specs.multi = false) (hold : (alookup s2.edges (nameKey s2.specs.directed u v)).isSome = true)
    (hed : t.edges = ainsert s2.edges (nameKey s2.specs.directed u v) [c]) :
    Refines t { a2 with edges := a2.edges.map fun e' =>
      if (Abs.sameKey s2.specs.directed e' u v) then c else e' } := by
  refine ⟨by rw [hnv]; exact r2.1, ?_⟩
  intro k
  have hmap : a2.edges.map (fun e' => if (Abs.sameKey s2.specs.directed e' u v) then c else e') =
      a2.edges.map (fun e' => if (e'.u, e'.v) == nameKey s2.specs.directed u v then c else e') := by
    apply List.map_congr_left
    intro e' he'
    have := sameKey_iff_key he2 ((r2.mem_iff he2 e').mp he') u v
    by_cases hk : (e'.u, e'.v) = nameKey s2.specs.directed u v
    · simp [this.mpr hk, hk]
    · have h1 : Abs.sameKey s2.specs.directed e' u v = false := by
        cases h : Abs.sameKey s2.specs.directed e' u v with
        | false => rfl
        | true => exact absurd (this.mp h) hk
      simp [h1, hk]
  show List.filter _ (a2.edges.map _) = _
  rw [hmap, filter_map_replace _ _ _ _ hc, hed, AL.lookup_insert]
  by_cases h : nameKey s2.specs.directed u v = k
  · subst h
    obtain ⟨l, hl⟩ := Option.isSome_iff_exists.mp hold
    obtain ⟨_, _, _, _, _, a6, _⟩ := he2.edges_ok _ l hl
    have hlen : l.length = 1 := by
      rcases a6 with a6 | a6
      · rw [hm] at a6; cases a6
      · exact a6
    simp only [if_true, r2.2, hl, Option.getD_some]
    match l, hlen with
    | [x], _ => rfl
  · simp only [h, if_false, r2.2]


theorem main_refines {s s2 : Store} {a a2 : Abs} {e : Edge} {ui vi : Nat}
    (h : Refines s a) (E : Ensured s e s2 ui vi) (r2 : Refines s2 a2) (res : Store × Option ErrKind)
    (hres : if (s.specs.dedupe == .error && !s.specs.multi && (s2.edgesByIdx ui vi).isSome) = true then
        res = (s2, some .DuplicateEdge)
      else
        res.2 = none ∧ res.1.nodesVec = s2.nodesVec ∧
        res.1.edges =
          match newList s.specs (alookup s2.edges (nameKey s.specs.directed e.u e.v)) (Abs.canon s.specs.directed e) with
          | some L => ainsert s2.edges (nameKey s.specs.directed e.u e.v) L
          | none => s2.edges) :
    res.2 = (Abs.main s.specs a a2 e).2 ∧ Refines res.1 (Abs.main s.specs a a2 e).1 := by
  have hdup := r2.dup_eq E.nodes E.edges E.hu E.hv
  rw [E.specs] at hdup
  have hold : (s2.edgesByIdx ui vi).isSome = (alookup s2.edges (nameKey s.specs.directed e.u e.v)).isSome := by
    rw [edgesByIdx_eq, emap_eq_edges E.nodes E.edges E.hu E.hv, E.specs]
  have hck := canon_key s.specs.directed e
  unfold Abs.main
  simp only [hdup]
  cases hm : s.specs.multi with
  | true =>
    simp only [hm, Bool.not_true, Bool.and_false, Bool.false_and, Bool.false_eq_true, if_false, newList, if_true,
      Bool.true_or] at hres ⊢
    exact ⟨hres.1, refines_append r2 _ _ hck hres.2.1 hres.2.2⟩
  | false =>
    cases hb : (s2.edgesByIdx ui vi).isSome with
    | false =>
      have hnone : alookup s2.edges (nameKey s.specs.directed e.u e.v) = none := by
        rw [hb] at hold
        cases h' : alookup s2.edges (nameKey s.specs.directed e.u e.v) with
        | none => rfl
        | some _ => rw [h'] at hold; cases hold
      simp only [hm, hb, hnone, Bool.not_false, Bool.and_false, Bool.false_eq_true, if_false, newList, if_true,
        Bool.false_or, Option.isNone_none] at hres ⊢
      refine ⟨hres.1, refines_append r2 _ _ hck hres.2.1 ?_⟩
      rw [hnone]; exact hres.2.2
    | true =>
      have hsome : (alookup s2.edges (nameKey s.specs.directed e.u e.v)).isSome = true := by rw [← hold, hb]
      have hnn : (alookup s2.edges (nameKey s.specs.directed e.u e.v)).isNone = false := by
        cases h' : alookup s2.edges (nameKey s.specs.directed e.u e.v) with
        | none => rw [h'] at hsome; cases hsome
        | some _ => rfl
      cases hd : s.specs.dedupe with
      | error =>
        simp only [hm, hb, hd, beq_self_eq_true, Bool.not_false, Bool.and_self, if_true, Bool.not_true,
          Bool.or_self, Bool.false_eq_true, if_false] at hres ⊢
        subst hres
        have := E.old hb
        subst this
        exact ⟨rfl, h⟩
      | keepFirst =>
        have hne : (Dedupe.keepFirst == Dedupe.error) = false := rfl
        have hne2 : (Dedupe.keepFirst == Dedupe.keepLast) = false := rfl
        simp only [hm, hb, hd, hne, hne2, hnn, Bool.false_and, Bool.not_true, Bool.or_self, Bool.false_eq_true, if_false,
          newList] at hres ⊢
        exact ⟨hres.1, by rw [hres.2.1]; exact r2.1, by rw [hres.2.2]; exact r2.2⟩
      | keepLast =>
        have hne : (Dedupe.keepLast == Dedupe.error) = false := rfl
        simp only [hm, hb, hd, hne, hnn, Bool.false_and, Bool.not_true, Bool.or_self, Bool.false_eq_true, if_false,
          newList, beq_self_eq_true, if_true] at hres ⊢
        refine ⟨hres.1, ?_⟩
        have := refines_replace (t := res.1) r2 E.edges (Abs.canon s.specs.directed e) e.u e.v
          (by rw [E.specs]; exact hck) hres.2.1 (by rw [E.specs]; exact hm) (by rw [E.specs]; exact hsome)
          (by rw [E.specs]; exact hres.2.2)
        rw [E.specs] at this
        exact this


theorem addEdge_refines' {s : Store} {a : Abs} (hn : NodesInv s) (he : EdgesInv s) (hadj : s.adjOk = true)
    (hvec : s.vecOk = true) (h : Refines s a) (e : Edge) :
    (s.addEdge e).2 = (Abs.addEdge s.specs a e).2 ∧ Refines (s.addEdge e).1 (Abs.addEdge s.specs a e).1 := by
  rw [Abs.addEdge_eq]
  by_cases hsl : (!s.specs.selfLoops && e.u == e.v) = true
  · rw [addEdge_eq, if_pos hsl, if_pos hsl]
    cases s.specs.slFalse <;> exact ⟨rfl, h⟩
  · have hcond : (s.specs.missing == .error && (!a.hasNode e.u || !a.hasNode e.v)) =
        (s.specs.missing == .error && (!acontains s.nodesMap e.u || !acontains s.nodesMap e.v)) := by
      rw [h.hasNode hn, h.hasNode hn]
    rw [if_neg hsl, hcond]
    by_cases hmiss : (s.specs.missing == .error && (!acontains s.nodesMap e.u || !acontains s.nodesMap e.v)) = true
    · rw [addEdge_eq, if_neg hsl, if_pos hmiss, if_pos hmiss]
      exact ⟨rfl, h⟩
    · rw [if_neg hmiss]
      obtain ⟨ui, vi, E, hmain⟩ := addEdge_main hn he hadj hvec e hsl hmiss
      have r1 := ensure_refines hn h e.u
      have r2 := ensure_refines (ensure_nodesInv hn e.u) r1 e.v
      exact main_refines h E r2 _ hmain

end Store
end Graphrs
