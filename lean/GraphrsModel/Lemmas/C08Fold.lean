/-
  Folds in the `Outcome` monad whose step is `do let a ← acc; h a x` (every per-item loop of the shortest-path API:
  `convert_shortest_path_info_vec_to_t_map`, `multi_source`, `all_pairs`), and such folds that insert one binding per item.
-/
import GraphrsModel.Lemmas.AList
namespace Graphrs
namespace C08F

/-- the fold `foldl (fun acc x => do let a ← acc; h a x) (.ok b) l` succeeded with `r` -/
def foldRel {α β : Type} (h : β → α → Outcome β) : β → List α → β → Prop
  | b, [], r => r = b
  | b, x :: xs, r => ∃ b', h b x = .ok b' ∧ foldRel h b' xs r

theorem foldl_err {α β : Type} (h : β → α → Outcome β) (k : ErrKind) (l : List α) :
    l.foldl (fun acc x => Outcome.bind acc (fun a => h a x)) (.err k) = .err k := by
  induction l with
  | nil => rfl
  | cons x xs ih => rw [List.foldl_cons]; exact ih

theorem foldl_panic {α β : Type} (h : β → α → Outcome β) (m : String) (l : List α) :
    l.foldl (fun acc x => Outcome.bind acc (fun a => h a x)) (.panic m) = .panic m := by
  induction l with
  | nil => rfl
  | cons x xs ih => rw [List.foldl_cons]; exact ih

theorem foldl_ok_iff {α β : Type} (h : β → α → Outcome β) (l : List α) : ∀ (b r : β),
    l.foldl (fun acc x => Outcome.bind acc (fun a => h a x)) (.ok b) = .ok r ↔ foldRel h b l r := by
  induction l with
  | nil =>
    intro b r
    simp only [List.foldl_nil, foldRel, Outcome.ok.injEq]
    exact eq_comm
  | cons x xs ih =>
    intro b r
    rw [List.foldl_cons]
    show xs.foldl _ (h b x) = .ok r ↔ _
    simp only [foldRel]
    cases hx : h b x with
    | ok b' =>
      rw [ih b' r]
      constructor
      · intro hr; exact ⟨b', rfl, hr⟩
      · rintro ⟨b'', e, hr⟩; cases e; exact hr
    | err k =>
      rw [foldl_err]
      constructor
      · intro e; cases e
      · rintro ⟨_, e, _⟩; cases e
    | panic m =>
      rw [foldl_panic]
      constructor
      · intro e; cases e
      · rintro ⟨_, e, _⟩; cases e

/-- a fold from a failed accumulator is not `ok` -/
theorem foldl_ok_init {α β : Type} (h : β → α → Outcome β) (l : List α) (init : Outcome β) (r : β)
    (hr : l.foldl (fun acc x => Outcome.bind acc (fun a => h a x)) init = .ok r) : ∃ b, init = .ok b := by
  cases init with
  | ok b => exact ⟨b, rfl⟩
  | err k => rw [foldl_err] at hr; cases hr
  | panic m => rw [foldl_panic] at hr; cases hr

theorem foldRel_exists {α β : Type} (h : β → α → Outcome β) (l : List α)
    (hall : ∀ x ∈ l, ∀ b, ∃ b', h b x = .ok b') : ∀ b, ∃ r, foldRel h b l r := by
  induction l with
  | nil => intro b; exact ⟨b, rfl⟩
  | cons x xs ih =>
    intro b
    obtain ⟨b', hb'⟩ := hall x (List.mem_cons_self ..) b
    obtain ⟨r, hr⟩ := ih (fun y hy => hall y (List.mem_cons_of_mem _ hy)) b'
    exact ⟨r, b', hb', hr⟩

/-- every step of a successful fold succeeded -/
theorem foldRel_steps {α β : Type} (h : β → α → Outcome β) (l : List α) : ∀ b r, foldRel h b l r →
    ∀ x ∈ l, ∃ b1 b2, h b1 x = .ok b2 := by
  induction l with
  | nil => intro b r _ x hx; simp at hx
  | cons y ys ih =>
    intro b r hr x hx
    obtain ⟨b', hb', hr'⟩ := hr
    rw [List.mem_cons] at hx
    rcases hx with e | hx
    · subst e; exact ⟨b, b', hb'⟩
    · exact ih b' r hr' x hx

/-- a successful fold whose steps insert one binding `key x ↦ v` with `P x v` -/
theorem foldRel_insert {α ν : Type} (h : List (Nat × ν) → α → Outcome (List (Nat × ν))) (key : α → Nat)
    (P : α → ν → Prop)
    (hstep : ∀ b x b', h b x = .ok b' → ∃ v, P x v ∧ b' = ainsert b (key x) v) (l : List α) :
    ∀ b r, foldRel h b l r →
      (∀ k, (alookup r k).isSome = (l.any (fun x => key x == k) || (alookup b k).isSome)) ∧
      (∀ k v, alookup r k = some v → (∃ x ∈ l, key x = k ∧ P x v) ∨ alookup b k = some v) ∧
      ((b.map (·.1)).Nodup → (r.map (·.1)).Nodup) := by
  induction l with
  | nil =>
    intro b r hr
    simp only [foldRel] at hr
    subst hr
    refine ⟨fun k => by simp, fun k v hv => Or.inr hv, fun hn => hn⟩
  | cons x xs ih =>
    intro b r hr
    obtain ⟨b', hb', hr'⟩ := hr
    obtain ⟨v0, hP, e⟩ := hstep b x b' hb'
    subst e
    obtain ⟨i1, i2, i3⟩ := ih _ r hr'
    refine ⟨?_, ?_, ?_⟩
    · intro k
      rw [i1 k, AL.lookup_insert, List.any_cons]
      by_cases hk : key x = k
      · simp [hk]
      · have : (key x == k) = false := by simpa using hk
        simp [hk, this]
    · intro k v hv
      rcases i2 k v hv with ⟨y, hy, e1, e2⟩ | hb
      · exact Or.inl ⟨y, List.mem_cons_of_mem _ hy, e1, e2⟩
      · rw [AL.lookup_insert] at hb
        by_cases hk : key x = k
        · rw [if_pos hk] at hb
          cases hb
          exact Or.inl ⟨x, List.mem_cons_self .., hk, hP⟩
        · rw [if_neg hk] at hb
          exact Or.inr hb
    · intro hn
      exact i3 (AL.nodup_insert hn _ _)

end C08F
end Graphrs
