/-
  Lemmas for C15: on the abstract machine, adding a list of distinct nodes and then a list of
  "valid" edges (endpoints are nodes, canonical orientation, no forbidden self-loop, distinct keys
  unless multi) never fails and yields exactly those nodes and edges.  Plus the facts about the
  stored edges of a well-formed store that make its own edge list valid.
-/
import GraphrsModel.Props.C01
namespace Graphrs

/-! ### abstract machine -/

namespace Abs

theorem hasNode_iff (a : Abs) (x : Nat) : a.hasNode x = true ↔ x ∈ a.nodes.map (·.name) := by
  simp [Abs.hasNode]

theorem addNodes_fresh (ns acc : List Node) (es : List Edge) (h : ((acc ++ ns).map (·.name)).Nodup) :
    Abs.addNodes ⟨acc, es⟩ ns = ⟨acc ++ ns, es⟩ := by
  induction ns generalizing acc with
  | nil => simp [Abs.addNodes]
  | cons n ns ih =>
    have hn : Abs.addNode ⟨acc, es⟩ n = ⟨acc ++ [n], es⟩ := by
      have : (Abs.hasNode ⟨acc, es⟩ n.name) = false := by
        rw [Bool.eq_false_iff]
        intro hc
        rw [hasNode_iff] at hc
        simp only [List.map_append, List.map_cons, List.nodup_append] at h
        exact h.2.2 _ hc _ (List.mem_cons_self) rfl
      simp [Abs.addNode, this]
    have h' : (((acc ++ [n]) ++ ns).map (·.name)).Nodup := by simpa using h
    have := ih (acc ++ [n]) h'
    simp only [Abs.addNodes, List.foldl_cons] at this ⊢
    rw [hn, this]
    simp

theorem addNodes_empty (ns : List Node) (h : (ns.map (·.name)).Nodup) :
    ({} : Abs).addNodes ns = ⟨ns, []⟩ := by
  have := addNodes_fresh ns [] [] (by simpa using h)
  simpa using this

/-- one valid edge is appended as it is -/
theorem addEdge_valid (sp : Specs) (ns : List Node) (acc : List Edge) (e : Edge)
    (hu : e.u ∈ ns.map (·.name)) (hv : e.v ∈ ns.map (·.name))
    (hsl : sp.selfLoops = true ∨ e.u ≠ e.v) (hc : sp.directed = true ∨ e.u ≤ e.v)
    (hdup : sp.multi = true ∨ ∀ e' ∈ acc, Abs.sameKey sp.directed e' e.u e.v = false) :
    Abs.addEdge sp ⟨ns, acc⟩ e = (⟨ns, acc ++ [e]⟩, none) := by
  have h1 : Abs.hasNode ⟨ns, acc⟩ e.u = true := (hasNode_iff _ _).mpr hu
  have h2 : Abs.hasNode ⟨ns, acc⟩ e.v = true := (hasNode_iff _ _).mpr hv
  have h3 : (!sp.selfLoops && e.u == e.v) = false := by
    rcases hsl with h | h
    · simp [h]
    · simp [h]
  have h4 : Abs.canon sp.directed e = e := by
    unfold Abs.canon Edge.ordered
    rcases hc with h | h
    · simp [h]
    · have : ¬ e.u > e.v := by omega
      simp [this]
  have h5 : (sp.multi || !(acc.any fun e' => Abs.sameKey sp.directed e' e.u e.v)) = true := by
    rcases hdup with h | h
    · simp [h]
    · have : (acc.any fun e' => Abs.sameKey sp.directed e' e.u e.v) = false := by
        rw [List.any_eq_false]
        intro x hx
        simp [h x hx]
      simp [this]
  unfold Abs.addEdge
  simp only [h3, h1, h2, h4, h5, Bool.false_eq_true, if_false, if_true, Bool.not_true, Bool.or_self,
    Bool.and_false]

/-- two canonical edges with different keys do not have the same endpoints -/
theorem sameKey_false (dir : Bool) (e' e : Edge) (hk : (e'.u, e'.v) ≠ (e.u, e.v))
    (h1 : dir = true ∨ e'.u ≤ e'.v) (h2 : dir = true ∨ e.u ≤ e.v) : Abs.sameKey dir e' e.u e.v = false := by
  rw [Bool.eq_false_iff]
  intro h
  apply hk
  cases dir <;> simp [Abs.sameKey] at h h1 h2 ⊢ <;> omega

/-- a list of valid edges is appended as it is, and no call fails -/
theorem addEdges_valid (sp : Specs) (ns : List Node) (es acc : List Edge)
    (hn : ∀ e ∈ es, e.u ∈ ns.map (·.name) ∧ e.v ∈ ns.map (·.name))
    (hsl : ∀ e ∈ es, sp.selfLoops = true ∨ e.u ≠ e.v)
    (hc : ∀ e ∈ acc ++ es, sp.directed = true ∨ e.u ≤ e.v)
    (hdup : sp.multi = true ∨ (acc ++ es).Pairwise (fun e' e => (e'.u, e'.v) ≠ (e.u, e.v))) :
    Abs.addEdges sp ⟨ns, acc⟩ es = (⟨ns, acc ++ es⟩, none) := by
  induction es generalizing acc with
  | nil => simp [Abs.addEdges]
  | cons e es ih =>
    have he := addEdge_valid sp ns acc e (hn e (by simp)).1 (hn e (by simp)).2 (hsl e (by simp))
      (hc e (by simp)) (by
        rcases hdup with h | h
        · exact Or.inl h
        · right
          intro e' he'
          rw [List.pairwise_append] at h
          exact sameKey_false _ _ _ (h.2.2 e' he' e (by simp)) (hc e' (by simp [he'])) (hc e (by simp)))
    have hih := ih (acc ++ [e]) (fun x hx => hn x (by simp [hx])) (fun x hx => hsl x (by simp [hx]))
      (by simpa using hc) (by simpa using hdup)
    simp only [Abs.addEdges, he, hih]
    simp

end Abs

/-! ### the stored edges of a well-formed store -/

namespace Store

theorem wf_inv {s : Store} (h : s.wf = true) : s.NodesInv ∧ s.EdgesInv := by
  simp only [Store.wf, Bool.and_eq_true] at h
  exact ⟨(Store.nodesOk_iff s).mp h.1.1.1, (Store.edgesOk_iff s).mp h.1.1.2⟩

/-- every stored edge sits in the list of some bound key -/
theorem mem_allEdges {s : Store} (he : EdgesInv s) {e : Edge} (hmem : e ∈ s.allEdges) :
    ∃ k l, alookup s.edges k = some l ∧ e ∈ l ∧ EdgeEntry s k l := by
  simp only [allEdges, List.mem_flatMap] at hmem
  obtain ⟨⟨k, l⟩, hkl, hel⟩ := hmem
  have hl := AL.mem_lookup he.edges_nodup hkl
  exact ⟨k, l, hl, hel, he.edges_ok k l hl⟩

theorem allEdges_valid {s : Store} (he : EdgesInv s) {e : Edge} (hmem : e ∈ s.allEdges) :
    e.u ∈ s.names ∧ e.v ∈ s.names ∧ (s.specs.selfLoops = true ∨ e.u ≠ e.v) ∧
      (s.specs.directed = true ∨ e.u ≤ e.v) := by
  obtain ⟨k, l, _, hel, _, a2, a3, a4, a5, _, a7, _⟩ := mem_allEdges he hmem
  have hk := a2 e hel
  subst hk
  exact ⟨a4, a5, a7, a3⟩

theorem flatMap_singletons_map {κ ε : Type} (key : ε → κ) (m : List (κ × List ε))
    (h : ∀ kv ∈ m, kv.2.length = 1 ∧ ∀ e ∈ kv.2, key e = kv.1) :
    (m.flatMap (·.2)).map key = m.map (·.1) := by
  induction m with
  | nil => rfl
  | cons p m ih =>
    obtain ⟨k, l⟩ := p
    obtain ⟨h1, h2⟩ := h (k, l) (by simp)
    match l, h1 with
    | [x], _ =>
      have := h2 x (by simp)
      simp only [List.flatMap_cons, List.map_cons, List.singleton_append]
      rw [ih (fun kv hkv => h kv (List.mem_cons_of_mem _ hkv))]
      simp at this
      rw [this]

/-- without multi-edges the stored edges have pairwise distinct keys -/
theorem allEdges_keys_distinct {s : Store} (he : EdgesInv s) (hm : s.specs.multi = false) :
    s.allEdges.Pairwise (fun e' e => (e'.u, e'.v) ≠ (e.u, e.v)) := by
  have h1 : (s.allEdges.map fun e => (e.u, e.v)) = s.edges.map (·.1) := by
    apply flatMap_singletons_map
    intro kv hkv
    obtain ⟨_, a2, _, _, _, a6, _⟩ := he.edges_ok kv.1 kv.2 (AL.mem_lookup he.edges_nodup hkv)
    refine ⟨?_, a2⟩
    rcases a6 with a6 | a6
    · rw [hm] at a6; cases a6
    · exact a6
  have h2 := he.edges_nodup
  rw [← h1, List.Nodup, List.pairwise_map] at h2
  exact h2

/-! ### the distinct keys of the flattened edge list are the keys of the map -/

theorem foldl_sinsert_same {κ ε : Type} [DecidableEq κ] (key : ε → κ) (k : κ) (l : List ε) (acc : List κ)
    (h : ∀ e ∈ l, key e = k) :
    (l.map key).foldl sinsert acc = if l = [] then acc else sinsert acc k := by
  induction l generalizing acc with
  | nil => simp
  | cons x l ih =>
    have hx : key x = k := h x (by simp)
    simp only [List.map_cons, List.foldl_cons, hx, reduceCtorEq, if_false]
    rw [ih _ (fun e he => h e (List.mem_cons_of_mem _ he))]
    split
    · rfl
    · unfold sinsert
      by_cases hk : k ∈ acc <;> simp [hk]

theorem dedup_flatMap_keys {κ ε : Type} [DecidableEq κ] (key : ε → κ) (m : List (κ × List ε)) (acc : List κ)
    (hne : ∀ kv ∈ m, kv.2 ≠ [] ∧ ∀ e ∈ kv.2, key e = kv.1) (hnd : (acc ++ m.map (·.1)).Nodup) :
    ((m.flatMap (·.2)).map key).foldl sinsert acc = acc ++ m.map (·.1) := by
  induction m generalizing acc with
  | nil => simp
  | cons p m ih =>
    obtain ⟨k, l⟩ := p
    obtain ⟨h1, h2⟩ := hne (k, l) (by simp)
    simp only [List.flatMap_cons, List.map_append, List.foldl_append]
    rw [foldl_sinsert_same key k l acc h2, if_neg h1]
    have hk : k ∉ acc := by
      intro hc
      simp only [List.map_cons, List.nodup_append] at hnd
      exact hnd.2.2 k hc k (by simp) rfl
    have hs : sinsert acc k = acc ++ [k] := by simp [sinsert, hk]
    rw [hs, ih (acc ++ [k]) (fun kv hkv => hne kv (List.mem_cons_of_mem _ hkv)) (by simpa using hnd)]
    simp

theorem abs_keys {s : Store} (he : EdgesInv s) : s.abs.keys = s.edges.map (·.1) := by
  have := dedup_flatMap_keys (fun e : Edge => (e.u, e.v)) s.edges []
    (fun kv hkv => by
      obtain ⟨a1, a2, _⟩ := he.edges_ok kv.1 kv.2 (AL.mem_lookup he.edges_nodup hkv)
      exact ⟨a1, a2⟩)
    (by simpa using he.edges_nodup)
  simpa [Abs.keys, dedup, Store.abs, allEdges] using this

/-- `collapse_edges` over the edge map is the abstract collapse -/
theorem abs_toSingle {s : Store} (he : EdgesInv s) :
    s.abs.toSingle = ⟨s.nodesVec, s.edges.map collapseEdges⟩ := by
  unfold Abs.toSingle
  rw [abs_keys he, List.map_map]
  show Abs.mk s.nodesVec _ = _
  congr 1
  apply List.map_congr_left
  intro kv hkv
  have hl := AL.mem_lookup he.edges_nodup hkv
  have hf := allEdges_filter he kv.1
  rw [hl] at hf
  have hp : (fun e : Edge => e.u == kv.1.1 && e.v == kv.1.2) = (fun e : Edge => (e.u, e.v) == kv.1) := by
    funext e
    rw [Bool.eq_iff_iff]
    simp [Prod.ext_iff]
  simp only [Function.comp, collapseEdges, Store.abs, hp, hf, Option.getD_some, Abs.sumW]

end Store

/-! ### `new_from_nodes_and_edges` through the abstract machine -/

theorem newFrom_sim
    (hrest : ∀ (t : Store) (o : Op), t.wf = true → (t.step o).1.nodesOk = true → (t.step o).1.edgesOk = true →
      (t.step o).1.adjOk = true ∧ (t.step o).1.vecOk = true)
    (sp : Specs) (ns : List Node) (es : List Edge) (a' : Abs)
    (h : Abs.addEdges sp (({} : Abs).addNodes ns) es = (a', none)) :
    ∃ t, Store.newFrom sp ns es = .ok t ∧ t.wf = true ∧ t.specs = sp ∧ AbsEq t.abs a' := by
  have h0 := C01_new_wf sp
  have a0 : AbsEq (Store.new sp).abs ({} : Abs) := ⟨rfl, fun _ => rfl⟩
  have s1 := C01_step_sim (Store.new sp) {} (.addNodes ns) hrest h0 a0
  have sp1 : ((Store.new sp).addNodes ns).specs = sp := C01_specs_unchanged (Store.new sp) (.addNodes ns)
  have w1 : ((Store.new sp).addNodes ns).wf = true := s1.2.1
  have e1 : AbsEq ((Store.new sp).addNodes ns).abs (({} : Abs).addNodes ns) := s1.2.2
  have s2 := C01_step_sim ((Store.new sp).addNodes ns) _ (.addEdges es) hrest w1 e1
  have sp2 : (((Store.new sp).addNodes ns).addEdges es).1.specs = ((Store.new sp).addNodes ns).specs :=
    C01_specs_unchanged ((Store.new sp).addNodes ns) (.addEdges es)
  rw [sp1] at s2 sp2
  have r2 : (((Store.new sp).addNodes ns).addEdges es).2 = (Abs.addEdges sp (({} : Abs).addNodes ns) es).2 := s2.1
  have w2 : (((Store.new sp).addNodes ns).addEdges es).1.wf = true := s2.2.1
  have e2 : AbsEq (((Store.new sp).addNodes ns).addEdges es).1.abs (Abs.addEdges sp (({} : Abs).addNodes ns) es).1 :=
    s2.2.2
  rw [h] at r2 e2
  unfold Store.newFrom
  cases hr : ((Store.new sp).addNodes ns).addEdges es with
  | mk t o =>
    rw [hr] at r2 w2 e2 sp2
    simp only at r2 w2 e2 sp2
    subst r2
    exact ⟨t, rfl, w2, sp2, e2⟩

end Graphrs
