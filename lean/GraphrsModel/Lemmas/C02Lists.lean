/-
  Helper lemmas for C02: the per-node edge lists (`flatEdges` over the name-keyed neighbour sets).
-/
import GraphrsModel.Lemmas.C02Adj
namespace Graphrs
namespace C02
open Store

theorem foldl_ok_append {α β : Type} (f : Outcome (List β) → α → Outcome (List β)) (g : α → List β)
    (idxs : List α) (acc : List β)
    (h : ∀ i ∈ idxs, ∀ acc, f (.ok acc) i = .ok (acc ++ g i)) :
    idxs.foldl f (.ok acc) = .ok (acc ++ idxs.flatMap g) := by
  induction idxs generalizing acc with
  | nil => simp
  | cons i idxs ih =>
    rw [List.foldl_cons, h i List.mem_cons_self acc, ih _ (fun j hj => h j (List.mem_cons_of_mem _ hj))]
    simp

theorem flatEdges_ok (s : Store) (site : String) (keys : List (Nat × Nat))
    (h : ∀ k ∈ keys, (alookup s.edges k).isSome = true) :
    s.flatEdges site keys = .ok (keys.flatMap fun k => (alookup s.edges k).getD []) := by
  unfold Store.flatEdges
  rw [foldl_ok_append _ (fun k => (alookup s.edges k).getD []) keys []]
  · simp
  · intro k hk acc
    have := h k hk
    cases hl : alookup s.edges k with
    | none => simp [hl] at this
    | some l => simp [bind, Outcome.bind]

/-- grouping a filtered list by a key that ranges over a duplicate-free list is a permutation -/
theorem perm_flatMap_filter {α κ : Type} [DecidableEq κ] (A : List α) (L : List κ) (p : α → Bool)
    (g : α → κ) (hL : L.Nodup) :
    (L.flatMap fun q => A.filter fun a => p a && g a == q).Perm
      (A.filter fun a => p a && L.contains (g a)) := by
  induction L with
  | nil => simp
  | cons q L ih =>
    rw [List.nodup_cons] at hL
    rw [List.flatMap_cons]
    refine (List.Perm.append (List.Perm.refl _) (ih hL.2)).trans ?_
    have key := List.filter_append_perm (fun a => g a == q) (A.filter fun a => p a && (q :: L).contains (g a))
    rw [List.filter_filter, List.filter_filter] at key
    refine List.Perm.trans ?_ key
    have e1 : (A.filter fun a => p a && g a == q) =
        A.filter (fun a => (g a == q) && (p a && (q :: L).contains (g a))) := by
      apply List.filter_congr
      intro a _
      by_cases hg : g a = q
      · simp [hg]
      · have hb : (g a == q) = false := by simp [hg]
        simp [hb]
    have e2 : (A.filter fun a => p a && L.contains (g a)) =
        A.filter (fun a => (!(g a == q)) && (p a && (q :: L).contains (g a))) := by
      apply List.filter_congr
      intro a _
      by_cases hg : g a = q
      · subst hg; simp [hL.1]
      · have hb : (g a == q) = false := by simp [hg]
        simp [hb, hg]
    rw [e1, e2]

theorem perm_flatMap_filter' {α κ : Type} [DecidableEq κ] (A : List α) (L : List κ) (p : α → Bool)
    (g : α → κ) (hL : L.Nodup) (hcov : ∀ a ∈ A, p a = true → g a ∈ L) :
    (L.flatMap fun q => A.filter fun a => p a && g a == q).Perm (A.filter p) := by
  have := perm_flatMap_filter A L p g hL
  have e : (A.filter fun a => p a && L.contains (g a)) = A.filter p := by
    apply List.filter_congr
    intro a ha
    by_cases hp : p a = true
    · simp [hp, hcov a ha hp]
    · simp [hp]
  rwa [e] at this

theorem flatMap_congr' {α β : Type} (l : List α) (f g : α → List β) (h : ∀ a ∈ l, f a = g a) :
    l.flatMap f = l.flatMap g := by
  induction l with
  | nil => rfl
  | cons a l ih =>
    rw [List.flatMap_cons, List.flatMap_cons, h a List.mem_cons_self,
      ih (fun b hb => h b (List.mem_cons_of_mem _ hb))]

/-- the list stored under a name key, as a filter of `allEdges` -/
theorem edges_getD {s : Store} (he : EdgesP s) (k : Nat × Nat) :
    (alookup s.edges k).getD [] = s.allEdges.filter (fun e => (e.u, e.v) == k) :=
  (filter_key s.edges k he.keys he.own).symm

theorem outList (s : Store) (site : String) (he : EdgesP s) (ha : AdjP s) (hd : s.specs.directed = true)
    (x : Nat) :
    ∃ l, s.flatEdges site ((setOf s.succ x).map fun q => (x, q)) = .ok l ∧ l.Perm (s.abs.outEdges x) := by
  refine ⟨_, flatEdges_ok s site _ ?_, ?_⟩
  · intro k hk
    obtain ⟨q, hq, rfl⟩ := List.mem_map.1 hk
    have := (he.hasEdge_iff x q).1 ((ha.mem_succ he x q).1 hq)
    rwa [hd, nameKey_true] at this
  · rw [List.flatMap_map]
    have e : (setOf s.succ x).flatMap (fun q => (alookup s.edges (x, q)).getD []) =
        (setOf s.succ x).flatMap (fun q => s.allEdges.filter fun e => (e.u == x) && e.v == q) := by
      apply flatMap_congr'
      intro q _
      rw [edges_getD he]
      apply List.filter_congr
      intro e _
      rw [Bool.eq_iff_iff]; simp
    rw [e]
    apply perm_flatMap_filter' s.allEdges (setOf s.succ x) (fun e => e.u == x) (fun e => e.v)
    · exact setOf_nodup _ _ (fun kv hkv => (ha.succOk kv hkv).1)
    · intro e hmem hp
      simp only [beq_iff_eq] at hp
      rw [ha.mem_succ he, hasEdge_iff]
      exact ⟨e, hmem, by simp [joins, hp]⟩

theorem inList (s : Store) (site : String) (he : EdgesP s) (ha : AdjP s) (hd : s.specs.directed = true)
    (x : Nat) :
    ∃ l, s.flatEdges site ((setOf s.pred x).map fun p => (p, x)) = .ok l ∧ l.Perm (s.abs.inEdges x) := by
  refine ⟨_, flatEdges_ok s site _ ?_, ?_⟩
  · intro k hk
    obtain ⟨q, hq, rfl⟩ := List.mem_map.1 hk
    have := (he.hasEdge_iff q x).1 ((ha.mem_pred he x q).1 hq).2
    rwa [hd, nameKey_true] at this
  · rw [List.flatMap_map]
    have e : (setOf s.pred x).flatMap (fun q => (alookup s.edges (q, x)).getD []) =
        (setOf s.pred x).flatMap (fun q => s.allEdges.filter fun e => (e.v == x) && e.u == q) := by
      apply flatMap_congr'
      intro q _
      rw [edges_getD he]
      apply List.filter_congr
      intro e _
      rw [Bool.eq_iff_iff]; simp [and_comm]
    rw [e]
    apply perm_flatMap_filter' s.allEdges (setOf s.pred x) (fun e => e.v == x) (fun e => e.u)
    · exact setOf_nodup _ _ (fun kv hkv => (ha.predOk kv hkv).1)
    · intro e hmem hp
      simp only [beq_iff_eq] at hp
      rw [ha.mem_pred he, hasEdge_iff]
      exact ⟨hd, e, hmem, by simp [joins, hp]⟩

theorem joins_other (e : Edge) (x q : Nat) :
    joins false e x q = ((e.u == x || e.v == x) && (if e.u = x then e.v else e.u) == q) := by
  rw [Bool.eq_iff_iff]
  by_cases h1 : e.u = x
  · simp only [joins, h1, beq_self_eq_true, Bool.true_and, Bool.not_false, Bool.or_eq_true, beq_iff_eq,
      Bool.and_eq_true, Bool.true_or, if_true]
    constructor
    · rintro (h | ⟨h, h'⟩)
      · exact h
      · rw [h', h]
    · exact .inl
  · simp only [joins, Bool.not_false, Bool.true_and, Bool.or_eq_true, beq_iff_eq, Bool.and_eq_true,
      h1, false_and, false_or, if_false]
    exact and_comm

theorem touchList (s : Store) (site : String) (he : EdgesP s) (ha : AdjP s) (hd : s.specs.directed = false)
    (x : Nat) :
    ∃ l, s.flatEdges site ((setOf s.succ x).map fun q => nameKey false x q) = .ok l ∧
      l.Perm (s.abs.touching x) := by
  refine ⟨_, flatEdges_ok s site _ ?_, ?_⟩
  · intro k hk
    obtain ⟨q, hq, rfl⟩ := List.mem_map.1 hk
    have := (he.hasEdge_iff x q).1 ((ha.mem_succ he x q).1 hq)
    rwa [hd] at this
  · rw [List.flatMap_map]
    have e : (setOf s.succ x).flatMap (fun q => (alookup s.edges (nameKey false x q)).getD []) =
        (setOf s.succ x).flatMap (fun q => s.allEdges.filter fun e =>
          (e.u == x || e.v == x) && (if e.u = x then e.v else e.u) == q) := by
      apply flatMap_congr'
      intro q _
      have := between_eq he x q
      rw [hd] at this
      rw [← this]
      unfold Abs.between Store.abs
      apply List.filter_congr
      intro e _
      rw [sameKey_eq_joins, joins_other]
    rw [e]
    apply perm_flatMap_filter' s.allEdges (setOf s.succ x) (fun e => e.u == x || e.v == x)
      (fun e => if e.u = x then e.v else e.u)
    · exact setOf_nodup _ _ (fun kv hkv => (ha.succOk kv hkv).1)
    · intro e hmem hp
      rw [ha.mem_succ he, hasEdge_iff]
      refine ⟨e, hmem, ?_⟩
      rw [hd, joins_other, hp]
      simp

/-- an undirected graph has empty predecessor sets -/
theorem pred_empty (s : Store) (he : EdgesP s) (ha : AdjP s) (hd : s.specs.directed = false) (x : Nat) :
    setOf s.pred x = [] := by
  rw [List.eq_nil_iff_forall_not_mem]
  intro y hy
  have := ((ha.mem_pred he x y).1 hy).1
  rw [hd] at this
  cases this

end C02
end Graphrs
