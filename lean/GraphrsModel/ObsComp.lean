/-
  Line-protocol handler for the components family (C10).
-/
import GraphrsModel.ObsCen
import GraphrsModel.Model.Components
import GraphrsModel.Spec.Components
namespace Graphrs

def pSets (l : List (List Nat)) : String :=
  if l.isEmpty then "." else joinWith " " ((sortNatLists (l.map sortNat)).map fun c => if c.isEmpty then "_" else pNats c)
def pParts (l : List (List Nat)) : String :=
  if l.isEmpty then "." else joinWith " " (l.map fun c => if c.isEmpty then "_" else pNats c)

def P.sets : P (Int × List (List Nat)) := do
  let code ← P.next
  if code != 0 then return (code, [])
  let l ← P.listOf (P.listOf P.nat)
  pure (0, l)

def verdict (expectErr : Bool) (ans : Int × List (List Nat)) (chk : List (List Nat) → Option String) : String :=
  if expectErr then (if ans.1 == 12 then "1" else s!"expected-WrongMethod-got-{ans.1}")
  else if ans.1 != 0 then s!"unexpected-code-{ans.1}"
  else match chk ans.2 with | none => "1" | some c => c

/-- `comp <graph> <x> <k> [777777 cc wcc scc ncc(code,set) num(code,n) bfs eq]` -/
def handleComp : P String := do
  let (sp, nodes, edges) ← P.graph
  let x ← P.nat
  let k ← P.nat
  let rest ← get
  let (so, a) := buildBoth sp nodes edges
  match so with
  | .err e => set ([] : List Int); pure s!"m.build=E{e.code}"
  | .panic _ => set ([] : List Int); pure "m.build=P"
  | .ok s =>
    let m := [("build", "0"), ("cc", pOut pSets s.connectedComponents), ("wcc", pOut pSets s.weaklyConnectedComponents),
              ("scc", pOut pSets s.stronglyConnectedComponents),
              ("ncc", pOut (fun l => pSets [l]) (s.nodeConnectedComponent x)),
              ("num", pOut toString s.numberOfConnectedComponents),
              ("eq", pOut pParts (s.bfsEqualSizePartitions k))]
    match rest with
    | [] => pure (pFields "m." m)
    | _ => do
      let _ ← P.next
      let icc ← P.sets
      let iwcc ← P.sets
      let iscc ← P.sets
      let incc ← P.sets
      let inumCode ← P.next
      let inum ← P.nat
      let ibfs ← P.sets     -- one list per node, in node order (code 0)
      let ieq ← P.sets
      let nn := a.nodeNames
      let n := nn.length
      let dir := sp.directed
      let reachU := fun y => reachSet a.bothOf n y
      let reachD := fun y => reachSet a.succOf n y
      let relU := fun p q => (reachU p).contains q
      let relS := fun p q => (reachD p).contains q && (reachD q).contains p
      let bfsReach := fun y => if dir then reachD y else reachU y
      let sf := [
        ("ok.cc", verdict dir icc (checkPartitionBy nn relU)),
        ("ok.wcc", verdict (!dir) iwcc (checkPartitionBy nn relU)),
        ("ok.scc", verdict (!dir) iscc (checkPartitionBy nn relS)),
        ("ok.ncc",
          if dir then (if incc.1 == 12 || (incc.1 == 4 && !nn.contains x) then "1" else s!"expected-error-got-{incc.1}")
          else if !nn.contains x then (if incc.1 == 4 then "1" else s!"expected-NodeNotFound-got-{incc.1}")
          else if incc.1 != 0 then s!"unexpected-code-{incc.1}"
          else (match incc.2 with
                | [c] => if sortNat c == sortNat (reachU x) then "1" else "not-the-component"
                | _ => "shape")),
        ("ok.num",
          if dir then (if inumCode == 12 then "1" else s!"expected-WrongMethod-got-{inumCode}")
          else if inumCode != 0 then s!"unexpected-code-{inumCode}"
          else if inum == (dedup (nn.map fun y => sortNat (reachU y))).length then "1" else "count"),
        ("ok.bfs",
          if ibfs.2.length != n then "shape"
          else match (nn.zip ibfs.2).findSome? (fun p => (checkBfs (bfsReach p.1) p.1 p.2).map fun c => s!"{c}@{p.1}") with
               | some c => c | none => "1"),
        ("ok.eq", if k == 0 then "1" else verdict false ieq (checkEqualSize nn k)) ]
      -- exact order of every BFS list (F24: levels in name order)
      let order := match (nn.zip ibfs.2).find? (fun p => match s.breadthFirstSearchOrdered p.1 with | .ok l => l != p.2 | _ => true) with
        | some p => s!"order-differs@{p.1}"
        | none => "1"
      pure (pFields "m." (m ++ [("agree.bfsorder", order)]) ++ "|" ++ pFields "s." sf)

end Graphrs
