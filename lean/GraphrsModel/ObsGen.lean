/-
  Line-protocol handlers for the generator family (C16, C17): `complete`, `karate`, `gnp`.
-/
import GraphrsModel.ObsComm
import GraphrsModel.Model.Generators
import GraphrsModel.Generated.Karate
namespace Graphrs

def pPairs (l : List (Nat × Nat)) : String :=
  if l.isEmpty then "." else joinWith ";" ((msort pairLe l).map fun p => s!"{p.1},{p.2}")

def storeNE (s : Store) : List (String × String) :=
  [("nodes", if s.nodesVec.isEmpty then "." else pNats (s.nodesVec.map (·.name))),
   ("edges", pPairs (s.allEdges.map fun e => (e.u, e.v)))]

/-- the implementation's graph as tokens: code, nodes, edges (u v) -/
def P.implGraph : P (Int × List Nat × List (Nat × Nat)) := do
  let code ← P.next
  if code != 0 then return (code, [], [])
  let ns ← P.listOf P.nat
  let es ← P.listOf P.pair
  pure (0, ns, es)

def handleComplete : P String := do
  let n ← P.nat
  let directed ← P.bool
  let rest ← get
  let m := match completeGraph n directed with
    | .ok s => storeNE s
    | .err k => [("nodes", s!"E{k.code}")]
    | .panic _ => [("nodes", "P")]
  match rest with
  | [] => pure (pFields "m." m)
  | _ => do
    let _ ← P.next
    let (code, ns, es) ← P.implGraph
    -- exactly the nodes 0..n-1 and exactly one edge per unordered / ordered pair of distinct nodes
    let wantPairs := if directed then perms2 n else combos2 n
    let canon (p : Nat × Nat) : Nat × Nat := if directed || p.1 ≤ p.2 then p else (p.2, p.1)
    let ok :=
      if code != 0 then s!"unexpected-code-{code}"
      else if sortNat ns != List.range n then "nodes"
      else if es.length != wantPairs.length then "edge-count"
      else if msort pairLe (es.map canon) != msort pairLe wantPairs then "edge-set"
      else "1"
    pure (pFields "m." m ++ "|" ++ pFields "s." [("ok.complete", ok)])

def karateSpecs : Specs :=
  { directed := false, multi := false, selfLoops := false, dedupe := .keepLast, missing := .error, slFalse := .error }

/-- the model of `karate_club_graph` over the table extracted from the current source -/
def karateGraph : Outcome Store :=
  Store.newFrom karateSpecs ((List.range karateNodeCount).map fun i => ⟨i, none⟩)
    (karateRows.zipIdx.flatMap fun r => r.1.zipIdx.filterMap fun c => if c.1 == 1 then some (Edge.tuple r.2 c.2) else none)

def handleKarate : P String := do
  let rest ← get
  let m := match karateGraph with
    | .ok s => storeNE s
    | .err k => [("nodes", s!"E{k.code}")]
    | .panic _ => [("nodes", "P")]
  match rest with
  | [] => pure (pFields "m." m)
  | _ => do
    let _ ← P.next
    let (code, ns, es) ← P.implGraph
    let canon (p : Nat × Nat) : Nat × Nat := if p.1 ≤ p.2 then p else (p.2, p.1)
    let ces := msort pairLe (es.map canon)
    let ok :=
      if code != 0 then s!"unexpected-code-{code}"
      else if sortNat ns != List.range 34 then "not-34-nodes"
      else if es.length != 78 || !noAdjacentDup ces then "not-78-edges"
      else if es.any (fun p => p.1 == p.2) then "self-loop"
      else "1"
    pure (pFields "m." m ++ "|" ++ pFields "s." [("ok.karate", ok)])

/-- `gnp <n> <pnum> <pden> <directed> <seed> <skips> [777777 impl graph]` -/
def handleGnp : P String := do
  let n ← P.next
  let pnum ← P.next
  let pden ← P.nat
  let directed ← P.bool
  let _seed ← P.next
  let skips ← P.listOf P.next
  let rest ← get
  let pInvalid := pnum ≤ 0 || pnum ≥ (pden : Int)
  let m : List (String × String) :=
    if pInvalid then [("nodes", "E3"), ("edges", "E3")]
    else if n > 45 then [("nodes", "nomodel"), ("edges", "nomodel")]
    else match fastGnp n directed skips with
      | .ok (some s) => storeNE s
      | .ok none => [("nodes", "nomodel"), ("edges", "nomodel")]
      | .err k => [("nodes", s!"E{k.code}"), ("edges", s!"E{k.code}")]
      | .panic _ => [("nodes", "P"), ("edges", "P")]
  match rest with
  | [] => pure (pFields "m." m)
  | _ => do
    let _ ← P.next
    let (code, ns, es) ← P.implGraph
    let canon (p : Nat × Nat) : Nat × Nat := if directed || p.1 ≤ p.2 then p else (p.2, p.1)
    let ces := es.map canon
    let ok :=
      if pInvalid then (if code == 3 then "1" else s!"expected-InvalidArgument-got-{code}")
      else if code != 0 then s!"unexpected-code-{code}"
      else if sortNat ns != List.range n.toNat then "nodes"
      else if es.any (fun p => p.1 == p.2) then "self-loop"
      else if !noAdjacentDup (msort pairLe ces) then "repeated-pair"
      else if es.any (fun p => p.1 ≥ n.toNat || p.2 ≥ n.toNat) then "endpoint-out-of-range"
      else "1"
    pure (pFields "m." m ++ "|" ++ pFields "s." [("ok.gnp", ok)])

end Graphrs
