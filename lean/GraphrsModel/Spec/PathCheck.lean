/-
  The checker for one single-source answer (C04, C08).
-/
import GraphrsModel.Spec.Walk
namespace Graphrs

/-- Lexicographic canonical order of paths, for printing and set comparison. -/
def sortPaths (ps : List (List Nat)) : List (List Nat) := sortNatLists ps

def sameSet (a b : List (List Nat)) : Bool := sortPaths (dedup a) == sortPaths (dedup b)

/-! ## The checker for one single-source answer (C04, C08)

  `checkSingleSource` decides whether an answer (a list of `(target, distance, paths)`) is what
  the properties demand for the given options, using only `Abs.arcs`. -/

structure SPQuery where
  weighted : Bool
  source : Nat
  target : Option Nat
  cutoff2 : Option Int
  firstOnly : Bool
  withPaths : Bool

/-- Returns the name of the first violated clause, or `none`. `positive` = all costs > 0. -/
def checkSingleSource (nodes : List Nat) (arcs : Arcs) (q : SPQuery)
    (ans : List (Nat × Int × List (List Nat))) : Option String :=
  let n := nodes.length
  let d := Arcs.distFrom arcs n q.source
  let positive := arcs.all fun a => a.2.2 > 0
  let within (x : Int) : Bool := match q.cutoff2 with | none => true | some c => 2 * x ≤ c
  -- which targets must be reported
  let reachable := (d.filter fun kv => within kv.2).map (·.1)
  let keys := ans.map (·.1)
  -- the checker's own distances carry a certificate: closed under relaxation (and, by
  -- `C04_distFrom_witnessed`, every label is a walk cost), hence exact (`C04_certificate_exact`)
  if !isClosed arcs d then some "specification-certificate"
  else if keys.length != (dedup keys).length then some "duplicate-target"
  else if keys.any (fun k => !nodes.contains k) then some "unknown-target"
  else
    -- every reported node is reachable within the cutoff, with the exact distance
    let badDist := ans.any fun r => alookup d r.1 != some r.2.1 || !within r.2.1
    if badDist then some "distance"
    else
      -- completeness: without a target every reachable node (within the cutoff) is reported;
      -- with a target, the target is reported iff reachable (others: any subset)
      let complete := match q.target with
        | none => reachable.all keys.contains
        | some t => !reachable.contains t || keys.contains t
      if !complete then some "missing-node"
      else if !q.withPaths then
        (if ans.any (fun r => !r.2.2.isEmpty) then some "paths-not-empty" else none)
      else
        -- every returned path: starts at the source, ends at the target, follows arcs, weighs the distance
        let badPath := ans.any fun r => r.2.2.any fun p =>
          p.head? != some q.source || p.getLast? != some r.1 || Arcs.walkCost arcs p != some r.2.1
        if badPath then some "invalid-path"
        else
          -- every reported node is finalised, so its path list is complete even when the
          -- search stopped early at a target
          let relevant := ans
          if q.firstOnly then
            -- exactly one path per (relevant) reported node
            (if relevant.any (fun r => r.2.2.length != 1) then some "first-only-count" else none)
          else if positive then
            -- exactly the set of all shortest paths, each once
            let bad := relevant.any fun r =>
              r.2.2.length != (dedup r.2.2).length ||
              !sameSet r.2.2 (Arcs.tightPaths arcs d q.source n r.1)
            if bad then some "all-paths" else none
          else
            (if relevant.any (fun r => r.2.2.isEmpty) then some "no-path" else none)

end Graphrs
