/-
  Walks, distances and the distance *certificate* used by the shortest-path checker (C04, C08):
  a labelling that is closed under relaxation and whose labels are walk costs is exactly the
  shortest-distance function - whatever algorithm produced it.
-/
import GraphrsModel.Spec.Paths
namespace Graphrs

/-- `Walk arcs s t c`: there is a walk from `s` to `t` along arcs of total cost `c`. -/
inductive Walk (arcs : Arcs) : Nat → Nat → Int → Prop
  | nil (s : Nat) : Walk arcs s s 0
  | snoc {s u v : Nat} {c w : Int} : Walk arcs s u c → (u, v, w) ∈ arcs → Walk arcs s v (c + w)

/-- `d` is the length of a shortest walk from `s` to `t`. -/
def IsDist (arcs : Arcs) (s t : Nat) (d : Int) : Prop :=
  Walk arcs s t d ∧ ∀ c, Walk arcs s t c → d ≤ c

def Reachable (arcs : Arcs) (s t : Nat) : Prop := ∃ c, Walk arcs s t c

/-- The labelling is closed under relaxation: every arc out of a labelled node leads to a labelled
    node whose label is not larger than label + cost. Checked at run time by the Lean checker. -/
def isClosed (arcs : Arcs) (d : List (Nat × Int)) : Bool :=
  arcs.all fun a =>
    match alookup d a.1 with
    | none => true
    | some du =>
      match alookup d a.2.1 with
      | none => false
      | some dv => decide (dv ≤ du + a.2.2)

end Graphrs
