/-
  Definitions of betweenness and closeness centrality over the abstract graph (C05, C06) and
  the checker for an eigenvector-centrality answer (C18).
-/
import GraphrsModel.Spec.Paths
namespace Graphrs

def sumRat (l : List Rat) : Rat := l.foldl (· + ·) 0

/-- Betweenness by its definition: for every ordered pair (s, t), s ≠ v ≠ t, the fraction of
    shortest s-t paths (as node sequences) that pass through v; halved on undirected graphs when
    raw, divided by (n-1)(n-2) when normalized and n > 2. Hop counts or positive costs. -/
def bcSpec (nodes : List Nat) (arcs : Arcs) (directed normalized : Bool) : List (Nat × Rat) :=
  let n := nodes.length
  -- all shortest paths for every ordered pair s ≠ t with t reachable
  let pairPaths : List (List (List Nat)) := nodes.flatMap fun s =>
    let d := Arcs.distFrom arcs n s
    (d.filter fun kv => kv.1 != s).map fun kv => Arcs.tightPaths arcs d s n kv.1
  let raw (v : Nat) : Rat := sumRat (pairPaths.map fun ps =>
    match ps with
    | [] => 0
    | p :: _ =>
      if p.head? == some v || p.getLast? == some v then 0
      else ((ps.filter fun q => q.contains v).length : Rat) / (ps.length : Rat))
  let scale : Rat :=
    if normalized then (if n ≤ 2 then 1 else 1 / (((n : Rat) - 1) * ((n : Rat) - 2)))
    else if directed then 1 else 1 / 2
  nodes.map fun v => (v, raw v * scale)

/-- Closeness by its definition: (r-1) / Σ_{s reaches u} d(s, u), times (r-1)/(n-1) when
    `wf`; 0 when nothing else reaches u (incoming distances; `arcs` already has both
    directions for an undirected graph). -/
def ccSpec (nodes : List Nat) (arcs : Arcs) (wf : Bool) : List (Nat × Rat) :=
  let n := nodes.length
  let all : List (Nat × List (Nat × Int)) := nodes.map fun s => (s, Arcs.distFrom arcs n s)
  nodes.map fun u =>
    let ds : List Int := all.filterMap fun sd => alookup sd.2 u
    let r := ds.length
    let tot := sumInt ds
    if r ≤ 1 || tot == 0 then (u, 0)
    else
      let base : Rat := ((r - 1 : Nat) : Rat) / (tot : Rat)
      (u, if wf then base * (((r - 1 : Nat) : Rat) / ((n - 1 : Nat) : Rat)) else base)

/-! ## eigenvector centrality: checker of an `Ok` answer (C18) -/

def fsum' (l : List Float) : Float := l.foldl (· + ·) 0.0

/-- entries of A as (row name, column name, value): `a_uv` for every arc u → v (0/1 or the weight) -/
def adjEntries (arcs : Arcs) (weighted : Bool) : List (Nat × Nat × Float) :=
  arcs.map fun a => (a.1, a.2.1, if weighted then Float.ofInt a.2.2 else 1.0)

/-- Returns the first violated clause or `none`:
    keys are exactly the nodes; entries non-negative; Euclidean norm 1 (within 1e-9);
    one further step x -> normalise(x + A^T x) moves x by at most 2·‖I+A^T‖_F·n·tol (+1e-9) in L2. -/
def checkEigen (nodes : List Nat) (entries : List (Nat × Nat × Float)) (tol : Float)
    (x : List (Nat × Float)) : Option String :=
  let keys := x.map (·.1)
  if sortNat keys != sortNat nodes then some "keys"
  else if x.any (fun kv => kv.2 < 0.0 || kv.2 != kv.2) then some "negative-or-nan"
  else
    let n := nodes.length
    let norm := Float.sqrt (fsum' (x.map fun kv => kv.2 * kv.2))
    if n > 0 && Float.abs (norm - 1.0) > 1.0e-9 then some "unit-norm"
    else
      let get (k : Nat) : Float := (alookup x k).getD 0.0
      -- (x + A^T x)_v = x_v + Σ_u a_uv x_u
      let y := nodes.map fun v => (v, get v + fsum' ((entries.filter fun e => e.2.1 == v).map fun e => e.2.2 * get e.1))
      let ny := Float.sqrt (fsum' (y.map fun kv => kv.2 * kv.2))
      let ny := if ny == 0.0 then 1.0 else ny
      let moved := Float.sqrt (fsum' (y.map fun kv => (kv.2 / ny - get kv.1) * (kv.2 / ny - get kv.1)))
      -- ‖I + A^T‖_F² = Σ_v (1 + a_vv)² + Σ_{u≠v} a_uv²  (parallel arcs cannot occur: single-edge graphs)
      let diag (v : Nat) : Float := fsum' ((entries.filter fun e => e.1 == v && e.2.1 == v).map (·.2.2))
      let fro2 := fsum' (nodes.map fun v => (1.0 + diag v) * (1.0 + diag v)) +
                  fsum' ((entries.filter fun e => e.1 != e.2.1).map fun e => e.2.2 * e.2.2)
      let bound := 2.0 * Float.sqrt fro2 * Float.ofNat n * tol + 1.0e-9
      if moved > bound then some "next-step-bound" else none

end Graphrs
