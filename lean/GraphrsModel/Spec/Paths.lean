/-
  Specification vocabulary for shortest paths (C03, C04, C05, C06, C08): written over the
  abstract graph only (a weighted adjacency relation on names), independent of the model of
  the Rust algorithm.
-/
import GraphrsModel.Spec.Abs
namespace Graphrs

/-- A weighted adjacency relation on names: `(u, v, c)` means "one step u → v costs c". -/
abbrev Arcs := List (Nat × Nat × Int)

/-- The arcs an algorithm may use, read off the abstract graph alone: every stored edge in its
    stored direction, both directions when undirected; cost = weight, or 1 in hop-count mode.
    Edges with a NaN weight carry no arc in weighted mode. -/
def Abs.arcs (dir weighted : Bool) (a : Abs) : Arcs :=
  a.edges.flatMap fun e =>
    let c : Option Int := if weighted then e.w else some 1
    match c with
    | none => []
    | some c => if dir then [(e.u, e.v, c)] else [(e.u, e.v, c), (e.v, e.u, c)]

namespace Arcs

/-- One round of Bellman-Ford relaxation over all arcs. -/
def relaxRound (arcs : Arcs) (d : List (Nat × Int)) : List (Nat × Int) :=
  arcs.foldl (fun d arc =>
    match alookup d arc.1 with
    | none => d
    | some du =>
      let cand := du + arc.2.2
      match alookup d arc.2.1 with
      | none => ainsert d arc.2.1 cand
      | some dv => if cand < dv then ainsert d arc.2.1 cand else d) d

/-- Shortest distances from `s` (non-negative costs): `rounds` rounds of relaxation. -/
def distFrom (arcs : Arcs) (rounds : Nat) (s : Nat) : List (Nat × Int) :=
  (List.range rounds).foldl (fun d _ => relaxRound arcs d) [(s, 0)]

/-- Is `p` a walk along arcs, and what does it cost (cheapest parallel arc at every step)? -/
def walkCost (arcs : Arcs) : List Nat → Option Int
  | [] => none
  | [_] => some 0
  | x :: y :: rest =>
    let cs := (arcs.filter fun a => a.1 == x && a.2.1 == y).map (·.2.2)
    match cs with
    | [] => none
    | c :: cs' =>
      let best := cs'.foldl (fun m z => if z < m then z else m) c
      (walkCost arcs (y :: rest)).map (· + best)

/-- All shortest `s`→`t` walks as node sequences, by walking tight arcs backwards from `t`
    (`fuel` bounds the number of steps; with strictly positive costs a shortest walk has fewer
    than `n` arcs). -/
def tightPaths (arcs : Arcs) (d : List (Nat × Int)) (s : Nat) : Nat → Nat → List (List Nat)
  | 0, t => if t == s then [[s]] else []
  | fuel + 1, t =>
    if t == s then [[s]]
    else
      match alookup d t with
      | none => []
      | some dt =>
        let preds := dedup ((arcs.filter fun a =>
            a.2.1 == t && (match alookup d a.1 with | some dy => dy + a.2.2 == dt | none => false)).map (·.1))
        preds.flatMap fun y => (tightPaths arcs d s fuel y).map (· ++ [t])

end Arcs

/-- Lexicographic canonical order of paths, for printing and set comparison. -/
def sortPaths (ps : List (List Nat)) : List (List Nat) := sortNatLists ps

def sameSet (a b : List (List Nat)) : Bool := sortPaths (dedup a) == sortPaths (dedup b)

/-! ## The checker for one single-source answer (C04, C08)

  `checkSingleSource` decides whether an answer (a list of `(target, distance, paths)`) is what
  the properties demand for the given options, using only `Abs.arcs`. -/

structure SPQuery where
  weighted : Bool
  source : Nat
  target : Option Nat
  cutoff2 : Option Int
  firstOnly : Bool
  withPaths : Bool

/-- Returns the name of the first violated clause, or `none`. `positive` = all costs > 0. -/
def checkSingleSource (nodes : List Nat) (arcs : Arcs) (q : SPQuery)
    (ans : List (Nat × Int × List (List Nat))) : Option String :=
  let n := nodes.length
  let d := Arcs.distFrom arcs n q.source
  let positive := arcs.all fun a => a.2.2 > 0
  let within (x : Int) : Bool := match q.cutoff2 with | none => true | some c => 2 * x ≤ c
  -- which targets must be reported
  let reachable := (d.filter fun kv => within kv.2).map (·.1)
  let keys := ans.map (·.1)
  if keys.length != (dedup keys).length then some "duplicate-target"
  else if keys.any (fun k => !nodes.contains k) then some "unknown-target"
  else
    -- every reported node is reachable within the cutoff, with the exact distance
    let badDist := ans.any fun r => alookup d r.1 != some r.2.1 || !within r.2.1
    if badDist then some "distance"
    else
      -- completeness: without a target every reachable node (within the cutoff) is reported;
      -- with a target, the target is reported iff reachable (others: any subset)
      let complete := match q.target with
        | none => reachable.all keys.contains
        | some t => !reachable.contains t || keys.contains t
      if !complete then some "missing-node"
      else if !q.withPaths then
        (if ans.any (fun r => !r.2.2.isEmpty) then some "paths-not-empty" else none)
      else
        -- every returned path: starts at the source, ends at the target, follows arcs, weighs the distance
        let badPath := ans.any fun r => r.2.2.any fun p =>
          p.head? != some q.source || p.getLast? != some r.1 || Arcs.walkCost arcs p != some r.2.1
        if badPath then some "invalid-path"
        else
          -- every reported node is finalised, so its path list is complete even when the
          -- search stopped early at a target
          let relevant := ans
          if q.firstOnly then
            -- exactly one path per (relevant) reported node
            (if relevant.any (fun r => r.2.2.length != 1) then some "first-only-count" else none)
          else if positive then
            -- exactly the set of all shortest paths, each once
            let bad := relevant.any fun r =>
              r.2.2.length != (dedup r.2.2).length ||
              !sameSet r.2.2 (Arcs.tightPaths arcs d q.source n r.1)
            if bad then some "all-paths" else none
          else
            (if relevant.any (fun r => r.2.2.isEmpty) then some "no-path" else none)

end Graphrs
