/-
  Specification vocabulary for shortest paths (C03, C04, C05, C06, C08): written over the
  abstract graph only (a weighted adjacency relation on names), independent of the model of
  the Rust algorithm.
-/
import GraphrsModel.Spec.Abs
namespace Graphrs

/-- A weighted adjacency relation on names: `(u, v, c)` means "one step u → v costs c". -/
abbrev Arcs := List (Nat × Nat × Int)

/-- The arcs an algorithm may use, read off the abstract graph alone: every stored edge in its
    stored direction, both directions when undirected; cost = weight, or 1 in hop-count mode.
    Edges with a NaN weight carry no arc in weighted mode. -/
def Abs.arcs (dir weighted : Bool) (a : Abs) : Arcs :=
  a.edges.flatMap fun e =>
    let c : Option Int := if weighted then e.w else some 1
    match c with
    | none => []
    | some c => if dir then [(e.u, e.v, c)] else [(e.u, e.v, c), (e.v, e.u, c)]

namespace Arcs

/-- One round of Bellman-Ford relaxation over all arcs. -/
def relaxRound (arcs : Arcs) (d : List (Nat × Int)) : List (Nat × Int) :=
  arcs.foldl (fun d arc =>
    match alookup d arc.1 with
    | none => d
    | some du =>
      let cand := du + arc.2.2
      match alookup d arc.2.1 with
      | none => ainsert d arc.2.1 cand
      | some dv => if cand < dv then ainsert d arc.2.1 cand else d) d

/-- Shortest distances from `s` (non-negative costs): `rounds` rounds of relaxation. -/
def distFrom (arcs : Arcs) (rounds : Nat) (s : Nat) : List (Nat × Int) :=
  (List.range rounds).foldl (fun d _ => relaxRound arcs d) [(s, 0)]

/-- Is `p` a walk along arcs, and what does it cost (cheapest parallel arc at every step)? -/
def walkCost (arcs : Arcs) : List Nat → Option Int
  | [] => none
  | [_] => some 0
  | x :: y :: rest =>
    let cs := (arcs.filter fun a => a.1 == x && a.2.1 == y).map (·.2.2)
    match cs with
    | [] => none
    | c :: cs' =>
      let best := cs'.foldl (fun m z => if z < m then z else m) c
      (walkCost arcs (y :: rest)).map (· + best)

/-- All shortest `s`→`t` walks as node sequences, by walking tight arcs backwards from `t`
    (`fuel` bounds the number of steps; with strictly positive costs a shortest walk has fewer
    than `n` arcs). -/
def tightPaths (arcs : Arcs) (d : List (Nat × Int)) (s : Nat) : Nat → Nat → List (List Nat)
  | 0, t => if t == s then [[s]] else []
  | fuel + 1, t =>
    if t == s then [[s]]
    else
      match alookup d t with
      | none => []
      | some dt =>
        let preds := dedup ((arcs.filter fun a =>
            a.2.1 == t && (match alookup d a.1 with | some dy => dy + a.2.2 == dt | none => false)).map (·.1))
        preds.flatMap fun y => (tightPaths arcs d s fuel y).map (· ++ [t])

end Arcs

end Graphrs
