/-
  Specification of the component functions (C10): reachability over the abstract graph and the
  checker that a family of sets is *the* partition of the nodes by a given relation.
-/
import GraphrsModel.Spec.Abs
namespace Graphrs

/-- Nodes reachable from `x` (included) along `succ`, by iterating to a fixed point. -/
def reachFix (succ : Nat → List Nat) : Nat → List Nat → List Nat
  | 0, seen => seen
  | fuel + 1, seen =>
    let next := seen.foldl (fun acc y => sunion acc (succ y)) seen
    if next.length == seen.length then seen else reachFix succ fuel next

def reachSet (succ : Nat → List Nat) (n x : Nat) : List Nat := reachFix succ (n + 1) [x]

/-- successors / neighbours by name on the abstract graph -/
def Abs.succOf (a : Abs) (x : Nat) : List Nat := dedup ((a.edges.filter (·.u == x)).map (·.v))
def Abs.predOf (a : Abs) (x : Nat) : List Nat := dedup ((a.edges.filter (·.v == x)).map (·.u))
def Abs.bothOf (a : Abs) (x : Nat) : List Nat := dedup (a.succOf x ++ a.predOf x)

/-- Is `comps` the partition of `nodes` induced by `rel` (assumed an equivalence on `nodes`)?
    Sets non-empty, pairwise disjoint, covering every node exactly once, and two nodes share a
    set iff related. Returns the first violated clause. -/
def checkPartitionBy (nodes : List Nat) (rel : Nat → Nat → Bool) (comps : List (List Nat)) : Option String :=
  let flat := comps.flatMap id
  if comps.any List.isEmpty then some "empty-set"
  else if flat.length != (dedup flat).length then some "node-in-two-sets"
  else if sortNat flat != sortNat nodes then some "not-a-cover"
  else if comps.any (fun c => c.any fun x => c.any fun y => !rel x y) then some "unrelated-nodes-share-a-set"
  else
    let compOf (x : Nat) : Option (List Nat) := comps.find? (·.contains x)
    if nodes.any (fun x => nodes.any fun y => rel x y && (compOf x).map sortNat != (compOf y).map sortNat) then
      some "related-nodes-in-different-sets"
    else none

/-- checker for `bfs_equal_size_partitions(k)`: k parts, every node in exactly one, each of size ≤ n/k + 1 -/
def checkEqualSize (nodes : List Nat) (k : Nat) (parts : List (List Nat)) : Option String :=
  let flat := parts.flatMap id
  if parts.length != k then some "number-of-parts"
  else if sortNat flat != sortNat nodes then some "not-exactly-once"
  else if parts.any (fun p => p.length > nodes.length / k + 1) then some "part-too-large"
  else none

/-- checker for `breadth_first_search(x)`: x first, no repeats, exactly the reachable nodes -/
def checkBfs (reach : List Nat) (x : Nat) (out : List Nat) : Option String :=
  if out.head? != some x then some "start-not-first"
  else if out.length != (dedup out).length then some "repeated-node"
  else if sortNat out != sortNat reach then some "not-the-reachable-set"
  else none

end Graphrs
