/-
  The coupling invariant of the store (C01, C02, C03, C09, C15, C20): how the twelve private
  indexes of `struct Graph` relate to one another.  It is a *decidable* predicate (`Store.wf`),
  so the very definition the theorems are about is also evaluated by the driver on every state
  the correspondence runs reach.
-/
import GraphrsModel.Model.Query
import GraphrsModel.Spec.Abs
namespace Graphrs

def keysNodup {κ ν} [DecidableEq κ] (m : List (κ × ν)) : Bool := decide (m.map (·.1)).Nodup

/-- the key under which an edge between names `u`, `v` is stored in `edges` -/
def nameKey (dir : Bool) (u v : Nat) : Nat × Nat := if !dir && u > v then (v, u) else (u, v)
/-- the key under which an edge between positions `i`, `j` is stored in `edges_map` -/
def idxKey (dir : Bool) (i j : Nat) : Nat × Nat := if !dir && i > j then (j, i) else (i, j)

namespace Store

def names (s : Store) : List Nat := s.nodesVec.map (·.name)

/-- node indexes: names distinct; `nodes_map` is the index map of `nodes_vec`; `nodes_map_rev`
    is `nodes_vec` as a map; the adjacency vectors have one row per node; no panic site reached -/
def nodesOk (s : Store) : Bool :=
  let n := s.nodesVec.length
  decide s.names.Nodup && keysNodup s.nodesMap && keysNodup s.nodesMapRev &&
  s.nodesMap.all (fun kv => s.names[kv.2]? == some kv.1) &&
  s.names.zipIdx.all (fun p => alookup s.nodesMap p.1 == some p.2) &&
  s.nodesMapRev.all (fun kv => s.nodesVec[kv.1]? == some kv.2) &&
  (List.range n).all (fun i => alookup s.nodesMapRev i == s.nodesVec[i]?) &&
  s.succVec.length == n && s.predVec.length == n && s.poisoned.isNone

/-- edge stores: no empty list; every edge sits under its own key, in canonical orientation when
    undirected; endpoints are nodes; one edge per key unless multi-edge; no self-loop unless
    allowed; the position-keyed store holds the same lists as the name-keyed one -/
def edgesOk (s : Store) : Bool :=
  let n := s.nodesVec.length
  let dir := s.specs.directed
  keysNodup s.edges && keysNodup s.edgesMap &&
  s.edges.all (fun kv =>
    !kv.2.isEmpty && kv.2.all (fun e => (e.u, e.v) == kv.1) && (dir || kv.1.1 ≤ kv.1.2) &&
    s.names.contains kv.1.1 && s.names.contains kv.1.2 &&
    (s.specs.multi || kv.2.length == 1) && (s.specs.selfLoops || kv.1.1 != kv.1.2) &&
    (match alookup s.nodesMap kv.1.1, alookup s.nodesMap kv.1.2 with
     | some i, some j => alookup s.edgesMap (idxKey dir i j) == some kv.2
     | _, _ => false)) &&
  s.edgesMap.all (fun kv =>
    kv.1.1 < n && kv.1.2 < n && (dir || kv.1.1 ≤ kv.1.2) &&
    (match s.names[kv.1.1]?, s.names[kv.1.2]? with
     | some x, some y => alookup s.edges (nameKey dir x y) == some kv.2
     | _, _ => false))

/-- is there a stored edge from name `x` to name `y` (either orientation when undirected)? -/
def hasEdge (s : Store) (x y : Nat) : Bool :=
  s.allEdges.any fun e => (e.u == x && e.v == y) || (!s.specs.directed && e.u == y && e.v == x)

def setOf {κ} [DecidableEq κ] (m : List (κ × List Nat)) (k : κ) : List Nat := (alookup m k).getD []

/-- adjacency sets: `successors` / `successors_map` are the out-neighbour sets by name / by
    position (both directions when undirected); `predecessors*` the in-neighbour sets of a
    directed graph and empty for an undirected one -/
def adjOk (s : Store) : Bool :=
  let n := s.nodesVec.length
  let dir := s.specs.directed
  keysNodup s.succ && keysNodup s.pred && keysNodup s.succMap && keysNodup s.predMap &&
  s.succ.all (fun kv => decide kv.2.Nodup && s.names.contains kv.1 && kv.2.all s.names.contains) &&
  s.pred.all (fun kv => decide kv.2.Nodup && s.names.contains kv.1 && kv.2.all s.names.contains) &&
  s.succMap.all (fun kv => decide kv.2.Nodup && kv.1 < n && kv.2.all (· < n)) &&
  s.predMap.all (fun kv => decide kv.2.Nodup && kv.1 < n && kv.2.all (· < n)) &&
  (List.range n).all (fun i => acontains s.succMap i && acontains s.predMap i) &&
  s.names.all (fun x => s.names.all fun y =>
    ((setOf s.succ x).contains y == s.hasEdge x y) &&
    ((setOf s.pred x).contains y == (dir && s.hasEdge y x))) &&
  s.names.zipIdx.all (fun p => s.names.zipIdx.all fun q =>
    ((setOf s.succMap p.2).contains q.2 == (setOf s.succ p.1).contains q.1) &&
    ((setOf s.predMap p.2).contains q.2 == (setOf s.pred p.1).contains q.1))

/-- the weights of the stored edges from `x` to `y` (either orientation when undirected), in
    stored order -/
def weightsBetween (s : Store) (x y : Nat) : List W :=
  ((alookup s.edges (nameKey s.specs.directed x y)).getD []).map (·.w)

/-- traversal lists (C03): `j` is listed under `i` iff `j` is in the position-keyed neighbour
    set, every listed index is a node, and the minimum listed weight for `j` is the minimum weight
    of the stored edges between the two nodes -/
def vecOk (s : Store) : Bool :=
  let n := s.nodesVec.length
  let rowsOk (vec : List (List Adj)) (sets : List (Nat × List Nat)) (swap : Bool) : Bool :=
    vec.zipIdx.all fun r =>
      r.1.all (fun a => a.1 < n) &&
      (List.range n).all fun j =>
        (r.1.any (·.1 == j) == (setOf sets r.2).contains j) &&
        (!(r.1.any (·.1 == j)) ||
          (match s.names[r.2]?, s.names[j]? with
           | some x, some y =>
             Abs.minW ((r.1.filter (·.1 == j)).map (·.2)) ==
               Abs.minW (if swap then s.weightsBetween y x else s.weightsBetween x y)
           | _, _ => false))
  rowsOk s.succVec s.succMap false && rowsOk s.predVec s.predMap true

/-- entry-level strengthening of `vecOk` (C03), part 1: a traversal list names each neighbour at most once - except
    that an undirected self-loop is listed twice in its own row (`add_edge` updates both "directions" of the pair,
    which are the same row). Together with `vecOk` this pins every such entry: its weight is the minimum stored
    weight between the two nodes (`C03_entry_exact`). Kept apart from `wf`: an invariant of the reachable stores,
    proved in Props/C03Rows. -/
def rowsNodup (s : Store) : Bool :=
  let ok (vec : List (List Adj)) : Bool :=
    vec.zipIdx.all fun r => decide ((r.1.filter (fun a => s.specs.directed || a.1 != r.2)).map (·.1)).Nodup
  ok s.succVec && ok s.predVec

/-- part 2: every entry (the doubled self-loop entries included) carries the weight of some edge stored between the
    two nodes -/
def entriesStored (s : Store) : Bool :=
  let ok (vec : List (List Adj)) (swap : Bool) : Bool :=
    vec.zipIdx.all fun r => r.1.all fun a =>
      match s.names[r.2]?, s.names[a.1]? with
      | some x, some y => (if swap then s.weightsBetween y x else s.weightsBetween x y).contains a.2
      | _, _ => false
  ok s.succVec false && ok s.predVec true

/-- the whole coupling invariant -/
def wf (s : Store) : Bool := s.nodesOk && s.edgesOk && s.adjOk && s.vecOk

end Store
end Graphrs
