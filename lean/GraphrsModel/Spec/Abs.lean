/-
  The abstract graph all store-level properties (C01, C02, C03, C09, C15) talk about:
  a node list and an edge list, and the abstract machine that the statement of C01 describes.
  Written from the property statements, not from the code.
-/
import GraphrsModel.Model.Store
namespace Graphrs

/-- Nodes in insertion order; edges in insertion order (a replaced edge keeps its place),
    undirected edges stored with `u ≤ v` by name. -/
structure Abs where
  nodes : List Node := []
  edges : List Edge := []
  deriving Repr, Inhabited, DecidableEq

namespace Abs

def hasNode (a : Abs) (name : Nat) : Bool := a.nodes.any (·.name == name)

/-- Re-adding an existing node replaces its attributes and keeps its position. -/
def addNode (a : Abs) (n : Node) : Abs :=
  if a.hasNode n.name then { a with nodes := a.nodes.map fun m => if m.name == n.name then n else m }
  else { a with nodes := a.nodes ++ [n] }

def addNodes (a : Abs) (ns : List Node) : Abs := ns.foldl addNode a

/-- Do the stored edge `e` and the pair `(u, v)` have the same endpoints
    (in either orientation when undirected)? -/
def sameKey (directed : Bool) (e : Edge) (u v : Nat) : Bool :=
  (e.u == u && e.v == v) || (!directed && e.u == v && e.v == u)

/-- The stored orientation of an edge. -/
def canon (directed : Bool) (e : Edge) : Edge := if directed then e else e.ordered

/-- `add_edge` as the statement of C01 describes it. -/
def addEdge (sp : Specs) (a : Abs) (e : Edge) : Abs × Option ErrKind :=
  if !sp.selfLoops && e.u == e.v then
    match sp.slFalse with
    | .error => (a, some .SelfLoopsFound)
    | .drop => (a, none)
  else if sp.missing == .error && (!a.hasNode e.u || !a.hasNode e.v) then
    (a, some .NodeNotFound)
  else
    -- unknown endpoints are created, source first
    let a1 := if a.hasNode e.u then a else a.addNode ⟨e.u, none⟩
    let a2 := if a1.hasNode e.v then a1 else a1.addNode ⟨e.v, none⟩
    let dup := a2.edges.any fun e' => sameKey sp.directed e' e.u e.v
    if sp.multi || !dup then
      ({ a2 with edges := a2.edges ++ [canon sp.directed e] }, none)
    else
      match sp.dedupe with
      | .error => (a, some .DuplicateEdge)
      | .keepFirst => (a2, none)
      | .keepLast =>
        ({ a2 with edges := a2.edges.map fun e' =>
            if sameKey sp.directed e' e.u e.v then canon sp.directed e else e' }, none)

/-- A batch applies exactly the prefix that precedes the first failing edge. -/
def addEdges (sp : Specs) (a : Abs) : List Edge → Abs × Option ErrKind
  | [] => (a, none)
  | e :: es =>
    match addEdge sp a e with
    | (a', none) => addEdges sp a' es
    | (a', some k) => (a', some k)

def step (sp : Specs) (a : Abs) : Op → Abs × Option ErrKind
  | .addNode n => (a.addNode n, none)
  | .addNodes ns => (a.addNodes ns, none)
  | .addEdge e => addEdge sp a e
  | .addEdgeTuple u v => addEdge sp a (Edge.tuple u v)
  | .addEdges es => addEdges sp a es
  | .addEdgeTuples es => addEdges sp a (es.map fun p => Edge.tuple p.1 p.2)
  | .newFrom ns es =>
    match addEdges sp (({} : Abs).addNodes ns) es with
    | (a', none) => (a', none)
    | (_, some k) => (a, some k)

def run (sp : Specs) (ops : List Op) : Abs × List (Option ErrKind) :=
  ops.foldl (fun (acc : Abs × List (Option ErrKind)) op =>
    let (a', r) := step sp acc.1 op
    (a', acc.2 ++ [r])) ({}, [])

/-! ## Abstract answers of the read API (DESIGN.md appendix A) -/

def nodeNames (a : Abs) : List Nat := a.nodes.map (·.name)
def getNode (a : Abs) (x : Nat) : Option Node := a.nodes.find? (·.name == x)
def indexOf (a : Abs) (x : Nat) : Option Nat :=
  let i := a.nodes.findIdx (·.name == x)
  if i < a.nodes.length then some i else none

/-- All stored edges between `u` and `v`, in insertion order. -/
def between (dir : Bool) (a : Abs) (u v : Nat) : List Edge := a.edges.filter fun e => sameKey dir e u v
def outEdges (a : Abs) (x : Nat) : List Edge := a.edges.filter (·.u == x)
def inEdges (a : Abs) (x : Nat) : List Edge := a.edges.filter (·.v == x)
def touching (a : Abs) (x : Nat) : List Edge := a.edges.filter fun e => e.u == x || e.v == x

/-- The edges reported for one node: in ⊎ out on a directed graph (a self-loop is in both),
    the touching edges on an undirected one. -/
def edgesForNode (dir : Bool) (a : Abs) (x : Nat) : List Edge :=
  if dir then a.inEdges x ++ a.outEdges x else a.touching x

def succ (dir : Bool) (a : Abs) (x : Nat) : List Nat :=
  dedup ((a.edges.filter (·.u == x)).map (·.v) ++
    (if dir then [] else (a.edges.filter (·.v == x)).map (·.u)))
def pred (dir : Bool) (a : Abs) (x : Nat) : List Nat :=
  if dir then dedup ((a.edges.filter (·.v == x)).map (·.u)) else []
def nbrs (dir : Bool) (a : Abs) (x : Nat) : List Nat := dedup (a.succ dir x ++ a.pred dir x)

/-- Nodes reachable from `x` along `succ` (`x` included), by iterating to a fixed point. -/
def reachFrom (dir : Bool) (a : Abs) : Nat → List Nat → List Nat
  | 0, seen => seen
  | fuel + 1, seen =>
    let next := seen.foldl (fun acc y => sunion acc (a.succ dir y)) seen
    if next.length == seen.length then seen else reachFrom dir a fuel next
def reach (dir : Bool) (a : Abs) (x : Nat) : List Nat := reachFrom dir a (a.nodes.length + 1) [x]

def degree (dir : Bool) (a : Abs) (x : Nat) : Nat :=
  if dir then (a.inEdges x).length + (a.outEdges x).length
  else (a.touching x).length + (a.edges.filter fun e => e.u == x && e.v == x).length

def sumW (es : List Edge) : W := es.foldl (fun acc e => W.add acc e.w) (some 0)

def weightedDegree (dir : Bool) (a : Abs) (x : Nat) : W :=
  if dir then W.add (sumW (a.inEdges x)) (sumW (a.outEdges x))
  else W.add (sumW (a.touching x)) (sumW (a.edges.filter fun e => e.u == x && e.v == x))

/-- Minimum of a non-empty list of weights under the `f64` `<` the code uses
    (`none` when the list is empty). -/
def minW : List W → Option W
  | [] => none
  | w :: ws => some (ws.foldl (fun m x => if W.lt x m then x else m) w)

/-! ### derived graphs (C15) -/
def subgraph (a : Abs) (S : List Nat) : Abs :=
  { nodes := a.nodes.filter fun n => S.contains n.name
    edges := a.edges.filter fun e => S.contains e.u && S.contains e.v }
def reverse (a : Abs) : Abs := { a with edges := a.edges.map Edge.reversed }
def setWeights (a : Abs) (w : W) : Abs := { a with edges := a.edges.map fun e => { e with w := w } }
/-- the distinct (stored) keys in first-occurrence order -/
def keys (a : Abs) : List (Nat × Nat) := dedup (a.edges.map fun e => (e.u, e.v))
def toSingle (a : Abs) : Abs :=
  { a with edges := a.keys.map fun k =>
      ⟨k.1, k.2, sumW (a.edges.filter fun e => e.u == k.1 && e.v == k.2), none⟩ }

end Abs

/-- The abstraction of a concrete store: its node vector and its name-keyed edge lists. -/
def Store.abs (s : Store) : Abs := { nodes := s.nodesVec, edges := s.allEdges }

end Graphrs
