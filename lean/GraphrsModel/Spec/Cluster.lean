/-
  Definitions of the clustering quantities (C11) over the abstract graph.
  Self-loops never count: `N v` never contains `v`.
-/
import GraphrsModel.Spec.Components
import GraphrsModel.CScalar
namespace Graphrs
namespace Abs

/-- undirected neighbours of `v`, without `v` -/
def N (a : Abs) (v : Nat) : List Nat := (a.bothOf v).filter (· != v)
def adjacent (a : Abs) (u w : Nat) : Bool := u != w && (a.N u).contains w

def pairs {α} : List α → List (α × α)
  | [] => []
  | x :: xs => xs.map (fun y => (x, y)) ++ pairs xs

/-- number of triangles through `v`: adjacent pairs among its neighbours -/
def trianglesAt (a : Abs) (v : Nat) : Nat := ((pairs (a.N v)).filter fun p => a.adjacent p.1 p.2).length

def clusteringAt (a : Abs) (v : Nat) : Rat :=
  let d := (a.N v).length
  if d < 2 then 0 else (a.trianglesAt v : Rat) / ((d * (d - 1) / 2 : Nat) : Rat)

/-- 3 × triangles / connected triples -/
def transitivitySpec (a : Abs) : Rat :=
  let t := sumNat (a.nodeNames.map a.trianglesAt)            -- = 3 × number of triangles
  let triples := sumNat (a.nodeNames.map fun v => let d := (a.N v).length; d * (d - 1) / 2)
  if t == 0 then 0 else (t : Rat) / (triples : Rat)

/-- histogram, over the edges (v, w) at v, of the number of triangles containing that edge -/
def generalizedDegreeAt (a : Abs) (v : Nat) : List (Nat × Nat) :=
  let counts := (a.N v).map fun w => ((a.N v).filter fun k => a.adjacent w k).length
  (dedup counts).map fun k => (k, (counts.filter (· == k)).length)

/-- square clustering (Lind et al. / Zhang et al.): Σ q_v(u,w) / Σ [a_v(u,w) + q_v(u,w)] over
    pairs u < w of neighbours of v -/
def squareAt (a : Abs) (v : Nat) : Rat :=
  let terms := (pairs (a.N v)).map fun p =>
    let q : Int := (((a.N p.1).filter fun k => (a.N p.2).contains k && k != v).length : Nat)
    let th : Int := if a.adjacent p.1 p.2 then 1 else 0
    let av : Int := (((a.N p.1).length : Nat) - (1 + q + th)) + (((a.N p.2).length : Nat) - (1 + q + th))
    (q, av + q)
  let num := sumInt (terms.map (·.1))
  let den := sumInt (terms.map (·.2))
  if den > 0 then (num : Rat) / (den : Rat) else (num : Rat)

/-! directed (Fagiolo) -/
def arc (a : Abs) (u v : Nat) : Nat := if u != v && (a.succOf u).contains v then 1 else 0
def sym (a : Abs) (u v : Nat) : Nat := a.arc u v + a.arc v u

def fagioloAt (a : Abs) (v : Nat) : Rat :=
  let ns := a.nodeNames
  let t := sumNat (ns.flatMap fun j => ns.map fun k => a.sym v j * a.sym j k * a.sym k v)
  let dtot := sumNat (ns.map fun j => a.sym v j)
  let dbi := sumNat (ns.map fun j => a.arc v j * a.arc j v)
  if t == 0 then 0 else (t : Rat) / (2 * (((dtot : Rat) * ((dtot : Rat) - 1)) - 2 * (dbi : Rat)))

/-! weighted (geometric mean of max-normalised weights): written once over the scalar record `CScalar` of
    Model/Cluster.lean (only the record of arithmetic operations is shared with the model), read at `Float` by the
    driver and at `ℝ` by Props/C11Weighted.lean -/
def weightOfG {α} (S : CScalar α) (a : Abs) (dir : Bool) (u v : Nat) : α :=
  match a.edges.find? (fun e => sameKey dir e u v) with
  | some ⟨_, _, some w, _⟩ => S.ofInt w
  | _ => S.zero
def maxWG {α} (S : CScalar α) (a : Abs) : α :=
  match a.edges.filterMap (fun e => e.w) with
  | [] => S.one
  | w :: ws => S.ofInt (ws.foldl max w)
def ssumG {α} (S : CScalar α) (l : List α) : α := l.foldl S.add S.zero

/-- undirected: (1/(d(d-1))) Σ over ordered pairs (u,w) of adjacent neighbours of cbrt(ŵ_vu ŵ_uw ŵ_wv) -/
def weightedClusteringAtG {α} (S : CScalar α) (a : Abs) (v : Nat) : α :=
  let m := a.maxWG S
  let nb := a.N v
  let d := S.ofNat nb.length
  let t := ssumG S (nb.flatMap fun u => (nb.filter fun w => a.adjacent u w).map fun w =>
    S.mul (S.mul (S.cbrt (S.div (a.weightOfG S false v u) m)) (S.cbrt (S.div (a.weightOfG S false u w) m)))
      (S.cbrt (S.div (a.weightOfG S false w v) m)))
  if S.isZero t then S.zero else S.div t (S.mul d (S.sub d S.one))

/-- directed: T = [(Ŵ^[1/3] + (Ŵ^T)^[1/3])^3]_vv over the same normalisation as the unweighted form -/
def weightedFagioloAtG {α} (S : CScalar α) (a : Abs) (v : Nat) : α :=
  let m := a.maxWG S
  let ns := a.nodeNames
  let s (u w : Nat) : α :=
    S.add (if a.arc u w == 1 then S.cbrt (S.div (a.weightOfG S true u w) m) else S.zero)
      (if a.arc w u == 1 then S.cbrt (S.div (a.weightOfG S true w u) m) else S.zero)
  let t := ssumG S (ns.flatMap fun j => ns.map fun k => S.mul (S.mul (s v j) (s j k)) (s k v))
  let dtot := S.ofNat (sumNat (ns.map fun j => a.sym v j))
  let dbi := S.ofNat (sumNat (ns.map fun j => a.arc v j * a.arc j v))
  if S.isZero t then S.zero else S.div t (S.mul S.two (S.sub (S.mul dtot (S.sub dtot S.one)) (S.mul S.two dbi)))

/-! the `Float` instances (what the driver compares with the implementation) -/
def weightOf (a : Abs) (dir : Bool) (u v : Nat) : Float := a.weightOfG floatCScalar dir u v
def maxW (a : Abs) : Float := a.maxWG floatCScalar
def fsumS (l : List Float) : Float := ssumG floatCScalar l
def weightedClusteringAt (a : Abs) (v : Nat) : Float := a.weightedClusteringAtG floatCScalar v
def weightedFagioloAt (a : Abs) (v : Nat) : Float := a.weightedFagioloAtG floatCScalar v

end Abs
end Graphrs
