/-
  Definitions of the clustering quantities (C11) over the abstract graph.
  Self-loops never count: `N v` never contains `v`.
-/
import GraphrsModel.Spec.Components
namespace Graphrs
namespace Abs

/-- undirected neighbours of `v`, without `v` -/
def N (a : Abs) (v : Nat) : List Nat := (a.bothOf v).filter (· != v)
def adjacent (a : Abs) (u w : Nat) : Bool := u != w && (a.N u).contains w

def pairs {α} : List α → List (α × α)
  | [] => []
  | x :: xs => xs.map (fun y => (x, y)) ++ pairs xs

/-- number of triangles through `v`: adjacent pairs among its neighbours -/
def trianglesAt (a : Abs) (v : Nat) : Nat := ((pairs (a.N v)).filter fun p => a.adjacent p.1 p.2).length

def clusteringAt (a : Abs) (v : Nat) : Rat :=
  let d := (a.N v).length
  if d < 2 then 0 else (a.trianglesAt v : Rat) / ((d * (d - 1) / 2 : Nat) : Rat)

/-- 3 × triangles / connected triples -/
def transitivitySpec (a : Abs) : Rat :=
  let t := sumNat (a.nodeNames.map a.trianglesAt)            -- = 3 × number of triangles
  let triples := sumNat (a.nodeNames.map fun v => let d := (a.N v).length; d * (d - 1) / 2)
  if t == 0 then 0 else (t : Rat) / (triples : Rat)

/-- histogram, over the edges (v, w) at v, of the number of triangles containing that edge -/
def generalizedDegreeAt (a : Abs) (v : Nat) : List (Nat × Nat) :=
  let counts := (a.N v).map fun w => ((a.N v).filter fun k => a.adjacent w k).length
  (dedup counts).map fun k => (k, (counts.filter (· == k)).length)

/-- square clustering (Lind et al. / Zhang et al.): Σ q_v(u,w) / Σ [a_v(u,w) + q_v(u,w)] over
    pairs u < w of neighbours of v -/
def squareAt (a : Abs) (v : Nat) : Rat :=
  let terms := (pairs (a.N v)).map fun p =>
    let q : Int := (((a.N p.1).filter fun k => (a.N p.2).contains k && k != v).length : Nat)
    let th : Int := if a.adjacent p.1 p.2 then 1 else 0
    let av : Int := (((a.N p.1).length : Nat) - (1 + q + th)) + (((a.N p.2).length : Nat) - (1 + q + th))
    (q, av + q)
  let num := sumInt (terms.map (·.1))
  let den := sumInt (terms.map (·.2))
  if den > 0 then (num : Rat) / (den : Rat) else (num : Rat)

/-! directed (Fagiolo) -/
def arc (a : Abs) (u v : Nat) : Nat := if u != v && (a.succOf u).contains v then 1 else 0
def sym (a : Abs) (u v : Nat) : Nat := a.arc u v + a.arc v u

def fagioloAt (a : Abs) (v : Nat) : Rat :=
  let ns := a.nodeNames
  let t := sumNat (ns.flatMap fun j => ns.map fun k => a.sym v j * a.sym j k * a.sym k v)
  let dtot := sumNat (ns.map fun j => a.sym v j)
  let dbi := sumNat (ns.map fun j => a.arc v j * a.arc j v)
  if t == 0 then 0 else (t : Rat) / (2 * (((dtot : Rat) * ((dtot : Rat) - 1)) - 2 * (dbi : Rat)))

/-! weighted (geometric mean of max-normalised weights), over Float -/
def weightOf (a : Abs) (dir : Bool) (u v : Nat) : Float :=
  match a.edges.find? (fun e => sameKey dir e u v) with
  | some ⟨_, _, some w, _⟩ => Float.ofInt w
  | _ => 0.0
def maxW (a : Abs) : Float :=
  match a.edges.filterMap (fun e => e.w) with
  | [] => 1.0
  | w :: ws => Float.ofInt (ws.foldl max w)
def fsumS (l : List Float) : Float := l.foldl (· + ·) 0.0

/-- undirected: (1/(d(d-1))) Σ over ordered pairs (u,w) of adjacent neighbours of cbrt(ŵ_vu ŵ_uw ŵ_wv) -/
def weightedClusteringAt (a : Abs) (v : Nat) : Float :=
  let m := a.maxW
  let nb := a.N v
  let d := Float.ofNat nb.length
  let t := fsumS (nb.flatMap fun u => (nb.filter fun w => a.adjacent u w).map fun w =>
    Float.cbrt (a.weightOf false v u / m) * Float.cbrt (a.weightOf false u w / m) * Float.cbrt (a.weightOf false w v / m))
  if t == 0.0 then 0.0 else t / (d * (d - 1.0))

/-- directed: T = [(Ŵ^[1/3] + (Ŵ^T)^[1/3])^3]_vv over the same normalisation as the unweighted form -/
def weightedFagioloAt (a : Abs) (v : Nat) : Float :=
  let m := a.maxW
  let ns := a.nodeNames
  let s (u w : Nat) : Float :=
    (if a.arc u w == 1 then Float.cbrt (a.weightOf true u w / m) else 0.0) +
    (if a.arc w u == 1 then Float.cbrt (a.weightOf true w u / m) else 0.0)
  let t := fsumS (ns.flatMap fun j => ns.map fun k => s v j * s j k * s k v)
  let dtot := Float.ofNat (sumNat (ns.map fun j => a.sym v j))
  let dbi := Float.ofNat (sumNat (ns.map fun j => a.arc v j * a.arc j v))
  if t == 0.0 then 0.0 else t / (2.0 * (dtot * (dtot - 1.0) - 2.0 * dbi))

end Abs
end Graphrs
