/-
  Canonical textual observations of a graph through its read API.  The same field list is
  produced (a) by the concrete model `Store`, (b) by the abstract specification `Abs`, and
  (c) by the Rust harness from the real implementation; tools/check.py compares them field
  by field.  Everything that comes out of a hash container is sorted here.
-/
import GraphrsModel.Model.Query
import GraphrsModel.Spec.Abs
namespace Graphrs

def pW : W → String | none => "n" | some x => toString x
def pOptNat : Option Nat → String | none => "-" | some x => toString x
def pEdge (e : Edge) : String := s!"{e.u},{e.v},{pW e.w},{pOptNat e.attr}"
def pNode (n : Node) : String := s!"{n.name}:{pOptNat n.attr}"
def joinWith (sep : String) (l : List String) : String := sep.intercalate l
def pNats (l : List Nat) : String := joinWith "," (l.map toString)
def pRat (q : Rat) : String := s!"{q.num}/{q.den}"

/-- An outcome whose error may be any one of several acceptable kinds (the specification does
    not order a kind error and an absence error when both apply). -/
inductive SOutcome (α : Type) where
  | ok (a : α)
  | errs (ks : List ErrKind)
  | panic

def SOutcome.ofOutcome {α} : Outcome α → SOutcome α
  | .ok a => .ok a | .err k => .errs [k] | .panic _ => .panic

def pS {α} (f : α → String) : SOutcome α → String
  | .ok a => f a
  | .errs ks => "E" ++ joinWith "/" (ks.map fun k => toString k.code)
  | .panic => "P"

def edgeKeyLe (a b : Edge) : Bool := a.u < b.u || (a.u == b.u && a.v ≤ b.v)
/-- canonical edge list: stable sort by the (u, v) key, parallel edges keep their stored order -/
def canonEdges (es : List Edge) : List Edge := isort edgeKeyLe es
def pEdges (es : List Edge) : String :=
  if es.isEmpty then "." else joinWith ";" ((canonEdges es).map pEdge)
def pNames (l : List Nat) : String := if l.isEmpty then "." else pNats (sortNat l)
def pNodesSorted (l : List Node) : String := pNames (l.map (·.name))

/-- Subsets of the universe, by bitmask. -/
def subsets (u : List Nat) : List (List Nat) :=
  (List.range (2 ^ u.length)).map fun mask =>
    (u.zipIdx.filter fun p => (mask >>> p.2) % 2 == 1).map (·.1)

/-- node lists that name a node more than once -/
def duplists (u : List Nat) : List (List Nat) :=
  match u with
  | [] => []
  | x :: _ => [[x, x], u ++ [x], u.reverse ++ u]

/-- The read API as a record, so that one printer serves model and specification. -/
structure QApi where
  directed : Bool
  multi : Bool
  nodes : List Node
  allEdges : List Edge
  getNode : Nat → Option Node
  idx : Nat → Option Nat
  byIdx : Nat → Option Node
  hasNodes : List Nat → Bool
  getEdge : Nat → Nat → SOutcome Edge
  getEdges : Nat → Nat → SOutcome (List Edge)
  edgesForNode : Nat → SOutcome (List Edge)
  edgesForNodes : List Nat → SOutcome (List Edge)
  inEdgesForNode : Nat → SOutcome (List Edge)
  inEdgesForNodes : List Nat → SOutcome (List Edge)
  outEdgesForNode : Nat → SOutcome (List Edge)
  outEdgesForNodes : List Nat → SOutcome (List Edge)
  neighborNodes : Nat → SOutcome (List Nat)
  successorNodes : Nat → SOutcome (List Nat)
  predecessorNodes : Nat → SOutcome (List Nat)
  succOrNbrs : Nat → SOutcome (List Nat)
  succMap : List (Nat × List Nat)
  predMap : List (Nat × List Nat)
  bfs : Nat → SOutcome (List Nat)
  edgesHaveWeight : Bool
  -- C03: per position, the traversal neighbours with the weight used
  travSucc : List (List (Nat × W))
  travPred : List (List (Nat × W))
  -- C09
  numNodes : Nat
  numEdges : Nat
  sizeU : Nat
  sizeW : W
  degree : Nat → Option Nat
  inDegree : Nat → Option Nat
  outDegree : Nat → Option Nat
  wDegree : Nat → Option W
  wInDegree : Nat → Option W
  wOutDegree : Nat → Option W
  degreeAll : SOutcome (List (Nat × Nat))
  inDegreeAll : SOutcome (List (Nat × Nat))
  outDegreeAll : SOutcome (List (Nat × Nat))
  wDegreeAll : SOutcome (List (Nat × W))
  wInDegreeAll : SOutcome (List (Nat × W))
  wOutDegreeAll : SOutcome (List (Nat × W))
  density : Option Rat
  degreeCentrality : SOutcome (List (Nat × Rat))
  triplets : SOutcome (List (Nat × Nat × Int))

def pairLe (a b : Nat × Nat) : Bool := a.1 < b.1 || (a.1 == b.1 && a.2 ≤ b.2)
def pMapSets (m : List (Nat × List Nat)) : String :=
  if m.isEmpty then "." else
  joinWith ";" ((isort (fun a b => decide (a.1 ≤ b.1)) m).map fun kv => s!"{kv.1}>{pNames kv.2}")
def pMapWith {α} (f : α → String) (m : List (Nat × α)) : String :=
  if m.isEmpty then "." else
  joinWith ";" ((isort (fun a b => decide (a.1 ≤ b.1)) m).map fun kv => s!"{kv.1}>{f kv.2}")

def wLe : W → W → Bool
  | none, _ => true
  | some _, none => false
  | some a, some b => decide (a ≤ b)
def adjLe (a b : Nat × W) : Bool := a.1 < b.1 || (a.1 == b.1 && wLe a.2 b.2)
def pAdjRow (row : List (Nat × W)) : String :=
  if row.isEmpty then "." else joinWith "," ((isort adjLe row).map fun a => s!"{a.1}:{pW a.2}")
def pAdj (rows : List (List (Nat × W))) : String :=
  if rows.isEmpty then "." else joinWith ";" (rows.map pAdjRow)

def tripLe (a b : Nat × Nat × Int) : Bool :=
  a.1 < b.1 || (a.1 == b.1 && (a.2.1 < b.2.1 || (a.2.1 == b.2.1 && a.2.2 ≤ b.2.2)))

def pOptTok {α} (f : α → String) : Option α → String | none => "N" | some a => f a

/-- The C01/C02/C03/C09 fields for a universe `u` of query names (some of them absent). -/
def QApi.fields (q : QApi) (u : List Nat) : List (String × String) :=
  let present := u.filter fun x => (q.getNode x).isSome
  let subs := subsets u
  let pairs := u.flatMap fun x => u.map fun y => (x, y)
  let sp := joinWith " "
  [ ("nodes", sp (q.nodes.map pNode)),
    ("edges", pEdges q.allEdges),
    ("node", sp (u.map fun x => pOptTok (fun (n : Node) => pOptNat n.attr) (q.getNode x))),
    ("idx", sp (u.map fun x => pOptTok toString (q.idx x))),
    ("byidx", sp ((List.range (q.numNodes + 1)).map fun i => pOptTok pNode (q.byIdx i))),
    ("hasnodes", sp (subs.map fun s => if q.hasNodes s then "1" else "0")),
    ("ge", sp (pairs.map fun p => pS pEdge (q.getEdge p.1 p.2))),
    ("ges", sp (pairs.map fun p => pS (fun l => joinWith ";" (l.map pEdge)) (q.getEdges p.1 p.2))),
    ("efn", sp (u.map fun x => pS pEdges (q.edgesForNode x))),
    ("efns", sp (subs.map fun s => pS pEdges (q.edgesForNodes s))),
    ("ien", sp (u.map fun x => pS pEdges (q.inEdgesForNode x))),
    ("iens", sp (subs.map fun s => pS pEdges (q.inEdgesForNodes s))),
    ("oen", sp (u.map fun x => pS pEdges (q.outEdgesForNode x))),
    ("oens", sp (subs.map fun s => pS pEdges (q.outEdgesForNodes s))),
    ("nb", sp (u.map fun x => pS pNames (q.neighborNodes x))),
    ("sn", sp (u.map fun x => pS pNames (q.successorNodes x))),
    ("pn", sp (u.map fun x => pS pNames (q.predecessorNodes x))),
    ("son", sp (present.map fun x => pS pNames (q.succOrNbrs x))),
    ("smap", pMapSets q.succMap),
    ("pmap", pMapSets q.predMap),
    ("bfs", sp (present.map fun x =>
        pS (fun l => s!"{pOptTok toString l.head?}:{pNames l}:{l.length}") (q.bfs x))),
    ("ehw", if q.edgesHaveWeight then "1" else "0"),
    ("travs", pAdj q.travSucc),
    ("travp", pAdj q.travPred),
    ("cnt", s!"{q.numNodes} {q.numEdges} {q.sizeU} {pW q.sizeW}"),
    ("deg", sp (u.map fun x => pOptTok toString (q.degree x))),
    ("indeg", sp (u.map fun x => pOptTok toString (q.inDegree x))),
    ("outdeg", sp (u.map fun x => pOptTok toString (q.outDegree x))),
    ("wdeg", sp (u.map fun x => pOptTok pW (q.wDegree x))),
    ("windeg", sp (u.map fun x => pOptTok pW (q.wInDegree x))),
    ("woutdeg", sp (u.map fun x => pOptTok pW (q.wOutDegree x))),
    ("degall", pS (pMapWith toString) q.degreeAll),
    ("indegall", pS (pMapWith toString) q.inDegreeAll),
    ("outdegall", pS (pMapWith toString) q.outDegreeAll),
    ("wdegall", pS (pMapWith pW) q.wDegreeAll),
    ("windegall", pS (pMapWith pW) q.wInDegreeAll),
    ("woutdegall", pS (pMapWith pW) q.wOutDegreeAll),
    ("dens:q", match q.density with | some d => pRat d | none => "inf"),
    ("dc:q", pS (fun m => if m.isEmpty then "." else
        joinWith " " ((isort (fun (a b : Nat × Rat) => decide (a.1 ≤ b.1)) m).map fun kv => s!"{kv.1}>{pRat kv.2}"))
        q.degreeCentrality),
    ("mat", pS (fun t => if t.isEmpty then "." else
        joinWith ";" ((isort tripLe t).map fun x => s!"{x.1},{x.2.1},{x.2.2}")) q.triplets) ]

/-! ## The concrete model as a `QApi` -/

/-- traversal neighbours of one row: one entry per neighbour with the minimum listed weight -/
def travRow (row : List Adj) : List (Nat × W) :=
  (dedup (row.map (·.1))).map fun j =>
    (j, ((Abs.minW ((row.filter (·.1 == j)).map (·.2))).getD none))

def Store.api (s : Store) : QApi :=
  let o {α} (x : Outcome α) : SOutcome α := SOutcome.ofOutcome x
  let names (x : Outcome (List Node)) : SOutcome (List Nat) := o (x.map' fun l => l.map (·.name))
  { directed := s.specs.directed
    multi := s.specs.multi
    nodes := s.getAllNodes
    allEdges := s.allEdges
    getNode := s.getNode
    idx := fun x => (s.getNodeIndex x).toOption
    byIdx := s.getNodeByIndex
    hasNodes := s.hasNodes
    getEdge := fun u v => o (s.getEdge u v)
    getEdges := fun u v => o (s.getEdges u v)
    edgesForNode := fun x => o (s.getEdgesForNode x)
    edgesForNodes := fun l => o (s.getEdgesForNodes l)
    inEdgesForNode := fun x => o (s.getInEdgesForNode x)
    inEdgesForNodes := fun l => o (s.getInEdgesForNodes l)
    outEdgesForNode := fun x => o (s.getOutEdgesForNode x)
    outEdgesForNodes := fun l => o (s.getOutEdgesForNodes l)
    neighborNodes := fun x => names (s.getNeighborNodes x)
    successorNodes := fun x => names (s.getSuccessorNodes x)
    predecessorNodes := fun x => names (s.getPredecessorNodes x)
    succOrNbrs := fun x => names (s.getSuccessorsOrNeighbors x)
    succMap := s.succ
    predMap := s.pred
    bfs := fun x => o (s.breadthFirstSearch x)
    edgesHaveWeight := s.edgesHaveWeight
    travSucc := s.succVec.map travRow
    travPred := s.predVec.map travRow
    numNodes := s.numberOfNodes
    numEdges := s.numberOfEdges
    sizeU := s.sizeUnweighted
    sizeW := s.sizeWeighted
    degree := s.getNodeDegree
    inDegree := s.getNodeInDegree
    outDegree := s.getNodeOutDegree
    wDegree := s.getNodeWeightedDegree
    wInDegree := s.getNodeWeightedInDegree
    wOutDegree := s.getNodeWeightedOutDegree
    degreeAll := o s.getDegreeForAllNodes
    inDegreeAll := o s.getInDegreeForAllNodes
    outDegreeAll := o s.getOutDegreeForAllNodes
    wDegreeAll := o s.getWeightedDegreeForAllNodes
    wInDegreeAll := o s.getWeightedInDegreeForAllNodes
    wOutDegreeAll := o s.getWeightedOutDegreeForAllNodes
    density := s.getDensity
    degreeCentrality := o s.degreeCentrality
    triplets := o s.getAdjacencyTriplets }

/-! ## The specification as a `QApi` (DESIGN.md appendices A and B) -/

def Abs.api (sp : Specs) (a : Abs) : QApi :=
  let dir := sp.directed
  let has (x : Nat) : Bool := a.hasNode x
  let hasAll (l : List Nat) : Bool := l.all has
  -- error channel: a kind error and an absence error are both acceptable when both apply
  let guard {α} (kindBad : Bool) (absent : Bool) (v : SOutcome α) : SOutcome α :=
    match kindBad, absent with
    | true, true => .errs [.WrongMethod, .NodeNotFound]
    | true, false => .errs [.WrongMethod]
    | false, true => .errs [.NodeNotFound]
    | false, false => v
  let posOf (x : Nat) : Nat := (a.indexOf x).getD 0
  let allMap {α} (f : Nat → α) : List (Nat × α) := a.nodes.map fun n => (n.name, f n.name)
  let nonEmptyMap (f : Nat → List Nat) : List (Nat × List Nat) :=
    (a.nodeNames.map fun x => (x, f x)).filter fun kv => !kv.2.isEmpty
  let n := a.nodes.length
  let trav (f : Nat → List Nat) (w : Nat → Nat → List Edge) : List (List (Nat × W)) :=
    a.nodeNames.map fun x => (f x).map fun y =>
      (posOf y, ((Abs.minW ((w x y).map (·.w))).getD none))
  { directed := dir
    multi := sp.multi
    nodes := a.nodes
    allEdges := a.edges
    getNode := a.getNode
    idx := a.indexOf
    byIdx := fun i => a.nodes[i]?
    hasNodes := hasAll
    getEdge := fun u v => guard sp.multi (!has u || !has v)
      (match a.between dir u v with | [] => .errs [.EdgeNotFound] | e :: _ => .ok e)
    getEdges := fun u v => guard (!sp.multi) (!has u || !has v)
      (match a.between dir u v with | [] => .errs [.EdgeNotFound] | l => .ok l)
    edgesForNode := fun x => guard false (!has x) (.ok (a.edgesForNode dir x))
    edgesForNodes := fun l => guard false (!hasAll l)
      (.ok (a.edges.filter fun e => l.contains e.u || l.contains e.v))
    inEdgesForNode := fun x => guard (!dir) (!has x) (.ok (a.inEdges x))
    inEdgesForNodes := fun l => guard (!dir) (!hasAll l) (.ok (a.edges.filter fun e => l.contains e.v))
    outEdgesForNode := fun x => guard (!dir) (!has x) (.ok (a.outEdges x))
    outEdgesForNodes := fun l => guard (!dir) (!hasAll l) (.ok (a.edges.filter fun e => l.contains e.u))
    neighborNodes := fun x => guard false (!has x) (.ok (a.nbrs dir x))
    successorNodes := fun x => guard (!dir) (!has x) (.ok (a.succ dir x))
    predecessorNodes := fun x => guard (!dir) (!has x) (.ok (a.pred dir x))
    succOrNbrs := fun x => .ok (if dir then a.succ dir x else a.nbrs dir x)
    succMap := nonEmptyMap (a.succ dir)
    predMap := nonEmptyMap (a.pred dir)
    bfs := fun x => .ok (a.reach dir x)
    edgesHaveWeight := a.edges.all fun e => !e.w.isNan
    travSucc := trav (a.succ dir) (fun x y => if dir then a.edges.filter (fun e => e.u == x && e.v == y)
                                              else a.between dir x y)
    travPred := if dir then trav (a.pred dir) (fun x y => a.edges.filter (fun e => e.u == y && e.v == x))
                else a.nodes.map fun _ => []
    numNodes := n
    numEdges := a.edges.length
    sizeU := a.edges.length
    sizeW := Abs.sumW a.edges
    degree := fun x => if has x then some (a.degree dir x) else none
    inDegree := fun x => if dir && has x then some (a.inEdges x).length else none
    outDegree := fun x => if dir && has x then some (a.outEdges x).length else none
    wDegree := fun x => if has x then some (a.weightedDegree dir x) else none
    wInDegree := fun x => if dir && has x then some (Abs.sumW (a.inEdges x)) else none
    wOutDegree := fun x => if dir && has x then some (Abs.sumW (a.outEdges x)) else none
    degreeAll := .ok (allMap (a.degree dir))
    inDegreeAll := if dir then .ok (allMap fun x => (a.inEdges x).length) else .errs [.WrongMethod]
    outDegreeAll := if dir then .ok (allMap fun x => (a.outEdges x).length) else .errs [.WrongMethod]
    wDegreeAll := .ok (allMap (a.weightedDegree dir))
    wInDegreeAll := if dir then .ok (allMap fun x => Abs.sumW (a.inEdges x)) else .errs [.WrongMethod]
    wOutDegreeAll := if dir then .ok (allMap fun x => Abs.sumW (a.outEdges x)) else .errs [.WrongMethod]
    density :=
      -- the property fixes the density of single-edge graphs with n ≥ 2 only
      if a.edges.isEmpty then some 0
      else if n * (n - 1) == 0 then none
      else
        let m : Rat := a.keys.length
        let d : Rat := (n : Rat) * ((n : Rat) - 1)
        some (if dir then m / d else 2 * m / d)
    degreeCentrality :=
      if n ≤ 1 then .ok (allMap fun _ => (1 : Rat))
      else .ok (allMap fun x => ((a.degree dir x : Nat) : Rat) / ((n : Rat) - 1))
    triplets :=
      if sp.multi then .errs [.WrongMethod]
      else .ok (a.edges.flatMap fun e =>
        let w : Int := match e.w with | none => 1 | some x => x
        let i := posOf e.u
        let j := posOf e.v
        if !dir && i != j then [(i, j, w), (j, i, w)] else [(i, j, w)]) }

/-! ## Derived graphs (C15) and the raw snapshot of the private indexes -/

/-- A derived graph in one field: nodes, canonical edges and both traversal lists. -/
def QApi.compact (q : QApi) : String :=
  let ns := if q.nodes.isEmpty then "." else joinWith "," (q.nodes.map pNode)
  s!"N[{ns}] E[{pEdges q.allEdges}] S[{pAdj q.travSucc}] P[{pAdj q.travPred}]"

def pDerived (f : Store → QApi) : Outcome Store → String
  | .ok s => (f s).compact
  | .err k => s!"E{k.code}"
  | .panic _ => "P"

def Store.derivedFields (s : Store) (u : List Nat) (w : W) : List (String × String) :=
  ((subsets u).zipIdx.map fun p => (s!"sub{p.2}", pDerived Store.api (s.getSubgraph p.1))) ++
  ((duplists u).zipIdx.map fun p => (s!"subdup{p.2}", pDerived Store.api (s.getSubgraph p.1))) ++
  [ ("rev", pDerived Store.api s.reverse),
    ("setw", pDerived Store.api (s.setAllEdgeWeights w)),
    ("single", pDerived Store.api s.toSingleEdges) ]

def Abs.derivedFields (sp : Specs) (a : Abs) (u : List Nat) (w : W) : List (String × String) :=
  ((subsets u).zipIdx.map fun p => (s!"sub{p.2}", (Abs.api sp (a.subgraph p.1)).compact)) ++
  ((duplists u).zipIdx.map fun p => (s!"subdup{p.2}", (Abs.api sp (a.subgraph p.1)).compact)) ++
  [ ("rev", if sp.directed then (Abs.api sp a.reverse).compact else "E12"),
    ("setw", (Abs.api sp (a.setWeights w)).compact),
    ("single", if sp.multi then (Abs.api { sp with multi := false } a.toSingle).compact else "E12") ]

def pEdgeLists (m : List ((Nat × Nat) × List Edge)) : String :=
  if m.isEmpty then "." else
  joinWith " " ((isort (fun a b => pairLe a.1 b.1) m).map fun kv =>
    s!"{kv.1.1},{kv.1.2}>" ++ joinWith ";" (kv.2.map fun e => s!"{e.u},{e.v},{pW e.w}"))

/-- The twelve private indexes, canonicalised (compared with the hook's snapshot). -/
def Store.snapFields (s : Store) : List (String × String) :=
  [ ("snap.nodes_map", pMapWith toString s.nodesMap),
    ("snap.nodes_map_rev", pMapWith (fun (n : Node) => toString n.name) s.nodesMapRev),
    ("snap.nodes_vec", if s.nodesVec.isEmpty then "." else pNats (s.nodesVec.map (·.name))),
    ("snap.edges", pEdgeLists s.edges),
    ("snap.edges_map", pEdgeLists s.edgesMap),
    ("snap.successors", pMapSets s.succ),
    ("snap.successors_map", pMapSets s.succMap),
    ("snap.successors_vec", pAdj s.succVec),
    ("snap.predecessors", pMapSets s.pred),
    ("snap.predecessors_map", pMapSets s.predMap),
    ("snap.predecessors_vec", pAdj s.predVec),
    ("poison", match s.poisoned with | none => "0" | some site => "1:" ++ site) ]

def pResults (rs : List (Option ErrKind)) : String :=
  if rs.isEmpty then "." else
  joinWith " " (rs.map fun r => match r with | none => "0" | some k => toString k.code)

def pFields (pre : String) (fs : List (String × String)) : String :=
  joinWith "|" (fs.map fun kv => s!"{pre}{kv.1}={kv.2}")

end Graphrs
