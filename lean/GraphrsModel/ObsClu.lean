/-
  Line-protocol handler for the clustering family (C11).
-/
import GraphrsModel.ObsComp
import GraphrsModel.Model.Cluster
import GraphrsModel.Spec.Cluster
namespace Graphrs

def ratToFloat (q : Rat) : Float := Float.ofInt q.num / Float.ofNat q.den
def pF (x : Float) : String := if x != x then "nan" else s!"b{x.toBits.toNat}"
def pNatMap (m : List (Nat × Nat)) : String :=
  if m.isEmpty then "." else
  joinWith " " ((isort (fun (a b : Nat × Nat) => decide (a.1 ≤ b.1)) m).map fun kv => s!"{kv.1}>{kv.2}")
def pFMap (m : List (Nat × Float)) : String :=
  if m.isEmpty then "." else
  joinWith " " ((isort (fun (a b : Nat × Float) => decide (a.1 ≤ b.1)) m).map fun kv => s!"{kv.1}>{pF kv.2}")
def pGd (m : List (Nat × List (Nat × Nat))) : String :=
  if m.isEmpty then "." else
  joinWith " " ((isort (fun (a b : Nat × List (Nat × Nat)) => decide (a.1 ≤ b.1)) m).map fun kv =>
    s!"{kv.1}>" ++ (if kv.2.isEmpty then "_" else
      joinWith ";" ((isort (fun (a b : Nat × Nat) => decide (a.1 ≤ b.1)) kv.2).map fun p => s!"{p.1}:{p.2}")))

/-- `clu <graph> <weighted> <S> <wdiv>` -/
def handleClu : P String := do
  let (sp, nodes, edges) ← P.graph
  let weighted ← P.bool
  let S ← P.listOf P.nat
  -- the implementation saw every weight divided by `wdiv` (a power of two); every weighted coefficient is normalised by the
  -- largest weight, so the model and the definition, which work on the integer numerators, are unchanged
  let _wdiv ← P.nat
  P.done
  let (so, a) := buildBoth sp nodes edges
  match so with
  | .err e => pure s!"m.build=E{e.code}"
  | .panic _ => pure "m.build=P"
  | .ok s =>
    let sub := some S
    let avg (names : Option (List Nat)) (cz : Bool) : Outcome Float :=
      if weighted then (s.clusteringWeighted names).map' fun m => Store.averageOf (m.map (·.2)) cz
      else (s.clusteringUnweighted names).map' fun m => Store.averageOf (m.map fun kv => ratToFloat kv.2) cz
    let sAbsent := S.any fun x => !s.hasNode x
    let m := [("build", "0"),
      ("tri", pOut pNatMap (s.triangles none)), ("triS", pOut pNatMap (s.triangles sub)),
      ("gd", pOut pGd (s.generalizedDegree none)), ("gdS", pOut pGd (s.generalizedDegree sub)),
      ("trans:q", pOut pRat s.transitivity),
      ("clu:q", pOut pRatMap (s.clusteringUnweighted none)), ("cluS:q", pOut pRatMap (s.clusteringUnweighted sub)),
      ("wclu:b", if weighted then pOut pFMap (s.clusteringWeighted none) else "-"),
      ("wcluS:b", if weighted then pOut pFMap (s.clusteringWeighted sub) else "-"),
      ("avg1:b", pOut pF (avg none true)), ("avg0:b", pOut pF (avg none false)), ("avgS:b", pOut pF (avg sub true)),
      -- on a directed graph the value depends on the iteration order of a hash set (the pair (u, w) is not
      -- treated symmetrically); it is not specified (C11 speaks of undirected graphs) and not compared
      ("sq:q", if sp.directed then "skipdir" else pOut pRatMap (s.squareClustering none)),
      ("sqS:q", if sAbsent then "skip" else if sp.directed then "skipdir" else pOut pRatMap (s.squareClustering sub))]
    -- specification
    let nn := a.nodeNames
    let dir := sp.directed
    let absent := S.any fun x => !nn.contains x
    let noW := !(a.edges.all fun e => !e.w.isNan)
    let restrict {α} (f : Nat → α) (names : Option (List Nat)) : List (Nat × α) :=
      let ks := match names with | none => nn | some l => if l.isEmpty then nn else dedup l
      ks.map fun v => (v, f v)
    let restrictD {α} (f : Nat → α) (names : Option (List Nat)) : List (Nat × α) :=
      -- the directed / square functions take an empty list literally
      let ks := match names with | none => nn | some l => dedup l
      ks.map fun v => (v, f v)
    let err (ks : List ErrKind) : String := "E" ++ joinWith "/" (ks.map fun k => toString k.code)
    let und (names : Option (List Nat)) (v : String) : String :=
      match dir, (names.isSome && absent) with
      | true, true => err [.WrongMethod, .NodeNotFound]
      | true, false => err [.WrongMethod]
      | false, true => err [.NodeNotFound]
      | false, false => v
    let cluGuard (names : Option (List Nat)) (needW : Bool) (v : String) : String :=
      let es := (if sp.multi then [ErrKind.WrongMethod] else []) ++ (if names.isSome && absent then [ErrKind.NodeNotFound] else []) ++
                (if needW && noW then [ErrKind.EdgeWeightNotSpecified] else [])
      if es.isEmpty then v else err es
    let cluVal (v : Nat) : Rat := if dir then a.fagioloAt v else a.clusteringAt v
    let wcluVal (v : Nat) : Float := if dir then a.weightedFagioloAt v else a.weightedClusteringAt v
    let rstr (names : Option (List Nat)) {α} (f : Nat → α) := if dir then restrictD f names else restrict f names
    let avgSpec (names : Option (List Nat)) (cz : Bool) : String :=
      cluGuard names weighted (pF (Store.averageOf
        (if weighted then (rstr names wcluVal).map (·.2) else (rstr names cluVal).map fun kv => ratToFloat kv.2) cz))
    let inUnit (m : List (Nat × Rat)) : Bool := m.all fun kv => 0 ≤ kv.2 && kv.2 ≤ 1
    let sf := [
      ("tri", und none (pNatMap (restrict a.trianglesAt none))), ("triS", und sub (pNatMap (restrict a.trianglesAt sub))),
      ("gd", und none (pGd (restrict a.generalizedDegreeAt none))), ("gdS", und sub (pGd (restrict a.generalizedDegreeAt sub))),
      ("trans:q", und none (pRat a.transitivitySpec)),
      ("clu:q", cluGuard none false (pRatMap (rstr none cluVal))), ("cluS:q", cluGuard sub false (pRatMap (rstr sub cluVal))),
      ("wclu:b", if weighted then cluGuard none true (pFMap (rstr none wcluVal)) else "-"),
      ("wcluS:b", if weighted then cluGuard sub true (pFMap (rstr sub wcluVal)) else "-"),
      ("avg1:b", avgSpec none true), ("avg0:b", avgSpec none false), ("avgS:b", avgSpec sub true),
      -- square clustering is specified on undirected graphs only (no error channel; C20 covers panics)
      ("sq:q", if dir then "skipdir" else pRatMap (restrictD a.squareAt none)),
      ("sqS:q", if absent then "skip" else if dir then "skipdir" else pRatMap (restrictD a.squareAt sub)),
      ("ok.unit", if sp.multi then "1" else
         if inUnit (rstr none cluVal) && (dir || inUnit (restrictD a.squareAt none)) then "1" else "coefficient-outside-unit-interval") ]
    pure (pFields "m." m ++ "|" ++ pFields "s." sf)

end Graphrs
