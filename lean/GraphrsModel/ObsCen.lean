/-
  Line-protocol handlers for the centrality families (C05, C06, C18).
-/
import GraphrsModel.ObsSP
import GraphrsModel.Model.Centrality
import GraphrsModel.Spec.Centrality
namespace Graphrs

def pRatMap (m : List (Nat × Rat)) : String :=
  if m.isEmpty then "." else
  joinWith " " ((isort (fun (a b : Nat × Rat) => decide (a.1 ≤ b.1)) m).map fun kv => s!"{kv.1}>{pRat kv.2}")

/-- graph part shared by the algorithm requests -/
def P.graph : P (Specs × List Nat × List Edge) := do
  let sp ← P.specs
  let nodes ← P.listOf P.nat
  let edges ← P.listOf (do let u ← P.nat; let v ← P.nat; let w ← P.weight; pure (Edge.mk u v w none))
  pure (sp, nodes, edges)

def buildBoth (sp : Specs) (nodes : List Nat) (edges : List Edge) : Outcome Store × Abs :=
  let nodeObjs := nodes.map fun n => Node.mk n none
  (Store.newFrom sp nodeObjs edges, (Abs.addEdges sp (({} : Abs).addNodes nodeObjs) edges).1)

/-- `cen <graph> <weighted> <specLimit>`: betweenness (raw, normalized) and closeness (plain, wf) -/
def handleCen : P String := do
  let (sp, nodes, edges) ← P.graph
  let weighted ← P.bool
  let specLimit ← P.nat
  -- the implementation saw every weight divided by `wdiv` (a power of two); the model and the definition work on the integer
  -- numerators: betweenness does not change under scaling, closeness is multiplied by `wdiv`
  let wdiv ← P.nat
  P.done
  let scaleCC (m : List (Nat × Rat)) : List (Nat × Rat) := if weighted then m.map fun kv => (kv.1, kv.2 * (wdiv : Rat)) else m
  let (so, a) := buildBoth sp nodes edges
  match so with
  | .err k => pure s!"m.build=E{k.code}"
  | .panic _ => pure "m.build=P"
  | .ok s =>
    let m := [("build", "0"),
      ("bc0:q", pOut pRatMap (s.betweenness weighted false)), ("bc1:q", pOut pRatMap (s.betweenness weighted true)),
      ("cc0:q", pOut pRatMap ((s.closeness weighted false).map' scaleCC)), ("cc1:q", pOut pRatMap ((s.closeness weighted true).map' scaleCC))]
    let nn := a.nodeNames
    let arcs := a.arcs sp.directed weighted
    let positive := arcs.all fun x => x.2.2 > 0
    -- the betweenness definition enumerates paths (exponential): small graphs only; the closeness definition is
    -- polynomial (Bellman-Ford distances) and is evaluated on the graphs of the parallel code path as well
    -- above the enumeration limit the definition's value is obtained through `C05_full_statement_reachable`: on a store built
    -- through the mutation API (this one is: `newFrom`), with hop counts or positive weights, the Brandes model *is* the value of
    -- the definition - so its answer is printed as the specification's, and a differing implementation is a failing input
    let byTheorem (norm : Bool) : String := match s.betweenness weighted norm with | .ok out => pRatMap out | _ => "*"
    let sfB :=
      if !positive then [("bc0:q", "*"), ("bc1:q", "*")]
      else if nn.length > specLimit then [("bc0:q", byTheorem false), ("bc1:q", byTheorem true)]
      else [("bc0:q", pRatMap (bcSpec nn arcs sp.directed false)), ("bc1:q", pRatMap (bcSpec nn arcs sp.directed true))]
    let sfC :=
      if nn.length > 64 || !positive then [("cc0:q", "*"), ("cc1:q", "*")]
      else [("cc0:q", pRatMap (scaleCC (ccSpec nn arcs false))), ("cc1:q", pRatMap (scaleCC (ccSpec nn arcs true)))]
    let sf := sfB ++ sfC
    pure (pFields "m." m ++ "|" ++ pFields "s." sf)

def floatOfBits (x : Int) : Float := Float.ofBits (UInt64.ofNat x.toNat)
def pFloatMap (m : List (Nat × Float)) : String :=
  if m.isEmpty then "." else
  joinWith " " ((isort (fun (a b : Nat × Float) => decide (a.1 ≤ b.1)) m).map fun kv => s!"{kv.1}>b{kv.2.toBits.toNat}")

/-- `eig <graph> <weighted> <maxIter> <tolExp> [777777 code (name bits)*]` with tol = 10^-tolExp -/
def handleEig : P String := do
  let (sp, nodes, edges) ← P.graph
  let weighted ← P.bool
  let maxIter ← P.nat
  let tolExp ← P.nat
  let tol : Float := Float.exp (Float.log 10.0 * (0.0 - Float.ofNat tolExp))
  -- the implementation saw every weight divided by `wden` (same f64 division here): decimal weights
  let wden ← P.nat
  let scal : Scalar Float := if wden ≤ 1 then floatScalar else { floatScalar with ofW := fun w => floatScalar.ofW w / Float.ofNat wden }
  let rest ← get
  let (so, a) := buildBoth sp nodes edges
  match so with
  | .err k => set ([] : List Int); pure s!"m.build=E{k.code}"
  | .panic _ => set ([] : List Int); pure "m.build=P"
  | .ok s =>
    let r := s.eigenvectorG scal weighted maxIter tol (1.0 / 0.0)
    let mval : String := match r with
      | .ok ⟨some x, _, _⟩ => pFloatMap x
      | .ok ⟨none, _, _⟩ => "E9"
      | .err k => s!"E{k.code}"
      | .panic _ => "P"
    let margin : Float := match r with | .ok e => e.margin | _ => 1.0
    let base := [("build", "0"), ("eig:b", mval), ("margin", toString margin),
                 ("iters", match r with | .ok e => toString e.iterations | _ => "-")]
    match rest with
    | [] => pure (pFields "m." base)
    | _ => do
      let _ ← P.next
      let code ← P.next
      let ix ← (if code == 0 then P.listOf (do let k ← P.nat; let b ← P.next; pure (k, floatOfBits b)) else pure [])
      -- correspondence: same outcome class; values within 1e-7 unless the stopping test was within rounding of its threshold
      let nearThreshold := margin < 1.0e-9 * (1.0 + Float.ofNat nodes.length * tol)
      let agree : String :=
        match r with
        | .ok ⟨some x, _, _⟩ =>
          if code != 0 then (if nearThreshold then "1" else s!"model-ok-impl-{code}")
          else if nearThreshold then "1"
          else if (sortNat (x.map (·.1)) == sortNat (ix.map (·.1))) &&
                  x.all (fun kv => Float.abs (kv.2 - (alookup ix kv.1).getD 100.0) ≤ 1.0e-7) then "1" else "values-differ"
        | .ok ⟨none, _, _⟩ => if code == 9 || nearThreshold then "1" else s!"model-E9-impl-{code}"
        | .err k => if code == (k.code : Int) then "1" else s!"model-E{k.code}-impl-{code}"
        | .panic _ => if code == -1 then "1" else "model-panic"
      -- specification (C18): only Ok answers on single-edge graphs are constrained
      let entries : List (Nat × Nat × Float) := a.edges.flatMap fun e =>
        let w : Float := if !weighted || e.w.isNan then 1.0 else (if wden ≤ 1 then wFloat e.w else wFloat e.w / Float.ofNat wden)
        if sp.directed || e.u == e.v then [(e.u, e.v, w)] else [(e.u, e.v, w), (e.v, e.u, w)]
      let ok : String :=
        if code == 0 then (match checkEigen a.nodeNames entries tol ix with | none => "1" | some c => c)
        else if sp.multi then (if code == 12 then "1" else s!"multi-edge-graph-code-{code}")
        else if code == 9 then "1"
        else s!"unexpected-code-{code}"
      pure (pFields "m." (base ++ [("agree.eig", agree)]) ++ "|" ++ pFields "s." [("ok.eig", ok)])

end Graphrs
