/-
  Line-protocol handler for the degenerate-graph sweep (C20): the outcome class (`ok`, `E<k>`,
  `none`, `P` = panic) of every modelled public function for the same argument enumeration the
  harness uses, and the specification's expectation from the error-channel table
  (DESIGN.md appendix B).
-/
import GraphrsModel.ObsXml
namespace Graphrs

def cls {α} : Outcome α → String
  | .ok _ => "ok" | .err k => s!"E{k.code}" | .panic _ => "P"
def clsOpt {α} : Option α → String
  | some _ => "ok" | none => "none"

/-- how a function reports trouble -/
inductive Chan | result | option | plain deriving DecidableEq

/-- expectation of the specification for one call: a kind the function does not support and/or
    an absent name must come back through the error channel; anything else may be a value or
    any error - but never a panic (checked separately on every item). -/
def expect (chan : Chan) (kindBad absent : Bool) : String :=
  match chan with
  | .plain => "*"
  | .option => if kindBad || absent then "none" else "*"
  | .result =>
    match kindBad, absent with
    | true, true => "E12/4"
    | true, false => "E12"
    | false, true => "E4"
    | false, false => "*"

def handleDegen : P String := do
  let (sp, nodes, edges) ← P.graph
  P.done
  let (so, _) := buildBoth sp nodes edges
  match so with
  | .err e => pure s!"m.build=E{e.code}"
  | .panic _ => pure "m.build=P"
  | .ok s =>
    let absentName := 9
    let u := s.getAllNodeNames
    let one := (if u.length > 4 then u.take 2 ++ (match u.getLast? with | some x => [x] | none => []) else u) ++ [absentName]
    let pairs := one.flatMap fun x => one.map fun y => (x, y)
    let first := u.take 1
    let sets : List (List Nat) := [[], first, u, first ++ [absentName], first ++ first, u ++ first]
    let sp' (l : List String) : String := if l.isEmpty then "." else joinWith " " l
    let dir := sp.directed
    let multi := sp.multi
    let isAbs (x : Nat) : Bool := !u.contains x
    let anyAbs (l : List Nat) : Bool := l.any isAbs
    let names (x : Outcome (List Node)) : Outcome (List Nat) := x.map' fun l => l.map (·.name)
    -- model: outcome classes from the executable models
    let m : List (String × String) := [
      ("get_node", sp' (one.map fun x => clsOpt (s.getNode x))),
      ("has_node", sp' (one.map fun _ => "ok")),
      ("get_edges_for_node", sp' (one.map fun x => cls (s.getEdgesForNode x))),
      ("get_in_edges_for_node", sp' (one.map fun x => cls (s.getInEdgesForNode x))),
      ("get_out_edges_for_node", sp' (one.map fun x => cls (s.getOutEdgesForNode x))),
      ("get_neighbor_nodes", sp' (one.map fun x => cls (s.getNeighborNodes x))),
      ("get_successor_nodes", sp' (one.map fun x => cls (s.getSuccessorNodes x))),
      ("get_predecessor_nodes", sp' (one.map fun x => cls (s.getPredecessorNodes x))),
      ("get_successor_node_names", sp' (one.map fun x => cls (names (s.getSuccessorNodes x)))),
      ("get_predecessor_node_names", sp' (one.map fun x => cls (names (s.getPredecessorNodes x)))),
      ("get_node_degree", sp' (one.map fun x => clsOpt (s.getNodeDegree x))),
      ("get_node_in_degree", sp' (one.map fun x => clsOpt (s.getNodeInDegree x))),
      ("get_node_out_degree", sp' (one.map fun x => clsOpt (s.getNodeOutDegree x))),
      ("get_node_weighted_degree", sp' (one.map fun x => clsOpt (s.getNodeWeightedDegree x))),
      ("get_node_weighted_in_degree", sp' (one.map fun x => clsOpt (s.getNodeWeightedInDegree x))),
      ("get_node_weighted_out_degree", sp' (one.map fun x => clsOpt (s.getNodeWeightedOutDegree x))),
      ("node_connected_component", sp' (one.map fun x => cls (s.nodeConnectedComponent x))),
      ("get_edge", sp' (pairs.map fun p => cls (s.getEdge p.1 p.2))),
      ("get_edges", sp' (pairs.map fun p => cls (s.getEdges p.1 p.2))),
      ("has_nodes", sp' (sets.map fun _ => "ok")),
      ("get_edges_for_nodes", sp' (sets.map fun l => cls (s.getEdgesForNodes l))),
      ("get_in_edges_for_nodes", sp' (sets.map fun l => cls (s.getInEdgesForNodes l))),
      ("get_out_edges_for_nodes", sp' (sets.map fun l => cls (s.getOutEdgesForNodes l))),
      ("get_subgraph", sp' (sets.map fun l => cls (s.getSubgraph l))),
      ("triangles_some", sp' (sets.map fun l => cls (s.triangles (some l)))),
      ("generalized_degree_some", sp' (sets.map fun l => cls (s.generalizedDegree (some l)))),
      ("clustering_some.w0", sp' (sets.map fun l => cls (s.clusteringUnweighted (some l)))),
      ("clustering_some.w1", sp' (sets.map fun l => cls (s.clusteringWeighted (some l)))),
      ("breadth_first_search", sp' (u.map fun x => cls (s.breadthFirstSearch x))),
      ("get_successors_or_neighbors", sp' (u.map fun x => cls (s.getSuccessorsOrNeighbors x))),
      ("square_clustering_some", sp' (u.map fun x => cls (s.squareClustering (some [x])))),
      ("bfs_equal_size_partitions", sp' ([1, 2, 5].map fun k => cls (s.bfsEqualSizePartitions k))),
      ("get_node_by_index", sp' ([0, 1, 7].map fun i => clsOpt (s.getNodeByIndex i))),
      ("get_in_degree_for_all_nodes", cls s.getInDegreeForAllNodes),
      ("get_out_degree_for_all_nodes", cls s.getOutDegreeForAllNodes),
      ("get_degree_for_all_nodes", cls s.getDegreeForAllNodes),
      ("get_weighted_degree_for_all_nodes", cls s.getWeightedDegreeForAllNodes),
      ("get_weighted_in_degree_for_all_nodes", cls s.getWeightedInDegreeForAllNodes),
      ("get_weighted_out_degree_for_all_nodes", cls s.getWeightedOutDegreeForAllNodes),
      ("degree_centrality", cls s.degreeCentrality),
      ("get_sparse_adjacency_matrix", cls s.getAdjacencyTriplets),
      ("reverse", cls s.reverse),
      ("set_all_edge_weights", cls (s.setAllEdgeWeights (some 2))),
      ("to_single_edges", cls s.toSingleEdges),
      ("ensure_directed", cls s.ensureDirected), ("ensure_undirected", cls s.ensureUndirected),
      ("ensure_not_multi_edges", cls s.ensureNotMulti), ("ensure_weighted", cls s.ensureWeighted),
      ("connected_components", cls s.connectedComponents),
      ("number_of_connected_components", cls s.numberOfConnectedComponents),
      ("weakly_connected_components", cls s.weaklyConnectedComponents),
      ("strongly_connected_components", cls s.stronglyConnectedComponents),
      ("triangles", cls (s.triangles none)), ("generalized_degree", cls (s.generalizedDegree none)),
      ("transitivity", cls s.transitivity), ("square_clustering", cls (s.squareClustering none)),
      ("clustering.w0", cls (s.clusteringUnweighted none)), ("clustering.w1", cls (s.clusteringWeighted none)),
      ("single_source.w0", sp' (one.map fun x => cls (s.singleSource false x none none false true))),
      ("single_source.w1", sp' (one.map fun x => cls (s.singleSource true x none none false true))),
      ("single_source_target.w0", sp' (pairs.map fun p => cls (s.singleSource false p.1 (some p.2) (some 4) true true))),
      ("single_source_target.w1", sp' (pairs.map fun p => cls (s.singleSource true p.1 (some p.2) (some 4) true true))),
      ("all_pairs_target.w0", sp' (one.map fun x => cls (s.allPairs false (some x) none false true))),
      ("all_pairs_target.w1", sp' (one.map fun x => cls (s.allPairs true (some x) none false true))),
      ("multi_source.w0", sp' (sets.map fun l => cls (s.multiSource false l none none false false))),
      ("multi_source.w1", sp' (sets.map fun l => cls (s.multiSource true l none none false false))),
      ("all_pairs.w0", cls (s.allPairs false none none false true)), ("all_pairs.w1", cls (s.allPairs true none none false true)),
      ("all_pairs_basic.w0", cls (s.allPairs false none none false false)),
      ("all_pairs_basic.w1", cls (s.allPairs true none none false false)),
      ("betweenness.w0", sp' [cls (s.betweenness false false), cls (s.betweenness false true)]),
      ("closeness.w0", sp' [cls (s.closeness false false), cls (s.closeness false true)]) ]
    -- specification: the error-channel table
    let ex1 (chan : Chan) (kindBad : Bool) : String := sp' (one.map fun x => expect chan kindBad (isAbs x))
    let ex2 (chan : Chan) (kindBad : Bool) : String := sp' (pairs.map fun p => expect chan kindBad (isAbs p.1 || isAbs p.2))
    let exS (chan : Chan) (kindBad : Bool) : String := sp' (sets.map fun l => expect chan kindBad (anyAbs l))
    let ex0 (chan : Chan) (kindBad : Bool) : String := expect chan kindBad false
    let sf : List (String × String) := [
      ("get_node", ex1 .option false), ("has_node", ex1 .plain false),
      ("get_edges_for_node", ex1 .result false),
      ("get_in_edges_for_node", ex1 .result (!dir)), ("get_out_edges_for_node", ex1 .result (!dir)),
      ("get_neighbor_nodes", ex1 .result false),
      ("get_successor_nodes", ex1 .result (!dir)), ("get_predecessor_nodes", ex1 .result (!dir)),
      ("get_successor_node_names", ex1 .result (!dir)), ("get_predecessor_node_names", ex1 .result (!dir)),
      ("get_node_degree", ex1 .option false),
      ("get_node_in_degree", ex1 .option (!dir)), ("get_node_out_degree", ex1 .option (!dir)),
      ("get_node_weighted_degree", ex1 .option false),
      ("get_node_weighted_in_degree", ex1 .option (!dir)), ("get_node_weighted_out_degree", ex1 .option (!dir)),
      ("node_connected_component", ex1 .result dir),
      ("single_source.w0", ex1 .result false), ("single_source.w1", ex1 .result false),
      ("single_source_target.w0", ex2 .result false), ("single_source_target.w1", ex2 .result false),
      ("all_pairs_target.w0", ex1 .result false),
      -- weighted all_pairs on a graph with unweighted edges may also report EdgeWeightNotSpecified
      ("all_pairs_target.w1", sp' (one.map fun x => if isAbs x then (if s.edgesHaveWeight then "E4" else "E4/8") else "*")),
      ("involving.w0", ex1 .plain false), ("involving.w1", ex1 .plain false),
      ("get_edge", ex2 .result multi), ("get_edges", ex2 .result (!multi)),
      ("has_nodes", exS .plain false), ("get_edges_for_nodes", exS .result false),
      ("get_in_edges_for_nodes", exS .result (!dir)), ("get_out_edges_for_nodes", exS .result (!dir)),
      ("get_subgraph", exS .plain false),
      ("triangles_some", exS .result dir), ("generalized_degree_some", exS .result dir),
      ("multi_source.w0", exS .result false), ("multi_source.w1", exS .result false),
      ("clustering_some.w0", exS .result multi),
      ("clustering_some.w1", sp' (sets.map fun l =>
          if multi || anyAbs l then expect .result multi (anyAbs l) ++ (if s.edgesHaveWeight then "" else "/8") else "*")),
      ("average_clustering_some.w0", exS .result multi),
      ("average_clustering_some.w1", sp' (sets.map fun l =>
          if multi || anyAbs l then expect .result multi (anyAbs l) ++ (if s.edgesHaveWeight then "" else "/8") else "*")),
      ("get_in_degree_for_all_nodes", ex0 .result (!dir)), ("get_out_degree_for_all_nodes", ex0 .result (!dir)),
      ("get_weighted_in_degree_for_all_nodes", ex0 .result (!dir)), ("get_weighted_out_degree_for_all_nodes", ex0 .result (!dir)),
      ("get_sparse_adjacency_matrix", ex0 .result multi), ("reverse", ex0 .result (!dir)),
      ("to_single_edges", ex0 .result (!multi)),
      ("ensure_directed", ex0 .result (!dir)), ("ensure_undirected", ex0 .result dir), ("ensure_not_multi_edges", ex0 .result multi),
      ("connected_components", ex0 .result dir), ("number_of_connected_components", ex0 .result dir),
      ("weakly_connected_components", ex0 .result (!dir)), ("strongly_connected_components", ex0 .result (!dir)),
      ("triangles", ex0 .result dir), ("generalized_degree", ex0 .result dir), ("transitivity", ex0 .result dir),
      ("clustering.w0", ex0 .result multi),
      ("clustering.w1", if multi then (if s.edgesHaveWeight then "E12" else "E12/8") else "*"),
      ("eigenvector.w0", ex0 .result multi), ("eigenvector.w1", ex0 .result multi) ]
    -- negative weights (representable; the shortest-path functions answer `ContradictoryPaths` or a value, never a panic): the
    -- weighted forms of the other algorithms are only specified for positive weights and are not called by the harness
    let negw := s.allEdges.any fun e => match e.w with | some x => x < 0 | none => false
    let skipNeg := ["clustering_some.w1", "average_clustering_some.w1", "betweenness.w1", "closeness.w1", "clustering.w1",
      "average_clustering.w1", "modularity.w1", "eigenvector.w1", "louvain_partitions.w1", "louvain_communities.w1"]
    let anyOutcome := ["single_source.w1", "single_source_target.w1", "all_pairs_target.w1", "involving.w1", "multi_source.w1"]
    let adj (isSpec : Bool) (l : List (String × String)) : List (String × String) :=
      if !negw then l else l.map fun kv =>
        if skipNeg.contains kv.1 then (kv.1, "skipneg")
        else if isSpec && anyOutcome.contains kv.1 then (kv.1, "*") else kv
    pure (pFields "m." (adj false m) ++ "|" ++ pFields "s." (adj true sf))

end Graphrs
