/-
  Line-protocol handler for the GraphML families (C14 round trip, C19 malformed input).
-/
import GraphrsModel.ObsGen
import GraphrsModel.Model.GraphML
namespace Graphrs
open Xml

def P.attrs : P Attrs := do
  let code ← P.next
  let l ← P.listOf P.pair
  pure (if code != 0 then none else some l)

def P.event : P Event := do
  match (← P.nat) with
  | 1 => do let n ← P.nat; let a ← P.attrs; pure (.start n a)
  | 2 => do let n ← P.nat; let a ← P.attrs; pure (.empty n a)
  | 3 => do let n ← P.nat; pure (.endTag n)
  | 4 => do
    let code ← P.next
    let w ← P.weight
    pure (.text (if code == 0 then none else some w))
  | 5 => pure .eof
  | 6 => pure .error
  | _ => pure .other

/-- interned ids are not order-isomorphic to the strings in general: an undirected edge is printed with
    its endpoints ordered by id -/
def byId (dir : Bool) (e : Edge) : Edge := if dir || e.u ≤ e.v then e else e.reversed

def pStoreNE (s : Store) : List (String × String) :=
  [("rnodes", if s.nodesVec.isEmpty then "." else pNats (s.nodesVec.map (·.name))),
   ("redges", if s.allEdges.isEmpty then "." else
      joinWith ";" ((canonEdges (s.allEdges.map (byId s.specs.directed))).map fun e => s!"{e.u},{e.v},{pW e.w}")),
   ("rdir", if s.specs.directed then "1" else "0")]

def eventsAgree : List Event → List Event → Bool
  | [], [] => true
  | a :: as, b :: bs =>
    (match a, b with
     | .start n x, .start m y => n == m && (n == 0 || x == y)
     | .empty n x, .empty m y => n == m && (n == sKey || x == y)
     | .endTag n, .endTag m => n == m
     | .text x, .text y => x == y
     | .eof, .eof => true
     | .error, .error => true
     | .other, .other => true
     | _, _ => false) && eventsAgree as bs
  | _, _ => false

/-- Split an event list into (events before the first edge, edge groups, other events after the
    first edge); an edge group runs from `<edge ..>` to `</edge>`. -/
def splitEdges (evs : List Event) : List Event × List (List Event) × List Event :=
  let (pre, gs, cur, suf) := evs.foldl (fun (st : List Event × List (List Event) × Option (List Event) × List Event) ev =>
    let (pre, gs, cur, suf) := st
    match cur with
    | some g =>
      (match ev with
       | .endTag n => if n == sEdge then (pre, gs ++ [g ++ [ev]], none, suf) else (pre, gs, some (g ++ [ev]), suf)
       | _ => (pre, gs, some (g ++ [ev]), suf))
    | none =>
      (match ev with
       | .start n _ => if n == sEdge then (pre, gs, some [ev], suf)
                       else if gs.isEmpty then (pre ++ [ev], gs, none, suf) else (pre, gs, none, suf ++ [ev])
       | _ => if gs.isEmpty then (pre ++ [ev], gs, none, suf) else (pre, gs, none, suf ++ [ev]))) ([], [], none, [])
  (pre, gs ++ (match cur with | some g => [g] | none => []), suf)

def groupKey (g : List Event) : Nat × Nat :=
  match g with
  | .start _ (some a) :: _ => ((attrGet a sSource).getD 0, (attrGet a sTarget).getD 0)
  | _ => (0, 0)

/-- the writer lists the edges in the iteration order of a hash map: edge groups are compared up to
    a reordering that keeps the parallel edges of one pair in order -/
def canonDoc (evs : List Event) : List Event :=
  let (pre, gs, suf) := splitEdges evs
  pre ++ (isort (fun a b => pairLe (groupKey a) (groupKey b)) gs).flatMap id ++ suf

/-- what the document declares, read off the event list without any reader state:
    node ids in document order, edge endpoints in document order, the last <graph> declaration -/
def docNodes (evs : List Event) : Option (List Nat) :=
  evs.foldl (fun acc ev => do
    let l ← acc
    match ev with
    | .start n a | .empty n a => if n == sNode then (do let a ← a; let i ← attrGet a sId; pure (l ++ [i])) else pure l
    | _ => pure l) (some [])
def docEdges (evs : List Event) : Option (List (Nat × Nat)) :=
  evs.foldl (fun acc ev => do
    let l ← acc
    match ev with
    | .start n a | .empty n a =>
      if n == sEdge then (do let a ← a; let u ← attrGet a sSource; let v ← attrGet a sTarget; pure (l ++ [(u, v)])) else pure l
    | _ => pure l) (some [])
def docDirected (evs : List Event) : Bool :=
  evs.foldl (fun d ev =>
    match ev with
    | .start n (some a) | .empty n (some a) =>
      if n == sGraph then (if attrGet a sEdgeDefault == some sUndirected then false
                           else if attrGet a sEdgeDefault == some sDirected then true else d) else d
    | _ => d) true

/-- `xml <specs> <hasOrig> [orig nodes, orig edges(u v wbits)] <events> [777777 impl code]` -/
def handleXml : P String := do
  let sp ← P.specs
  let hasOrig ← P.bool
  let orig ← (if hasOrig then do
      let _table ← P.listOf (P.listOf P.nat)      -- the strings behind the ids (used by the harness only)
      let ns ← P.listOf P.nat
      let es ← P.listOf (do let u ← P.nat; let v ← P.nat; let w ← P.weight; pure (Edge.mk u v w none))
      pure (some (ns, es))
    else do
      let _doc ← P.listOf P.nat                   -- the document bytes (used by the harness only)
      pure none)
  let rest ← get
  match rest with
  | [] => pure "m.noevents=1"
  | _ => do
  let _ ← P.next
  let evs ← P.listOf P.event
  let implCode : Option Int := (← get).head?
  set ([] : List Int)
  let r := readEvents sp evs
  let m := match r with
    | .ok s => pStoreNE s
    | .err k => [("rnodes", s!"E{k.code}"), ("redges", s!"E{k.code}"), ("rdir", s!"E{k.code}")]
    | .panic _ => [("rnodes", "P"), ("redges", "P"), ("rdir", "P")]
  match orig with
  | some (ns, es) =>
    -- C14: the document is what the model writer emits, and reading it back gives the original graph
    let so := Store.newFrom sp (ns.map fun n => ⟨n, none⟩) es
    let (docOk, sf) := match so with
      | .ok s => (eventsAgree (canonDoc (writeEvents s)) (canonDoc evs), pStoreNE s)
      | _ => (false, [("rnodes", "original-graph-not-buildable")])
    pure (pFields "m." (m ++ [("agree.doc", if docOk then "1" else "document-differs-from-model-writer")]) ++ "|" ++ pFields "s." sf)
  | none =>
    -- C19: Ok(graph) has exactly the declared nodes / edges (subject to the specs) and the declared directedness
    let sf : List (String × String) :=
      match implCode with
      | some 0 =>
        (match docNodes evs, docEdges evs with
         | some ns, some es =>
           let dir := docDirected evs
           let sp' := { sp with directed := dir }
           let (a, e) := Abs.addEdges sp' (({} : Abs).addNodes (ns.map fun n => ⟨n, none⟩)) (es.map fun p => Edge.tuple p.1 p.2)
           (match e with
            | none => [("rnodes", if a.nodes.isEmpty then "." else pNats a.nodeNames),
                       ("rends", if a.edges.isEmpty then "." else joinWith ";" ((canonEdges (a.edges.map (byId dir))).map fun x => s!"{x.u},{x.v}")),
                       ("rdir", if dir then "1" else "0")]
            | some _ => [("rnodes", "document-content-is-rejected-by-the-specs")])
         | _, _ => [("rnodes", "document-has-malformed-node-or-edge-elements")])
      | _ => []
    pure (pFields "m." m ++ (if sf.isEmpty then "" else "|" ++ pFields "s." sf))

end Graphrs
