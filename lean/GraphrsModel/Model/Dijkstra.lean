/-
  Executable model of src/algorithms/shortest_path/dijkstra.rs (+ shortest_path_info.rs).
  Distances are exact integers (the harness feeds integer-valued weights, so every f64 sum
  the Rust code forms is exact); `f64::MAX` is `none`; a NaN weight makes every comparison
  false, i.e. the entry is skipped.
-/
import GraphrsModel.Model.Query
namespace Graphrs

structure SPInfo where
  dist : Int
  paths : List (List Nat)
  deriving Repr, DecidableEq, Inhabited

/-- `FringeNode` of dijkstra.rs: (distance, count, node). The heap pops the greatest element
    under (−distance, count, node): smallest distance, then largest count, then largest node. -/
abbrev FNode := Int × Nat × Nat

def FNode.better (a b : FNode) : Bool :=
  a.1 < b.1 || (a.1 == b.1 && (a.2.1 > b.2.1 || (a.2.1 == b.2.1 && a.2.2 > b.2.2)))

/-- `BinaryHeap::pop`. -/
def popFringe : List FNode → Option (FNode × List FNode)
  | [] => none
  | x :: xs =>
    let best := xs.foldl (fun b y => if FNode.better y b then y else b) x
    some (best, (x :: xs).erase best)

structure DState where
  dist : List (Option Int)
  seen : List (Option Int)
  fringe : List FNode
  count : Nat
  paths : List (List (List Nat))
  deriving Repr

/-- `cutoff.map_or(false, |c| vu_dist > c)`; the cutoff is given doubled (so that half-integers
    can be expressed). -/
def overCutoff (cutoff2 : Option Int) (d : Int) : Bool :=
  match cutoff2 with
  | none => false
  | some c => 2 * d > c

/-- the body of `for adj in graph.get_successor_nodes_by_index(&v)` in `dijkstra` -/
def relaxFull (weighted : Bool) (cutoff2 : Option Int) (firstOnly withPaths : Bool) (v : Nat) (dv : Int)
    (st : DState) (adj : Adj) : Except ErrKind DState :=
  let u := adj.1
  let cost : Option Int := if weighted then adj.2 else some 1
  match cost with
  | none => .ok st      -- NaN: every comparison below is false
  | some c =>
    let vu := dv + c
    if overCutoff cutoff2 vu then .ok st
    else
      match st.dist[u]?.join with
      | some du => if vu < du then .error .ContradictoryPaths else .ok st
      | none =>
        let seenU := st.seen[u]?.join
        let lt := match seenU with | none => true | some su => vu < su
        if lt then
          let st := { st with seen := st.seen.set u (some vu), count := st.count + 1,
                              fringe := (vu, st.count + 1, u) :: st.fringe }
          if withPaths then
            let pv := (st.paths[v]?.getD []).map (· ++ [u])
            .ok { st with paths := st.paths.set u pv }
          else .ok st
        else if !firstOnly && seenU == some vu then
          let st := { st with count := st.count + 1, fringe := (vu, st.count + 1, u) :: st.fringe }
          if withPaths then
            let pv := (st.paths[v]?.getD []).map (· ++ [u])
            .ok { st with paths := st.paths.set u ((st.paths[u]?.getD []) ++ pv) }
          else .ok st
        else .ok st

def foldExcept {α β ε} (f : β → α → Except ε β) : β → List α → Except ε β
  | b, [] => .ok b
  | b, a :: as => match f b a with | .ok b' => foldExcept f b' as | .error e => .error e

/-- the `while let Some(fringe_item) = fringe.pop()` loop of `dijkstra` -/
def dijkstraLoop (adjOf : Nat → List Adj) (weighted : Bool) (target : Option Nat) (cutoff2 : Option Int)
    (firstOnly withPaths : Bool) : Nat → DState → Except ErrKind DState
  | 0, st => .ok st
  | fuel + 1, st =>
    match popFringe st.fringe with
    | none => .ok st
    | some ((d, _, v), rest) =>
      let st := { st with fringe := rest }
      if (st.dist[v]?.join).isSome then dijkstraLoop adjOf weighted target cutoff2 firstOnly withPaths fuel st
      else
        let st := { st with dist := st.dist.set v (some d) }
        if target == some v then .ok st
        else
          match foldExcept (relaxFull weighted cutoff2 firstOnly withPaths v d) st (adjOf v) with
          | .error e => .error e
          | .ok st => dijkstraLoop adjOf weighted target cutoff2 firstOnly withPaths fuel st

def Store.totalAdj (s : Store) : Nat := sumNat (s.succVec.map List.length)

/-- `get_shortest_path_infos` -/
def spInfos (dist : List (Option Int)) (paths : List (List (List Nat))) (withPaths : Bool) :
    List (Nat × SPInfo) :=
  dist.zipIdx.filterMap fun p =>
    match p.1 with
    | none => none
    | some d => some (p.2, ⟨d, if withPaths then paths[p.2]?.getD [] else []⟩)

/-- `dijkstra` (index level). -/
def Store.dijkstra (s : Store) (weighted : Bool) (source : Nat) (target : Option Nat) (cutoff2 : Option Int)
    (firstOnly withPaths : Bool) : Outcome (List (Nat × SPInfo)) :=
  let n := s.numberOfNodes
  if source ≥ n then .panic "dijkstra: index out of range" else
  let paths0 : List (List (List Nat)) :=
    if withPaths then (List.replicate n []).set source [[source]] else []
  let st0 : DState :=
    { dist := List.replicate n none, seen := (List.replicate n none).set source (some 0),
      fringe := [(0, 0, source)], count := 0, paths := paths0 }
  match dijkstraLoop (fun v => s.succVec[v]?.getD []) weighted target cutoff2 firstOnly withPaths
      (s.totalAdj + 2) st0 with
  | .error e => .err e
  | .ok st => .ok (spInfos st.dist st.paths withPaths)

/-- the relaxation of `dijkstra_basic` -/
def relaxBasic (weighted : Bool) (dv : Int) (st : DState) (adj : Adj) : DState :=
  let u := adj.1
  let cost : Option Int := if weighted then adj.2 else some 1
  match cost with
  | none => st
  | some c =>
    let vu := dv + c
    let seenU := st.seen[u]?.join
    let lt := match seenU with | none => true | some su => vu < su
    if lt then
      { st with seen := st.seen.set u (some vu), count := st.count + 1, fringe := (vu, st.count + 1, u) :: st.fringe }
    else if seenU == some vu then
      { st with count := st.count + 1, fringe := (vu, st.count + 1, u) :: st.fringe }
    else st

def basicLoop (adjOf : Nat → List Adj) (weighted : Bool) : Nat → DState → DState
  | 0, st => st
  | fuel + 1, st =>
    match popFringe st.fringe with
    | none => st
    | some ((d, _, v), rest) =>
      let st := { st with fringe := rest }
      if (st.dist[v]?.join).isSome then basicLoop adjOf weighted fuel st
      else
        let st := { st with dist := st.dist.set v (some d) }
        basicLoop adjOf weighted fuel ((adjOf v).foldl (relaxBasic weighted d) st)

/-- `dijkstra_basic`: every tie pushes again, so the number of pops is bounded by the number of
    (finalised node, adjacency entry) pairs plus one. -/
def Store.dijkstraBasic (s : Store) (weighted : Bool) (source : Nat) : Outcome (List (Nat × SPInfo)) :=
  let n := s.numberOfNodes
  if source ≥ n then .panic "dijkstra_basic: index out of range" else
  let st0 : DState :=
    { dist := List.replicate n none, seen := (List.replicate n none).set source (some 0),
      fringe := [(0, 0, source)], count := 0, paths := [] }
  let st := basicLoop (fun v => s.succVec[v]?.getD []) weighted (s.totalAdj + 2) st0
  .ok (spInfos st.dist [] false)

def canUseBasic (target : Option Nat) (cutoff2 : Option Int) (firstOnly withPaths : Bool) : Bool :=
  target.isNone && cutoff2.isNone && !firstOnly && !withPaths

/-- `convert_shortest_path_info_vec_to_t_map` -/
def Store.spToNames (s : Store) (l : List (Nat × SPInfo)) : Outcome (List (Nat × SPInfo)) :=
  l.foldl (fun acc p => do
    let out ← acc
    let name ← Outcome.ofOption "convert: get_node_by_index().unwrap()" (s.getNodeByIndex p.1)
    let paths ← p.2.paths.foldl (fun pacc path => do
      let ps ← pacc
      let np ← path.foldl (fun nacc i => do
        let l ← nacc
        let nd ← Outcome.ofOption "convert: get_node_by_index().unwrap()" (s.getNodeByIndex i)
        .ok (l ++ [nd.name])) (.ok [])
      .ok (ps ++ [np])) (.ok [])
    .ok (ainsert out name.name ⟨p.2.dist, paths⟩)) (.ok [])

def Store.runOne (s : Store) (weighted : Bool) (si : Nat) (ti : Option Nat) (tgtName : Option Nat)
    (cutoff2 : Option Int) (firstOnly withPaths : Bool) : Outcome (List (Nat × SPInfo)) :=
  if canUseBasic tgtName cutoff2 firstOnly withPaths then s.dijkstraBasic weighted si
  else s.dijkstra weighted si ti cutoff2 firstOnly withPaths

/-- `single_source` -/
def Store.singleSource (s : Store) (weighted : Bool) (source : Nat) (target : Option Nat)
    (cutoff2 : Option Int) (firstOnly withPaths : Bool) : Outcome (List (Nat × SPInfo)) := do
  let si ← s.getNodeIndex source
  let ti ← match target with
    | some t => (s.getNodeIndex t).map' some
    | none => .ok none
  let r ← s.runOne weighted si ti target cutoff2 firstOnly withPaths
  s.spToNames r

/-- `multi_source` -/
def Store.multiSource (s : Store) (weighted : Bool) (sources : List Nat) (target : Option Nat)
    (cutoff2 : Option Int) (firstOnly withPaths : Bool) : Outcome (List (Nat × List (Nat × SPInfo))) :=
  if !s.hasNodes sources then .err .NodeNotFound
  else if (match target with | some t => !s.hasNode t | none => false) then .err .NodeNotFound
  else
    sources.foldl (fun acc src => do
      let out ← acc
      -- a failing search (`ContradictoryPaths`) is reported through the result, as `single_source` reports it
      let r ← s.singleSource weighted src target cutoff2 firstOnly withPaths
      .ok (ainsert out src r)) (.ok [])

/-- `all_pairs` -/
def Store.allPairs (s : Store) (weighted : Bool) (target : Option Nat) (cutoff2 : Option Int)
    (firstOnly withPaths : Bool) : Outcome (List (Nat × List (Nat × SPInfo))) := do
  if weighted then s.ensureWeighted
  let ti ← match target with
    | some t => (s.getNodeIndex t).map' some
    | none => .ok none
  (List.range s.numberOfNodes).foldl (fun acc i => do
    let out ← acc
    -- `all_pairs_iter` / `all_pairs_par_iter` yield `Result`s; the first error is returned by `collect::<Result<..>>()?`
    let r ← s.runOne weighted i ti target cutoff2 firstOnly withPaths
    let src ← Outcome.ofOption "all_pairs: get_node_by_index().unwrap()" (s.getNodeByIndex i)
    let named ← s.spToNames r
    .ok (ainsert out src.name named)) (.ok [])

/-- `ShortestPathInfo::contains_path_through_node` -/
def SPInfo.through (i : SPInfo) (x : Nat) : Bool :=
  i.paths.any fun p => p.length > 2 && (p.drop 1).dropLast.contains x

/-- `get_all_shortest_paths_involving` -/
def Store.pathsInvolving (s : Store) (x : Nat) (weighted : Bool) : Outcome (List SPInfo) :=
  match s.allPairs weighted none none false true with
  | .ok pairs => .ok ((pairs.flatMap fun p => p.2.map (·.2)).filter fun i => i.through x)
  | .err _ => .ok []
  | .panic site => .panic site

end Graphrs
