/-
  Executable models of src/algorithms/centrality/{betweenness,closeness,eigenvector}.rs.
  Betweenness and closeness are computed in exact rationals from integer-valued weights;
  eigenvector centrality is executed over `Float` (it takes square roots).
-/
import GraphrsModel.Model.Dijkstra
namespace Graphrs

/-! ## betweenness.rs -/

/-- `SingleSourceResults` -/
structure SSR where
  S : List Nat
  P : List (List Nat)
  sigma : List Rat
  source : Nat
  deriving Repr

def getD0 (l : List Rat) (i : Nat) : Rat := l[i]?.getD 0

/-- `bfs` of betweenness.rs. State: (queue, D, sigma, P, S). -/
def bcBfsLoop (adjOf : Nat → List Adj) : Nat → List Nat → List (Option Int) → List Rat → List (List Nat) → List Nat →
    (List (Option Int) × List Rat × List (List Nat) × List Nat)
  | 0, _, D, sigma, P, S => (D, sigma, P, S)
  | _, [], D, sigma, P, S => (D, sigma, P, S)
  | fuel + 1, v :: queue, D, sigma, P, S =>
    let S := S ++ [v]
    let dv : Int := (D[v]?.join).getD 0
    let sv := getD0 sigma v
    let (queue, D, sigma, P) := (adjOf v).foldl (fun (acc : List Nat × List (Option Int) × List Rat × List (List Nat)) adj =>
      let (queue, D, sigma, P) := acc
      let w := adj.1
      let vw := dv + 1
      let (queue, D) := if (D[w]?.join).isNone then (queue ++ [w], D.set w (some vw)) else (queue, D)
      if D[w]?.join == some vw then (queue, D, sigma.set w (getD0 sigma w + sv), P.set w ((P[w]?.getD []) ++ [v]))
      else (queue, D, sigma, P)) (queue, D, sigma, P)
    bcBfsLoop adjOf fuel queue D sigma P S

def bcBfs (adjOf : Nat → List Adj) (n source : Nat) : SSR :=
  let D := (List.replicate n (none : Option Int)).set source (some 0)
  let sigma := (List.replicate n (0 : Rat)).set source 1
  let (_, sigma, P, S) := bcBfsLoop adjOf (n + 1) [source] D sigma (List.replicate n []) []
  ⟨S, P, sigma, source⟩

/-- `FringeNode` of centrality/fringe_node.rs: (distance, pred, v); ordered by distance only.
    Which of several entries with the same distance the heap pops first is not specified; the
    model pops the first pushed. -/
abbrev CNode := Int × Nat × Nat

def popMinDist : List CNode → Option (CNode × List CNode)
  | [] => none
  | x :: xs =>
    let best := xs.foldl (fun b y => if y.1 < b.1 then y else b) x
    some (best, (x :: xs).erase best)

structure BState where
  D : List (Option Int)
  seen : List (Option Int)
  sigma : List Rat
  P : List (List Nat)
  S : List Nat
  fringe : List CNode

/-- `dijkstra` of betweenness.rs (weights must not be NaN). -/
def bcDijkstraLoop (adjOf : Nat → List Adj) : Nat → BState → BState
  | 0, st => st
  | fuel + 1, st =>
    match popMinDist st.fringe with
    | none => st
    | some ((dist, pred, v), rest) =>
      let st := { st with fringe := rest }
      if (st.D[v]?.join).isSome then bcDijkstraLoop adjOf fuel st
      else
        let st := { st with sigma := st.sigma.set v (getD0 st.sigma v + getD0 st.sigma pred),
                            S := st.S ++ [v], D := st.D.set v (some dist) }
        let st := (adjOf v).foldl (fun (st : BState) adj =>
          let w := adj.1
          let cost : Int := adj.2.getD 0
          let vw := dist + cost
          let seenW := st.seen[w]?.join
          if (st.D[w]?.join).isNone && (match seenW with | none => true | some sw => vw < sw) then
            { st with seen := st.seen.set w (some vw), fringe := st.fringe ++ [(vw, v, w)],
                      sigma := st.sigma.set w 0, P := st.P.set w [v] }
          else if seenW == some vw then
            { st with sigma := st.sigma.set w (getD0 st.sigma w + getD0 st.sigma v),
                      P := st.P.set w ((st.P[w]?.getD []) ++ [v]) }
          else st) st
        bcDijkstraLoop adjOf fuel st

def bcDijkstra (adjOf : Nat → List Adj) (n total source : Nat) : SSR :=
  let st0 : BState :=
    { D := List.replicate n none, seen := (List.replicate n none).set source (some 0),
      sigma := (List.replicate n (0 : Rat)).set source 1, P := List.replicate n [], S := [],
      fringe := [(0, source, source)] }
  let st := bcDijkstraLoop adjOf (total + 2) st0
  ⟨st.S, st.P, st.sigma, source⟩

/-- `accumulate_betweenness` -/
def accumulate (bc : List Rat) (r : SSR) : List Rat :=
  let (bc, _) := r.S.reverse.foldl (fun (acc : List Rat × List Rat) w =>
    let (bc, delta) := acc
    let coeff := (1 + getD0 delta w) / getD0 r.sigma w
    let delta := (r.P[w]?.getD []).foldl (fun delta v => delta.set v (getD0 delta v + getD0 r.sigma v * coeff)) delta
    let bc := if w != r.source then bc.set w (getD0 bc w + getD0 delta w) else bc
    (bc, delta)) (bc, List.replicate bc.length (0 : Rat))
  bc

/-- `get_scale` -/
def bcScale (n : Nat) (normalized directed : Bool) : Option Rat :=
  if normalized then (if n ≤ 2 then none else some (1 / (((n : Rat) - 1) * ((n : Rat) - 2))))
  else if directed then none else some (1 / 2)

/-- `betweenness_centrality`. The serial and the parallel branch compute the per-source results
    and fold them in index order; see Model/Par.lean for the schedule-independence argument. -/
def Store.betweenness (s : Store) (weighted normalized : Bool) : Outcome (List (Nat × Rat)) :=
  let n := s.numberOfNodes
  let adjOf := fun v => s.succVec[v]?.getD []
  let bc := (List.range n).foldl (fun bc src =>
    accumulate bc (if weighted then bcDijkstra adjOf n s.totalAdj src else bcBfs adjOf n src)) (List.replicate n (0 : Rat))
  let bc := match bcScale s.getAllNodes.length normalized s.specs.directed with
    | some sc => bc.map (· * sc)
    | none => bc
  bc.zipIdx.foldl (fun acc p => do
    let out ← acc
    let nd ← Outcome.ofOption "betweenness: get_node_by_index().unwrap()" (s.getNodeByIndex p.2)
    .ok (ainsert out nd.name p.1)) (.ok [])

/-! ## closeness.rs -/

/-- `single_source_shortest_path_length_unweighted` (level-synchronous BFS) -/
def ccLevels (adjOf : Nat → List Adj) (n : Nat) : Nat → List Nat → List Nat → Int → List (Nat × Int) → List (Nat × Int)
  | 0, _, _, _, res => res
  | fuel + 1, level, seen, lvl, res =>
    if level.isEmpty then res
    else
      let (seen, found, res) := level.foldl (fun (acc : List Nat × List Nat × List (Nat × Int)) v =>
        let (seen, found, res) := acc
        if seen.contains v then acc else (seen ++ [v], found ++ [v], res ++ [(v, lvl)])) (seen, [], res)
      if seen.length == n then res
      else
        let next := found.foldl (fun nx v => (adjOf v).foldl (fun nx a => sinsert nx a.1) nx) []
        ccLevels adjOf n fuel next seen (lvl + 1) res

/-- `single_source_shortest_path_length_weighted` (the betweenness Dijkstra without S and P) -/
def ccWeighted (adjOf : Nat → List Adj) (n total source : Nat) : List (Nat × Int) :=
  let r := bcDijkstraLoop adjOf (total + 2)
    { D := List.replicate n none, seen := (List.replicate n none).set source (some 0),
      sigma := (List.replicate n (0 : Rat)).set source 1, P := List.replicate n [], S := [],
      fringe := [(0, source, source)] }
  r.D.zipIdx.filterMap fun p => p.1.map fun d => (p.2, d)

/-- `get_node_centrality` -/
def nodeCentrality (sp : List (Nat × Int)) (numNodes : Nat) (wf : Bool) : Rat :=
  let tot : Int := sumInt (sp.map (·.2))
  if tot > 0 && numNodes > 1 then
    let s : Rat := ((sp.length - 1 : Nat) : Rat)
    let cc := s / (tot : Rat)
    if wf then cc * (s / ((numNodes - 1 : Nat) : Rat)) else cc
  else 0

/-- `closeness_centrality` -/
def Store.closeness (s : Store) (weighted wf : Bool) : Outcome (List (Nat × Rat)) := do
  let g ← if s.specs.directed then s.reverse.unwrap "closeness: reverse().unwrap()" else .ok s
  let n := g.numberOfNodes
  let adjOf := fun v => g.succVec[v]?.getD []
  (List.range n).foldl (fun acc src => do
    let out ← acc
    let sp := if weighted then ccWeighted adjOf n g.totalAdj src else ccLevels adjOf n (n + 1) [src] [] 0 []
    let nd ← Outcome.ofOption "closeness: get_node_by_index().unwrap()" (g.getNodeByIndex src)
    .ok (ainsert out nd.name (nodeCentrality sp n wf))) (.ok [])

/-! ## eigenvector.rs (over `Float`) -/

def wFloat : W → Float
  | none => Float.ofInt 0 / Float.ofInt 0   -- NaN
  | some x => Float.ofInt x

def fsum (l : List Float) : Float := l.foldl (· + ·) 0.0

structure EigResult where
  /-- `none` = PowerIterationFailedConvergence -/
  value : Option (List (Nat × Float))
  iterations : Nat
  /-- smallest distance, over the iterations, between the L1 change and the threshold
      (a tiny margin means the float-rounding of the real code may stop at another iteration) -/
  margin : Float

/-- One step `x -> normalise(x + A^T x)` over the model's store. -/
def Store.eigStep (s : Store) (weighted : Bool) (xlast : List (Nat × Float)) : Outcome (List (Nat × Float)) := do
  let x ← xlast.foldl (fun acc kv => do
    let x ← acc
    let nbrs ← s.getSuccessorsOrNeighbors kv.1
    nbrs.foldl (fun acc2 nbr => do
      let x ← acc2
      let e ← (s.getEdge kv.1 nbr.name).unwrap "eigenvector: get_edge().unwrap()"
      let w : Float := if !weighted || e.w.isNan then 1.0 else wFloat e.w
      match alookup x nbr.name with
      | some old => .ok (ainsert x nbr.name (old + kv.2 * w))
      | none => .panic "eigenvector: x.get_mut().unwrap()") (.ok x)) (.ok xlast)
  let norm := Float.sqrt (fsum (x.map fun kv => kv.2 * kv.2))
  let norm := if norm == 0.0 then 1.0 else norm
  .ok (x.map fun kv => (kv.1, kv.2 / norm))

def eigLoop (s : Store) (weighted : Bool) (nnodes : Nat) (tol : Float) :
    Nat → Nat → List (Nat × Float) → Float → Outcome EigResult
  | 0, it, _, margin => .ok ⟨none, it, margin⟩
  | fuel + 1, it, xlast, margin =>
    match s.eigStep weighted xlast with
    | .ok x =>
      let y := fsum (x.map fun kv => Float.abs (kv.2 - (alookup xlast kv.1).getD 0.0))
      let thr := Float.ofNat nnodes * tol
      let m := Float.abs (y - thr)
      let margin := if m < margin then m else margin
      if y < thr then .ok ⟨some x, it + 1, margin⟩
      else eigLoop s weighted nnodes tol fuel (it + 1) x margin
    | .err k => .err k
    | .panic site => .panic site

/-- `eigenvector_centrality` -/
def Store.eigenvector (s : Store) (weighted : Bool) (maxIter : Nat) (tol : Float) : Outcome EigResult := do
  s.ensureNotMulti
  let n := s.getAllNodes.length
  let x0 := s.getAllNodes.foldl (fun l nd => ainsert l nd.name (1.0 / Float.ofNat n)) []
  eigLoop s weighted n tol maxIter 0 x0 (1.0 / 0.0)

end Graphrs
