/-
  Executable models of src/algorithms/centrality/{betweenness,closeness,eigenvector}.rs.
  Betweenness and closeness are computed in exact rationals from integer-valued weights;
  eigenvector centrality is executed over `Float` (it takes square roots).
-/
import GraphrsModel.Model.Dijkstra
namespace Graphrs

/-! ## betweenness.rs -/

/-- `SingleSourceResults` -/
structure SSR where
  S : List Nat
  P : List (List Nat)
  sigma : List Rat
  source : Nat
  deriving Repr

def getD0 (l : List Rat) (i : Nat) : Rat := l[i]?.getD 0

/-- `bfs` of betweenness.rs. State: (queue, D, sigma, P, S). -/
def bcBfsLoop (adjOf : Nat → List Adj) : Nat → List Nat → List (Option Int) → List Rat → List (List Nat) → List Nat →
    (List (Option Int) × List Rat × List (List Nat) × List Nat)
  | 0, _, D, sigma, P, S => (D, sigma, P, S)
  | _, [], D, sigma, P, S => (D, sigma, P, S)
  | fuel + 1, v :: queue, D, sigma, P, S =>
    let S := S ++ [v]
    let dv : Int := (D[v]?.join).getD 0
    let sv := getD0 sigma v
    let (queue, D, sigma, P) := (adjOf v).foldl (fun (acc : List Nat × List (Option Int) × List Rat × List (List Nat)) adj =>
      let (queue, D, sigma, P) := acc
      let w := adj.1
      let vw := dv + 1
      let (queue, D) := if (D[w]?.join).isNone then (queue ++ [w], D.set w (some vw)) else (queue, D)
      if D[w]?.join == some vw then (queue, D, sigma.set w (getD0 sigma w + sv), P.set w ((P[w]?.getD []) ++ [v]))
      else (queue, D, sigma, P)) (queue, D, sigma, P)
    bcBfsLoop adjOf fuel queue D sigma P S

def bcBfs (adjOf : Nat → List Adj) (n source : Nat) : SSR :=
  let D := (List.replicate n (none : Option Int)).set source (some 0)
  let sigma := (List.replicate n (0 : Rat)).set source 1
  let (_, sigma, P, S) := bcBfsLoop adjOf (n + 1) [source] D sigma (List.replicate n []) []
  ⟨S, P, sigma, source⟩

/-- `FringeNode` of centrality/fringe_node.rs: (distance, pred, v); ordered by distance only.
    Which of several entries with the same distance the heap pops first is not specified; the
    model pops the first pushed. -/
abbrev CNode := Int × Nat × Nat

def popMinDist : List CNode → Option (CNode × List CNode)
  | [] => none
  | x :: xs =>
    let best := xs.foldl (fun b y => if y.1 < b.1 then y else b) x
    some (best, (x :: xs).erase best)

structure BState where
  D : List (Option Int)
  seen : List (Option Int)
  sigma : List Rat
  P : List (List Nat)
  S : List Nat
  fringe : List CNode

/-- `dijkstra` of betweenness.rs (weights must not be NaN). -/
def bcDijkstraLoop (adjOf : Nat → List Adj) : Nat → BState → BState
  | 0, st => st
  | fuel + 1, st =>
    match popMinDist st.fringe with
    | none => st
    | some ((dist, pred, v), rest) =>
      let st := { st with fringe := rest }
      if (st.D[v]?.join).isSome then bcDijkstraLoop adjOf fuel st
      else
        let st := { st with sigma := st.sigma.set v (getD0 st.sigma v + getD0 st.sigma pred),
                            S := st.S ++ [v], D := st.D.set v (some dist) }
        let st := (adjOf v).foldl (fun (st : BState) adj =>
          let w := adj.1
          let cost : Int := adj.2.getD 0
          let vw := dist + cost
          let seenW := st.seen[w]?.join
          if (st.D[w]?.join).isNone && (match seenW with | none => true | some sw => vw < sw) then
            { st with seen := st.seen.set w (some vw), fringe := st.fringe ++ [(vw, v, w)],
                      sigma := st.sigma.set w 0, P := st.P.set w [v] }
          else if seenW == some vw then
            { st with sigma := st.sigma.set w (getD0 st.sigma w + getD0 st.sigma v),
                      P := st.P.set w ((st.P[w]?.getD []) ++ [v]) }
          else st) st
        bcDijkstraLoop adjOf fuel st

def bcDijkstra (adjOf : Nat → List Adj) (n total source : Nat) : SSR :=
  let st0 : BState :=
    { D := List.replicate n none, seen := (List.replicate n none).set source (some 0),
      sigma := (List.replicate n (0 : Rat)).set source 1, P := List.replicate n [], S := [],
      fringe := [(0, source, source)] }
  let st := bcDijkstraLoop adjOf (total + 2) st0
  ⟨st.S, st.P, st.sigma, source⟩

/-- `accumulate_betweenness` -/
def accumulate (bc : List Rat) (r : SSR) : List Rat :=
  let (bc, _) := r.S.reverse.foldl (fun (acc : List Rat × List Rat) w =>
    let (bc, delta) := acc
    let coeff := (1 + getD0 delta w) / getD0 r.sigma w
    let delta := (r.P[w]?.getD []).foldl (fun delta v => delta.set v (getD0 delta v + getD0 r.sigma v * coeff)) delta
    let bc := if w != r.source then bc.set w (getD0 bc w + getD0 delta w) else bc
    (bc, delta)) (bc, List.replicate bc.length (0 : Rat))
  bc

/-- `get_scale` -/
def bcScale (n : Nat) (normalized directed : Bool) : Option Rat :=
  if normalized then (if n ≤ 2 then none else some (1 / (((n : Rat) - 1) * ((n : Rat) - 2))))
  else if directed then none else some (1 / 2)

/-- `betweenness_centrality`. The serial and the parallel branch compute the per-source results
    and fold them in index order; see Model/Par.lean for the schedule-independence argument. -/
def Store.betweenness (s : Store) (weighted normalized : Bool) : Outcome (List (Nat × Rat)) :=
  let n := s.numberOfNodes
  let adjOf := fun v => s.succVec[v]?.getD []
  let bc := (List.range n).foldl (fun bc src =>
    accumulate bc (if weighted then bcDijkstra adjOf n s.totalAdj src else bcBfs adjOf n src)) (List.replicate n (0 : Rat))
  let bc := match bcScale s.getAllNodes.length normalized s.specs.directed with
    | some sc => bc.map (· * sc)
    | none => bc
  bc.zipIdx.foldl (fun acc p => do
    let out ← acc
    let nd ← Outcome.ofOption "betweenness: get_node_by_index().unwrap()" (s.getNodeByIndex p.2)
    .ok (ainsert out nd.name p.1)) (.ok [])

/-! ## closeness.rs -/

/-- `single_source_shortest_path_length_unweighted` (level-synchronous BFS) -/
def ccLevels (adjOf : Nat → List Adj) (n : Nat) : Nat → List Nat → List Nat → Int → List (Nat × Int) → List (Nat × Int)
  | 0, _, _, _, res => res
  | fuel + 1, level, seen, lvl, res =>
    if level.isEmpty then res
    else
      let (seen, found, res) := level.foldl (fun (acc : List Nat × List Nat × List (Nat × Int)) v =>
        let (seen, found, res) := acc
        if seen.contains v then acc else (seen ++ [v], found ++ [v], res ++ [(v, lvl)])) (seen, [], res)
      if seen.length == n then res
      else
        let next := found.foldl (fun nx v => (adjOf v).foldl (fun nx a => sinsert nx a.1) nx) []
        ccLevels adjOf n fuel next seen (lvl + 1) res

/-- `single_source_shortest_path_length_weighted` (the betweenness Dijkstra without S and P) -/
def ccWeighted (adjOf : Nat → List Adj) (n total source : Nat) : List (Nat × Int) :=
  let r := bcDijkstraLoop adjOf (total + 2)
    { D := List.replicate n none, seen := (List.replicate n none).set source (some 0),
      sigma := (List.replicate n (0 : Rat)).set source 1, P := List.replicate n [], S := [],
      fringe := [(0, source, source)] }
  r.D.zipIdx.filterMap fun p => p.1.map fun d => (p.2, d)

/-- `get_node_centrality` -/
def nodeCentrality (sp : List (Nat × Int)) (numNodes : Nat) (wf : Bool) : Rat :=
  let tot : Int := sumInt (sp.map (·.2))
  if tot > 0 && numNodes > 1 then
    let s : Rat := ((sp.length - 1 : Nat) : Rat)
    let cc := s / (tot : Rat)
    if wf then cc * (s / ((numNodes - 1 : Nat) : Rat)) else cc
  else 0

/-- `closeness_centrality` -/
def Store.closeness (s : Store) (weighted wf : Bool) : Outcome (List (Nat × Rat)) := do
  let g ← if s.specs.directed then s.reverse.unwrap "closeness: reverse().unwrap()" else .ok s
  let n := g.numberOfNodes
  let adjOf := fun v => g.succVec[v]?.getD []
  (List.range n).foldl (fun acc src => do
    let out ← acc
    let sp := if weighted then ccWeighted adjOf n g.totalAdj src else ccLevels adjOf n (n + 1) [src] [] 0 []
    let nd ← Outcome.ofOption "closeness: get_node_by_index().unwrap()" (g.getNodeByIndex src)
    .ok (ainsert out nd.name (nodeCentrality sp n wf))) (.ok [])

/-! ## eigenvector.rs (written once, generically over the scalar type; executed over `Float`) -/

/-- The `f64` arithmetic eigenvector.rs uses, as a record of operations: the step, the stopping test and the loop
    below are written ONCE over an arbitrary `Scalar α` and instantiated at `Float` (`floatScalar`, what the driver
    executes against the implementation) and at `ℝ` (`realScalar` in Props/C18Model.lean, what the C18 theorems are
    about). -/
structure Scalar (α : Type) where
  zero : α
  one : α
  add : α → α → α
  sub : α → α → α
  mul : α → α → α
  div : α → α → α
  sqrt : α → α
  abs : α → α
  /-- `a < b` -/
  lt : α → α → Bool
  /-- `a == 0.0` -/
  isZero : α → Bool
  /-- `n as f64` -/
  ofNat : Nat → α
  /-- the `f64` of a stored weight (`none` is NaN) -/
  ofW : W → α

def wFloat : W → Float
  | none => Float.ofInt 0 / Float.ofInt 0   -- NaN
  | some x => Float.ofInt x

/-- IEEE double arithmetic: the instance the driver runs. -/
def floatScalar : Scalar Float where
  zero := 0.0
  one := 1.0
  add := (· + ·)
  sub := (· - ·)
  mul := (· * ·)
  div := (· / ·)
  sqrt := Float.sqrt
  abs := Float.abs
  lt := fun a b => a < b
  isZero := fun a => a == 0.0
  ofNat := Float.ofNat
  ofW := wFloat

/-- `.sum()` of an `f64` iterator: left fold from zero -/
def sumG {α} (S : Scalar α) (l : List α) : α := l.foldl S.add S.zero

def fsum (l : List Float) : Float := sumG floatScalar l

structure EigResultG (α : Type) where
  /-- `none` = PowerIterationFailedConvergence -/
  value : Option (List (Nat × α))
  iterations : Nat
  /-- smallest distance, over the iterations, between the L1 change and the threshold
      (a tiny margin means the float-rounding of the real code may stop at another iteration) -/
  margin : α

abbrev EigResult := EigResultG Float

/-- the weight the iteration uses for a stored edge: `match !weighted || edge.weight.is_nan() { true => 1.0, false => edge.weight }` -/
def eigWeightG {α} (S : Scalar α) (weighted : Bool) (e : Edge) : α :=
  if !weighted || e.w.isNan then S.one else S.ofW e.w

/-- body of the inner loop `for nbr in graph.get_successors_or_neighbors(n)`: `x[nbr] += xlast[n] * w`
    (`kv = (n, xlast[n])`) -/
def Store.eigInnerG {α} (S : Scalar α) (s : Store) (weighted : Bool) (kv : Nat × α)
    (acc2 : Outcome (List (Nat × α))) (nbr : Node) : Outcome (List (Nat × α)) := do
  let x ← acc2
  let e ← (s.getEdge kv.1 nbr.name).unwrap "eigenvector: get_edge().unwrap()"
  let w : α := eigWeightG S weighted e
  match alookup x nbr.name with
  | some old => .ok (ainsert x nbr.name (S.add old (S.mul kv.2 w)))
  | none => .panic "eigenvector: x.get_mut().unwrap()"

/-- body of the outer loop `for n in xlast.keys()` -/
def Store.eigOuterG {α} (S : Scalar α) (s : Store) (weighted : Bool)
    (acc : Outcome (List (Nat × α))) (kv : Nat × α) : Outcome (List (Nat × α)) := do
  let x ← acc
  let nbrs ← s.getSuccessorsOrNeighbors kv.1
  nbrs.foldl (s.eigInnerG S weighted kv) (.ok x)

/-- The two nested `for` loops: `x = xlast.clone()`, then `x[nbr] += xlast[n] * w` for every `n` and every successor /
    neighbour `nbr` of `n`, i.e. `x = xlast + A^T xlast`. -/
def Store.eigAccG {α} (S : Scalar α) (s : Store) (weighted : Bool) (xlast : List (Nat × α)) : Outcome (List (Nat × α)) :=
  xlast.foldl (s.eigOuterG S weighted) (.ok xlast)

/-- `norm = sqrt(sum v^2)`, replaced by 1 when it is 0; `v /= norm` -/
def eigNormaliseG {α} (S : Scalar α) (x : List (Nat × α)) : List (Nat × α) :=
  let norm := S.sqrt (sumG S (x.map fun kv => S.mul kv.2 kv.2))
  let norm := if S.isZero norm then S.one else norm
  x.map fun kv => (kv.1, S.div kv.2 norm)

/-- One step `x -> normalise(x + A^T x)` over the model's store. -/
def Store.eigStepG {α} (S : Scalar α) (s : Store) (weighted : Bool) (xlast : List (Nat × α)) : Outcome (List (Nat × α)) := do
  let x ← s.eigAccG S weighted xlast
  .ok (eigNormaliseG S x)

/-- the L1 change `y = sum |x[k] - xlast[k]|` of the stopping test -/
def eigDeltaG {α} (S : Scalar α) (xlast x : List (Nat × α)) : α :=
  sumG S (x.map fun kv => S.abs (S.sub kv.2 ((alookup xlast kv.1).getD S.zero)))

/-- the stopping test `y < nnodes as f64 * tolerance` -/
def eigConvergedG {α} (S : Scalar α) (nnodes : Nat) (tol : α) (xlast x : List (Nat × α)) : Bool :=
  S.lt (eigDeltaG S xlast x) (S.mul (S.ofNat nnodes) tol)

def eigLoopG {α} (S : Scalar α) (s : Store) (weighted : Bool) (nnodes : Nat) (tol : α) :
    Nat → Nat → List (Nat × α) → α → Outcome (EigResultG α)
  | 0, it, _, margin => .ok ⟨none, it, margin⟩
  | fuel + 1, it, xlast, margin =>
    match s.eigStepG S weighted xlast with
    | .ok x =>
      let y := eigDeltaG S xlast x
      let thr := S.mul (S.ofNat nnodes) tol
      let m := S.abs (S.sub y thr)
      let margin := if S.lt m margin then m else margin
      if S.lt y thr then .ok ⟨some x, it + 1, margin⟩
      else eigLoopG S s weighted nnodes tol fuel (it + 1) x margin
    | .err k => .err k
    | .panic site => .panic site

/-- `eigenvector_centrality`; `margin0` is the initial value of the margin bookkeeping (not part of the Rust code) -/
def Store.eigenvectorG {α} (S : Scalar α) (s : Store) (weighted : Bool) (maxIter : Nat) (tol margin0 : α) :
    Outcome (EigResultG α) := do
  s.ensureNotMulti
  let n := s.getAllNodes.length
  let x0 := s.getAllNodes.foldl (fun l nd => ainsert l nd.name (S.div S.one (S.ofNat n))) []
  eigLoopG S s weighted n tol maxIter 0 x0 margin0

/-! ### the `Float` instances (what the driver runs) -/

def Store.eigStep (s : Store) (weighted : Bool) (xlast : List (Nat × Float)) : Outcome (List (Nat × Float)) :=
  s.eigStepG floatScalar weighted xlast

def eigLoop (s : Store) (weighted : Bool) (nnodes : Nat) (tol : Float) :
    Nat → Nat → List (Nat × Float) → Float → Outcome EigResult :=
  eigLoopG floatScalar s weighted nnodes tol

/-- `eigenvector_centrality` -/
def Store.eigenvector (s : Store) (weighted : Bool) (maxIter : Nat) (tol : Float) : Outcome EigResult :=
  s.eigenvectorG floatScalar weighted maxIter tol (1.0 / 0.0)

end Graphrs
