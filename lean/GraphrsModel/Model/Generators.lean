/-
  Executable models of src/generators/{classic,random}.rs.  The random generator takes the
  list of geometric skips as input (the harness computes them with the same crates and the same
  expression the code uses); `w` is an `i64` with saturating additions, as in the code.
-/
import GraphrsModel.Model.Store
namespace Graphrs

/-- `(0..n).combinations(2)` -/
def combos2 (n : Nat) : List (Nat × Nat) :=
  (List.range n).flatMap fun i => ((List.range n).filter (· > i)).map fun j => (i, j)
/-- `(0..n).permutations(2)` -/
def perms2 (n : Nat) : List (Nat × Nat) :=
  (List.range n).flatMap fun i => ((List.range n).filter (· != i)).map fun j => (i, j)

def completeSpecs (directed : Bool) : Specs :=
  { directed := directed, multi := false, selfLoops := false, dedupe := .error, missing := .create, slFalse := .error }

/-- `complete_graph` -/
def completeGraph (n : Nat) (directed : Bool) : Outcome Store :=
  (Store.newFrom (completeSpecs directed) ((List.range n).map fun i => ⟨i, none⟩)
    ((if directed then perms2 n else combos2 n).map fun p => Edge.tuple p.1 p.2)).unwrap "complete_graph: unwrap"

def i64Max : Int := 9223372036854775807
def satAdd (a b : Int) : Int := if a + b > i64Max then i64Max else a + b

/-- the inner `while v < n && n <= w` loop of the directed generator -/
def gnpDirRow (n : Int) : Nat → Int → Int → Int × Int
  | 0, v, w => (v, w)
  | fuel + 1, v, w =>
    if v < n && n ≤ w then
      let w := w - n
      let v := v + 1
      let w := if v == w then w + 1 else w
      gnpDirRow n fuel v w
    else (v, w)

/-- `fast_gnp_random_graph_directed`: returns the edge list, or `none` if the skips ran out -/
def gnpDirected (n : Int) : Nat → List Int → Int → Int → List (Int × Int) → Option (List (Int × Int))
  | 0, _, _, _, _ => none
  | fuel + 1, skips, v, w, acc =>
    if v < n then
      match skips with
      | [] => none
      | sk :: rest =>
        let w := satAdd (satAdd w 1) sk
        let w := if v == w then satAdd w 1 else w
        let (v, w) := gnpDirRow n (n.toNat + 1) v w
        let acc := if v < n then acc ++ [(v, w)] else acc
        gnpDirected n fuel rest v w acc
    else some acc

/-- the inner `while w >= v && v < n` loop of the undirected generator -/
def gnpUndRow (n : Int) : Nat → Int → Int → Int × Int
  | 0, v, w => (v, w)
  | fuel + 1, v, w =>
    if w ≥ v && v < n then gnpUndRow n fuel (v + 1) (w - v) else (v, w)

def gnpUndirected (n : Int) : Nat → List Int → Int → Int → List (Int × Int) → Option (List (Int × Int))
  | 0, _, _, _, _ => none
  | fuel + 1, skips, v, w, acc =>
    if v < n then
      match skips with
      | [] => none
      | sk :: rest =>
        let w := satAdd (satAdd w 1) sk
        let (v, w) := gnpUndRow n (n.toNat + 1) v w
        let acc := if v < n then acc ++ [(v, w)] else acc
        gnpUndirected n fuel rest v w acc
    else some acc

def gnpSpecs (directed : Bool) : Specs :=
  { directed := directed, multi := false, selfLoops := false, dedupe := .error, missing := .create, slFalse := .error }

/-- `fast_gnp_random_graph` given the skip sequence (the probability check happens before) -/
def fastGnp (n : Int) (directed : Bool) (skips : List Int) : Outcome (Option Store) :=
  let edges := if directed then gnpDirected n (skips.length + 1) skips 0 (-1) []
               else gnpUndirected n (skips.length + 1) skips 1 (-1) []
  match edges with
  | none => .ok none    -- not enough skips supplied: no verdict
  | some es =>
    let s := (Store.new (gnpSpecs directed)).addNodes ((List.range n.toNat).map fun i => ⟨i, none⟩)
    match s.addEdges (es.map fun p => Edge.tuple p.1.toNat p.2.toNat) with
    | (s, none) => .ok (some s)
    | (_, some k) => .err k

end Graphrs
