/-
  Executable model of src/algorithms/cluster/*.rs.  Unweighted coefficients are exact
  rationals; the weighted ones take cube roots: they are written generically over a scalar
  record (`CScalar`) and executed over `Float`.
-/
import GraphrsModel.Model.Query
import GraphrsModel.CScalar
namespace Graphrs
namespace Store

def namesOf (x : Outcome (List Node)) : Outcome (List Nat) := x.map' fun l => l.map (·.name)

/-- `get_adjacent_nodes_without` -/
def adjWithout (s : Store) (name : Nat) (preds : Bool) : Outcome (List Nat) := do
  let l ← (namesOf (if preds then s.getPredecessorNodes name else s.getSuccessorNodes name)).unwrap
    "get_adjacent_nodes_without: unwrap"
  .ok ((dedup l).filter (· != name))

/-- `get_neighbors_of_nodes` -/
def neighborsOfNodes (s : Store) (names : Option (List Nat)) : Outcome (List (Nat × List Nat)) :=
  let all := match names with
    | none => s.getAllNodeNames
    | some l => if l.isEmpty then s.getAllNodeNames else l
  all.foldl (fun acc n => do
    let m ← acc
    let nb ← (namesOf (s.getNeighborNodes n)).unwrap "get_neighbors_of_nodes: get_neighbor_nodes().unwrap()"
    .ok (ainsert m n (dedup nb))) (.ok [])

structure TAD where
  name : Nat
  degree : Nat
  ntri : Nat
  gdeg : List (Nat × Nat)
  deriving Repr

/-- sorted → `chunk_by_count` → HashMap -/
def countMap (l : List Nat) : List (Nat × Nat) :=
  (sortNat l).foldl (fun m k => ainsert m k ((alookup m k).getD 0 + 1)) []

/-- `get_triangles_and_degrees` -/
def trianglesAndDegrees (s : Store) (names : Option (List Nat)) : Outcome (List TAD) := do
  let nmap ← s.neighborsOfNodes none
  let requested : List Nat := match names with
    | none => akeys nmap
    | some l => if l.isEmpty then akeys nmap else dedup l
  requested.foldl (fun acc v => do
    let out ← acc
    let vn ← Outcome.ofOption "get_triangles_and_degrees: neighbors_map.get().unwrap()" (alookup nmap v)
    let nbrs := vn.filter (· != v)
    let counts ← nbrs.foldl (fun a w => do
      let l ← a
      let wn ← Outcome.ofOption "get_triangles_and_degrees_for_node: neighbors_map.get(w).unwrap()" (alookup nmap w)
      .ok (l ++ [(sinter (wn.filter (· != w)) nbrs).length])) (.ok [])
    let gd := countMap counts
    .ok (out ++ [⟨v, nbrs.length, sumNat (gd.map fun kv => kv.1 * kv.2), gd⟩])) (.ok [])

def ensureHasNodes (s : Store) (names : Option (List Nat)) : Outcome Unit :=
  match names with
  | some l => if s.hasNodes l then .ok () else .err .NodeNotFound
  | none => .ok ()

/-- `triangles` -/
def triangles (s : Store) (names : Option (List Nat)) : Outcome (List (Nat × Nat)) := do
  s.ensureUndirected
  s.ensureHasNodes names
  let t ← s.trianglesAndDegrees names
  .ok (t.foldl (fun m x => ainsert m x.name (x.ntri / 2)) [])

/-- `generalized_degree` -/
def generalizedDegree (s : Store) (names : Option (List Nat)) : Outcome (List (Nat × List (Nat × Nat))) := do
  s.ensureUndirected
  s.ensureHasNodes names
  let t ← s.trianglesAndDegrees names
  .ok (t.foldl (fun m x => ainsert m x.name x.gdeg) [])

/-- `transitivity` -/
def transitivity (s : Store) : Outcome Rat := do
  s.ensureUndirected
  if s.getAllNodes.isEmpty then .ok 0
  else do
    let t ← s.trianglesAndDegrees none
    let tri := sumNat (t.map (·.ntri))
    let contri := sumNat (t.map fun x => x.degree * (x.degree - 1))
    .ok (if tri == 0 then 0 else (tri : Rat) / (contri : Rat))

structure DTAD where
  name : Nat
  total : Nat
  recip : Nat
  tri : Nat

/-- `get_directed_triangles_and_degrees` -/
def directedTrianglesAndDegrees (s : Store) (names : Option (List Nat)) : Outcome (List DTAD) := do
  let ns := match names with | none => s.getAllNodeNames | some l => l
  ns.foldl (fun acc i => do
    let out ← acc
    let ip ← s.adjWithout i true
    let is ← s.adjWithout i false
    let tri ← (ip ++ is).foldl (fun a j => do
      let t ← a
      let jp ← s.adjWithout j true
      let js ← s.adjWithout j false
      .ok (t + (sinter ip jp).length + (sinter ip js).length + (sinter is jp).length + (sinter is js).length)) (.ok 0)
    .ok (out ++ [⟨i, ip.length + is.length, (sinter ip is).length, tri⟩])) (.ok [])

/-- unweighted `clustering` -/
def clusteringUnweighted (s : Store) (names : Option (List Nat)) : Outcome (List (Nat × Rat)) := do
  s.ensureNotMulti
  s.ensureHasNodes names
  if s.specs.directed then do
    let t ← s.directedTrianglesAndDegrees names
    .ok (t.foldl (fun m x => ainsert m x.name
      (if x.tri == 0 then (0 : Rat)
       else (x.tri : Rat) / ((((x.total : Rat) * ((x.total : Rat) - 1)) - 2 * (x.recip : Rat)) * 2))) [])
  else do
    let t ← s.trianglesAndDegrees names
    .ok (t.foldl (fun m x => ainsert m x.name
      (if x.ntri == 0 then (0 : Rat) else (x.ntri : Rat) / ((x.degree : Rat) * ((x.degree : Rat) - 1)))) [])

/-! ### weighted variants (written once, generically over the scalar type; executed over `Float`) -/

end Store

namespace Store

def wToG {α} (S : CScalar α) : W → α
  | none => S.nan
  | some x => S.ofInt x

/-- `f64::max` as the fold in `get_max_weight` uses it -/
def fmaxG {α} (S : CScalar α) (a b : α) : α := if S.lt b a then a else if S.lt a b then b else if S.isNaN a then b else a

def maxWeightG {α} (S : CScalar α) (s : Store) : α :=
  match s.allEdges.map (fun e => wToG S e.w) with
  | [] => S.one
  | w :: ws => ws.foldl (fmaxG S) w

/-- `get_normalized_edge_weight` -/
def normWG {α} (S : CScalar α) (s : Store) (maxW : α) (u v : Nat) : α :=
  match s.getEdge u v with
  | .ok e => S.div (wToG S e.w) maxW
  | _ => S.div S.one maxW

/-- `.sum()` of an `f64` iterator: left fold from zero -/
def csumG {α} (S : CScalar α) (l : List α) : α := l.foldl S.add S.zero

/-- `get_weighted_triangles_and_degrees` → (name, degree, weighted_triangles) -/
def weightedTrianglesAndDegreesG {α} (S : CScalar α) (s : Store) (names : Option (List Nat)) :
    Outcome (List (Nat × Nat × α)) := do
  let maxW := s.maxWeightG S
  let nmap ← s.neighborsOfNodes names
  nmap.foldl (fun acc kv => do
    let out ← acc
    let n := kv.1
    let nbrs := kv.2.filter (· != n)
    let (_, total) ← nbrs.foldl (fun a u => do
      let (seen, tot) ← a
      let seen := sinsert seen u
      let un ← (namesOf (s.getNeighborNodes u)).unwrap "get_weighted_triangles_and_degrees_for_node: unwrap"
      let unbrs := sdiff (dedup un) seen
      let wnu := s.normWG S maxW n u
      let part := csumG S ((sinter nbrs unbrs).map fun k =>
        S.cbrt (S.mul (S.mul wnu (s.normWG S maxW u k)) (s.normWG S maxW k n)))
      .ok (seen, S.add tot part)) (.ok (([] : List Nat), S.zero))
    .ok (out ++ [(n, nbrs.length, S.mul total S.two)])) (.ok [])

/-- `get_all_directed_triangles` -/
def allDirectedTrianglesG {α} (S : CScalar α) (s : Store) (maxW : α) (i : Nat) (ip is : List Nat) (iterPreds : Bool) :
    Outcome α :=
  let wt := s.normWG S maxW
  (if iterPreds then ip else is).foldl (fun acc j => do
    let tot ← acc
    let (a, b) := if iterPreds then (j, i) else (i, j)
    let jp ← s.adjWithout j true
    let js ← s.adjWithout j false
    let t :=
      S.add (S.add (S.add
        (csumG S ((sinter ip jp).map fun k => S.cbrt (S.mul (S.mul (wt a b) (wt k i)) (wt k j))))
        (csumG S ((sinter ip js).map fun k => S.cbrt (S.mul (S.mul (wt a b) (wt k i)) (wt j k)))))
        (csumG S ((sinter is jp).map fun k => S.cbrt (S.mul (S.mul (wt a b) (wt i k)) (wt k j)))))
        (csumG S ((sinter is js).map fun k => S.cbrt (S.mul (S.mul (wt a b) (wt i k)) (wt j k))))
    .ok (S.add tot t)) (.ok S.zero)

/-- weighted `clustering` -/
def clusteringWeightedG {α} (S : CScalar α) (s : Store) (names : Option (List Nat)) : Outcome (List (Nat × α)) := do
  s.ensureNotMulti
  s.ensureHasNodes names
  s.ensureWeighted
  if s.specs.directed then do
    let maxW := s.maxWeightG S
    let ns := match names with | none => s.getAllNodeNames | some l => l
    ns.foldl (fun acc i => do
      let out ← acc
      let ip ← s.adjWithout i true
      let is ← s.adjWithout i false
      let t1 ← s.allDirectedTrianglesG S maxW i ip is true
      let t2 ← s.allDirectedTrianglesG S maxW i ip is false
      let t := S.add t1 t2
      let tot := S.ofNat (ip.length + is.length)
      let rec_ := S.ofNat (sinter ip is).length
      .ok (ainsert out i (if S.isZero t then S.zero
        else S.div t (S.mul (S.sub (S.mul tot (S.sub tot S.one)) (S.mul S.two rec_)) S.two)))) (.ok [])
  else do
    let t ← s.weightedTrianglesAndDegreesG S names
    .ok (t.foldl (fun m x =>
      let d := S.ofNat x.2.1
      ainsert m x.1 (if S.isZero x.2.2 then S.zero else S.div x.2.2 (S.mul d (S.sub d S.one)))) [])

/-- `average_clustering` over already computed coefficients -/
def averageOfG {α} (S : CScalar α) (vals : List α) (countZeros : Bool) : α :=
  let vs := vals.filter fun v => countZeros || S.lt S.zero (S.abs v)
  S.div (csumG S vs) (S.ofNat vs.length)

/-! #### the `Float` instances (what the driver runs) -/

def wToFloat : W → Float := wToG floatCScalar
def fmax (a b : Float) : Float := fmaxG floatCScalar a b
def maxWeight (s : Store) : Float := s.maxWeightG floatCScalar
def normW (s : Store) (maxW : Float) (u v : Nat) : Float := s.normWG floatCScalar maxW u v
def fsumL (l : List Float) : Float := csumG floatCScalar l
def weightedTrianglesAndDegrees (s : Store) (names : Option (List Nat)) : Outcome (List (Nat × Nat × Float)) :=
  s.weightedTrianglesAndDegreesG floatCScalar names
def allDirectedTriangles (s : Store) (maxW : Float) (i : Nat) (ip is : List Nat) (iterPreds : Bool) : Outcome Float :=
  s.allDirectedTrianglesG floatCScalar maxW i ip is iterPreds
/-- weighted `clustering` -/
def clusteringWeighted (s : Store) (names : Option (List Nat)) : Outcome (List (Nat × Float)) :=
  s.clusteringWeightedG floatCScalar names
/-- `average_clustering` over already computed coefficients (as Float) -/
def averageOf (vals : List Float) (countZeros : Bool) : Float := averageOfG floatCScalar vals countZeros

/-! ### square.rs -/

/-- `gnos` (self-loops never count) -/
def gnos (s : Store) (n : Nat) : Outcome (List Nat) := do
  let l ← namesOf (s.getSuccessorsOrNeighbors n)
  .ok ((dedup l).filter (· != n))

def pairsOf {α} : List α → List (α × α)
  | [] => []
  | x :: xs => xs.map (fun y => (x, y)) ++ pairsOf xs

/-- `square_clustering` for one node -/
def squareCoefficient (s : Store) (v : Nat) : Outcome Rat := do
  let nb ← namesOf (s.getSuccessorsOrNeighbors v)
  let nbrs := nb.filter (· != v)
  let (c, p) ← (pairsOf nbrs).foldl (fun acc uw => do
    let (c, p) ← acc
    let un ← s.gnos uw.1
    let wn ← s.gnos uw.2
    let squares : Int := ((sinter un wn).filter (· != v)).length
    let degm : Int := if un.contains uw.2 then squares + 2 else squares + 1
    let potential : Int := ((un.length : Int) - degm) + ((wn.length : Int) - degm) + squares
    .ok (c + squares, p + potential)) (.ok ((0 : Int), (0 : Int)))
  .ok (if p > 0 then (c : Rat) / (p : Rat) else (c : Rat))

def squareClustering (s : Store) (names : Option (List Nat)) : Outcome (List (Nat × Rat)) :=
  let ns := match names with | none => s.getAllNodeNames | some l => l
  ns.foldl (fun acc v => do
    let out ← acc
    let c ← s.squareCoefficient v
    .ok (ainsert out v c)) (.ok [])

end Store
end Graphrs
