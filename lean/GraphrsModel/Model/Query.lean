/-
  Executable model of the read API: src/graph/query.rs, degree.rs, density.rs, matrix.rs,
  convert.rs, subgraph.rs, ensure.rs and algorithms/centrality/degree.rs.
  Each function follows the lookup path of the Rust function of the same name; every
  `unwrap` / index is an explicit `panic` outcome.
-/
import GraphrsModel.Model.Store
namespace Graphrs
namespace Store

def getNodeIndex (s : Store) (name : Nat) : Outcome Nat :=
  match alookup s.nodesMap name with
  | some i => .ok i
  | none => .err .NodeNotFound

def getNodeByIndex (s : Store) (i : Nat) : Option Node := alookup s.nodesMapRev i

def getNode (s : Store) (name : Nat) : Option Node :=
  match alookup s.nodesMap name with
  | some i => s.getNodeByIndex i
  | none => none

def hasNode (s : Store) (name : Nat) : Bool := (s.getNode name).isSome
def hasNodes (s : Store) (names : List Nat) : Bool := names.all s.hasNode

def getAllNodes (s : Store) : List Node := s.nodesVec
def getAllNodeNames (s : Store) : List Nat := s.nodesVec.map (·.name)

def edgesHaveWeight (s : Store) : Bool := s.allEdges.all (fun e => !e.w.isNan)

def ensureDirected (s : Store) : Outcome Unit := if s.specs.directed then .ok () else .err .WrongMethod
def ensureUndirected (s : Store) : Outcome Unit := if s.specs.directed then .err .WrongMethod else .ok ()
def ensureNotMulti (s : Store) : Outcome Unit := if s.specs.multi then .err .WrongMethod else .ok ()
def ensureWeighted (s : Store) : Outcome Unit :=
  if s.edgesHaveWeight then .ok () else .err .EdgeWeightNotSpecified

def getEdgeByIndexes (s : Store) (u v : Nat) : Outcome Edge :=
  match s.edgesByIdx u v with
  | none => .err .EdgeNotFound
  | some [] => .panic "get_edge_by_indexes: e[0]"
  | some (e :: _) => .ok e

def getEdge (s : Store) (u v : Nat) : Outcome Edge :=
  if s.specs.multi then .err .WrongMethod
  else if !acontains s.nodesMap u || !acontains s.nodesMap v then .err .NodeNotFound
  else do
    let ui ← (s.getNodeIndex u).unwrap "get_edge: get_node_index"
    let vi ← (s.getNodeIndex v).unwrap "get_edge: get_node_index"
    s.getEdgeByIndexes ui vi

def getEdges (s : Store) (u v : Nat) : Outcome (List Edge) :=
  if !s.specs.multi then .err .WrongMethod
  else if !acontains s.nodesMap u || !acontains s.nodesMap v then .err .NodeNotFound
  else do
    let ui ← (s.getNodeIndex u).unwrap "get_edges: get_node_index"
    let vi ← (s.getNodeIndex v).unwrap "get_edges: get_node_index"
    match s.edgesByIdx ui vi with
    | none => .err .EdgeNotFound
    | some l => .ok l

/-- `names.flat_map(|x| self.edges.get(&key x).unwrap())`. -/
def flatEdges (s : Store) (site : String) (keys : List (Nat × Nat)) : Outcome (List Edge) :=
  keys.foldl (fun acc k => do
    let l ← acc
    match alookup s.edges k with
    | some es => .ok (l ++ es)
    | none => .panic site) (.ok [])

def getEdgesForNode (s : Store) (name : Nat) : Outcome (List Edge) :=
  if (s.getNode name).isNone then .err .NodeNotFound
  else do
    let preds := (alookup s.pred name).getD []
    let succs := (alookup s.succ name).getD []
    let pe ← s.flatEdges "get_edges_for_node: edges.get(pred).unwrap()" (preds.map fun p => (p, name))
    let se ← s.flatEdges "get_edges_for_node: edges.get(succ).unwrap()"
      (succs.map fun q => if !s.specs.directed && name > q then (q, name) else (name, q))
    .ok (pe ++ se)

def getEdgesForNodes (s : Store) (names : List Nat) : Outcome (List Edge) :=
  if !s.hasNodes names then .err .NodeNotFound
  else .ok (s.allEdges.filter fun e => names.contains e.u || names.contains e.v)

def getInEdgesForNode (s : Store) (name : Nat) : Outcome (List Edge) :=
  if !s.specs.directed then .err .WrongMethod
  else if (s.getNode name).isNone then .err .NodeNotFound
  else
    let preds := (alookup s.pred name).getD []
    s.flatEdges "get_in_edges_for_node: edges.get().unwrap()" (preds.map fun p => (p, name))

def getInEdgesForNodes (s : Store) (names : List Nat) : Outcome (List Edge) :=
  if !s.specs.directed then .err .WrongMethod
  else if !s.hasNodes names then .err .NodeNotFound
  else .ok (s.allEdges.filter fun e => names.contains e.v)

def getOutEdgesForNode (s : Store) (name : Nat) : Outcome (List Edge) :=
  if !s.specs.directed then .err .WrongMethod
  else if (s.getNode name).isNone then .err .NodeNotFound
  else
    let succs := (alookup s.succ name).getD []
    s.flatEdges "get_out_edges_for_node: edges.get().unwrap()" (succs.map fun q => (name, q))

def getOutEdgesForNodes (s : Store) (names : List Nat) : Outcome (List Edge) :=
  if !s.specs.directed then .err .WrongMethod
  else if !s.hasNodes names then .err .NodeNotFound
  else .ok (s.allEdges.filter fun e => names.contains e.u)

/-- `.dedup_by(|a, b| a.node_index == b.node_index)` on a sorted list. -/
def dedupConsecutive : List Nat → List Nat
  | [] => []
  | [x] => [x]
  | x :: y :: rest => if x = y then dedupConsecutive (y :: rest) else x :: dedupConsecutive (y :: rest)

def nodesByIndexes (s : Store) (site : String) (idxs : List Nat) : Outcome (List Node) :=
  idxs.foldl (fun acc i => do
    let l ← acc
    match s.getNodeByIndex i with
    | some n => .ok (l ++ [n])
    | none => .panic site) (.ok [])

def getNeighborNodes (s : Store) (name : Nat) : Outcome (List Node) :=
  if !acontains s.nodesMap name then .err .NodeNotFound
  else do
    let i ← (s.getNodeIndex name).unwrap "get_neighbor_nodes: get_node_index"
    match s.predVec[i]?, s.succVec[i]? with
    | some p, some q =>
      let idxs := dedupConsecutive (sortNat ((p ++ q).map (·.1)))
      s.nodesByIndexes "get_neighbor_nodes: get_node_by_index().unwrap()" idxs
    | _, _ => .panic "get_neighbor_nodes: *_vec[node_index]"

def getAdjNodes (s : Store) (m : List (Nat × List Nat)) (name : Nat) : Outcome (List Node) :=
  if !acontains s.nodesMap name then .err .NodeNotFound
  else do
    let i ← (s.getNodeIndex name).unwrap "_get_*_nodes: get_node_index"
    match alookup m i with
    | none => .ok []
    | some set => s.nodesByIndexes "_get_*_nodes: get_node_by_index().unwrap()" set

def getSuccessorNodes (s : Store) (name : Nat) : Outcome (List Node) :=
  if !s.specs.directed then .err .WrongMethod else s.getAdjNodes s.succMap name

def getPredecessorNodes (s : Store) (name : Nat) : Outcome (List Node) :=
  if !s.specs.directed then .err .WrongMethod else s.getAdjNodes s.predMap name

def getSuccessorsOrNeighbors (s : Store) (name : Nat) : Outcome (List Node) :=
  if s.specs.directed then (s.getSuccessorNodes name).unwrap "get_successors_or_neighbors: unwrap"
  else (s.getNeighborNodes name).unwrap "get_successors_or_neighbors: unwrap"

/-- `breadth_first_search`. `fuel` bounds the number of levels (a level adds at least one new
    node or the search stops, so `numNodes + 1` levels suffice). -/
def bfsLevels (s : Store) : Nat → List Nat → List Nat → List Nat → Outcome (List Nat)
  | 0, _, _, ret => .ok ret
  | fuel + 1, level, seen, ret =>
    if level.isEmpty then .ok ret
    else
      let r := level.foldl (fun (acc : Outcome (List Nat × List Nat × List Nat)) v => do
        let (seen, ret, next) ← acc
        if seen.contains v then .ok (seen, ret, next)
        else do
          let nb ← s.getSuccessorsOrNeighbors v
          .ok (sinsert seen v, ret ++ [v], sunion next (dedup (nb.map (·.name))))) (.ok (seen, ret, []))
      match r with
      | .ok (seen, ret, next) => bfsLevels s fuel next seen ret
      | .err k => .err k
      | .panic site => .panic site

def breadthFirstSearch (s : Store) (name : Nat) : Outcome (List Nat) :=
  s.bfsLevels (s.numNodes + 2) [name] [] []

/-- `breadth_first_search` since the F24 repair: the same search, each level visited in ascending name order
    (`this_level.sort()`), which fixes the order of the returned list. `bfsLevels` above leaves the order of a level to the
    list it is handed (the hash order of the code before the repair); the C10 theorems hold for every such order and are
    stated for `bfsLevels`; this function is what the exact-order correspondence (`agree.bfsorder`) runs. -/
def bfsLevelsOrdered (s : Store) : Nat → List Nat → List Nat → List Nat → Outcome (List Nat)
  | 0, _, _, ret => .ok ret
  | fuel + 1, level, seen, ret =>
    if level.isEmpty then .ok ret
    else
      let r := (sortNat level).foldl (fun (acc : Outcome (List Nat × List Nat × List Nat)) v => do
        let (seen, ret, next) ← acc
        if seen.contains v then .ok (seen, ret, next)
        else do
          let nb ← s.getSuccessorsOrNeighbors v
          .ok (sinsert seen v, ret ++ [v], sunion next (dedup (nb.map (·.name))))) (.ok (seen, ret, []))
      match r with
      | .ok (seen, ret, next) => bfsLevelsOrdered s fuel next seen ret
      | .err k => .err k
      | .panic site => .panic site

def breadthFirstSearchOrdered (s : Store) (name : Nat) : Outcome (List Nat) :=
  s.bfsLevelsOrdered (s.numNodes + 2) [name] [] []

def numberOfNodes (s : Store) : Nat := s.nodesVec.length
def numberOfEdges (s : Store) : Nat := sumNat (s.edges.map fun kv => kv.2.length)
def sizeUnweighted (s : Store) : Nat := s.allEdges.length
def sizeWeighted (s : Store) : W := s.allEdges.foldl (fun acc e => W.add acc e.w) (some 0)

/-! ### degree.rs -/

def getNodeDegree (s : Store) (name : Nat) : Option Nat :=
  match s.getEdgesForNode name with
  | .ok es =>
    let loops := if s.specs.directed then 0 else (es.filter fun e => e.u == name && e.v == name).length
    some (es.length + loops)
  | _ => none

def getNodeInDegree (s : Store) (name : Nat) : Option Nat :=
  match s.getInEdgesForNode name with | .ok es => some es.length | _ => none
def getNodeOutDegree (s : Store) (name : Nat) : Option Nat :=
  match s.getOutEdgesForNode name with | .ok es => some es.length | _ => none

def sumW (es : List Edge) : W := es.foldl (fun acc e => W.add acc e.w) (some 0)

def getNodeWeightedDegree (s : Store) (name : Nat) : Option W :=
  match s.getEdgesForNode name with
  | .ok es =>
    let loops := if s.specs.directed then some 0 else sumW (es.filter fun e => e.u == name && e.v == name)
    some (W.add (sumW es) loops)
  | _ => none
def getNodeWeightedInDegree (s : Store) (name : Nat) : Option W :=
  match s.getInEdgesForNode name with | .ok es => some (sumW es) | _ => none
def getNodeWeightedOutDegree (s : Store) (name : Nat) : Option W :=
  match s.getOutEdgesForNode name with | .ok es => some (sumW es) | _ => none

/-- The `*_for_all_nodes` maps: `get_all_nodes().map(|n| (n, f(n).unwrap()))`. -/
def forAllNodes {α} (s : Store) (site : String) (f : Nat → Option α) : Outcome (List (Nat × α)) :=
  s.nodesVec.foldl (fun acc n => do
    let l ← acc
    match f n.name with
    | some d => .ok (ainsert l n.name d)
    | none => .panic site) (.ok [])

def getDegreeForAllNodes (s : Store) : Outcome (List (Nat × Nat)) :=
  s.forAllNodes "get_degree_for_all_nodes: unwrap" s.getNodeDegree
def getInDegreeForAllNodes (s : Store) : Outcome (List (Nat × Nat)) :=
  if !s.specs.directed then .err .WrongMethod
  else s.forAllNodes "get_in_degree_for_all_nodes: unwrap" s.getNodeInDegree
def getOutDegreeForAllNodes (s : Store) : Outcome (List (Nat × Nat)) :=
  if !s.specs.directed then .err .WrongMethod
  else s.forAllNodes "get_out_degree_for_all_nodes: unwrap" s.getNodeOutDegree
def getWeightedDegreeForAllNodes (s : Store) : Outcome (List (Nat × W)) :=
  s.forAllNodes "get_weighted_degree_for_all_nodes: unwrap" s.getNodeWeightedDegree
def getWeightedInDegreeForAllNodes (s : Store) : Outcome (List (Nat × W)) :=
  if !s.specs.directed then .err .WrongMethod
  else s.forAllNodes "get_weighted_in_degree_for_all_nodes: unwrap" s.getNodeWeightedInDegree
def getWeightedOutDegreeForAllNodes (s : Store) : Outcome (List (Nat × W)) :=
  if !s.specs.directed then .err .WrongMethod
  else s.forAllNodes "get_weighted_out_degree_for_all_nodes: unwrap" s.getNodeWeightedOutDegree

/-! ### density.rs, centrality/degree.rs (exact rationals; `none` = division by zero in f64) -/

def getDensity (s : Store) : Option Rat :=
  if s.edges.isEmpty then some 0
  else
    let m : Rat := s.edges.length
    let n : Rat := s.nodesVec.length
    let d := n * (n - 1)
    if d == 0 then none
    else some (if s.specs.directed then m / d else (2 * m) / d)

def degreeCentrality (s : Store) : Outcome (List (Nat × Rat)) :=
  let n := s.nodesVec.length
  if n ≤ 1 then .ok (s.nodesVec.foldl (fun l nd => ainsert l nd.name (1 : Rat)) [])
  else
    s.forAllNodes "degree_centrality: get_node_degree().unwrap()" fun name =>
      (s.getNodeDegree name).map fun d => (d : Rat) / ((n : Rat) - 1)

/-! ### matrix.rs: the triplets handed to `sprs::TriMat::from_triplets` -/

def getAdjacencyTriplets (s : Store) : Outcome (List (Nat × Nat × Int)) :=
  if s.specs.multi then .err .WrongMethod
  else
    s.edgesMap.foldl (fun acc kv => do
      let l ← acc
      match kv.2 with
      | [] => .panic "get_sparse_adjacency_matrix: edges[0]"
      | e :: _ =>
        let w : Int := match e.w with | none => 1 | some x => x
        let (u, v) := kv.1
        let l := l ++ [(u, v, w)]
        .ok (if !s.specs.directed && u != v then l ++ [(v, u, w)] else l)) (.ok [])

/-! ### convert.rs, subgraph.rs -/

def reverse (s : Store) : Outcome Store :=
  if !s.specs.directed then .err .WrongMethod
  else Store.newFrom s.specs s.getAllNodes (s.allEdges.map Edge.reversed)

def setAllEdgeWeights (s : Store) (w : W) : Outcome Store :=
  (Store.newFrom s.specs s.getAllNodes (s.allEdges.map fun e => { e with w := w })).unwrap
    "set_all_edge_weights: unwrap"

/-- `collapse_edges`: `Edge::with_weight(k.0, k.1, sum)` (attributes dropped). -/
def collapseEdges (kv : (Nat × Nat) × List Edge) : Edge :=
  ⟨kv.1.1, kv.1.2, kv.2.foldl (fun acc e => W.add acc e.w) (some 0), none⟩

def toSingleEdges (s : Store) : Outcome Store :=
  if !s.specs.multi then .err .WrongMethod
  else Store.newFrom { s.specs with multi := false } s.nodesVec (s.edges.map collapseEdges)

def getSubgraph (s : Store) (names : List Nat) : Outcome Store :=
  (Store.newFrom s.specs (s.getAllNodes.filter fun n => names.contains n.name)
    (s.allEdges.filter fun e => names.contains e.u && names.contains e.v)).unwrap
    "get_subgraph: unwrap"

end Store
end Graphrs
