/-
  Executable models of src/algorithms/components/{connectivity,weak_connectivity,
  strong_connectivity}.rs. Hash-set iteration orders are list orders here; the answers are
  compared as sets of sets.
-/
import GraphrsModel.Model.Query
namespace Graphrs
namespace Store

/-- `connected_components` -/
def connectedComponents (s : Store) : Outcome (List (List Nat)) := do
  s.ensureUndirected
  let (_, comps) ← s.getAllNodeNames.foldl (fun acc v => do
    let (seen, comps) ← acc
    if seen.contains v then .ok (seen, comps)
    else do
      let b ← s.breadthFirstSearch v
      let b := dedup b
      .ok (sunion seen b, comps ++ [b])) (.ok (([] : List Nat), ([] : List (List Nat))))
  .ok comps

def numberOfConnectedComponents (s : Store) : Outcome Nat := do
  let c ← s.connectedComponents
  .ok c.length

/-- `node_connected_component` -/
def nodeConnectedComponent (s : Store) (x : Nat) : Outcome (List Nat) := do
  s.ensureUndirected
  if !s.hasNode x then .err .NodeNotFound
  else do
    let b ← s.breadthFirstSearch x
    .ok (dedup b)

/-- `plain_bfs` of weak_connectivity.rs (pushes every node twice; the caller makes a set). -/
def plainBfsLevels (s : Store) : Nat → List Nat → List Nat → List Nat → List Nat
  | 0, _, _, out => out
  | fuel + 1, level, seen, out =>
    if level.isEmpty then out
    else
      let (seen, out, next) := level.foldl (fun (acc : List Nat × List Nat × List Nat) v =>
        let (seen, out, next) := acc
        if seen.contains v then acc
        else
          let next := sunion next ((alookup s.succ v).getD [])
          let next := sunion next ((alookup s.pred v).getD [])
          (sinsert seen v, out ++ [v, v], next)) (seen, out, [])
      plainBfsLevels s fuel next seen out

/-- `weakly_connected_components` -/
def weaklyConnectedComponents (s : Store) : Outcome (List (List Nat)) := do
  s.ensureDirected
  let (_, comps) := s.getAllNodeNames.foldl (fun (acc : List Nat × List (List Nat)) v =>
    let (seen, comps) := acc
    if seen.contains v then acc
    else
      let b := dedup (s.plainBfsLevels (s.numNodes + 2) [v] [] [])
      (sunion seen b, comps ++ [b])) ([], [])
  .ok comps

/-! ### strongly_connected_components: the iterative preorder / low-link algorithm -/

structure SccState where
  preorder : List (Nat × Nat) := []
  lowlink : List (Nat × Nat) := []
  sccFound : List Nat := []
  sccQueue : List Nat := []     -- a stack, top at the end
  i : Nat := 0
  components : List (List Nat) := []

/-- One iteration of `while !queue.is_empty()`; `queue` is a stack with its top at the head here.
    Returns `none` where the Rust code would panic on an `unwrap`. -/
def sccStep (nbrs : Nat → List Nat) (st : SccState) (queue : List Nat) : Option (SccState × List Nat) :=
  match queue with
  | [] => some (st, [])
  | v :: restQ =>
    let st := if (alookup st.preorder v).isNone then { st with i := st.i + 1, preorder := ainsert st.preorder v (st.i + 1) } else st
    match (nbrs v).find? (fun w => (alookup st.preorder w).isNone) with
    | some w => some (st, w :: queue)
    | none =>
      match alookup st.preorder v with
      | none => none
      | some pv =>
        let ll? : Option Nat := (nbrs v).foldl (fun (acc : Option Nat) w =>
          match acc with
          | none => none
          | some ll =>
            if st.sccFound.contains w then some ll
            else
              match alookup st.preorder w with
              | none => none
              | some pw =>
                if pw > pv then (match alookup st.lowlink w with | none => none | some lw => some (min ll lw))
                else some (min ll pw)) (some pv)
        match ll? with
        | none => none
        | some ll =>
          let st := { st with lowlink := ainsert st.lowlink v ll }
          if ll == pv then
            -- pop everything with a larger preorder number
            let rec popLoop (fuel : Nat) (q : List Nat) (scc : List Nat) : List Nat × List Nat :=
              match fuel, q.getLast? with
              | fuel' + 1, some k =>
                if (alookup st.preorder k).getD 0 > pv then popLoop fuel' q.dropLast (sinsert scc k) else (q, scc)
              | _, _ => (q, scc)
            let (q, scc) := popLoop (st.sccQueue.length + 1) st.sccQueue [v]
            some ({ st with sccQueue := q, sccFound := sunion st.sccFound scc, components := st.components ++ [scc] }, restQ)
          else some ({ st with sccQueue := st.sccQueue ++ [v] }, restQ)

def sccRun (nbrs : Nat → List Nat) : Nat → SccState → List Nat → Option SccState
  | 0, st, _ => some st
  | fuel + 1, st, queue =>
    if queue.isEmpty then some st
    else
      match sccStep nbrs st queue with
      | none => none
      | some (st, q) => sccRun nbrs fuel st q

/-- `strongly_connected_components`. Every loop iteration either assigns a preorder number
    (at most n times), pushes a node that then gets one (at most n), or pops the stack. -/
def stronglyConnectedComponents (s : Store) : Outcome (List (List Nat)) := do
  s.ensureDirected
  let nbrs := fun v => (alookup s.succ v).getD []
  let n := s.numNodes
  let r := s.getAllNodeNames.foldl (fun (acc : Option SccState) src =>
    match acc with
    | none => none
    | some st => if st.sccFound.contains src then some st else sccRun nbrs (4 * n + 4) st [src]) (some {})
  match r with
  | some st => .ok st.components
  | none => .panic "strongly_connected_components: unwrap"

/-! ### bfs_equal_size_partitions -/

structure EqState where
  parts : List (List Nat)
  visited : List Bool
  count : Nat
  queue : List Nat
  part : Nat

def adjTotal (s : Store) : Nat := sumNat (s.succVec.map List.length)

/-- the `while !queue.is_empty()` loop; `none` where the Rust code would panic -/
def eqInner (s : Store) (maxSize : Nat) : Nat → EqState → Option EqState
  | 0, st => some st
  | fuel + 1, st =>
    match st.queue with
    | [] => some st
    | cur :: rest =>
      let st := { st with queue := rest }
      match st.visited[cur]? with
      | none => none      -- `visited[current]` out of range
      | some true => eqInner s maxSize fuel st
      | some false =>
        match st.parts[st.part]? with
        | none => none    -- `partitions[partition]` out of range
        | some p =>
          let p := p ++ [cur]
          let st := { st with visited := st.visited.set cur true, parts := st.parts.set st.part p, count := st.count + 1 }
          if p.length == maxSize then some st
          else
            match s.succVec[cur]? with
            | none => none  -- `successors_vec[current]` out of range
            | some row => eqInner s maxSize fuel { st with queue := st.queue ++ (row.map (·.1)) }

/-- the `while visited_count < number_of_nodes` loop: every round visits at least one node -/
def eqOuter (s : Store) (n maxSize : Nat) : Nat → EqState → Option EqState
  | 0, st => some st
  | fuel + 1, st =>
    if st.count ≥ n then some st
    else
      match (List.range n).find? (fun i => !(st.visited[i]?.getD true)) with
      | none => none   -- `.find(..).unwrap()`
      | some node =>
        let st := { st with queue := st.queue ++ [node] }
        match eqInner s maxSize (st.queue.length + s.adjTotal + 2) st with
        | none => none
        | some st =>
          let full := (st.parts[st.part]?.map List.length) == some maxSize
          let st := if full then { st with queue := [], part := st.part + 1 } else st
          eqOuter s n maxSize fuel st

/-- `bfs_equal_size_partitions` -/
def bfsEqualSizePartitions (s : Store) (k : Nat) : Outcome (List (List Nat)) :=
  if k == 0 then .panic "bfs_equal_size_partitions: division by zero"
  else
    let n := s.numberOfNodes
    let maxSize := n / k + 1
    match eqOuter s n maxSize (n + 1) ⟨List.replicate k [], List.replicate n false, 0, [], 0⟩ with
    | none => .panic "bfs_equal_size_partitions: index / unwrap"
    | some st =>
      st.parts.foldl (fun acc part => do
        let out ← acc
        let names ← part.foldl (fun a i => do
          let l ← a
          let nd ← Outcome.ofOption "bfs_equal_size_partitions: get_node_by_index().unwrap()" (s.getNodeByIndex i)
          .ok (l ++ [nd.name])) (.ok [])
        .ok (out ++ [names])) (.ok [])

end Store
end Graphrs
