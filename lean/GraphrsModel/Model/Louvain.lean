/-
  The decision core of src/algorithms/community/louvain.rs in exact rationals: the gain that
  `update_best_com` compares, the candidate scan with its deterministic tie-break, and the
  per-community modularity terms the gain is meant to track.  (The randomised visiting order and
  the bookkeeping around it are not modelled step by step; see DESIGN.md C13.)
-/
import GraphrsModel.Base
namespace Graphrs
namespace Louvain

/-- `2.0 * wt - resolution * (stot[nbr_com] * degree) / m` -/
def gainUndirected (m res wt stot degree : Rat) : Rat := 2 * wt - res * (stot * degree) / m

/-- `wt - resolution * (out_degree * stot_in[nbr_com] + in_degree * stot_out[nbr_com]) / m` -/
def gainDirected (m res wt outDeg inDeg stotIn stotOut : Rat) : Rat :=
  wt - res * (outDeg * stotIn + inDeg * stotOut) / m

/-- contribution of one community to the modularity of an undirected graph:
    L_c/m − γ·(deg_c/2m)² -/
def termUndirected (m res L D : Rat) : Rat := L / m - res * (D / (2 * m)) * (D / (2 * m))

/-- contribution of one community to the modularity of a directed graph: L_c/m − γ·out_c·in_c/m² -/
def termDirected (m res L O I : Rat) : Rat := L / m - res * O * I / (m * m)

/-- `update_best_com` after the repair: candidates `(community, weight to it)` are visited in
    increasing community id, a candidate wins only with a strictly larger gain. -/
def updateBest (gain : Nat → Rat → Rat) (cands : List (Nat × Rat)) (best : Nat × Rat) : Nat × Rat :=
  (isort (fun a b => decide (a.1 ≤ b.1)) cands).foldl
    (fun b c => if gain c.1 c.2 > b.2 then (c.1, gain c.1 c.2) else b) best

/-- the scan as it was before the repair: in the iteration order of the hash map -/
def updateBestUnordered (gain : Nat → Rat → Rat) (cands : List (Nat × Rat)) (best : Nat × Rat) : Nat × Rat :=
  cands.foldl (fun b c => if gain c.1 c.2 > b.2 then (c.1, gain c.1 c.2) else b) best

end Louvain
end Graphrs
