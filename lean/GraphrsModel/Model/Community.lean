/-
  Executable model of src/algorithms/community/partitions.rs (is_partition, modularity), in
  exact rationals over integer-valued weights.
-/
import GraphrsModel.Model.Query
import GraphrsModel.Spec.Abs
namespace Graphrs
namespace Store

/-- `is_partition` (communities are `HashSet`s: duplicate-free lists) -/
def isPartition (s : Store) (comms : List (List Nat)) : Bool :=
  let named := dedup ((comms.flatMap id).filter fun n => (s.getNode n).isSome)
  let sumNames := sumNat (comms.map List.length)
  let n := s.getAllNodes.length
  named.length == n && sumNames == n

def wRat : W → Option Rat
  | none => none
  | some x => some (x : Rat)

def sumOpt (l : List (Option Rat)) : Option Rat :=
  l.foldl (fun acc x => match acc, x with | some a, some b => some (a + b) | _, _ => none) (some 0)

/-- `modularity`; the value is `none` when the f64 result is NaN/inf (NaN weights, or no edges). -/
def modularity (s : Store) (comms : List (List Nat)) (weighted : Bool) (resolution : Rat) : Outcome (Option Rat) :=
  if !s.isPartition comms then .err .NotAPartition
  else do
    let toRatMap (m : List (Nat × Nat)) : List (Nat × Option Rat) := m.map fun kv => (kv.1, some (kv.2 : Rat))
    let toRatMapW (m : List (Nat × W)) : List (Nat × Option Rat) := m.map fun kv => (kv.1, wRat kv.2)
    let (outD, inD, m, norm) ←
      (if s.specs.directed then do
        let outd ← (if weighted then (s.getWeightedOutDegreeForAllNodes.map' toRatMapW) else (s.getOutDegreeForAllNodes.map' toRatMap)).unwrap "modularity: unwrap"
        let ind ← (if weighted then (s.getWeightedInDegreeForAllNodes.map' toRatMapW) else (s.getInDegreeForAllNodes.map' toRatMap)).unwrap "modularity: unwrap"
        let m := sumOpt (outd.map (·.2))
        let norm := m.map fun m => if m == 0 then (0 : Rat) else (1 / m) * (1 / m)
        pure (outd, ind, m, norm)
      else do
        let deg ← (if weighted then (s.getWeightedDegreeForAllNodes.map' toRatMapW) else (s.getDegreeForAllNodes.map' toRatMap))
        let degSum := sumOpt (deg.map (·.2))
        let m := degSum.map (· / 2)
        let norm := degSum.map fun d => if d == 0 then (0 : Rat) else (1 / d) * (1 / d)
        pure (deg, deg, m, norm))
    let contribs ← comms.foldl (fun acc comm => do
      let l ← acc
      let sub ← s.getSubgraph comm
      let es := sub.allEdges
      let lc : Option Rat := if weighted then sumOpt (es.map fun e => wRat e.w) else some (es.length : Rat)
      let outSum ← comm.foldl (fun a n => do
        let t ← a
        let d ← Outcome.ofOption "modularity: out_degree.get(n).unwrap()" (alookup outD n)
        .ok (match t, d with | some x, some y => some (x + y) | _, _ => none)) (.ok (some (0 : Rat)))
      let inSum ← (if s.specs.directed then comm.foldl (fun a n => do
        let t ← a
        let d ← Outcome.ofOption "modularity: in_degree.get(n).unwrap()" (alookup inD n)
        .ok (match t, d with | some x, some y => some (x + y) | _, _ => none)) (.ok (some (0 : Rat))) else .ok outSum)
      let c : Option Rat := match lc, m, outSum, inSum, norm with
        | some lc, some m, some o, some i, some nm => if m == 0 then none else some (lc / m - resolution * o * i * nm)
        | _, _, _, _, _ => none
      .ok (l ++ [c])) (.ok [])
    .ok (sumOpt contribs)

end Store

/-! ## specification (C12): Newman's formula on the abstract graph -/
namespace Abs

def isPartitionSpec (a : Abs) (comms : List (List Nat)) : Bool :=
  let flat := comms.flatMap id
  -- pairwise disjoint, only nodes of the graph, together every node
  flat.length == (dedup flat).length && flat.all a.hasNode && a.nodeNames.all flat.contains

def wOf (weighted : Bool) (e : Edge) : Option Rat := if weighted then (match e.w with | none => none | some x => some (x : Rat)) else some 1
def sumO (l : List (Option Rat)) : Option Rat :=
  l.foldl (fun acc x => match acc, x with | some a, some b => some (a + b) | _, _ => none) (some 0)

/-- Σ_c [ L_c/m − γ·out_c·in_c/m² ]  (undirected: L_c/m − γ·(deg_c/2m)²); parallel edges counted
    individually, a self-loop once in L_c and twice in the degree. `none` when a weight is NaN or m = 0. -/
def modularitySpec (dir : Bool) (a : Abs) (comms : List (List Nat)) (weighted : Bool) (gamma : Rat) : Option Rat :=
  match sumO (a.edges.map (wOf weighted)) with
  | none => none
  | some m =>
    if m == 0 then none else
    sumO (comms.map fun c =>
      let lc := sumO ((a.edges.filter fun e => c.contains e.u && c.contains e.v).map (wOf weighted))
      let outc := sumO ((a.edges.filter fun e => c.contains e.u).map (wOf weighted))
      let inc := sumO ((a.edges.filter fun e => c.contains e.v).map (wOf weighted))
      match lc, outc, inc with
      | some lc, some o, some i =>
        if dir then some (lc / m - gamma * o * i / (m * m))
        else let d := o + i; some (lc / m - gamma * (d / (2 * m)) * (d / (2 * m)))
      | _, _, _ => none)

end Abs
end Graphrs
