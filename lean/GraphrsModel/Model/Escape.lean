/-
  Executable model of the escaping layer the GraphML writer / reader go through for node names (C14):
  `quick_xml::escape::escape` (applied by `BytesStart::push_attribute((&str, &str))` to every attribute value the
  writer emits) and `quick_xml::escape::unescape` (behind `Attribute::unescape_value()`, which
  `get_attributes_as_hashmap` calls on every attribute the reader sees), both of quick-xml 0.37, over UTF-8 *bytes*
  (`Nat` values below 256). This is library code, not graphrs code: the model is tied to the library the crate is
  built with by the `esc` correspondence family (the harness calls the very functions on random strings).
-/
namespace Graphrs
namespace Esc

def cAmp : Nat := 38    -- '&'
def cSemi : Nat := 59   -- ';'
def cHash : Nat := 35   -- '#'
def cX : Nat := 120     -- 'x'
def cLt : Nat := 60
def cGt : Nat := 62
def cApos : Nat := 39
def cQuot : Nat := 34

/-- the replacement `_escape` writes for one byte; `escape` selects the five bytes `< > & ' "` (the whitespace
    replacements of `_escape` are not reachable through `escape`) -/
def escByte (b : Nat) : List Nat :=
  if b == 60 then [38, 108, 116, 59]                    -- &lt;
  else if b == 62 then [38, 103, 116, 59]               -- &gt;
  else if b == 39 then [38, 97, 112, 111, 115, 59]      -- &apos;
  else if b == 38 then [38, 97, 109, 112, 59]           -- &amp;
  else if b == 34 then [38, 113, 117, 111, 116, 59]     -- &quot;
  else [b]

/-- `quick_xml::escape::escape` -/
def escape (bs : List Nat) : List Nat := bs.flatMap escByte

/-- `resolve_xml_entity` -/
def resolveNamed (pat : List Nat) : Option (List Nat) :=
  if pat == [108, 116] then some [60]
  else if pat == [103, 116] then some [62]
  else if pat == [97, 109, 112] then some [38]
  else if pat == [97, 112, 111, 115] then some [39]
  else if pat == [113, 117, 111, 116] then some [34]
  else none

/-- `char::to_digit(radix)` on one byte -/
def digitVal (radix : Nat) (b : Nat) : Option Nat :=
  let d : Option Nat :=
    if 48 ≤ b && b ≤ 57 then some (b - 48)
    else if 97 ≤ b && b ≤ 122 then some (b - 97 + 10)
    else if 65 ≤ b && b ≤ 90 then some (b - 65 + 10)
    else none
  match d with
  | some v => if v < radix then some v else none
  | none => none

/-- `u32::from_str_radix` after quick-xml's sign check: digits only, non-empty, no overflow of `u32` -/
def parseRadix (radix : Nat) (ds : List Nat) : Option Nat :=
  match ds with
  | [] => none
  | d0 :: _ =>
    if d0 == 43 || d0 == 45 then none            -- `UnexpectedSign`
    else
      ds.foldl (fun acc b =>
        match acc, digitVal radix b with
        | some a, some v => if a * radix + v < 4294967296 then some (a * radix + v) else none
        | _, _ => none) (some 0)

/-- `char::encode_utf8` -/
def encodeUtf8 (c : Nat) : List Nat :=
  if c < 128 then [c]
  else if c < 2048 then [192 + c / 64, 128 + c % 64]
  else if c < 65536 then [224 + c / 4096, 128 + (c / 64) % 64, 128 + c % 64]
  else [240 + c / 262144, 128 + (c / 4096) % 64, 128 + (c / 64) % 64, 128 + c % 64]

/-- `parse_number` + `encode_utf8`: the text after `&#` -/
def resolveNumber (num : List Nat) : Option (List Nat) :=
  let code := match num with
    | 120 :: hex => parseRadix 16 hex
    | _ => parseRadix 10 num
  match code with
  | none => none
  | some c =>
    if c == 0 then none                                        -- `IllegalCharacter`
    else if (55296 ≤ c && c ≤ 57343) || c > 1114111 then none  -- `char::from_u32` fails
    else some (encodeUtf8 c)

/-- what `&pat;` stands for -/
def resolve (pat : List Nat) : Option (List Nat) :=
  match pat with
  | 35 :: num => resolveNumber num
  | _ => resolveNamed pat

/-- `unescape_with(raw, resolve_predefined_entity)`: `ent = some acc` while inside `&...` (the bytes after the `&`,
    newest first). A second `&` before the `;`, or the end of the input, is `UnterminatedEntity`; a `;` outside an
    entity is ordinary text. `none` = `Err`. -/
def unescapeGo : Option (List Nat) → List Nat → Option (List Nat)
  | none, [] => some []
  | some _, [] => none
  | none, b :: rest =>
    if b == 38 then unescapeGo (some []) rest
    else (unescapeGo none rest).map (b :: ·)
  | some acc, b :: rest =>
    if b == 59 then
      match resolve acc.reverse with
      | none => none
      | some v => (unescapeGo none rest).map (v ++ ·)
    else if b == 38 then none
    else unescapeGo (some (b :: acc)) rest

/-- `quick_xml::escape::unescape` -/
def unescape (bs : List Nat) : Option (List Nat) := unescapeGo none bs

/-- the attribute tokenizer of the reader: a value written between double quotes ends at the first `"` -/
def quotedValue (bs : List Nat) : List Nat := bs.takeWhile (· != 34)

end Esc
end Graphrs
