/-
  Executable step-level model of src/algorithms/community/louvain.rs (after the two repairs) in
  exact arithmetic: `convert_graph`, `compute_one_level` (node2com, `_partition`, `inner_partition`,
  Stot bookkeeping, neighbour-community weights incl. predecessor edges, the sorted candidate
  scan), `generate_graph` and the level loop of `louvain_partitions`.

  Randomness is an input: `perms[L]` is the permutation `shuffle` applies to a vector of length L
  for the given seed (the harness computes it with the same `rand` crate); the level graphs are
  `Store`s whose node names are 0..k-1, with the set of original nodes of each super-node kept in a
  side map (`members`, the node attributes of the Rust code).  Weights are integers (sums of
  integer weights), resolution and threshold are rationals.
-/
import GraphrsModel.Model.Community
import GraphrsModel.Model.Louvain
namespace Graphrs
namespace LouvainFull

/-- a level graph: node names are 0..k-1; `members i` = the original nodes inside super-node i -/
structure Level where
  g : Store
  members : List (Nat × List Nat)

def ratW : W → Rat
  | some x => (x : Rat)
  | none => 0

def getR (l : List Rat) (i : Nat) : Rat := l[i]?.getD 0
def setR (l : List Rat) (i : Nat) (v : Rat) : List Rat := l.set i v

/-- a slice / `Vec` index expression `v[i]` with `v.len() = len`: out of range is a panic (`getR` / `setR` /
    `List.set` / `[·]?.getD` below are only ever reached after the guard for the same index has succeeded) -/
def idxGuard (site : String) (len i : Nat) : Outcome Unit := if i < len then .ok () else .panic site

/-- weighted degrees as the code obtains them (`get_weighted_*_for_all_nodes().unwrap()`), as rationals -/
def degMap (m : Outcome (List (Nat × W))) : Outcome (List (Nat × Rat)) := m.map' fun l => l.map fun kv => (kv.1, ratW kv.2)

structure DegInfo where
  inDeg : List (Nat × Rat) := []
  outDeg : List (Nat × Rat) := []
  deg : List (Nat × Rat) := []
  stotIn : List Rat := []
  stotOut : List Rat := []
  stot : List Rat := []

/-- `get_degree_information` -/
def degreeInformation (g : Store) (nparts : Nat) : Outcome DegInfo := do
  if g.specs.directed then
    let ind ← (degMap g.getWeightedInDegreeForAllNodes).unwrap "get_degree_information: unwrap"
    let outd ← (degMap g.getWeightedOutDegreeForAllNodes).unwrap "get_degree_information: unwrap"
    let si ← (List.range nparts).foldl (fun acc i => do
      let l ← acc
      let d ← Outcome.ofOption "get_degree_information: in_degrees.get(i).unwrap()" (alookup ind i)
      .ok (l ++ [d])) (.ok [])
    let so ← (List.range nparts).foldl (fun acc i => do
      let l ← acc
      let d ← Outcome.ofOption "get_degree_information: out_degrees.get(i).unwrap()" (alookup outd i)
      .ok (l ++ [d])) (.ok [])
    .ok { inDeg := ind, outDeg := outd, stotIn := si, stotOut := so }
  else
    let d ← degMap g.getWeightedDegreeForAllNodes
    let st ← (List.range nparts).foldl (fun acc i => do
      let l ← acc
      let x ← Outcome.ofOption "get_degree_information: degrees.get(i).unwrap()" (alookup d i)
      .ok (l ++ [x])) (.ok [])
    .ok { deg := d, stot := st }

/-- `get_neighbor_weights` + `add_predecessor_weights`: weight from `u` to every neighbouring community -/
def neighborWeights (g : Store) (u : Nat) (node2com : List (Nat × Nat)) : Outcome (List (Nat × Rat)) := do
  let addAll (acc : List (Nat × Rat)) (vs : List Nat) (edgeOf : Nat → Outcome Edge) : Outcome (List (Nat × Rat)) :=
    vs.foldl (fun a v => do
      let m ← a
      if u == v then .ok m
      else do
        let e ← (edgeOf v).unwrap "get_neighbor_weights: get_edge().unwrap()"
        let c ← Outcome.ofOption "get_neighbor_weights: node2com.get(v).unwrap()" (alookup node2com v)
        .ok (ainsert m c ((alookup m c).getD 0 + ratW e.w))) (.ok acc)
  let m ← addAll [] ((alookup g.succ u).getD []) (fun v => g.getEdge u v)
  if g.specs.directed then addAll m ((alookup g.pred u).getD []) (fun v => g.getEdge v u) else .ok m

structure LState where
  part : List (List Nat)        -- `_partition`
  inner : List (List Nat)       -- `inner_partition`
  node2com : List (Nat × Nat)
  di : DegInfo
  improvement : Bool
  moves : Nat
  /-- two candidate communities had (almost) equal gains computed from different operands: the f64 code may
      order them either way by rounding, so the exact model's choice need not be the implementation's -/
  risky : Bool := false

/-- the body of `for u in &shuffled_nodes` after `node2com.get(u)` and `get_neighbor_weights` (+ `add_predecessor_weights`):
    `cur` is the community of `u`, `w2c` the candidate map `weights2com` as the hash map hands it over -/
def visitWith (lv : Level) (m res : Rat) (st : LState) (u cur : Nat) (w2c : List (Nat × Rat)) : Outcome LState := do
  let g := lv.g
  let dir := g.specs.directed
  -- subtract_degree_from_best_com
  let (inD, outD, dg) ← (if dir then do
      let i ← Outcome.ofOption "subtract_degree: in_degrees.get(u).unwrap()" (alookup st.di.inDeg u)
      let o ← Outcome.ofOption "subtract_degree: out_degrees.get(u).unwrap()" (alookup st.di.outDeg u)
      .ok (i, o, (0 : Rat))
    else do
      let d ← Outcome.ofOption "subtract_degree: degrees.get(u).unwrap()" (alookup st.di.deg u)
      .ok ((0 : Rat), (0 : Rat), d))
  -- `deg_info.stot_in[best_com] -= ..; deg_info.stot_out[best_com] -= ..` / `deg_info.stot[best_com] -= ..`
  (if dir then do
      idxGuard "subtract_degree_from_best_com: stot_in[best_com]" st.di.stotIn.length cur
      idxGuard "subtract_degree_from_best_com: stot_out[best_com]" st.di.stotOut.length cur
    else idxGuard "subtract_degree_from_best_com: stot[best_com]" st.di.stot.length cur)
  let di := if dir then { st.di with stotIn := setR st.di.stotIn cur (getR st.di.stotIn cur - inD),
                                      stotOut := setR st.di.stotOut cur (getR st.di.stotOut cur - outD) }
            else { st.di with stot := setR st.di.stot cur (getR st.di.stot cur - dg) }
  -- update_best_com reads `stot_in[nbr_com]`, `stot_out[nbr_com]` / `stot[nbr_com]` for every candidate community (in scan order)
  ((isort (fun a b => decide (a.1 ≤ b.1)) w2c).foldl (fun acc a => do
      acc
      if dir then do
        idxGuard "update_best_com: stot_in[nbr_com]" di.stotIn.length a.1
        idxGuard "update_best_com: stot_out[nbr_com]" di.stotOut.length a.1
      else idxGuard "update_best_com: stot[nbr_com]" di.stot.length a.1) (.ok ()))
  -- update_best_com: candidates in increasing community id, strict improvement only
  let gain (c : Nat) (wt : Rat) : Rat :=
    if dir then Louvain.gainDirected m res wt outD inD (getR di.stotIn c) (getR di.stotOut c)
    else Louvain.gainUndirected m res wt (getR di.stot c) dg
  let best := Louvain.updateBest gain w2c (cur, 0)
  let bestCom := best.1
  let operands (c : Nat) (wt : Rat) : Rat × Rat × Rat := if dir then (wt, getR di.stotIn c, getR di.stotOut c) else (wt, getR di.stot c, 0)
  let eps : Rat := 1 / 1000000000
  let risky := w2c.any fun a => w2c.any fun b =>
    a.1 != b.1 && operands a.1 a.2 != operands b.1 b.2 &&
    (let d := gain a.1 a.2 - gain b.1 b.2; (-eps ≤ d) && (d ≤ eps))
  -- add_degree_to_best_com: `deg_info.stot_in[best_com] += ..; deg_info.stot_out[best_com] += ..` / `deg_info.stot[best_com] += ..`
  (if dir then do
      idxGuard "add_degree_to_best_com: stot_in[best_com]" di.stotIn.length bestCom
      idxGuard "add_degree_to_best_com: stot_out[best_com]" di.stotOut.length bestCom
    else idxGuard "add_degree_to_best_com: stot[best_com]" di.stot.length bestCom)
  let di := if dir then { di with stotIn := setR di.stotIn bestCom (getR di.stotIn bestCom + inD),
                                   stotOut := setR di.stotOut bestCom (getR di.stotOut bestCom + outD) }
            else { di with stot := setR di.stot bestCom (getR di.stot bestCom + dg) }
  if bestCom != cur then do
    -- `graph.get_node(*u).unwrap()`
    let _ ← Outcome.ofOption "compute_one_level: get_node(u).unwrap()" (g.getNode u)
    let com := (alookup lv.members u).getD [u]
    -- `_partition[n2c] = _partition[n2c].difference(&com)..`
    idxGuard "compute_one_level: _partition[n2c]" st.part.length cur
    let part := st.part.set cur (sdiff (st.part[cur]?.getD []) com)
    -- `inner_partition[n2c].remove(u)`
    idxGuard "compute_one_level: inner_partition[n2c]" st.inner.length cur
    let inner := st.inner.set cur ((st.inner[cur]?.getD []).filter (· != u))
    -- `_partition[best_com] = _partition[best_com].union(&com)..`
    idxGuard "compute_one_level: _partition[best_com]" part.length bestCom
    let part := part.set bestCom (sunion (part[bestCom]?.getD []) com)
    -- `inner_partition[best_com].insert(*u)`
    idxGuard "compute_one_level: inner_partition[best_com]" inner.length bestCom
    let inner := inner.set bestCom (sinsert (inner[bestCom]?.getD []) u)
    .ok { part := part, inner := inner, node2com := ainsert st.node2com u bestCom, di := di, improvement := true, moves := st.moves + 1,
          risky := st.risky || risky }
  else .ok { st with di := di, risky := st.risky || risky }

/-- the body of `for u in &shuffled_nodes` -/
def visit (lv : Level) (m res : Rat) (st : LState) (u : Nat) : Outcome LState := do
  let cur ← Outcome.ofOption "compute_one_level: node2com.get(u).unwrap()" (alookup st.node2com u)
  let w2c ← neighborWeights lv.g u st.node2com
  visitWith lv m res st u cur w2c

/-- `while nb_moves > 0 { for u in shuffled { .. } }`; `none` = fuel exhausted -/
def sweeps (lv : Level) (m res : Rat) (order : List Nat) : Nat → LState → Outcome (Option LState)
  | 0, _ => .ok none
  | fuel + 1, st => do
    let st' ← order.foldl (fun acc u => do let s ← acc; visit lv m res s u) (.ok { st with moves := 0 })
    if st'.moves > 0 then sweeps lv m res order fuel st' else .ok (some st')

/-- `compute_one_level`: returns (new_partition, new_inner_partition, improvement) -/
def computeOneLevel (lv : Level) (m res : Rat) (partition : List (List Nat)) (perm : List Nat) (fuel : Nat) :
    Outcome (Option (List (List Nat) × List (List Nat) × Bool)) := do
  let names := sortNat lv.g.getAllNodeNames
  let di ← degreeInformation lv.g partition.length
  -- `shuffle` permutes the vector of node names in `get_all_nodes()` order
  let base := lv.g.getAllNodeNames
  let order := perm.filterMap fun i => base[i]?
  let st0 : LState := { part := partition, inner := names.map fun n => [n], node2com := names.map fun n => (n, n),
                        di := di, improvement := false, moves := 0 }
  match ← sweeps lv m res order fuel st0 with
  | none => .ok none
  | some st => if st.risky then .ok none else .ok (some (st.part.filter (!·.isEmpty), st.inner.filter (!·.isEmpty), st.improvement))

/-- `generate_graph` -/
def generateGraph (lv : Level) (inner : List (List Nat)) : Outcome Level := do
  let sp := { lv.g.specs with selfLoops := true, dedupe := .keepLast }
  -- `graph.get_node(node.clone()).unwrap()` for every member of every part
  (if inner.all (fun part => part.all fun x => (lv.g.getNode x).isSome) then .ok ()
   else .panic "generate_graph: get_node(node).unwrap()")
  let node2com : List (Nat × Nat) := inner.zipIdx.foldl (fun m p => p.1.foldl (fun m x => ainsert m x p.2) m) []
  let members : List (Nat × List Nat) := inner.zipIdx.map fun p =>
    (p.2, p.1.foldl (fun acc x => sunion acc ((alookup lv.members x).getD [x])) [])
  let g0 := (List.range inner.length).foldl (fun g i => g.addNode ⟨i, none⟩) (Store.new sp)
  let g ← lv.g.allEdges.foldl (fun acc e => do
    let g ← acc
    let c1 ← Outcome.ofOption "generate_graph: node2com.get(u).unwrap()" (alookup node2com e.u)
    let c2 ← Outcome.ofOption "generate_graph: node2com.get(v).unwrap()" (alookup node2com e.v)
    let old : W := match g.getEdge c1 c2 with | .ok x => x.w | _ => some 0
    match g.addEdge ⟨c1, c2, W.add e.w old, none⟩ with
    | (g', none) => .ok g'
    | (_, some _) => .panic "generate_graph: unexpected failure to add edge") (.ok g0)
  .ok { g := g, members := members }

/-- `convert_graph` (node names -> their rank among the sorted names) -/
def convertGraph (s : Store) (weighted : Bool) : Outcome Level := do
  let sorted := sortNat s.getAllNodeNames
  let rank (x : Nat) : Outcome Nat :=
    let i := sorted.findIdx (· == x)
    if i < sorted.length then .ok i else .panic "convert_graph: node_map.get().unwrap()"
  let s1 ← if s.specs.multi then s.toSingleEdges.unwrap "convert_graph: to_single_edges().unwrap()" else .ok s
  let s2 ← if !weighted then s1.setAllEdgeWeights (some 1) else .ok s1
  let nodes ← s2.getAllNodes.foldl (fun acc n => do let l ← acc; let r ← rank n.name; .ok (l ++ [(⟨r, none⟩ : Node)])) (.ok [])
  let edges ← s2.allEdges.foldl (fun acc e => do
    let l ← acc
    let u ← rank e.u
    let v ← rank e.v
    .ok (l ++ [(⟨u, v, e.w, none⟩ : Edge)])) (.ok [])
  let g ← (Store.newFrom s2.specs nodes edges).unwrap "convert_graph: unwrap"
  .ok { g := g, members := nodes.map fun n => (n.name, [n.name]) }

/-- the `while improvement` loop of `louvain_partitions`; `none` = fuel exhausted / undefined modularity -/
def levelLoop (weighted : Bool) (res threshold m : Rat) (perms : List (List Nat)) (sweepFuel : Nat) :
    Nat → Level → List (List Nat) → List (List Nat) → Bool → Rat → List (List (List Nat)) → Outcome (Option (List (List (List Nat))))
  | 0, _, _, _, _, _, _ => .ok none
  | fuel + 1, lv, partition, inner, improvement, modularity, acc =>
    if !improvement then .ok (some acc)
    else do
      let acc := acc ++ [partition]
      match ← (lv.g.modularity inner weighted res).unwrap "louvain_partitions: modularity().unwrap()" with
      | none => .ok none
      | some newMod =>
        if newMod - modularity ≤ threshold then .ok (some acc)
        else do
          let lv' ← generateGraph lv inner
          let perm := perms[lv'.g.numNodes]?.getD []
          match ← computeOneLevel lv' m res partition perm sweepFuel with
          | none => .ok none
          | some (p, i, imp) => levelLoop weighted res threshold m perms sweepFuel fuel lv' p i imp newMod acc

/-- `louvain_partitions` over rank names (the harness maps ranks back to names) -/
def louvainPartitions (s : Store) (weighted : Bool) (res threshold : Rat) (perms : List (List Nat)) :
    Outcome (Option (List (List (List Nat)))) := do
  let lv ← convertGraph s weighted
  let n := lv.g.numNodes
  let partition : List (List Nat) := (List.range n).map fun i => [i]
  match ← (lv.g.modularity partition weighted res).unwrap "louvain_partitions: modularity().unwrap()" with
  | none => .ok none
  | some mod0 =>
    let m : Rat := if weighted then ratW lv.g.sizeWeighted else (lv.g.sizeUnweighted : Rat)
    let sweepFuel := 4 * n * n + 16
    match ← computeOneLevel lv m res partition (perms[n]?.getD []) sweepFuel with
    | none => .ok none
    | some (p, i, _) => levelLoop weighted res threshold m perms sweepFuel (n + 2) lv p i true mod0 []

end LouvainFull
end Graphrs
