/-
  Executable model of src/readwrite/graphml.rs on top of quick-xml *events*: the tokenizer /
  writer of quick-xml is library code; the harness turns a document into the event list with the
  same quick-xml and hands it over. Strings are interned as numbers (a fixed table for the words
  the reader looks for, fresh numbers for everything else).
-/
import GraphrsModel.Model.Store
namespace Graphrs
namespace Xml

/-- interned strings the reader compares against -/
def sNode : Nat := 1
def sEdge : Nat := 2
def sKey : Nat := 3
def sGraph : Nat := 4
def sData : Nat := 5
def sId : Nat := 6
def sSource : Nat := 7
def sTarget : Nat := 8
def sFor : Nat := 9
def sAttrName : Nat := 10
def sEdgeDefault : Nat := 11
def sWeight : Nat := 12
def sDirected : Nat := 13
def sUndirected : Nat := 14

/-- `e.attributes()` collected into a map: `none` when an attribute is malformed / duplicated or
    its value cannot be unescaped (the `?` in `get_attributes_as_hashmap`). -/
abbrev Attrs := Option (List (Nat × Nat))

inductive Event
  | start (name : Nat) (attrs : Attrs)
  | empty (name : Nat) (attrs : Attrs)
  | endTag (name : Nat)
  /-- a text event: the result of `str::from_utf8(..)?.trim().parse::<f64>()` (`none` = not a number) -/
  | text (value : Option W)
  | eof
  /-- `reader.read_event_into` returned `Err` -/
  | error
  /-- comments, declarations, CDATA, processing instructions, doctype -/
  | other
  deriving Repr, Inhabited

/-- `HashMap::get` after `collect()` (a later duplicate key would win; quick-xml reports
    duplicates as errors before that) -/
def attrGet (a : List (Nat × Nat)) (k : Nat) : Option Nat :=
  (a.reverse.find? (·.1 == k)).map (·.2)

structure RState where
  directed : Bool := true
  nodes : List Node := []
  edges : List Edge := []
  lastElem : Nat := 0
  weightKey : Nat := sWeight
  /-- `expecting_weight_text`: set by a weight <data> start tag, consumed by the next event -/
  expecting : Bool := false

/-- `add_node` -/
def addNode (st : RState) (attrs : Attrs) : Except ErrKind RState :=
  match attrs with
  | none => .error .ReadError
  | some a =>
    match attrGet a sId with
    | none => .error .ReadError
    | some v => .ok { st with nodes := st.nodes ++ [⟨v, none⟩] }

/-- `add_edge` -/
def addEdge (st : RState) (attrs : Attrs) : Except ErrKind RState :=
  match attrs with
  | none => .error .ReadError
  | some a =>
    match attrGet a sSource, attrGet a sTarget with
    | some u, some v => .ok { st with edges := st.edges ++ [⟨u, v, none, none⟩] }
    | _, _ => .error .ReadError

/-- `get_edge_weight_key_id` applied to a <key> element -/
def keyElem (st : RState) (attrs : Attrs) : Except ErrKind RState :=
  match attrs with
  | none => .error .ReadError
  | some a =>
    if attrGet a sAttrName == some sWeight && attrGet a sFor == some sEdge then
      match attrGet a sId with
      | some i => .ok { st with weightKey := i }
      | none => .ok st
    else .ok st

/-- `get_graph_directed` -/
def graphElem (st : RState) (attrs : Attrs) : Except ErrKind RState :=
  match attrs with
  | none => .error .ReadError
  | some a =>
    match attrGet a sEdgeDefault with
    | none => .error .ReadError
    | some v =>
      if v == sDirected then .ok { st with directed := true }
      else if v == sUndirected then .ok { st with directed := false }
      else .error .ReadError

def setLastWeight (edges : List Edge) (w : W) : List Edge :=
  match edges.reverse with
  | [] => []
  | e :: rest => (({ e with w := w } : Edge) :: rest).reverse

/-- One iteration of `loop { match reader.read_event_into(..) }`: `none` = `break` (Eof). -/
def readStep (st0 : RState) (ev : Event) : Except ErrKind (Option RState) :=
  let isWeightText := st0.expecting
  let st := { st0 with expecting := false }
  let cont (r : Except ErrKind RState) : Except ErrKind (Option RState) :=
    match r with | .ok s => .ok (some s) | .error e => .error e
  match ev with
  | .text v =>
    if isWeightText then
      if st.lastElem == sEdge && !st.edges.isEmpty then
        match v with
        | none => .error .ReadError
        | some w => .ok (some { st with edges := setLastWeight st.edges w })
      else .ok (some st)
    else .ok (some st)
  | .eof => .ok none
  | .error => .error .ReadError
  | .empty name attrs =>
    if name == sNode then cont (addNode st attrs)
    else if name == sEdge then cont (addEdge st attrs)
    else if name == sKey then cont (keyElem st attrs)
    else if name == sGraph then cont (graphElem st attrs)
    else .ok (some st)
  | .start name attrs =>
    if name == sGraph then cont (graphElem st attrs)
    else if name == sNode then cont (addNode { st with lastElem := sNode } attrs)
    else if name == sEdge then cont (addEdge { st with lastElem := sEdge } attrs)
    else if name == sKey then cont (keyElem st attrs)
    else if name == sData then
      match attrs with
      | none => .error .ReadError
      | some a => .ok (some (if attrGet a sKey == some st.weightKey then { st with expecting := true } else st))
    else .ok (some st)
  | _ => .ok (some st)

/-- The reader loop; structural on the event list. Running out of events without `Eof` cannot
    happen (quick-xml ends every stream with `Eof`); it is treated like `Eof`. -/
def readLoop (st : RState) : List Event → Except ErrKind RState
  | [] => .ok st
  | ev :: rest =>
    match readStep st ev with
    | .error e => .error e
    | .ok none => .ok st
    | .ok (some st') => readLoop st' rest

/-- `read_graphml_string` on the event list -/
def readEvents (specs : Specs) (evs : List Event) : Outcome Store :=
  match readLoop {} evs with
  | .error k => .err k
  | .ok st => Store.newFrom { specs with directed := st.directed } st.nodes st.edges

/-- The events `write_graphml_string` emits for a graph (attribute order as written). -/
def writeEvents (s : Store) : List Event :=
  [ .start 0 (some []),     -- <graphml xmlns=.. ..> (its attributes are irrelevant to the reader)
    .empty sKey (some [(sId, sWeight), (sFor, sEdge), (sAttrName, sWeight), (0, 0)]),
    .start sGraph (some [(sEdgeDefault, if s.specs.directed then sDirected else sUndirected)]) ] ++
  s.nodesVec.map (fun n => Event.empty sNode (some [(sId, n.name)])) ++
  s.allEdges.flatMap (fun e =>
    [Event.start sEdge (some [(sSource, e.u), (sTarget, e.v)])] ++
    (match e.w with
     | none => []
     | some w => [Event.start sData (some [(sKey, sWeight)]), Event.text (some (some w)), Event.endTag sData]) ++
    [Event.endTag sEdge]) ++
  [ .endTag sGraph, .endTag 0, .eof ]

end Xml
end Graphrs
