/-
  Executable model of `struct Graph` and its mutation API
  (src/graph/mod.rs, src/graph/creation.rs, src/graph_specs.rs, src/edge.rs, src/node.rs).
  Every private index of the Rust struct has a field here and `addEdge` follows the Rust
  function line for line.
-/
import GraphrsModel.Base
namespace Graphrs

inductive Dedupe | error | keepFirst | keepLast deriving DecidableEq, Repr, Inhabited
inductive Missing | create | error deriving DecidableEq, Repr, Inhabited
inductive SLFalse | error | drop deriving DecidableEq, Repr, Inhabited

/-- `GraphSpecs`. -/
structure Specs where
  directed : Bool
  multi : Bool
  selfLoops : Bool
  dedupe : Dedupe
  missing : Missing
  slFalse : SLFalse
  deriving DecidableEq, Repr, Inhabited

/-- An `f64` edge weight as far as the store is concerned: `none` is NaN (the "unweighted"
    marker), `some x` an integer-valued weight. The only float behaviour the store uses is
    `<` (false on NaN) and `+` (NaN-absorbing). -/
abbrev W := Option Int

def W.lt : W → W → Bool
  | some a, some b => decide (a < b)
  | _, _ => false

def W.add : W → W → W
  | some a, some b => some (a + b)
  | _, _ => none

def W.isNan : W → Bool | none => true | some _ => false

/-- `Node<T, A>`: name and optional attributes (an opaque tag). -/
structure Node where
  name : Nat
  attr : Option Nat
  deriving DecidableEq, Repr, Inhabited

/-- `Edge<T, A>`. -/
structure Edge where
  u : Nat
  v : Nat
  w : W
  attr : Option Nat
  deriving DecidableEq, Repr, Inhabited

/-- `Edge::reversed`. -/
def Edge.reversed (e : Edge) : Edge := { e with u := e.v, v := e.u }
/-- `Edge::ordered`: (v, u) if u > v (by *name*). -/
def Edge.ordered (e : Edge) : Edge := if e.u > e.v then e.reversed else e

/-- An entry of `successors_vec` / `predecessors_vec` (`AdjacentNode`). -/
abbrev Adj := Nat × W

/-- `struct Graph`. `edgesMap` is the two-level `IntMap<usize, IntMap<usize, Vec<_>>>`
    flattened to pair keys (same lookup, insert and iteration behaviour).
    `poisoned` records that a panic site inside a mutation was reached (never, on reachable
    states: see `Inv.notPoisoned`). -/
structure Store where
  specs : Specs
  nodesMap : List (Nat × Nat) := []
  nodesMapRev : List (Nat × Node) := []
  nodesVec : List Node := []
  edges : List ((Nat × Nat) × List Edge) := []
  edgesMap : List ((Nat × Nat) × List Edge) := []
  succ : List (Nat × List Nat) := []
  succMap : List (Nat × List Nat) := []
  succVec : List (List Adj) := []
  pred : List (Nat × List Nat) := []
  predMap : List (Nat × List Nat) := []
  predVec : List (List Adj) := []
  poisoned : Option String := none
  deriving Repr, Inhabited

/-- `Graph::new`. -/
def Store.new (specs : Specs) : Store := { specs := specs }

def Store.poison (s : Store) (site : String) : Store :=
  match s.poisoned with
  | some _ => s
  | none => { s with poisoned := some site }

/-- `Graph::add_node`. -/
def Store.addNode (s : Store) (node : Node) : Store :=
  match alookup s.nodesMap node.name with
  | some i =>
    -- `self.nodes_vec[node_index] = node` (index panic if out of range)
    let s := if i < s.nodesVec.length then s else s.poison "add_node: nodes_vec index"
    { s with nodesVec := s.nodesVec.set i node, nodesMapRev := ainsert s.nodesMapRev i node }
  | none =>
    let i := s.nodesVec.length
    { s with
      nodesMap := ainsert s.nodesMap node.name i
      nodesMapRev := if acontains s.nodesMapRev i then s.nodesMapRev else ainsert s.nodesMapRev i node
      nodesVec := s.nodesVec ++ [node]
      succMap := ainsert s.succMap i []
      predMap := ainsert s.predMap i []
      succVec := s.succVec ++ [[]]
      predVec := s.predVec ++ [[]] }

/-- `Graph::add_nodes`. -/
def Store.addNodes (s : Store) (nodes : List Node) : Store := nodes.foldl Store.addNode s

/-- `Graph::get_edge_by_indexes` / `get_edges_by_indexes`: the list stored under the pair,
    canonicalised by *position* when undirected. -/
def Store.edgesByIdx (s : Store) (u v : Nat) : Option (List Edge) :=
  let key := if !s.specs.directed && u > v then (v, u) else (u, v)
  alookup s.edgesMap key

/-- The private `AdjacencyUpdate` enum of creation.rs. -/
inductive AdjUpd | push | keepMin | overwrite | untouched deriving DecidableEq, Repr

/-- `add_to_adjacency_vec`. Returns `none` where the Rust code would panic. -/
def adjUpdate (vec : List (List Adj)) (u v : Nat) (w : W) (upd : AdjUpd) : Option (List (List Adj)) :=
  match vec[u]? with
  | none => none   -- `adjacency_vec[u_node_index]` out of range
  | some row =>
    match upd with
    | .push => some (vec.set u (row ++ [(v, w)]))
    | .keepMin =>
      match row.findIdx? (fun a => a.1 == v) with
      | none => none   -- `.position(..).unwrap()`
      | some i =>
        match row[i]? with
        | none => none
        | some a => if W.lt w a.2 then some (vec.set u (row.set i (v, w))) else some vec
    | .overwrite => some (vec.set u (row.map (fun a => if a.1 == v then (a.1, w) else a)))
    | .untouched => some vec

def Store.adjSucc (s : Store) (u v : Nat) (w : W) (upd : AdjUpd) : Store :=
  match adjUpdate s.succVec u v w upd with
  | some vec => { s with succVec := vec }
  | none => s.poison "add_to_adjacency_vec(successors_vec)"

def Store.adjPred (s : Store) (u v : Nat) (w : W) (upd : AdjUpd) : Store :=
  match adjUpdate s.predVec u v w upd with
  | some vec => { s with predVec := vec }
  | none => s.poison "add_to_adjacency_vec(predecessors_vec)"

/-- `Graph::add_edge`. Returns the new state and `none` for `Ok(())` / `some kind` for `Err`. -/
def Store.addEdge (s : Store) (e : Edge) : Store × Option ErrKind :=
  let sp := s.specs
  -- check for self loops
  if !sp.selfLoops && e.u == e.v then
    match sp.slFalse with
    | .error => (s, some .SelfLoopsFound)
    | .drop => (s, none)
  -- check for missing nodes
  else if sp.missing == .error && (!acontains s.nodesMap e.u || !acontains s.nodesMap e.v) then
    (s, some .NodeNotFound)
  else
    -- add or insert nodes
    let s := if !acontains s.nodesMap e.u then s.addNode ⟨e.u, none⟩ else s
    let s := if !acontains s.nodesMap e.v then s.addNode ⟨e.v, none⟩ else s
    -- get node indexes (`unwrap`)
    match alookup s.nodesMap e.u, alookup s.nodesMap e.v with
    | some ui, some vi =>
      -- check for duplicate edges
      let already := (s.edgesByIdx ui vi).isSome
      if sp.dedupe == .error && !sp.multi && already then
        (s, some .DuplicateEdge)
      else
        let upd : AdjUpd :=
          match already, sp.multi with
          | false, _ => .push
          | true, true => .keepMin
          | true, false => if sp.dedupe == .keepLast then .overwrite else .untouched
        let ordered := if sp.directed then e else e.ordered
        let (ou, ov) := if !sp.directed && ui > vi then (vi, ui) else (ui, vi)
        let s := { s with
          succ := amodify s.succ e.u [] (sinsert · e.v)
          succMap := amodify s.succMap ui [] (sinsert · vi) }
        let s := s.adjSucc ou ov e.w upd
        let s :=
          if sp.directed then
            let s := { s with
              pred := amodify s.pred e.v [] (sinsert · e.u)
              predMap := amodify s.predMap vi [] (sinsert · ui) }
            s.adjPred ov ou e.w upd
          else
            let s := { s with
              succ := amodify s.succ e.v [] (sinsert · e.u)
              succMap := amodify s.succMap vi [] (sinsert · ui) }
            s.adjSucc ov ou e.w upd
        -- add edge
        let s :=
          if sp.multi then
            { s with
              edges := amodify s.edges (ordered.u, ordered.v) [] (· ++ [ordered])
              edgesMap := amodify s.edgesMap (ou, ov) [] (· ++ [ordered]) }
          else if (s.edgesByIdx ou ov).isNone then
            { s with
              edges := ainsert s.edges (ordered.u, ordered.v) [ordered]
              edgesMap := ainsert s.edgesMap (ou, ov) [ordered] }
          else if sp.dedupe == .keepLast then
            { s with
              edges := ainsert s.edges (ordered.u, ordered.v) [ordered]
              edgesMap := ainsert s.edgesMap (ou, ov) [ordered] }
          else s
        (s, none)
    | _, _ => (s.poison "add_edge: nodes_map.get(..).unwrap()", none)

/-- `Graph::add_edges` (stops at the first error, keeping what was applied before it). -/
def Store.addEdges (s : Store) : List Edge → Store × Option ErrKind
  | [] => (s, none)
  | e :: es =>
    match s.addEdge e with
    | (s', none) => s'.addEdges es
    | (s', some k) => (s', some k)

/-- `Graph::new_from_nodes_and_edges`: `Err` drops the graph. -/
def Store.newFrom (specs : Specs) (nodes : List Node) (edges : List Edge) : Outcome Store :=
  match ((Store.new specs).addNodes nodes).addEdges edges with
  | (s, none) => .ok s
  | (_, some k) => .err k

/-- One call of the mutation API. -/
inductive Op
  | addNode (n : Node)
  | addNodes (ns : List Node)
  | addEdge (e : Edge)
  | addEdgeTuple (u v : Nat)
  | addEdges (es : List Edge)
  | addEdgeTuples (es : List (Nat × Nat))
  | newFrom (ns : List Node) (es : List Edge)
  deriving Repr, Inhabited

/-- `Edge::new(u, v)`: unweighted, no attributes. -/
def Edge.tuple (u v : Nat) : Edge := ⟨u, v, none, none⟩

/-- Apply one call. `newFrom` models `g = Graph::new_from_nodes_and_edges(..)?`: on `Ok` the
    history continues with the new graph, on `Err` with the old one. -/
def Store.step (s : Store) : Op → Store × Option ErrKind
  | .addNode n => (s.addNode n, none)
  | .addNodes ns => (s.addNodes ns, none)
  | .addEdge e => s.addEdge e
  | .addEdgeTuple u v => s.addEdge (Edge.tuple u v)
  | .addEdges es => s.addEdges es
  | .addEdgeTuples es => s.addEdges (es.map fun p => Edge.tuple p.1 p.2)
  | .newFrom ns es =>
    match Store.newFrom s.specs ns es with
    | .ok s' => (s', none)
    | .err k => (s, some k)
    | .panic site => (s.poison site, none)

/-- Run a history from the empty graph; returns the final state and the result of every call. -/
def Store.run (specs : Specs) (ops : List Op) : Store × List (Option ErrKind) :=
  ops.foldl (fun (acc : Store × List (Option ErrKind)) op =>
    let (s', r) := acc.1.step op
    (s', acc.2 ++ [r])) (Store.new specs, [])

/-- `get_all_edges`: the values of `edges`, flattened (key order is the map's iteration order). -/
def Store.allEdges (s : Store) : List Edge := s.edges.flatMap (·.2)

def Store.numNodes (s : Store) : Nat := s.nodesVec.length

end Graphrs
