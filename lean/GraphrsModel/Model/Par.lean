/-
  Model of the five rayon call sites (dijkstra.rs: all_pairs, multi_source; betweenness.rs;
  closeness.rs; get_all_shortest_paths_involving goes through all_pairs).

  Every site has the shape
      (0..n).into_par_iter().map(f).collect::<Vec<_>>()      -- parallel branch
      (0..n).into_iter().map(f).collect::<Vec<_>>() / a for-loop  -- serial branch
  followed by a *sequential* fold over the collected vector in index order.  `f` is a pure
  function of the shared, immutable `&Graph` and the index.  A schedule is the order in which
  the work items complete; an indexed parallel collect stores the result of item `i` in slot `i`.
-/
import GraphrsModel.Base
namespace Graphrs

/-- Evaluate the items in the order given by `sched` (any list of indexes), writing each result
    into its own slot; slots never written stay `none`. -/
def parCollectSlots {α β} (f : α → β) (xs : List α) (sched : List Nat) : List (Option β) :=
  sched.foldl (fun slots i =>
    match xs[i]? with
    | some x => slots.set i (some (f x))
    | none => slots) (List.replicate xs.length none)

/-- all slots written? then the vector -/
def allSome {β} : List (Option β) → Option (List β)
  | [] => some []
  | none :: _ => none
  | some b :: rest => (allSome rest).map (b :: ·)

/-- The collected vector, provided every slot was written. -/
def parCollect {α β} (f : α → β) (xs : List α) (sched : List Nat) : Option (List β) :=
  allSome (parCollectSlots f xs sched)

/-- `if n > threshold && threads > 1 { parallel } else { serial }` followed by the sequential fold. -/
def dispatch {α β γ} (threshold threads : Nat) (f : α → β) (xs : List α) (sched : List Nat)
    (fold : List β → γ) : Option γ :=
  if xs.length > threshold && threads > 1 then (parCollect f xs sched).map fold
  else some (fold (xs.map f))

end Graphrs
