/-
  Line-protocol handlers for the community families: `mod` (C12) and `louv` (C13, C17).
-/
import GraphrsModel.ObsClu
import GraphrsModel.Model.Community
import GraphrsModel.Model.LouvainFull
namespace Graphrs

def P.rat : P Rat := do
  let n ← P.next
  let d ← P.nat
  -- denominator 0 encodes an extreme value: numerator x 10^-320 (the harness hands the implementation the subnormal f64)
  pure (if d == 0 then (n : Rat) / ((10 : Rat) ^ 320) else (n : Rat) / ((d : Nat) : Rat))

/-- `mod <graph> <weighted> <res num den> <communities>` -/
def handleMod : P String := do
  let (sp, nodes, edges) ← P.graph
  let weighted ← P.bool
  let res ← P.rat
  let comms ← P.listOf (P.listOf P.nat)
  -- the implementation saw every weight divided by `wdiv` (a power of two): modularity is invariant
  let _wdiv ← P.nat
  P.done
  let (so, a) := buildBoth sp nodes edges
  match so with
  | .err e => pure s!"m.build=E{e.code}"
  | .panic _ => pure "m.build=P"
  | .ok s =>
    let pv : Option Rat → String := fun v => match v with | some q => pRat q | none => "nan"
    let m := [("build", "0"), ("isp", if s.isPartition comms then "1" else "0"),
              ("mod:q", pOut pv (s.modularity comms weighted res))]
    let isp := a.isPartitionSpec comms
    let sf := [("isp", if isp then "1" else "0"),
               ("mod:q", if !isp then "E6" else
                  match Abs.modularitySpec sp.directed a comms weighted res with
                  | some q => pRat q
                  | none => "*")]   -- no edge / NaN weights: outside the property's precondition
    pure (pFields "m." m ++ "|" ++ pFields "s." sf)

/-- does every set of `fine` lie inside one set of `coarse`? -/
def coarsens (coarse fine : List (List Nat)) : Bool :=
  fine.all fun f => coarse.any fun c => f.all c.contains

/-- `louv <graph> <weighted> <res> <seed> 777777 code levels commCode comm` -/
def handleLouv : P String := do
  let (sp, nodes, edges) ← P.graph
  let weighted ← P.bool
  let res ← P.rat
  let _seed ← P.next
  let perms ← P.listOf (P.listOf P.nat)
  -- the implementation saw every weight divided by `wden`; modularity and the gain comparisons are invariant under a common
  -- scaling of the weights, so the model and the checker work on the integer numerators
  let _wden ← P.nat
  let rest ← get
  let (so, a) := buildBoth sp nodes edges
  -- the step-level model (exact arithmetic; default threshold 1e-7)
  let modelParts : String := match so with
    | .ok s =>
      (match LouvainFull.louvainPartitions s weighted res ((1 : Rat) / 10000000) perms with
       | .ok (some levels) =>
         let sorted := sortNat s.getAllNodeNames
         let toNames (l : List Nat) : List Nat := l.filterMap fun r => sorted[r]?
         if levels.isEmpty then "." else
         joinWith " " (levels.map fun lev =>
           joinWith ";" ((sortNatLists (lev.map fun c => sortNat (toNames c))).map fun c => if c.isEmpty then "_" else pNats c))
       | .ok none => "nomodel"
       | .err k => s!"E{k.code}"
       | .panic site => "P:" ++ site)
    | .err k => s!"E{k.code}"
    | .panic _ => "P"
  match rest with
  | [] => pure s!"m.build=0|m.parts={modelParts}"
  | _ => do
    let _ ← P.next
    let code ← P.next
    let levels ← (if code == 0 then P.listOf (P.listOf (P.listOf P.nat)) else pure [])
    let ccode ← P.next
    let comm ← (if ccode == 0 then P.listOf (P.listOf P.nat) else pure [])
    let isPart (l : List (List Nat)) : Bool := a.isPartitionSpec l && l.all (fun c => !c.isEmpty)
    let okLevels : String :=
      if code != 0 then s!"unexpected-code-{code}"
      else if levels.isEmpty then "no-level"
      else match levels.zipIdx.find? (fun p => !isPart p.1) with
        | some p => s!"level-{p.2}-is-not-a-partition-into-non-empty-sets"
        | none => "1"
    let okNested : String :=
      match (levels.zip (levels.drop 1)).zipIdx.find? (fun p => !coarsens p.1.2 p.1.1) with
      | some p => s!"level-{p.2 + 1}-does-not-coarsen-level-{p.2}"
      | none => "1"
    let eps : Rat := 1 / 1000000000
    let q (l : List (List Nat)) : Option Rat := Abs.modularitySpec sp.directed a l weighted res
    let singles : List (List Nat) := a.nodeNames.map fun x => [x]
    let okMono : String :=
      if sp.multi || okLevels != "1" then "1"
      else
        let qs := (singles :: levels).map q
        match (qs.zip (qs.drop 1)).zipIdx.find? (fun p =>
            match p.1.1, p.1.2 with
            | some x, some y => y < x - eps
            | _, _ => false) with
        | some p => s!"modularity-decreases-at-level-{p.2}"
        | none => "1"
    let okLast : String :=
      if code != 0 then "1"
      else if ccode != 0 then s!"communities-code-{ccode}"
      else match levels.getLast? with
        | some l => if sortNatLists (l.map sortNat) == sortNatLists (comm.map sortNat) then "1" else "communities-is-not-the-last-level"
        | none => "1"
    pure (pFields "m." [("build", "0"), ("parts", modelParts)] ++ "|" ++
          pFields "s." [("ok.levels", okLevels), ("ok.nested", okNested), ("ok.monotone", okMono), ("ok.last", okLast)])

end Graphrs
