/-
  Line-protocol handler for the escaping family (C14): `esc <n> <byte>*`.
-/
import GraphrsModel.Obs
import GraphrsModel.Proto
import GraphrsModel.Model.Escape
namespace Graphrs

def pBytes (l : List Nat) : String := if l.isEmpty then "." else pNats l

/-- model: `escape`, `unescape` of the given bytes; specification (C14): the name written as an attribute value comes
    back unchanged, and the written value cannot end the attribute early -/
def handleEsc : P String := do
  let bs ← P.listOf P.nat
  P.done
  let e := Esc.escape bs
  let m := [("esc", pBytes e),
            ("un", match Esc.unescape bs with | some r => pBytes r | none => "E"),
            ("rt", if Esc.unescape e == some bs then "1" else "0"),
            ("attr", if Esc.unescape (Esc.quotedValue e) == some bs then "1" else "0")]
  pure (pFields "m." m ++ "|" ++ pFields "s." [("rt", "1"), ("attr", "1")])

end Graphrs
