/-
  Line-protocol handler for the shortest-path family (C04, C07, C08): model output as canonical
  fields, and the Lean checker's verdicts on the implementation's output.
-/
import GraphrsModel.Obs
import GraphrsModel.Proto
import GraphrsModel.Model.Dijkstra
import GraphrsModel.Spec.PathCheck
namespace Graphrs

def pPath (p : List Nat) : String := joinWith "-" (p.map toString)
def pSPInfo (i : SPInfo) : String :=
  s!"{i.dist}:" ++ (if i.paths.isEmpty then "." else joinWith "/" ((sortPaths i.paths).map pPath))
def pSPRow (m : List (Nat × SPInfo)) : String :=
  if m.isEmpty then "." else
  joinWith ";" ((isort (fun (a b : Nat × SPInfo) => decide (a.1 ≤ b.1)) m).map fun kv => s!"{kv.1}:{pSPInfo kv.2}")
def pSPMap (m : List (Nat × List (Nat × SPInfo))) : String :=
  if m.isEmpty then "." else
  joinWith " " ((isort (fun (a b : Nat × List (Nat × SPInfo)) => decide (a.1 ≤ b.1)) m).map fun kv => s!"{kv.1}>{pSPRow kv.2}")
def pOut {α} (f : α → String) : Outcome α → String
  | .ok a => f a | .err k => s!"E{k.code}" | .panic _ => "P"

/-- the implementation's answer as tokens: code (0 = Ok, k = Err(kind k), -1 = panic), then rows -/
abbrev ImplRow := Nat × List (Nat × Int × List (List Nat))
def P.implMap : P (Int × List ImplRow) := do
  let code ← P.next
  if code != 0 then return (code, [])
  let rows ← P.listOf (do
    let src ← P.nat
    let tg ← P.listOf (do
      let t ← P.nat
      let d ← P.next
      let ps ← P.listOf (P.listOf P.nat)
      pure (t, d, ps))
    pure (src, tg))
  pure (0, rows)

def checkMap (nodes : List Nat) (arcs : Arcs) (q : Nat → SPQuery) (sources : List Nat)
    (expectErr : Option (List ErrKind)) (ans : Int × List ImplRow) : String :=
  match expectErr with
  | some ks => if ks.any (fun k => (k.code : Int) == ans.1) then "1" else s!"expected-error-got-{ans.1}"
  | none =>
    if ans.1 != 0 then s!"unexpected-code-{ans.1}"
    else
      let keys := ans.2.map (·.1)
      if sortNat keys != sortNat (dedup sources) then "sources"
      else
        match ans.2.findSome? (fun row => (checkSingleSource nodes arcs (q row.1) row.2).map fun c => s!"{c}@{row.1}") with
        | some c => c
        | none => "1"

def handleSP : P String := do
  let sp ← P.specs
  let nodes ← P.listOf P.nat
  let edges ← P.listOf (do let u ← P.nat; let v ← P.nat; let w ← P.weight; pure (Edge.mk u v w none))
  let weighted ← P.bool
  let target ← P.optNat
  let c ← P.next
  let cutoff2 : Option Int := if c == nanToken then none else some c
  let firstOnly ← P.bool
  let withPaths ← P.bool
  let inv ← P.nat
  -- the implementation saw weights and cutoff divided by `wdiv` (a power of two) and its distances were multiplied back
  let _wdiv ← P.nat
  let rest ← get
  let nodeObjs := nodes.map fun n => Node.mk n none
  match Store.newFrom sp nodeObjs edges with
  | .err k => set ([] : List Int); pure s!"m.build=E{k.code}"
  | .panic _ => set ([] : List Int); pure "m.build=P"
  | .ok s =>
    let names := s.getAllNodeNames
    let ss : Outcome (List (Nat × List (Nat × SPInfo))) := names.foldl (fun acc src => do
      let out ← acc
      let r ← s.singleSource weighted src target cutoff2 firstOnly withPaths
      .ok (ainsert out src r)) (.ok [])
    let ms := s.multiSource weighted names target cutoff2 firstOnly withPaths
    let ap := s.allPairs weighted target cutoff2 firstOnly withPaths
    let invR := s.pathsInvolving inv weighted
    let pInv (l : List SPInfo) : String :=
      if l.isEmpty then "." else joinWith " " ((isort (fun a b => decide (a ≤ b)) (l.map pSPInfo)))
    let m := [("build", "0"), ("ss", pOut pSPMap ss), ("ms", pOut pSPMap ms), ("ap", pOut pSPMap ap),
              ("inv", pOut pInv invR)]
    -- specification side: needs the implementation's answers
    let sfields ← (match rest with
      | [] => pure []
      | _ => do
        let _ ← P.next  -- separator
        let iss ← P.implMap
        let ims ← P.implMap
        let iap ← P.implMap
        let iinv ← P.listOf (do let d ← P.next; let ps ← P.listOf (P.listOf P.nat); pure (d, ps))
        let (a, _) := Abs.addEdges sp (({} : Abs).addNodes nodeObjs) edges
        let arcs := a.arcs sp.directed weighted
        let nn := a.nodeNames
        let q (src : Nat) : SPQuery := ⟨weighted, src, target, cutoff2, firstOnly, withPaths⟩
        let tgtAbsent := match target with | some t => !nn.contains t | none => false
        let unweightedErr := weighted && !(a.edges.all fun e => !e.w.isNan)
        let errSS : Option (List ErrKind) := if tgtAbsent then some [.NodeNotFound] else none
        let errAP : Option (List ErrKind) :=
          match tgtAbsent, unweightedErr with
          | true, true => some [.NodeNotFound, .EdgeWeightNotSpecified]
          | true, false => some [.NodeNotFound]
          | false, true => some [.EdgeWeightNotSpecified]
          | false, false => none
        -- get_all_shortest_paths_involving: exactly the pairs with a shortest path having `inv` strictly inside
        let arcsP := arcs
        let positive := arcsP.all fun x => x.2.2 > 0
        let expectInv : List (Int × List (List Nat)) :=
          if unweightedErr || !positive then [] else
          nn.flatMap fun src =>
            let d := Arcs.distFrom arcsP nn.length src
            d.filterMap fun kv =>
              let ps := Arcs.tightPaths arcsP d src nn.length kv.1
              if ps.any (fun p => p.length > 2 && (p.drop 1).dropLast.contains inv) then some (kv.2, sortPaths ps) else none
        let canonInv (l : List (Int × List (List Nat))) : List (Int × List (List Nat)) :=
          isort (fun a b => decide (a.1 < b.1) || (a.1 == b.1 && natListLe (a.2.flatMap (· ++ [0])) (b.2.flatMap (· ++ [0]))))
            (l.map fun x => (x.1, sortPaths x.2))
        let invOk := if !positive then "1" else if canonInv iinv == canonInv expectInv then "1" else "pairs-differ"
        pure [("ok.ss", checkMap nn arcs q nn errSS iss), ("ok.ms", checkMap nn arcs q nn errSS ims),
              ("ok.ap", checkMap nn arcs q nn errAP iap), ("ok.inv", invOk)])
    pure (pFields "m." m ++ (if sfields.isEmpty then "" else "|" ++ pFields "s." sfields))

end Graphrs
