/-
  The scalar operations the weighted clustering coefficients use, as a record: the weighted model (Model/Cluster.lean) and
  the weighted specification (Spec/Cluster.lean) are written once over an arbitrary `CScalar α` and instantiated at `Float`
  (what the driver executes) and at `ℝ` (what the C11 weighted theorems are about).
-/
namespace Graphrs

/-- The `f64` arithmetic the weighted clustering code (and its definition in Spec/Cluster.lean) uses, as a record of
    operations: the weighted model below and the weighted specification are written ONCE over an arbitrary `CScalar α`
    and instantiated at `Float` (`floatCScalar`, what the driver executes against the implementation) and at `ℝ`
    (`realCScalar` in Props/C11Weighted.lean, what the C11 weighted theorems are about). -/
structure CScalar (α : Type) where
  zero : α
  one : α
  two : α
  /-- the `f64` of a missing weight -/
  nan : α
  add : α → α → α
  sub : α → α → α
  mul : α → α → α
  div : α → α → α
  cbrt : α → α
  abs : α → α
  /-- `a < b` -/
  lt : α → α → Bool
  /-- `a == 0.0` -/
  isZero : α → Bool
  /-- `a != a` -/
  isNaN : α → Bool
  /-- `n as f64` -/
  ofNat : Nat → α
  /-- the `f64` of an integer-valued weight -/
  ofInt : Int → α

/-- IEEE double arithmetic: the instance the driver runs. -/
def floatCScalar : CScalar Float where
  zero := 0.0
  one := 1.0
  two := 2.0
  nan := 0.0 / 0.0
  add := (· + ·)
  sub := (· - ·)
  mul := (· * ·)
  div := (· / ·)
  cbrt := Float.cbrt
  abs := Float.abs
  lt := fun a b => a < b
  isZero := fun a => a == 0.0
  isNaN := fun a => a != a
  ofNat := Float.ofNat
  ofInt := Float.ofInt

end Graphrs
