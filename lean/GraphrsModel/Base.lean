/-
  Base vocabulary shared by every model and specification file.
  Import-free on purpose: the line-protocol driver links as a native executable.
-/
namespace Graphrs

/-! ## Error kinds and outcomes -/

/-- `graphrs::ErrorKind`, in the order of the Rust enum. -/
inductive ErrKind
  | ContradictoryPaths | DuplicateEdge | InvalidArgument | NodeNotFound | NoPartitions
  | NotAPartition | EdgeNotFound | EdgeWeightNotSpecified | PowerIterationFailedConvergence
  | ReadError | SelfLoopsFound | WrongMethod
  deriving DecidableEq, Repr, Inhabited

def ErrKind.code : ErrKind → Nat
  | .ContradictoryPaths => 1 | .DuplicateEdge => 2 | .InvalidArgument => 3 | .NodeNotFound => 4
  | .NoPartitions => 5 | .NotAPartition => 6 | .EdgeNotFound => 7 | .EdgeWeightNotSpecified => 8
  | .PowerIterationFailedConvergence => 9 | .ReadError => 10 | .SelfLoopsFound => 11
  | .WrongMethod => 12

/-- What a call of the real code can do: return a value, return an `Error`, or panic
    (`unwrap` on `None`/`Err`, slice index out of range, arithmetic overflow with checks on). -/
inductive Outcome (α : Type) where
  | ok (a : α)
  | err (k : ErrKind)
  | panic (site : String)
  deriving Repr, Inhabited

namespace Outcome
def bind {α β} (x : Outcome α) (f : α → Outcome β) : Outcome β :=
  match x with
  | ok a => f a
  | err k => err k
  | panic s => panic s
instance : Monad Outcome where
  pure := ok
  bind := bind
def isOk {α} : Outcome α → Bool | ok _ => true | _ => false
def isErr {α} : Outcome α → Bool | err _ => true | _ => false
def isPanic {α} : Outcome α → Bool | panic _ => true | _ => false
def map' {α β} (f : α → β) : Outcome α → Outcome β
  | ok a => ok (f a) | err k => err k | panic s => panic s
/-- Rust `Result::unwrap` / `Option::unwrap` on an `Outcome`: an error becomes a panic. -/
def unwrap {α} (site : String) : Outcome α → Outcome α
  | ok a => ok a | err _ => panic site | panic s => panic s
def ofOption {α} (site : String) : Option α → Outcome α
  | some a => ok a | none => panic site
def toOption {α} : Outcome α → Option α | ok a => some a | _ => none
end Outcome

/-! ## Association lists (models of `HashMap` / `IntMap`) -/

/-- lookup in an association list (first binding wins; models never create two). -/
def alookup {κ ν} [DecidableEq κ] : List (κ × ν) → κ → Option ν
  | [], _ => none
  | (k', v) :: m, k => if k' = k then some v else alookup m k

/-- `HashMap::insert`: replace the binding in place if the key is bound, else append. -/
def ainsert {κ ν} [DecidableEq κ] : List (κ × ν) → κ → ν → List (κ × ν)
  | [], k, v => [(k, v)]
  | (k', v') :: m, k, v => if k' = k then (k, v) :: m else (k', v') :: ainsert m k v

def acontains {κ ν} [DecidableEq κ] (m : List (κ × ν)) (k : κ) : Bool := (alookup m k).isSome

/-- `entry(k).or_default()` followed by a modification of the value. -/
def amodify {κ ν} [DecidableEq κ] (m : List (κ × ν)) (k : κ) (dflt : ν) (f : ν → ν) :
    List (κ × ν) :=
  ainsert m k (f ((alookup m k).getD dflt))

def akeys {κ ν} (m : List (κ × ν)) : List κ := m.map (·.1)

/-! ## Lists as sets (models of `HashSet` / `IntSet`) -/

/-- `HashSet::insert`. -/
def sinsert {α} [DecidableEq α] (s : List α) (x : α) : List α := if x ∈ s then s else s ++ [x]

def sunion {α} [DecidableEq α] (s t : List α) : List α := t.foldl sinsert s

def sinter {α} [DecidableEq α] (s t : List α) : List α := s.filter (· ∈ t)

def sdiff {α} [DecidableEq α] (s t : List α) : List α := s.filter (fun x => !(x ∈ t))

def dedup {α} [DecidableEq α] (l : List α) : List α := l.foldl sinsert []

/-! ## Sorting (for canonical output only; never used inside a modelled algorithm
    unless the Rust code itself sorts) -/

def insertSorted {α} (le : α → α → Bool) (x : α) : List α → List α
  | [] => [x]
  | y :: ys => if le x y then x :: y :: ys else y :: insertSorted le x ys

/-- Stable insertion sort (structural recursion: reduces in the kernel, so specifications that
    sort can be evaluated by `decide`). -/
def isort {α} (le : α → α → Bool) (l : List α) : List α :=
  l.foldr (fun x acc => insertSorted le x acc) []

/-- Stable merge sort (core), for canonicalising large outputs. -/
def msort {α} (le : α → α → Bool) (l : List α) : List α := l.mergeSort le

/-- no two equal adjacent elements (on a sorted list: no duplicates) -/
def noAdjacentDup {α} [BEq α] : List α → Bool
  | [] => true
  | [_] => true
  | x :: y :: rest => x != y && noAdjacentDup (y :: rest)

def natListLe : List Nat → List Nat → Bool
  | [], _ => true
  | _ :: _, [] => false
  | a :: as, b :: bs => if a < b then true else if b < a then false else natListLe as bs

def sortNat (l : List Nat) : List Nat := isort (fun a b => decide (a ≤ b)) l
def sortNatLists (l : List (List Nat)) : List (List Nat) := isort natListLe l

/-! ## Small numeric helpers -/

def sumNat (l : List Nat) : Nat := l.foldl (· + ·) 0
def sumInt (l : List Int) : Int := l.foldl (· + ·) 0

def listMax? : List Nat → Option Nat
  | [] => none
  | x :: xs => some (xs.foldl max x)

/-- `l[i] := v` (no-op when out of range; models guard the index explicitly). -/
def setAt {α} (l : List α) (i : Nat) (v : α) : List α := l.set i v

def modifyAt {α} (l : List α) (i : Nat) (f : α → α) : List α :=
  match l[i]? with
  | some x => l.set i (f x)
  | none => l

def range (n : Nat) : List Nat := List.range n

end Graphrs
