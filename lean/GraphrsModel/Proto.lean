/-
  Token-level parsing of the line protocol shared by the harness and the driver.
  A request line is a command word followed by integer tokens.
-/
import GraphrsModel.Model.Store
namespace Graphrs

abbrev P := StateT (List Int) Option

def nanToken : Int := -999999

namespace P
def next : P Int := do
  match (← get) with
  | [] => failure
  | x :: xs => set xs; pure x
def nat : P Nat := do
  let x ← next
  if x < 0 then failure else pure x.toNat
def bool : P Bool := do return (← next) != 0
def optNat : P (Option Nat) := do
  let x ← next
  pure (if x < 0 then none else some x.toNat)
def weight : P W := do
  let x ← next
  pure (if x == nanToken then none else some x)
def many {α} (p : P α) : Nat → P (List α)
  | 0 => pure []
  | n + 1 => do
    let a ← p
    let rest ← many p n
    pure (a :: rest)
def listOf {α} (p : P α) : P (List α) := do
  let n ← nat
  many p n
def specs : P Specs := do
  let d ← bool; let m ← bool; let s ← bool
  let dd ← nat; let mn ← nat; let sl ← nat
  pure { directed := d, multi := m, selfLoops := s,
         dedupe := (match dd with | 0 => .error | 1 => .keepFirst | _ => .keepLast),
         missing := (match mn with | 0 => .create | _ => .error),
         slFalse := (match sl with | 0 => .error | _ => .drop) }
def node : P Node := do
  let n ← nat; let a ← optNat
  pure ⟨n, a⟩
def edge : P Edge := do
  let u ← nat; let v ← nat; let w ← weight; let a ← optNat
  pure ⟨u, v, w, a⟩
def pair : P (Nat × Nat) := do
  let u ← nat; let v ← nat
  pure (u, v)
def op : P Op := do
  match (← nat) with
  | 1 => return .addNode (← node)
  | 2 => return .addNodes (← listOf node)
  | 3 => return .addEdge (← edge)
  | 4 => do let p ← pair; return .addEdgeTuple p.1 p.2
  | 5 => return .addEdges (← listOf edge)
  | 6 => return .addEdgeTuples (← listOf pair)
  | 7 => do
    let ns ← listOf node
    let es ← listOf edge
    return .newFrom ns es
  | _ => failure
def done : P Unit := do
  match (← get) with
  | [] => pure ()
  | _ => failure
end P

def parseInts (toks : List String) : Option (List Int) :=
  toks.mapM String.toInt?

end Graphrs
