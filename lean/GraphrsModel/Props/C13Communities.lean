/-
  C13, last clause: "louvain_communities returns the last level".  `louvain_communities` (src/algorithms/community/louvain.rs)
  calls `louvain_partitions`, propagates its error, and pops the last element of the level list, answering `NoPartitions` when the
  list is empty.  Model and theorem: whenever the model of `louvain_partitions` returns levels, the list is non-empty
  (`C13_model_levels`), so the model of `louvain_communities` returns exactly the last level and never `NoPartitions`.
-/
import GraphrsModel.Props.C13Model
namespace Graphrs
open LouvainFull

/-- `louvain_communities` over the model of `louvain_partitions` (`none` = the model has no verdict) -/
def LouvainFull.louvainCommunities (s : Store) (weighted : Bool) (res threshold : Rat) (perms : List (List Nat)) :
    Outcome (Option (List (List Nat))) :=
  match louvainPartitions s weighted res threshold perms with
  | .ok (some levels) =>
    (match levels.getLast? with
     | some l => .ok (some l)
     | none => .err .NoPartitions)
  | .ok none => .ok none
  | .err k => .err k
  | .panic site => .panic site

/-- **louvain_communities = last level**, and `NoPartitions` is unreachable -/
theorem C13_model_communities_last (s : Store) (h : s.wf = true) (weighted : Bool) (res threshold : Rat) (perms : List (List Nat))
    (levels : List (List (List Nat))) (hl : louvainPartitions s weighted res threshold perms = .ok (some levels)) :
    ∃ l, levels.getLast? = some l ∧ louvainCommunities s weighted res threshold perms = .ok (some l) ∧
      IsPartitionOfRange s.numNodes l := by
  obtain ⟨hne, hpart, _⟩ := C13_model_levels s h weighted res threshold perms levels hl
  obtain ⟨l, hlast⟩ : ∃ l, levels.getLast? = some l := by
    cases hg : levels.getLast? with
    | none => exact absurd (List.getLast?_eq_none_iff.mp hg) hne
    | some l => exact ⟨l, rfl⟩
  refine ⟨l, hlast, ?_, hpart l (List.mem_of_getLast? hlast)⟩
  unfold louvainCommunities
  rw [hl]
  simp only [hlast]

theorem C13_model_communities_never_no_partitions (s : Store) (h : s.wf = true) (weighted : Bool) (res threshold : Rat)
    (perms : List (List Nat)) : louvainCommunities s weighted res threshold perms ≠ .err .NoPartitions := by
  intro hc
  unfold louvainCommunities at hc
  split at hc
  next levels hl =>
    obtain ⟨l, hlast, _, _⟩ := C13_model_communities_last s h weighted res threshold perms levels hl
    simp only [hlast] at hc
    cases hc
  next => cases hc
  next k hk =>
    obtain ⟨r, hr⟩ := C13_model_always_ok s h weighted res threshold perms
    rw [hr] at hk; cases hk
  next => cases hc

end Graphrs
