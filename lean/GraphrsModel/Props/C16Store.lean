/-
  C16 at the level of the generated *graph*: for every skip sequence the model of `fast_gnp_random_graph` never fails
  (the store is built with `EdgeDedupeStrategy::Error` and `self_loops = false`, so a repeated pair or a self-loop would be
  an `Err`), the graph has exactly the nodes 0..n-1 and exactly the emitted pairs as edges; and the skipping scheme can
  produce every possible pair - undirected: every subset of the n(n-1)/2 slots is produced by some skip sequence, and the
  slot numbering is a bijection onto the unordered pairs.
  (Structure of the emitted pair list: Props/C16.lean.)
-/
import GraphrsModel.Props.C16
import GraphrsModel.Props.Core
import GraphrsModel.Lemmas.Rebuild
namespace Graphrs

/-! ### helpers: the abstract machine accepts every emitted pair -/

/-- one accepted edge is appended in its stored orientation -/
private theorem addEdge_canon (sp : Specs) (ns : List Node) (acc : List Edge) (e : Edge)
    (hu : e.u ∈ ns.map (·.name)) (hv : e.v ∈ ns.map (·.name))
    (hsl : e.u ≠ e.v)
    (hdup : ∀ e' ∈ acc, Abs.sameKey sp.directed e' e.u e.v = false) :
    Abs.addEdge sp ⟨ns, acc⟩ e = (⟨ns, acc ++ [Abs.canon sp.directed e]⟩, none) := by
  have h1 : Abs.hasNode ⟨ns, acc⟩ e.u = true := (Abs.hasNode_iff _ _).mpr hu
  have h2 : Abs.hasNode ⟨ns, acc⟩ e.v = true := (Abs.hasNode_iff _ _).mpr hv
  have h3 : (!sp.selfLoops && e.u == e.v) = false := by simp [hsl]
  have h5 : (sp.multi || !(acc.any fun e' => Abs.sameKey sp.directed e' e.u e.v)) = true := by
    have : (acc.any fun e' => Abs.sameKey sp.directed e' e.u e.v) = false := by
      rw [List.any_eq_false]
      intro x hx
      simp [hdup x hx]
    simp [this]
  unfold Abs.addEdge
  simp only [h3, h1, h2, h5, Bool.false_eq_true, if_false, if_true, Bool.not_true, Bool.or_self,
    Bool.and_false]

private theorem addEdges_canon (sp : Specs) (ns : List Node) (es acc : List Edge)
    (hn : ∀ e ∈ es, e.u ∈ ns.map (·.name) ∧ e.v ∈ ns.map (·.name))
    (hsl : ∀ e ∈ es, e.u ≠ e.v)
    (hacc : ∀ e' ∈ acc, ∀ e ∈ es, Abs.sameKey sp.directed e' e.u e.v = false)
    (hpw : es.Pairwise fun e' e => Abs.sameKey sp.directed (Abs.canon sp.directed e') e.u e.v = false) :
    Abs.addEdges sp ⟨ns, acc⟩ es = (⟨ns, acc ++ es.map (Abs.canon sp.directed)⟩, none) := by
  induction es generalizing acc with
  | nil => simp [Abs.addEdges]
  | cons e es ih =>
    have hpw' := List.pairwise_cons.mp hpw
    have he := addEdge_canon sp ns acc e (hn e (by simp)).1 (hn e (by simp)).2 (hsl e (by simp))
      (fun e' he' => hacc e' he' e (by simp))
    have hih := ih (acc ++ [Abs.canon sp.directed e]) (fun x hx => hn x (by simp [hx]))
      (fun x hx => hsl x (by simp [hx]))
      (by
        intro e' he' x hx
        rcases List.mem_append.mp he' with h | h
        · exact hacc e' h x (by simp [hx])
        · simp only [List.mem_singleton] at h
          subst h
          exact hpw'.1 x hx)
      hpw'.2
    simp only [Abs.addEdges, he, hih]
    simp

private def gnpNodes (n : Int) : List Node := (List.range n.toNat).map fun i => (⟨i, none⟩ : Node)
private def gnpEdge (p : Int × Int) : Edge := Edge.tuple p.1.toNat p.2.toNat

/-- what the structure theorems give, in one shape for both kinds -/
private def GnpPairs (n : Int) (directed : Bool) (es : List (Int × Int)) : Prop :=
  (∀ p ∈ es, 0 ≤ p.1 ∧ p.1 < n ∧ 0 ≤ p.2 ∧ p.2 < n ∧ p.1 ≠ p.2 ∧ (directed = false → p.2 < p.1)) ∧ es.Nodup

private def gnpGen (n : Int) (directed : Bool) (skips : List Int) : Option (List (Int × Int)) :=
  if directed then gnpDirected n (skips.length + 1) skips 0 (-1) [] else gnpUndirected n (skips.length + 1) skips 1 (-1) []

private theorem gnpPairs_of_gen (n : Int) (directed : Bool) (skips : List Int) (hs : ∀ k ∈ skips, 0 ≤ k) (es : List (Int × Int))
    (h : gnpGen n directed skips = some es) :
    GnpPairs n directed es := by
  unfold gnpGen at h
  cases directed
  · simp only [Bool.false_eq_true, if_false] at h
    have h1 := C16_gnp_undirected_structure n skips es hs h
    refine ⟨fun p hp => ?_, (C16_gnp_no_repeats n skips es hs).1 h⟩
    have := h1.1 p hp
    exact ⟨by omega, by omega, by omega, by omega, by omega, fun _ => by omega⟩
  · simp only [if_true] at h
    have h1 := C16_gnp_directed_structure n skips es hs h
    refine ⟨fun p hp => ?_, (C16_gnp_no_repeats n skips es hs).2 h⟩
    have := h1.1 p hp
    exact ⟨by omega, by omega, by omega, by omega, by omega, fun h => by simp at h⟩

private theorem canon_und (p : Int × Int) (h : p.2 < p.1) (h0 : 0 ≤ p.2 := by omega) :
    Abs.canon false (gnpEdge p) = Edge.tuple p.2.toNat p.1.toNat := by
  have hgt : (gnpEdge p).u > (gnpEdge p).v := by
    show p.1.toNat > p.2.toNat; omega
  simp only [Abs.canon, Edge.ordered, if_pos hgt, Bool.false_eq_true, if_false]
  rfl

private theorem gnp_abs (n : Int) (directed : Bool) (es : List (Int × Int)) (h : GnpPairs n directed es) :
    Abs.addEdges (gnpSpecs directed) (({} : Abs).addNodes (gnpNodes n)) (es.map gnpEdge) =
      (⟨gnpNodes n, es.map fun p => Abs.canon directed (gnpEdge p)⟩, none) := by
  have hnames : (gnpNodes n).map (·.name) = List.range n.toNat := by
    simp [gnpNodes, Function.comp_def]
  rw [Abs.addNodes_empty _ (by rw [hnames]; exact List.nodup_range)]
  have := addEdges_canon (gnpSpecs directed) (gnpNodes n) (es.map gnpEdge) []
    (by
      intro e he
      obtain ⟨p, hp, rfl⟩ := List.mem_map.mp he
      have := h.1 p hp
      rw [hnames]
      simp only [gnpEdge, Edge.tuple, List.mem_range]
      omega)
    (by
      intro e he
      obtain ⟨p, hp, rfl⟩ := List.mem_map.mp he
      have := h.1 p hp
      simp only [gnpEdge, Edge.tuple]
      omega)
    (by intro e' he'; simp at he')
    (by
      rw [List.pairwise_map]
      refine List.Pairwise.imp_of_mem ?_ h.2
      intro p q hp hq hne
      have h1 := h.1 p hp
      have h2 := h.1 q hq
      have hne' : ¬ (p.1 = q.1 ∧ p.2 = q.2) := fun hh => hne (Prod.ext hh.1 hh.2)
      cases directed
      · have h1' := h1.2.2.2.2.2 rfl
        have h2' := h2.2.2.2.2.2 rfl
        have hc : Abs.canon false (gnpEdge p) = Edge.tuple p.2.toNat p.1.toNat := by
          have hgt : (gnpEdge p).u > (gnpEdge p).v := by
            show p.1.toNat > p.2.toNat; omega
          simp only [Abs.canon, Edge.ordered, if_pos hgt, Bool.false_eq_true, if_false]
          rfl
        simp only [gnpSpecs, hc]
        simp only [Abs.sameKey, gnpEdge, Edge.tuple]
        simp
        omega
      · simp only [gnpSpecs, Abs.canon, gnpEdge, if_true, Abs.sameKey, Edge.tuple]
        simp
        omega)
  simpa [List.map_map, Function.comp_def, gnpSpecs] using this

private theorem fastGnp_none (n : Int) (directed : Bool) (skips : List Int) (h : gnpGen n directed skips = none) :
    fastGnp n directed skips = .ok none := by
  unfold gnpGen at h
  simp only [fastGnp, h]

private theorem fastGnp_some (n : Int) (directed : Bool) (skips : List Int) (hs : ∀ k ∈ skips, 0 ≤ k) (es : List (Int × Int))
    (h : gnpGen n directed skips = some es) :
    ∃ t, fastGnp n directed skips = .ok (some t) ∧ t.wf = true ∧
      AbsEq t.abs ⟨gnpNodes n, es.map fun p => Abs.canon directed (gnpEdge p)⟩ := by
  obtain ⟨t, h1, h2, _, h4⟩ := newFrom_sim Core_rest_preserved (gnpSpecs directed) (gnpNodes n) (es.map gnpEdge) _
    (gnp_abs n directed es (gnpPairs_of_gen n directed skips hs es h))
  refine ⟨t, ?_, h2, h4⟩
  unfold gnpGen at h
  unfold Store.newFrom at h1
  simp only [fastGnp, h]
  show (match ((Store.new (gnpSpecs directed)).addNodes (gnpNodes n)).addEdges (es.map gnpEdge) with
    | (s, none) => Outcome.ok (some s)
    | (_, some k) => Outcome.err k) = _
  cases hr : ((Store.new (gnpSpecs directed)).addNodes (gnpNodes n)).addEdges (es.map gnpEdge) with
  | mk s o =>
    rw [hr] at h1
    cases o with
    | none => simp only [Outcome.ok.injEq] at h1; rw [h1]
    | some k => simp at h1



private theorem absEq_perm {a b : Abs} (h : AbsEq a b) : a.edges.Perm b.edges := by
  rw [List.perm_iff_count]
  intro e
  rw [← List.count_filter (p := fun x : Edge => (x.u, x.v) == (e.u, e.v)) (l := a.edges) (by simp), h.2,
    List.count_filter (by simp)]

private theorem fastGnp_inv (n : Int) (directed : Bool) (skips : List Int) (hs : ∀ k ∈ skips, 0 ≤ k) (s : Store)
    (h : fastGnp n directed skips = .ok (some s)) :
    ∃ es, gnpGen n directed skips = some es ∧ s.wf = true ∧
      AbsEq s.abs ⟨gnpNodes n, es.map fun p => Abs.canon directed (gnpEdge p)⟩ := by
  cases hg : gnpGen n directed skips with
  | none => rw [fastGnp_none n directed skips hg] at h; simp at h
  | some es =>
    obtain ⟨t, ht, hw, ha⟩ := fastGnp_some n directed skips hs es hg
    rw [ht] at h
    simp only [Outcome.ok.injEq, Option.some.injEq] at h
    subst h
    exact ⟨es, rfl, hw, ha⟩

/-- **never an error, never a panic**, for every n ≥ 0, both kinds and every sequence of non-negative skips -/
theorem C16_gnp_never_fails (n : Int) (hn : 0 ≤ n) (directed : Bool) (skips : List Int) (hs : ∀ k ∈ skips, 0 ≤ k) :
    ∃ r, fastGnp n directed skips = .ok r := by
  have _ := hn
  cases hg : gnpGen n directed skips with
  | none => exact ⟨none, fastGnp_none n directed skips hg⟩
  | some es =>
    obtain ⟨t, ht, _⟩ := fastGnp_some n directed skips hs es hg
    exact ⟨some t, ht⟩

/-- **the generated graph**: well-formed, nodes exactly 0..n-1 in order, and its stored edges are exactly the emitted
    pairs (as unweighted edges, in emission order) -/
theorem C16_gnp_store (n : Int) (hn : 0 ≤ n) (directed : Bool) (skips : List Int) (hs : ∀ k ∈ skips, 0 ≤ k) (s : Store)
    (h : fastGnp n directed skips = .ok (some s)) :
    s.wf = true ∧ s.names = List.range n.toNat ∧
    ∃ es, (if directed then gnpDirected n (skips.length + 1) skips 0 (-1) [] else gnpUndirected n (skips.length + 1) skips 1 (-1) []) = some es ∧
      s.abs.edges.Perm (es.map fun p => if directed then Edge.tuple p.1.toNat p.2.toNat else (Edge.tuple p.1.toNat p.2.toNat).ordered) := by
  have _ := hn
  obtain ⟨es, hg, hw, ha⟩ := fastGnp_inv n directed skips hs s h
  refine ⟨hw, ?_, es, hg, ?_⟩
  · have h1 : s.nodesVec = gnpNodes n := ha.1
    simp [Store.names, h1, gnpNodes, Function.comp_def]
  · have := absEq_perm ha
    simp only [Abs.canon, gnpEdge] at this
    exact this

/-- hence: no self-loop and no repeated (unordered, when undirected) pair among the stored edges -/
theorem C16_gnp_store_simple (n : Int) (hn : 0 ≤ n) (directed : Bool) (skips : List Int) (hs : ∀ k ∈ skips, 0 ≤ k) (s : Store)
    (h : fastGnp n directed skips = .ok (some s)) :
    (∀ e ∈ s.abs.edges, e.u ≠ e.v ∧ e.u < n.toNat ∧ e.v < n.toNat) ∧ (s.abs.edges.map fun e => (e.u, e.v)).Nodup ∧
    (directed = false → ∀ e ∈ s.abs.edges, ∀ f ∈ s.abs.edges, ¬ (e.u = f.v ∧ e.v = f.u)) := by
  have _ := hn
  obtain ⟨es, hg, _, ha⟩ := fastGnp_inv n directed skips hs s h
  have hP := gnpPairs_of_gen n directed skips hs es hg
  have hperm := absEq_perm ha
  simp only at hperm
  have hmem : ∀ e ∈ s.abs.edges, ∃ p ∈ es, e = Abs.canon directed (gnpEdge p) := by
    intro e he
    obtain ⟨p, hp, rfl⟩ := List.mem_map.mp (hperm.mem_iff.mp he)
    exact ⟨p, hp, rfl⟩
  refine ⟨?_, ?_, ?_⟩
  · intro e he
    obtain ⟨p, hp, rfl⟩ := hmem e he
    have h1 := hP.1 p hp
    cases directed
    · rw [canon_und p (h1.2.2.2.2.2 rfl)]
      simp only [Edge.tuple]; omega
    · simp only [Abs.canon, if_true, gnpEdge, Edge.tuple]; omega
  · rw [(hperm.map _).nodup_iff, List.map_map, List.Nodup, List.pairwise_map]
    refine List.Pairwise.imp_of_mem ?_ hP.2
    intro p q hp hq hne
    have h1 := hP.1 p hp
    have h2 := hP.1 q hq
    have hne' : ¬ (p.1 = q.1 ∧ p.2 = q.2) := fun hh => hne (Prod.ext hh.1 hh.2)
    cases directed
    · simp only [Function.comp, canon_und p (h1.2.2.2.2.2 rfl), canon_und q (h2.2.2.2.2.2 rfl), Edge.tuple,
        ne_eq, Prod.mk.injEq]
      omega
    · simp only [Function.comp, Abs.canon, if_true, gnpEdge, Edge.tuple, ne_eq, Prod.mk.injEq]
      omega
  · intro hd e he f hf
    subst hd
    obtain ⟨p, hp, rfl⟩ := hmem e he
    obtain ⟨q, hq, rfl⟩ := hmem f hf
    have h1 := hP.1 p hp
    have h2 := hP.1 q hq
    rw [canon_und p (h1.2.2.2.2.2 rfl), canon_und q (h2.2.2.2.2.2 rfl)]
    have := h1.2.2.2.2.2 rfl
    have := h2.2.2.2.2.2 rfl
    simp only [Edge.tuple]; omega

/-! ### the triangular slot numbering -/

private def tri' (v : Int) : Int := v * (v - 1) / 2
private theorem tri'_succ (v : Int) : tri' (v + 1) = tri' v + v := by
  unfold tri'
  have : (v + 1) * (v + 1 - 1) = v * (v - 1) + v * 2 := by ring
  rw [this, Int.add_mul_ediv_right _ _ (by decide)]
private theorem slotUnd_eq' (p : Int × Int) : slotUnd p = tri' p.1 + p.2 := rfl
private theorem tri'_zero : tri' 0 = 0 := by decide
private theorem tri'_one : tri' 1 = 0 := by decide

private theorem tri'_mono_nat (a : Int) (ha : 0 ≤ a) : ∀ d : Nat, tri' a ≤ tri' (a + d) := by
  intro d
  induction d with
  | zero => simp
  | succ d ih =>
    have : a + ((d + 1 : Nat) : Int) = (a + d) + 1 := by push_cast; ring
    rw [this, tri'_succ]; omega

private theorem tri'_mono (a b : Int) (ha : 0 ≤ a) (hab : a ≤ b) : tri' a ≤ tri' b := by
  have := tri'_mono_nat a ha (b - a).toNat
  have e : a + ((b - a).toNat : Int) = b := by omega
  rwa [e] at this

private theorem tri'_nonneg (a : Int) (ha : 0 ≤ a) : 0 ≤ tri' a := by
  have := tri'_mono 0 a (by omega) ha
  rwa [tri'_zero] at this

/-- the row of a slot -/
private theorem tri'_row (k : Int) (hk : 0 ≤ k) : ∀ m : Nat, k < tri' m → ∃ v : Int, 1 ≤ v ∧ v < m ∧ tri' v ≤ k ∧ k < tri' (v + 1) := by
  intro m
  induction m with
  | zero => intro h; rw [show ((0 : Nat) : Int) = 0 from rfl, tri'_zero] at h; omega
  | succ m ih =>
    intro h
    rw [show ((m + 1 : Nat) : Int) = (m : Int) + 1 by push_cast; rfl] at h ⊢
    by_cases hm : k < tri' m
    · obtain ⟨v, h1, h2, h3⟩ := ih hm
      exact ⟨v, h1, by omega, h3⟩
    · refine ⟨m, ?_, by omega, by omega, h⟩
      by_cases h0 : (m : Int) = 0
      · rw [h0] at h; rw [show (0 : Int) + 1 = 1 from rfl, tri'_one] at h; omega
      · omega

/-- the undirected slot numbering is a bijection between the pairs 0 ≤ w < v < n and the slots 0 .. n(n-1)/2 - 1 -/
theorem C16_slotUnd_bijective (n : Int) (hn : 0 ≤ n) :
    (∀ p q : Int × Int, 0 ≤ p.2 → p.2 < p.1 → 0 ≤ q.2 → q.2 < q.1 → slotUnd p = slotUnd q → p = q) ∧
    (∀ k, 0 ≤ k → k < n * (n - 1) / 2 → ∃ p : Int × Int, 0 ≤ p.2 ∧ p.2 < p.1 ∧ p.1 < n ∧ slotUnd p = k) ∧
    (∀ p : Int × Int, 0 ≤ p.2 → p.2 < p.1 → p.1 < n → 0 ≤ slotUnd p ∧ slotUnd p < n * (n - 1) / 2) := by
  have key : ∀ p q : Int × Int, 0 ≤ p.2 → p.2 < p.1 → 0 ≤ q.2 → q.2 < q.1 → slotUnd p = slotUnd q → ¬ p.1 < q.1 := by
    intro p q hp0 hp hq0 hq h hlt
    rw [slotUnd_eq', slotUnd_eq'] at h
    have h1 := tri'_mono (p.1 + 1) q.1 (by omega) (by omega)
    rw [tri'_succ] at h1
    omega
  refine ⟨?_, ?_, ?_⟩
  · intro p q hp0 hp hq0 hq h
    have h1 := key p q hp0 hp hq0 hq h
    have h2 := key q p hq0 hq hp0 hp h.symm
    have e : p.1 = q.1 := by omega
    rw [slotUnd_eq', slotUnd_eq', e] at h
    exact Prod.ext e (by omega)
  · intro k hk0 hk
    have hk' : k < tri' (n.toNat : Int) := by
      rw [show ((n.toNat : Nat) : Int) = n by omega]; exact hk
    obtain ⟨v, h1, h2, h3, h4⟩ := tri'_row k hk0 n.toNat hk'
    rw [tri'_succ] at h4
    exact ⟨(v, k - tri' v), by show 0 ≤ k - tri' v; omega, by show k - tri' v < v; omega, by show v < n; omega,
      by rw [slotUnd_eq']; show tri' v + (k - tri' v) = k; omega⟩
  · intro p hp0 hp hpn
    rw [slotUnd_eq']
    have h1 := tri'_nonneg p.1 (by omega)
    have h2 := tri'_mono (p.1 + 1) n (by omega) (by omega)
    rw [tri'_succ] at h2
    show _ ∧ _ < tri' n
    omega

/-! ### constructing the skip sequence (undirected) -/

private theorem satAdd_eq' (a b : Int) (h : a + b ≤ i64Max) : satAdd a b = a + b := by
  unfold satAdd; split <;> omega

private theorem sq_small (n : Int) (hn : 0 ≤ n) (hsmall : n ≤ 2147483647) : 0 ≤ n * n ∧ n * n ≤ 4611686014132420609 := by
  have h1 := Int.mul_le_mul hsmall hsmall hn (by omega)
  have h2 := Int.mul_nonneg hn hn
  omega

private theorem tri'_le_sq (n : Int) (hn : 0 ≤ n) : tri' n ≤ n * n := by
  have h2 := Int.mul_nonneg hn hn
  have : n * (n - 1) = n * n - n := by ring
  unfold tri'
  rw [this]
  omega

private theorem undRow_spec' (n : Int) : ∀ (fuel : Nat) (v w v' w' : Int),
    gnpUndRow n fuel v w = (v', w') → 1 ≤ v →
    v ≤ v' ∧ tri' v' + w' = tri' v + w ∧ (0 ≤ w → 0 ≤ w') ∧ (v ≤ n → v' ≤ n) ∧
    (n - v < fuel → ¬ (w' ≥ v' ∧ v' < n)) := by
  intro fuel
  induction fuel with
  | zero =>
    intro v w v' w' h hv
    simp only [gnpUndRow, Prod.mk.injEq] at h
    obtain ⟨rfl, rfl⟩ := h
    refine ⟨by omega, rfl, id, id, ?_⟩
    intro h; omega
  | succ fuel ih =>
    intro v w v' w' h hv
    rw [gnpUndRow] at h
    by_cases hc : w ≥ v ∧ v < n
    · rw [if_pos (by simpa using hc)] at h
      obtain ⟨h1, h2, h3, h4, h6⟩ := ih (v + 1) (w - v) v' w' h (by omega)
      rw [tri'_succ] at h2
      exact ⟨by omega, by omega, fun h => h3 (by omega), fun _ => h4 (by omega), fun h => h6 (by omega)⟩
    · rw [if_neg (by simpa using hc)] at h
      simp only [Prod.mk.injEq] at h
      obtain ⟨rfl, rfl⟩ := h
      exact ⟨by omega, rfl, id, id, fun _ => hc⟩

private theorem und_step (n : Int) (fuel : Nat) (sk : Int) (rest : List Int) (v w w1 v' w' : Int) (acc : List (Int × Int))
    (hv : v < n) (hsat : satAdd (satAdd w 1) sk = w1) (hrow : gnpUndRow n (n.toNat + 1) v w1 = (v', w')) :
    gnpUndirected n (fuel + 1) (sk :: rest) v w acc =
      gnpUndirected n fuel rest v' w' (if v' < n then acc ++ [(v', w')] else acc) := by
  rw [gnpUndirected, if_pos hv]
  simp only [hsat, hrow]

private theorem und_onto_aux (n : Int) (hn : 2 ≤ n) (hsmall : n ≤ 2147483647) :
    ∀ (slots : List Int) (v w : Int) (acc : List (Int × Int)),
      1 ≤ v → v < n → -1 ≤ w → w < v →
      slots.Pairwise (· < ·) → (∀ k ∈ slots, tri' v + w < k ∧ k < tri' n) →
      ∃ skips es, (∀ k ∈ skips, 0 ≤ k) ∧
        gnpUndirected n (skips.length + 1) skips v w acc = some (acc ++ es) ∧ es.map slotUnd = slots := by
  have hsq := sq_small n (by omega) hsmall
  have htn := tri'_le_sq n (by omega)
  have hM : i64Max = 9223372036854775807 := rfl
  intro slots
  induction slots with
  | nil =>
    intro v w acc hv hvn hw hwv _ _
    refine ⟨[n * n], [], by simpa using hsq.1, ?_, rfl⟩
    have hsat : satAdd (satAdd w 1) (n * n) = w + 1 + n * n := by
      rw [satAdd_eq' w 1 (by omega), satAdd_eq' _ _ (by omega)]
    generalize hrow : gnpUndRow n (n.toNat + 1) v (w + 1 + n * n) = r
    obtain ⟨v', w'⟩ := r
    obtain ⟨h1, h2, h3, h4, h6⟩ := undRow_spec' n _ v _ v' w' hrow hv
    have hexit := h6 (by omega)
    have h4' := h4 (by omega)
    have htv := tri'_nonneg v (by omega)
    have hv'n : ¬ v' < n := by
      intro hlt
      have := tri'_mono (v' + 1) n (by omega) (by omega)
      rw [tri'_succ] at this
      omega
    show gnpUndirected n (0 + 1 + 1) [n * n] v w acc = _
    rw [und_step n _ _ _ v w _ v' w' acc hvn hsat hrow, if_neg hv'n, gnpUndirected, if_neg hv'n]
    simp
  | cons k slots ih =>
    intro v w acc hv hvn hw hwv hpw hr
    have hpw' := List.pairwise_cons.mp hpw
    have hk := hr k (by simp)
    have htv := tri'_nonneg v (by omega)
    have hsat : satAdd (satAdd w 1) (k - (tri' v + w) - 1) = k - tri' v := by
      rw [satAdd_eq' w 1 (by omega), satAdd_eq' _ _ (by omega)]; omega
    generalize hrow : gnpUndRow n (n.toNat + 1) v (k - tri' v) = r
    obtain ⟨v', w'⟩ := r
    obtain ⟨h1, h2, h3, h4, h6⟩ := undRow_spec' n _ v _ v' w' hrow hv
    have hexit := h6 (by omega)
    have h4' := h4 (by omega)
    have h3' := h3 (by omega)
    have hv'n : v' < n := by
      by_cases he : v' = n
      · rw [he] at h2; omega
      · omega
    obtain ⟨skips, es, hs, hg, hm⟩ := ih v' w' (acc ++ [(v', w')]) (by omega) hv'n (by omega) (by omega) hpw'.2
      (fun k' hk' => ⟨by have := hpw'.1 k' hk'; omega, (hr k' (by simp [hk'])).2⟩)
    refine ⟨(k - (tri' v + w) - 1) :: skips, (v', w') :: es, ?_, ?_, ?_⟩
    · intro x hx
      rcases List.mem_cons.mp hx with rfl | hx
      · omega
      · exact hs x hx
    · rw [List.length_cons, und_step n _ _ _ v w _ v' w' acc hvn hsat hrow, if_pos hv'n, hg]
      simp
    · rw [List.map_cons, hm, slotUnd_eq']
      show (tri' v' + w') :: slots = _
      rw [h2]; congr 1; omega

/-- **every subset of the possible undirected pairs can occur**: for every strictly increasing list of slots there is a
    skip sequence (the gaps, then one skip past the end) for which exactly the pairs of those slots are emitted.
    (n below 2^31 keeps the final skip inside i64.) -/
theorem C16_gnp_undirected_onto (n : Int) (hn : 2 ≤ n) (hsmall : n ≤ 2147483647) (slots : List Int)
    (hsorted : slots.Pairwise (· < ·)) (hrange : ∀ k ∈ slots, 0 ≤ k ∧ k < n * (n - 1) / 2) :
    ∃ skips es, (∀ k ∈ skips, 0 ≤ k) ∧ gnpUndirected n (skips.length + 1) skips 1 (-1) [] = some es ∧ es.map slotUnd = slots := by
  obtain ⟨skips, es, h1, h2, h3⟩ := und_onto_aux n hn hsmall slots 1 (-1) [] (by omega) (by omega) (by omega) (by omega)
    hsorted (fun k hk => by
      have := hrange k hk
      rw [tri'_one]
      exact ⟨by omega, this.2⟩)
  exact ⟨skips, es, h1, by simpa using h2, h3⟩

/-! ### constructing the skip sequence (directed) -/

private theorem succ_mul'' (v n : Int) : (v + 1) * n = v * n + n := by ring

/-- the row loop never lowers the slot, keeps `v' ≤ n` and ends outside its guard -/
private theorem dirRow_spec' (n : Int) : ∀ (fuel : Nat) (v w v' w' : Int),
    gnpDirRow n fuel v w = (v', w') → 0 ≤ v →
    v ≤ v' ∧ v * n + w ≤ v' * n + w' ∧ (v ≤ n → v' ≤ n) ∧
    (n - v < fuel → ¬ (v' < n ∧ n ≤ w')) := by
  intro fuel
  induction fuel with
  | zero =>
    intro v w v' w' h hv
    simp only [gnpDirRow, Prod.mk.injEq] at h
    obtain ⟨rfl, rfl⟩ := h
    exact ⟨by omega, by omega, id, fun h => by omega⟩
  | succ fuel ih =>
    intro v w v' w' h hv
    rw [gnpDirRow] at h
    by_cases hc : v < n ∧ n ≤ w
    · rw [if_pos (by simpa using hc)] at h
      simp only at h
      have hm := succ_mul'' v n
      by_cases hd : v + 1 = w - n
      · rw [if_pos (by simpa using hd)] at h
        obtain ⟨h1, h2, h5, h6⟩ := ih (v + 1) (w - n + 1) v' w' h (by omega)
        exact ⟨by omega, by omega, fun _ => h5 (by omega), fun h => h6 (by omega)⟩
      · rw [if_neg (by simpa using hd)] at h
        obtain ⟨h1, h2, h5, h6⟩ := ih (v + 1) (w - n) v' w' h (by omega)
        exact ⟨by omega, by omega, fun _ => h5 (by omega), fun h => h6 (by omega)⟩
    · rw [if_neg (by simpa using hc)] at h
      simp only [Prod.mk.injEq] at h
      obtain ⟨rfl, rfl⟩ := h
      exact ⟨by omega, by omega, id, fun _ => hc⟩

/-- a skip of `d` whole rows plus `w` lands exactly on `(v, w)` -/
private theorem dirRow_land (n v w : Int) (hv : v < n) (hw0 : 0 ≤ w) (hw : w < n) (hne : v ≠ w) :
    ∀ (d : Nat) (j : Int) (fuel : Nat), j + d = v → 0 ≤ j → d < fuel →
      gnpDirRow n fuel j (d * n + w) = (v, w) := by
  intro d
  induction d with
  | zero =>
    intro j fuel hj hj0 hf
    obtain ⟨f, rfl⟩ : ∃ f, fuel = f + 1 := ⟨fuel - 1, by omega⟩
    have : j = v := by omega
    subst this
    rw [gnpDirRow, if_neg]
    · simp
    · simp; omega
  | succ d ih =>
    intro j fuel hj hj0 hf
    obtain ⟨f, rfl⟩ : ∃ f, fuel = f + 1 := ⟨fuel - 1, by omega⟩
    have hdn : 0 ≤ (d : Int) * n := Int.mul_nonneg (by omega) (by omega)
    have e : ((d + 1 : Nat) : Int) * n + w - n = d * n + w := by push_cast; rw [succ_mul'']; omega
    have e2 := succ_mul'' (d : Int) n
    rw [gnpDirRow, if_pos (by simp; push_cast at hj ⊢; omega)]
    simp only [e]
    have hne' : ¬ (j + 1 = (d : Int) * n + w) := by
      by_cases hd : d = 0
      · subst hd; push_cast at hj; simp; omega
      · have : n ≤ (d : Int) * n := by
          have := Int.mul_le_mul_of_nonneg_right (show (1 : Int) ≤ d by omega) (show 0 ≤ n by omega)
          omega
        push_cast at hj; omega
    rw [if_neg (by simpa using hne')]
    exact ih (j + 1) f (by push_cast at hj; omega) (by omega) (by omega)

private theorem dir_step (n : Int) (fuel : Nat) (sk : Int) (rest : List Int) (v w w1 v' w' : Int) (acc : List (Int × Int))
    (hv : v < n) (hsat : (if (v == satAdd (satAdd w 1) sk) = true then satAdd (satAdd (satAdd w 1) sk) 1 else satAdd (satAdd w 1) sk) = w1)
    (hrow : gnpDirRow n (n.toNat + 1) v w1 = (v', w')) :
    gnpDirected n (fuel + 1) (sk :: rest) v w acc =
      gnpDirected n fuel rest v' w' (if v' < n then acc ++ [(v', w')] else acc) := by
  rw [gnpDirected, if_pos hv]
  simp only [hsat, hrow]

/-- **every possible directed pair can occur** (alone): for every ordered pair of distinct nodes some skip sequence emits it -/
theorem C16_gnp_directed_every_pair (n : Int) (hn : 2 ≤ n) (hsmall : n ≤ 2147483647) (v w : Int)
    (hv : 0 ≤ v ∧ v < n) (hw : 0 ≤ w ∧ w < n) (hne : v ≠ w) :
    ∃ skips es, (∀ k ∈ skips, 0 ≤ k) ∧ gnpDirected n (skips.length + 1) skips 0 (-1) [] = some es ∧ (v, w) ∈ es := by
  have hsq := sq_small n (by omega) hsmall
  have hM : i64Max = 9223372036854775807 := rfl
  have hvn0 : 0 ≤ v * n := Int.mul_nonneg hv.1 (by omega)
  have hvn : v * n + n ≤ n * n := by
    have := Int.mul_le_mul_of_nonneg_right (show v + 1 ≤ n by omega) (show 0 ≤ n by omega)
    rw [succ_mul''] at this; exact this
  refine ⟨[v * n + w, n * n], [(v, w)], ?_, ?_, by simp⟩
  · intro k hk
    simp only [List.mem_cons, List.not_mem_nil, or_false] at hk
    rcases hk with rfl | rfl
    · omega
    · exact hsq.1
  · -- first skip: lands on (v, w)
    have hsat1 : (if ((0 : Int) == satAdd (satAdd (-1) 1) (v * n + w)) = true
        then satAdd (satAdd (satAdd (-1) 1) (v * n + w)) 1 else satAdd (satAdd (-1) 1) (v * n + w)) = v * n + w := by
      rw [satAdd_eq' (-1) 1 (by omega), satAdd_eq' _ _ (by omega)]
      have : ¬ ((0 : Int) = -1 + 1 + (v * n + w)) := by
        intro h
        have : v = 0 := by
          by_cases h0 : v = 0
          · exact h0
          · have := Int.mul_le_mul_of_nonneg_right (show (1 : Int) ≤ v by omega) (show 0 ≤ n by omega)
            omega
        subst this; omega
      rw [if_neg (by simpa using this)]; omega
    have hrow1 : gnpDirRow n (n.toNat + 1) 0 (v * n + w) = (v, w) := by
      have := dirRow_land n v w hv.2 hw.1 hw.2 hne v.toNat 0 (n.toNat + 1) (by omega) (by omega) (by omega)
      rwa [show ((v.toNat : Nat) : Int) = v by omega] at this
    -- second skip: runs past the last slot
    have hsat2 : (if (v == satAdd (satAdd w 1) (n * n)) = true
        then satAdd (satAdd (satAdd w 1) (n * n)) 1 else satAdd (satAdd w 1) (n * n)) = w + 1 + n * n := by
      rw [satAdd_eq' w 1 (by omega), satAdd_eq' _ _ (by omega)]
      rw [if_neg (by simp; omega)]
    generalize hrow2 : gnpDirRow n (n.toNat + 1) v (w + 1 + n * n) = r
    obtain ⟨v', w'⟩ := r
    obtain ⟨h1, h2, h5, h6⟩ := dirRow_spec' n _ v _ v' w' hrow2 hv.1
    have hexit := h6 (by omega)
    have h5' := h5 (by omega)
    have hv'n : ¬ v' < n := by
      intro hlt
      have := Int.mul_le_mul_of_nonneg_right (show v' + 1 ≤ n by omega) (show 0 ≤ n by omega)
      rw [succ_mul''] at this
      omega
    show gnpDirected n (0 + 1 + 1 + 1) [v * n + w, n * n] 0 (-1) [] = _
    rw [dir_step n _ _ _ 0 (-1) _ v w [] (by omega) hsat1 hrow1, if_pos hv.2,
      dir_step n _ _ _ v w _ v' w' _ hv.2 hsat2 hrow2, if_neg hv'n, gnpDirected, if_neg hv'n]
    simp

/-- non-vacuity -/
example : (match fastGnp 4 false [0, 1, 2, 100] with
    | .ok (some s) => s.wf && s.names == [0, 1, 2, 3] && (s.allEdges.map fun e => (e.u, e.v)) == [(0, 1), (1, 2), (2, 3)]
    | _ => false) = true := by
  decide +kernel

end Graphrs
