/-
  C20 breadth, part 4: src/algorithms/shortest_path/dijkstra.rs.
-/
import GraphrsModel.Props.C20BreadthBase
import GraphrsModel.Props.C08Api
namespace Graphrs
open C20B

namespace C20B

/-! ### positions stay in range, whatever the weights -/

def PathsOk (n : Nat) (paths : List (List (List Nat))) : Prop := ∀ ps ∈ paths, ∀ p ∈ ps, ∀ i ∈ p, i < n

/-- the part of the search state the renaming to names depends on -/
def PI (n : Nat) (st : DState) : Prop := st.dist.length = n ∧ PathsOk n st.paths

theorem pathsOk_getD {n : Nat} {paths : List (List (List Nat))} (h : PathsOk n paths) (u : Nat) :
    ∀ p ∈ paths[u]?.getD [], ∀ i ∈ p, i < n := by
  intro p hp
  cases hu : paths[u]? with
  | none => rw [hu] at hp; cases hp
  | some ps =>
    rw [hu] at hp
    exact h ps (List.mem_of_getElem? hu) p hp

theorem pathsOk_set {n : Nat} {paths : List (List (List Nat))} (h : PathsOk n paths) (u : Nat) (pv : List (List Nat))
    (hpv : ∀ p ∈ pv, ∀ i ∈ p, i < n) : PathsOk n (paths.set u pv) := by
  intro ps hps
  rcases List.mem_or_eq_of_mem_set hps with h1 | h1
  · exact h ps h1
  · subst h1; exact hpv

theorem pathsOk_ext {n : Nat} {paths : List (List (List Nat))} (h : PathsOk n paths) (v u : Nat) (hu : u < n) :
    ∀ p ∈ (paths[v]?.getD []).map (· ++ [u]), ∀ i ∈ p, i < n := by
  intro p hp i hi
  obtain ⟨q, hq, rfl⟩ := List.mem_map.1 hp
  rcases List.mem_append.1 hi with h1 | h1
  · exact pathsOk_getD h v q hq i h1
  · simp only [List.mem_singleton] at h1; subst h1; exact hu

theorem relaxFull_PI (n : Nat) (weighted : Bool) (cutoff2 : Option Int) (firstOnly withPaths : Bool) (v : Nat) (dv : Int)
    (st st' : DState) (adj : Adj) (hu : adj.1 < n) (hst : PI n st)
    (h : relaxFull weighted cutoff2 firstOnly withPaths v dv st adj = .ok st') : PI n st' := by
  unfold relaxFull at h
  simp only at h
  repeat' split at h
  all_goals first
    | (cases h; done)
    | (injection h with h; subst h
       first
        | exact hst
        | exact ⟨hst.1, hst.2⟩
        | exact ⟨hst.1, pathsOk_set hst.2 _ _ (pathsOk_ext hst.2 v adj.1 hu)⟩
        | exact ⟨hst.1, pathsOk_set hst.2 _ _ (fun p hp => (List.mem_append.1 hp).elim
            (pathsOk_getD hst.2 adj.1 p) (pathsOk_ext hst.2 v adj.1 hu p))⟩)

theorem foldExcept_PI (n : Nat) (weighted : Bool) (cutoff2 : Option Int) (firstOnly withPaths : Bool) (v : Nat) (dv : Int)
    (row : List Adj) (hrow : ∀ a ∈ row, a.1 < n) : ∀ (st st' : DState), PI n st →
    foldExcept (relaxFull weighted cutoff2 firstOnly withPaths v dv) st row = .ok st' → PI n st' := by
  induction row with
  | nil => intro st st' hst h; cases h; exact hst
  | cons a row ih =>
    intro st st' hst h
    unfold foldExcept at h
    cases hr : relaxFull weighted cutoff2 firstOnly withPaths v dv st a with
    | error e => rw [hr] at h; cases h
    | ok st1 =>
      rw [hr] at h
      exact ih (fun b hb => hrow b (List.mem_cons_of_mem _ hb)) st1 st'
        (relaxFull_PI n weighted cutoff2 firstOnly withPaths v dv st st1 a (hrow a (by simp)) hst hr) h

theorem dijkstraLoop_PI (n : Nat) (adjOf : Nat → List Adj) (hadj : ∀ v, ∀ a ∈ adjOf v, a.1 < n) (weighted : Bool)
    (target : Option Nat) (cutoff2 : Option Int) (firstOnly withPaths : Bool) : ∀ (fuel : Nat) (st st' : DState), PI n st →
    dijkstraLoop adjOf weighted target cutoff2 firstOnly withPaths fuel st = .ok st' → PI n st' := by
  intro fuel
  induction fuel with
  | zero => intro st st' hst h; cases h; exact hst
  | succ fuel ih =>
    intro st st' hst h
    unfold dijkstraLoop at h
    split at h
    · cases h; exact hst
    · rename_i d c v rest hpop
      simp only at h
      split at h
      · exact ih { st with fringe := rest } st' ⟨hst.1, hst.2⟩ h
      · have hst1 : PI n { st with fringe := rest, dist := st.dist.set v (some d) } :=
          ⟨by simp [hst.1], hst.2⟩
        split at h
        · cases h; exact hst1
        · split at h
          · cases h
          · rename_i st2 hfold
            exact ih st2 st' (foldExcept_PI n weighted cutoff2 firstOnly withPaths v d (adjOf v) (hadj v) _ st2 hst1 hfold) h

theorem basicLoop_len (adjOf : Nat → List Adj) (weighted : Bool) : ∀ (fuel : Nat) (st : DState),
    (basicLoop adjOf weighted fuel st).dist.length = st.dist.length := by
  intro fuel
  induction fuel with
  | zero => intro st; rfl
  | succ fuel ih =>
    intro st
    unfold basicLoop
    split
    · rfl
    · simp only
      split
      · rw [ih]
      · rw [ih]
        have : ∀ (row : List Adj) (d : Int) (st : DState), (row.foldl (relaxBasic weighted d) st).dist = st.dist := by
          intro row d
          induction row with
          | nil => intro st; rfl
          | cons a row ih2 =>
            intro st
            rw [List.foldl_cons, ih2]
            unfold relaxBasic
            simp only
            repeat' split
            all_goals rfl
        rw [this]
        simp

/-- every position an entry of `get_shortest_path_infos` mentions is in range -/
theorem spInfos_valid (n : Nat) (dist : List (Option Int)) (paths : List (List (List Nat))) (wp : Bool)
    (hd : dist.length = n) (hp : PathsOk n paths) :
    ∀ p ∈ spInfos dist paths wp, p.1 < n ∧ ∀ path ∈ p.2.paths, ∀ i ∈ path, i < n := by
  intro p hpm
  obtain ⟨t, info⟩ := p
  obtain ⟨d, hdt, e⟩ := (mem_spInfos dist paths wp t info).1 hpm
  subst e
  constructor
  · unfold lk at hdt
    by_contra hge
    rw [List.getElem?_eq_none (by omega)] at hdt
    cases hdt
  · simp only
    cases wp
    · intro path hpath; cases hpath
    · exact pathsOk_getD hp t

def InRange (n : Nat) (r : List (Nat × SPInfo)) : Prop :=
  ∀ p ∈ r, p.1 < n ∧ ∀ path ∈ p.2.paths, ∀ i ∈ path, i < n

theorem adj_lt (s : Store) (h : s.wf = true) : ∀ (v : Nat), ∀ a ∈ s.succVec[v]?.getD [], a.1 < s.nodesVec.length := by
  intro v a ha
  cases hv : s.succVec[v]? with
  | none => rw [hv] at ha; cases ha
  | some row =>
    rw [hv] at ha
    exact (NP.vec_lt (NP.wf_parts' h).2.2.2).1 v row hv a ha

/-- `dijkstra` from a position in range: a value or `ContradictoryPaths`, and every reported position is in range -/
theorem dijkstra_np (s : Store) (h : s.wf = true) (weighted : Bool) (source : Nat) (target : Option Nat)
    (cutoff2 : Option Int) (firstOnly withPaths : Bool) (hsrc : source < s.nodesVec.length) :
    (s.dijkstra weighted source target cutoff2 firstOnly withPaths).isPanic = false ∧
    ∀ r, s.dijkstra weighted source target cutoff2 firstOnly withPaths = .ok r → InRange s.nodesVec.length r := by
  unfold Store.dijkstra
  have hge : ¬ source ≥ s.numberOfNodes := by show ¬ source ≥ s.nodesVec.length; omega
  simp only [if_neg hge]
  split
  · exact ⟨rfl, fun r hr => by cases hr⟩
  · rename_i st hloop
    refine ⟨rfl, fun r hr => ?_⟩
    cases hr
    have hPI := dijkstraLoop_PI s.nodesVec.length _ (adj_lt s h) weighted target cutoff2 firstOnly withPaths _ _ st ?_ hloop
    · exact spInfos_valid _ _ _ _ hPI.1 hPI.2
    · refine ⟨by simp [Store.numberOfNodes], ?_⟩
      show PathsOk _ (if withPaths = true then (List.replicate s.numberOfNodes []).set source [[source]] else [])
      split
      · refine pathsOk_set ?_ _ _ ?_
        · intro ps hps p hp
          rw [List.mem_replicate] at hps
          rw [hps.2] at hp; cases hp
        · intro p hp i hi
          simp only [List.mem_singleton] at hp
          subst hp
          simp only [List.mem_singleton] at hi
          subst hi; exact hsrc
      · intro ps hps; cases hps

theorem dijkstraBasic_np (s : Store) (weighted : Bool) (source : Nat) (hsrc : source < s.nodesVec.length) :
    ∃ r, s.dijkstraBasic weighted source = .ok r ∧ InRange s.nodesVec.length r := by
  unfold Store.dijkstraBasic
  have hge : ¬ source ≥ s.numberOfNodes := by show ¬ source ≥ s.nodesVec.length; omega
  simp only [if_neg hge]
  refine ⟨_, rfl, spInfos_valid _ _ _ _ ?_ (fun ps hps => by cases hps)⟩
  rw [basicLoop_len]
  simp [Store.numberOfNodes]

/-- one search by position (`dijkstra_basic` or `dijkstra`) -/
theorem runOne_np (s : Store) (h : s.wf = true) (weighted : Bool) (si : Nat) (ti tgt : Option Nat)
    (cutoff2 : Option Int) (firstOnly withPaths : Bool) (hsrc : si < s.nodesVec.length) :
    (s.runOne weighted si ti tgt cutoff2 firstOnly withPaths).isPanic = false ∧
    ∀ r, s.runOne weighted si ti tgt cutoff2 firstOnly withPaths = .ok r → InRange s.nodesVec.length r := by
  unfold Store.runOne
  split
  · obtain ⟨r, hr, hin⟩ := dijkstraBasic_np s weighted si hsrc
    rw [hr]
    exact ⟨rfl, fun r' hr' => by cases hr'; exact hin⟩
  · exact dijkstra_np s h weighted si ti cutoff2 firstOnly withPaths hsrc

/-- the renaming of a result whose positions are in range succeeds -/
theorem spToNames_np (s : Store) (h : s.wf = true) (r : List (Nat × SPInfo)) (hr : InRange s.nodesVec.length r) :
    ∃ out, s.spToNames r = .ok out := by
  apply C08A.spToNames_ok
  intro p hp
  obtain ⟨h1, h2⟩ := hr p hp
  exact ⟨(C08A.isIdx_of_names s h (C08A.names_of_lt s h1)).1,
    fun path hpath i hi => (C08A.isIdx_of_names s h (C08A.names_of_lt s (h2 path hpath i hi))).1⟩

theorem getNodeIndex_lt (s : Store) (h : s.wf = true) (x i : Nat) (hi : s.getNodeIndex x = .ok i) :
    i < s.nodesVec.length := by
  unfold Store.getNodeIndex at hi
  cases hl : alookup s.nodesMap x with
  | none => rw [hl] at hi; cases hi
  | some j =>
    rw [hl] at hi
    cases hi
    exact (NP.wf_parts' h).1.lookup_lt hl

/-! ### non-negative stored weights give non-negative traversal weights (from `wf` alone, through `vecOk`) -/

theorem minFold_none (ws : List W) : ws.foldl (fun m x => if W.lt x m then x else m) none = none := by
  induction ws with
  | nil => rfl
  | cons w ws ih =>
    rw [List.foldl_cons]
    have : W.lt w none = false := by cases w <;> rfl
    simp only [this, Bool.false_eq_true, if_false]
    exact ih

theorem minFold_some (ws : List W) : ∀ (m : Int), ∃ m', ws.foldl (fun m x => if W.lt x m then x else m) (some m) = some m' ∧
    m' ≤ m ∧ ∀ c, some c ∈ ws → m' ≤ c := by
  induction ws with
  | nil => intro m; exact ⟨m, rfl, le_refl _, fun c hc => by cases hc⟩
  | cons w ws ih =>
    intro m
    rw [List.foldl_cons]
    cases w with
    | none =>
      have : W.lt none (some m) = false := rfl
      simp only [this, Bool.false_eq_true, if_false]
      obtain ⟨m', h1, h2, h3⟩ := ih m
      refine ⟨m', h1, h2, fun c hc => ?_⟩
      rcases List.mem_cons.1 hc with hc | hc
      · cases hc
      · exact h3 c hc
    | some a =>
      by_cases hlt : a < m
      · have : W.lt (some a) (some m) = true := by simp [W.lt, hlt]
        simp only [this, if_true]
        obtain ⟨m', h1, h2, h3⟩ := ih a
        refine ⟨m', h1, by omega, fun c hc => ?_⟩
        rcases List.mem_cons.1 hc with hc | hc
        · cases hc; exact h2
        · exact h3 c hc
      · have : W.lt (some a) (some m) = false := by simp [W.lt, hlt]
        simp only [this, Bool.false_eq_true, if_false]
        obtain ⟨m', h1, h2, h3⟩ := ih m
        refine ⟨m', h1, h2, fun c hc => ?_⟩
        rcases List.mem_cons.1 hc with hc | hc
        · cases hc; omega
        · exact h3 c hc

theorem minFold_mem (ws : List W) : ∀ (w : W), ws.foldl (fun m x => if W.lt x m then x else m) w ∈ w :: ws := by
  induction ws with
  | nil => intro w; simp
  | cons x ws ih =>
    intro w
    rw [List.foldl_cons]
    split
    · have := ih x
      rcases List.mem_cons.1 this with h | h
      · rw [h]; simp
      · exact List.mem_cons_of_mem _ (List.mem_cons_of_mem _ h)
    · have := ih w
      rcases List.mem_cons.1 this with h | h
      · rw [h]; simp
      · exact List.mem_cons_of_mem _ (List.mem_cons_of_mem _ h)

/-- if the minimum (under the `f64` `<`) of the listed weights is the minimum of stored weights that are all present and
    non-negative, every present listed weight is non-negative -/
theorem listed_nonneg (l stored : List W) (heq : Abs.minW l = Abs.minW stored)
    (hst : ∀ w ∈ stored, ∃ c, w = some c ∧ 0 ≤ c) : ∀ c, some c ∈ l → 0 ≤ c := by
  intro c hc
  cases l with
  | nil => cases hc
  | cons w ws =>
    cases stored with
    | nil => simp [Abs.minW] at heq
    | cons w' ws' =>
      simp only [Abs.minW, Option.some.injEq] at heq
      obtain ⟨m', hm', hm0⟩ := hst _ (minFold_mem ws' w')
      rw [hm'] at heq
      cases w with
      | none => rw [minFold_none] at heq; cases heq
      | some a =>
        obtain ⟨m'', h1, h2, h3⟩ := minFold_some ws a
        rw [h1] at heq
        cases heq
        rcases List.mem_cons.1 hc with hc | hc
        · cases hc; omega
        · have := h3 c hc; omega

/-- **from `wf` alone**: when every stored edge carries a non-negative weight, every weight in the traversal lists is
    non-negative (no use of the entry-level invariant `entOk`) -/
theorem idxArcs_nonneg_of_wf (s : Store) (h : s.wf = true) (weighted : Bool) (hc : s.costsOk weighted) :
    ∀ a ∈ s.idxArcs weighted, 0 ≤ a.2.2 := by
  intro a ha
  obtain ⟨u, x, w⟩ := a
  cases weighted with
  | false =>
    obtain ⟨_, hw, _⟩ := (C08A.mem_idxArcs_false s h u x w).1 ha
    simp only; omega
  | true =>
    obtain ⟨hu, hmem⟩ := (C08A.mem_idxArcs_true s h u x w).1 ha
    have hpre := C03.pre_of_wf s h
    have hx : x < s.nodesVec.length := adj_lt s h u (x, some w) hmem
    have hnl : s.names.length = s.nodesVec.length := by simp [Store.names]
    obtain ⟨xu, hxu⟩ : ∃ xu, s.names[u]? = some xu := ⟨_, List.getElem?_eq_getElem (by omega)⟩
    obtain ⟨xx, hxx⟩ : ∃ xx, s.names[x]? = some xx := ⟨_, List.getElem?_eq_getElem (by omega)⟩
    have hval := hpre.vS.val u x xu xx hxu hxx
    unfold C03.rowMin C03.fS at hval
    refine listed_nonneg _ _ hval ?_ w ?_
    · intro w' hw'
      unfold C03.wbC at hw'
      obtain ⟨e, he, rfl⟩ := List.mem_map.1 hw'
      cases hl : alookup s.edges (nameKey s.specs.directed xu xx) with
      | none => rw [hl] at he; cases he
      | some es =>
        rw [hl] at he
        have hall : e ∈ s.allEdges := List.mem_flatMap.2 ⟨_, C02.alookup_mem _ _ _ hl, he⟩
        exact hc rfl e hall
    · unfold C03.wts
      exact List.mem_map.2 ⟨(x, some w), List.mem_filter.2 ⟨hmem, by simp⟩, rfl⟩

end C20B

/-- **`single_source`** on ANY well-formed store - negative weights, NaN weights, any target (absent: NodeNotFound), any
    cutoff: a value, `NodeNotFound` or `ContradictoryPaths`; never a panic.  (Strengthens
    `C20_model_single_source_no_panic`, which assumed non-negative weights and the entry-level invariant.) -/
theorem C20_model_single_source_any_no_panic (s : Store) (h : s.wf = true) (weighted : Bool) (src : Nat)
    (target : Option Nat) (cutoff2 : Option Int) (firstOnly withPaths : Bool) :
    (s.singleSource weighted src target cutoff2 firstOnly withPaths).isPanic = false := by
  unfold Store.singleSource
  refine np_bind (by unfold Store.getNodeIndex; split <;> rfl) (fun si hsi => ?_)
  have hrest : ∀ ti, (do
      let r ← s.runOne weighted si ti target cutoff2 firstOnly withPaths
      s.spToNames r).isPanic = false := by
    intro ti
    obtain ⟨h1, h2⟩ := runOne_np s h weighted si ti target cutoff2 firstOnly withPaths (getNodeIndex_lt s h src si hsi)
    refine np_bind h1 (fun r hr => ?_)
    exact np_of_ok (spToNames_np s h r (h2 r hr))
  cases target with
  | none => exact np_bind rfl (fun ti _ => hrest ti)
  | some t =>
    exact np_bind (np_map' _ (by unfold Store.getNodeIndex; split <;> rfl)) (fun ti _ => hrest ti)

/-! ### `multi_source`, `all_pairs`, `get_all_shortest_paths_involving`

  History: these three used to `unwrap` the `Result` of the per-source search, so they panicked when a search returned
  `ContradictoryPaths` (a NEGATIVE weight) - found by this file (the former `C20_finding_negative_weights`, reproduced on
  the crate) and repaired in the crate (`fix:` commit: `all_pairs_iter` / `all_pairs_par_iter` yield `Result`s, `all_pairs`
  and `multi_source` propagate the first error with `?`); the model mirrors the repaired code.  Now the statement holds at
  full strength: no hypothesis on the weights. -/

namespace C20B

/-- with non-negative traversal weights one search by position returns a value (not `ContradictoryPaths`) that can be
    renamed -/
theorem runOne_ok (s : Store) (h : s.wf = true) (weighted : Bool) (hnn : ∀ a ∈ s.idxArcs weighted, 0 ≤ a.2.2)
    (si : Nat) (ti tgt : Option Nat) (cutoff2 : Option Int) (firstOnly withPaths : Bool) (hsrc : si < s.nodesVec.length) :
    ∃ r, s.runOne weighted si ti tgt cutoff2 firstOnly withPaths = .ok r ∧ ∃ out, s.spToNames r = .ok out := by
  obtain ⟨dist, paths, hrun, _⟩ :=
    C08A.runOne_run s weighted si ti tgt cutoff2 firstOnly withPaths (C08A.vecWf_of_wf s h) hsrc hnn
  refine ⟨_, hrun, spToNames_np s h _ ?_⟩
  exact (runOne_np s h weighted si ti tgt cutoff2 firstOnly withPaths hsrc).2 _ hrun

/-- with non-negative traversal weights `single_source` on existing names returns a value -/
theorem singleSource_ok (s : Store) (h : s.wf = true) (weighted : Bool) (hnn : ∀ a ∈ s.idxArcs weighted, 0 ≤ a.2.2)
    (src : Nat) (hsrc : s.hasNode src = true) (target : Option Nat) (htgt : ∀ t, target = some t → s.hasNode t = true)
    (cutoff2 : Option Int) (firstOnly withPaths : Bool) :
    ∃ out, s.singleSource weighted src target cutoff2 firstOnly withPaths = .ok out := by
  obtain ⟨si, hsi, _, hlt⟩ := C08A.index_of_hasNode s h src hsrc
  unfold Store.singleSource
  cases target with
  | none =>
    obtain ⟨r, hr, out, hout⟩ := runOne_ok s h weighted hnn si none none cutoff2 firstOnly withPaths hlt
    exact ⟨out, by simp only [hsi, hr, hout, bind, Outcome.bind]⟩
  | some t =>
    obtain ⟨ti, hti, _, _⟩ := C08A.index_of_hasNode s h t (htgt t rfl)
    obtain ⟨r, hr, out, hout⟩ := runOne_ok s h weighted hnn si (some ti) (some t) cutoff2 firstOnly withPaths hlt
    exact ⟨out, by simp only [hsi, hti, Outcome.map', hr, hout, bind, Outcome.bind]⟩

end C20B

/-- **`multi_source`** on ANY well-formed store: NodeNotFound for an absent source or target, otherwise a value or the
    first error of a per-source search (`ContradictoryPaths` on negative weights); never a panic -/
theorem C20_model_multi_source_no_panic (s : Store) (h : s.wf = true) (weighted : Bool) (sources : List Nat)
    (target : Option Nat) (cutoff2 : Option Int) (firstOnly withPaths : Bool) :
    (s.multiSource weighted sources target cutoff2 firstOnly withPaths).isPanic = false := by
  unfold Store.multiSource
  by_cases hsrc0 : (!s.hasNodes sources) = true
  · rw [if_pos hsrc0]; rfl
  rw [if_neg hsrc0]
  have hfold : (sources.foldl (fun acc src => do
        let out ← acc
        let r ← s.singleSource weighted src target cutoff2 firstOnly withPaths
        .ok (ainsert out src r)) (.ok [])).isPanic = false := by
    refine np_foldl' _ _ ?_ (fun _ _ => rfl) _
    intro out src _
    refine np_bind rfl (fun _ _ => ?_)
    exact np_bind (C20_model_single_source_any_no_panic s h weighted src target cutoff2 firstOnly withPaths)
      (fun _ _ => rfl)
  cases target with
  | none =>
    simp only [Bool.false_eq_true, if_false]
    exact hfold
  | some t =>
    cases ht : s.hasNode t
    · simp only [ht, Bool.not_false, if_true]; rfl
    · simp only [ht, Bool.not_true, Bool.false_eq_true, if_false]
      exact hfold

/-- **`all_pairs`** on ANY well-formed store: EdgeWeightNotSpecified (weighted mode, a NaN weight), NodeNotFound (absent
    target), otherwise a value or the first error of a per-source search; never a panic -/
theorem C20_model_all_pairs_no_panic (s : Store) (h : s.wf = true) (weighted : Bool) (target : Option Nat)
    (cutoff2 : Option Int) (firstOnly withPaths : Bool) :
    (s.allPairs weighted target cutoff2 firstOnly withPaths).isPanic = false := by
  have hshape : s.allPairs weighted target cutoff2 firstOnly withPaths =
      ((if weighted then s.ensureWeighted else .ok ()) >>= fun _ =>
        (match target with
          | some t => (s.getNodeIndex t).map' some
          | none => .ok none) >>= fun ti =>
        (List.range s.numberOfNodes).foldl (fun acc i => do
          let out ← acc
          let r ← s.runOne weighted i ti target cutoff2 firstOnly withPaths
          let src ← Outcome.ofOption "all_pairs: get_node_by_index().unwrap()" (s.getNodeByIndex i)
          let named ← s.spToNames r
          .ok (ainsert out src.name named)) (.ok [])) := by
    unfold Store.allPairs
    cases weighted <;> cases target <;> rfl
  rw [hshape]
  refine np_bind ?_ (fun _ _ => ?_)
  · split
    · unfold Store.ensureWeighted; split <;> rfl
    · rfl
  have hfold : ∀ ti, ((List.range s.numberOfNodes).foldl (fun acc i => do
      let out ← acc
      let r ← s.runOne weighted i ti target cutoff2 firstOnly withPaths
      let src ← Outcome.ofOption "all_pairs: get_node_by_index().unwrap()" (s.getNodeByIndex i)
      let named ← s.spToNames r
      .ok (ainsert out src.name named)) (.ok [])).isPanic = false := by
    intro ti
    refine np_foldl' _ _ ?_ (fun _ _ => rfl) _
    intro out i hi
    have hlt : i < s.nodesVec.length := List.mem_range.1 hi
    obtain ⟨h1, h2⟩ := runOne_np s h weighted i ti target cutoff2 firstOnly withPaths hlt
    obtain ⟨nd, hnd⟩ := (C08A.isIdx_of_names s h (C08A.names_of_lt s hlt)).1
    refine np_bind rfl (fun _ _ => ?_)
    refine np_bind h1 (fun r hr => ?_)
    refine np_bind (by rw [hnd]; rfl) (fun _ _ => ?_)
    exact np_bind (np_of_ok (spToNames_np s h r (h2 r hr))) (fun _ _ => rfl)
  cases target with
  | none => exact np_bind rfl (fun ti _ => hfold ti)
  | some t => exact np_bind (np_map' _ (by unfold Store.getNodeIndex; split <;> rfl)) (fun ti _ => hfold ti)

/-- **`get_all_shortest_paths_involving`** (no error channel; any name, present or absent: an absent name is simply on no
    path; an error of `all_pairs` becomes the empty list) on ANY well-formed store -/
theorem C20_model_paths_involving_no_panic (s : Store) (h : s.wf = true) (x : Nat) (weighted : Bool) :
    (s.pathsInvolving x weighted).isPanic = false := by
  unfold Store.pathsInvolving
  have := C20_model_all_pairs_no_panic s h weighted none none false true
  revert this
  cases s.allPairs weighted none none false true with
  | ok v => intro _; rfl
  | err k => intro _; rfl
  | panic site => intro hp; cases hp

/-- **the statement at full strength** - no hypothesis on the weights (negative and NaN weights included), both modes,
    absent names included.  (False before the repair of the crate; see the history note above.) -/
theorem C20_model_shortest_paths_no_panic_full :
    ∀ (s : Store), s.wf = true → ∀ (weighted : Bool) (sources : List Nat) (x : Nat) (target : Option Nat)
      (cutoff2 : Option Int) (firstOnly withPaths : Bool),
      (s.multiSource weighted sources target cutoff2 firstOnly withPaths).isPanic = false ∧
      (s.allPairs weighted target cutoff2 firstOnly withPaths).isPanic = false ∧
      (s.pathsInvolving x weighted).isPanic = false :=
  fun s h weighted sources x target cutoff2 firstOnly withPaths =>
    ⟨C20_model_multi_source_no_panic s h weighted sources target cutoff2 firstOnly withPaths,
     C20_model_all_pairs_no_panic s h weighted target cutoff2 firstOnly withPaths,
     C20_model_paths_involving_no_panic s h x weighted⟩

/-- the error channel of the shortest-path functions for names that are not in the graph (no hypothesis on weights):
    `single_source` / `multi_source` / `all_pairs(target)` answer `NodeNotFound` (`all_pairs` in weighted mode may answer
    `EdgeWeightNotSpecified` first, as the crate checks the weights before the target) -/
theorem C20_model_shortest_paths_absent_channel (s : Store) (h : s.wf = true) (weighted : Bool) (x : Nat)
    (hx : s.hasNode x = false) (sources : List Nat) (target : Option Nat) (cutoff2 : Option Int)
    (firstOnly withPaths : Bool) :
    s.singleSource weighted x target cutoff2 firstOnly withPaths = .err .NodeNotFound ∧
    (x ∈ sources → s.multiSource weighted sources target cutoff2 firstOnly withPaths = .err .NodeNotFound) ∧
    s.multiSource weighted sources (some x) cutoff2 firstOnly withPaths = .err .NodeNotFound ∧
    (s.allPairs weighted (some x) cutoff2 firstOnly withPaths = .err .NodeNotFound ∨
      (weighted = true ∧ s.allPairs weighted (some x) cutoff2 firstOnly withPaths = .err .EdgeWeightNotSpecified)) := by
  refine ⟨C04_model_singleSource_unknown_corrected s h weighted x hx target cutoff2 firstOnly withPaths,
    fun hm => C08_model_multiSource_unknown s weighted sources target cutoff2 firstOnly withPaths (.inl ⟨x, hm, hx⟩),
    C08_model_multiSource_unknown s weighted sources (some x) cutoff2 firstOnly withPaths (.inr ⟨x, rfl, hx⟩), ?_⟩
  have hidx : s.getNodeIndex x = .err .NodeNotFound := by
    unfold Store.getNodeIndex
    cases hl : alookup s.nodesMap x with
    | none => rfl
    | some i =>
      exfalso
      have hn := (NP.wf_parts' h).1
      have : x ∈ s.names := (hn.mem_names_iff x).2 ⟨i, hl⟩
      rw [← hasNode_iff s h x, hx] at this
      cases this
  unfold Store.allPairs
  cases weighted
  · left
    simp only [Bool.false_eq_true, if_false, hidx, Outcome.map', bind, Outcome.bind]
  · unfold Store.ensureWeighted
    cases hw : s.edgesHaveWeight
    · right
      refine ⟨rfl, ?_⟩
      simp only [if_true, Bool.false_eq_true, if_false, bind, Outcome.bind]
    · left
      simp only [if_true, hidx, Outcome.map', bind, Outcome.bind]

/-- the directed graph 1 -5-> 2, 1 -6-> 3, 3 -(-10)-> 2 (the store of the former finding) -/
def C20_negw_store : Store :=
  (Store.run ⟨true, false, false, .keepFirst, .create, .error⟩
    [Op.addEdge ⟨1, 2, some 5, none⟩, Op.addEdge ⟨1, 3, some 6, none⟩, Op.addEdge ⟨3, 2, some (-10), none⟩]).1

/-- on the store with ONE negative weight on which `all_pairs`, `multi_source` and `get_all_shortest_paths_involving` used
    to panic (all names exist), the repaired functions report the failing search through their `Result`, exactly as
    `single_source` does, and `get_all_shortest_paths_involving` (no error channel) maps the error to the empty list -/
theorem C20_negative_weights_repaired :
    C20_negw_store.wf = true ∧
    C20_negw_store.singleSource true 1 none none false true = .err .ContradictoryPaths ∧
    C20_negw_store.allPairs true none none false true = .err .ContradictoryPaths ∧
    C20_negw_store.multiSource true [1] none none false true = .err .ContradictoryPaths ∧
    C20_negw_store.pathsInvolving 2 true = .ok [] ∧
    (C20_negw_store.allPairs true none none false false).isOk = true := by
  decide +kernel

end Graphrs
