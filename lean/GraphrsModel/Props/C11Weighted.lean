/-
  C11, weighted forms, model level — the executable weighted clustering model IS the definition, over ℝ.

  Model/Cluster.lean writes `get_max_weight`, `get_normalized_edge_weight`, `get_weighted_triangles_and_degrees`,
  `get_all_directed_triangles` and the weighted `clustering` of src/algorithms/cluster/*.rs ONCE, generically over a
  record of scalar operations (`CScalar α`); Spec/Cluster.lean writes the definitions (`weightedClusteringAtG`: geometric
  mean of the max-normalised weights over the ordered pairs of adjacent neighbours; `weightedFagioloAtG`: the directed
  form `[(Ŵ^[1/3] + (Ŵᵀ)^[1/3])³]_vv`) over the same record.  The driver runs both at `Float` (`floatCScalar`).
  This file reads THE SAME definitions at `ℝ` (`realCScalar`, cube root = the odd real cube root `rcbrt`) and proves,
  for every well-formed single-edge store all of whose edges carry a positive weight:

    (a) undirected: the model returns `.ok m` (no `unwrap` site is reached) and `m` binds every requested node to
        `weightedClusteringAtG` of the abstract graph;
    (b) directed: the same against `weightedFagioloAtG`;
    (c) the undirected weighted coefficient lies in [0, 1].

  The mathematical content of (a)/(b): the code takes ONE cube root of the product of three normalised weights, the
  definition multiplies THREE cube roots (`rcbrt_mul`), the undirected code visits every triangle once and doubles,
  the definition sums over ordered pairs (`dsum_pairs`), and the directed code's eight intersection sums are the
  expansion of the product of the three symmetrised entries.
-/
import GraphrsModel.Lemmas.C11WUndir
import GraphrsModel.Lemmas.C11WDir
namespace Graphrs
open C02 C11aux C11M C11W

/-- every stored edge carries a positive weight -/
def Store.positiveWeights (s : Store) : Prop := ∀ e ∈ s.allEdges, ∃ c : Int, e.w = some c ∧ 0 < c

private theorem posW_abs (s : Store) (hw : s.positiveWeights) : PosW s.abs := hw

private theorem ensureWeighted_ok (s : Store) (hw : s.positiveWeights) : s.ensureWeighted = .ok () := by
  unfold Store.ensureWeighted Store.edgesHaveWeight
  have : (s.allEdges.all fun e => !e.w.isNan) = true := by
    rw [List.all_eq_true]
    intro e he
    obtain ⟨c, hc, _⟩ := hw e he
    rw [hc]
    rfl
  rw [this]
  rfl

private theorem ensureNotMulti_ok (s : Store) (hmul : s.specs.multi = false) : s.ensureNotMulti = .ok () := by
  simp [Store.ensureNotMulti, hmul]

private theorem ensureU_ok (s : Store) (names : Option (List Nat)) (hn : ∀ x ∈ requestedU s names, s.hasNode x = true) :
    s.ensureHasNodes names = .ok () := by
  unfold Store.ensureHasNodes
  cases names with
  | none => rfl
  | some l =>
    have : s.hasNodes l = true := by
      unfold Store.hasNodes
      rw [List.all_eq_true]
      intro x hx
      apply hn
      unfold requestedU
      have : l.isEmpty = false := by cases l with
        | nil => cases hx
        | cons a l => rfl
      simp only [this, Bool.false_eq_true, if_false]
      exact hx
    simp [this]

/-- the definition's sum over ordered pairs of adjacent neighbours, as an indicator-weighted double sum -/
private theorem spec_sum (a : Abs) (v : Nat) :
    Abs.ssumG R ((a.N v).flatMap fun u => ((a.N v).filter fun w => a.adjacent u w).map fun w =>
      R.mul (R.mul (R.cbrt (R.div (a.weightOfG R false v u) (a.maxWG R)))
        (R.cbrt (R.div (a.weightOfG R false u w) (a.maxWG R))))
        (R.cbrt (R.div (a.weightOfG R false w v) (a.maxWG R))))
      = ((a.N v).map fun u => ((a.N v).map fun w => G a v u w).sum).sum := by
  rw [ssumG_real, sum_flatMap_real]
  congr 1
  apply List.map_congr_left
  intro u _
  rw [sum_filter_real]
  rfl

/-- **(a) undirected weighted clustering = the definition**, for every requested subset; in particular the model does not
    panic: none of its `unwrap` sites is reachable on a well-formed store -/
theorem C11_weighted_undirected (s : Store) (h : s.wf = true) (hd : s.specs.directed = false) (hmul : s.specs.multi = false)
    (hw : s.positiveWeights) (names : Option (List Nat)) (hn : ∀ x ∈ requestedU s names, s.hasNode x = true) :
    ∃ m, s.clusteringWeightedG realCScalar names = .ok m ∧
      ∀ x ∈ requestedU s names, alookup m x = some (s.abs.weightedClusteringAtG realCScalar x) := by
  unfold Store.clusteringWeightedG
  simp only [ensureNotMulti_ok s hmul, ensureU_ok s names hn, ensureWeighted_ok s hw, wtd_ok s h hd names hn, bind,
    Outcome.bind, hd, Bool.false_eq_true, if_false]
  refine ⟨_, rfl, ?_⟩
  intro x hx
  rw [alookup_foldl_ainsert (fun t : Nat × Nat × ℝ => t.1) _ (fun v => s.abs.weightedClusteringAtG realCScalar v)]
  · rw [if_pos]
    rw [List.map_map]
    exact List.mem_map.2 ⟨x, (C11aux.mem_dedup _ _).2 hx, rfl⟩
  · intro t ht
    obtain ⟨v, hv, rfl⟩ := List.mem_map.1 ht
    have hv' := hn v ((C11aux.mem_dedup _ _).1 hv)
    unfold Abs.weightedClusteringAtG
    simp only [wtdOf]
    simp only [spec_sum s.abs v, ← inner_total s h hd hmul (posW_abs s hw) v hv', mN_length s h hd v hv']

/-- the definition's triple sum through `sR` -/
private theorem spec_sum_dir (a : Abs) (v : Nat) :
    Abs.ssumG R (a.nodeNames.flatMap fun j => a.nodeNames.map fun k =>
      R.mul (R.mul
        (R.add (if a.arc v j == 1 then R.cbrt (R.div (a.weightOfG R true v j) (a.maxWG R)) else R.zero)
          (if a.arc j v == 1 then R.cbrt (R.div (a.weightOfG R true j v) (a.maxWG R)) else R.zero))
        (R.add (if a.arc j k == 1 then R.cbrt (R.div (a.weightOfG R true j k) (a.maxWG R)) else R.zero)
          (if a.arc k j == 1 then R.cbrt (R.div (a.weightOfG R true k j) (a.maxWG R)) else R.zero)))
        (R.add (if a.arc k v == 1 then R.cbrt (R.div (a.weightOfG R true k v) (a.maxWG R)) else R.zero)
          (if a.arc v k == 1 then R.cbrt (R.div (a.weightOfG R true v k) (a.maxWG R)) else R.zero)))
      = (a.nodeNames.flatMap fun j => a.nodeNames.map fun k => sR a v j * sR a j k * sR a k v).sum := by
  rw [ssumG_real]
  rfl

/-- the loop over the requested nodes of the directed branch -/
private theorem dir_fold (s : Store) (h : s.wf = true) (hd : s.specs.directed = true) (hmul : s.specs.multi = false)
    (hw : s.positiveWeights) (ns : List Nat) (hn : ∀ x ∈ ns, s.hasNode x = true) :
    ∃ m, ns.foldl (fun acc i => do
        let out ← acc
        let ip ← s.adjWithout i true
        let is ← s.adjWithout i false
        let t1 ← s.allDirectedTrianglesG R (s.maxWeightG R) i ip is true
        let t2 ← s.allDirectedTrianglesG R (s.maxWeightG R) i ip is false
        let t := R.add t1 t2
        let tot := R.ofNat (ip.length + is.length)
        let rec_ := R.ofNat (sinter ip is).length
        Outcome.ok (ainsert out i (if R.isZero t then R.zero
          else R.div t (R.mul (R.sub (R.mul tot (R.sub tot R.one)) (R.mul R.two rec_)) R.two)))) (.ok []) = .ok m ∧
      ∀ x ∈ ns, alookup m x = some (s.abs.weightedFagioloAtG realCScalar x) := by
  rw [foldl_ok_gen _ (fun out i => ainsert out i (s.abs.weightedFagioloAtG realCScalar i))]
  · refine ⟨_, rfl, ?_⟩
    intro x hx
    rw [alookup_foldl_ainsert (fun i : Nat => i) _ (fun v => s.abs.weightedFagioloAtG realCScalar v) _ (fun _ _ => rfl)]
    rw [if_pos (by simpa using hx)]
  · intro out i hi
    have hi' := hn i hi
    simp only [adjWithout_pred s h hd i hi', adjWithout_succ s h hd i hi', allDir_pred_ok s h hd i hi',
      allDir_succ_ok s h hd i hi', bind, Outcome.bind]
    congr 2
    unfold Abs.weightedFagioloAtG
    simp only [spec_sum_dir s.abs i]
    have ht := dir_total s h hd hmul (posW_abs s hw) i hi'
    have htot := total_eq s h hd i hi'
    have hrec := recip_eq s h hd i hi'
    show (if decide (_ + _ = (0 : ℝ)) = true then (0 : ℝ) else (_ + _) /
        (((((mP s i).length + (mS s i).length : Nat) : ℝ) * ((((mP s i).length + (mS s i).length : Nat) : ℝ) - 1)
          - 2 * (((sinter (mP s i) (mS s i)).length : Nat) : ℝ)) * 2)) = _
    rw [ht, htot, hrec, abs_nodeNames]
    show _ = (if decide (_ = (0 : ℝ)) = true then (0 : ℝ) else _ / (2 * (_ * (_ - 1) - 2 * _)))
    rw [mul_comm _ (2 : ℝ)]
    rfl

/-- **(b) directed weighted clustering = the Fagiolo form of the definition**, for every requested list of nodes; the
    model does not panic -/
theorem C11_weighted_directed (s : Store) (h : s.wf = true) (hd : s.specs.directed = true) (hmul : s.specs.multi = false)
    (hw : s.positiveWeights) (names : Option (List Nat)) (hn : ∀ x ∈ names.getD s.getAllNodeNames, s.hasNode x = true) :
    ∃ m, s.clusteringWeightedG realCScalar names = .ok m ∧
      ∀ x ∈ names.getD s.getAllNodeNames, alookup m x = some (s.abs.weightedFagioloAtG realCScalar x) := by
  have hen : s.ensureHasNodes names = .ok () := by
    unfold Store.ensureHasNodes
    cases names with
    | none => rfl
    | some l =>
      have : s.hasNodes l = true := by
        unfold Store.hasNodes
        rw [List.all_eq_true]
        exact fun x hx => hn x hx
      simp [this]
  unfold Store.clusteringWeightedG
  simp only [ensureNotMulti_ok s hmul, hen, ensureWeighted_ok s hw, bind, Outcome.bind, hd, if_true]
  cases names with
  | none => exact dir_fold s h hd hmul hw _ hn
  | some l => exact dir_fold s h hd hmul hw _ hn

/-- **(c) the undirected weighted coefficient lies in [0, 1]** (every normalised weight is in (0, 1], so every term is at
    most 1, and there are at most `d (d - 1)` ordered pairs of distinct neighbours) -/
theorem C11_weighted_unit_interval (a : Abs) (hw : ∀ e ∈ a.edges, ∃ c : Int, e.w = some c ∧ 0 < c) (v : Nat) :
    0 ≤ a.weightedClusteringAtG realCScalar v ∧ a.weightedClusteringAtG realCScalar v ≤ 1 := by
  unfold Abs.weightedClusteringAtG
  simp only [spec_sum a v]
  obtain ⟨h0, h1⟩ := dsum_bounds a hw v
  generalize ((a.N v).map fun u => ((a.N v).map fun w => G a v u w).sum).sum = t at h0 h1
  show 0 ≤ (if decide (t = 0) = true then (0 : ℝ) else t / (((a.N v).length : ℝ) * (((a.N v).length : ℝ) - 1))) ∧
    (if decide (t = 0) = true then (0 : ℝ) else t / (((a.N v).length : ℝ) * (((a.N v).length : ℝ) - 1))) ≤ 1
  by_cases ht : t = 0
  · simp [ht]
  · have hpos : 0 < t := lt_of_le_of_ne h0 (Ne.symm ht)
    have hden : 0 < ((a.N v).length : ℝ) * (((a.N v).length : ℝ) - 1) := lt_of_lt_of_le hpos h1
    simp only [ht, decide_false, Bool.false_eq_true, if_false]
    exact ⟨div_nonneg h0 hden.le, (div_le_one hden).2 h1⟩

/-- the coefficients the undirected model returns lie in [0, 1] -/
theorem C11_weighted_undirected_unit (s : Store) (h : s.wf = true) (hd : s.specs.directed = false)
    (hmul : s.specs.multi = false) (hw : s.positiveWeights) (names : Option (List Nat))
    (hn : ∀ x ∈ requestedU s names, s.hasNode x = true) (m : List (Nat × ℝ))
    (hm : s.clusteringWeightedG realCScalar names = .ok m) :
    ∀ x ∈ requestedU s names, ∃ c, alookup m x = some c ∧ 0 ≤ c ∧ c ≤ 1 := by
  obtain ⟨m', hm', hval⟩ := C11_weighted_undirected s h hd hmul hw names hn
  rw [hm] at hm'
  cases hm'
  intro x hx
  exact ⟨_, hval x hx, C11_weighted_unit_interval s.abs hw x⟩

/-! ### what the driver runs is the `Float` instance of the same definitions -/

theorem clusteringWeighted_is_float_instance (s : Store) (names : Option (List Nat)) :
    s.clusteringWeighted names = s.clusteringWeightedG floatCScalar names := rfl
theorem weightedClusteringAt_is_float_instance (a : Abs) (v : Nat) :
    a.weightedClusteringAt v = a.weightedClusteringAtG floatCScalar v := rfl
theorem weightedFagioloAt_is_float_instance (a : Abs) (v : Nat) :
    a.weightedFagioloAt v = a.weightedFagioloAtG floatCScalar v := rfl

end Graphrs
