/-
  Source tie for C09 (translator `tools/formulas.py`): the quotients of `get_density` (src/graph/density.rs) and
  `degree_centrality` (src/algorithms/centrality/degree.rs), regenerated into `Generated/FormulasC09.lean`, are the ones
  the models `Store.getDensity` / `Store.degreeCentrality` use.
-/
import GraphrsModel.Generated.FormulasC09
import GraphrsModel.Model.Query
import Mathlib.Tactic.Ring
import Mathlib.Algebra.Order.Field.Rat
namespace Graphrs

theorem C09_src_density (s : Store) :
    s.getDensity =
      (if s.edges.isEmpty then some 0
       else
         let m : Rat := s.edges.length
         let n : Rat := s.nodesVec.length
         if n * (n - 1) == 0 then none
         else some (if s.specs.directed then Src.C09.densityDirected m n else Src.C09.densityUndirected m n)) := by
  rfl

theorem C09_src_degreeCentralityValue (d n : Nat) :
    Src.C09.degreeCentralityValue d (Src.C09.degreeCentralityScale n) = (d : Rat) / ((n : Rat) - 1) := by
  unfold Src.C09.degreeCentralityValue Src.C09.degreeCentralityScale; ring

theorem C09_src_degreeCentrality (s : Store) :
    s.degreeCentrality =
      (let n := s.nodesVec.length
       if Src.C09.degreeCentralityTrivial n = true then .ok (s.nodesVec.foldl (fun l nd => ainsert l nd.name (1 : Rat)) [])
       else s.forAllNodes "degree_centrality: get_node_degree().unwrap()" fun name =>
         (s.getNodeDegree name).map fun (d : Nat) => Src.C09.degreeCentralityValue d (Src.C09.degreeCentralityScale n)) := by
  unfold Store.degreeCentrality
  simp only [C09_src_degreeCentralityValue, Src.C09.degreeCentralityTrivial, decide_eq_true_eq]
  split
  · rfl
  · congr 1; funext name; cases s.getNodeDegree name <;> rfl

end Graphrs
