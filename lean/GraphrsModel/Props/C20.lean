/-
  C20 — valid calls on degenerate graphs return values or errors, never panic.

  In the models every `unwrap`, slice index and integer subtraction of the Rust code is an explicit `panic`
  outcome (or, inside mutations, the `poisoned` flag).  Under the coupling invariant - which holds on every
  reachable store of any of the 8 kinds, including the empty graph, a single node, edgeless graphs, self-loops
  and parallel edges - none of the modelled read functions reaches a panic site, for ANY argument (present or
  absent names, any node set), and the error channel is used as appendix B of DESIGN.md describes.
-/
import GraphrsModel.Props.C01
import GraphrsModel.ObsDegen
import GraphrsModel.Lemmas.NoPanic
import GraphrsModel.Lemmas.EqualSize
namespace Graphrs
open Store

private theorem mem_names_of_mem {s : Store} {n : Node} (h : n ∈ s.nodesVec) : n.name ∈ s.names :=
  List.mem_map.mpr ⟨n, h, rfl⟩

private theorem forAllNodes_noPanic {α} (s : Store) (site : String) (f : Nat → Option α)
    (h : ∀ n ∈ s.nodesVec, (f n.name).isSome = true) : (s.forAllNodes site f).isPanic = false := by
  obtain ⟨l, hl⟩ := NP.forAllNodes_ok s site f h
  rw [hl]; rfl


/-- pairwise queries -/
theorem C20_pair_queries_no_panic (s : Store) (h : s.wf = true) (u v : Nat) :
    (s.getEdge u v).isPanic = false ∧ (s.getEdges u v).isPanic = false := by
  obtain ⟨hn, he, hadj, hvec⟩ := NP.wf_parts' h
  constructor
  · unfold Store.getEdge
    split; · rfl
    split; · rfl
    rename_i _ hc
    simp only [Bool.or_eq_true, Bool.not_eq_true', not_or, Bool.not_eq_false] at hc
    obtain ⟨ui, hui⟩ := Option.isSome_iff_exists.mp hc.1
    obtain ⟨vi, hvi⟩ := Option.isSome_iff_exists.mp hc.2
    rw [NP.getNodeIndex_unwrap _ hui, NP.getNodeIndex_unwrap _ hvi]
    show (s.getEdgeByIndexes ui vi).isPanic = false
    unfold Store.getEdgeByIndexes
    split
    · rfl
    · rename_i hl; exact (NP.emap_ne_nil he hl).elim
    · rfl
  · unfold Store.getEdges
    split; · rfl
    split; · rfl
    rename_i _ hc
    simp only [Bool.or_eq_true, Bool.not_eq_true', not_or, Bool.not_eq_false] at hc
    obtain ⟨ui, hui⟩ := Option.isSome_iff_exists.mp hc.1
    obtain ⟨vi, hvi⟩ := Option.isSome_iff_exists.mp hc.2
    rw [NP.getNodeIndex_unwrap _ hui, NP.getNodeIndex_unwrap _ hvi]
    show (match s.edgesByIdx ui vi with | none => Outcome.err .EdgeNotFound | some l => .ok l).isPanic = false
    split <;> rfl

/-- per-node edge lists, for every name (present or absent) -/
theorem C20_node_edge_lists_no_panic (s : Store) (h : s.wf = true) (x : Nat) :
    (s.getEdgesForNode x).isPanic = false ∧ (s.getInEdgesForNode x).isPanic = false ∧
    (s.getOutEdgesForNode x).isPanic = false := by
  obtain ⟨hn, he, hadj, hvec⟩ := NP.wf_parts' h
  by_cases hx : x ∈ s.names
  · refine ⟨?_, ?_, ?_⟩
    · obtain ⟨l, hl⟩ := NP.getEdgesForNode_ok hn he hadj hx; rw [hl]; rfl
    · cases hd : s.specs.directed with
      | true => obtain ⟨l, hl⟩ := NP.getInEdgesForNode_ok hn he hadj hx hd; rw [hl]; rfl
      | false => simp [Store.getInEdgesForNode, hd]; rfl
    · cases hd : s.specs.directed with
      | true => obtain ⟨l, hl⟩ := NP.getOutEdgesForNode_ok hn he hadj hx hd; rw [hl]; rfl
      | false => simp [Store.getOutEdgesForNode, hd]; rfl
  · have hg := NP.getNode_none hn hx
    refine ⟨?_, ?_, ?_⟩
    · rw [NP.getEdgesForNode_absent hn hx]; rfl
    · unfold Store.getInEdgesForNode; rw [if_pos hg]; split <;> rfl
    · unfold Store.getOutEdgesForNode; rw [if_pos hg]; split <;> rfl

/-- node-set variants, for every list of names -/
theorem C20_node_set_queries_no_panic (s : Store) (S : List Nat) :
    (s.getEdgesForNodes S).isPanic = false ∧ (s.getInEdgesForNodes S).isPanic = false ∧
    (s.getOutEdgesForNodes S).isPanic = false := by
  refine ⟨?_, ?_, ?_⟩
  · unfold Store.getEdgesForNodes; split <;> rfl
  · unfold Store.getInEdgesForNodes; split <;> (try split) <;> rfl
  · unfold Store.getOutEdgesForNodes; split <;> (try split) <;> rfl

/-- successor / predecessor / neighbour queries -/
theorem C20_adjacency_queries_no_panic (s : Store) (h : s.wf = true) (x : Nat) :
    (s.getSuccessorNodes x).isPanic = false ∧ (s.getPredecessorNodes x).isPanic = false ∧
    (s.getNeighborNodes x).isPanic = false := by
  obtain ⟨hn, he, hadj, hvec⟩ := NP.wf_parts' h
  have A := NP.adjFacts hadj
  have hadjN : ∀ m, (∀ i l, alookup m i = some l → ∀ j ∈ l, j < s.nodesVec.length) →
      (s.getAdjNodes m x).isPanic = false := by
    intro m hm
    by_cases hx : x ∈ s.names
    · obtain ⟨l, hl⟩ := NP.getAdjNodes_ok hn m hm hx; rw [hl]; rfl
    · rw [NP.getAdjNodes_absent hn m hx]; rfl
  refine ⟨?_, ?_, ?_⟩
  · unfold Store.getSuccessorNodes
    split
    · rfl
    · exact hadjN _ (fun i l hl => (A.succMap_lt i l hl).2)
  · unfold Store.getPredecessorNodes
    split
    · rfl
    · exact hadjN _ (fun i l hl => (A.predMap_lt i l hl).2)
  · by_cases hx : x ∈ s.names
    · obtain ⟨l, hl⟩ := NP.getNeighborNodes_ok hn hvec hx; rw [hl]; rfl
    · rw [NP.getNeighborNodes_absent hn hx]; rfl

/-- functions without an error channel do not panic on names that exist -/
theorem C20_succ_or_nbrs_no_panic (s : Store) (h : s.wf = true) (x : Nat) (hx : s.hasNode x = true) :
    (s.getSuccessorsOrNeighbors x).isPanic = false := by
  obtain ⟨hn, he, hadj, hvec⟩ := NP.wf_parts' h
  have A := NP.adjFacts hadj
  have hx := (NP.hasNode_iff hn x).mp hx
  unfold Store.getSuccessorsOrNeighbors
  split
  · rename_i hd
    obtain ⟨l, hl⟩ := NP.getAdjNodes_ok hn s.succMap (fun i l hl => (A.succMap_lt i l hl).2) hx
    simp [Store.getSuccessorNodes, hd, hl, Outcome.unwrap, Outcome.isPanic]
  · obtain ⟨l, hl⟩ := NP.getNeighborNodes_ok hn hvec hx
    simp [hl, Outcome.unwrap, Outcome.isPanic]

/-- the degree maps (they `unwrap` a per-node degree) -/
theorem C20_degree_maps_no_panic (s : Store) (h : s.wf = true) :
    s.getDegreeForAllNodes.isPanic = false ∧ s.getInDegreeForAllNodes.isPanic = false ∧
    s.getOutDegreeForAllNodes.isPanic = false ∧ s.getWeightedDegreeForAllNodes.isPanic = false ∧
    s.degreeCentrality.isPanic = false ∧ s.getAdjacencyTriplets.isPanic = false := by
  obtain ⟨hn, he, hadj, hvec⟩ := NP.wf_parts' h
  have hdeg : ∀ n ∈ s.nodesVec, (s.getNodeDegree n.name).isSome = true := by
    intro n hnm
    obtain ⟨l, hl⟩ := NP.getEdgesForNode_ok hn he hadj (mem_names_of_mem hnm)
    simp [Store.getNodeDegree, hl]
  refine ⟨?_, ?_, ?_, ?_, ?_, ?_⟩
  · obtain ⟨l, hl⟩ := NP.forAllNodes_ok s "get_degree_for_all_nodes: unwrap" s.getNodeDegree hdeg
    unfold Store.getDegreeForAllNodes; rw [hl]; rfl
  · unfold Store.getInDegreeForAllNodes
    split
    · rfl
    · rename_i hd
      simp only [Bool.not_eq_true', Bool.not_eq_false] at hd
      obtain ⟨l, hl⟩ := NP.forAllNodes_ok s "get_in_degree_for_all_nodes: unwrap" s.getNodeInDegree (by
        intro n hnm
        obtain ⟨l, hl⟩ := NP.getInEdgesForNode_ok hn he hadj (mem_names_of_mem hnm) hd
        simp [Store.getNodeInDegree, hl])
      rw [hl]; rfl
  · unfold Store.getOutDegreeForAllNodes
    split
    · rfl
    · rename_i hd
      simp only [Bool.not_eq_true', Bool.not_eq_false] at hd
      obtain ⟨l, hl⟩ := NP.forAllNodes_ok s "get_out_degree_for_all_nodes: unwrap" s.getNodeOutDegree (by
        intro n hnm
        obtain ⟨l, hl⟩ := NP.getOutEdgesForNode_ok hn he hadj (mem_names_of_mem hnm) hd
        simp [Store.getNodeOutDegree, hl])
      rw [hl]; rfl
  · obtain ⟨l, hl⟩ := NP.forAllNodes_ok s "get_weighted_degree_for_all_nodes: unwrap" s.getNodeWeightedDegree (by
      intro n hnm
      obtain ⟨l, hl⟩ := NP.getEdgesForNode_ok hn he hadj (mem_names_of_mem hnm)
      simp [Store.getNodeWeightedDegree, hl])
    unfold Store.getWeightedDegreeForAllNodes; rw [hl]; rfl
  · unfold Store.degreeCentrality
    simp only
    split
    · rfl
    · apply forAllNodes_noPanic
      intro n hnm
      have := hdeg n hnm
      cases hg : s.getNodeDegree n.name with
      | none => rw [hg] at this; cases this
      | some d => rfl
  · unfold Store.getAdjacencyTriplets
    split
    · rfl
    · obtain ⟨l, hl⟩ := Outcome.foldl_ok s.edgesMap (fun kv => kv.2 ≠ [])
        (fun (l : List (Nat × Nat × Int)) (kv : (Nat × Nat) × List Edge) =>
          match kv.2 with
          | [] => Outcome.panic "get_sparse_adjacency_matrix: edges[0]"
          | e :: _ =>
            let w : Int := match e.w with | none => 1 | some x => x
            let (u, v) := kv.1
            let l := l ++ [(u, v, w)]
            Outcome.ok (if !s.specs.directed && u != v then l ++ [(v, u, w)] else l)) []
        (by
          intro kv hkv hnil
          obtain ⟨k, l⟩ := kv
          simp only at hnil; subst hnil
          exact NP.emap_ne_nil he (AL.mem_lookup he.emap_nodup hkv))
        (by
          intro b kv hkv
          obtain ⟨k, l⟩ := kv
          cases l with
          | nil => exact absurd rfl hkv
          | cons e l => exact ⟨_, rfl⟩)
      exact Outcome.isPanic_of_ok hl

/-- absent names come back through the error channel (Result -> NodeNotFound, Option -> None), never as a wrong value -/
theorem C20_absent_name_channel (s : Store) (h : s.wf = true) (x : Nat) (hx : s.hasNode x = false) :
    s.getEdgesForNode x = .err .NodeNotFound ∧ s.getNeighborNodes x = .err .NodeNotFound ∧
    s.getNodeDegree x = none ∧ s.getNodeInDegree x = none ∧ s.getNodeOutDegree x = none ∧
    s.getNodeWeightedDegree x = none ∧
    (s.specs.directed = true → s.getInEdgesForNode x = .err .NodeNotFound ∧ s.getOutEdgesForNode x = .err .NodeNotFound ∧
        s.getSuccessorNodes x = .err .NodeNotFound ∧ s.getPredecessorNodes x = .err .NodeNotFound) := by
  obtain ⟨hn, he, hadj, hvec⟩ := NP.wf_parts' h
  have hx' : x ∉ s.names := by
    intro hm
    rw [(NP.hasNode_iff hn x).mpr hm] at hx; cases hx
  have hg := NP.getNode_none hn hx'
  have h1 := NP.getEdgesForNode_absent hn hx'
  have hin : ∃ k, s.getInEdgesForNode x = .err k := by
    unfold Store.getInEdgesForNode; rw [if_pos hg]; split <;> exact ⟨_, rfl⟩
  have hout : ∃ k, s.getOutEdgesForNode x = .err k := by
    unfold Store.getOutEdgesForNode; rw [if_pos hg]; split <;> exact ⟨_, rfl⟩
  refine ⟨h1, NP.getNeighborNodes_absent hn hx', ?_, ?_, ?_, ?_, ?_⟩
  · simp [Store.getNodeDegree, h1]
  · obtain ⟨k, hk⟩ := hin; simp [Store.getNodeInDegree, hk]
  · obtain ⟨k, hk⟩ := hout; simp [Store.getNodeOutDegree, hk]
  · simp [Store.getNodeWeightedDegree, h1]
  · intro hd
    refine ⟨?_, ?_, ?_, ?_⟩
    · unfold Store.getInEdgesForNode; rw [if_pos hg]; simp [hd]
    · unfold Store.getOutEdgesForNode; rw [if_pos hg]; simp [hd]
    · unfold Store.getSuccessorNodes; simp [hd, NP.getAdjNodes_absent hn _ hx']
    · unfold Store.getPredecessorNodes; simp [hd, NP.getAdjNodes_absent hn _ hx']

/-- the wrong kind of graph comes back as WrongMethod / None -/
theorem C20_wrong_kind_channel (s : Store) (x : Nat) (S : List Nat) :
    (s.specs.directed = false →
        s.getInEdgesForNode x = .err .WrongMethod ∧ s.getOutEdgesForNode x = .err .WrongMethod ∧
        s.getInEdgesForNodes S = .err .WrongMethod ∧ s.getOutEdgesForNodes S = .err .WrongMethod ∧
        s.getNodeInDegree x = none ∧ s.getNodeOutDegree x = none ∧
        s.getInDegreeForAllNodes = .err .WrongMethod ∧ s.getOutDegreeForAllNodes = .err .WrongMethod ∧
        s.reverse = .err .WrongMethod ∧ s.weaklyConnectedComponents = .err .WrongMethod ∧
        s.stronglyConnectedComponents = .err .WrongMethod) ∧
    (s.specs.directed = true →
        s.connectedComponents = .err .WrongMethod ∧ s.nodeConnectedComponent x = .err .WrongMethod ∧
        s.triangles (some S) = .err .WrongMethod ∧ s.transitivity = .err .WrongMethod ∧
        s.generalizedDegree none = .err .WrongMethod) ∧
    (s.specs.multi = true → s.getAdjacencyTriplets = .err .WrongMethod ∧ s.clusteringUnweighted (some S) = .err .WrongMethod) := by
  refine ⟨?_, ?_, ?_⟩
  · intro hd
    have h1 : s.getInEdgesForNode x = .err .WrongMethod := by simp [Store.getInEdgesForNode, hd]
    have h2 : s.getOutEdgesForNode x = .err .WrongMethod := by simp [Store.getOutEdgesForNode, hd]
    refine ⟨h1, h2, ?_, ?_, ?_, ?_, ?_, ?_, ?_, ?_, ?_⟩
    · simp [Store.getInEdgesForNodes, hd]
    · simp [Store.getOutEdgesForNodes, hd]
    · simp [Store.getNodeInDegree, h1]
    · simp [Store.getNodeOutDegree, h2]
    · simp [Store.getInDegreeForAllNodes, hd]
    · simp [Store.getOutDegreeForAllNodes, hd]
    · simp [Store.reverse, hd]
    · simp [Store.weaklyConnectedComponents, Store.ensureDirected, hd]; rfl
    · simp [Store.stronglyConnectedComponents, Store.ensureDirected, hd]; rfl
  · intro hd
    refine ⟨?_, ?_, ?_, ?_, ?_⟩
    · simp [Store.connectedComponents, Store.ensureUndirected, hd]; rfl
    · simp [Store.nodeConnectedComponent, Store.ensureUndirected, hd]; rfl
    · simp [Store.triangles, Store.ensureUndirected, hd]; rfl
    · simp [Store.transitivity, Store.ensureUndirected, hd]; rfl
    · simp [Store.generalizedDegree, Store.ensureUndirected, hd]; rfl
  · intro hm
    refine ⟨?_, ?_⟩
    · simp [Store.getAdjacencyTriplets, hm]
    · simp [Store.clusteringUnweighted, Store.ensureNotMulti, hm]; rfl

/-- `bfs_equal_size_partitions(k)`, k ≥ 1: the part index never runs out of range and the search for an unvisited node
    never fails (the arithmetic of `partition_max_size = n / k + 1`) -/
theorem C20_equal_size_no_panic (s : Store) (h : s.wf = true) (k : Nat) (hk : 0 < k) :
    (s.bfsEqualSizePartitions k).isPanic = false := by
  exact NP.bfsEqualSizePartitions_noPanic s (NP.wf_parts' h).1 (NP.wf_parts' h).2.2.2 k hk

/-- non-vacuity: the sweep's own empty and single-node graphs satisfy the invariant -/
example : (Store.new ⟨true, true, true, .error, .create, .drop⟩).wf = true ∧
    ((Store.new ⟨false, false, true, .keepFirst, .create, .drop⟩).addNode ⟨2, none⟩).wf = true := by
  decide

end Graphrs
