import GraphrsModel.ObsDegen
namespace Graphrs
/-- placeholder while the framework is brought up: replaced by the property theorems -/
theorem C20_expect_plain (k a : Bool) : expect .plain k a = "*" := rfl
end Graphrs
