/-
  The store development put together: the four clauses of the coupling invariant are
  re-established by every call of the mutation API (C01: nodesOk, edgesOk; C02: adjOk; C03: vecOk),
  so the hypothesis `hrest` / `RestPreserved` of the C01 and C15 theorems is discharged and their
  conclusions hold unconditionally - for every GraphSpecs record and every history.
-/
import GraphrsModel.Props.C01
import GraphrsModel.Props.C02
import GraphrsModel.Props.C03
import GraphrsModel.Props.C15
namespace Graphrs

theorem wf_of_parts {s : Store} (h1 : s.nodesOk = true) (h2 : s.edgesOk = true) (h3 : s.adjOk = true) (h4 : s.vecOk = true) :
    s.wf = true := by
  simp [Store.wf, h1, h2, h3, h4]

theorem Core_addNode_wf (s : Store) (n : Node) (h : s.wf = true) : (s.addNode n).wf = true := by
  obtain ⟨h1, h2⟩ := C01_addNode_nodesOk_edgesOk s n h
  have h3 := C02_addNode_adjOk s n h h1 h2
  exact wf_of_parts h1 h2 h3 (C03_addNode_vecOk s n h h1 h2 h3)

theorem Core_addEdge_wf (s : Store) (e : Edge) (h : s.wf = true) : (s.addEdge e).1.wf = true := by
  obtain ⟨h1, h2⟩ := C01_addEdge_nodesOk_edgesOk s e h
  have h3 := C02_addEdge_adjOk s e h h1 h2
  exact wf_of_parts h1 h2 h3 (C03_addEdge_vecOk s e h h1 h2 h3)

theorem Core_addNodes_wf (ns : List Node) : ∀ (s : Store), s.wf = true → (s.addNodes ns).wf = true := by
  induction ns with
  | nil => intro s h; simpa [Store.addNodes] using h
  | cons n ns ih =>
    intro s h
    have := ih (s.addNode n) (Core_addNode_wf s n h)
    simpa [Store.addNodes, List.foldl_cons] using this

theorem Core_addEdges_wf (es : List Edge) : ∀ (s : Store), s.wf = true → (s.addEdges es).1.wf = true := by
  induction es with
  | nil => intro s h; simpa [Store.addEdges] using h
  | cons e es ih =>
    intro s h
    have hw := Core_addEdge_wf s e h
    unfold Store.addEdges
    cases hr : s.addEdge e with
    | mk s' r =>
      rw [hr] at hw
      cases r with
      | none => exact ih s' hw
      | some k => exact hw

/-- **every call of the mutation API preserves the coupling invariant** -/
theorem Core_step_wf (s : Store) (op : Op) (h : s.wf = true) : (s.step op).1.wf = true := by
  cases op with
  | addNode n => exact Core_addNode_wf s n h
  | addNodes ns => exact Core_addNodes_wf ns s h
  | addEdge e => exact Core_addEdge_wf s e h
  | addEdgeTuple u v => exact Core_addEdge_wf s _ h
  | addEdges es => exact Core_addEdges_wf es s h
  | addEdgeTuples es => exact Core_addEdges_wf _ s h
  | newFrom ns es =>
    have hnew : ((Store.new s.specs).addNodes ns).wf = true := Core_addNodes_wf ns _ (C01_new_wf s.specs)
    have hall := Core_addEdges_wf es _ hnew
    simp only [Store.step, Store.newFrom]
    cases hr : ((Store.new s.specs).addNodes ns).addEdges es with
    | mk s' r =>
      rw [hr] at hall
      cases r with
      | none => simpa using hall
      | some k => simpa using h

theorem Core_rest_preserved : RestPreserved := by
  intro t o h _ _
  have := Core_step_wf t o h
  simp only [Store.wf, Bool.and_eq_true] at this
  exact ⟨this.1.2, this.2⟩

/-- **C01, unconditionally**: for every GraphSpecs record and every history, the results of all calls and the final graph
    are those of the abstract machine, and the coupling invariant holds -/
theorem Core_run_refines (sp : Specs) (ops : List Op) :
    (Store.run sp ops).2 = (Abs.run sp ops).2 ∧ (Store.run sp ops).1.wf = true ∧
    AbsEq (Store.run sp ops).1.abs (Abs.run sp ops).1 :=
  C01_run_refines sp ops Core_rest_preserved

/-- every reachable store satisfies the coupling invariant -/
theorem Core_reachable_wf (sp : Specs) (ops : List Op) : (Store.run sp ops).1.wf = true :=
  (Core_run_refines sp ops).2.1

/-- **C03 on every reachable state**: after any history, a node is a traversal neighbour iff an edge is stored,
    with the minimum stored weight -/
theorem Core_C03_reachable (sp : Specs) (ops : List Op) (i j x y : Nat)
    (hx : (Store.run sp ops).1.names[i]? = some x) (hy : (Store.run sp ops).1.names[j]? = some y) :
    let s := (Store.run sp ops).1
    ((∃ w, (j, w) ∈ (s.succVec[i]?).getD []) ↔ s.hasEdge x y = true) ∧
    ((∃ w, (j, w) ∈ (s.succVec[i]?).getD []) →
      Abs.minW ((((s.succVec[i]?).getD []).filter (·.1 == j)).map (·.2)) =
        Abs.minW ((s.abs.between s.specs.directed x y).map (·.w))) :=
  C03_successors_match_store _ (Core_reachable_wf sp ops) i j x y hx hy

/-- **C15, unconditionally** -/
theorem Core_subgraph (s : Store) (h : s.wf = true) (S : List Nat) :
    ∃ t, s.getSubgraph S = .ok t ∧ t.wf = true ∧ t.specs = s.specs ∧ AbsEq t.abs (s.abs.subgraph S) :=
  C15_subgraph Core_rest_preserved s h S

theorem Core_reverse (s : Store) (h : s.wf = true) (hd : s.specs.directed = true) :
    ∃ t, s.reverse = .ok t ∧ t.wf = true ∧ t.specs = s.specs ∧ AbsEq t.abs s.abs.reverse :=
  C15_reverse Core_rest_preserved s h hd

theorem Core_setWeights (s : Store) (h : s.wf = true) (w : W) :
    ∃ t, s.setAllEdgeWeights w = .ok t ∧ t.wf = true ∧ t.specs = s.specs ∧ AbsEq t.abs (s.abs.setWeights w) :=
  C15_setWeights Core_rest_preserved s h w

theorem Core_toSingle (s : Store) (h : s.wf = true) (hm : s.specs.multi = true) :
    ∃ t, s.toSingleEdges = .ok t ∧ t.wf = true ∧ t.specs = { s.specs with multi := false } ∧ AbsEq t.abs s.abs.toSingle :=
  C15_toSingle Core_rest_preserved s h hm

/-- the GraphML round trip rebuilds the same abstract graph (C14 + the rebuild lemma) -/
theorem Core_rebuild (s : Store) (h : s.wf = true) :
    ∃ t, Store.newFrom s.specs s.nodesVec s.allEdges = .ok t ∧ t.wf = true ∧ AbsEq t.abs s.abs :=
  C15_rebuild Core_rest_preserved s h

end Graphrs
