/-
  C13 — Louvain: the whole step-level model `louvainPartitions` terminates (in exact arithmetic).

  Model/LouvainFull.lean runs `computeOneLevel` with the hard-coded sweep fuel `4 n² + 16` and the level loop with
  the level fuel `n + 2`; both return `.ok none` when the fuel runs out - and also when a `risky` near-tie was met or
  a modularity value is undefined.  This file separates the reasons and proves that fuel is never one of them once
  the sweep fuel is `≥ n^n + 1` and the level fuel `≥ n + 2`.

  * `louvainPartitionsF sweepFuel levelFuel` (Lemmas/LouvainFullDefs.lean) is `louvainPartitions` with the two fuels
    as parameters (`levelLoop` of the model already takes both); `louvainPartitions = louvainPartitionsF (4n²+16) (n+2)`
    (`C13_model_is_F`).
  * `louvainPartitionsW sweepFuel levelFuel` is the same function returning `Except Stop _` instead of `Option _`:
    `Stop.sweepFuel`, `Stop.levelFuel`, `Stop.risky`, `Stop.modularityUndefined` say WHY there is no list of levels;
    erasing the reason gives `louvainPartitionsF` back (`C13_model_W_erase`).

  Results.
  1. Level loop (`C13_level_shrinks`, `C13_levelLoop_level_fuel_suffices`, `C13_model_level_fuel_suffices`): a call
     of `compute_one_level` that reports an improvement returns strictly fewer communities than its graph has nodes
     (a node only moves into a non-empty community, and the first move empties a singleton), so every continuing
     iteration of the level loop strictly decreases the number of nodes of the level graph and the level fuel `n + 2`
     is never exhausted - for every store, `m`, resolution, threshold, shuffle and sweep fuel.
  2. `C13_model_terminates`: on every well-formed store without negative weights (NaN allowed; unweighted mode: no
     condition), total weight `m > 0`, `res ≥ 0`, every threshold and shuffle family: with sweep fuel `≥ n^n + 1` and
     level fuel `≥ n + 2`, `louvainPartitionsW` returns `.ok r` with `r` neither `sweepFuel` nor `levelFuel`; hence
     `louvainPartitionsF` returns `.ok none` only for `risky` / `modularityUndefined` (`C13_model_none_reason`) and the
     result does not depend on the fuels (`C13_model_fuel_independent`).
  3. Monotonicity (`C13_sweeps_mono`, `C13_computeOneLevel_mono`, `C13_levelLoop_mono`, `C13_model_F_mono`) and
     `C13_model_agrees_with_unbounded`: whenever the model with its hard-coded fuels returns `some levels`, every
     larger pair of fuels returns the same levels.
-/
import GraphrsModel.Lemmas.LouvainFullLoop
import GraphrsModel.Lemmas.LouvainFullConvert
import GraphrsModel.Props.C13Model
namespace Graphrs
open LouvainFull

/-- the total edge weight of the input as `louvain_partitions` sees it: the sum of the weights (`0` if one is NaN)
    in weighted mode, the number of edges in unweighted mode -/
def LouvainFull.totalWeight (s : Store) (weighted : Bool) : Rat :=
  if weighted then ratW s.sizeWeighted else (s.sizeUnweighted : Rat)

/-! ### the generalised functions are the model -/

/-- **the model is `louvainPartitionsF` at its hard-coded fuels** -/
theorem C13_model_is_F (s : Store) (h : s.wf = true) (weighted : Bool) (res threshold : Rat) (perms : List (List Nat)) :
    louvainPartitions s weighted res threshold perms =
      louvainPartitionsF (4 * s.numNodes * s.numNodes + 16) (s.numNodes + 2) s weighted res threshold perms :=
  LF.louvainPartitions_eq_F s h weighted res threshold perms

/-- **`louvainPartitionsW` is `louvainPartitionsF` with the reason for `none` made explicit** -/
theorem C13_model_W_erase (sweepFuel levelFuel : Nat) (s : Store) (weighted : Bool) (res threshold : Rat)
    (perms : List (List Nat)) :
    louvainPartitionsF sweepFuel levelFuel s weighted res threshold perms =
      (louvainPartitionsW sweepFuel levelFuel s weighted res threshold perms).map' Except.toOption :=
  LF.louvainPartitionsF_erase sweepFuel levelFuel s weighted res threshold perms

/-- the same for one level and for the level loop -/
theorem C13_level_W_erase (lv : Level) (m res : Rat) (partition : List (List Nat)) (perm : List Nat) (fuel : Nat) :
    computeOneLevel lv m res partition perm fuel = (computeOneLevelW lv m res partition perm fuel).map' Except.toOption :=
  LF.computeOneLevel_erase lv m res partition perm fuel

theorem C13_levelLoop_W_erase (weighted : Bool) (res threshold m : Rat) (perms : List (List Nat)) (sweepFuel fuel : Nat)
    (lv : Level) (partition inner : List (List Nat)) (improvement : Bool) (modularity : Rat) (acc : List (List (List Nat))) :
    levelLoop weighted res threshold m perms sweepFuel fuel lv partition inner improvement modularity acc =
      (levelLoopW weighted res threshold m perms sweepFuel fuel lv partition inner improvement modularity acc).map'
        Except.toOption :=
  LF.levelLoop_erase weighted res threshold m perms sweepFuel fuel lv partition inner improvement modularity acc

/-- what the two stops of one level mean: `sweepFuel` = `sweeps` returned `none`; `risky` = `sweeps` finished in a state
    whose `risky` flag is set -/
theorem C13_level_stop_meaning {lv : Level} {n k : Nat} (hg : LF.GoodLevel lv n k) {partition : List (List Nat)}
    (hin : LF.InputOK lv k partition) (m res : Rat) (perm : List Nat) (fuel : Nat) (st : Stop)
    (h : computeOneLevelW lv m res partition perm fuel = .ok (.error st)) :
    ∃ di, degreeInformation lv.g k = .ok di ∧
      ((st = .sweepFuel ∧
          sweeps lv m res (perm.filterMap fun i => lv.g.getAllNodeNames[i]?) fuel (LT.initState partition k di) = .ok none) ∨
       (st = .risky ∧ ∃ s', sweeps lv m res (perm.filterMap fun i => lv.g.getAllNodeNames[i]?) fuel
          (LT.initState partition k di) = .ok (some s') ∧ s'.risky = true)) := by
  unfold computeOneLevelW at h
  simp only [bind, Outcome.bind] at h
  rw [LF.sortNat_eq_range hg.names_nodup hg.names_iff, hin.len] at h
  split at h
  next x di hdi =>
    refine ⟨di, hdi, ?_⟩
    split at h
    next y ost hsw =>
      cases ost with
      | none => cases h; exact Or.inl ⟨rfl, hsw⟩
      | some s' =>
        simp only at h
        by_cases hr : s'.risky = true
        · rw [if_pos hr] at h; cases h; exact Or.inr ⟨rfl, s', hsw, hr⟩
        · rw [if_neg hr] at h; cases h
    all_goals cases h
  all_goals cases h

/-! ### 1. the level loop -/

/-- **every continuing iteration shrinks the level graph**: on a good level graph with `k` nodes, a call of
    `compute_one_level` returns at most `k` communities, and strictly fewer than `k` when it reports an improvement
    (the next level graph, built by `generate_graph`, has one node per returned community) -/
theorem C13_level_shrinks {lv : Level} {n k : Nat} (hg : LF.GoodLevel lv n k) {partition : List (List Nat)}
    (hin : LF.InputOK lv k partition) {m res : Rat} {perm : List Nat} {fuel : Nat}
    {p i : List (List Nat)} {imp : Bool}
    (h : computeOneLevel lv m res partition perm fuel = .ok (some (p, i, imp))) :
    i.length ≤ k ∧ (imp = true → i.length < k) :=
  LF.computeOneLevel_count hg hin h

/-- **the level fuel is never exhausted** (level loop): on every good level graph, for every `m`, resolution,
    threshold, shuffle family and sweep fuel, a level fuel `≥ inner.length + 2` is never the reason why the loop stops -/
theorem C13_levelLoop_level_fuel_suffices (weighted : Bool) (res threshold m : Rat) (perms : List (List Nat))
    (sweepFuel n : Nat) (levelFuel : Nat) (lv : Level) (k : Nat) (partition inner : List (List Nat)) (improvement : Bool)
    (modularity : Rat) (acc : List (List (List Nat)))
    (hg : LF.GoodLevel lv n k) (hwf : lv.g.wf = true) (hmulti : lv.g.specs.multi = false) (hpi : LF.PI lv k partition inner)
    (hfuel : inner.length + 2 ≤ levelFuel) :
    ∃ r, levelLoopW weighted res threshold m perms sweepFuel levelFuel lv partition inner improvement modularity acc = .ok r ∧
      r ≠ .error .levelFuel :=
  LF.levelLoopW_levelFuel weighted res threshold m perms sweepFuel n levelFuel lv k partition inner improvement modularity acc
    hg hwf hmulti hpi (by omega) (fun _ => hfuel)

/-- **the level fuel `n + 2` is never exhausted** (whole model): for every well-formed store, both weight modes, every
    resolution, threshold, shuffle family and every sweep fuel -/
theorem C13_model_level_fuel_suffices (s : Store) (h : s.wf = true) (weighted : Bool) (res threshold : Rat)
    (perms : List (List Nat)) (sweepFuel levelFuel : Nat) (hF2 : s.numNodes + 2 ≤ levelFuel) :
    ∃ r, louvainPartitionsW sweepFuel levelFuel s weighted res threshold perms = .ok r ∧ r ≠ .error .levelFuel := by
  obtain ⟨lv, hlv, hwf, hm, hnum, hg, hmem⟩ := LF.convertGraph_spec s h weighted
  unfold louvainPartitionsW
  simp only [bind, Outcome.bind, hlv]
  exact LF.lpTailW_levelFuel lv s.numNodes hg hwf hm hnum hmem weighted res threshold perms sweepFuel levelFuel hF2

/-- in particular the hard-coded model never returns `none` because of its level fuel -/
theorem C13_model_hardcoded_level_fuel (s : Store) (h : s.wf = true) (weighted : Bool) (res threshold : Rat)
    (perms : List (List Nat)) :
    louvainPartitions s weighted res threshold perms =
      (louvainPartitionsW (4 * s.numNodes * s.numNodes + 16) (s.numNodes + 2) s weighted res threshold perms).map'
        Except.toOption ∧
    ∃ r, louvainPartitionsW (4 * s.numNodes * s.numNodes + 16) (s.numNodes + 2) s weighted res threshold perms = .ok r ∧
      r ≠ .error .levelFuel :=
  ⟨by rw [C13_model_is_F s h, C13_model_W_erase],
   C13_model_level_fuel_suffices s h weighted res threshold perms _ _ (le_refl _)⟩

/-! ### 2. the main theorem -/

/-- `m > 0` for the converted graph -/
theorem LF.mOf_pos (s : Store) (h : s.wf = true) (weighted : Bool) (lv : Level) (hc : convertGraph s weighted = .ok lv)
    (hm : 0 < totalWeight s weighted) : 0 < mOf lv weighted := by
  unfold totalWeight at hm
  unfold mOf
  cases weighted with
  | true =>
    simp only [if_true] at hm ⊢
    rw [LF.convertGraph_sizeWeighted s h lv hc]
    exact hm
  | false =>
    simp only [Bool.false_eq_true, if_false] at hm ⊢
    have : 0 < s.sizeUnweighted := by exact_mod_cast hm
    exact_mod_cast (LF.convertGraph_sizeUnweighted s h lv hc).1 this

/-- in weighted mode `m` is exactly the total weight of the input; in unweighted mode on a single-edge graph it is
    the number of edges -/
theorem C13_model_m_is_total_weight (s : Store) (h : s.wf = true) (weighted : Bool) (lv : Level)
    (hc : convertGraph s weighted = .ok lv) (hs : weighted = true ∨ s.specs.multi = false) :
    mOf lv weighted = totalWeight s weighted := by
  unfold totalWeight mOf
  cases weighted with
  | true => simp only [if_true]; rw [LF.convertGraph_sizeWeighted s h lv hc]
  | false =>
    simp only [Bool.false_eq_true, if_false]
    rcases hs with hs | hs
    · cases hs
    · rw [(LF.convertGraph_sizeUnweighted s h lv hc).2 hs]

/-- **C13 (termination of the whole model).**  For every well-formed store `s` with `n` nodes whose weights, in
    weighted mode, are NaN or non-negative, with positive total weight, for `res ≥ 0`, every threshold and every family
    of shuffle permutations: with a sweep fuel `≥ n^n + 1` and a level fuel `≥ n + 2` the model returns `.ok r` where
    `r` is a list of levels, or `Stop.risky` (a level finished in a state flagged `risky`), or
    `Stop.modularityUndefined` (`modularity` returned `None`) - never `Stop.sweepFuel`, never `Stop.levelFuel`. -/
theorem C13_model_terminates (s : Store) (h : s.wf = true) (weighted : Bool) (res threshold : Rat)
    (perms : List (List Nat))
    (hw : weighted = true → ∀ e ∈ s.allEdges, ∀ w, e.w = some w → 0 ≤ w)
    (hm : 0 < totalWeight s weighted) (hres : 0 ≤ res)
    (sweepFuel levelFuel : Nat) (hF1 : s.numNodes ^ s.numNodes + 1 ≤ sweepFuel) (hF2 : s.numNodes + 2 ≤ levelFuel) :
    ∃ r, louvainPartitionsW sweepFuel levelFuel s weighted res threshold perms = .ok r ∧
      r ≠ .error .sweepFuel ∧ r ≠ .error .levelFuel := by
  obtain ⟨lv, hlv, hwf, hmulti, hnum, hg, hmem⟩ := LF.convertGraph_spec s h weighted
  have hnn : LF.EdgesNN lv.g := LF.convertGraph_edgesNN s h weighted lv hlv hw
  have hm' := LF.mOf_pos s h weighted lv hlv hm
  unfold louvainPartitionsW
  simp only [bind, Outcome.bind, hlv]
  exact LF.lpTailW_terminates lv s.numNodes hg hwf hmulti hnum hmem hnn weighted res threshold perms hm' hres
    sweepFuel levelFuel hF1 hF2

/-- the result is a list of levels, `risky` or `modularityUndefined` -/
theorem C13_model_terminates' (s : Store) (h : s.wf = true) (weighted : Bool) (res threshold : Rat)
    (perms : List (List Nat))
    (hw : weighted = true → ∀ e ∈ s.allEdges, ∀ w, e.w = some w → 0 ≤ w)
    (hm : 0 < totalWeight s weighted) (hres : 0 ≤ res)
    (sweepFuel levelFuel : Nat) (hF1 : s.numNodes ^ s.numNodes + 1 ≤ sweepFuel) (hF2 : s.numNodes + 2 ≤ levelFuel) :
    (∃ levels, louvainPartitionsW sweepFuel levelFuel s weighted res threshold perms = .ok (.ok levels)) ∨
    louvainPartitionsW sweepFuel levelFuel s weighted res threshold perms = .ok (.error .risky) ∨
    louvainPartitionsW sweepFuel levelFuel s weighted res threshold perms = .ok (.error .modularityUndefined) := by
  obtain ⟨r, hr, h1, h2⟩ := C13_model_terminates s h weighted res threshold perms hw hm hres sweepFuel levelFuel hF1 hF2
  rw [hr]
  cases r with
  | ok levels => exact Or.inl ⟨levels, rfl⟩
  | error st =>
    cases st with
    | sweepFuel => exact absurd rfl h1
    | levelFuel => exact absurd rfl h2
    | risky => exact Or.inr (Or.inl rfl)
    | modularityUndefined => exact Or.inr (Or.inr rfl)

/-- **`none` is never caused by fuel**: under the hypotheses of `C13_model_terminates`, `louvainPartitionsF` returns
    `.ok none` only because a level was flagged `risky` or a modularity value was undefined -/
theorem C13_model_none_reason (s : Store) (h : s.wf = true) (weighted : Bool) (res threshold : Rat)
    (perms : List (List Nat))
    (hw : weighted = true → ∀ e ∈ s.allEdges, ∀ w, e.w = some w → 0 ≤ w)
    (hm : 0 < totalWeight s weighted) (hres : 0 ≤ res)
    (sweepFuel levelFuel : Nat) (hF1 : s.numNodes ^ s.numNodes + 1 ≤ sweepFuel) (hF2 : s.numNodes + 2 ≤ levelFuel)
    (hnone : louvainPartitionsF sweepFuel levelFuel s weighted res threshold perms = .ok none) :
    louvainPartitionsW sweepFuel levelFuel s weighted res threshold perms = .ok (.error .risky) ∨
    louvainPartitionsW sweepFuel levelFuel s weighted res threshold perms = .ok (.error .modularityUndefined) := by
  rcases C13_model_terminates' s h weighted res threshold perms hw hm hres sweepFuel levelFuel hF1 hF2 with
    ⟨levels, hl⟩ | hr | hr
  · rw [C13_model_W_erase, hl] at hnone
    cases hnone
  · exact Or.inl hr
  · exact Or.inr hr

/-- the model always returns `.ok _` (no panic, no error), for all fuels -/
theorem C13_model_F_always_ok (s : Store) (h : s.wf = true) (weighted : Bool) (res threshold : Rat)
    (perms : List (List Nat)) (sweepFuel levelFuel : Nat) :
    ∃ r, louvainPartitionsW sweepFuel levelFuel s weighted res threshold perms = .ok r := by
  -- more level fuel than `n + 2` does not change a non-fuel result; for a smaller one use the structural lemmas directly
  obtain ⟨lv, hlv, hwf, hmulti, hnum, hg, hmem⟩ := LF.convertGraph_spec s h weighted
  have hin : LF.InputOK lv s.numNodes ((List.range s.numNodes).map fun i => [i]) := by
    refine ⟨by simp, ?_, ?_⟩
    · intro i hi; rw [LF.getD_map_range, if_pos hi]; simp
    · intro i z hi; rw [LF.getD_map_range, if_pos hi, hmem]
  obtain ⟨hp, hnm⟩ := LF.isPartition_of_part hg hwf (LF.singletons_part s.numNodes)
  obtain ⟨omod, hmod⟩ := LF.modularity_ok lv.g hwf _ hp hnm weighted res
  unfold louvainPartitionsW lpTailW
  simp only [bind, Outcome.bind, hlv, hnum, hmod, Outcome.unwrap]
  cases omod with
  | none => exact ⟨_, rfl⟩
  | some mod0 =>
    simp only
    obtain ⟨r0, hr0⟩ := LF.computeOneLevel_exists hg hwf hmulti hin (mOf lv weighted) res
      (perms[s.numNodes]?.getD []) sweepFuel
    rw [LF.computeOneLevel_erase] at hr0
    cases hr : computeOneLevelW lv (mOf lv weighted) res ((List.range s.numNodes).map fun i => [i])
        (perms[s.numNodes]?.getD []) sweepFuel with
    | err e => rw [hr] at hr0; cases hr0
    | panic e => rw [hr] at hr0; cases hr0
    | ok r =>
      cases r with
      | error st => exact ⟨_, rfl⟩
      | ok r =>
        obtain ⟨p, i, imp⟩ := r
        simp only
        obtain ⟨hpi, _⟩ := LF.computeOneLevel_post hg hin (LF.computeOneLevel_of_W hr)
        obtain ⟨r1, hr1⟩ := LF.levelLoop_exists weighted res threshold (mOf lv weighted) perms sweepFuel s.numNodes
          levelFuel lv s.numNodes p i true mod0 [] hg hwf hmulti hpi
        rw [LF.levelLoop_erase] at hr1
        cases hl : levelLoopW weighted res threshold (mOf lv weighted) perms sweepFuel levelFuel lv p i true mod0 [] with
        | err e => rw [hl] at hr1; cases hr1
        | panic e => rw [hl] at hr1; cases hr1
        | ok r => exact ⟨r, rfl⟩

/-- **the result does not depend on the fuels** once they are `≥ n^n + 1` and `≥ n + 2` -/
theorem C13_model_fuel_independent (s : Store) (h : s.wf = true) (weighted : Bool) (res threshold : Rat)
    (perms : List (List Nat))
    (hw : weighted = true → ∀ e ∈ s.allEdges, ∀ w, e.w = some w → 0 ≤ w)
    (hm : 0 < totalWeight s weighted) (hres : 0 ≤ res)
    (F1 F2 : Nat) (hF1 : s.numNodes ^ s.numNodes + 1 ≤ F1) (hF2 : s.numNodes + 2 ≤ F2) :
    louvainPartitionsW F1 F2 s weighted res threshold perms =
      louvainPartitionsW (s.numNodes ^ s.numNodes + 1) (s.numNodes + 2) s weighted res threshold perms ∧
    louvainPartitionsF F1 F2 s weighted res threshold perms =
      louvainPartitionsF (s.numNodes ^ s.numNodes + 1) (s.numNodes + 2) s weighted res threshold perms := by
  obtain ⟨r, hr, h1, h2⟩ := C13_model_terminates s h weighted res threshold perms hw hm hres
    (s.numNodes ^ s.numNodes + 1) (s.numNodes + 2) (le_refl _) (le_refl _)
  have hnf : LF.NotFuel (louvainPartitionsW (s.numNodes ^ s.numNodes + 1) (s.numNodes + 2) s weighted res threshold perms) := by
    rw [hr]
    exact ⟨fun hc => h1 (by injection hc), fun hc => h2 (by injection hc)⟩
  have hW := LF.louvainPartitionsW_mono hF1 hF2 s weighted res threshold perms hnf
  exact ⟨hW, by rw [C13_model_W_erase, C13_model_W_erase, hW]⟩

/-! ### 3. monotonicity in the fuel -/

/-- if `sweeps` returns `some st'` with fuel `F`, it returns the same `some st'` with every fuel `≥ F` -/
theorem C13_sweeps_mono {lv : Level} {m res : Rat} {order : List Nat} {F F' : Nat} {st st' : LState} (hle : F ≤ F')
    (h : sweeps lv m res order F st = .ok (some st')) : sweeps lv m res order F' st = .ok (some st') :=
  LF.sweeps_mono hle h

theorem C13_computeOneLevel_mono {lv : Level} {m res : Rat} {partition : List (List Nat)} {perm : List Nat} {F F' : Nat}
    {r : List (List Nat) × List (List Nat) × Bool} (hle : F ≤ F')
    (h : computeOneLevel lv m res partition perm F = .ok (some r)) :
    computeOneLevel lv m res partition perm F' = .ok (some r) :=
  LF.computeOneLevel_mono hle h

theorem C13_levelLoop_mono {weighted : Bool} {res threshold m : Rat} {perms : List (List Nat)} {F1 F1' F2 F2' : Nat}
    (h1 : F1 ≤ F1') (h2 : F2 ≤ F2') {lv : Level} {partition inner : List (List Nat)} {improvement : Bool}
    {modularity : Rat} {acc levels : List (List (List Nat))}
    (h : levelLoop weighted res threshold m perms F1 F2 lv partition inner improvement modularity acc = .ok (some levels)) :
    levelLoop weighted res threshold m perms F1' F2' lv partition inner improvement modularity acc = .ok (some levels) :=
  LF.levelLoop_mono h1 h2 h

theorem C13_model_F_mono {F1 F1' F2 F2' : Nat} (h1 : F1 ≤ F1') (h2 : F2 ≤ F2') {s : Store} {weighted : Bool}
    {res threshold : Rat} {perms : List (List Nat)} {levels : List (List (List Nat))}
    (h : louvainPartitionsF F1 F2 s weighted res threshold perms = .ok (some levels)) :
    louvainPartitionsF F1' F2' s weighted res threshold perms = .ok (some levels) :=
  LF.louvainPartitionsF_mono h1 h2 h

/-- a stop that is not a fuel stop (`risky`, `modularityUndefined`) is also the result for all larger fuels -/
theorem C13_model_W_mono {F1 F1' F2 F2' : Nat} (h1 : F1 ≤ F1') (h2 : F2 ≤ F2') (s : Store) (weighted : Bool)
    (res threshold : Rat) (perms : List (List Nat))
    (h : louvainPartitionsW F1 F2 s weighted res threshold perms ≠ .ok (.error .sweepFuel) ∧
         louvainPartitionsW F1 F2 s weighted res threshold perms ≠ .ok (.error .levelFuel)) :
    louvainPartitionsW F1' F2' s weighted res threshold perms = louvainPartitionsW F1 F2 s weighted res threshold perms :=
  LF.louvainPartitionsW_mono h1 h2 s weighted res threshold perms h

/-- **the hard-coded fuels agree with unbounded fuel whenever they produce a result**: if the model returns
    `some levels`, so does `louvainPartitionsF` for all fuels `≥ 4 n² + 16` and `≥ n + 2` - in particular for fuels that
    are also `≥ n^n + 1`, for which (`C13_model_terminates`) fuel is never the reason for `none` -/
theorem C13_model_agrees_with_unbounded (s : Store) (h : s.wf = true) (weighted : Bool) (res threshold : Rat)
    (perms : List (List Nat)) (levels : List (List (List Nat)))
    (hl : louvainPartitions s weighted res threshold perms = .ok (some levels))
    (F1 F2 : Nat) (hF1 : 4 * s.numNodes * s.numNodes + 16 ≤ F1) (hF2 : s.numNodes + 2 ≤ F2) :
    louvainPartitionsF F1 F2 s weighted res threshold perms = .ok (some levels) := by
  rw [C13_model_is_F s h] at hl
  exact LF.louvainPartitionsF_mono hF1 hF2 hl

/-- conversely, when the model returns `none` although larger fuels give levels, the reason was its sweep fuel
    `4 n² + 16` (never its level fuel) -/
theorem C13_model_none_vs_unbounded (s : Store) (h : s.wf = true) (weighted : Bool) (res threshold : Rat)
    (perms : List (List Nat)) (hnone : louvainPartitions s weighted res threshold perms = .ok none)
    (F1 F2 : Nat) (hF1 : 4 * s.numNodes * s.numNodes + 16 ≤ F1) (hF2 : s.numNodes + 2 ≤ F2)
    (levels : List (List (List Nat))) (hl : louvainPartitionsF F1 F2 s weighted res threshold perms = .ok (some levels)) :
    louvainPartitionsW (4 * s.numNodes * s.numNodes + 16) (s.numNodes + 2) s weighted res threshold perms =
      .ok (.error .sweepFuel) := by
  obtain ⟨r, hr, hlf⟩ := C13_model_level_fuel_suffices s h weighted res threshold perms
    (4 * s.numNodes * s.numNodes + 16) (s.numNodes + 2) (le_refl _)
  by_contra hsf
  have hnf : LF.NotFuel (louvainPartitionsW (4 * s.numNodes * s.numNodes + 16) (s.numNodes + 2) s weighted res threshold perms) := by
    refine ⟨hsf, ?_⟩
    rw [hr]
    intro hc
    exact hlf (by injection hc)
  have hW := LF.louvainPartitionsW_mono hF1 hF2 s weighted res threshold perms hnf
  rw [C13_model_is_F s h, C13_model_W_erase] at hnone
  rw [C13_model_W_erase, hW] at hl
  rw [hnone] at hl
  cases hl

/-! ### non-vacuity -/

/-- the triangle with a pendant node of Props/C13Termination.lean (weights 2, 1, 1, 1) meets the hypotheses of
    `C13_model_terminates` in weighted mode ... -/
theorem C13T.exStore_hyps : C13T.exStore.wf = true ∧ C13T.exStore.numNodes = 4 ∧
    (∀ e ∈ C13T.exStore.allEdges, ∀ w, e.w = some w → 0 ≤ w) ∧ totalWeight C13T.exStore true = 5 ∧
    totalWeight C13T.exStore false = 4 := by
  refine ⟨Core_reachable_wf _ _, by decide +kernel, C13T.exLevel_ok.2.2.2.1, ?_, ?_⟩
  · have : C13T.exStore.sizeWeighted = some 5 := by decide +kernel
    unfold totalWeight
    rw [if_pos rfl, this]
    simp [ratW]
  · have : C13T.exStore.sizeUnweighted = 4 := by decide +kernel
    unfold totalWeight
    rw [if_neg (by simp), this]
    norm_num

example (threshold : Rat) (perms : List (List Nat)) :
    ∃ r, louvainPartitionsW (4 ^ 4 + 1) 6 C13T.exStore true 1 threshold perms = .ok r ∧
      r ≠ .error .sweepFuel ∧ r ≠ .error .levelFuel := by
  obtain ⟨hwf, hn, hw, hm, _⟩ := C13T.exStore_hyps
  have := C13_model_terminates C13T.exStore hwf true 1 threshold perms (fun _ => hw) (by rw [hm]; norm_num) (by norm_num)
    (4 ^ 4 + 1) 6 (by rw [hn]) (by rw [hn])
  exact this

/-- ... and in unweighted mode -/
example (threshold : Rat) (perms : List (List Nat)) :
    ∃ r, louvainPartitionsW (4 ^ 4 + 1) 6 C13T.exStore false (3 / 2) threshold perms = .ok r ∧
      r ≠ .error .sweepFuel ∧ r ≠ .error .levelFuel := by
  obtain ⟨hwf, hn, _, _, hm⟩ := C13T.exStore_hyps
  exact C13_model_terminates C13T.exStore hwf false (3 / 2) threshold perms (fun hc => by cases hc) (by rw [hm]; norm_num)
    (by norm_num) (4 ^ 4 + 1) 6 (by rw [hn]) (by rw [hn])

/-- the directed example of Props/C13Termination.lean -/
theorem C13T.exStoreD_hyps : C13T.exStoreD.wf = true ∧ C13T.exStoreD.numNodes = 3 ∧
    (∀ e ∈ C13T.exStoreD.allEdges, ∀ w, e.w = some w → 0 ≤ w) ∧ totalWeight C13T.exStoreD true = 5 := by
  refine ⟨Core_reachable_wf _ _, by decide +kernel, C13T.exLevelD_ok.2.2.2.2.1, ?_⟩
  have : C13T.exStoreD.sizeWeighted = some 5 := by decide +kernel
  unfold totalWeight
  rw [if_pos rfl, this]
  simp [ratW]

example (threshold : Rat) (perms : List (List Nat)) (F1 F2 : Nat) (h1 : 28 ≤ F1) (h2 : 5 ≤ F2) :
    louvainPartitionsF F1 F2 C13T.exStoreD true 1 threshold perms =
      louvainPartitionsF 28 5 C13T.exStoreD true 1 threshold perms := by
  obtain ⟨hwf, hn, hw, hm⟩ := C13T.exStoreD_hyps
  have := (C13_model_fuel_independent C13T.exStoreD hwf true 1 threshold perms (fun _ => hw) (by rw [hm]; norm_num)
    (by norm_num) F1 F2 (by rw [hn]; exact h1) (by rw [hn]; exact h2)).2
  rw [hn] at this
  exact this

end Graphrs
