/-
  C04, path lists, on the stores the mutation API can build: the traversal lists name each neighbour at most once
  (`Store.rowsNodup`, an invariant of every reachable store: `C03_rows_reachable`), so there are no two parallel
  arcs `v → u` (`v ≠ u`) at all and `C04_dijkstra_model_all_paths_corrected` applies: all shortest paths, each once.
-/
import GraphrsModel.Props.C04Paths
import GraphrsModel.Props.C03Rows
namespace Graphrs

/-- a row that names `u ≠ v` at most once carries at most one arc `v → u` -/
theorem rowArcs_count_le (weighted dir : Bool) (v u : Nat) (m : Int) (hvu : v ≠ u) (row : List Adj) :
    (rowArcs weighted v row).count (v, u, m) ≤ ((row.filter (fun a => dir || a.1 != v)).map (·.1)).count u := by
  induction row with
  | nil => simp [rowArcs]
  | cons a row ih =>
    by_cases hau : a.1 = u
    · have hp : (dir || a.1 != v) = true := by
        have : a.1 ≠ v := by rw [hau]; exact fun e => hvu e.symm
        simp [this]
      rw [List.filter_cons, if_pos hp, List.map_cons, hau, List.count_cons_self]
      cases hc : (if weighted then a.2 else some 1) with
      | none => rw [rowArcs_cons_none hc]; omega
      | some c =>
        rw [rowArcs_cons_some hc]
        have := @List.count_le_count_cons _ _ (v, u, m) (v, a.1, c) (rowArcs weighted v row)
        have h2 : ((v, a.1, c) :: rowArcs weighted v row).count (v, u, m) ≤ (rowArcs weighted v row).count (v, u, m) + 1 := by
          rw [List.count_cons]; split <;> omega
        omega
    · have hle : ((row.filter (fun a => dir || a.1 != v)).map (·.1)).count u ≤
          (((a :: row).filter (fun a => dir || a.1 != v)).map (·.1)).count u := by
        rw [List.filter_cons]
        split
        · rw [List.map_cons]; exact List.count_le_count_cons
        · exact Nat.le_refl _
      cases hc : (if weighted then a.2 else some 1) with
      | none => rw [rowArcs_cons_none hc]; omega
      | some c =>
        rw [rowArcs_cons_some hc, List.count_cons]
        have : ((v, a.1, c) == (v, u, m)) = false := by
          simp only [beq_eq_false_iff_ne, ne_eq, Prod.mk.injEq, not_and]
          intro _ e; exact absurd e hau
        simp only [this, Bool.false_eq_true, if_false]
        omega

theorem flatMap_rowArcs_count_le (weighted dir : Bool) (v u : Nat) (m : Int) (hvu : v ≠ u) :
    ∀ (L : List (List Adj × Nat)), (L.map (·.2)).Nodup →
      (∀ r ∈ L, ((r.1.filter (fun a => dir || a.1 != r.2)).map (·.1)).Nodup) →
      (L.flatMap fun r => rowArcs weighted r.2 r.1).count (v, u, m) ≤ 1 := by
  intro L
  induction L with
  | nil => intro _ _; simp
  | cons r L ih =>
    intro hnd hrow
    rw [List.map_cons, List.nodup_cons] at hnd
    rw [List.flatMap_cons, List.count_append]
    by_cases hr : r.2 = v
    · have h1 : (rowArcs weighted r.2 r.1).count (v, u, m) ≤ 1 := by
        rw [hr]
        refine Nat.le_trans (rowArcs_count_le weighted dir v u m hvu r.1) ?_
        have := hrow r (List.mem_cons_self ..)
        rw [hr] at this
        exact List.nodup_iff_count.1 this u
      have h2 : (L.flatMap fun r => rowArcs weighted r.2 r.1).count (v, u, m) = 0 := by
        apply List.count_eq_zero_of_not_mem
        intro hm
        rw [List.mem_flatMap] at hm
        obtain ⟨r', hr', hm'⟩ := hm
        have := rowArcs_src _ hm'
        simp only at this
        exact hnd.1 (by rw [hr, this]; exact List.mem_map.2 ⟨r', hr', rfl⟩)
      omega
    · have h1 : (rowArcs weighted r.2 r.1).count (v, u, m) = 0 := by
        apply List.count_eq_zero_of_not_mem
        intro hm
        exact hr (rowArcs_src _ hm).symm
      have := ih hnd.2 (fun r' hr' => hrow r' (List.mem_cons_of_mem _ hr'))
      omega

/-- on a store whose traversal lists name each neighbour at most once there are no parallel arcs `v → u`, `v ≠ u` -/
theorem idxArcs_count_le_one (s : Store) (weighted : Bool) (hr : s.rowsNodup = true) (v u : Nat) (m : Int)
    (hvu : v ≠ u) : (s.idxArcs weighted).count (v, u, m) ≤ 1 := by
  rw [idxArcs_eq]
  apply flatMap_rowArcs_count_le weighted s.specs.directed v u m hvu
  · rw [List.zipIdx_map_snd]; exact List.nodup_range' 1
  · unfold Store.rowsNodup at hr
    simp only [Bool.and_eq_true, List.all_eq_true, decide_eq_true_eq] at hr
    exact hr.1

/-- **all shortest paths, each once**, on every store whose traversal lists name each neighbour at most once -/
theorem C04_dijkstra_model_all_paths_rows (s : Store) (weighted : Bool) (source : Nat)
    (hwf : s.vecWf) (hrows : s.rowsNodup = true)
    (hsrc : source < s.nodesVec.length) (hpos : ∀ a ∈ s.idxArcs weighted, 0 < a.2.2)
    (out : List (Nat × SPInfo)) (h : s.dijkstra weighted source none none false true = .ok out) :
    ∀ t i, (t, i) ∈ out → i.paths.Nodup ∧ ∀ p, p ∈ i.paths ↔ IsShortestPath (s.idxArcs weighted) source t p :=
  C04_dijkstra_model_all_paths_corrected s weighted source hwf hsrc hpos
    (fun v u m hvu _ => idxArcs_count_le_one s weighted hrows v u m hvu) out h

/-- in particular on every store reachable through the mutation API (`vecWf` kept as a hypothesis) -/
theorem C04_dijkstra_model_all_paths_reachable (sp : Specs) (ops : List Op) (weighted : Bool) (source : Nat)
    (hwf : (Store.run sp ops).1.vecWf)
    (hsrc : source < (Store.run sp ops).1.nodesVec.length)
    (hpos : ∀ a ∈ (Store.run sp ops).1.idxArcs weighted, 0 < a.2.2)
    (out : List (Nat × SPInfo)) (h : (Store.run sp ops).1.dijkstra weighted source none none false true = .ok out) :
    ∀ t i, (t, i) ∈ out → i.paths.Nodup ∧
      ∀ p, p ∈ i.paths ↔ IsShortestPath ((Store.run sp ops).1.idxArcs weighted) source t p := by
  have := C03_rows_reachable sp ops
  unfold Store.entOk at this
  rw [Bool.and_eq_true] at this
  exact C04_dijkstra_model_all_paths_rows _ weighted source hwf this.1 hsrc hpos out h

end Graphrs
