/-
  Source tie for C04 / C08 (translator `tools/formulas.py`): the relaxation step of `dijkstra` and `dijkstra_basic`, the
  choice between the two searches and the sign convention of the fringe key, re-read from
  src/algorithms/shortest_path/dijkstra.rs on every run (`Generated/FormulasC04.lean`), are the expressions the model uses.
  The model's distances are integers (Model/Dijkstra.lean); the source expressions are typed over ℚ (f64), so each tie goes
  through the cast ℤ → ℚ, which preserves +, <, =.  `relaxFullSrc` / `relaxBasicSrc` restate the model's relaxation with every
  arithmetic expression and every test replaced by the regenerated one; they are proved equal to `relaxFull` / `relaxBasic`.
-/
import GraphrsModel.Generated.FormulasC04
import GraphrsModel.Model.Dijkstra
import Mathlib.Tactic.Ring
import Mathlib.Tactic.NormNum
import Mathlib.Algebra.Order.Field.Rat
import Mathlib.Data.Rat.Cast.Order
namespace Graphrs

theorem C04_src_relaxDist (dv c : Int) : ((dv + c : Int) : Rat) = Src.C04.relaxDist dv c := by
  unfold Src.C04.relaxDist; push_cast; ring

theorem C04_src_relaxDistBasic (dv c : Int) : ((dv + c : Int) : Rat) = Src.C04.relaxDistBasic dv c := by
  unfold Src.C04.relaxDistBasic; push_cast; ring

theorem C04_src_hopCost : ((1 : Int) : Rat) = Src.C04.hopCost ∧ ((1 : Int) : Rat) = Src.C04.hopCostBasic := by
  unfold Src.C04.hopCost Src.C04.hopCostBasic; norm_num

/-- the model takes the cutoff doubled (`cutoff2 = 2·cutoff`, so that half-integers can be handed over) -/
theorem C04_src_overCutoff (c2 d : Int) : overCutoff (some c2) d = Src.C04.overCutoff (d : Rat) ((c2 : Rat) / 2) := by
  unfold overCutoff Src.C04.overCutoff
  rw [decide_eq_decide]
  rw [gt_iff_lt, gt_iff_lt, div_lt_iff₀ (by norm_num : (0 : Rat) < 2)]
  have : ((c2 : Rat) < (d : Rat) * 2) ↔ c2 < d * 2 := by exact_mod_cast Iff.rfl
  rw [this]; omega

theorem C04_src_contradictory (vu du : Int) : decide (vu < du) = Src.C04.contradictory (vu : Rat) (du : Rat) := by
  unfold Src.C04.contradictory; rw [decide_eq_decide]; exact Int.cast_lt.symm

theorem C04_src_improves (vu su : Int) : decide (vu < su) = Src.C04.improves (vu : Rat) (su : Rat) := by
  unfold Src.C04.improves; rw [decide_eq_decide]; exact Int.cast_lt.symm

theorem C04_src_improvesBasic (vu su : Int) : decide (vu < su) = Src.C04.improvesBasic (vu : Rat) (su : Rat) := by
  unfold Src.C04.improvesBasic; rw [decide_eq_decide]; exact Int.cast_lt.symm

theorem C04_src_tie (firstOnly : Bool) (vu su : Int) :
    (!firstOnly && (some su == some vu)) = Src.C04.tie firstOnly (vu : Rat) (su : Rat) := by
  unfold Src.C04.tie
  congr 1
  rw [Bool.eq_iff_iff]
  simp only [beq_iff_eq, Option.some.injEq, decide_eq_true_eq, Int.cast_inj]
  exact eq_comm

theorem C04_src_tieBasic (vu su : Int) : (some su == some vu) = Src.C04.tieBasic (vu : Rat) (su : Rat) := by
  unfold Src.C04.tieBasic
  rw [Bool.eq_iff_iff]
  simp only [beq_iff_eq, Option.some.injEq, decide_eq_true_eq, Int.cast_inj]
  exact eq_comm

theorem C04_src_canUseBasic (target : Option Nat) (cutoff2 : Option Int) (firstOnly withPaths : Bool) :
    canUseBasic target cutoff2 firstOnly withPaths = Src.C04.canUseBasic target.isNone cutoff2.isNone firstOnly withPaths := by
  unfold canUseBasic Src.C04.canUseBasic
  cases firstOnly <;> cases withPaths <;> simp

/-- the fringe stores `-vu_dist` and the loop reads `-fringe_item.distance`: the model stores `vu_dist` itself -/
theorem C04_src_fringe_key (vu : Rat) :
    Src.C04.popDistance (Src.C04.pushDistance vu) = vu ∧ Src.C04.popDistanceBasic (Src.C04.pushDistance vu) = vu := by
  unfold Src.C04.popDistance Src.C04.popDistanceBasic Src.C04.pushDistance; simp

/-! ### the relaxation steps restated over the regenerated expressions -/

/-- `relaxFull` with every expression taken from the source -/
def relaxFullSrc (weighted : Bool) (cutoff : Option Rat) (firstOnly withPaths : Bool) (v : Nat) (dv : Int)
    (st : DState) (adj : Adj) : Except ErrKind DState :=
  let u := adj.1
  let cost : Option Int := if weighted then adj.2 else some 1
  match cost with
  | none => .ok st
  | some c =>
    let vu := dv + c
    if (match cutoff with | none => false | some cu => Src.C04.overCutoff (Src.C04.relaxDist dv c) cu) then .ok st
    else
      match st.dist[u]?.join with
      | some du => if Src.C04.contradictory (Src.C04.relaxDist dv c) du then .error .ContradictoryPaths else .ok st
      | none =>
        let seenU := st.seen[u]?.join
        let lt := match seenU with | none => true | some su => Src.C04.improves (Src.C04.relaxDist dv c) su
        if lt then
          let st := { st with seen := st.seen.set u (some vu), count := st.count + 1,
                              fringe := (vu, st.count + 1, u) :: st.fringe }
          if withPaths then
            let pv := (st.paths[v]?.getD []).map (· ++ [u])
            .ok { st with paths := st.paths.set u pv }
          else .ok st
        else if (match seenU with | none => false | some su => Src.C04.tie firstOnly (Src.C04.relaxDist dv c) su) then
          let st := { st with count := st.count + 1, fringe := (vu, st.count + 1, u) :: st.fringe }
          if withPaths then
            let pv := (st.paths[v]?.getD []).map (· ++ [u])
            .ok { st with paths := st.paths.set u ((st.paths[u]?.getD []) ++ pv) }
          else .ok st
        else .ok st

/-- **the model's relaxation step is the source's**: same sum, same cutoff test, same contradiction test, same improvement
    and tie tests (the cutoff handed to the model doubled) -/
theorem C04_src_relaxFull (weighted : Bool) (cutoff2 : Option Int) (firstOnly withPaths : Bool) (v : Nat) (dv : Int)
    (st : DState) (adj : Adj) :
    relaxFull weighted cutoff2 firstOnly withPaths v dv st adj
      = relaxFullSrc weighted (cutoff2.map fun (c2 : Int) => (c2 : Rat) / 2) firstOnly withPaths v dv st adj := by
  unfold relaxFull relaxFullSrc
  cases hc : (if weighted then adj.2 else some 1 : Option Int) with
  | none => rfl
  | some c =>
    simp only [Src.C04.relaxDist, ← Int.cast_add, ← C04_src_contradictory, ← C04_src_improves, ← C04_src_tie]
    cases cutoff2 with
    | none =>
      simp only [overCutoff]
      cases hd : st.dist[adj.1]?.join <;> cases hs : st.seen[adj.1]?.join <;> simp
    | some c2 =>
      simp only [Option.map_some, ← C04_src_overCutoff]
      cases hd : st.dist[adj.1]?.join <;> cases hs : st.seen[adj.1]?.join <;> simp

/-- `relaxBasic` with every expression taken from the source -/
def relaxBasicSrc (weighted : Bool) (dv : Int) (st : DState) (adj : Adj) : DState :=
  let u := adj.1
  let cost : Option Int := if weighted then adj.2 else some 1
  match cost with
  | none => st
  | some c =>
    let vu := dv + c
    let seenU := st.seen[u]?.join
    let lt := match seenU with | none => true | some su => Src.C04.improvesBasic (Src.C04.relaxDistBasic dv c) su
    if lt then
      { st with seen := st.seen.set u (some vu), count := st.count + 1, fringe := (vu, st.count + 1, u) :: st.fringe }
    else if (match seenU with | none => false | some su => Src.C04.tieBasic (Src.C04.relaxDistBasic dv c) su) then
      { st with count := st.count + 1, fringe := (vu, st.count + 1, u) :: st.fringe }
    else st

theorem C04_src_relaxBasic (weighted : Bool) (dv : Int) (st : DState) (adj : Adj) :
    relaxBasic weighted dv st adj = relaxBasicSrc weighted dv st adj := by
  unfold relaxBasic relaxBasicSrc
  cases hc : (if weighted then adj.2 else some 1 : Option Int) with
  | none => rfl
  | some c =>
    simp only [Src.C04.relaxDistBasic, ← Int.cast_add, ← C04_src_improvesBasic, ← C04_src_tieBasic]
    cases hs : st.seen[adj.1]?.join <;> simp

end Graphrs
