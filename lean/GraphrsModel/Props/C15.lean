/-
  C15 — derived graphs (subgraph, reverse, reweight, collapse) are exactly as specified.

  Each of the four functions builds its result with `new_from_nodes_and_edges` from the source's node
  list and (a selection / transformation of) its stored edges.  Under the coupling invariant the rebuild
  never fails and yields the abstract graph the property describes; the result is a reachable state, so
  C01 - C03 hold of it by the theorems already proved; the source is untouched (the model is functional,
  the Rust functions take `&self`).
-/
import GraphrsModel.Props.C01
import GraphrsModel.Lemmas.Rebuild
namespace Graphrs

/-- the remaining clauses of the invariant are re-established by every mutation (Props/C02.lean, Props/C03.lean) -/
def RestPreserved : Prop :=
  ∀ (t : Store) (o : Op), t.wf = true → (t.step o).1.nodesOk = true → (t.step o).1.edgesOk = true →
    (t.step o).1.adjOk = true ∧ (t.step o).1.vecOk = true

/-- **rebuild lemma**: re-adding a well-formed store's own nodes and stored edges under its own specs
    reproduces the same abstract graph (whatever the iteration order of the edge map) -/
theorem C15_rebuild (hrest : RestPreserved) (s : Store) (h : s.wf = true) :
    ∃ t, Store.newFrom s.specs s.nodesVec s.allEdges = .ok t ∧ t.wf = true ∧ AbsEq t.abs s.abs := by
  obtain ⟨hn, he⟩ := Store.wf_inv h
  have hab := Abs.addEdges_valid s.specs s.nodesVec s.allEdges []
    (fun e hm => ⟨(Store.allEdges_valid he hm).1, (Store.allEdges_valid he hm).2.1⟩)
    (fun e hm => (Store.allEdges_valid he hm).2.2.1)
    (fun e hm => (Store.allEdges_valid he (by simpa using hm)).2.2.2)
    (by
      cases hm : s.specs.multi with
      | true => exact Or.inl rfl
      | false => right; simpa using Store.allEdges_keys_distinct he hm)
  rw [← Abs.addNodes_empty s.nodesVec hn.names_nodup] at hab
  obtain ⟨t, h1, h2, _, h4⟩ := newFrom_sim hrest _ _ _ _ hab
  exact ⟨t, h1, h2, h4⟩

/-- **get_subgraph(S)**: never fails, for any S including foreign names; the nodes of S that exist, in their original order
    with their attributes; exactly the stored edges with both ends in S -/
theorem C15_subgraph (hrest : RestPreserved) (s : Store) (h : s.wf = true) (S : List Nat) :
    ∃ t, s.getSubgraph S = .ok t ∧ t.wf = true ∧ t.specs = s.specs ∧ AbsEq t.abs (s.abs.subgraph S) := by
  obtain ⟨hn, he⟩ := Store.wf_inv h
  have hnd : ((s.nodesVec.filter fun n => S.contains n.name).map (·.name)).Nodup :=
    List.Nodup.sublist (List.Sublist.map _ List.filter_sublist) hn.names_nodup
  have hmemn : ∀ x, x ∈ s.names → S.contains x = true →
      x ∈ (s.nodesVec.filter fun n => S.contains n.name).map (·.name) := by
    intro x hx hS
    simp only [Store.names, List.mem_map] at hx
    obtain ⟨n, hn1, hn2⟩ := hx
    exact List.mem_map.mpr ⟨n, List.mem_filter.mpr ⟨hn1, by rw [hn2]; exact hS⟩, hn2⟩
  have hab := Abs.addEdges_valid s.specs (s.nodesVec.filter fun n => S.contains n.name)
    (s.allEdges.filter fun e => S.contains e.u && S.contains e.v) []
    (fun e hm => by
      rw [List.mem_filter, Bool.and_eq_true] at hm
      have hv := Store.allEdges_valid he hm.1
      exact ⟨hmemn _ hv.1 hm.2.1, hmemn _ hv.2.1 hm.2.2⟩)
    (fun e hm => (Store.allEdges_valid he (List.mem_filter.mp hm).1).2.2.1)
    (fun e hm => by
      rw [List.nil_append] at hm
      exact (Store.allEdges_valid he (List.mem_filter.mp hm).1).2.2.2)
    (by
      cases hm : s.specs.multi with
      | true => exact Or.inl rfl
      | false =>
        right
        rw [List.nil_append]
        exact List.Pairwise.filter _ (Store.allEdges_keys_distinct he hm))
  rw [← Abs.addNodes_empty _ hnd] at hab
  obtain ⟨t, h1, h2, h3, h4⟩ := newFrom_sim hrest _ _ _ _ hab
  refine ⟨t, ?_, h2, h3, h4⟩
  simp only [Store.getSubgraph, Store.getAllNodes, h1, Outcome.unwrap]

/-- **reverse()** on a directed graph flips every edge, keeping nodes, weights and parallel edges -/
theorem C15_reverse (hrest : RestPreserved) (s : Store) (h : s.wf = true) (hd : s.specs.directed = true) :
    ∃ t, s.reverse = .ok t ∧ t.wf = true ∧ t.specs = s.specs ∧ AbsEq t.abs s.abs.reverse := by
  obtain ⟨hn, he⟩ := Store.wf_inv h
  have hab := Abs.addEdges_valid s.specs s.nodesVec (s.allEdges.map Edge.reversed) []
    (fun e hm => by
      obtain ⟨e0, h0, rfl⟩ := List.mem_map.mp hm
      exact ⟨(Store.allEdges_valid he h0).2.1, (Store.allEdges_valid he h0).1⟩)
    (fun e hm => by
      obtain ⟨e0, h0, rfl⟩ := List.mem_map.mp hm
      rcases (Store.allEdges_valid he h0).2.2.1 with h' | h'
      · exact Or.inl h'
      · exact Or.inr (fun hc => h' hc.symm))
    (fun e _ => Or.inl hd)
    (by
      cases hm : s.specs.multi with
      | true => exact Or.inl rfl
      | false =>
        right
        rw [List.nil_append, List.pairwise_map]
        refine List.Pairwise.imp ?_ (Store.allEdges_keys_distinct he hm)
        intro a b hab hc
        apply hab
        simp only [Edge.reversed, Prod.mk.injEq] at hc ⊢
        exact ⟨hc.2, hc.1⟩)
  rw [← Abs.addNodes_empty _ hn.names_nodup] at hab
  obtain ⟨t, h1, h2, h3, h4⟩ := newFrom_sim hrest _ _ _ _ hab
  refine ⟨t, ?_, h2, h3, h4⟩
  simp only [Store.reverse, Store.getAllNodes, hd, h1, Bool.not_true, Bool.false_eq_true, if_false]

/-- applying it twice restores the graph -/
theorem C15_reverse_involutive (a : Abs) : a.reverse.reverse = a := by
  cases a with
  | mk ns es =>
    simp only [Abs.reverse, List.map_map]
    congr 1
    rw [List.map_congr_left (g := id) (fun e _ => by cases e; rfl)]
    exact List.map_id _

/-- **set_all_edge_weights(w)** keeps nodes and edges and sets every weight to w -/
theorem C15_setWeights (hrest : RestPreserved) (s : Store) (h : s.wf = true) (w : W) :
    ∃ t, s.setAllEdgeWeights w = .ok t ∧ t.wf = true ∧ t.specs = s.specs ∧ AbsEq t.abs (s.abs.setWeights w) := by
  obtain ⟨hn, he⟩ := Store.wf_inv h
  have hab := Abs.addEdges_valid s.specs s.nodesVec (s.allEdges.map fun e => { e with w := w }) []
    (fun e hm => by
      obtain ⟨e0, h0, rfl⟩ := List.mem_map.mp hm
      exact ⟨(Store.allEdges_valid he h0).1, (Store.allEdges_valid he h0).2.1⟩)
    (fun e hm => by
      obtain ⟨e0, h0, rfl⟩ := List.mem_map.mp hm
      exact (Store.allEdges_valid he h0).2.2.1)
    (fun e hm => by
      obtain ⟨e0, h0, rfl⟩ := List.mem_map.mp (by simpa using hm)
      exact (Store.allEdges_valid he h0).2.2.2)
    (by
      cases hm : s.specs.multi with
      | true => exact Or.inl rfl
      | false =>
        right
        rw [List.nil_append, List.pairwise_map]
        exact Store.allEdges_keys_distinct he hm)
  rw [← Abs.addNodes_empty _ hn.names_nodup] at hab
  obtain ⟨t, h1, h2, h3, h4⟩ := newFrom_sim hrest _ _ _ _ hab
  refine ⟨t, ?_, h2, h3, h4⟩
  simp only [Store.setAllEdgeWeights, Store.getAllNodes, h1, Outcome.unwrap]

/-- **to_single_edges()** on a multi-edge graph keeps the nodes and replaces each group of parallel edges by one edge whose weight
    is the group's sum (in stored order) -/
theorem C15_toSingle (hrest : RestPreserved) (s : Store) (h : s.wf = true) (hm : s.specs.multi = true) :
    ∃ t, s.toSingleEdges = .ok t ∧ t.wf = true ∧ t.specs = { s.specs with multi := false } ∧ AbsEq t.abs s.abs.toSingle := by
  obtain ⟨hn, he⟩ := Store.wf_inv h
  have hent : ∀ e ∈ s.edges.map Store.collapseEdges, ∃ kv ∈ s.edges, e = Store.collapseEdges kv ∧
      Store.EdgeEntry s kv.1 kv.2 := by
    intro e hm
    obtain ⟨kv, hkv, rfl⟩ := List.mem_map.mp hm
    exact ⟨kv, hkv, rfl, he.edges_ok kv.1 kv.2 (AL.mem_lookup he.edges_nodup hkv)⟩
  have hab := Abs.addEdges_valid { s.specs with multi := false } s.nodesVec (s.edges.map Store.collapseEdges) []
    (fun e hm => by
      obtain ⟨kv, _, rfl, _, _, _, a4, a5, _⟩ := hent e hm
      exact ⟨a4, a5⟩)
    (fun e hm => by
      obtain ⟨kv, _, rfl, _, _, _, _, _, _, a7, _⟩ := hent e hm
      exact a7)
    (fun e hm => by
      rw [List.nil_append] at hm
      obtain ⟨kv, _, rfl, _, _, a3, _⟩ := hent e hm
      exact a3)
    (by
      right
      rw [List.nil_append, List.pairwise_map]
      have := he.edges_nodup
      rw [List.Nodup, List.pairwise_map] at this
      exact this)
  rw [← Abs.addNodes_empty _ hn.names_nodup] at hab
  obtain ⟨t, h1, h2, h3, h4⟩ := newFrom_sim hrest _ _ _ _ hab
  refine ⟨t, ?_, h2, h3, ?_⟩
  · simp only [Store.toSingleEdges, hm, h1, Bool.not_true, Bool.false_eq_true, if_false]
  · rw [Store.abs_toSingle he]; exact h4

/-- the wrong kind of graph is refused with WrongMethod -/
theorem C15_wrong_kind (s : Store) :
    (s.specs.directed = false → s.reverse = .err .WrongMethod) ∧
    (s.specs.multi = false → s.toSingleEdges = .err .WrongMethod) := by
  constructor
  · intro hd; simp [Store.reverse, hd]
  · intro hm; simp [Store.toSingleEdges, hm]

/-- non-vacuity: collapsing parallel edges of an undirected multigraph inserted out of sort order -/
example :
    let sp : Specs := ⟨false, true, true, .error, .create, .error⟩
    let s := (Store.run sp [Op.addEdge ⟨7, 3, some 1, none⟩, Op.addEdge ⟨3, 7, some 2, none⟩, Op.addEdge ⟨7, 7, some 4, none⟩]).1
    (s.toSingleEdges.toOption.map fun t => t.allEdges) = some [⟨3, 7, some 3, none⟩, ⟨7, 7, some 4, none⟩] := by
  decide

end Graphrs
