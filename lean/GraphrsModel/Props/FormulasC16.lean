/-
  Source tie for C16 (translator `tools/formulas.py`, function `presets`): the six `GraphSpecs` constructors of
  src/graph_specs.rs and the spec expressions the three generators build their graphs with (struct-update syntax resolved),
  regenerated into `Generated/Presets.lean`, are the `Specs` records the generator models and their theorems
  (`C16_complete_abs`, `C16_gnp_never_fails`, `C16_gnp_store`, the karate model) use.
-/
import GraphrsModel.Generated.Presets
import GraphrsModel.Model.Generators
import GraphrsModel.ObsGen
namespace Graphrs

theorem C16_src_complete_specs (directed : Bool) :
    completeSpecs directed = (if directed then Src.Presets.completeDirected else Src.Presets.completeUndirected) := by
  cases directed <;> rfl

theorem C16_src_gnp_specs (directed : Bool) :
    gnpSpecs directed = (if directed then Src.Presets.gnpDirected else Src.Presets.gnpUndirected) := by
  cases directed <;> rfl

theorem C16_src_karate_specs : karateSpecs = Src.Presets.karate := rfl

/-- the generators rely on these facts about their specs: a repeated pair or a self-loop would be an error (so that
    `Ok` means "no repeated pair, no self-loop"), and missing nodes are created for `complete_graph` / G(n,p) -/
theorem C16_src_generator_specs_strict :
    Src.Presets.gnpDirected.dedupe = .error ∧ Src.Presets.gnpUndirected.dedupe = .error ∧
    Src.Presets.gnpDirected.selfLoops = false ∧ Src.Presets.gnpUndirected.selfLoops = false ∧
    Src.Presets.gnpDirected.multi = false ∧ Src.Presets.gnpUndirected.multi = false ∧
    Src.Presets.completeDirected.dedupe = .error ∧ Src.Presets.completeUndirected.dedupe = .error ∧
    Src.Presets.gnpDirected.directed = true ∧ Src.Presets.gnpUndirected.directed = false ∧
    Src.Presets.karate.directed = false ∧ Src.Presets.karate.multi = false := by
  decide

/-- the six public constructors, as the documentation of `GraphSpecs` states them -/
theorem C16_src_preset_table :
    Src.Presets.directed = { directed := true, multi := false, selfLoops := false, dedupe := .error, missing := .error, slFalse := .error } ∧
    Src.Presets.directed_create_missing = { Src.Presets.directed with missing := .create } ∧
    Src.Presets.undirected = { Src.Presets.directed with directed := false } ∧
    Src.Presets.undirected_create_missing = { Src.Presets.undirected with missing := .create } ∧
    Src.Presets.multi_directed = { Src.Presets.directed with multi := true, selfLoops := true } ∧
    Src.Presets.multi_undirected = { Src.Presets.undirected with multi := true, selfLoops := true } := by
  decide

end Graphrs
