/-
  C02 — every read API describes one and the same graph.

  Under the coupling invariant `Store.wf` (which holds on every reachable state: C01_run_refines)
  every query of the model - each following the lookup path of the Rust function of the same
  name, through whichever of the twelve indexes that function uses - returns the answer computed
  from the abstract graph `s.abs` (node list + edge list) alone.  This file also re-establishes
  the adjacency-set clause `adjOk` of the invariant after every mutation.
-/
import GraphrsModel.Spec.Inv
import GraphrsModel.Lemmas.C02Nbr
import GraphrsModel.Lemmas.C02Lists
import GraphrsModel.Lemmas.C02Step3
namespace Graphrs
open C02

-- several statements carry hypotheses their proofs do not need (see the notes at the theorems)
set_option linter.unusedVariables false

private theorem wf_parts (s : Store) (h : s.wf = true) :
    s.nodesOk = true ∧ s.edgesOk = true ∧ s.adjOk = true ∧ s.vecOk = true := by
  simp only [Store.wf, Bool.and_eq_true] at h
  exact ⟨h.1.1.1, h.1.1.2, h.1.2, h.2⟩

/-! ### the adjacency-set clause of the invariant is preserved -/

/-- (`h1`, `h2` are not needed: `add_node` touches no edge store and no name-keyed set) -/
theorem C02_addNode_adjOk (s : Store) (n : Node) (h : s.wf = true)
    (h1 : (s.addNode n).nodesOk = true) (h2 : (s.addNode n).edgesOk = true) :
    (s.addNode n).adjOk = true := by
  obtain ⟨hn, he, ha, _⟩ := wf_parts s h
  exact (adjOk_iff _).2 (addNode_J s n (J_of_wf s hn he ha)).adj

theorem C02_addEdge_adjOk (s : Store) (e : Edge) (h : s.wf = true)
    (h1 : (s.addEdge e).1.nodesOk = true) (h2 : (s.addEdge e).1.edgesOk = true) :
    (s.addEdge e).1.adjOk = true := by
  obtain ⟨hn, he, ha, _⟩ := wf_parts s h
  exact addEdge_adjOk s e hn he ha h1 h2

/-! ### node lookups -/

theorem C02_getNode (s : Store) (h : s.wf = true) (x : Nat) : s.getNode x = s.abs.getNode x := by
  exact getNode_eq (nodesP_of s (wf_parts s h).1) x

theorem C02_hasNode (s : Store) (h : s.wf = true) (x : Nat) : s.hasNode x = s.abs.hasNode x := by
  unfold Store.hasNode Abs.hasNode
  rw [C02_getNode s h, Abs.getNode, Bool.eq_iff_iff, List.find?_isSome, List.any_eq_true]

theorem C02_getNodeIndex (s : Store) (h : s.wf = true) (x : Nat) :
    s.getNodeIndex x = (match s.abs.indexOf x with | some i => .ok i | none => .err .NodeNotFound) := by
  have hn := nodesP_of s (wf_parts s h).1
  unfold Store.getNodeIndex Abs.indexOf
  cases hl : alookup s.nodesMap x with
  | some i =>
    have hi := (hn.link x i).1 hl
    have := findIdx_of_names s.nodesVec x i hn.namesNodup hi
    have hlt := hn.idx_lt hl
    simp [Store.abs, this, hlt]
  | none =>
    have : ¬ (s.abs.nodes.findIdx (·.name == x) < s.abs.nodes.length) := by
      rw [List.findIdx_lt_length]
      rintro ⟨nd, hnd, hx⟩
      have : x ∈ s.names := by
        simp only [beq_iff_eq] at hx
        exact hx ▸ List.mem_map_of_mem hnd
      obtain ⟨i, hi⟩ := (hn.mem_names x).1 this
      rw [hl] at hi; cases hi
    simp [this]

theorem C02_getNodeByIndex (s : Store) (h : s.wf = true) (i : Nat) : s.getNodeByIndex i = s.abs.nodes[i]? := by
  exact (nodesP_of s (wf_parts s h).1).rev i

/-! ### pairwise queries -/

/-- every stored edge is found between its own endpoints, and only there
    (holds for any store: `between` filters `allEdges` by a test every edge passes at its own endpoints) -/
theorem C02_allEdges_between (s : Store) (h : s.wf = true) (e : Edge) :
    e ∈ s.allEdges ↔ e ∈ s.abs.between s.specs.directed e.u e.v := by
  simp [Abs.between, Store.abs, Abs.sameKey]

/-- on a single-edge graph `get_edge` returns the stored edge between the two nodes -/
private theorem getNodeIndex_ok (s : Store) (u ui : Nat) (h : alookup s.nodesMap u = some ui) :
    s.getNodeIndex u = .ok ui := by simp [Store.getNodeIndex, h]

theorem C02_getEdge (s : Store) (h : s.wf = true) (hm : s.specs.multi = false) (u v : Nat)
    (hu : s.hasNode u = true) (hv : s.hasNode v = true) :
    s.getEdge u v = (match s.abs.between s.specs.directed u v with
                     | [] => .err .EdgeNotFound
                     | e :: _ => .ok e) := by
  have hn := nodesP_of s (wf_parts s h).1
  have he := edgesP_of s (wf_parts s h).2.1
  obtain ⟨ui, hui⟩ := (hasNode_iff hn u).1 hu
  obtain ⟨vi, hvi⟩ := (hasNode_iff hn v).1 hv
  have e1 : s.getEdge u v = s.getEdgeByIndexes ui vi := by
    simp [Store.getEdge, hm, acontains, hui, hvi, getNodeIndex_ok s u ui hui, getNodeIndex_ok s v vi hvi,
      Outcome.unwrap, bind, Outcome.bind]
  rw [e1]
  unfold Store.getEdgeByIndexes
  rcases edgesByIdx_eq hn he hui hvi with ⟨h1, h2⟩ | ⟨e, l, h1, h2⟩ <;> rw [h1, h2]

/-- on a multi-edge graph `get_edges` returns all parallel edges, in insertion order -/
theorem C02_getEdges (s : Store) (h : s.wf = true) (hm : s.specs.multi = true) (u v : Nat)
    (hu : s.hasNode u = true) (hv : s.hasNode v = true) :
    s.getEdges u v = (match s.abs.between s.specs.directed u v with
                      | [] => .err .EdgeNotFound
                      | l => .ok l) := by
  have hn := nodesP_of s (wf_parts s h).1
  have he := edgesP_of s (wf_parts s h).2.1
  obtain ⟨ui, hui⟩ := (hasNode_iff hn u).1 hu
  obtain ⟨vi, hvi⟩ := (hasNode_iff hn v).1 hv
  have e1 : s.getEdges u v = (match s.edgesByIdx ui vi with
      | none => .err .EdgeNotFound
      | some l => .ok l) := by
    simp [Store.getEdges, hm, acontains, hui, hvi, getNodeIndex_ok s u ui hui, getNodeIndex_ok s v vi hvi,
      Outcome.unwrap, bind, Outcome.bind]
    rfl
  rw [e1]
  rcases edgesByIdx_eq hn he hui hvi with ⟨h1, h2⟩ | ⟨e, l, h1, h2⟩ <;> rw [h1, h2]

private theorem edgesByIdx_symm (s : Store) (hd : s.specs.directed = false) (i j : Nat) :
    s.edgesByIdx i j = s.edgesByIdx j i := by
  have h1 : ∀ i j, s.edgesByIdx i j = alookup s.edgesMap (idxKey s.specs.directed i j) := fun _ _ => rfl
  rw [h1, h1, hd, idxKey_eq_nameKey, nameKey_symm, ← idxKey_eq_nameKey]

/-- on an undirected graph the pairwise queries are symmetric, whatever the name / insertion orders
    (holds for any store: the position key is canonicalised before the lookup) -/
theorem C02_getEdge_symmetric (s : Store) (h : s.wf = true) (hd : s.specs.directed = false) (u v : Nat) :
    s.getEdge u v = s.getEdge v u ∧ s.getEdges u v = s.getEdges v u := by
  unfold Store.getEdge Store.getEdges Store.getEdgeByIndexes Store.getNodeIndex
  cases hu : alookup s.nodesMap u <;> cases hv : alookup s.nodesMap v <;>
    cases hm : s.specs.multi <;>
    simp [acontains, hu, hv, Outcome.unwrap, bind, Outcome.bind, edgesByIdx_symm s hd]

/-- the error channel of the pairwise queries: the wrong kind of graph, then absent nodes -/
theorem C02_pair_errors (s : Store) (u v : Nat) :
    (s.specs.multi = true → s.getEdge u v = .err .WrongMethod) ∧
    (s.specs.multi = false → s.getEdges u v = .err .WrongMethod) ∧
    (s.specs.multi = false → (acontains s.nodesMap u = false ∨ acontains s.nodesMap v = false) → s.getEdge u v = .err .NodeNotFound) ∧
    (s.specs.multi = true → (acontains s.nodesMap u = false ∨ acontains s.nodesMap v = false) → s.getEdges u v = .err .NodeNotFound) := by
  refine ⟨?_, ?_, ?_, ?_⟩
  · intro hm; simp [Store.getEdge, hm]
  · intro hm; simp [Store.getEdges, hm]
  · intro hm hc
    rcases hc with hc | hc <;> simp [Store.getEdge, hm, hc]
  · intro hm hc
    rcases hc with hc | hc <;> simp [Store.getEdges, hm, hc]

/-! ### per-node edge lists -/

private theorem getNode_isNone (s : Store) (x : Nat) (hx : s.hasNode x = true) : (s.getNode x).isNone = false := by
  unfold Store.hasNode at hx
  cases h : s.getNode x <;> simp_all

theorem C02_outEdges (s : Store) (h : s.wf = true) (hd : s.specs.directed = true) (x : Nat) (hx : s.hasNode x = true) :
    ∃ l, s.getOutEdgesForNode x = .ok l ∧ l.Perm (s.abs.outEdges x) := by
  have he := edgesP_of s (wf_parts s h).2.1
  have ha := (adjOk_iff s).1 (wf_parts s h).2.2.1
  unfold Store.getOutEdgesForNode
  simp only [hd, getNode_isNone s x hx, Bool.not_true, Bool.false_eq_true, if_false]
  exact outList s _ he ha hd x

theorem C02_inEdges (s : Store) (h : s.wf = true) (hd : s.specs.directed = true) (x : Nat) (hx : s.hasNode x = true) :
    ∃ l, s.getInEdgesForNode x = .ok l ∧ l.Perm (s.abs.inEdges x) := by
  have he := edgesP_of s (wf_parts s h).2.1
  have ha := (adjOk_iff s).1 (wf_parts s h).2.2.1
  unfold Store.getInEdgesForNode
  simp only [hd, getNode_isNone s x hx, Bool.not_true, Bool.false_eq_true, if_false]
  exact inList s _ he ha hd x

/-- all = in ⊎ out on a directed graph (a self-loop is listed in both), the touching edges on an undirected one -/
theorem C02_edgesForNode (s : Store) (h : s.wf = true) (x : Nat) (hx : s.hasNode x = true) :
    ∃ l, s.getEdgesForNode x = .ok l ∧ l.Perm (s.abs.edgesForNode s.specs.directed x) := by
  have he := edgesP_of s (wf_parts s h).2.1
  have ha := (adjOk_iff s).1 (wf_parts s h).2.2.1
  unfold Store.getEdgesForNode Abs.edgesForNode
  simp only [getNode_isNone s x hx, Bool.false_eq_true, if_false]
  cases hd : s.specs.directed
  · obtain ⟨l, hl, hp⟩ := touchList s "get_edges_for_node: edges.get(succ).unwrap()" he ha hd x
    have hpe := pred_empty s he ha hd x
    unfold Store.setOf at hpe hl
    refine ⟨l, ?_, hp⟩
    have hk : (fun q => if (!false && decide (x > q)) = true then (q, x) else (x, q)) = fun q => nameKey false x q := by
      funext q; rfl
    have hnil : ∀ site, s.flatEdges site [] = .ok [] := fun _ => rfl
    simp only [hpe, List.map_nil, hnil, bind, Outcome.bind, hk, hl, List.nil_append]
  · obtain ⟨l1, hl1, hp1⟩ := inList s "get_edges_for_node: edges.get(pred).unwrap()" he ha hd x
    obtain ⟨l2, hl2, hp2⟩ := outList s "get_edges_for_node: edges.get(succ).unwrap()" he ha hd x
    unfold Store.setOf at hl1 hl2
    refine ⟨l1 ++ l2, ?_, List.Perm.append hp1 hp2⟩
    simp only [bind, Outcome.bind, hl1, Bool.not_true, Bool.false_and, Bool.false_eq_true, if_false, hl2]

theorem C02_node_errors (s : Store) (x : Nat) :
    (s.specs.directed = false → s.getInEdgesForNode x = .err .WrongMethod ∧ s.getOutEdgesForNode x = .err .WrongMethod ∧
        s.getSuccessorNodes x = .err .WrongMethod ∧ s.getPredecessorNodes x = .err .WrongMethod) ∧
    ((s.getNode x).isNone = true → s.getEdgesForNode x = .err .NodeNotFound) := by
  constructor
  · intro hd
    simp [Store.getInEdgesForNode, Store.getOutEdgesForNode, Store.getSuccessorNodes,
      Store.getPredecessorNodes, hd]
  · intro hx
    simp [Store.getEdgesForNode, hx]

/-! ### successor / predecessor / neighbour queries -/

/-- names reached through a position-keyed set = names in the name-keyed set -/
private theorem names_of_idx_set {s : Store} (ms : List (Nat × List Nat)) (ns : List (Nat × List Nat))
    (x i : Nat)
    (hidx : ∀ y j, s.names[j]? = some y → (j ∈ Store.setOf ms i ↔ y ∈ Store.setOf ns x))
    (hnames : ∀ y ∈ Store.setOf ns x, y ∈ s.names) (y : Nat) :
    y ∈ (Store.setOf ms i).filterMap (s.names[·]?) ↔ y ∈ Store.setOf ns x := by
  rw [List.mem_filterMap]
  constructor
  · rintro ⟨j, hj, hy⟩
    exact (hidx y j hy).1 hj
  · intro hy
    obtain ⟨j, hj⟩ := List.mem_iff_getElem?.1 (hnames y hy)
    exact ⟨j, (hidx y j hj).2 hy, hj⟩

theorem C02_successorNodes (s : Store) (h : s.wf = true) (hd : s.specs.directed = true) (x : Nat) (hx : s.hasNode x = true) :
    ∃ l, s.getSuccessorNodes x = .ok l ∧ (∀ y, y ∈ l.map (·.name) ↔ y ∈ s.abs.succ true x) ∧ (l.map (·.name)).Nodup := by
  have hn := nodesP_of s (wf_parts s h).1
  have he := edgesP_of s (wf_parts s h).2.1
  have ha := (adjOk_iff s).1 (wf_parts s h).2.2.1
  obtain ⟨i, hi⟩ := (hasNode_iff hn x).1 hx
  have hxi := (hn.link x i).1 hi
  have hlt : ∀ j ∈ Store.setOf s.succMap i, j < s.nodesVec.length := fun j hj => (ha.succMap_lt hj).2
  refine ⟨(Store.setOf s.succMap i).filterMap (s.nodesVec[·]?), ?_, ?_, ?_⟩
  · unfold Store.getSuccessorNodes
    simp only [hd, Bool.not_true, Bool.false_eq_true, if_false]
    exact getAdjNodes_ok s hn s.succMap x i hi hlt
  · intro y
    rw [names_filterMap, ← hd, mem_abs_succ, ← ha.mem_succ he]
    apply names_of_idx_set s.succMap s.succ x i (fun y j hj => (ha.idx x i y j hxi hj).1)
    intro y hy
    obtain ⟨l, hl, hyl, _⟩ := setOf_mem _ _ _ hy
    exact (ha.succOk _ hl).2.2 y hyl
  · rw [names_filterMap]
    exact nodup_names_filterMap hn _ (setOf_nodup _ _ (fun kv hkv => (ha.succMapOk kv hkv).1))

theorem C02_predecessorNodes (s : Store) (h : s.wf = true) (hd : s.specs.directed = true) (x : Nat) (hx : s.hasNode x = true) :
    ∃ l, s.getPredecessorNodes x = .ok l ∧ (∀ y, y ∈ l.map (·.name) ↔ y ∈ s.abs.pred true x) ∧ (l.map (·.name)).Nodup := by
  have hn := nodesP_of s (wf_parts s h).1
  have he := edgesP_of s (wf_parts s h).2.1
  have ha := (adjOk_iff s).1 (wf_parts s h).2.2.1
  obtain ⟨i, hi⟩ := (hasNode_iff hn x).1 hx
  have hxi := (hn.link x i).1 hi
  have hlt : ∀ j ∈ Store.setOf s.predMap i, j < s.nodesVec.length := fun j hj => (ha.predMap_lt hj).2
  refine ⟨(Store.setOf s.predMap i).filterMap (s.nodesVec[·]?), ?_, ?_, ?_⟩
  · unfold Store.getPredecessorNodes
    simp only [hd, Bool.not_true, Bool.false_eq_true, if_false]
    exact getAdjNodes_ok s hn s.predMap x i hi hlt
  · intro y
    rw [names_filterMap, ← hd, mem_abs_pred, ← ha.mem_pred he]
    apply names_of_idx_set s.predMap s.pred x i (fun y j hj => (ha.idx x i y j hxi hj).2)
    intro y hy
    obtain ⟨l, hl, hyl, _⟩ := setOf_mem _ _ _ hy
    exact (ha.predOk _ hl).2.2 y hyl
  · rw [names_filterMap]
    exact nodup_names_filterMap hn _ (setOf_nodup _ _ (fun kv hkv => (ha.predMapOk kv hkv).1))

theorem C02_neighborNodes (s : Store) (h : s.wf = true) (x : Nat) (hx : s.hasNode x = true) :
    ∃ l, s.getNeighborNodes x = .ok l ∧ (∀ y, y ∈ l.map (·.name) ↔ y ∈ s.abs.nbrs s.specs.directed x) ∧ (l.map (·.name)).Nodup := by
  have hn := nodesP_of s (wf_parts s h).1
  have he := edgesP_of s (wf_parts s h).2.1
  have ha := (adjOk_iff s).1 (wf_parts s h).2.2.1
  obtain ⟨hvs, hvp⟩ := vec_rows s (wf_parts s h).2.2.2
  obtain ⟨i, hi⟩ := (hasNode_iff hn x).1 hx
  have hxi := (hn.link x i).1 hi
  have hilt := hn.idx_lt hi
  have hpl : i < s.predVec.length := by rw [hn.predVecLen]; exact hilt
  have hql : i < s.succVec.length := by rw [hn.succVecLen]; exact hilt
  have hp : s.predVec[i]? = some s.predVec[i] := by simp [hpl]
  have hq : s.succVec[i]? = some s.succVec[i] := by simp [hql]
  have hmem : ∀ j, j ∈ Store.dedupConsecutive (sortNat ((s.predVec[i] ++ s.succVec[i]).map (·.1))) ↔
      (j ∈ Store.setOf s.predMap i ∨ j ∈ Store.setOf s.succMap i) := by
    intro j
    rw [mem_dedupConsecutive, mem_sortNat, List.map_append, List.mem_append, hvp i _ hp, hvs i _ hq]
    constructor
    · rintro (⟨_, a⟩ | ⟨_, a⟩)
      · exact .inl a
      · exact .inr a
    · rintro (a | a)
      · exact .inl ⟨(ha.predMap_lt a).2, a⟩
      · exact .inr ⟨(ha.succMap_lt a).2, a⟩
  have hlt : ∀ j ∈ Store.dedupConsecutive (sortNat ((s.predVec[i] ++ s.succVec[i]).map (·.1))), j < s.nodesVec.length := by
    intro j hj
    rcases (hmem j).1 hj with a | a
    · exact (ha.predMap_lt a).2
    · exact (ha.succMap_lt a).2
  refine ⟨(Store.dedupConsecutive (sortNat ((s.predVec[i] ++ s.succVec[i]).map (·.1)))).filterMap (s.nodesVec[·]?), ?_, ?_, ?_⟩
  · unfold Store.getNeighborNodes
    simp only [acontains, hi, Option.isSome_some, Bool.not_true, Bool.false_eq_true, if_false,
      Store.getNodeIndex, Outcome.unwrap, bind, Outcome.bind, hp, hq]
    exact nodesByIndexes_ok s _ hn _ hlt
  · intro y
    rw [names_filterMap, List.mem_filterMap]
    unfold Abs.nbrs
    rw [mem_dedup, List.mem_append, mem_abs_succ, mem_abs_pred, ← ha.mem_succ he, ← ha.mem_pred he]
    constructor
    · rintro ⟨j, hj, hy⟩
      rcases (hmem j).1 hj with a | a
      · exact .inr ((ha.idx x i y j hxi hy).2.1 a)
      · exact .inl ((ha.idx x i y j hxi hy).1.1 a)
    · rintro (hy | hy)
      · obtain ⟨l, hl, hyl, _⟩ := setOf_mem _ _ _ hy
        obtain ⟨j, hj⟩ := List.mem_iff_getElem?.1 ((ha.succOk _ hl).2.2 y hyl)
        exact ⟨j, (hmem j).2 (.inr ((ha.idx x i y j hxi hj).1.2 hy)), hj⟩
      · obtain ⟨l, hl, hyl, _⟩ := setOf_mem _ _ _ hy
        obtain ⟨j, hj⟩ := List.mem_iff_getElem?.1 ((ha.predOk _ hl).2.2 y hyl)
        exact ⟨j, (hmem j).2 (.inl ((ha.idx x i y j hxi hj).2.2 hy)), hj⟩
  · rw [names_filterMap]
    exact nodup_names_filterMap hn _ (nodup_dedupConsecutive _ (sorted_sortNat _))

/-- the successor / predecessor maps are the neighbour sets of the edge list -/
theorem C02_maps (s : Store) (h : s.wf = true) (x y : Nat) :
    (y ∈ (alookup s.succ x).getD [] ↔ y ∈ s.abs.succ s.specs.directed x) ∧
    (y ∈ (alookup s.pred x).getD [] ↔ y ∈ s.abs.pred s.specs.directed x) := by
  have he := edgesP_of s (wf_parts s h).2.1
  have ha := (adjOk_iff s).1 (wf_parts s h).2.2.1
  rw [mem_abs_succ, mem_abs_pred]
  exact ⟨ha.mem_succ he x y, ha.mem_pred he x y⟩

/-- decidable equality of query outcomes (only to let the kernel evaluate the example below) -/
private instance decEqOutcome {α : Type} [DecidableEq α] : DecidableEq (Outcome α)
  | .ok a, .ok b => if h : a = b then isTrue (h ▸ rfl) else isFalse (fun e => h (Outcome.ok.inj e))
  | .err a, .err b => if h : a = b then isTrue (h ▸ rfl) else isFalse (fun e => h (Outcome.err.inj e))
  | .panic a, .panic b => if h : a = b then isTrue (h ▸ rfl) else isFalse (fun e => h (Outcome.panic.inj e))
  | .ok _, .err _ => isFalse nofun
  | .ok _, .panic _ => isFalse nofun
  | .err _, .ok _ => isFalse nofun
  | .err _, .panic _ => isFalse nofun
  | .panic _, .ok _ => isFalse nofun
  | .panic _, .err _ => isFalse nofun

/-- non-vacuity: an undirected multigraph whose names were inserted out of sort order -/
example :
    let sp : Specs := ⟨false, true, true, .error, .create, .error⟩
    let s := (Store.run sp [Op.addEdge ⟨7, 3, some 1, some 1⟩, Op.addEdge ⟨3, 7, some 2, some 2⟩, Op.addEdgeTuple 7 7]).1
    s.wf = true ∧ s.getEdges 7 3 = s.getEdges 3 7 ∧
    s.getEdges 3 7 = .ok [⟨3, 7, some 1, some 1⟩, ⟨3, 7, some 2, some 2⟩] := by
  decide +kernel

end Graphrs
