/-
  C07 — parallel execution is unobservable (the part a theorem can carry).

  The five parallel call sites are `into_par_iter().map(f).collect::<Vec<_>>()` followed by a
  sequential fold in index order (re-checked syntactically against the current source on every
  run by tools/extract.py `parallel_sites`).  For that shape the collected vector, hence the
  folded result -- including every floating-point operation and its order -- is the same for
  every schedule and every thread count.
-/
import GraphrsModel.Model.Par
namespace Graphrs

/-- invariant of the slot vector while work items complete in any order -/
private def SlotsOk {α β} (f : α → β) (xs : List α) (slots : List (Option β)) : Prop :=
  slots.length = xs.length ∧
  ∀ i, i < xs.length → slots[i]? = some none ∨ slots[i]? = some (xs[i]?.map f)

private theorem step_ok {α β} (f : α → β) (xs : List α) (slots : List (Option β)) (i : Nat)
    (h : SlotsOk f xs slots) :
    SlotsOk f xs (match xs[i]? with | some x => slots.set i (some (f x)) | none => slots) := by
  obtain ⟨hl, hs⟩ := h
  cases hx : xs[i]? with
  | none => exact ⟨hl, hs⟩
  | some x =>
    refine ⟨by simp [hl], ?_⟩
    intro j hj
    by_cases hij : i = j
    · subst hij
      right
      have : i < slots.length := by omega
      simp [this, hx]
    · rcases hs j hj with h1 | h1
      · left; simp [hij, h1]
      · right; simp [hij, h1]

private theorem step_written {α β} (f : α → β) (xs : List α) (slots : List (Option β)) (i j : Nat)
    (hl : slots.length = xs.length)
    (hw : slots[j]? = some (xs[j]?.map f)) (hj : j < xs.length) :
    (match xs[i]? with | some x => slots.set i (some (f x)) | none => slots)[j]? = some (xs[j]?.map f) := by
  cases hx : xs[i]? with
  | none => simpa using hw
  | some x =>
    by_cases hij : i = j
    · subst hij
      have : i < slots.length := by omega
      simp [this, hx]
    · simp [hij, hw]

private theorem fold_ok {α β} (f : α → β) (xs : List α) (sched : List Nat) :
    ∀ slots : List (Option β), SlotsOk f xs slots →
      SlotsOk f xs (sched.foldl (fun slots i =>
        match xs[i]? with | some x => slots.set i (some (f x)) | none => slots) slots) ∧
      (∀ j, j < xs.length → (j ∈ sched ∨ slots[j]? = some (xs[j]?.map f)) →
        (sched.foldl (fun slots i =>
          match xs[i]? with | some x => slots.set i (some (f x)) | none => slots) slots)[j]? = some (xs[j]?.map f)) := by
  induction sched with
  | nil =>
    intro slots h
    refine ⟨h, ?_⟩
    intro j _ hj
    rcases hj with hj | hj
    · cases hj
    · simpa using hj
  | cons i rest ih =>
    intro slots h
    have h' := step_ok f xs slots i h
    obtain ⟨ih1, ih2⟩ := ih _ h'
    refine ⟨by simpa [List.foldl_cons] using ih1, ?_⟩
    intro j hj hcov
    simp only [List.foldl_cons]
    apply ih2 j hj
    rcases hcov with hmem | hw
    · rcases List.mem_cons.mp hmem with rfl | hmem
      · right
        have hjl : j < slots.length := by rw [h.1]; exact hj
        have hx : xs[j]? = some xs[j] := by simp [hj]
        simp [hx, hjl]
      · left; exact hmem
    · right; exact step_written f xs slots i j h.1 hw hj

private theorem allSome_of_all {β} : ∀ (slots : List (Option β)) (ys : List β),
    slots.length = ys.length → (∀ j, j < ys.length → slots[j]? = some (ys[j]?)) → allSome slots = some ys := by
  intro slots
  induction slots with
  | nil =>
    intro ys hl _
    cases ys with
    | nil => rfl
    | cons _ _ => simp at hl
  | cons s rest ih =>
    intro ys hl h
    cases ys with
    | nil => simp at hl
    | cons y ys' =>
      have h0 := h 0 (by simp)
      simp at h0
      subst h0
      have := ih ys' (by simpa using hl) (by
        intro j hj
        have := h (j + 1) (by simp; omega)
        simpa using this)
      simp [allSome, this]

/-- **Indexed collect = sequential map, for every schedule that completes every item.** -/
theorem C07_parCollect_eq_map {α β} (f : α → β) (xs : List α) (sched : List Nat)
    (hcover : ∀ i, i < xs.length → i ∈ sched) :
    parCollect f xs sched = some (xs.map f) := by
  unfold parCollect parCollectSlots
  have h0 : SlotsOk f xs (List.replicate xs.length (none : Option β)) := by
    refine ⟨by simp, ?_⟩
    intro i hi
    left
    simp [hi]
  obtain ⟨hok, hw⟩ := fold_ok f xs sched _ h0
  apply allSome_of_all
  · rw [List.length_map]; exact hok.1
  · intro j hj
    have hj' : j < xs.length := by rw [List.length_map] at hj; exact hj
    have := hw j hj' (Or.inl (hcover j hj'))
    rw [List.getElem?_map]
    exact this

/-- The result does not depend on the schedule. -/
theorem C07_schedule_independent {α β γ} (threshold threads : Nat) (f : α → β) (xs : List α)
    (fold : List β → γ) (s1 s2 : List Nat)
    (h1 : ∀ i, i < xs.length → i ∈ s1) (h2 : ∀ i, i < xs.length → i ∈ s2) :
    dispatch threshold threads f xs s1 fold = dispatch threshold threads f xs s2 fold := by
  unfold dispatch
  rw [C07_parCollect_eq_map f xs s1 h1, C07_parCollect_eq_map f xs s2 h2]

/-- The result does not depend on the number of worker threads: it is the serial result. -/
theorem C07_threads_independent {α β γ} (threshold threads : Nat) (f : α → β) (xs : List α)
    (fold : List β → γ) (sched : List Nat) (h : ∀ i, i < xs.length → i ∈ sched) :
    dispatch threshold threads f xs sched fold = some (fold (xs.map f)) := by
  unfold dispatch
  rw [C07_parCollect_eq_map f xs sched h]
  split <;> rfl

/-- non-vacuity: a reversed schedule on three items -/
example : parCollect (fun x : Nat => x * x) [1, 2, 3] [2, 0, 1] = some [1, 4, 9] := by decide

end Graphrs
