/-
  C20 breadth, part 2: src/algorithms/cluster.  `triangles`, `transitivity`, `clustering` (unweighted, and weighted over
  EVERY scalar record `CScalar α` - in particular `Float`, what the driver runs, and `ℝ`), `generalized_degree`,
  `square_clustering`, `average_clustering`, and the helper functions of the private sub-modules.
-/
import GraphrsModel.Props.C20BreadthBase
import GraphrsModel.Props.C11GenDeg
namespace Graphrs
open C20B C11M

/-! ### the guards -/

private theorem C20_model_ensure_no_panic' (s : Store) :
    s.ensureDirected.isPanic = false ∧ s.ensureUndirected.isPanic = false ∧ s.ensureNotMulti.isPanic = false ∧
    s.ensureWeighted.isPanic = false := by
  refine ⟨?_, ?_, ?_, ?_⟩
  · unfold Store.ensureDirected; split <;> rfl
  · unfold Store.ensureUndirected; split <;> rfl
  · unfold Store.ensureNotMulti; split <;> rfl
  · unfold Store.ensureWeighted; split <;> rfl

private theorem ensureHasNodes_cases (s : Store) (h : s.wf = true) (names : Option (List Nat)) :
    s.ensureHasNodes names = .err .NodeNotFound ∨
    (s.ensureHasNodes names = .ok () ∧ ∀ l, names = some l → ∀ x ∈ l, x ∈ s.names) := by
  unfold Store.ensureHasNodes
  cases names with
  | none => exact .inr ⟨rfl, fun l hl => by cases hl⟩
  | some l =>
    cases hh : s.hasNodes l
    · left; simp [hh]
    · right
      refine ⟨by simp [hh], fun l' hl' => ?_⟩
      cases hl'
      exact (hasNodes_iff s h l).1 hh

private theorem reqT_has (s : Store) (h : s.wf = true) (names : Option (List Nat))
    (hn : ∀ l, names = some l → ∀ x ∈ l, x ∈ s.names) : ∀ x ∈ reqT s names, s.hasNode x = true := by
  intro x hx
  rw [hasNode_iff s h]
  unfold reqT at hx
  cases names with
  | none => exact hx
  | some l =>
    simp only at hx
    split at hx
    · exact hx
    · exact hn l rfl x ((C02.mem_dedup l x).1 hx)

/-! ### helper functions of the private sub-modules (`pub fn` in a private `mod`: callable only from inside the crate;
    stated under the conditions under which the public functions call them) -/

/-- `get_neighbors_of_nodes` (no error channel): names that exist; any graph kind.  All names in the result are nodes. -/
theorem C20_model_neighbors_of_nodes_no_panic (s : Store) (h : s.wf = true) (names : Option (List Nat))
    (hn : ∀ l, names = some l → ∀ x ∈ l, x ∈ s.names) :
    (s.neighborsOfNodes names).isPanic = false ∧
    ∀ m, s.neighborsOfNodes names = .ok m → ∀ kv ∈ m, kv.1 ∈ s.names ∧ ∀ y ∈ kv.2, y ∈ s.names := by
  unfold Store.neighborsOfNodes
  have hall : ∀ x ∈ (match names with
      | none => s.getAllNodeNames
      | some l => if l.isEmpty then s.getAllNodeNames else l), x ∈ s.names := by
    intro x hx
    cases names with
    | none => exact hx
    | some l =>
      simp only at hx
      split at hx
      · exact hx
      · exact hn l rfl x hx
  simp only
  refine np_foldl _ _ (fun (m : List (Nat × List Nat)) => ∀ kv ∈ m, kv.1 ∈ s.names ∧ ∀ y ∈ kv.2, y ∈ s.names) ?_
    (fun _ _ => rfl) (.ok []) ⟨rfl, fun b hb => by
      have : b = [] := (Outcome.ok.inj hb).symm
      subst this; intro kv hkv; cases hkv⟩
  intro m n hnm hP
  obtain ⟨l, hl, hmem⟩ := nbrNodes s h n (hall n hnm)
  simp only [bind, Outcome.bind, namesOf_ok hl, Outcome.unwrap]
  refine ⟨rfl, fun b' hb' => ?_⟩
  cases hb'
  intro kv hkv
  rcases C02.mem_ainsert _ _ _ _ hkv with h1 | h1
  · exact hP kv h1
  · subst h1
    exact ⟨hall n hnm, fun y hy => hmem y ((C02.mem_dedup _ _).1 hy)⟩

/-- `get_adjacent_nodes_without` (no error channel; the crate calls it on directed graphs only): directed graph, a name
    that exists.  All names in the result are nodes. -/
theorem C20_model_adjacent_nodes_without_no_panic (s : Store) (h : s.wf = true) (hd : s.specs.directed = true)
    (x : Nat) (hx : x ∈ s.names) (preds : Bool) :
    ∃ l, s.adjWithout x preds = .ok l ∧ ∀ y ∈ l, y ∈ s.names := by
  have hx' := (hasNode_iff s h x).2 hx
  cases preds
  · exact ⟨_, adjWithout_succ s h hd x hx', fun y hy => mS_names s h hd x hx' y hy⟩
  · exact ⟨_, adjWithout_pred s h hd x hx', fun y hy => mP_names s h hd x hx' y hy⟩

/-- on an UNDIRECTED graph the helper does panic (`get_successor_node_names(..).unwrap()` on `WrongMethod`): the
    hypothesis `directed` above is needed.  Not reachable through the public API (the module is private and
    `clustering` calls it on directed graphs only). -/
example : ((Store.new ⟨false, false, true, .keepFirst, .create, .drop⟩).addNode ⟨2, none⟩).wf = true ∧
    (((Store.new ⟨false, false, true, .keepFirst, .create, .drop⟩).addNode ⟨2, none⟩).adjWithout 2 false).isPanic = true := by
  decide

/-- `get_triangles_and_degrees` (the crate calls it on undirected graphs, after `ensure_has_nodes`) -/
theorem C20_model_triangles_and_degrees_no_panic (s : Store) (h : s.wf = true) (hd : s.specs.directed = false)
    (names : Option (List Nat)) (hn : ∀ l, names = some l → ∀ x ∈ l, x ∈ s.names) :
    (s.trianglesAndDegrees names).isPanic = false :=
  np_of_eq_ok (trianglesAndDegrees_ok s h hd names (reqT_has s h names hn))

/-- `get_directed_triangles_and_degrees` (the crate calls it on directed graphs, after `ensure_has_nodes`) -/
theorem C20_model_directed_triangles_and_degrees_no_panic (s : Store) (h : s.wf = true) (hd : s.specs.directed = true)
    (names : Option (List Nat)) (hn : ∀ l, names = some l → ∀ x ∈ l, x ∈ s.names) :
    (s.directedTrianglesAndDegrees names).isPanic = false := by
  refine np_of_eq_ok (directed_ok s h hd names ?_)
  intro x hx
  rw [hasNode_iff s h]
  cases names with
  | none => exact hx
  | some l => exact hn l rfl x hx

/-! ### the public functions -/

/-- `triangles`: WrongMethod (directed), NodeNotFound (an absent name), a value otherwise -/
theorem C20_model_triangles_no_panic (s : Store) (h : s.wf = true) (names : Option (List Nat)) :
    (s.triangles names).isPanic = false := by
  unfold Store.triangles
  cases hd : s.specs.directed
  · have e1 : s.ensureUndirected = .ok () := by simp [Store.ensureUndirected, hd]
    rcases ensureHasNodes_cases s h names with e2 | ⟨e2, hn⟩
    · simp only [e1, e2, bind, Outcome.bind]; rfl
    · simp only [e1, e2, trianglesAndDegrees_ok s h hd names (reqT_has s h names hn), bind, Outcome.bind]; rfl
  · have e1 : s.ensureUndirected = .err .WrongMethod := by simp [Store.ensureUndirected, hd]
    simp only [e1, bind, Outcome.bind]; rfl

/-- `generalized_degree` (already in Props/C11GenDeg.lean) -/
theorem C20_model_generalized_degree_no_panic (s : Store) (h : s.wf = true) (names : Option (List Nat)) :
    (s.generalizedDegree names).isPanic = false :=
  C11_model_generalized_degree_no_panic s h names

/-- `transitivity`: WrongMethod (directed), 0 on the empty graph, a value otherwise (isolated nodes included) -/
theorem C20_model_transitivity_no_panic (s : Store) (h : s.wf = true) : s.transitivity.isPanic = false := by
  unfold Store.transitivity
  cases hd : s.specs.directed
  · have e1 : s.ensureUndirected = .ok () := by simp [Store.ensureUndirected, hd]
    simp only [e1, bind, Outcome.bind]
    split
    · rfl
    · simp only [trianglesAndDegrees_ok s h hd none (reqT_has s h none (fun l hl => by cases hl))]; rfl
  · have e1 : s.ensureUndirected = .err .WrongMethod := by simp [Store.ensureUndirected, hd]
    simp only [e1, bind, Outcome.bind]; rfl

/-- unweighted `clustering`: WrongMethod (multi-edge), NodeNotFound (an absent name), a value on both directed and
    undirected graphs otherwise -/
theorem C20_model_clustering_unweighted_no_panic (s : Store) (h : s.wf = true) (names : Option (List Nat)) :
    (s.clusteringUnweighted names).isPanic = false := by
  unfold Store.clusteringUnweighted
  cases hm : s.specs.multi
  · have e1 : s.ensureNotMulti = .ok () := by simp [Store.ensureNotMulti, hm]
    rcases ensureHasNodes_cases s h names with e2 | ⟨e2, hn⟩
    · simp only [e1, e2, bind, Outcome.bind]; rfl
    · cases hd : s.specs.directed
      · simp only [e1, e2, trianglesAndDegrees_ok s h hd names (reqT_has s h names hn), bind, Outcome.bind]; rfl
      · have hn' : ∀ x ∈ names.getD s.getAllNodeNames, s.hasNode x = true := by
          intro x hx
          rw [hasNode_iff s h]
          cases names with
          | none => exact hx
          | some l => exact hn l rfl x hx
        simp only [e1, e2, directed_ok s h hd names hn', bind, Outcome.bind]; rfl
  · have e1 : s.ensureNotMulti = .err .WrongMethod := by simp [Store.ensureNotMulti, hm]
    simp only [e1, bind, Outcome.bind]; rfl

/-! ### weighted clustering, over an arbitrary scalar record -/

private theorem nbrNamesU (s : Store) (h : s.wf = true) (x : Nat) (hx : x ∈ s.names) (site : String) :
    ∃ l, (Store.namesOf (s.getNeighborNodes x)).unwrap site = .ok l ∧ ∀ y ∈ l, y ∈ s.names := by
  obtain ⟨l, hl, hmem⟩ := nbrNodes s h x hx
  exact ⟨_, by rw [namesOf_ok hl]; rfl, hmem⟩

/-- `get_weighted_triangles_and_degrees`, any scalar, any graph kind, names that exist -/
theorem C20_model_weighted_triangles_and_degrees_no_panic {α} (S : CScalar α) (s : Store) (h : s.wf = true)
    (names : Option (List Nat)) (hn : ∀ l, names = some l → ∀ x ∈ l, x ∈ s.names) :
    (s.weightedTrianglesAndDegreesG S names).isPanic = false := by
  unfold Store.weightedTrianglesAndDegreesG
  obtain ⟨hnp, hm⟩ := C20_model_neighbors_of_nodes_no_panic s h names hn
  refine np_bind hnp (fun nmap hnmap => ?_)
  have hkv := hm nmap hnmap
  refine np_foldl' _ _ ?_ (fun _ _ => rfl) _
  intro out kv hkvm
  obtain ⟨hk1, hk2⟩ := hkv kv hkvm
  refine np_bind rfl (fun out' _ => ?_)
  refine np_bind ?_ (fun p _ => by obtain ⟨a, b⟩ := p; rfl)
  refine np_foldl' _ _ ?_ (fun _ _ => rfl) _
  intro b u hu
  obtain ⟨seen, tot⟩ := b
  have hu' : u ∈ s.names := hk2 u (List.mem_filter.1 hu).1
  obtain ⟨un, hun, _⟩ := nbrNamesU s h u hu' "get_weighted_triangles_and_degrees_for_node: unwrap"
  refine np_bind rfl (fun q hq => ?_)
  cases hq
  refine np_bind (np_of_eq_ok hun) (fun _ _ => rfl)

/-- `get_all_directed_triangles` (inner loop of `get_directed_weighted_triangles_and_degrees`), any scalar: directed
    graph, predecessor / successor lists consisting of nodes -/
theorem C20_model_all_directed_triangles_no_panic {α} (S : CScalar α) (s : Store) (h : s.wf = true)
    (hd : s.specs.directed = true) (maxW : α) (i : Nat) (ip is : List Nat)
    (hip : ∀ y ∈ ip, y ∈ s.names) (his : ∀ y ∈ is, y ∈ s.names) (iterPreds : Bool) :
    (s.allDirectedTrianglesG S maxW i ip is iterPreds).isPanic = false := by
  unfold Store.allDirectedTrianglesG
  refine np_foldl' _ _ ?_ (fun _ _ => rfl) _
  intro tot j hj
  have hj' : j ∈ s.names := by
    cases iterPreds
    · exact his j hj
    · exact hip j hj
  obtain ⟨jp, hjp, _⟩ := C20_model_adjacent_nodes_without_no_panic s h hd j hj' true
  obtain ⟨js, hjs, _⟩ := C20_model_adjacent_nodes_without_no_panic s h hd j hj' false
  refine np_bind rfl (fun _ _ => ?_)
  refine np_bind (np_of_eq_ok hjp) (fun _ _ => ?_)
  refine np_bind (np_of_eq_ok hjs) (fun _ _ => rfl)

/-- weighted `clustering` over EVERY scalar record (`Float`: `Store.clusteringWeighted`; `ℝ`: C11Weighted):
    WrongMethod (multi-edge), NodeNotFound (an absent name), EdgeWeightNotSpecified (a NaN weight), a value otherwise -/
theorem C20_model_clustering_weighted_no_panic {α} (S : CScalar α) (s : Store) (h : s.wf = true)
    (names : Option (List Nat)) : (s.clusteringWeightedG S names).isPanic = false := by
  unfold Store.clusteringWeightedG
  refine np_bind (C20_model_ensure_no_panic' s).2.2.1 (fun _ _ => ?_)
  rcases ensureHasNodes_cases s h names with e2 | ⟨e2, hn⟩
  · rw [e2]; rfl
  refine np_bind (np_of_eq_ok e2) (fun _ _ => ?_)
  refine np_bind (C20_model_ensure_no_panic' s).2.2.2 (fun _ _ => ?_)
  cases hd : s.specs.directed
  · simp only [Bool.false_eq_true, if_false]
    exact np_bind (C20_model_weighted_triangles_and_degrees_no_panic S s h names hn) (fun _ _ => rfl)
  · simp only [if_true]
    have hall : ∀ x ∈ (match names with | none => s.getAllNodeNames | some l => l), x ∈ s.names := by
      intro x hx
      cases names with
      | none => exact hx
      | some l => exact hn l rfl x hx
    refine np_foldl' _ _ ?_ (fun _ _ => rfl) _
    intro out i hi
    have hi' := hall i hi
    obtain ⟨ip, hip, hipn⟩ := C20_model_adjacent_nodes_without_no_panic s h hd i hi' true
    obtain ⟨is, his, hisn⟩ := C20_model_adjacent_nodes_without_no_panic s h hd i hi' false
    refine np_bind rfl (fun _ _ => ?_)
    refine np_bind (np_of_eq_ok hip) (fun ip' hip' => ?_)
    rw [hip] at hip'; cases hip'
    refine np_bind (np_of_eq_ok his) (fun is' his' => ?_)
    rw [his] at his'; cases his'
    refine np_bind (C20_model_all_directed_triangles_no_panic S s h hd _ i ip is hipn hisn true) (fun _ _ => ?_)
    refine np_bind (C20_model_all_directed_triangles_no_panic S s h hd _ i ip is hipn hisn false) (fun _ _ => rfl)

/-- the `Float` instance the driver executes -/
theorem C20_model_clustering_weighted_float_no_panic (s : Store) (h : s.wf = true) (names : Option (List Nat)) :
    (s.clusteringWeighted names).isPanic = false :=
  C20_model_clustering_weighted_no_panic floatCScalar s h names

/-! ### square clustering (no error channel in the crate: names that exist; BOTH graph kinds) -/

private theorem gnos_np (s : Store) (h : s.wf = true) (x : Nat) (hx : x ∈ s.names) : (s.gnos x).isPanic = false := by
  unfold Store.gnos
  obtain ⟨l, hl, _⟩ := succOrNbrs s h x hx
  exact np_bind (np_of_eq_ok (namesOf_ok hl)) (fun _ _ => rfl)

theorem C20_model_square_coefficient_no_panic (s : Store) (h : s.wf = true) (v : Nat) (hv : s.hasNode v = true) :
    (s.squareCoefficient v).isPanic = false := by
  unfold Store.squareCoefficient
  obtain ⟨l, hl, hmem⟩ := succOrNbrs s h v ((hasNode_iff s h v).1 hv)
  refine np_bind (np_of_eq_ok (namesOf_ok hl)) (fun nb hnb => ?_)
  rw [namesOf_ok hl] at hnb; cases hnb
  refine np_bind ?_ (fun p _ => by obtain ⟨c, q⟩ := p; rfl)
  refine np_foldl' _ _ ?_ (fun _ _ => rfl) _
  intro b uw huw
  obtain ⟨c, q⟩ := b
  rw [pairsOf_eq_pairs] at huw
  obtain ⟨h1, h2⟩ := mem_pairs _ _ huw
  have hu : uw.1 ∈ s.names := hmem _ (List.mem_filter.1 h1).1
  have hw : uw.2 ∈ s.names := hmem _ (List.mem_filter.1 h2).1
  refine np_bind rfl (fun r hr => ?_)
  cases hr
  refine np_bind (gnos_np s h _ hu) (fun _ _ => ?_)
  refine np_bind (gnos_np s h _ hw) (fun _ _ => rfl)

/-- `square_clustering`, directed and undirected, self-loops and parallel edges included -/
theorem C20_model_square_clustering_no_panic (s : Store) (h : s.wf = true) (names : Option (List Nat))
    (hn : ∀ l, names = some l → ∀ x ∈ l, s.hasNode x = true) : (s.squareClustering names).isPanic = false := by
  unfold Store.squareClustering
  simp only
  refine np_foldl' _ _ ?_ (fun _ _ => rfl) _
  intro out v hv
  have hv' : s.hasNode v = true := by
    cases names with
    | none => exact (hasNode_iff s h v).2 hv
    | some l => exact hn l rfl v hv
  refine np_bind rfl (fun _ _ => ?_)
  refine np_bind (C20_model_square_coefficient_no_panic s h v hv') (fun _ _ => rfl)

/-- on an absent name `square_clustering` does panic - in the crate as in the model (`get_successors_or_neighbors`
    unwraps); the function returns a plain `HashMap`, so C20 only asks for names that exist -/
example : (Store.new ⟨false, false, true, .keepFirst, .create, .drop⟩).wf = true ∧
    ((Store.new ⟨false, false, true, .keepFirst, .create, .drop⟩).squareClustering (some [7])).isPanic = true := by
  decide

end Graphrs
