/-
  C11 (model level, continued) — `generalized_degree`: on every well-formed undirected store the model
  `Store.generalizedDegree` returns, for exactly the requested nodes, the histogram of the definition
  `Abs.generalizedDegreeAt` (same bindings; a permutation of the definition's list; literally its key-sorted form, which is
  what the comparison tools print).  Error channel (directed graph → WrongMethod, absent name → NodeNotFound) and
  absence of panics.
-/
import GraphrsModel.Props.C11Model
import GraphrsModel.Lemmas.C11GenDeg
namespace Graphrs
open C11M C11G

private theorem mem_reqT' (s : Store) (names : Option (List Nat)) (x : Nat) : x ∈ reqT s names ↔ x ∈ requestedU s names := by
  unfold reqT requestedU
  cases names with
  | none => exact Iff.rfl
  | some l =>
    by_cases hl : l.isEmpty = true
    · simp only [hl, if_true]; exact Iff.rfl
    · simp only [hl]; exact C11aux.mem_dedup l x

private theorem reqT_nodup (s : Store) (h : s.wf = true) (names : Option (List Nat)) : (reqT s names).Nodup := by
  unfold reqT
  cases names with
  | none => exact names_nodup s h
  | some l =>
    by_cases hl : l.isEmpty = true
    · simp only [hl, if_true]; exact names_nodup s h
    · simp only [hl]; exact C02.nodup_dedup l

/-- the node order `get_triangles_and_degrees` iterates in: first occurrences of the requested names -/
private theorem reqT_eq (s : Store) (h : s.wf = true) (names : Option (List Nat)) :
    reqT s names = dedup (requestedU s names) := by
  have hall : dedup s.getAllNodeNames = s.names := dedup_of_nodup _ (names_nodup s h)
  unfold reqT requestedU
  cases names with
  | none => exact hall.symm
  | some l =>
    by_cases hl : l.isEmpty = true
    · simp only [hl, if_true]; exact hall.symm
    · simp only [hl]; rfl

private theorem ensure_ok' (s : Store) (names : Option (List Nat)) (hn : ∀ x ∈ requestedU s names, s.hasNode x = true) :
    s.ensureHasNodes names = .ok () := by
  unfold Store.ensureHasNodes
  cases names with
  | none => rfl
  | some l =>
    have : s.hasNodes l = true := by
      unfold Store.hasNodes
      rw [List.all_eq_true]
      intro x hx
      apply hn
      unfold requestedU
      have : l.isEmpty = false := by cases l with
        | nil => cases hx
        | cons a l => rfl
      simp only [this, Bool.false_eq_true, if_false]
      exact hx
    simp [this]

private theorem ensureUndirected_ok' (s : Store) (hd : s.specs.directed = false) : s.ensureUndirected = .ok () := by
  simp [Store.ensureUndirected, hd]

/-- the model in closed form: one entry per requested node, in request order, holding that node's `countMap` -/
private theorem gd_ok (s : Store) (h : s.wf = true) (hd : s.specs.directed = false) (names : Option (List Nat))
    (hn : ∀ x ∈ requestedU s names, s.hasNode x = true) :
    s.generalizedDegree names = .ok ((reqT s names).map fun v => (v, (tadOf s v).gdeg)) := by
  unfold Store.generalizedDegree
  simp only [ensureUndirected_ok' s hd, ensure_ok' s names hn,
    trianglesAndDegrees_ok s h hd names (fun x hx => hn x ((mem_reqT' s names x).1 hx)), bind, Outcome.bind]
  congr 1
  rw [List.foldl_map]
  have := foldl_ainsert_fresh (fun v => (tadOf s v).gdeg) (reqT s names) [] (by simpa using reqT_nodup s h names)
  simpa [tad_name] using this

/-- **generalized_degree(v) = the definition's histogram**, for the full node set (`none`, or an empty list) and for every
    requested subset.  On a well-formed undirected store whose requested names are nodes the model returns `.ok m` where
    * the keys of `m` are exactly the requested nodes (in request order, first occurrences), and
    * for every requested `x` the entry `g` of `m` at `x` has the same bindings as `s.abs.generalizedDegreeAt x`
      (`alookup` on both sides), is a permutation of it, and is literally that list sorted by key — the form in which
      the tools compare the two. -/
theorem C11_model_generalized_degree (s : Store) (h : s.wf = true) (hd : s.specs.directed = false) (names : Option (List Nat))
    (hn : ∀ x ∈ requestedU s names, s.hasNode x = true) :
    ∃ m, s.generalizedDegree names = .ok m ∧
      m.map (·.1) = dedup (requestedU s names) ∧
      (∀ x, x ∈ m.map (·.1) ↔ x ∈ requestedU s names) ∧
      ∀ x ∈ requestedU s names, ∃ g, alookup m x = some g ∧
        (∀ t, alookup g t = alookup (s.abs.generalizedDegreeAt x) t) ∧
        g.Perm (s.abs.generalizedDegreeAt x) ∧
        g = isort (fun a b : Nat × Nat => decide (a.1 ≤ b.1)) (s.abs.generalizedDegreeAt x) := by
  have hkeys : ((reqT s names).map fun v => (v, (tadOf s v).gdeg)).map (·.1) = reqT s names := by
    simp [List.map_map, Function.comp_def]
  refine ⟨_, gd_ok s h hd names hn, ?_, ?_, ?_⟩
  · rw [hkeys, reqT_eq s h names]
  · intro x
    rw [hkeys, mem_reqT']
  · intro x hx
    refine ⟨(tadOf s x).gdeg, ?_, tad_gdeg s h hd x (hn x hx)⟩
    rw [C09M.alookup_map_self, if_pos ((mem_reqT' s names x).2 hx)]

/-- the same statement in the shape of `C11_model_triangles`: about any `.ok` result of the model -/
theorem C11_model_generalized_degree_of_ok (s : Store) (h : s.wf = true) (hd : s.specs.directed = false)
    (names : Option (List Nat)) (hn : ∀ x ∈ requestedU s names, s.hasNode x = true)
    (m : List (Nat × List (Nat × Nat))) (hm : s.generalizedDegree names = .ok m) :
    (∀ x, x ∈ m.map (·.1) ↔ x ∈ requestedU s names) ∧
    ∀ x ∈ requestedU s names, ∃ g, alookup m x = some g ∧
      (∀ t, alookup g t = alookup (s.abs.generalizedDegreeAt x) t) ∧
      g.Perm (s.abs.generalizedDegreeAt x) ∧
      g = isort (fun a b : Nat × Nat => decide (a.1 ≤ b.1)) (s.abs.generalizedDegreeAt x) := by
  obtain ⟨m', hm', _, h1, h2⟩ := C11_model_generalized_degree s h hd names hn
  rw [hm] at hm'
  have := Outcome.ok.inj hm'
  subst this
  exact ⟨h1, h2⟩

/-- the restriction to a subset returns the full computation's histograms for exactly those nodes -/
theorem C11_model_generalized_degree_subset (s : Store) (h : s.wf = true) (hd : s.specs.directed = false) (S : List Nat)
    (hS : S ≠ []) (hn : ∀ x ∈ S, s.hasNode x = true) (mAll mS : List (Nat × List (Nat × Nat)))
    (h1 : s.generalizedDegree none = .ok mAll) (h2 : s.generalizedDegree (some S) = .ok mS) :
    ∀ x ∈ S, alookup mS x = alookup mAll x := by
  have hall : ∀ x ∈ requestedU s none, s.hasNode x = true := fun x hx => (hasNode_mem' s h x).2 hx
  have hS' : requestedU s (some S) = S := by
    unfold requestedU
    cases S with
    | nil => exact absurd rfl hS
    | cons a l => rfl
  have t1 := (C11_model_generalized_degree_of_ok s h hd none hall mAll h1).2
  have t2 := (C11_model_generalized_degree_of_ok s h hd (some S) (by rw [hS']; exact hn) mS h2).2
  intro x hx
  obtain ⟨g1, e1, _, _, q1⟩ := t1 x ((hasNode_mem' s h x).1 (hn x hx))
  obtain ⟨g2, e2, _, _, q2⟩ := t2 x (by rw [hS']; exact hx)
  rw [e1, e2, q1, q2]

/-- **error channel**: a directed graph is refused with `WrongMethod` whatever is requested; on an undirected graph a
    requested name that is not a node gives `NodeNotFound` (no well-formedness needed for either) -/
theorem C11_model_generalized_degree_errors (s : Store) (names : Option (List Nat)) :
    (s.specs.directed = true → s.generalizedDegree names = .err .WrongMethod) ∧
    (s.specs.directed = false → ∀ l, names = some l → (∃ x ∈ l, s.hasNode x = false) →
      s.generalizedDegree names = .err .NodeNotFound) := by
  constructor
  · intro hd
    simp [Store.generalizedDegree, Store.ensureUndirected, hd]; rfl
  · intro hd l hl hx
    subst hl
    obtain ⟨x, hx, hxn⟩ := hx
    have hnot : s.hasNodes l = false := by
      unfold Store.hasNodes
      rw [List.all_eq_false]
      exact ⟨x, hx, by simp [hxn]⟩
    unfold Store.generalizedDegree
    simp only [ensureUndirected_ok' s hd, Store.ensureHasNodes, hnot, bind, Outcome.bind]
    rfl

/-- **every outcome is classified, and none is a panic**: on a well-formed store `generalized_degree` answers
    `WrongMethod` (directed), `NodeNotFound` (some requested name is absent) or `.ok` — none of the `unwrap` sites of
    `get_neighbors_of_nodes` / `get_triangles_and_degrees` is reachable -/
theorem C11_model_generalized_degree_outcome (s : Store) (h : s.wf = true) (names : Option (List Nat)) :
    (s.specs.directed = true ∧ s.generalizedDegree names = .err .WrongMethod) ∨
    (s.specs.directed = false ∧ (∃ l, names = some l ∧ ∃ x ∈ l, s.hasNode x = false) ∧
      s.generalizedDegree names = .err .NodeNotFound) ∨
    (s.specs.directed = false ∧ (∀ x ∈ requestedU s names, s.hasNode x = true) ∧
      ∃ m, s.generalizedDegree names = .ok m) := by
  by_cases hd : s.specs.directed = true
  · exact .inl ⟨hd, (C11_model_generalized_degree_errors s names).1 hd⟩
  · have hd' : s.specs.directed = false := by simpa using hd
    right
    by_cases hex : ∃ l, names = some l ∧ ∃ x ∈ l, s.hasNode x = false
    · obtain ⟨l, hl, hx⟩ := hex
      exact .inl ⟨hd', ⟨l, hl, hx⟩, (C11_model_generalized_degree_errors s names).2 hd' l hl hx⟩
    · right
      have hn : ∀ x ∈ requestedU s names, s.hasNode x = true := by
        intro x hx
        cases names with
        | none => exact (hasNode_mem' s h x).2 hx
        | some l =>
          unfold requestedU at hx
          by_cases hl : l.isEmpty = true
          · simp only [hl, if_true] at hx
            exact (hasNode_mem' s h x).2 hx
          · simp only [hl] at hx
            by_cases hxn : s.hasNode x = true
            · exact hxn
            · exact absurd ⟨l, rfl, x, hx, by simpa using hxn⟩ hex
      obtain ⟨m, hm, _⟩ := C11_model_generalized_degree s h hd' names hn
      exact ⟨hd', hn, m, hm⟩

theorem C11_model_generalized_degree_no_panic (s : Store) (h : s.wf = true) (names : Option (List Nat)) :
    (s.generalizedDegree names).isPanic = false := by
  rcases C11_model_generalized_degree_outcome s h names with ⟨_, e⟩ | ⟨_, _, e⟩ | ⟨_, _, m, e⟩ <;> rw [e] <;> rfl

/-- non-vacuity: a triangle 3-5-6 with a pendant node 1, a self-loop at 3 and an isolated node 7 satisfies the hypotheses
    (all nodes, a subset with a repeated name, the empty list); the model's answers and the definition's histograms — at
    node 3 the definition lists `[(1, 2), (0, 1)]` and the model its key-sorted form `[(0, 1), (1, 2)]` -/
example :
    let s := (Store.run ⟨false, false, true, .error, .create, .error⟩
      [Op.addEdgeTuple 3 5, Op.addEdgeTuple 5 6, Op.addEdgeTuple 3 6, Op.addEdgeTuple 1 3, Op.addEdgeTuple 3 3,
       Op.addNode ⟨7, none⟩]).1
    s.wf = true ∧ s.specs.directed = false ∧
    (∀ x ∈ requestedU s none, s.hasNode x = true) ∧ (∀ x ∈ requestedU s (some [3, 1, 3]), s.hasNode x = true) ∧
    (∀ x ∈ requestedU s (some []), s.hasNode x = true) ∧
    (s.generalizedDegree none).toOption = some [(3, [(0, 1), (1, 2)]), (5, [(1, 2)]), (6, [(1, 2)]), (1, [(0, 1)]), (7, [])] ∧
    (s.generalizedDegree (some [3, 1, 3])).toOption = some [(3, [(0, 1), (1, 2)]), (1, [(0, 1)])] ∧
    (s.generalizedDegree (some [])).toOption = (s.generalizedDegree none).toOption ∧
    s.abs.generalizedDegreeAt 3 = [(1, 2), (0, 1)] ∧ s.abs.generalizedDegreeAt 7 = [] ∧
    (s.generalizedDegree (some [1, 9])).isErr = true := by
  decide +kernel

end Graphrs
